//! Generators, the property oracle and the correspondence cases of C01.
use std::collections::BTreeSet;
use std::io::Cursor;
use fbh::prng::Rng;
use fbh::report::{guarded, Report};
use fbh::Ctx;
use crate::asm::*;
use crate::proj::*;

// ---------------------------------------------------------------------------------------------
// the constant pool all methods of one generated class share
pub struct Universe {
	pub pool: Pool,
	pub bsm: Vec<(u16, Vec<u16>)>,
	pub this: u16, pub sup: u16, pub desc_v: u16,
	pub a_code: u16, pub a_lines: u16, pub a_lvt: u16, pub a_lvtt: u16, pub a_smt: u16, pub a_smap: u16, pub a_bsm: u16,
	pub name_x: u16, pub desc_i: u16, pub sig_t: u16,
	/// referencable indices per operand kind 0..=6 (numbering of Opcodes.v)
	pub by_kind: Vec<Vec<u16>>,
	/// entries no valid instruction refers to: Module, Package, MethodHandles with reference_kind 0 and 10, a Dynamic
	/// that is its own bootstrap argument, a Dynamic / InvokeDynamic whose bootstrap method does not exist
	pub extra: Vec<u16>,
}

fn filler(rng: &mut Rng, p: &mut Pool, n: usize) {
	for _ in 0..n {
		match rng.below(6) {
			0 => { p.add(PE::Long(rng.next() as i64)); }
			1 => { p.add(PE::Double(rng.next())); }
			2 => { p.add(PE::Int(rng.next() as i32)); }
			3 => { p.utf8_dup("I"); }              // duplicates of strings used elsewhere
			_ => { let k = p.count(); p.utf8(&format!("u{k}")); }
		}
	}
}

pub fn build_universe(rng: &mut Rng, big: bool) -> Universe {
	let mut p = Pool::new();
	let per = rng.range(2, 5);
	let mut fill = |rng: &mut Rng, p: &mut Pool| { let n = if big { rng.range(20, 90) } else { rng.range(0, 6) }; filler(rng, p, n); };
	fill(rng, &mut p);
	let this = p.class("p/T");
	let sup = p.class("java/lang/Object");
	let desc_v = p.utf8("()V");
	let a_code = p.utf8("Code"); let a_lines = p.utf8("LineNumberTable"); let a_lvt = p.utf8("LocalVariableTable");
	let a_lvtt = p.utf8("LocalVariableTypeTable"); let a_smt = p.utf8("StackMapTable"); let a_smap = p.utf8("StackMap"); let a_bsm = p.utf8("BootstrapMethods");
	let name_x = p.utf8("x"); let desc_i = p.utf8("I"); let sig_t = p.utf8("TT;");
	for n in ["m0", "ConstantValue", "SourceFile", "EnclosingMethod", "Module", "ModulePackages", "AnnotationDefault"] { p.utf8(n); }   // names of the vehicle classes of stream_pool
	let mut by_kind: Vec<Vec<u16>> = vec![vec![]; 7];
	// the groups are created in a random order (one aspect of pool layout)
	let mut groups: Vec<u8> = vec![0, 1, 2, 3, 4, 5];
	rng.shuffle(&mut groups);
	let mut handles: Vec<u16> = vec![];
	let fdescs = ["I", "J", "Lp/C0;", "[[D", "Ljava/lang/String;"];
	let mdescs = ["()V", "(IJ)V", "(Lp/C0;[I)Ljava/lang/Object;", "()[J"];
	for g in groups {
		fill(rng, &mut p);
		match g {
			0 => { for i in 0..per + 2 {
				let name = match i { 0 => "[I".to_string(), 1 => "[Lp/C0;".to_string(), _ => format!("p/C{i}") };
				let c = p.class(&name); by_kind[6].push(c);
			}
			// array classes at the dimension limit of JVMS 4.4.1 (255 is the last valid count; seed C01-b8: a parser counting
			// the dimension before comparing it refused exactly these), as operands of new/anewarray/checkcast/instanceof/
			// multianewarray, catch types and Object verification types
			if rng.chance(1, 6) {
				for name in [format!("{}I", "[".repeat(255)), format!("{}Lp/C0;", "[".repeat(255)), format!("{}J", "[".repeat(254))] {
					let c = p.class(&name); by_kind[6].push(c);
				}
			} },
			1 => for i in 0..per {
				let c = p.class(&format!("p/F{i}")); let nt = p.nt(&format!("f{i}"), *rng.pick(&fdescs[..]));
				let f = p.add(PE::Field(c, nt)); by_kind[1].push(f);
			},
			2 => for i in 0..per {
				let c = p.class(if i == 0 { "[I" } else { "p/M" }); let nt = p.nt(if i == 0 { "clone" } else if i == 1 { "<init>" } else { "m" }, *rng.pick(&mdescs[..]));
				let m = p.add(PE::Method(c, nt)); by_kind[2].push(m); by_kind[3].push(m);
			},
			3 => for i in 0..per {
				let c = p.class("p/I"); let nt = p.nt(&format!("i{i}"), *rng.pick(&mdescs[..]));
				let m = p.add(PE::IMethod(c, nt)); by_kind[4].push(m); by_kind[3].push(m);
			},
			4 => {
				by_kind[0].push(p.add(PE::Int(rng.next() as i32))); by_kind[0].push(p.add(PE::Int(-1)));
				by_kind[0].push(p.add(PE::Float(rng.next() as u32))); by_kind[0].push(p.add(PE::Float(0x7fc0_0001)));   // a NaN with payload
				by_kind[0].push(p.add(PE::Long(rng.next() as i64))); by_kind[0].push(p.add(PE::Long(i64::MIN)));
				by_kind[0].push(p.add(PE::Double(rng.next()))); by_kind[0].push(p.add(PE::Double(0xfff8_0000_0000_0001)));
				let s = p.utf8("a string \u{e9}\u{4e2d}"); by_kind[0].push(p.add(PE::Str(s)));
				let s = p.utf8(""); by_kind[0].push(p.add(PE::Str(s)));
				let c = p.class("p/L"); by_kind[0].push(c);
				let d = p.utf8("(I)Lp/L;"); by_kind[0].push(p.add(PE::MType(d)));
			},
			_ => {}
		}
	}
	// method handles need the references to exist
	fill(rng, &mut p);
	if by_kind[1].is_empty() || by_kind[2].is_empty() || by_kind[4].is_empty() { unreachable!(); }
	for k in 1..=9u8 {
		let r = match k { 1..=4 => *rng.pick(&by_kind[1]), 5 | 8 => *rng.pick(&by_kind[2]), 6 | 7 => *rng.pick(&by_kind[3]), _ => *rng.pick(&by_kind[4]) };
		let h = p.add(PE::Handle(k, r)); handles.push(h); by_kind[0].push(h);
	}
	// bootstrap methods: plain arguments, none, and a dynamic constant as argument of another
	let plain: Vec<u16> = by_kind[0].clone();
	let mut bsm: Vec<(u16, Vec<u16>)> = vec![];
	// the same argument twice in a row: the argument list of a bootstrap method is a sequence, not a set
	bsm.push((*rng.pick(&handles), { let mut a: Vec<u16> = (0..rng.range(1, 3)).map(|_| *rng.pick(&plain)).collect(); let last = a[a.len() - 1]; a.push(last); a }));
	bsm.push((*rng.pick(&handles), vec![]));
	let b0 = rng.below(2) as u16;
	let nt = p.nt("dyn0", "I"); let d0 = p.add(PE::Dynamic(b0, nt)); by_kind[0].push(d0);
	bsm.push((*rng.pick(&handles), vec![d0, *rng.pick(&plain)]));
	let nt = p.nt("dyn1", "Lp/C0;"); let d1 = p.add(PE::Dynamic(2, nt)); by_kind[0].push(d1);
	// Dynamic constants that SHARE a bootstrap method and differ only in their own NameAndType (what javac / ASM emit for
	// ConstantBootstraps.primitiveClass, nullConstant, enumConstant: the bootstrap method selects by the constant's name and
	// type): same name with another type, another name with the same type, both different — at the top level (bootstrap
	// methods b0 and 2) and together as arguments of one further bootstrap method.  Name and type belong to the ENTRY,
	// handle and arguments to the bootstrap method.
	let mut twins = vec![];
	for (n, d) in [("dyn0", "J"), ("dynA", "I"), ("dynB", "Ljava/lang/Class;")] { let nt = p.nt(n, d); let x = p.add(PE::Dynamic(b0, nt)); by_kind[0].push(x); twins.push(x); }
	for (n, d) in [("dyn1", "Lp/C1;"), ("dyn2", "Lp/C0;")] { let nt = p.nt(n, d); let x = p.add(PE::Dynamic(2, nt)); by_kind[0].push(x); twins.push(x); }
	rng.shuffle(&mut twins);
	let mut args = vec![d0]; args.extend(twins.iter().copied()); args.push(d1); args.push(d0);
	let shared = bsm.len() as u16; bsm.push((*rng.pick(&handles), args));
	for (n, d) in [("dynS", "I"), ("dynS", "D")] { let nt = p.nt(n, d); let x = p.add(PE::Dynamic(shared, nt)); by_kind[0].push(x); }
	fill(rng, &mut p);
	for i in 0..per { let nt = p.nt(&format!("indy{i}"), *rng.pick(&mdescs[..])); let x = p.add(PE::Indy(rng.below(3) as u16, nt)); by_kind[5].push(x); }
	fill(rng, &mut p);
	let mut extra = vec![];
	let n = p.utf8("mod.name"); extra.push(p.add(PE::Module(n)));
	let n = p.utf8("pkg/name"); extra.push(p.add(PE::Package(n)));
	extra.push(p.add(PE::Handle(0, by_kind[1][0]))); extra.push(p.add(PE::Handle(10, by_kind[2][0])));
	// bootstrap method 3 has the Dynamic entry that uses it as its argument
	let nt = p.nt("self", "I"); let d_self = p.add(PE::Dynamic(bsm.len() as u16, nt)); bsm.push((handles[0], vec![d_self])); extra.push(d_self);
	let nt = p.nt("nobsm", "I"); extra.push(p.add(PE::Dynamic(99, nt)));
	let nt = p.nt("nobsm", "()V"); extra.push(p.add(PE::Indy(99, nt)));
	let nt = p.nt("viah", "()V"); extra.push(p.add(PE::Indy(0, nt)));      // stream_accessors: the last extra entry
	Universe { pool: p, bsm, this, sup, desc_v, extra, a_code, a_lines, a_lvt, a_lvtt, a_smt, a_smap, a_bsm, name_x, desc_i, sig_t, by_kind }
}

impl Universe {
	pub fn bsm_attr(&self) -> Attr {
		let mut o = vec![];
		o.extend((self.bsm.len() as u16).to_be_bytes());
		for (h, args) in &self.bsm { o.extend(h.to_be_bytes()); o.extend((args.len() as u16).to_be_bytes()); for a in args { o.extend(a.to_be_bytes()); } }
		(self.a_bsm, o)
	}
}

// ---------------------------------------------------------------------------------------------
// method bodies
const SIMPLE: &[(u8, u8)] = &[(0, 15), (46, 53), (79, 131), (133, 152), (172, 177), (190, 191), (194, 195)];
fn simple_op(rng: &mut Rng) -> u8 { let (a, b) = *rng.pick(SIMPLE); rng.range(a as usize, b as usize) as u8 }
const CONDS: &[u8] = &[153, 154, 155, 156, 157, 158, 159, 160, 161, 162, 163, 164, 165, 166, 198, 199];

fn gen_insn(rng: &mut Rng, u: &Universe, n: usize) -> Insn<usize> {
	let t = |rng: &mut Rng| rng.below(n);
	match rng.below(16) {
		0 | 1 | 2 => Insn::Gen(simple_op(rng), vec![]),
		3 => if rng.chance(1, 2) { Insn::Gen(16, vec![Op::Z(*rng.pick(&[-128i64, 127, 0, -1, 5]))]) } else { Insn::Gen(17, vec![Op::Z(*rng.pick(&[-32768i64, 32767, -129, 128, 0, 300]))]) },
		4 => Insn::Gen(18, vec![Op::C(0, *rng.pick(&u.by_kind[0]) as u32)]),
		5 | 6 => {
			let c = *rng.pick(&[21u8, 22, 23, 24, 25, 54, 55, 56, 57, 58, 169]);
			let idx = match rng.below(8) { 0 => 0, 1 => 1, 2 => 2, 3 => 3, 4 => 4, 5 => 255, 6 => 256, _ => *rng.pick(&[65535u32, 1000, 17]) };
			Insn::Gen(c, vec![Op::N(idx)])
		}
		7 => Insn::Gen(132, vec![Op::N(*rng.pick(&[0u32, 7, 255, 256, 65535])), Op::Z(*rng.pick(&[-128i64, 127, -129, 128, -32768, 32767, 1]))]),
		8 => match rng.below(9) {
			0 => Insn::Gen(*rng.pick(&[178u8, 179, 180, 181]), vec![Op::C(1, *rng.pick(&u.by_kind[1]) as u32)]),
			1 => Insn::Gen(182, vec![Op::C(2, *rng.pick(&u.by_kind[2]) as u32)]),
			2 => Insn::Gen(*rng.pick(&[183u8, 184]), vec![Op::C(3, *rng.pick(&u.by_kind[3]) as u32)]),
			3 => Insn::Gen(185, vec![Op::C(4, *rng.pick(&u.by_kind[4]) as u32)]),
			4 => Insn::Gen(186, vec![Op::C(5, *rng.pick(&u.by_kind[5]) as u32)]),
			5 => Insn::Gen(188, vec![Op::N(rng.range(4, 11) as u32)]),
			6 => Insn::Gen(197, vec![Op::C(6, *rng.pick(&u.by_kind[6]) as u32), Op::N(*rng.pick(&[1u32, 2, 255]))]),
			_ => Insn::Gen(*rng.pick(&[187u8, 189, 192, 193]), vec![Op::C(6, *rng.pick(&u.by_kind[6]) as u32)]),
		},
		9 | 10 => Insn::Gen(*rng.pick(CONDS), vec![Op::T(t(rng))]),
		11 | 12 => Insn::Gen(*rng.pick(&[167u8, 168]), vec![Op::T(t(rng))]),
		13 => {
			let lo = *rng.pick(&[0i32, 1, -3, i32::MAX - 4, i32::MIN, 1000]);
			let k = rng.range(1, 5);
			Insn::TSw { d: t(rng), lo, hi: lo + (k as i32 - 1), tbl: (0..k).map(|_| t(rng)).collect() }
		}
		14 => {
			let k = rng.below(5);
			let mut keys: BTreeSet<i32> = BTreeSet::new();
			while keys.len() < k { keys.insert(*rng.pick(&[i32::MIN, -1, 0, 1, 7, 100, i32::MAX, 65536])); }
			Insn::LSw { d: t(rng), pairs: keys.into_iter().map(|k| (k, t(rng))).collect() }
		}
		_ => Insn::Gen(177, vec![]),
	}
}

#[derive(Clone, Debug)]
pub enum VT { Top, Int, Float, Double, Long, Null, UninitThis, Object(u16), Uninit(usize) }
#[derive(Clone, Debug)]
pub enum FK { Same, Same1(VT), Chop(u8), Append(Vec<VT>), Full(Vec<VT>, Vec<VT>) }
#[derive(Clone, Debug)]
pub enum CA {
	Lines(Vec<(usize, u16)>), Lvt(Vec<(usize, usize)>), Lvtt(Vec<(usize, usize)>), Smt(Vec<(usize, FK, bool)>),
	/// the CLDC `StackMap` attribute: (instruction, locals, stack) per entry, in FILE order (the format does not order them)
	Smap(Vec<(usize, Vec<VT>, Vec<VT>)>),
}

pub struct MethodGen {
	pub body: Vec<Insn<usize>>, pub ch: Vec<Choice>, pub code: Vec<u8>, pub lay: Vec<usize>,
	pub exc: Vec<(usize, usize, usize, u16)>,
	pub attrs: Vec<CA>,
}

fn gen_vt(rng: &mut Rng, u: &Universe, n: usize) -> VT {
	match rng.below(10) { 0 => VT::Top, 1 => VT::Int, 2 => VT::Float, 3 => VT::Double, 4 => VT::Long, 5 => VT::Null, 6 => VT::UninitThis, 7 | 8 => VT::Object(*rng.pick(&u.by_kind[6])), _ => VT::Uninit(rng.below(n)) }
}

/// choices: a random admissible form per instruction; narrow branches that do not reach are widened
/// (goto/jsr) — conditional branches are retargeted to the instruction itself
pub fn choose(rng: &mut Rng, body: &mut Vec<Insn<usize>>) -> Vec<Choice> {
	let mut ch: Vec<Choice> = body.iter().map(|i| match i {
		Insn::Gen(c, ops) => { let fs = forms_of(*c, ops); Choice { form: *rng.pick(&fs), fill: [rng.next() as u8, rng.next() as u8, rng.next() as u8] } }
		_ => Choice { form: Form::Plain(0), fill: [rng.next() as u8, rng.next() as u8, rng.next() as u8] },
	}).collect();
	loop {
		let lay = layout(&ch, body);
		let mut changed = false;
		for k in 0..body.len() {
			if let (Insn::Gen(c, ops), Form::Plain(op)) = (&body[k], ch[k].form) {
				if let Entry::P2(_, rs) = jvms_entry(op) {
					if rs == vec![Rd::Br16] {
						if let Op::T(t) = ops[0] {
							let off = lay[t] as i64 - lay[k] as i64;
							if !(-32768..32768).contains(&off) {
								if *c == 167 { ch[k].form = Form::Plain(0xc8); } else if *c == 168 { ch[k].form = Form::Plain(0xc9); } else { body[k] = Insn::Gen(*c, vec![Op::T(k)]); }
								changed = true;
							}
						}
					}
				}
			}
		}
		if !changed { return ch; }
	}
}

pub fn gen_method(rng: &mut Rng, u: &Universe, n: usize, end_ok: bool) -> MethodGen {
	let mut body: Vec<Insn<usize>> = (0..n).map(|_| gen_insn(rng, u, n)).collect();
	let ch = choose(rng, &mut body);
	let lay = layout(&ch, &body);
	let code = encode(&ch, &body).expect("chosen forms encode");
	let mut exc = vec![];
	for _ in 0..rng.below(4) {
		let s = rng.below(n);
		let e = if end_ok { rng.range(s, n) } else { rng.range(s, n - 1) };
		exc.push((s, e, rng.below(n), if rng.chance(1, 2) { 0 } else { *rng.pick(&u.by_kind[6]) }));
	}
	let mut attrs = vec![];
	for _ in 0..rng.below(3) { attrs.push(CA::Lines((0..rng.below(4)).map(|_| (rng.below(n), rng.next() as u16)).collect())); }
	if rng.chance(1, 2) { attrs.push(CA::Lvt((0..rng.below(4)).map(|_| { let s = rng.below(n); (s, rng.range(s, n)) }).collect())); }
	if rng.chance(1, 3) { attrs.push(CA::Lvtt((0..rng.below(3)).map(|_| { let s = rng.below(n); (s, rng.range(s, n)) }).collect())); }
	if rng.chance(2, 3) {
		let mut at: BTreeSet<usize> = BTreeSet::new();
		for _ in 0..rng.below(5) { at.insert(rng.below(n)); }
		let frames = at.into_iter().map(|k| {
			let fk = match rng.below(6) {
				0 => FK::Same, 1 => FK::Same1(gen_vt(rng, u, n)), 2 => FK::Chop(rng.range(1, 3) as u8),
				3 => FK::Append((0..rng.range(1, 3)).map(|_| gen_vt(rng, u, n)).collect()),
				_ => FK::Full((0..rng.below(4)).map(|_| gen_vt(rng, u, n)).collect(), (0..rng.below(3)).map(|_| gen_vt(rng, u, n)).collect()),
			};
			(k, fk, rng.chance(1, 2))
		}).collect();
		attrs.push(CA::Smt(frames));
	}
	rng.shuffle(&mut attrs);
	MethodGen { body, ch, code, lay, exc, attrs }
}

fn vt_bytes(v: &VT, lay: &[usize], o: &mut Vec<u8>) {
	match v {
		VT::Top => o.push(0), VT::Int => o.push(1), VT::Float => o.push(2), VT::Double => o.push(3), VT::Long => o.push(4), VT::Null => o.push(5), VT::UninitThis => o.push(6),
		VT::Object(c) => { o.push(7); o.extend(c.to_be_bytes()); }
		VT::Uninit(k) => { o.push(8); o.extend((lay[*k] as u16).to_be_bytes()); }
	}
}

impl MethodGen {
	pub fn code_attrs(&self, u: &Universe) -> Vec<Attr> {
		let lay = &self.lay;
		self.attrs.iter().map(|a| match a {
			CA::Lines(ls) => { let mut o = vec![]; o.extend((ls.len() as u16).to_be_bytes()); for (k, l) in ls { o.extend((lay[*k] as u16).to_be_bytes()); o.extend(l.to_be_bytes()); } (u.a_lines, o) }
			CA::Lvt(rs) | CA::Lvtt(rs) => {
				let is_t = matches!(a, CA::Lvtt(_));
				let mut o = vec![]; o.extend((rs.len() as u16).to_be_bytes());
				for (i, (s, e)) in rs.iter().enumerate() {
					o.extend((lay[*s] as u16).to_be_bytes()); o.extend(((lay[*e] - lay[*s]) as u16).to_be_bytes());
					o.extend(u.name_x.to_be_bytes()); o.extend((if is_t { u.sig_t } else { u.desc_i }).to_be_bytes()); o.extend((i as u16).to_be_bytes());
				}
				(if is_t { u.a_lvtt } else { u.a_lvt }, o)
			}
			CA::Smt(fs) => {
				let mut o = vec![]; o.extend((fs.len() as u16).to_be_bytes());
				let mut prev: Option<usize> = None;
				for (k, fk, short) in fs {
					let off = lay[*k];
					let delta = match prev { None => off, Some(p) => off - p - 1 } as u16;
					prev = Some(off);
					match fk {
						FK::Same => if delta < 64 && *short { o.push(delta as u8) } else { o.push(251); o.extend(delta.to_be_bytes()); },
						FK::Same1(v) => { if delta < 64 && *short { o.push(64 + delta as u8) } else { o.push(247); o.extend(delta.to_be_bytes()); } vt_bytes(v, lay, &mut o); }
						FK::Chop(c) => { o.push(251 - c); o.extend(delta.to_be_bytes()); }
						FK::Append(vs) => { o.push(251 + vs.len() as u8); o.extend(delta.to_be_bytes()); for v in vs { vt_bytes(v, lay, &mut o); } }
						FK::Full(l, s) => { o.push(255); o.extend(delta.to_be_bytes()); o.extend((l.len() as u16).to_be_bytes()); for v in l { vt_bytes(v, lay, &mut o); } o.extend((s.len() as u16).to_be_bytes()); for v in s { vt_bytes(v, lay, &mut o); } }
					}
				}
				(u.a_smt, o)
			}
			CA::Smap(fs) => {
				let mut o = vec![]; o.extend((fs.len() as u16).to_be_bytes());
				for (k, l, st) in fs {
					o.extend((lay[*k] as u16).to_be_bytes());
					o.extend((l.len() as u16).to_be_bytes()); for v in l { vt_bytes(v, lay, &mut o); }
					o.extend((st.len() as u16).to_be_bytes()); for v in st { vt_bytes(v, lay, &mut o); }
				}
				(u.a_smap, o)
			}
		}).collect()
	}
	/// the entries of a StackMap attribute in the order of their bytecode offsets (stable)
	fn smap_sorted(fs: &[(usize, Vec<VT>, Vec<VT>)]) -> Vec<&(usize, Vec<VT>, Vec<VT>)> {
		let mut v: Vec<&(usize, Vec<VT>, Vec<VT>)> = fs.iter().collect();
		v.sort_by_key(|x| x.0);
		v
	}
	fn uninit_points(&self) -> Vec<usize> {
		let mut v = vec![];
		let mut vt = |x: &VT| if let VT::Uninit(k) = x { v.push(*k) };
		for a in &self.attrs { if let CA::Smt(fs) = a { for (_, fk, _) in fs { match fk {
			FK::Same | FK::Chop(_) => {}, FK::Same1(x) => vt(x), FK::Append(xs) => xs.iter().for_each(&mut vt), FK::Full(l, s) => { l.iter().for_each(&mut vt); s.iter().for_each(&mut vt); }
		} } } }
		for a in &self.attrs { if let CA::Smap(fs) = a { for (_, l, s) in Self::smap_sorted(fs) { l.iter().for_each(&mut vt); s.iter().for_each(&mut vt); } } }
		v
	}
	/// the Coq `code_in` of this method, and its catch_type list
	pub fn g_code_in(&self) -> String {
		let lay = &self.lay;
		let mut lines = vec![]; let mut ranges = vec![]; let mut deltas = vec![];
		let mut cldc: Option<Vec<String>> = None;
		for a in &self.attrs { match a {
			CA::Lines(ls) => for (k, l) in ls { lines.push(format!("({}, {l})", lay[*k])); },
			CA::Lvt(rs) | CA::Lvtt(rs) => for (s, e) in rs { ranges.push(format!("({}, {})", lay[*s], lay[*e] - lay[*s])); },
			CA::Smt(fs) => { let mut prev: Option<usize> = None; for (k, _, _) in fs { let off = lay[*k]; deltas.push(match prev { None => off, Some(p) => off - p - 1 }.to_string()); prev = Some(off); } }
			CA::Smap(fs) => { cldc = Some(fs.iter().map(|(k, _, _)| lay[*k].to_string()).collect()); }
		} }
		format!("({{| ci_code := {}; ci_exc := [{}]; ci_lines := [{}]; ci_ranges := [{}]; ci_frames := [{}]; ci_cldc := {}; ci_points := [{}] |}}, [{}])",
			glist_rle(&self.code.iter().map(|b| b.to_string()).collect::<Vec<_>>()),
			self.exc.iter().map(|(s, e, h, _)| format!("({}, {}, {})", lay[*s], lay[*e], lay[*h])).collect::<Vec<_>>().join("; "),
			lines.join("; "), ranges.join("; "), deltas.join("; "),
			match &cldc { None => "None".to_string(), Some(v) => format!("(Some [{}])", v.join("; ")) },
			self.uninit_points().iter().map(|k| lay[*k].to_string()).collect::<Vec<_>>().join("; "),
			self.exc.iter().map(|x| x.3.to_string()).collect::<Vec<_>>().join("; "))
	}
	/// ground truth: what a faithful reader must deliver for this method
	pub fn truth(&self, u: &Universe) -> XSem {
		let n = self.body.len();
		let mut refs: BTreeSet<usize> = BTreeSet::new();
		for i in &self.body { refs.extend(i.targets()); }
		for (s, e, h, _) in &self.exc { refs.insert(*s); refs.insert(*e); refs.insert(*h); }
		let mut frame_at = vec![None; n];
		let mut s = XSem::default();
		for a in &self.attrs { match a {
			CA::Lines(ls) => for (k, l) in ls { refs.insert(*k); s.lines.push((Some(*k), *l)); },
			CA::Lvt(rs) | CA::Lvtt(rs) => for (a, b) in rs { refs.insert(*a); refs.insert(*b); s.ranges.push((Some(*a), Some(*b))); },
			CA::Smt(fs) => for (j, (k, _, _)) in fs.iter().enumerate() { refs.insert(*k); frame_at[*k] = Some(j); },
			// CLDC StackMap: the entries are not ordered in the file; each belongs to the instruction at its offset
			CA::Smap(fs) => for (j, (k, _, _)) in Self::smap_sorted(fs).into_iter().enumerate() { refs.insert(*k); frame_at[*k] = Some(j); },
		} }
		for k in self.uninit_points() { refs.insert(k); s.points.push(Some(k)); }
		for (k, i) in self.body.iter().enumerate() {
			let x = match i.map(&|t: &usize| Some(*t)) {
				Insn::Gen(c, ops) => XInsn::Gen(c, ops.into_iter().map(|o| match o {
					Op::N(n) => XOp::N(n), Op::Z(z) => XOp::Z(z), Op::T(t) => XOp::T(t),
					Op::C(kind, idx) => XOp::V(u.pool.resolve(kind, idx as u16, &u.bsm).expect("generated operand resolves")),
				}).collect()),
				Insn::TSw { d, lo, hi, tbl } => XInsn::TSw { d, lo, hi, tbl },
				Insn::LSw { d, pairs } => XInsn::LSw { d, pairs },
			};
			s.insns.push((refs.contains(&k), frame_at[k], x));
		}
		s.last = refs.contains(&n);
		for (a, b, c, cat) in &self.exc {
			s.exc.push((Some(*a), Some(*b), Some(*c), if *cat == 0 { None } else { match u.pool.resolve(6, *cat, &u.bsm) { Some(CVal::Class(n)) => Some(n), _ => None } }));
		}
		s
	}
	/// ground truth of the frames with their contents: the StackMapTable frames in file order, or the CLDC StackMap
	/// entries in the order of their offsets, each as a full frame
	pub fn truth_frames(&self, u: &Universe) -> Vec<XFrame> {
		let xv = |v: &VT| match v {
			VT::Top => XVt::Top, VT::Int => XVt::Int, VT::Float => XVt::Float, VT::Double => XVt::Double, VT::Long => XVt::Long, VT::Null => XVt::Null,
			VT::UninitThis => XVt::UninitThis,
			VT::Object(c) => match u.pool.resolve(6, *c, &u.bsm) { Some(CVal::Class(n)) => XVt::Object(n), _ => XVt::Top },
			VT::Uninit(k) => XVt::Uninit(Some(*k)),
		};
		let mut out = vec![];
		for a in &self.attrs { match a {
			CA::Smt(fs) => for (_, fk, _) in fs { out.push(match fk {
				FK::Same => XFrame::Same, FK::Same1(v) => XFrame::Same1(xv(v)), FK::Chop(c) => XFrame::Chop(*c),
				FK::Append(vs) => XFrame::Append(vs.iter().map(&xv).collect()), FK::Full(l, s) => XFrame::Full(l.iter().map(&xv).collect(), s.iter().map(&xv).collect()),
			}); },
			CA::Smap(fs) => for (_, l, s) in Self::smap_sorted(fs) { out.push(XFrame::Full(l.iter().map(&xv).collect(), s.iter().map(&xv).collect())); },
			_ => {}
		} }
		out
	}
	pub fn g_enc_case(&self) -> String {
		format!("CEnc [{}] [{}] (Some {})",
			self.body.iter().map(|i| g_insn(i, &|t: &usize| format!("{t}%nat"))).collect::<Vec<_>>().join("; "),
			self.ch.iter().map(g_choice).collect::<Vec<_>>().join("; "),
			fbh::gal::gnums(self.code.iter().map(|b| *b as u64)))
	}
}

pub fn hex(b: &[u8]) -> String { b.iter().map(|x| format!("{x:02x}")).collect() }

/// a class with one method per MethodGen; returns the bytes
pub fn class_of(u: &Universe, ms: &[MethodGen], pool: &mut Pool) -> Vec<u8> {
	let mut members = vec![];
	for (i, m) in ms.iter().enumerate() {
		let name = pool.utf8(&format!("m{i}"));
		let exc: Vec<(u16, u16, u16, u16)> = m.exc.iter().map(|(s, e, h, c)| (m.lay[*s] as u16, m.lay[*e] as u16, m.lay[*h] as u16, *c)).collect();
		members.push(Member { access: 0x0009, name, desc: u.desc_v, attrs: vec![(u.a_code, code_attr(10, 10, &m.code, &exc, &m.code_attrs(u)))] });
	}
	class_bytes(pool, 0, 61, 0x0021, u.this, u.sup, &[], &[], &members, &[u.bsm_attr()])
}

pub enum Outcome { Ok(Vec<XSem>, Vec<Vec<XFrame>>), Err, Panic(String) }
/// breadcrumb: the class file about to be handed to duke (a stack overflow / abort / endless loop kills the harness)
pub fn crumb_class(bytes: &[u8]) {
	fbh::report::crumb(&format!("property C01\nwhat: duke::read_class does not return on this class file (the harness process died or timed out while reading it)\nclass file (hex): {}\n", hex(bytes)));
}
pub fn read_with_duke(bytes: &[u8]) -> Outcome {
	crumb_class(bytes);
	let b = bytes.to_vec();
	match guarded(move || duke::read_class(&mut Cursor::new(b)).ok()) {
		Err(p) => Outcome::Panic(p),
		Ok(None) => Outcome::Err,
		Ok(Some(c)) => Outcome::Ok(c.methods.iter().map(|m| m.code.as_ref().map(xsem_of_code).unwrap_or_default()).collect(),
			c.methods.iter().map(|m| m.code.as_ref().map(xframes_of_code).unwrap_or_default()).collect()),
	}
}

fn first_diff(a: &XSem, b: &XSem) -> String {
	if a.insns.len() != b.insns.len() { return format!("{} instructions delivered, {} in the file", a.insns.len(), b.insns.len()); }
	for (k, (x, y)) in a.insns.iter().zip(&b.insns).enumerate() { if x != y { return format!("instruction {k}: delivered {x:?}, file states {y:?}"); } }
	if a.last != b.last { return format!("last label: delivered {}, expected {}", a.last, b.last); }
	if a.exc != b.exc { return format!("exception table: delivered {:?}, file states {:?}", a.exc, b.exc); }
	if a.lines != b.lines { return format!("line numbers: delivered {:?}, file states {:?}", a.lines, b.lines); }
	if a.ranges != b.ranges { return format!("local variable ranges: delivered {:?}, file states {:?}", a.ranges, b.ranges); }
	if a.points != b.points { return format!("uninitialized-type offsets: delivered {:?}, file states {:?}", a.points, b.points); }
	"?".into()
}

/// generated classes: the main stream
fn stream_generated(ctx: &Ctx, r: &mut Report, rng: &mut Rng) {
	let classes = if ctx.thorough { 300 } else { 60 };
	for ci in 0..classes {
		let big = ci % 3 != 0;
		let u = build_universe(rng, big);
		let mut pool = u.pool.clone();
		let nm = rng.range(1, 8);
		let ms: Vec<MethodGen> = (0..nm).map(|_| { let n = match rng.below(10) { 0 => 1, 1 => rng.range(40, 120), _ => rng.range(2, 25) }; gen_method(rng, &u, n, true) }).collect();
		let bytes = class_of(&u, &ms, &mut pool);
		for m in &ms {
			r.case("gen-encode", m.g_enc_case());
			r.count(&format!("body_len_{}", match m.body.len() { 0..=1 => "1", 2..=9 => "2-9", 10..=39 => "10-39", _ => "40+" }));
			for (k, i) in m.body.iter().enumerate() {
				match (i, m.ch[k].form) {
					(Insn::TSw { .. }, _) => r.count(&format!("tableswitch_pad{}", pad_of(m.lay[k]))),
					(Insn::LSw { .. }, _) => r.count(&format!("lookupswitch_pad{}", pad_of(m.lay[k]))),
					(_, Form::Wide(_)) => r.count("form_wide"),
					(_, Form::Plain(0xc8 | 0xc9)) => r.count("form_goto_w_jsr_w"),
					(_, Form::Plain(0x13 | 0x14)) => r.count("form_ldc_w_ldc2_w"),
					(_, Form::Plain(0x12)) => r.count("form_ldc"),
					(_, Form::Plain(0x1a..=0x2d | 0x3b..=0x4e)) => r.count("form_xload_n_xstore_n"),
					_ => {}
				}
			}
		}
		let truth: Vec<XSem> = ms.iter().map(|m| m.truth(&u)).collect();
		let canon = hex(&bytes);
		r.eval(&canon, true);
		let got = read_with_duke(&bytes);
		let replay = |what: &str| format!("property C01\nwhat: {what}\nclass file (hex): {canon}\n");
		match &got {
			Outcome::Panic(p) => r.violation(format!("duke::read_class panicked on a valid generated class: {p}"), replay("read_class panics on this valid class")),
			Outcome::Err => r.violation("duke::read_class rejects a valid generated class".into(), replay("read_class returns Err on this valid class")),
			Outcome::Ok(v, fr) => {
				if v.len() != truth.len() { r.violation("wrong number of methods delivered".into(), replay("number of methods")); }
				for (k, (a, b)) in v.iter().zip(&truth).enumerate() {
					if a != b {
						let d = first_diff(a, b);
						classify_or_violate(r, format!("method m{k}: {d}"), replay(&format!("method m{k} is not delivered as the file states it: {d}")));
						break;
					}
				}
				// the contents of the stack map frames (kind, verification types with their classes and Uninitialized offsets)
				for (k, (m, got)) in ms.iter().zip(fr).enumerate() {
					let want = m.truth_frames(&u);
					if *got != want {
						let j = got.iter().zip(&want).position(|(a, b)| a != b).unwrap_or(got.len().min(want.len()));
						let d = format!("frame {j}: delivered {:?}, the StackMapTable states {:?}", got.get(j), want.get(j));
						r.violation(format!("method m{k}: {d}"), replay(&format!("the stack map frames of method m{k} are not delivered as the file states them: {d}")));
						break;
					}
				}
			}
		}
		let res = match &got { Outcome::Ok(v, _) => format!("(Ok [{}])", v.iter().map(g_xsem).collect::<Vec<_>>().join("; ")), _ => "Err".into() };
		if !matches!(got, Outcome::Panic(_)) {
			r.case("gen-class", format!("CClass {} {} [{}] {}", pool.gallina(), g_bsm(&u.bsm), ms.iter().map(|m| m.g_code_in()).collect::<Vec<_>>().join("; "), res));
		}
	}
}

/// CLDC `StackMap` attributes (class files of J2ME / preverified classes, version <= 49 or any): one
/// full frame per entry at an absolute offset, entries in any order.  Frames sit where stack maps are
/// needed: on branch targets (whose labels the first pass has already created, in the order of the
/// branching instructions) and elsewhere.
fn stream_cldc(ctx: &Ctx, r: &mut Report, rng: &mut Rng) {
	let u = build_universe(rng, false);
	for it in 0..(if ctx.thorough { 120 } else { 30 }) {
		let n = rng.range(2, 16);
		let mut m = gen_method(rng, &u, n, true);
		// every 7th class also has a StackMapTable attribute: both fill the same slot, the class is refused
		let both = it % 7 == 6;
		if !both { m.attrs.retain(|a| !matches!(a, CA::Smt(_))); } else if !m.attrs.iter().any(|a| matches!(a, CA::Smt(_))) { m.attrs.push(CA::Smt(vec![])); }
		let mut at: BTreeSet<usize> = BTreeSet::new();
		let targets: Vec<usize> = m.body.iter().flat_map(|i| i.targets()).filter(|t| *t < n).collect();
		for _ in 0..rng.range(1, 5) { at.insert(if !targets.is_empty() && rng.chance(2, 3) { *rng.pick(&targets) } else { rng.below(n) }); }
		let mut fs: Vec<(usize, Vec<VT>, Vec<VT>)> = at.into_iter().map(|k| (k, (0..rng.below(3)).map(|_| gen_vt(rng, &u, n)).collect(), (0..rng.below(3)).map(|_| gen_vt(rng, &u, n)).collect())).collect();
		let order = it % 3;     // 0: ascending offsets (what a preverifier writes), 1: descending, 2: shuffled
		if order == 1 { fs.reverse(); } else if order == 2 { rng.shuffle(&mut fs); }
		r.count(&format!("cldc_stackmap_order{order}_frames{}", fs.len().min(3)));
		let pos = rng.below(m.attrs.len() + 1);
		m.attrs.insert(pos, CA::Smap(fs));
		let mut pool = u.pool.clone();
		let name = pool.utf8("m0");
		let exc: Vec<(u16, u16, u16, u16)> = m.exc.iter().map(|(s, e, h, c)| (m.lay[*s] as u16, m.lay[*e] as u16, m.lay[*h] as u16, *c)).collect();
		let members = vec![Member { access: 0x0009, name, desc: u.desc_v, attrs: vec![(u.a_code, code_attr(10, 10, &m.code, &exc, &m.code_attrs(&u)))] }];
		let major = *rng.pick(&[45u16, 47, 48, 49, 50, 52]);
		let bytes = class_bytes(&pool, if major == 45 { 3 } else { 0 }, major, 0x0021, u.this, u.sup, &[], &[], &members, &[u.bsm_attr()]);
		let truth = m.truth(&u);
		let canon = hex(&bytes);
		r.eval(&canon, true);
		if both {
			r.count("cldc_stackmap_and_stackmaptable");
			fbh::report::crumb(&format!("property C01\nwhat: read_class does not return on a class with a StackMap and a StackMapTable attribute\nclass file (hex): {canon}\n"));
			crate::cfile::file_case(r, "file-cldc", &bytes);
			continue;
		}
		let replay = |what: &str| format!("property C01\nwhat: {what}\nthe method's Code attribute carries a CLDC StackMap attribute (entries in {} order)\nclass file (hex): {canon}\n", ["ascending", "descending", "shuffled"][order]);
		fbh::report::crumb(&replay("read_class does not return on this class"));
		let got = read_with_duke(&bytes);
		match &got {
			Outcome::Panic(p) => r.violation(format!("duke::read_class panicked on a class with a StackMap attribute: {p}"), replay("read_class panics")),
			Outcome::Err => r.violation("duke::read_class rejects a valid class with a StackMap attribute".into(), replay("read_class returns Err on this valid class")),
			Outcome::Ok(v, fr) => if v.len() != 1 || v[0] != truth {
				let d = if v.len() == 1 { first_diff(&v[0], &truth) } else { "wrong number of methods".into() };
				r.violation(format!("StackMap attribute: {d}"), replay(&format!("the frames of the StackMap attribute are not delivered on the instructions at their offsets: {d}")));
			} else if fr.len() == 1 && fr[0] != m.truth_frames(&u) {
				// what each entry says: locals and stack, in the order of the offsets
				let want = m.truth_frames(&u);
				let j = fr[0].iter().zip(&want).position(|(a, b)| a != b).unwrap_or(fr[0].len().min(want.len()));
				let d = format!("entry {j} (by offset): delivered {:?}, the attribute states {:?}", fr[0].get(j), want.get(j));
				r.violation(format!("StackMap attribute: {d}"), replay(&format!("the locals / stack of an entry of the StackMap attribute are not delivered as written: {d}")));
			},
		}
		let res = match &got { Outcome::Ok(v, _) => format!("(Ok [{}])", v.iter().map(g_xsem).collect::<Vec<_>>().join("; ")), _ => "Err".into() };
		if !matches!(got, Outcome::Panic(_)) {
			r.case("cldc-stackmap", format!("CClass {} {} [{}] {}", pool.gallina(), g_bsm(&u.bsm), m.g_code_in(), res));
		}
		crate::cfile::file_case(r, "file-cldc", &bytes);
	}
}

/// known findings are recognised here, as narrowly as the defect; everything else is a violation
fn classify_or_violate(r: &mut Report, what: String, replay: String) {
	r.violation(what, replay);
}

// ---------------------------------------------------------------------------------------------
// constant pool: every accessor on every index, through a vehicle class per query
fn pool_queries(u: &Universe, rng: &mut Rng) -> Vec<(u8, u16)> {
	let mut q = vec![];
	let count = u.pool.count();
	for kind in 0..=8u8 {
		// the right kind, every other kind's entries (wrong kind), 0, the last index, beyond the pool
		let mut idxs: Vec<u16> = vec![0, count - 1, count, 65535];
		idxs.extend(u.extra.iter().copied());
		for k in 0..7 { for &i in &u.by_kind[k] { if k as u8 == kind || rng.chance(1, 6) { idxs.push(i); } } }
		// second slots of Long/Double
		for (e, &i) in u.pool.entries.iter().zip(&u.pool.index) { if matches!(e, PE::Long(_) | PE::Double(_)) && rng.chance(1, 8) { idxs.push(i + 1); } }
		if kind == 7 || kind == 8 { for (e, &i) in u.pool.entries.iter().zip(&u.pool.index) { if rng.chance(1, 10) || matches!(e, PE::Str(_)) { idxs.push(i); } } }
		idxs.sort(); idxs.dedup();
		for i in idxs { q.push((kind, i)); }
	}
	q
}

/// what duke resolves (kind, idx) to: Ok(value) / Err (class rejected) / panic
fn duke_resolve(u: &Universe, kind: u8, idx: u16) -> Result<Option<CVal>, String> {
	let mut pool = u.pool.clone();
	let name = pool.utf8("m0");
	let (fields, methods, attrs): (Vec<Member>, Vec<Member>, Vec<Attr>) = match kind {
		0..=6 => {
			let ins: Insn<usize> = match kind {
				0 => Insn::Gen(18, vec![Op::C(0, idx as u32)]), 1 => Insn::Gen(178, vec![Op::C(1, idx as u32)]),
				2 => Insn::Gen(182, vec![Op::C(2, idx as u32)]), 3 => Insn::Gen(184, vec![Op::C(3, idx as u32)]),
				4 => Insn::Gen(185, vec![Op::C(4, idx as u32)]), 5 => Insn::Gen(186, vec![Op::C(5, idx as u32)]),
				_ => Insn::Gen(187, vec![Op::C(6, idx as u32)]),
			};
			let body = vec![ins, Insn::Gen(177, vec![])];
			let form = match kind { 0 => Form::Plain(0x13), 1 => Form::Plain(178), 2 => Form::Plain(182), 3 => Form::Plain(184), 4 => Form::Plain(185), 5 => Form::Plain(186), _ => Form::Plain(187) };
			let ch = vec![Choice { form, fill: [if kind == 4 { 1 } else { 0 }, 0, 0] }, Choice { form: Form::Plain(177), fill: [0; 3] }];
			let code = encode(&ch, &body).expect("vehicle encodes");
			(vec![], vec![Member { access: 9, name, desc: u.desc_v, attrs: vec![(u.a_code, code_attr(4, 4, &code, &[], &[]))] }], vec![u.bsm_attr()])
		}
		7 => { let cv = pool.utf8("ConstantValue"); (vec![Member { access: 0x19, name, desc: u.desc_i, attrs: vec![(cv, idx.to_be_bytes().to_vec())] }], vec![], vec![]) }
		_ => { let sf = pool.utf8("SourceFile"); (vec![], vec![], vec![(sf, idx.to_be_bytes().to_vec())]) }
	};
	let bytes = class_bytes(&pool, 0, 61, 0x21, u.this, u.sup, &[], &fields, &methods, &attrs);
	crumb_class(&bytes);
	guarded(move || {
		let Ok(c) = duke::read_class(&mut Cursor::new(bytes)) else { return None };
		match kind {
			0..=6 => {
				let code = c.methods.first()?.code.as_ref()?;
				let x = xinsn_of(&code.instructions.first()?.instruction, &|_| None);
				match x { XInsn::Gen(_, ops) => ops.into_iter().find_map(|o| if let XOp::V(v) = o { Some(v) } else { None }), _ => None }
			}
			7 => c.fields.first()?.constant_value.as_ref().map(|v| match v {
				duke::tree::field::ConstantValue::Integer(i) => CVal::Int(*i), duke::tree::field::ConstantValue::Float(f) => CVal::Float(f.to_bits()),
				duke::tree::field::ConstantValue::Long(l) => CVal::Long(*l), duke::tree::field::ConstantValue::Double(d) => CVal::Double(d.to_bits()),
				duke::tree::field::ConstantValue::String(s) => CVal::Str(fbh::gal::cps(s)),
			}),
			_ => c.source_file.as_ref().map(|s| CVal::Utf8(fbh::gal::cps(s))),
		}
	})
}

fn stream_pool(ctx: &Ctx, r: &mut Report, rng: &mut Rng) {
	for ui in 0..(if ctx.thorough { 30 } else { 5 }) {
		let u = build_universe(rng, ui % 2 == 0);
		let mut qs = vec![];
		for (kind, idx) in pool_queries(&u, rng) {
			let got = duke_resolve(&u, kind, idx);
			let want = u.pool.resolve(kind, idx, &u.bsm);
			r.eval(&format!("pool{ui}:{kind}:{idx}:{}", u.pool.count()), want.is_some());
			r.count(&format!("pool_query_kind{kind}_{}", if want.is_some() { "ok" } else { "err" }));
			match &got {
				Err(p) => { r.violation(format!("pool accessor {kind} on index {idx} panicked: {p}"), format!("property C01\nwhat: resolving pool index {idx} with accessor {kind} panics: {p}\npool: {}\n", u.pool.gallina())); continue; }
				Ok(g) => if *g != want {
					r.violation(format!("pool accessor {kind} on index {idx}: duke resolves to {g:?}, the pool states {want:?}"),
						format!("property C01\nwhat: pool index {idx} through accessor kind {kind} (0 loadable, 1 field ref, 2 method ref, 3 method or interface method ref, 4 interface method ref, 5 invokedynamic, 6 class, 7 ConstantValue, 8 utf8)\nduke: {g:?}\nJVMS resolution: {want:?}\npool: {}\nbootstrap methods: {}\n", u.pool.gallina(), g_bsm(&u.bsm)));
				},
			}
			if let Ok(g) = got { qs.push(format!("({kind}, {idx}, {})", match g { Some(v) => format!("Ok {}", g_cval(&v)), None => "Err".into() })); }
		}
		r.case("pool", format!("CPool {} {} [{}]", u.pool.gallina(), g_bsm(&u.bsm), qs.join("; ")));
	}
}

// ---------------------------------------------------------------------------------------------
// access flags: JVMS tables 4.1-B, 4.5-A, 4.6-A, 4.7.6-A, 4.7.24, 4.7.25 (independent of duke)
const JVMS_MASKS: [u16; 9] = [0xf631, 0x50df, 0x1dff, 0x761f, 0x9010, 0x9020, 0x9060, 0x9000, 0x9000];
fn access_back(kind: usize, v: u16) -> u16 {
	use duke::tree::{class::{ClassAccess, InnerClassFlags}, field::FieldAccess, method::{MethodAccess, ParameterFlags}, module::{ModuleFlags, ModuleRequiresFlags, ModuleExportsFlags, ModuleOpensFlags}};
	match kind {
		0 => u16::from(ClassAccess::from(v)), 1 => u16::from(FieldAccess::from(v)), 2 => u16::from(MethodAccess::from(v)),
		3 => u16::from(InnerClassFlags::from(v)), 4 => u16::from(ParameterFlags::from(v)), 5 => u16::from(ModuleFlags::from(v)),
		6 => u16::from(ModuleRequiresFlags::from(v)), 7 => u16::from(ModuleExportsFlags::from(v)), _ => u16::from(ModuleOpensFlags::from(v)),
	}
}
fn stream_access(_ctx: &Ctx, r: &mut Report, rng: &mut Rng) {
	const NAMES: [&str; 9] = ["ClassAccess", "FieldAccess", "MethodAccess", "InnerClassFlags", "ParameterFlags", "ModuleFlags", "ModuleRequiresFlags", "ModuleExportsFlags", "ModuleOpensFlags"];
	for kind in 0..9 {
		// the oracle sweeps all 65536 values on the implementation
		for v in 0..=65535u16 {
			let back = match guarded(move || access_back(kind, v)) { Ok(b) => b, Err(p) => { r.violation(format!("{}::from({v:#06x}) panicked: {p}", NAMES[kind]), format!("property C01\nwhat: {}::from({v:#06x}) panics\n", NAMES[kind])); break; } };
			r.eval_distinct(v & JVMS_MASKS[kind] != 0);
			if back != v & JVMS_MASKS[kind] {
				r.violation(format!("{}: u16 {v:#06x} comes back as {back:#06x}; the flags JVMS defines there are {:#06x}", NAMES[kind], v & JVMS_MASKS[kind]),
					format!("property C01\nwhat: access flags {v:#06x} read into {} and written back give {back:#06x}, JVMS-defined bits are {:#06x}\n", NAMES[kind], v & JVMS_MASKS[kind]));
				break;
			}
		}
		let mut vs: Vec<u16> = (0..16).map(|b| 1u16 << b).collect();
		vs.extend([0, 0xffff, 0x0021, 0x1040]);
		for _ in 0..12 { vs.push(rng.next() as u16); }
		for v in vs { r.case("access", format!("CAccess {kind} {v} {}", access_back(kind, v))); }
	}
}

// ---------------------------------------------------------------------------------------------
// unknown attributes at class / field / method / code level
fn stream_unknown(ctx: &Ctx, r: &mut Report, rng: &mut Rng) {
	// JVMS table 4.7-C: the attributes defined per location (an attribute elsewhere is not predefined there)
	let jvms: [&[&str]; 4] = [
		&["SourceFile", "InnerClasses", "EnclosingMethod", "SourceDebugExtension", "BootstrapMethods", "Module", "ModulePackages", "ModuleMainClass", "NestHost", "NestMembers", "Record", "PermittedSubclasses", "Synthetic", "Deprecated", "Signature", "RuntimeVisibleAnnotations", "RuntimeInvisibleAnnotations", "RuntimeVisibleTypeAnnotations", "RuntimeInvisibleTypeAnnotations"],
		&["ConstantValue", "Synthetic", "Deprecated", "Signature", "RuntimeVisibleAnnotations", "RuntimeInvisibleAnnotations", "RuntimeVisibleTypeAnnotations", "RuntimeInvisibleTypeAnnotations"],
		&["Code", "Exceptions", "RuntimeVisibleParameterAnnotations", "RuntimeInvisibleParameterAnnotations", "AnnotationDefault", "MethodParameters", "Synthetic", "Deprecated", "Signature", "RuntimeVisibleAnnotations", "RuntimeInvisibleAnnotations", "RuntimeVisibleTypeAnnotations", "RuntimeInvisibleTypeAnnotations"],
		&["LineNumberTable", "LocalVariableTable", "LocalVariableTypeTable", "StackMapTable", "RuntimeVisibleTypeAnnotations", "RuntimeInvisibleTypeAnnotations"],
	];
	let foreign = ["Code", "ConstantValue", "LineNumberTable", "SourceFile", "Exceptions", "StackMapTable", "Record", "NestHost", "InnerClasses", "MethodParameters", "AnnotationDefault", "LocalVariableTable", "Module", "BootstrapMethods"];
	let invented = ["code", "Foo", "", "org.example.Custom", "Deprecated2", "Synthetic ", "\u{e9}t\u{e9}", "ScalaSig", "RuntimeVisibleAnnotation"];
	for _ in 0..(if ctx.thorough { 200 } else { 40 }) {
		let ctxn = rng.below(4);
		let mut pool = Pool::new();
		let this = pool.class("p/U"); let sup = pool.class("java/lang/Object");
		let mut list: Vec<(String, Vec<u8>)> = vec![];
		for _ in 0..rng.below(6) {
			let name = if rng.chance(1, 2) { rng.pick(&invented[..]).to_string() } else { rng.pick(&foreign[..]).to_string() };
			if jvms[ctxn].contains(&name.as_str()) || (ctxn == 3 && name == "StackMap") { continue; }
			let payload: Vec<u8> = (0..rng.below(9)).map(|_| rng.next() as u8).collect();
			list.push((name, payload));
		}
		// a few harmless predefined ones in between
		if rng.chance(1, 2) && ctxn != 3 { list.insert(rng.below(list.len() + 1), ("Deprecated".into(), vec![])); }
		if rng.chance(1, 3) && ctxn != 3 { list.insert(rng.below(list.len() + 1), ("Synthetic".into(), vec![])); }
		let attrs: Vec<Attr> = list.iter().map(|(n, b)| (pool.utf8(n), b.clone())).collect();
		let name = pool.utf8("m"); let dv = pool.utf8("()V"); let di = pool.utf8("I"); let a_code = pool.utf8("Code");
		let (fields, methods, cattrs): (Vec<Member>, Vec<Member>, Vec<Attr>) = match ctxn {
			0 => (vec![], vec![], attrs),
			1 => (vec![Member { access: 1, name, desc: di, attrs }], vec![], vec![]),
			2 => (vec![], vec![Member { access: 0x0401, name, desc: dv, attrs }], vec![]),
			_ => (vec![], vec![Member { access: 1, name, desc: dv, attrs: vec![(a_code, code_attr(1, 1, &[0xb1], &[], &attrs))] }], vec![]),
		};
		let bytes = class_bytes(&pool, 0, 52, 0x0421, this, sup, &[], &fields, &methods, &cattrs);
		let b2 = bytes.clone();
		crumb_class(&bytes);
		let got = guarded(move || duke::read_class(&mut Cursor::new(b2)).ok().map(|c| {
			let a = match ctxn { 0 => c.attributes.clone(), 1 => c.fields[0].attributes.clone(), 2 => c.methods[0].attributes.clone(), _ => c.methods[0].code.as_ref().map(|c| c.attributes.clone()).unwrap_or_default() };
			a.into_iter().map(|x| (fbh::gal::cps(&x.name), x.bytes)).collect::<Vec<_>>()
		}));
		let want: Vec<(Vec<u32>, Vec<u8>)> = list.iter().filter(|(n, _)| !jvms[ctxn].contains(&n.as_str())).map(|(n, b)| (fbh::gal::cps_str(n), b.clone())).collect();
		r.eval(&hex(&bytes), !want.is_empty());
		r.count(&format!("unknown_attrs_ctx{ctxn}"));
		let replay = format!("property C01\nwhat: unknown attributes at level {ctxn} (0 class, 1 field, 2 method, 3 Code) must be delivered byte for byte, in order\nattributes in the file: {list:?}\nclass file (hex): {}\n", hex(&bytes));
		match got {
			Err(p) => r.violation(format!("read_class panicked on a class with unknown attributes: {p}"), replay),
			Ok(None) => r.violation("read_class rejects a class with unknown attributes".into(), replay),
			Ok(Some(g)) => {
				if g != want { r.violation(format!("unknown attributes delivered {g:?}, the file has {want:?}"), replay); }
				let gl = |v: &[(Vec<u32>, Vec<u8>)]| format!("[{}]", v.iter().map(|(n, b)| format!("({}, {})", gs(n), fbh::gal::gnums(b.iter().map(|x| *x as u64)))).collect::<Vec<_>>().join("; "));
				let all: Vec<(Vec<u32>, Vec<u8>)> = list.iter().map(|(n, b)| (fbh::gal::cps_str(n), b.clone())).collect();
				r.case("unknown-attrs", format!("CUnknown {ctxn} {} {}", gl(&all), gl(&g)));
			}
		}
	}
}

// ---------------------------------------------------------------------------------------------
// outside the hypotheses: one deliberately broken method per class; model and duke must agree on
// Err / on what is still delivered (no oracle: these are not well-formed class files)
fn stream_broken(ctx: &Ctx, r: &mut Report, rng: &mut Rng) {
	let u = build_universe(rng, false);
	for _ in 0..(if ctx.thorough { 240 } else { 80 }) {
		let n = rng.range(2, 12);
		let mut m = gen_method(rng, &u, n, true);
		let clen = m.code.len();
		let kind = rng.below(9);
		match kind {
			0 => { let i = rng.below(clen); m.code[i] = rng.next() as u8; }                       // any byte changed
			1 => { m.code.truncate(rng.range(1, clen)); }                                        // truncated
			2 => { let i = rng.below(clen); m.code[i] = *rng.pick(&[0xcau8, 0xfe, 0xff, 0xcb, 0xc4]); if rng.chance(1, 3) { m.code[0] = 0xc4; if clen > 1 { m.code[1] = *rng.pick(&[0u8, 0xc4, 0xa7, 0xb1]); } } }   // reserved opcode / stray wide / wide before an opcode that has no wide form
			3 => { m.lay.push(clen + rng.range(0, 3)); m.exc.push((0, n, n + 1, 0)); }             // handler at or past the end
			4 => { m.lay.push(clen + 1 + rng.below(3)); m.exc.push((0, n + 1, 0, 0)); }            // end past the end
			5 => { m.lay.push(clen + rng.below(2)); m.attrs.push(CA::Lines(vec![(n + 1, 7)])); }   // line number at / past the end
			6 => { m.lay.push(clen + 1 + rng.below(70000 - clen)); m.attrs.push(CA::Lvt(vec![(0, n + 1)])); }   // range past the end
			7 => { if clen > 2 { m.lay.push(rng.range(1, clen - 1)); m.attrs.push(CA::Lines(vec![(n + 1, 9)])); } }   // inside an instruction (or not)
			_ => { m.code.extend([0xa7, 0x7f, 0xff]); }                                           // goto far beyond the end
		}
		if m.lay.iter().any(|&x| x > 65535) { m.lay.iter_mut().for_each(|x| if *x > 65535 { *x = 65535 }); }
		r.count(&format!("broken_kind{kind}"));
		let mut pool = u.pool.clone();
		let bytes = class_of(&u, std::slice::from_ref(&m), &mut pool);
		r.eval(&hex(&bytes), true);
		let got = read_with_duke(&bytes);
		let res = match &got { Outcome::Ok(v, _) => { r.count("broken_still_ok"); format!("(Ok [{}])", v.iter().map(g_xsem).collect::<Vec<_>>().join("; ")) } Outcome::Err => { r.count("broken_err"); "Err".into() } Outcome::Panic(_) => { r.count("broken_panic_not_compared"); continue } };
		r.case("broken", format!("CClass {} {} [{}] {}", pool.gallina(), g_bsm(&u.bsm), m.g_code_in(), res));
	}
}

/// code_length at its limits, through the model as well: 0 (rejected), 65535 (the largest), 65536 (rejected)
fn stream_code_length(ctx: &Ctx, r: &mut Report, rng: &mut Rng) {
	let u = build_universe(rng, false);
	let mut lens: Vec<usize> = vec![0, 1, 6];
	lens.extend([3000, 65535, 65536]);
	let _ = ctx;
	for len in lens {
		let (body, ch): (Vec<Insn<usize>>, Vec<Choice>) = if len < 6 {
			((0..len).map(|_| Insn::Gen(177, vec![])).collect(), (0..len).map(|_| Choice { form: Form::Plain(177), fill: [0; 3] }).collect())
		} else {
			// nop … nop; goto_w 0; return
			let mut b: Vec<Insn<usize>> = (0..len - 6).map(|_| Insn::Gen(0, vec![])).collect();
			let mut c: Vec<Choice> = (0..len - 6).map(|_| Choice { form: Form::Plain(0), fill: [0; 3] }).collect();
			b.push(Insn::Gen(167, vec![Op::T(0)])); c.push(Choice { form: Form::Plain(0xc8), fill: [0; 3] });
			b.push(Insn::Gen(177, vec![])); c.push(Choice { form: Form::Plain(177), fill: [0; 3] });
			(b, c)
		};
		let lay = layout(&ch, &body);
		let code = encode(&ch, &body).expect("encodes");
		assert_eq!(code.len(), len);
		let m = MethodGen { body, ch, code, lay, exc: vec![], attrs: vec![] };
		let mut pool = u.pool.clone();
		let bytes = class_of(&u, std::slice::from_ref(&m), &mut pool);
		r.eval(&format!("code_length:{len}"), true);
		r.count(&format!("code_length_{len}"));
		let got = read_with_duke(&bytes);
		let valid = (1..=65535).contains(&len);
		match &got {
			Outcome::Panic(p) => { r.violation(format!("read_class panicked on a method of code_length {len}: {p}"), format!("property C01\nwhat: code_length {len}: nop x {}, goto_w 0, return\n", len.saturating_sub(6))); continue; }
			Outcome::Err if valid => r.violation(format!("read_class rejects a method of code_length {len}"), format!("property C01\nwhat: code_length {len} (valid): nop x {}, goto_w 0, return is rejected\n", len.saturating_sub(6))),
			Outcome::Ok(v, _) if valid && v[0] != m.truth(&u) => r.violation(format!("code_length {len}: {}", first_diff(&v[0], &m.truth(&u))), format!("property C01\nwhat: code_length {len}: nop x {}, goto_w 0, return is not delivered as written\n", len.saturating_sub(6))),
			_ => {}
		}
		let res = match &got { Outcome::Ok(v, _) => format!("(Ok [{}])", v.iter().map(g_xsem).collect::<Vec<_>>().join("; ")), _ => "Err".into() };
		r.case("code-length", format!("CClass {} {} [{}] {}", pool.gallina(), g_bsm(&u.bsm), m.g_code_in(), res));
	}
}

/// header: magic and version gate
fn stream_header(_ctx: &Ctx, r: &mut Report, rng: &mut Rng) {
	let mut pool = Pool::new();
	let this = pool.class("p/H"); let sup = pool.class("java/lang/Object");
	let mut vs: Vec<(u32, u16, u16)> = vec![];
	for major in 44..=69u16 { for minor in [0u16, 1, 3, 65535] { vs.push((0xCAFEBABE, minor, major)); } }
	for _ in 0..20 { vs.push((0xCAFEBABE, rng.next() as u16, rng.next() as u16)); }
	for mg in [0xCAFEBABFu32, 0xCAFEBABD, 0, 0xBEBAFECA] { vs.push((mg, 0, 52)); }
	for (mg, minor, major) in vs {
		let mut bytes = class_bytes(&pool, minor, major, 0x21, this, sup, &[], &[], &[], &[]);
		bytes[0..4].copy_from_slice(&mg.to_be_bytes());
		let b2 = bytes.clone();
		crumb_class(&bytes);
		let got = guarded(move || duke::read_class(&mut Cursor::new(b2)).is_ok());
		// JVMS 4.1: magic 0xCAFEBABE; versions 45.0 .. 67.0 (the property's range), minor 0 or 65535 from major 56 on
		let valid = mg == 0xCAFEBABE && (45..=67).contains(&major) && (major < 56 || minor == 0 || (minor == 65535 && major < 67));
		r.eval(&hex(&bytes), valid);
		match got {
			Err(p) => r.violation(format!("read_class panicked on the header {mg:#x} {major}.{minor}: {p}"), format!("property C01\nwhat: header {mg:#x} version {major}.{minor} panics\nclass file (hex): {}\n", hex(&bytes))),
			Ok(acc) => {
				if valid && !acc { r.violation(format!("read_class rejects class file version {major}.{minor}"), format!("property C01\nwhat: a class file of version {major}.{minor} (valid per JVMS 4.1) is rejected\nclass file (hex): {}\n", hex(&bytes))); }
				if mg != 0xCAFEBABE && acc { r.violation(format!("read_class accepts magic {mg:#x}"), format!("property C01\nwhat: wrong magic accepted\nclass file (hex): {}\n", hex(&bytes))); }
				r.case("header", format!("CHeader {mg} {minor} {major} {acc}"));
			}
		}
	}
}

pub fn run_all(ctx: &Ctx, r: &mut Report) -> anyhow::Result<()> {
	let mut rng = Rng::new(ctx.seed);
	r.rule = "generated classes: 1..8 methods sharing one generated constant pool (random group order, filler entries pushing indices across 255/256, duplicates, two-slot entries, nested dynamic constants, Dynamic constants sharing one bootstrap method with different NameAndType), each body 1..120 random instructions over the whole instruction set with a random admissible encoding form per instruction (xload_n/xload/wide, ldc/ldc_w/ldc2_w, iinc/wide iinc, goto/goto_w, both switches at every padding), exception/line/local-variable/stack-map tables over random instruction indices in shuffled attribute order; the oracle compares what duke delivers (instructions, labels, tables, and the contents of every stack map frame) with the description the class was generated from; a case is non-trivial when the class has at least one instruction; distinct by class bytes".into();
	let mut g = rng.fork(1);
	stream_generated(ctx, r, &mut g);
	stream_pool(ctx, r, &mut rng.fork(2));
	stream_access(ctx, r, &mut rng.fork(3));
	stream_unknown(ctx, r, &mut rng.fork(4));
	stream_broken(ctx, r, &mut rng.fork(5));
	stream_header(ctx, r, &mut rng.fork(7));
	stream_code_length(ctx, r, &mut rng.fork(8));
	stream_cldc(ctx, r, &mut rng.fork(11));
	crate::pstreams::stream_accessors(ctx, r, &mut rng.fork(12));
	crate::pstreams::stream_bad_tags(r);
	crate::fstreams::stream_spec_knobs(ctx, r, &mut rng.fork(6));
	crate::fstreams::stream_boundary(ctx, r);
	crate::fstreams::stream_corpus(ctx, r);
	crate::cfile::stream_witnesses(r);
	crate::cfile::stream_files(ctx, r, &mut rng.fork(9));
	crate::cfile::stream_nesting(r);
	crate::cfile::stream_annotation_matrix(r);
	crate::cfile::stream_damaged(ctx, r, &mut rng.fork(10));
	Ok(())
}

