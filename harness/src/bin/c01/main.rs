//! C01 — class reader: generated method bodies in every encoding variant through duke::read_class,
//! compared with the ground truth they were generated from (property oracle) and with the Coq
//! model of the two-pass code reader (correspondence cases).
mod asm;
mod proj;
mod streams;
mod fstreams;
mod pstreams;
mod cfile;
mod witness;

use fbh::report::Report;
use fbh::Ctx;

pub fn run(ctx: &Ctx) -> anyhow::Result<Report> {
	let mut r = Report::new("C01", "C01.Run");
	r.shard_size = 40;
	streams::run_all(ctx, &mut r)?;
	Ok(r)
}

fn main() -> anyhow::Result<()> { fbh::main_with(run) }
