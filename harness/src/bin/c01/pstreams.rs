//! Constant-pool accessors that no instruction operand reaches (stream_pool covers 0..8 through
//! instructions, ConstantValue and SourceFile): NameAndType of EnclosingMethod, Module, Package, the
//! narrowing accessors of element values (AnnotationDefault), this_class, the method handle of a
//! bootstrap method, and loadable / invokedynamic constants in a class WITHOUT a BootstrapMethods
//! attribute.  Every accessor is asked for the first entry of every kind (so every "pool entry not X"
//! refusal is reached), index 0, a second slot of a Long/Double, the count, and the universe's extras
//! (reference_kind 0 and 10, missing bootstrap methods, a Dynamic that is its own argument).
//! Oracle: the harness' own resolver (asm.rs, JVMS 4.4); correspondence: `CAcc` (ClassFile.acc).
use fbh::classfile::facts::{facts_from_duke, ElementValueFacts};
use fbh::prng::Rng;
use fbh::report::{guarded, Report};
use fbh::Ctx;
use crate::asm::*;
use crate::proj::*;
use crate::streams::{build_universe, crumb_class, Universe};

fn cps(j: &fbh::classfile::jstr::JStr) -> Vec<u32> { j.code_points() }

/// (what the vehicle asks, accessor number of the model)
const QUERIES: &[(&str, u8)] = &[
	("EnclosingMethod.method_index", 10), ("Module.module_name_index", 11), ("ModulePackages.package_index", 12),
	("AnnotationDefault I", 13), ("AnnotationDefault B", 14), ("AnnotationDefault C", 15), ("AnnotationDefault S", 16), ("AnnotationDefault Z", 17),
	("AnnotationDefault J", 18), ("AnnotationDefault F", 19), ("AnnotationDefault D", 20),
	("this_class", 6), ("BootstrapMethods.bootstrap_method_ref", 9),
	("ldc_w without BootstrapMethods", 0), ("invokedynamic without BootstrapMethods", 5),
];

fn vehicle(u: &Universe, q: usize, idx: u16) -> Vec<u8> {
	let pool = &u.pool;
	let find = |s: &str| pool.entries.iter().zip(&pool.index).find_map(|(e, i)| if matches!(e, PE::Utf8(x) if x == s) { Some(*i) } else { None }).expect("vehicle name in the universe");
	let name = find("m0");
	let ib = idx.to_be_bytes();
	let code_of = |ins: Insn<usize>, form: u8| {
		let body = vec![ins, Insn::Gen(177, vec![])];
		let ch = vec![Choice { form: Form::Plain(form), fill: [0; 3] }, Choice { form: Form::Plain(177), fill: [0; 3] }];
		let code = encode(&ch, &body).expect("vehicle encodes");
		vec![Member { access: 9, name, desc: u.desc_v, attrs: vec![(u.a_code, code_attr(4, 4, &code, &[], &[]))] }]
	};
	let (this, fields, methods, attrs): (u16, Vec<Member>, Vec<Member>, Vec<Attr>) = match q {
		0 => { let mut b = u.this.to_be_bytes().to_vec(); b.extend(ib); (u.this, vec![], vec![], vec![(find("EnclosingMethod"), b)]) }
		1 => { let mut b = ib.to_vec(); b.extend([0u8; 4]); b.extend([0u8; 10]); (u.this, vec![], vec![], vec![(find("Module"), b)]) }
		2 => { let mut b = vec![0u8, 1]; b.extend(ib); (u.this, vec![], vec![], vec![(find("ModulePackages"), b)]) }
		3..=10 => {
			let tag = [b'I', b'B', b'C', b'S', b'Z', b'J', b'F', b'D'][q - 3];
			let mut b = vec![tag]; b.extend(ib);
			(u.this, vec![], vec![Member { access: 0x0401, name, desc: u.desc_v, attrs: vec![(find("AnnotationDefault"), b)] }], vec![])
		}
		11 => (idx, vec![], vec![], vec![]),
		12 => {
			// bootstrap method 0 = (idx, no arguments); the last extra entry is InvokeDynamic(0, viah:()V)
			let indy = *u.extra.last().expect("extras");
			let mut b = vec![0u8, 1]; b.extend(ib); b.extend([0u8, 0]);
			(u.this, vec![], code_of(Insn::Gen(186, vec![Op::C(5, indy as u32)]), 186), vec![(u.a_bsm, b)])
		}
		13 => (u.this, vec![], code_of(Insn::Gen(18, vec![Op::C(0, idx as u32)]), 0x13), vec![]),
		_ => (u.this, vec![], code_of(Insn::Gen(186, vec![Op::C(5, idx as u32)]), 186), vec![]),
	};
	class_bytes(pool, 0, 61, 0x21, this, u.sup, &[], &fields, &methods, &attrs)
}

/// what duke's tree holds for the queried item: Ok(Some value) / Ok(None) = the class is refused / Err = panic
fn observe(q: usize, bytes: Vec<u8>) -> Result<Option<CVal>, String> {
	crumb_class(&bytes);
	guarded(move || {
		let Ok(c) = duke::read_class(&mut std::io::Cursor::new(bytes)) else { return None };
		let first_op = |c: &duke::tree::class::ClassFile| {
			let code = c.methods.first()?.code.as_ref()?;
			match xinsn_of(&code.instructions.first()?.instruction, &|_| None) { XInsn::Gen(_, ops) => ops.into_iter().find_map(|o| if let XOp::V(v) = o { Some(v) } else { None }), _ => None }
		};
		if q == 12 { return match first_op(&c)? { CVal::Indy(_, _, h, _) => Some(*h), _ => None }; }
		if q >= 13 { return first_op(&c); }
		let f = facts_from_duke(&c);
		match q {
			0 => f.enclosing_method.and_then(|e| e.method).map(|(n, d)| CVal::NameType(cps(&n), cps(&d))),
			1 => f.module.map(|m| CVal::Module(cps(&m.name))),
			2 => f.module_packages.and_then(|v| v.first().map(|p| CVal::Package(cps(p)))),
			3..=10 => f.methods.first().and_then(|m| m.annotation_default.clone()).and_then(|e| match e {
				ElementValueFacts::Int(x) | ElementValueFacts::Byte(x) | ElementValueFacts::Char(x) | ElementValueFacts::Short(x) | ElementValueFacts::Boolean(x) => Some(CVal::Int(x)),
				ElementValueFacts::Long(x) => Some(CVal::Long(x)), ElementValueFacts::Float(x) => Some(CVal::Float(x.0)), ElementValueFacts::Double(x) => Some(CVal::Double(x.0)),
				_ => None,
			}),
			_ => Some(CVal::Class(cps(&f.name))),
		}
	})
}

fn kind_name(e: &PE) -> &'static str {
	match e {
		PE::Utf8(_) => "Utf8", PE::Int(_) => "Integer", PE::Float(_) => "Float", PE::Long(_) => "Long", PE::Double(_) => "Double", PE::Class(_) => "Class",
		PE::Str(_) => "String", PE::Field(..) => "Fieldref", PE::Method(..) => "Methodref", PE::IMethod(..) => "InterfaceMethodref", PE::NT(..) => "NameAndType",
		PE::Handle(..) => "MethodHandle", PE::MType(_) => "MethodType", PE::Dynamic(..) => "Dynamic", PE::Indy(..) => "InvokeDynamic", PE::Module(_) => "Module", PE::Package(_) => "Package",
	}
}

pub fn stream_accessors(ctx: &Ctx, r: &mut Report, rng: &mut Rng) {
	for ui in 0..(if ctx.thorough { 10 } else { 2 }) {
		let u = build_universe(rng, ui % 2 == 1);
		let pool = &u.pool;
		// candidates: the first entry of every kind, further ones of the kinds asked for, 0, a second slot, the count, the extras
		let mut cands: Vec<u16> = vec![0, pool.count()];
		let mut seen: std::collections::BTreeMap<&'static str, usize> = Default::default();
		for (e, &i) in pool.entries.iter().zip(&pool.index) {
			let k = kind_name(e);
			let n = seen.entry(k).or_insert(0);
			let many = matches!(e, PE::Int(_) | PE::NT(..) | PE::Handle(..) | PE::Class(_));
			if *n < (if many { 12 } else { 1 }) { cands.push(i); if matches!(e, PE::Long(_)) && *n == 0 { cands.push(i + 1); } }
			*n += 1;
		}
		cands.extend(u.extra.iter().copied());
		cands.sort(); cands.dedup();
		let mut qs = vec![];
		for (q, (what, acc)) in QUERIES.iter().enumerate() {
			for &idx in &cands {
				// index 0 of an optional index means "absent", not a resolution
				if q == 0 && idx == 0 { continue; }
				// names and descriptors of the pool are valid for what they are used as (C18's predicates are not C01's)
				if q == 0 { if let Some(PE::NT(_, d)) = pool.get(idx) { if !matches!(pool.get(*d), Some(PE::Utf8(s)) if s.starts_with('(')) { continue; } } }
				if q == 11 { if let Some(PE::Class(n)) = pool.get(idx) { if matches!(pool.get(*n), Some(PE::Utf8(s)) if s.starts_with('[')) { continue; } } }
				let bsm: Vec<(u16, Vec<u16>)> = vec![];
				let want = pool.resolve(*acc, idx, &bsm);
				r.eval(&format!("acc{ui}:{q}:{idx}:{}", pool.count()), want.is_some());
				r.count(&format!("accessor_{}_{}", acc, if want.is_some() { "ok" } else { "refused" }));
				let got = observe(q, vehicle(&u, q, idx));
				match &got {
					Err(p) => { r.violation(format!("{what} = {idx}: read_class panicked: {p}"), format!("property C01\nwhat: a class whose {what} is pool index {idx} makes read_class panic: {p}\npool: {}\n", pool.gallina())); continue; }
					Ok(g) => if *g != want {
						r.violation(format!("{what} = {idx}: duke resolves it to {g:?}, the pool states {want:?}"),
							format!("property C01\nwhat: {what} = pool index {idx} (entry: {:?})\nduke: {g:?}\nJVMS resolution: {want:?}\npool: {}\nclass file (hex): {}\n", pool.get(idx), pool.gallina(), crate::streams::hex(&vehicle(&u, q, idx))));
					},
				}
				if let Ok(g) = got { qs.push(format!("({acc}, {idx}, {})", match g { Some(v) => format!("Ok {}", g_cval(&v)), None => "Err".into() })); }
			}
		}
		r.case("pool-acc", format!("CAcc {} [{}]", pool.gallina(), qs.join("; ")));
	}
	// the budget of expanded bootstrap arguments (pool.rs MAX_BOOTSTRAP_ARGUMENTS_EXPANDED, a deliberate limit that is not
	// modelled): 17 levels of Dynamic constants, each bootstrap method naming the next level twice
	{
		let mut p = Pool::new();
		let this = p.class("p/B"); let sup = p.class("java/lang/Object");
		let c = p.class("p/M"); let nt = p.nt("bsm", "()V"); let m = p.add(PE::Method(c, nt)); let h = p.add(PE::Handle(6, m));
		let nt_i = p.nt("d", "I");
		let levels = 17u16;
		let first = p.count();
		let mut bsm: Vec<(u16, Vec<u16>)> = vec![];
		for l in 0..levels { p.add(PE::Dynamic(l, nt_i)); bsm.push((h, if l + 1 < levels { vec![first + l + 1, first + l + 1] } else { vec![] })); }
		let a_bsm = p.utf8("BootstrapMethods"); let a_code = p.utf8("Code"); let name = p.utf8("m"); let dv = p.utf8("()V");
		let mut b = vec![]; b.extend((bsm.len() as u16).to_be_bytes());
		for (h, args) in &bsm { b.extend(h.to_be_bytes()); b.extend((args.len() as u16).to_be_bytes()); for a in args { b.extend(a.to_be_bytes()); } }
		let body = vec![Insn::Gen(18, vec![Op::C(0, first as u32)]), Insn::Gen(177, vec![])];
		let ch = vec![Choice { form: Form::Plain(0x13), fill: [0; 3] }, Choice { form: Form::Plain(177), fill: [0; 3] }];
		let code = encode(&ch, &body).expect("encodes");
		let bytes = class_bytes(&p, 0, 61, 0x21, this, sup, &[], &[], &[Member { access: 9, name, desc: dv, attrs: vec![(a_code, code_attr(1, 1, &code, &[], &[]))] }], &[(a_bsm, b)]);
		crumb_class(&bytes);
		r.eval("bootstrap-argument-budget", true);
		match guarded(move || duke::read_class(&mut std::io::Cursor::new(bytes)).is_ok()) {
			Err(p) => r.violation(format!("read_class panicked on 2^16 expanded bootstrap arguments: {p}"), "property C01\nwhat: ldc of a Dynamic constant whose bootstrap arguments expand to 2^17 - 2 constants (17 levels, each naming the next twice) panics\n".into()),
			Ok(acc) => r.count(if acc { "bootstrap_budget_accepted" } else { "bootstrap_budget_refused" }),
		}
	}
}

/// Tags the reader must refuse (no oracle: these are not class files; duke and the model must both refuse):
/// verification_type_info tag 9, element_value tag '?', a target_type of another location in every
/// context, type_path_kind 4, a type_argument_index on a non-type-argument step, a second Record attribute.
pub fn stream_bad_tags(r: &mut Report) {
	let mut p = Pool::new();
	let this = p.class("p/X"); let sup = p.class("java/lang/Object");
	let name = p.utf8("m"); let dv = p.utf8("()V"); let di = p.utf8("I");
	let a_code = p.utf8("Code"); let a_smt = p.utf8("StackMapTable"); let a_ad = p.utf8("AnnotationDefault");
	let a_rva = p.utf8("RuntimeVisibleAnnotations"); let a_rvta = p.utf8("RuntimeVisibleTypeAnnotations"); let a_rita = p.utf8("RuntimeInvisibleTypeAnnotations");
	let a_rec = p.utf8("Record");
	let ty = p.utf8("LA;"); let v = p.utf8("v");
	let be = |x: u16| x.to_be_bytes();
	let meth = |attrs: Vec<Attr>| vec![Member { access: 0x0401, name, desc: dv, attrs }];
	let mut items: Vec<(&str, Vec<Member>, Vec<Member>, Vec<Attr>)> = vec![];
	items.push(("verification_type_info tag 9", vec![], vec![Member { access: 9, name, desc: dv, attrs: vec![(a_code, code_attr(1, 1, &[0xb1], &[], &[(a_smt, vec![0, 1, 64, 9])]))] }], vec![]));
	items.push(("element_value tag '?' (AnnotationDefault)", vec![], meth(vec![(a_ad, vec![0x3f, 0, 1])]), vec![]));
	{ let mut b = vec![0u8, 1]; b.extend(be(ty)); b.extend([0, 1]); b.extend(be(v)); b.extend([0x3f, 0, 0]); items.push(("element_value tag '?' (annotation)", vec![], vec![], vec![(a_rva, b)])); }
	items.push(("class: target_type 0x42", vec![], vec![], vec![(a_rvta, vec![0, 1, 0x42, 0, 0])]));
	items.push(("field: target_type 0x00", vec![Member { access: 1, name, desc: di, attrs: vec![(a_rita, vec![0, 1, 0x00, 0])] }], vec![], vec![]));
	items.push(("method: target_type 0x00", vec![], meth(vec![(a_rvta, vec![0, 1, 0x00, 0])]), vec![]));
	items.push(("code: target_type 0x00", vec![], vec![Member { access: 9, name, desc: dv, attrs: vec![(a_code, code_attr(1, 1, &[0xb1], &[], &[(a_rvta, vec![0, 1, 0x00, 0])]))] }], vec![]));
	for (what, step) in [("type_path_kind 4", [4u8, 0]), ("type_argument_index 1 on an array step", [0u8, 1]), ("type_argument_index 1 on a nested step", [1u8, 1]), ("type_argument_index 1 on a wildcard step", [2u8, 1])] {
		let mut b = vec![0u8, 1, 0x00, 0, 1]; b.extend(step); b.extend(be(ty)); b.extend([0, 0]);
		items.push((what, vec![], vec![], vec![(a_rvta, b)]));
	}
	items.push(("two Record attributes", vec![], vec![], vec![(a_rec, vec![0, 0]), (a_rec, vec![0, 0])]));
	for (what, fields, methods, attrs) in items {
		let bytes = class_bytes(&p, 0, 61, 0x0421, this, sup, &[], &fields, &methods, &attrs);
		r.eval(&format!("bad-tag:{what}"), true);
		crumb_class(&bytes);
		let b2 = bytes.clone();
		match guarded(move || duke::read_class(&mut std::io::Cursor::new(b2)).is_ok()) {
			Err(pn) => r.violation(format!("{what}: read_class panicked: {pn}"), format!("property C01\nwhat: {what}: read_class panics\nclass file (hex): {}\n", crate::streams::hex(&bytes))),
			Ok(acc) => r.count(if acc { "bad_tag_accepted" } else { "bad_tag_refused" }),
		}
		crate::cfile::file_case(r, "file-badtag", &bytes);
	}
}
