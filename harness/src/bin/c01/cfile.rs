//! Whole class files through the Coq model of the reader (`CFile` cases of coq/C01/Run.v):
//! the tree duke::read_class built, printed as the model's `class_desc`.  Everything outside the
//! instruction list is taken from `facts_from_duke` (fbh::classfile: the tree's content with the
//! crate-private parts read through Debug), the instruction list with its labels and frame
//! attachment from `proj::xsem_of_code` as in the `CClass` cases.
use fbh::classfile::facts::*;
#[allow(unused_imports)]
use fbh::classfile::facts::{ClassG, MethodG};
use fbh::gal::gstr;
use crate::proj::{g_on, g_xinsn, xsem_of_code};

fn gs(j: &JStr) -> String { gstr(&j.code_points()) }
fn u(j: &JStr) -> String { format!("(U {})", gs(j)) }
fn k(j: &JStr) -> String { format!("(K {})", gs(j)) }
fn vs(j: &JStr) -> String { format!("(VS {})", gs(j)) }
fn vn(n: u64) -> String { format!("(VN {n})") }
fn vlist(v: Vec<String>) -> String { format!("(VList [{}])", v.join("; ")) }
fn vseq(v: Vec<String>) -> String { format!("(VSeq [{}])", v.join("; ")) }
fn vtag(t: u32, v: String) -> String { format!("(VTag {t} {v})") }
fn vint(x: i64) -> String { format!("(VC (VInt ({x})))") }
fn vo(x: Option<String>) -> String { match x { Some(c) => format!("(VO (Some {c}))"), None => "(VO None)".into() } }
fn at(p: usize) -> String { if p == DANGLING { "(VAt None)".into() } else { format!("(VAt (Some {p}%nat))") } }
fn on(p: usize) -> String { if p == DANGLING { "None".into() } else { format!("(Some {p}%nat)") } }
fn span(a: usize, b: usize) -> String { format!("(VSpan {} {})", on(a), on(b)) }
fn bytes(b: &[u8]) -> String { fbh::gal::gnums(b.iter().map(|x| *x as u64)) }

/// bytes packed seven to a 63-bit integer: count + 8 * (b0 + 256 * b1 + …)
pub fn packed(b: &[u8]) -> String {
	let ints: Vec<String> = b.chunks(7).map(|c| {
		let mut v: u64 = 0;
		for (i, x) in c.iter().enumerate() { v |= (*x as u64) << (8 * i); }
		((v << 3) | c.len() as u64).to_string()
	}).collect();
	format!("(pb [{}]%uint63)", ints.join(";"))
}

fn ev(e: &ElementValueFacts) -> String {
	use ElementValueFacts as E;
	match e {
		E::Byte(x) => vtag(66, vint(*x as i64)), E::Char(x) => vtag(67, vint(*x as i64)), E::Short(x) => vtag(83, vint(*x as i64)),
		E::Int(x) => vtag(73, vint(*x as i64)), E::Boolean(x) => vtag(90, vint(*x as i64)),
		E::Long(x) => vtag(74, format!("(VC (VLong ({x})))")),
		E::Float(f) => vtag(70, format!("(VC (VFloat {}))", f.0)), E::Double(f) => vtag(68, format!("(VC (VDouble {}))", f.0)),
		E::String(s) => vtag(115, u(s)),
		E::Enum { type_desc, const_name } => vtag(101, vseq(vec![u(type_desc), u(const_name)])),
		E::Class(c) => vtag(99, u(c)),
		E::Annotation(a) => vtag(64, annotation(a)),
		E::Array(xs) => vtag(91, vlist(xs.iter().map(ev).collect())),
	}
}
fn pairs(a: &AnnotationFacts) -> String { vlist(a.pairs.iter().map(|(n, v)| vseq(vec![u(n), ev(v)])).collect()) }
fn annotation(a: &AnnotationFacts) -> String { vseq(vec![u(&a.type_desc), pairs(a)]) }
fn path(p: &[PathStep]) -> String {
	vlist(p.iter().map(|s| match s {
		PathStep::Array => vtag(0, vn(0)), PathStep::Nested => vtag(1, vn(0)), PathStep::Wildcard => vtag(2, vn(0)),
		PathStep::TypeArgument(i) => vtag(3, vn(*i as u64)),
	}).collect())
}
fn target(t: &TargetFacts) -> String {
	use TargetFacts as T;
	let tt = t.target_type() as u32;
	match t {
		T::ClassTypeParameter(i) | T::MethodTypeParameter(i) | T::FormalParameter(i) => vtag(tt, vseq(vec![vn(*i as u64)])),
		T::Supertype(i) | T::Throws(i) => vtag(tt, vseq(vec![vn(*i as u64)])),
		T::ClassTypeParameterBound { param, bound } | T::MethodTypeParameterBound { param, bound } => vtag(tt, vseq(vec![vn(*param as u64), vn(*bound as u64)])),
		T::Field | T::Return | T::Receiver => vtag(tt, vseq(vec![])),
	}
}
fn type_annotation(t: &TypeAnnotationFacts) -> String { vseq(vec![target(&t.target), path(&t.path), u(&t.annotation.type_desc), pairs(&t.annotation)]) }
fn code_target(t: &CodeTargetG<usize>) -> String {
	use CodeTargetG as C;
	let tt = t.target_type() as u32;
	match t {
		C::LocalVariable(v) | C::ResourceVariable(v) => vtag(tt, vseq(vec![vlist(v.iter().map(|r| vseq(vec![span(r.start, r.end), vn(r.index as u64)])).collect())])),
		C::ExceptionParameter(i) => vtag(tt, vseq(vec![vn(*i as u64)])),
		C::InstanceOf(p) | C::New(p) | C::ConstructorReference(p) | C::MethodReference(p) => vtag(tt, vseq(vec![at(*p)])),
		C::Cast { at: p, index } | C::ConstructorInvocationTypeArgument { at: p, index } | C::MethodInvocationTypeArgument { at: p, index }
		| C::ConstructorReferenceTypeArgument { at: p, index } | C::MethodReferenceTypeArgument { at: p, index } => vtag(tt, vseq(vec![at(*p), vn(*index as u64)])),
	}
}
fn code_type_annotation(t: &CodeTypeAnnotationG<usize>) -> String { vseq(vec![code_target(&t.target), path(&t.path), u(&t.annotation.type_desc), pairs(&t.annotation)]) }

fn slot(name: &str, v: String) -> String { format!("({}, {v})", gstr(&fbh::gal::cps_str(name))) }
fn unknown(v: &[UnknownAttr]) -> String { format!("[{}]", v.iter().map(|a| format!("({}, {})", gs(&a.name), bytes(&a.bytes))).collect::<Vec<_>>().join("; ")) }

struct Anns<'a> { va: &'a [AnnotationFacts], ia: &'a [AnnotationFacts], vta: &'a [TypeAnnotationFacts], ita: &'a [TypeAnnotationFacts] }
fn ann_pairs(a: Anns) -> Vec<(&'static str, String)> {
	let mut out = vec![];
	if !a.va.is_empty() { out.push(("RuntimeVisibleAnnotations", vlist(a.va.iter().map(annotation).collect()))); }
	if !a.ia.is_empty() { out.push(("RuntimeInvisibleAnnotations", vlist(a.ia.iter().map(annotation).collect()))); }
	if !a.vta.is_empty() { out.push(("RuntimeVisibleTypeAnnotations", vlist(a.vta.iter().map(type_annotation).collect()))); }
	if !a.ita.is_empty() { out.push(("RuntimeInvisibleTypeAnnotations", vlist(a.ita.iter().map(type_annotation).collect()))); }
	out
}
fn ann_slots(a: Anns, out: &mut Vec<String>) { for (n, v) in ann_pairs(a) { out.push(slot(n, v)); } }
fn flags(dep: bool, syn: bool, out: &mut Vec<String>) {
	if dep { out.push(slot("Deprecated", vseq(vec![]))); }
	if syn { out.push(slot("Synthetic", vseq(vec![]))); }
}
fn loadable_cv(l: &Loadable) -> String {
	match l {
		Loadable::Int(x) => vint(*x as i64), Loadable::Long(x) => format!("(VC (VLong ({x})))"),
		Loadable::Float(f) => format!("(VC (VFloat {}))", f.0), Loadable::Double(f) => format!("(VC (VDouble {}))", f.0),
		Loadable::String(s) => format!("(VC (VString {}))", gs(s)),
		other => panic!("not a ConstantValue: {other:?}"),
	}
}

fn vtype(v: &VTypeG<usize>) -> String {
	match v {
		VTypeG::Top => vtag(0, vseq(vec![])), VTypeG::Integer => vtag(1, vseq(vec![])), VTypeG::Float => vtag(2, vseq(vec![])), VTypeG::Double => vtag(3, vseq(vec![])),
		VTypeG::Long => vtag(4, vseq(vec![])), VTypeG::Null => vtag(5, vseq(vec![])), VTypeG::UninitializedThis => vtag(6, vseq(vec![])),
		VTypeG::Object(c) => vtag(7, k(c)), VTypeG::Uninitialized(p) => vtag(8, at(*p)),
	}
}
fn frame(f: &FrameG<usize>) -> String {
	match &f.kind {
		FrameKindG::Same => vtag(0, vseq(vec![])), FrameKindG::SameLocals1(v) => vtag(1, vtype(v)), FrameKindG::Chop(n) => vtag(2, vn(*n as u64)),
		FrameKindG::Append(vs) => vtag(3, vlist(vs.iter().map(vtype).collect())),
		FrameKindG::Full { locals, stack } => vtag(4, vseq(vec![vlist(locals.iter().map(vtype).collect()), vlist(stack.iter().map(vtype).collect())])),
	}
}

fn code(f: &CodeFacts, d: &duke::tree::method::code::Code) -> String {
	let x = xsem_of_code(d);
	let insns = crate::asm::glist_rle(&x.insns.iter().map(|(l, fr, i)| format!("({l}, {}, {})", g_on(fr), g_xinsn(i))).collect::<Vec<_>>());
	let exc: Vec<String> = f.exception_table.iter().map(|e| vseq(vec![at(e.start), at(e.end), at(e.handler), vo(e.catch_type.as_ref().map(|c| format!("(VClass {})", gs(c))))])).collect();
	let lines: Vec<String> = f.line_numbers.iter().map(|(p, l)| vseq(vec![at(*p), vn(*l as u64)])).collect();
	let mut lvs: Vec<String> = f.local_variables.iter().map(|v| vtag(0, vseq(vec![span(v.start, v.end), u(&v.name), u(&v.desc), vn(v.index as u64)]))).collect();
	lvs.extend(f.local_variable_types.iter().map(|v| vtag(1, vseq(vec![span(v.start, v.end), u(&v.name), u(&v.signature), vn(v.index as u64)]))));
	let frames: Vec<String> = f.frames.iter().flatten().map(frame).collect();
	format!("{{| k_max_stack := {}; k_max_locals := {}; k_insns := {insns}; k_last := {}; k_exc := [{}]; k_lines := [{}]; k_lvs := [{}]; k_frames := [{}]; k_vta := [{}]; k_ita := [{}]; k_unknown := {} |}}",
		f.max_stack.unwrap_or(0), f.max_locals.unwrap_or(0), x.last, exc.join("; "), lines.join("; "), lvs.join("; "), frames.join("; "),
		f.visible_type_annotations.iter().map(code_type_annotation).collect::<Vec<_>>().join("; "),
		f.invisible_type_annotations.iter().map(code_type_annotation).collect::<Vec<_>>().join("; "),
		unknown(&f.unknown_attributes))
}

fn member(access: u16, name: &JStr, desc: &JStr, slots: Vec<String>, unk: &[UnknownAttr], code: Option<String>) -> String {
	format!("{{| md_access := {access}; md_name := {}; md_desc := {}; md_slots := [{}]; md_unknown := {}; md_code := {} |}}",
		gs(name), gs(desc), slots.join("; "), unknown(unk), match code { Some(c) => format!("Some {c}"), None => "None".into() })
}

fn component(r: &RecordComponentFacts) -> String {
	let mut s = vec![];
	if let Some(x) = &r.signature { s.push(format!("(VAttr {} {})", gstr(&fbh::gal::cps_str("Signature")), u(x))); }
	for (n, v) in ann_pairs(Anns { va: &r.visible_annotations, ia: &r.invisible_annotations, vta: &r.visible_type_annotations, ita: &r.invisible_type_annotations }) {
		s.push(format!("(VAttr {} {v})", gstr(&fbh::gal::cps_str(n))));
	}
	let unk: Vec<String> = r.unknown_attributes.iter().map(|a| format!("(VAttr {} (VB {}))", gs(&a.name), bytes(&a.bytes))).collect();
	vseq(vec![vs(&r.name), vs(&r.desc), vseq(vec![vlist(s), vlist(unk)])])
}

/// the Coq `class_desc` of a tree
pub fn class_desc(c: &duke::tree::class::ClassFile) -> String {
	let f = facts_from_duke(c);
	let mut slots = vec![];
	flags(f.deprecated, f.synthetic, &mut slots);
	if let Some(v) = &f.inner_classes {
		slots.push(slot("InnerClasses", vlist(v.iter().map(|i| vseq(vec![k(&i.inner), vo(i.outer.as_ref().map(|o| format!("(VClass {})", gs(o)))), vo(i.inner_name.as_ref().map(|n| format!("(VUtf8 {})", gs(n)))), vn(i.access as u64)])).collect())));
	}
	if let Some(e) = &f.enclosing_method {
		slots.push(slot("EnclosingMethod", vseq(vec![k(&e.class), vo(e.method.as_ref().map(|(n, d)| format!("(VNameType {} {})", gs(n), gs(d))))])));
	}
	if let Some(s) = &f.signature { slots.push(slot("Signature", u(s))); }
	if let Some(s) = &f.source_file { slots.push(slot("SourceFile", u(s))); }
	if let Some(s) = &f.source_debug_extension { slots.push(slot("SourceDebugExtension", vs(s))); }
	ann_slots(Anns { va: &f.visible_annotations, ia: &f.invisible_annotations, vta: &f.visible_type_annotations, ita: &f.invisible_type_annotations }, &mut slots);
	if let Some(m) = &f.module {
		let md = |s: &JStr| format!("(VC (VModule {}))", gs(s));
		let pk = |s: &JStr| format!("(VC (VPackage {}))", gs(s));
		let ver = |v: &Option<JStr>| vo(v.as_ref().map(|s| format!("(VUtf8 {})", gs(s))));
		slots.push(slot("Module", vseq(vec![md(&m.name), vn(m.flags as u64), ver(&m.version),
			vlist(m.requires.iter().map(|r| vseq(vec![md(&r.module), vn(r.flags as u64), ver(&r.version)])).collect()),
			vlist(m.exports.iter().map(|e| vseq(vec![pk(&e.package), vn(e.flags as u64), vlist(e.to.iter().map(md).collect())])).collect()),
			vlist(m.opens.iter().map(|e| vseq(vec![pk(&e.package), vn(e.flags as u64), vlist(e.to.iter().map(md).collect())])).collect()),
			vlist(m.uses.iter().map(k).collect()),
			vlist(m.provides.iter().map(|p| vseq(vec![k(&p.service), vlist(p.with.iter().map(k).collect())])).collect())])));
	}
	if let Some(v) = &f.module_packages { slots.push(slot("ModulePackages", vlist(v.iter().map(|s| format!("(VC (VPackage {}))", gs(s))).collect()))); }
	if let Some(s) = &f.module_main_class { slots.push(slot("ModuleMainClass", k(s))); }
	if let Some(s) = &f.nest_host { slots.push(slot("NestHost", k(s))); }
	if let Some(v) = &f.nest_members { slots.push(slot("NestMembers", vlist(v.iter().map(k).collect()))); }
	if let Some(v) = &f.permitted_subclasses { slots.push(slot("PermittedSubclasses", vlist(v.iter().map(k).collect()))); }
	if let Some(v) = &f.record { slots.push(slot("Record", vlist(v.iter().map(component).collect()))); }
	let fields: Vec<String> = f.fields.iter().map(|x| {
		let mut s = vec![];
		flags(x.deprecated, x.synthetic, &mut s);
		if let Some(c) = &x.constant_value { s.push(slot("ConstantValue", loadable_cv(c))); }
		if let Some(g) = &x.signature { s.push(slot("Signature", u(g))); }
		ann_slots(Anns { va: &x.visible_annotations, ia: &x.invisible_annotations, vta: &x.visible_type_annotations, ita: &x.invisible_type_annotations }, &mut s);
		member(x.access, &x.name, &x.desc, s, &x.unknown_attributes, None)
	}).collect();
	let methods: Vec<String> = f.methods.iter().zip(&c.methods).map(|(x, d)| {
		let mut s = vec![];
		flags(x.deprecated, x.synthetic, &mut s);
		if let Some(v) = &x.exceptions { s.push(slot("Exceptions", vlist(v.iter().map(k).collect()))); }
		if let Some(g) = &x.signature { s.push(slot("Signature", u(g))); }
		ann_slots(Anns { va: &x.visible_annotations, ia: &x.invisible_annotations, vta: &x.visible_type_annotations, ita: &x.invisible_type_annotations }, &mut s);
		if let Some(e) = &x.annotation_default { s.push(slot("AnnotationDefault", ev(e))); }
		if let Some(v) = &x.method_parameters { s.push(slot("MethodParameters", vlist(v.iter().map(|p| vseq(vec![vo(p.name.as_ref().map(|n| format!("(VUtf8 {})", gs(n)))), vn(p.access as u64)])).collect()))); }
		let cd = match (&x.code, &d.code) { (Some(cf), Some(dc)) => Some(code(cf, dc)), _ => None };
		member(x.access, &x.name, &x.desc, s, &x.unknown_attributes, cd)
	}).collect();
	format!("{{| cd_minor := {}; cd_major := {}; cd_access := {}; cd_this := {}; cd_super := {}; cd_interfaces := [{}]; cd_fields := [{}]; cd_methods := [{}]; cd_slots := [{}]; cd_unknown := {} |}}",
		f.version.minor, f.version.major, f.access, gs(&f.name), match &f.super_class { Some(s) => format!("(Some {})", gs(s)), None => "None".into() },
		f.interfaces.iter().map(gs).collect::<Vec<_>>().join("; "), fields.join("; "), methods.join("; "), slots.join("; "), unknown(&f.unknown_attributes))
}

// ---------------------------------------------------------------------------------------------
use fbh::classfile::{asm::{try_assemble, Knobs}, corpus, gen::{gen_class, GenCfg}, raw};
use fbh::prng::Rng;
use fbh::report::{guarded, Report};
use fbh::Ctx;

/// one class file -> a CFile case (duke's answer beside the bytes); false if it could not be printed
pub fn file_case(r: &mut Report, stream: &str, bytes: &[u8]) -> bool {
	let b = bytes.to_vec();
	crate::streams::crumb_class(bytes);
	let got = guarded(move || duke::read_class(&mut std::io::Cursor::new(b)).ok().map(|c| class_desc(&c)));
	match got {
		Err(_) => { r.count("cfile_panic_not_compared"); false }
		Ok(None) => { r.count("cfile_duke_err"); r.case(stream, format!("CFile {} Err", packed(bytes))); true }
		Ok(Some(d)) => { r.count("cfile_duke_ok"); r.case(stream, format!("CFile {} (Ok {d})", packed(bytes))); true }
	}
}

/// whole class files through the model of the reader: corpus classes (small ones first, within a
/// byte budget) and generated specs under knob settings
pub fn stream_files(ctx: &Ctx, r: &mut Report, rng: &mut Rng) {
	let mut budget: usize = if ctx.thorough { 900_000 } else { 160_000 };
	let mut classes = corpus::corpus_classes();
	classes.sort_by_key(|(p, b)| (!p.starts_with("regress/"), b.len()));
	for (path, bytes) in &classes {
		if bytes.len() > 12_000 || bytes.len() > budget { continue; }
		let _ = path;
		if file_case(r, "file-corpus", bytes) { budget -= bytes.len(); }
	}
	let cfg = GenCfg::default();
	let specs = if ctx.thorough { 120 } else { 30 };
	for _ in 0..specs {
		let spec = gen_class(rng, &cfg);
		let fam = Knobs::family(rng.next());
		let picks = [0usize, 1 + rng.below(fam.len() - 1)];
		for &ki in &picks {
			let Ok(bytes) = try_assemble(&spec, &fam[ki]) else { continue };
			if bytes.len() > 12_000 { continue; }
			file_case(r, "file-generated", &bytes);
		}
	}
}

fn unhex(h: &str) -> Vec<u8> { (0..h.len() / 2).map(|i| u8::from_str_radix(&h[2 * i..2 * i + 2], 16).expect("hex")).collect() }

/// The example class and the witness classes of the known findings (coq/C01/Witness.v), on the real
/// crates: the independent parser must accept each of them (they are well-formed class files), the
/// facts oracle must find exactly the finding the witness stands for, and the model must answer as duke.
pub fn stream_witnesses(r: &mut Report) {
	use fbh::classfile::facts::{facts_from_raw, FactGroup};
	let items: [(&str, &str, Option<&str>); 4] = [("example class", crate::witness::EX_CLASS, None), ("witness of F13p", crate::witness::W_F13P, Some("F13p")),
		("witness of F13r", crate::witness::W_F13R, Some("F13r")), ("witness of F13t", crate::witness::W_F13T, Some("F13t"))];
	for (k, (what, hexs, finding)) in items.iter().enumerate() {
		let bytes = unhex(hexs);
		r.case("witness", format!("CWitness {k} {}", packed(&bytes)));
		r.eval(hexs, true);
		r.count("witness_classes");
		let replay = format!("property C01\nwhat: {what} (coq/C01/Witness.v)\nclass file (hex): {hexs}\n");
		let rawc = match raw::parse(&bytes) {
			Ok(c) => c,
			Err(e) => { r.violation(format!("{what}: the independent parser rejects the encoding of the Coq structure: {e}"), replay); continue; }
		};
		let truth = match facts_from_raw(&rawc) { Ok(t) => t.with_defined_access_bits(), Err(e) => { r.violation(format!("{what}: no facts: {e}"), replay); continue; } };
		file_case(r, "witness-file", &bytes);
		match crate::fstreams::duke_read(&bytes) {
			crate::fstreams::Read::Panic(p) => r.violation(format!("{what}: read_class panicked: {p}"), replay),
			crate::fstreams::Read::Err(e) => {
				if *finding == Some("F13t") && e.contains("unknown type reference 19 for method") { r.known("F13t FIELD-targeted type annotation inside method_info (javac 16/17 records) is rejected".into()); r.count("known_F13t"); }
				else { r.violation(format!("{what}: read_class rejects it: {e}"), replay); }
			}
			crate::fstreams::Read::Ok(c) => {
				let got = fbh::classfile::facts::facts_from_duke(&c);
				let diff = truth.diff(&got);
				match finding {
					None => if !diff.is_empty() { r.violation(format!("{what}: {}", diff.join(" | ")), replay); },
					Some("F13p") => {
						let rest = truth.without(&[FactGroup::ParameterAnnotations]).diff(&got.without(&[FactGroup::ParameterAnnotations]));
						if !rest.is_empty() || diff.is_empty() { r.violation(format!("{what}: expected exactly the parameter annotations to be missing, got: {}", diff.join(" | ")), replay); }
						else { r.known("F13p parameter annotations are not delivered".into()); r.count("known_F13p"); }
					}
					Some("F13r") => {
						if diff != vec!["class.record: Some([]) != None".to_string()] { r.violation(format!("{what}: expected exactly the empty Record to be missing, got: {}", diff.join(" | ")), replay); }
						else { r.known("F13r a Record attribute with zero components is not delivered".into()); r.count("known_F13r"); }
					}
					_ => r.violation(format!("{what}: duke accepts the class it is known to reject"), replay),
				}
			}
		}
	}
}

/// the nesting limit of element values: arrays nested 64 deep are read, 65 deep are refused (fix cd3a624)
pub fn stream_nesting(r: &mut Report) {
	use fbh::classfile::asm::{facts_of_spec, ClassSpec};
	for depth in [1usize, 63, 64, 65, 66] {
		let mut v = ElementValueFacts::Int(7);
		for _ in 0..depth { v = ElementValueFacts::Array(vec![v]); }
		let mut spec: ClassSpec = ClassG::new(61, 0x0021, "p/N", Some("java/lang/Object"));
		spec.visible_annotations.push(AnnotationFacts { type_desc: JStr::new("LA;"), pairs: vec![(JStr::new("v"), v.clone())] });
		let mut m = MethodG::new(0x0401, "d", "()[I");
		m.annotation_default = Some(v);
		spec.methods.push(m);
		let Ok(bytes) = try_assemble(&spec, &Knobs::default()) else { r.count("nesting_not_assemblable"); continue };
		r.eval(&format!("nesting:{depth}"), true);
		r.count(&format!("nesting_depth_{depth}"));
		let truth = facts_of_spec(&spec).with_defined_access_bits();
		match crate::fstreams::duke_read(&bytes) {
			crate::fstreams::Read::Panic(p) => r.violation(format!("annotation arrays nested {depth} deep: read_class panicked: {p}"), format!("property C01\nwhat: an annotation value of {depth} nested arrays panics\n")),
			crate::fstreams::Read::Err(e) => {
				if depth <= 64 { r.violation(format!("annotation arrays nested {depth} deep are rejected: {e}"), format!("property C01\nwhat: an annotation value of {depth} nested arrays (within the limit of 64) is rejected: {e}\n")); }
				else { r.count("nesting_beyond_limit_rejected"); }
			}
			crate::fstreams::Read::Ok(c) => {
				if depth > 64 { r.count("nesting_beyond_limit_accepted"); }
				let got = facts_from_duke(&c);
				if got != truth { r.violation(format!("annotation arrays nested {depth} deep: {}", truth.diff(&got).join(" | ")), format!("property C01\nwhat: an annotation value of {depth} nested arrays is not delivered as written\n")); }
			}
		}
		file_case(r, "file-nesting", &bytes);
	}
	// annotations nested in annotations, and annotations alternating with arrays, around the limit: where duke accepts,
	// the facts must be the file's; accepted or refused, the model must answer as duke (CFile)
	for kind in 1..=2usize {
		for depth in [1usize, 32, 62, 63, 64, 65, 66] {
			let mut v = ElementValueFacts::Int(7);
			for d in 0..depth {
				v = if kind == 1 || d % 2 == 0 { ElementValueFacts::Annotation(AnnotationFacts { type_desc: JStr::new("LB;"), pairs: vec![(JStr::new("w"), v)] }) } else { ElementValueFacts::Array(vec![v]) };
			}
			let mut spec: ClassSpec = ClassG::new(61, 0x0021, "p/N", Some("java/lang/Object"));
			spec.visible_annotations.push(AnnotationFacts { type_desc: JStr::new("LA;"), pairs: vec![(JStr::new("v"), v.clone())] });
			let mut m = MethodG::new(0x0401, "d", "()LB;");
			m.annotation_default = Some(v);
			spec.methods.push(m);
			let Ok(bytes) = try_assemble(&spec, &Knobs::default()) else { r.count("nesting_not_assemblable"); continue };
			r.eval(&format!("nesting:{kind}:{depth}"), true);
			let truth = facts_of_spec(&spec).with_defined_access_bits();
			let what = format!("an annotation value nested {depth} deep ({})", if kind == 1 { "annotations in annotations" } else { "annotations alternating with arrays" });
			match crate::fstreams::duke_read(&bytes) {
				crate::fstreams::Read::Panic(p) => r.violation(format!("{what}: read_class panicked: {p}"), format!("property C01\nwhat: {what} panics\nclass file (hex): {}\n", crate::streams::hex(&bytes))),
				crate::fstreams::Read::Err(e) => {
					if depth <= 32 { r.violation(format!("{what} is rejected: {e}"), format!("property C01\nwhat: {what} (far within the limit of 64) is rejected: {e}\nclass file (hex): {}\n", crate::streams::hex(&bytes))); }
					r.count(&format!("nesting_kind{kind}_depth{depth}_refused"));
				}
				crate::fstreams::Read::Ok(c) => {
					r.count(&format!("nesting_kind{kind}_depth{depth}_read"));
					let got = facts_from_duke(&c);
					if got != truth { r.violation(format!("{what}: {}", truth.diff(&got).join(" | ")), format!("property C01\nwhat: {what} is not delivered as written\nclass file (hex): {}\n", crate::streams::hex(&bytes))); }
				}
			}
			file_case(r, "file-nesting", &bytes);
		}
	}
}

/// outside the hypotheses: damaged files (no oracle: these are not well-formed class files)
pub fn stream_damaged(ctx: &Ctx, r: &mut Report, rng: &mut Rng) {
	let mut classes: Vec<(String, Vec<u8>)> = corpus::corpus_small(2500);
	let cfg = GenCfg::default();
	for _ in 0..10 { if let Ok(b) = try_assemble(&gen_class(rng, &cfg), &Knobs::default()) { if b.len() <= 4000 { classes.push(("generated".into(), b)); } } }
	if classes.is_empty() { return; }
	for _ in 0..(if ctx.thorough { 600 } else { 150 }) {
		let (_, orig) = rng.pick(&classes[..]);
		let mut b = orig.clone();
		let kind = rng.below(5);
		match kind {
			0 => { let n = rng.range(8, b.len() - 1); b.truncate(n); }
			1 => { let i = rng.range(8, b.len() - 1); b[i] = rng.next() as u8; }
			2 => { let i = rng.range(8, b.len() - 1); b[i] = b[i].wrapping_add(1); }
			3 => { let i = rng.range(8, b.len() - 1); b[i] = 0; }
			_ => { let i = rng.range(8, b.len() - 1); b[i] = 0xff; }
		}
		r.eval(&crate::streams::hex(&b), true);
		r.count(&format!("damaged_kind{kind}"));
		let b2 = b.clone();
		crate::streams::crumb_class(&b);
		match guarded(move || duke::read_class(&mut std::io::Cursor::new(b2)).ok().map(|c| class_desc(&c))) {
			Err(_) => r.count("damaged_panic_not_compared"),
			Ok(None) => { r.count("damaged_duke_err"); r.case("file-damaged", format!("CFileM {} Err", packed(&b))); }
			Ok(Some(d)) => { r.count("damaged_duke_ok"); r.case("file-damaged", format!("CFileM {} (Ok {d})", packed(&b))); }
		}
	}
}

/// Every annotation attribute kind at every location that can carry one, alone and all four together, each with an
/// annotation type of its own: Runtime{Visible,Invisible}{,Type}Annotations x {class, field, method, record component}.
/// (A reader that files one kind under another location's or another kind's list delivers facts the file does not state.)
pub fn stream_annotation_matrix(r: &mut Report) {
	use fbh::classfile::asm::{facts_of_spec, ClassSpec};
	const KINDS: [&str; 4] = ["RuntimeVisibleAnnotations", "RuntimeInvisibleAnnotations", "RuntimeVisibleTypeAnnotations", "RuntimeInvisibleTypeAnnotations"];
	const LOCS: [&str; 4] = ["class", "field", "method", "record component"];
	for loc in 0..4usize {
		for sel in 0..5usize {
			let ann = |k: usize| AnnotationFacts { type_desc: JStr::new(&format!("Lp/A{loc}{k};")), pairs: vec![(JStr::new("v"), ElementValueFacts::Int((10 * loc + k) as i32))] };
			let target = match loc { 0 => TargetFacts::Supertype(65535), 2 => TargetFacts::Return, _ => TargetFacts::Field };
			let tann = |k: usize| TypeAnnotationFacts { target, path: vec![], annotation: ann(k) };
			let on = |k: usize| sel == 4 || sel == k;
			let va: Vec<AnnotationFacts> = if on(0) { vec![ann(0)] } else { vec![] };
			let ia: Vec<AnnotationFacts> = if on(1) { vec![ann(1)] } else { vec![] };
			let vta: Vec<TypeAnnotationFacts> = if on(2) { vec![tann(2)] } else { vec![] };
			let ita: Vec<TypeAnnotationFacts> = if on(3) { vec![tann(3)] } else { vec![] };
			let mut spec: ClassSpec = ClassG::new(61, 0x0031, "p/R", Some(if loc == 3 { "java/lang/Record" } else { "java/lang/Object" }));
			match loc {
				0 => { spec.visible_annotations = va; spec.invisible_annotations = ia; spec.visible_type_annotations = vta; spec.invisible_type_annotations = ita; }
				1 => { let mut f = FieldFacts::new(0x0012, "x", "I"); f.visible_annotations = va; f.invisible_annotations = ia; f.visible_type_annotations = vta; f.invisible_type_annotations = ita; spec.fields.push(f); }
				2 => { let mut m = MethodG::new(0x0401, "x", "()I"); m.visible_annotations = va; m.invisible_annotations = ia; m.visible_type_annotations = vta; m.invisible_type_annotations = ita; spec.methods.push(m); }
				_ => { let mut c = RecordComponentFacts::new("x", "I"); c.visible_annotations = va; c.invisible_annotations = ia; c.visible_type_annotations = vta; c.invisible_type_annotations = ita; spec.record = Some(vec![c, RecordComponentFacts::new("y", "J")]); }
			}
			let what = format!("{} carrying {}", LOCS[loc], if sel == 4 { "all four annotation attributes".to_string() } else { format!("only {}", KINDS[sel]) });
			let Ok(bytes) = try_assemble(&spec, &Knobs::default()) else { r.count("annotation_matrix_not_assemblable"); continue };
			r.eval(&format!("annotation-matrix:{loc}:{sel}"), true);
			r.count("annotation_matrix_classes");
			let truth = facts_of_spec(&spec);
			match crate::fstreams::duke_read(&bytes) {
				crate::fstreams::Read::Panic(p) => r.violation(format!("{what}: read_class panicked: {p}"), format!("property C01\nwhat: {what}: read_class panics\nclass file (hex): {}\n", crate::streams::hex(&bytes))),
				crate::fstreams::Read::Err(e) => r.violation(format!("{what}: read_class rejects a valid class: {e}"), format!("property C01\nwhat: {what}: read_class returns Err: {e}\nclass file (hex): {}\n", crate::streams::hex(&bytes))),
				crate::fstreams::Read::Ok(c) => crate::fstreams::compare(r, &what, &bytes, &truth, &facts_from_duke(&c)),
			}
			file_case(r, "file-annotation-matrix", &bytes);
		}
	}
}
