//! A small class-file assembler of C01's own: constant pool builder with an independent resolver,
//! the JVMS opcode table (written from the specification, not from duke), the abstract
//! instruction type shared with the Coq model, and an encoder with per-instruction choices.
use std::collections::HashMap;

// ---------------------------------------------------------------------------------------------
// constant pool
#[derive(Clone, Debug, PartialEq)]
pub enum PE {
	Utf8(String),
	Int(i32), Float(u32), Long(i64), Double(u64),
	Class(u16), Str(u16),
	Field(u16, u16), Method(u16, u16), IMethod(u16, u16),
	NT(u16, u16),
	Handle(u8, u16), MType(u16),
	Dynamic(u16, u16), Indy(u16, u16),
	Module(u16), Package(u16),
}

/// resolved values (mirror of Coq `cval`); strings are code points
#[derive(Clone, Debug, PartialEq, Eq, Hash)]
pub enum CVal {
	Int(i32), Float(u32), Long(i64), Double(u64),
	Utf8(Vec<u32>), Class(Vec<u32>), Str(Vec<u32>),
	Field(Vec<u32>, Vec<u32>, Vec<u32>),
	Method(Vec<u32>, Vec<u32>, Vec<u32>, bool),
	NameType(Vec<u32>, Vec<u32>),
	Handle(u8, Box<CVal>),
	MethodType(Vec<u32>),
	Dynamic(Vec<u32>, Vec<u32>, Box<CVal>, Vec<CVal>),
	Indy(Vec<u32>, Vec<u32>, Box<CVal>, Vec<CVal>),
	Module(Vec<u32>), Package(Vec<u32>),
}

pub fn gs(s: &[u32]) -> String { fbh::gal::gstr(s) }
/// a Gallina list; long lists are printed run-length encoded (`repeat x n ++ [...] ++ …`) because
/// coqc's parser overflows its stack on list literals of tens of thousands of elements
pub fn glist_rle(items: &[String]) -> String {
	if items.len() < 4000 { return format!("[{}]", items.join("; ")); }
	let mut parts: Vec<String> = vec![];
	let mut lit: Vec<&str> = vec![];
	let mut i = 0;
	while i < items.len() {
		let mut j = i;
		while j < items.len() && items[j] == items[i] { j += 1; }
		if j - i >= 16 {
			if !lit.is_empty() { parts.push(format!("[{}]", lit.join("; "))); lit.clear(); }
			parts.push(format!("repeat ({}) (N.to_nat {})", items[i], j - i));
		} else {
			for k in i..j { lit.push(&items[k]); }
		}
		i = j;
	}
	if !lit.is_empty() { parts.push(format!("[{}]", lit.join("; "))); }
	format!("({})", parts.join(" ++ "))
}
pub fn g_cval(v: &CVal) -> String {
	match v {
		CVal::Int(z) => format!("(VInt ({z}))"), CVal::Long(z) => format!("(VLong ({z}))"),
		CVal::Float(b) => format!("(VFloat {b})"), CVal::Double(b) => format!("(VDouble {b})"),
		CVal::Utf8(s) => format!("(VUtf8 {})", gs(s)), CVal::Class(s) => format!("(VClass {})", gs(s)),
		CVal::Str(s) => format!("(VString {})", gs(s)),
		CVal::Field(c, n, d) => format!("(VField {} {} {})", gs(c), gs(n), gs(d)),
		CVal::Method(c, n, d, i) => format!("(VMethod {} {} {} {})", gs(c), gs(n), gs(d), i),
		CVal::NameType(n, d) => format!("(VNameType {} {})", gs(n), gs(d)),
		CVal::Handle(k, r) => format!("(VHandle {k} {})", g_cval(r)),
		CVal::MethodType(d) => format!("(VMethodType {})", gs(d)),
		CVal::Dynamic(n, d, h, a) => format!("(VDynamic {} {} {} [{}])", gs(n), gs(d), g_cval(h), a.iter().map(g_cval).collect::<Vec<_>>().join("; ")),
		CVal::Indy(n, d, h, a) => format!("(VIndy {} {} {} [{}])", gs(n), gs(d), g_cval(h), a.iter().map(g_cval).collect::<Vec<_>>().join("; ")),
		CVal::Module(s) => format!("(VModule {})", gs(s)), CVal::Package(s) => format!("(VPackage {})", gs(s)),
	}
}

#[derive(Clone, Debug, Default)]
pub struct Pool {
	/// entries in file order
	pub entries: Vec<PE>,
	/// slot index of each entry
	pub index: Vec<u16>,
	pub next: u32,
	utf8s: HashMap<String, u16>,
}

impl Pool {
	pub fn new() -> Pool { Pool { entries: vec![], index: vec![], next: 1, utf8s: HashMap::new() } }
	pub fn add(&mut self, e: PE) -> u16 {
		let i = self.next as u16;
		assert!(self.next < 65535, "pool full");
		self.next += match e { PE::Long(_) | PE::Double(_) => 2, _ => 1 };
		self.entries.push(e);
		self.index.push(i);
		i
	}
	/// interned Utf8
	pub fn utf8(&mut self, s: &str) -> u16 {
		if let Some(&i) = self.utf8s.get(s) { return i; }
		let i = self.add(PE::Utf8(s.to_owned()));
		self.utf8s.insert(s.to_owned(), i);
		i
	}
	/// a fresh (not interned) Utf8, for duplicates
	pub fn utf8_dup(&mut self, s: &str) -> u16 { self.add(PE::Utf8(s.to_owned())) }
	pub fn class(&mut self, name: &str) -> u16 { let n = self.utf8(name); self.add(PE::Class(n)) }
	pub fn nt(&mut self, n: &str, d: &str) -> u16 { let a = self.utf8(n); let b = self.utf8(d); self.add(PE::NT(a, b)) }
	pub fn count(&self) -> u16 { self.next as u16 }
	pub fn get(&self, i: u16) -> Option<&PE> {
		if i == 0 { return None; }
		self.index.binary_search(&i).ok().map(|k| &self.entries[k])
	}
	pub fn bytes(&self) -> Vec<u8> {
		let mut o = vec![];
		o.extend((self.next as u16).to_be_bytes());
		for e in &self.entries {
			match e {
				PE::Utf8(s) => { let b = mutf8(s); o.push(1); o.extend((b.len() as u16).to_be_bytes()); o.extend(b); }
				PE::Int(v) => { o.push(3); o.extend(v.to_be_bytes()); }
				PE::Float(v) => { o.push(4); o.extend(v.to_be_bytes()); }
				PE::Long(v) => { o.push(5); o.extend(v.to_be_bytes()); }
				PE::Double(v) => { o.push(6); o.extend(v.to_be_bytes()); }
				PE::Class(a) => { o.push(7); o.extend(a.to_be_bytes()); }
				PE::Str(a) => { o.push(8); o.extend(a.to_be_bytes()); }
				PE::Field(a, b) => { o.push(9); o.extend(a.to_be_bytes()); o.extend(b.to_be_bytes()); }
				PE::Method(a, b) => { o.push(10); o.extend(a.to_be_bytes()); o.extend(b.to_be_bytes()); }
				PE::IMethod(a, b) => { o.push(11); o.extend(a.to_be_bytes()); o.extend(b.to_be_bytes()); }
				PE::NT(a, b) => { o.push(12); o.extend(a.to_be_bytes()); o.extend(b.to_be_bytes()); }
				PE::Handle(k, a) => { o.push(15); o.push(*k); o.extend(a.to_be_bytes()); }
				PE::MType(a) => { o.push(16); o.extend(a.to_be_bytes()); }
				PE::Dynamic(a, b) => { o.push(17); o.extend(a.to_be_bytes()); o.extend(b.to_be_bytes()); }
				PE::Indy(a, b) => { o.push(18); o.extend(a.to_be_bytes()); o.extend(b.to_be_bytes()); }
				PE::Module(a) => { o.push(19); o.extend(a.to_be_bytes()); }
				PE::Package(a) => { o.push(20); o.extend(a.to_be_bytes()); }
			}
		}
		o
	}
	/// the pool as a Coq `pool` term (list (option entry)), slot by slot
	pub fn gallina(&self) -> String {
		let mut slots = vec!["None".to_string()];
		for e in &self.entries {
			let t = match e {
				PE::Utf8(s) => format!("EUtf8 {}", fbh::gal::gstr(&fbh::gal::cps_str(s))),
				PE::Int(v) => format!("EInt ({v})"), PE::Float(v) => format!("EFloat {v}"),
				PE::Long(v) => format!("ELong ({v})"), PE::Double(v) => format!("EDouble {v}"),
				PE::Class(a) => format!("EClass {a}"), PE::Str(a) => format!("EString {a}"),
				PE::Field(a, b) => format!("EFieldRef {a} {b}"), PE::Method(a, b) => format!("EMethodRef {a} {b}"),
				PE::IMethod(a, b) => format!("EIMethodRef {a} {b}"), PE::NT(a, b) => format!("ENameAndType {a} {b}"),
				PE::Handle(k, a) => format!("EMethodHandle {k} {a}"), PE::MType(a) => format!("EMethodType {a}"),
				PE::Dynamic(a, b) => format!("EDynamic {a} {b}"), PE::Indy(a, b) => format!("EInvokeDynamic {a} {b}"),
				PE::Module(a) => format!("EModule {a}"), PE::Package(a) => format!("EPackage {a}"),
			};
			slots.push(format!("Some ({t})"));
			if matches!(e, PE::Long(_) | PE::Double(_)) { slots.push("None".into()); }
		}
		format!("[{}]", slots.join("; "))
	}

	// ---- independent resolver (JVMS 4.4), the oracle for pool facts ----
	fn u(&self, i: u16) -> Option<Vec<u32>> { match self.get(i)? { PE::Utf8(s) => Some(fbh::gal::cps_str(s)), _ => None } }
	fn cls(&self, i: u16) -> Option<Vec<u32>> { match self.get(i)? { PE::Class(n) => self.u(*n), _ => None } }
	fn ntp(&self, i: u16) -> Option<(Vec<u32>, Vec<u32>)> { match self.get(i)? { PE::NT(a, b) => Some((self.u(*a)?, self.u(*b)?)), _ => None } }
	pub fn field(&self, i: u16) -> Option<CVal> { match self.get(i)? { PE::Field(c, nt) => { let (n, d) = self.ntp(*nt)?; Some(CVal::Field(self.cls(*c)?, n, d)) } _ => None } }
	pub fn method(&self, i: u16, want_itf: Option<bool>) -> Option<CVal> {
		let (c, nt, itf) = match self.get(i)? { PE::Method(c, nt) => (*c, *nt, false), PE::IMethod(c, nt) => (*c, *nt, true), _ => return None };
		if let Some(w) = want_itf { if w != itf { return None; } }
		let (n, d) = self.ntp(nt)?;
		Some(CVal::Method(self.cls(c)?, n, d, itf))
	}
	pub fn handle(&self, i: u16) -> Option<CVal> {
		match self.get(i)? {
			PE::Handle(k, r) => {
				let v = match k { 1..=4 => self.field(*r)?, 5 | 8 => self.method(*r, Some(false))?, 6 | 7 => self.method(*r, None)?, 9 => self.method(*r, Some(true))?, _ => return None };
				Some(CVal::Handle(*k, Box::new(v)))
			}
			_ => None,
		}
	}
	pub fn loadable(&self, i: u16, bsm: &[(u16, Vec<u16>)], depth: usize) -> Option<CVal> {
		if depth > 64 { return None; }
		Some(match self.get(i)? {
			PE::Int(v) => CVal::Int(*v), PE::Float(v) => CVal::Float(*v), PE::Long(v) => CVal::Long(*v), PE::Double(v) => CVal::Double(*v),
			PE::Class(n) => CVal::Class(self.u(*n)?), PE::Str(n) => CVal::Str(self.u(*n)?),
			PE::Handle(..) => self.handle(i)?, PE::MType(d) => CVal::MethodType(self.u(*d)?),
			PE::Dynamic(b, nt) => {
				let (n, d) = self.ntp(*nt)?;
				let (h, args) = bsm.get(*b as usize)?;
				let hv = self.handle(*h)?;
				let mut avs = vec![];
				for a in args { avs.push(self.loadable(*a, bsm, depth + 1)?); }
				CVal::Dynamic(n, d, Box::new(hv), avs)
			}
			_ => return None,
		})
	}
	pub fn indy(&self, i: u16, bsm: &[(u16, Vec<u16>)]) -> Option<CVal> {
		match self.get(i)? {
			PE::Indy(b, nt) => {
				let (n, d) = self.ntp(*nt)?;
				let (h, args) = bsm.get(*b as usize)?;
				let hv = self.handle(*h)?;
				let mut avs = vec![];
				for a in args { avs.push(self.loadable(*a, bsm, 0)?); }
				Some(CVal::Indy(n, d, Box::new(hv), avs))
			}
			_ => None,
		}
	}
	/// resolution by accessor kind, numbering of Coq `resolve_kind`
	pub fn resolve(&self, kind: u8, i: u16, bsm: &[(u16, Vec<u16>)]) -> Option<CVal> {
		match kind {
			0 => self.loadable(i, bsm, 0), 1 => self.field(i), 2 => self.method(i, Some(false)), 3 => self.method(i, None),
			4 => self.method(i, Some(true)), 5 => self.indy(i, bsm), 6 => self.cls(i).map(CVal::Class),
			7 => match self.get(i)? { PE::Int(_) | PE::Float(_) | PE::Long(_) | PE::Double(_) | PE::Str(_) => self.loadable(i, bsm, 0), _ => None },
			8 => self.u(i).map(CVal::Utf8), 9 => self.handle(i),
			10 => self.ntp(i).map(|(n, d)| CVal::NameType(n, d)),
			11 => match self.get(i)? { PE::Module(n) => self.u(*n).map(CVal::Module), _ => None },
			12 => match self.get(i)? { PE::Package(n) => self.u(*n).map(CVal::Package), _ => None },
			// the narrowing accessors of element values (JVMS 4.7.16.1: B C S Z I are CONSTANT_Integer, read as that type)
			13 => match self.get(i)? { PE::Int(v) => Some(CVal::Int(*v)), _ => None },
			14 => match self.get(i)? { PE::Int(v) => Some(CVal::Int(*v as i8 as i32)), _ => None },
			15 => match self.get(i)? { PE::Int(v) => Some(CVal::Int(*v as u16 as i32)), _ => None },
			16 => match self.get(i)? { PE::Int(v) => Some(CVal::Int(*v as i16 as i32)), _ => None },
			17 => match self.get(i)? { PE::Int(v) => Some(CVal::Int((*v != 0) as i32)), _ => None },
			18 => match self.get(i)? { PE::Long(v) => Some(CVal::Long(*v)), _ => None },
			19 => match self.get(i)? { PE::Float(v) => Some(CVal::Float(*v)), _ => None },
			20 => match self.get(i)? { PE::Double(v) => Some(CVal::Double(*v)), _ => None },
			_ => None,
		}
	}
}

/// modified UTF-8 of a Rust string (NUL as C0 80, supplementary characters as surrogate pairs)
pub fn mutf8(s: &str) -> Vec<u8> {
	let mut o = vec![];
	for u in s.encode_utf16() {
		match u {
			0x0001..=0x007f => o.push(u as u8),
			0 | 0x0080..=0x07ff => { o.push(0xc0 | (u >> 6) as u8); o.push(0x80 | (u & 0x3f) as u8); }
			_ => { o.push(0xe0 | (u >> 12) as u8); o.push(0x80 | ((u >> 6) & 0x3f) as u8); o.push(0x80 | (u & 0x3f) as u8); }
		}
	}
	o
}

pub fn g_bsm(bsm: &[(u16, Vec<u16>)]) -> String {
	format!("[{}]", bsm.iter().map(|(h, a)| format!("({h}, [{}])", a.iter().map(|x| x.to_string()).collect::<Vec<_>>().join("; "))).collect::<Vec<_>>().join("; "))
}

// ---------------------------------------------------------------------------------------------
// class file skeleton
pub type Attr = (u16, Vec<u8>);
pub struct Member { pub access: u16, pub name: u16, pub desc: u16, pub attrs: Vec<Attr> }

pub fn attrs_bytes(attrs: &[Attr]) -> Vec<u8> {
	let mut o = vec![];
	o.extend((attrs.len() as u16).to_be_bytes());
	for (n, b) in attrs { o.extend(n.to_be_bytes()); o.extend((b.len() as u32).to_be_bytes()); o.extend(b); }
	o
}
pub fn class_bytes(pool: &Pool, minor: u16, major: u16, access: u16, this: u16, sup: u16, itfs: &[u16], fields: &[Member], methods: &[Member], attrs: &[Attr]) -> Vec<u8> {
	let mut o = vec![0xca, 0xfe, 0xba, 0xbe];
	o.extend(minor.to_be_bytes()); o.extend(major.to_be_bytes());
	o.extend(pool.bytes());
	o.extend(access.to_be_bytes()); o.extend(this.to_be_bytes()); o.extend(sup.to_be_bytes());
	o.extend((itfs.len() as u16).to_be_bytes());
	for i in itfs { o.extend(i.to_be_bytes()); }
	for ms in [fields, methods] {
		o.extend((ms.len() as u16).to_be_bytes());
		for m in ms {
			o.extend(m.access.to_be_bytes()); o.extend(m.name.to_be_bytes()); o.extend(m.desc.to_be_bytes());
			o.extend(attrs_bytes(&m.attrs));
		}
	}
	o.extend(attrs_bytes(attrs));
	o
}
pub fn code_attr(max_stack: u16, max_locals: u16, code: &[u8], exc: &[(u16, u16, u16, u16)], attrs: &[Attr]) -> Vec<u8> {
	let mut o = vec![];
	o.extend(max_stack.to_be_bytes()); o.extend(max_locals.to_be_bytes());
	o.extend((code.len() as u32).to_be_bytes()); o.extend(code);
	o.extend((exc.len() as u16).to_be_bytes());
	for (s, e, h, c) in exc { o.extend(s.to_be_bytes()); o.extend(e.to_be_bytes()); o.extend(h.to_be_bytes()); o.extend(c.to_be_bytes()); }
	o.extend(attrs_bytes(attrs));
	o
}

// ---------------------------------------------------------------------------------------------
// instructions, as in the Coq model
#[derive(Clone, Debug, PartialEq)]
pub enum Op<T> { N(u32), Z(i64), T(T), C(u8, u32) }
#[derive(Clone, Debug, PartialEq)]
pub enum Insn<T> {
	Gen(u8, Vec<Op<T>>),
	TSw { d: T, lo: i32, hi: i32, tbl: Vec<T> },
	LSw { d: T, pairs: Vec<(i32, T)> },
}
impl<T: Clone> Insn<T> {
	pub fn targets(&self) -> Vec<T> {
		match self {
			Insn::Gen(_, ops) => ops.iter().filter_map(|o| if let Op::T(t) = o { Some(t.clone()) } else { None }).collect(),
			Insn::TSw { d, tbl, .. } => std::iter::once(d.clone()).chain(tbl.iter().cloned()).collect(),
			Insn::LSw { d, pairs } => std::iter::once(d.clone()).chain(pairs.iter().map(|p| p.1.clone())).collect(),
		}
	}
	pub fn map<U>(&self, f: &dyn Fn(&T) -> U) -> Insn<U> {
		match self {
			Insn::Gen(c, ops) => Insn::Gen(*c, ops.iter().map(|o| match o { Op::N(n) => Op::N(*n), Op::Z(z) => Op::Z(*z), Op::T(t) => Op::T(f(t)), Op::C(k, n) => Op::C(*k, *n) }).collect()),
			Insn::TSw { d, lo, hi, tbl } => Insn::TSw { d: f(d), lo: *lo, hi: *hi, tbl: tbl.iter().map(f).collect() },
			Insn::LSw { d, pairs } => Insn::LSw { d: f(d), pairs: pairs.iter().map(|(k, t)| (*k, f(t))).collect() },
		}
	}
}
pub fn g_insn<T>(i: &Insn<T>, gt: &dyn Fn(&T) -> String) -> String {
	let gop = |o: &Op<T>| match o { Op::N(n) => format!("OpN {n}"), Op::Z(z) => format!("OpZ ({z})"), Op::T(t) => format!("OpT {}", gt(t)), Op::C(k, n) => format!("OpC {k} {n}") };
	match i {
		Insn::Gen(c, ops) => format!("Gen {c} [{}]", ops.iter().map(gop).collect::<Vec<_>>().join("; ")),
		Insn::TSw { d, lo, hi, tbl } => format!("TSw {} ({lo}) ({hi}) [{}]", gt(d), tbl.iter().map(gt).collect::<Vec<_>>().join("; ")),
		Insn::LSw { d, pairs } => format!("LSw {} [{}]", gt(d), pairs.iter().map(|(k, t)| format!("(({k})%Z, {})", gt(t))).collect::<Vec<_>>().join("; ")),
	}
}

// ---------------------------------------------------------------------------------------------
// the JVMS opcode table (JVMS chapter 6), written independently of duke
#[derive(Clone, Copy, Debug, PartialEq)]
pub enum Rd { U8, I8, I16, Lv8, Lv16, Br16, Br32, Skip8, Atype, Cp8(u8), Cp16(u8) }
impl Rd { pub fn len(self) -> usize { match self { Rd::I16 | Rd::Lv16 | Rd::Br16 | Rd::Cp16(_) => 2, Rd::Br32 => 4, _ => 1 } } }
#[derive(Clone, Debug, PartialEq)]
pub enum Entry { P2(u8, Vec<Rd>), Short(u8, u8), Wide, TSwitch, LSwitch, Bad }

pub fn jvms_entry(op: u8) -> Entry {
	use Entry::*;
	match op {
		0x00..=0x0f => P2(op, vec![]),
		0x10 => P2(op, vec![Rd::I8]), 0x11 => P2(op, vec![Rd::I16]),
		0x12 => P2(0x12, vec![Rd::Cp8(0)]), 0x13 | 0x14 => P2(0x12, vec![Rd::Cp16(0)]),
		0x15..=0x19 => P2(op, vec![Rd::Lv8]),
		0x1a..=0x2d => Short(0x15 + (op - 0x1a) / 4, (op - 0x1a) % 4),
		0x2e..=0x35 => P2(op, vec![]),
		0x36..=0x3a => P2(op, vec![Rd::Lv8]),
		0x3b..=0x4e => Short(0x36 + (op - 0x3b) / 4, (op - 0x3b) % 4),
		0x4f..=0x83 => P2(op, vec![]),
		0x84 => P2(op, vec![Rd::Lv8, Rd::I8]),
		0x85..=0x98 => P2(op, vec![]),
		0x99..=0xa8 => P2(op, vec![Rd::Br16]),
		0xa9 => P2(op, vec![Rd::Lv8]),
		0xaa => TSwitch, 0xab => LSwitch,
		0xac..=0xb1 => P2(op, vec![]),
		0xb2..=0xb5 => P2(op, vec![Rd::Cp16(1)]),
		0xb6 => P2(op, vec![Rd::Cp16(2)]),
		0xb7 | 0xb8 => P2(op, vec![Rd::Cp16(3)]),
		0xb9 => P2(op, vec![Rd::Cp16(4), Rd::Skip8, Rd::Skip8]),
		0xba => P2(op, vec![Rd::Cp16(5), Rd::Skip8, Rd::Skip8]),
		0xbb => P2(op, vec![Rd::Cp16(6)]),
		0xbc => P2(op, vec![Rd::Atype]),
		0xbd => P2(op, vec![Rd::Cp16(6)]),
		0xbe | 0xbf => P2(op, vec![]),
		0xc0 | 0xc1 => P2(op, vec![Rd::Cp16(6)]),
		0xc2 | 0xc3 => P2(op, vec![]),
		0xc4 => Wide,
		0xc5 => P2(op, vec![Rd::Cp16(6), Rd::U8]),
		0xc6 | 0xc7 => P2(op, vec![Rd::Br16]),
		0xc8 => P2(0xa7, vec![Rd::Br32]), 0xc9 => P2(0xa8, vec![Rd::Br32]),
		_ => Bad,
	}
}
pub fn jvms_wide_entry(op: u8) -> Entry {
	match op {
		0x15..=0x19 | 0x36..=0x3a | 0xa9 => Entry::P2(op, vec![Rd::Lv16]),
		0x84 => Entry::P2(op, vec![Rd::Lv16, Rd::I16]),
		_ => Entry::Bad,
	}
}

#[derive(Clone, Copy, Debug, PartialEq)]
pub enum Form { Plain(u8), Wide(u8) }
#[derive(Clone, Copy, Debug, PartialEq)]
/// `fill`: the values of the bytes the reader ignores, in the order they stand in the instruction (two for
/// invokeinterface / invokedynamic, up to three of switch padding)
pub struct Choice { pub form: Form, pub fill: [u8; 3] }
pub fn g_choice(c: &Choice) -> String {
	let f = format!("[{}; {}; {}]", c.fill[0], c.fill[1], c.fill[2]);
	match c.form { Form::Plain(op) => format!("{{| c_form := FPlain {op}; c_fill := {f} |}}"), Form::Wide(op) => format!("{{| c_form := FWide {op}; c_fill := {f} |}}") }
}

pub fn pad_of(pos: usize) -> usize { 3 - pos % 4 }

fn reads_len(rs: &[Rd]) -> usize { rs.iter().map(|r| r.len()).sum() }
pub fn size(c: &Choice, pos: usize, i: &Insn<usize>) -> usize {
	match i {
		Insn::Gen(..) => match c.form {
			Form::Plain(op) => 1 + match jvms_entry(op) { Entry::P2(_, rs) => reads_len(&rs), _ => 0 },
			Form::Wide(op) => 2 + match jvms_wide_entry(op) { Entry::P2(_, rs) => reads_len(&rs), _ => 0 },
		},
		Insn::TSw { tbl, .. } => 1 + pad_of(pos) + 12 + 4 * tbl.len(),
		Insn::LSw { pairs, .. } => 1 + pad_of(pos) + 8 + 8 * pairs.len(),
	}
}
pub fn layout(ch: &[Choice], body: &[Insn<usize>]) -> Vec<usize> {
	let mut v = vec![0usize];
	let mut pos = 0;
	for (k, i) in body.iter().enumerate() { pos += size(&ch[k], pos, i); v.push(pos); }
	v
}

fn enc_ops(lay: &[usize], pos: usize, fill: [u8; 3], rs: &[Rd], ops: &[Op<usize>]) -> Option<Vec<u8>> {
	let mut skipped = 0usize;
	let mut o = vec![];
	let mut it = ops.iter();
	for r in rs {
		if *r == Rd::Skip8 { o.push(fill.get(skipped).copied().unwrap_or(0)); skipped += 1; continue; }
		let op = it.next()?;
		match (r, op) {
			(Rd::U8 | Rd::Lv8, Op::N(n)) if *n < 256 => o.push(*n as u8),
			(Rd::Cp8(k), Op::C(k2, n)) if k == k2 && *n < 256 => o.push(*n as u8),
			(Rd::Cp16(k), Op::C(k2, n)) if k == k2 && *n < 65536 => o.extend((*n as u16).to_be_bytes()),
			(Rd::Atype, Op::N(n)) if (4..=11).contains(n) => o.push(*n as u8),
			(Rd::I8, Op::Z(z)) if (-128..128).contains(z) => o.push(*z as i8 as u8),
			(Rd::I16, Op::Z(z)) if (-32768..32768).contains(z) => o.extend((*z as i16).to_be_bytes()),
			(Rd::Lv16, Op::N(n)) if *n < 65536 => o.extend((*n as u16).to_be_bytes()),
			(Rd::Br16, Op::T(t)) => { let off = *lay.get(*t)? as i64 - pos as i64; if !(-32768..32768).contains(&off) { return None; } o.extend((off as i16).to_be_bytes()); }
			(Rd::Br32, Op::T(t)) => { let off = *lay.get(*t)? as i64 - pos as i64; o.extend((off as i32).to_be_bytes()); }
			_ => return None,
		}
	}
	if it.next().is_some() { return None; }
	Some(o)
}

/// one instruction; None when the chosen form cannot represent it
pub fn enc1(lay: &[usize], pos: usize, c: &Choice, i: &Insn<usize>) -> Option<Vec<u8>> {
	let off = |t: &usize| -> Option<i32> { Some((*lay.get(*t)? as i64 - pos as i64) as i32) };
	match i {
		Insn::Gen(ctor, ops) => match c.form {
			Form::Plain(op) => match jvms_entry(op) {
				Entry::P2(c2, rs) if c2 == *ctor => { let mut o = vec![op]; o.extend(enc_ops(lay, pos, c.fill, &rs, ops)?); Some(o) }
				Entry::Short(c2, idx) if c2 == *ctor && ops.len() == 1 && ops[0] == Op::N(idx as u32) => Some(vec![op]),
				_ => None,
			},
			Form::Wide(op) => match jvms_wide_entry(op) {
				Entry::P2(c2, rs) if c2 == *ctor => { let mut o = vec![0xc4, op]; o.extend(enc_ops(lay, pos, c.fill, &rs, ops)?); Some(o) }
				_ => None,
			},
		},
		Insn::TSw { d, lo, hi, tbl } => {
			if lo > hi || tbl.len() as i64 != *hi as i64 - *lo as i64 + 1 { return None; }
			let mut o = vec![0xaa];
			o.extend(c.fill.iter().copied().take(pad_of(pos)));
			o.extend(off(d)?.to_be_bytes()); o.extend(lo.to_be_bytes()); o.extend(hi.to_be_bytes());
			for t in tbl { o.extend(off(t)?.to_be_bytes()); }
			Some(o)
		}
		Insn::LSw { d, pairs } => {
			let mut o = vec![0xab];
			o.extend(c.fill.iter().copied().take(pad_of(pos)));
			o.extend(off(d)?.to_be_bytes()); o.extend((pairs.len() as i32).to_be_bytes());
			for (k, t) in pairs { o.extend(k.to_be_bytes()); o.extend(off(t)?.to_be_bytes()); }
			Some(o)
		}
	}
}
pub fn encode(ch: &[Choice], body: &[Insn<usize>]) -> Option<Vec<u8>> {
	let lay = layout(ch, body);
	let mut o = vec![];
	for (k, i) in body.iter().enumerate() { o.extend(enc1(&lay, lay[k], &ch[k], i)?); }
	Some(o)
}

/// all forms that can represent a Gen instruction, operand ranges permitting (branch distances are
/// checked later, against the layout)
pub fn forms_of(ctor: u8, ops: &[Op<usize>]) -> Vec<Form> {
	let fits = |rs: &[Rd]| -> bool {
		let mut it = ops.iter();
		for r in rs {
			if *r == Rd::Skip8 { continue; }
			let Some(op) = it.next() else { return false };
			let ok = match (r, op) {
				(Rd::U8 | Rd::Lv8, Op::N(n)) => *n < 256,
				(Rd::Cp8(k), Op::C(k2, n)) => k == k2 && *n < 256,
				(Rd::Cp16(k), Op::C(k2, n)) => k == k2 && *n < 65536,
				(Rd::Atype, Op::N(n)) => (4..=11).contains(n),
				(Rd::I8, Op::Z(z)) => (-128..128).contains(z),
				(Rd::I16, Op::Z(z)) => (-32768..32768).contains(z),
				(Rd::Lv16, Op::N(n)) => *n < 65536,
				(Rd::Br16 | Rd::Br32, Op::T(_)) => true,
				_ => false,
			};
			if !ok { return false; }
		}
		it.next().is_none()
	};
	let mut v = vec![];
	for op in 0..=255u8 {
		match jvms_entry(op) {
			Entry::P2(c, rs) if c == ctor && fits(&rs) => v.push(Form::Plain(op)),
			Entry::Short(c, idx) if c == ctor && ops.len() == 1 && ops[0] == Op::N(idx as u32) => v.push(Form::Plain(op)),
			_ => {}
		}
		match jvms_wide_entry(op) { Entry::P2(c, rs) if c == ctor && fits(&rs) => v.push(Form::Wide(op)), _ => {} }
	}
	v
}
