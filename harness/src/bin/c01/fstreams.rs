//! Streams built on fbh::classfile: (b) generated specs under every knob setting and the corpus:
//! facts delivered by duke against the ground truth / the independent parser; (c) corpus classes
//! through the Coq model of the code reader (CClass cases).
use std::io::Cursor;
use fbh::classfile::asm::{facts_of_spec, try_assemble, Knobs};
use fbh::classfile::facts::{facts_from_duke, facts_from_raw, ClassFacts, FactGroup};
use fbh::classfile::gen::{self, gen_class, GenCfg};
use fbh::classfile::jstr::JStr;
use fbh::classfile::raw::{self, AttrInfo, Const, Frame, RawClass, VType};
use fbh::classfile::corpus;
use fbh::prng::Rng;
use fbh::report::{guarded, Report};
use fbh::Ctx;
use crate::proj::{g_xsem, xsem_of_code};
use crate::streams::hex;

pub enum Read { Ok(duke::tree::class::ClassFile), Err(String), Panic(String) }
pub fn duke_read(bytes: &[u8]) -> Read {
	crate::streams::crumb_class(bytes);
	let b = bytes.to_vec();
	match guarded(move || duke::read_class(&mut Cursor::new(b)).map_err(|e| format!("{e:#}"))) {
		Err(p) => Read::Panic(p), Ok(Err(e)) => Read::Err(e), Ok(Ok(c)) => Read::Ok(c),
	}
}

/// F13p: the tree has no place for Runtime(In)VisibleParameterAnnotations (class_reader.rs skips them).
/// F13t: javac 16/17 put a FIELD-targeted (0x13) type annotation of a record component on the accessor
/// method / canonical constructor; duke rejects target_type 0x13 inside method_info.
pub fn has_field_target_in_method(c: &RawClass) -> bool {
	c.methods.iter().any(|m| m.attributes.iter().any(|a| match &a.info {
		AttrInfo::RuntimeVisibleTypeAnnotations(v) | AttrInfo::RuntimeInvisibleTypeAnnotations(v) => v.iter().any(|t| t.target_type == 0x13),
		_ => false,
	}))
}

pub fn compare(r: &mut Report, what: &str, bytes: &[u8], truth: &ClassFacts, got: &ClassFacts) {
	let truth = truth.with_defined_access_bits();
	if &truth == got { return; }
	// known findings, each recognised as narrowly as the defect: compare with exactly that fact removed
	let known = [FactGroup::ParameterAnnotations];
	let mut rest = truth.without(&known).diff(&got.without(&known));
	if rest.len() < truth.diff(got).len() {
		// F13p: the tree has no place for Runtime(In)VisibleParameterAnnotations
		r.known("F13p parameter annotations are not delivered".into());
		r.count("known_F13p");
	}
	// F13r: a Record attribute without components cannot be told from no Record attribute
	if let Some(p) = rest.iter().position(|l| l == "class.record: Some([]) != None") {
		rest.remove(p);
		r.known("F13r a Record attribute with zero components is not delivered".into());
		r.count("known_F13r");
	}
	if rest.is_empty() { return; }
	let lines: Vec<String> = rest.iter().take(6).cloned().collect();
	r.violation(format!("{what}: duke delivers facts the file does not state (truth != duke): {}", lines.join(" | ")),
		format!("property C01\nwhat: {what}\ndifferences (truth != duke::read_class):\n{}\nclass file (hex): {}\n", rest.iter().take(40).cloned().collect::<Vec<_>>().join("\n"), hex(bytes)));
}

/// (b) generated: the same spec under every knob setting must read to the facts it was built from
pub fn stream_spec_knobs(ctx: &Ctx, r: &mut Report, rng: &mut Rng) {
	let specs = if ctx.thorough { 150 } else { 40 };
	let cfg = GenCfg::default();
	for si in 0..specs {
		let spec = gen_class(rng, &cfg);
		let truth = facts_of_spec(&spec);
		let seed = rng.next();
		let mut fam = Knobs::family(seed);
		if !ctx.thorough { let keep: Vec<usize> = (0..5).map(|_| rng.below(fam.len())).collect(); fam = fam.into_iter().enumerate().filter(|(i, _)| *i == 0 || keep.contains(i)).map(|x| x.1).collect(); }
		for (ki, knobs) in fam.iter().enumerate() {
			let Ok(bytes) = try_assemble(&spec, knobs) else { r.count("spec_knobs_not_assemblable"); continue };
			r.eval(&hex(&bytes), true);
			r.count("spec_knobs_classes");
			match duke_read(&bytes) {
				Read::Panic(p) => r.violation(format!("read_class panicked on a valid generated class: {p}"), format!("property C01\nwhat: read_class panics on a valid class (spec {si}, knobs {ki})\nclass file (hex): {}\n", hex(&bytes))),
				Read::Err(e) => {
					r.violation(format!("read_class rejects a valid generated class: {e}"), format!("property C01\nwhat: read_class returns Err on a valid class (spec {si}, knobs {ki}): {e}\nclass file (hex): {}\n", hex(&bytes)));
				}
				Read::Ok(c) => compare(r, &format!("generated spec {si}, knob setting {ki}"), &bytes, &truth, &facts_from_duke(&c)),
			}
		}
	}
}

/// deterministic boundary constructions of the infrastructure
pub fn stream_boundary(ctx: &Ctx, r: &mut Report) {
	use gen::boundary as b;
	let mut items: Vec<(String, fbh::classfile::asm::ClassSpec, Vec<Knobs>)> = vec![];
	for op in ["goto", "jsr", "ifeq", "if_icmplt", "ifnull"] {
		for d in [32766, 32767, 32768, 32769, -32767, -32768, -32769, -32770] {
			if !ctx.thorough && op != "goto" && op != "ifeq" { continue; }
			let (s, k) = b::branch_distance(op, d);
			items.push((format!("branch_distance {op} {d}"), s, vec![k, Knobs { enc: fbh::classfile::asm::Enc::Widest, ..Knobs::default() }]));
		}
	}
	items.push(("switch_alignments".into(), b::switch_alignments(), Knobs::family(3)));
	items.push(("locals_crossing".into(), b::locals_crossing(), Knobs::family(4)));
	items.push(("pool_crossing".into(), b::pool_crossing(12), b::pool_crossing_knobs()));
	items.push(("all_instructions".into(), b::all_instructions(), Knobs::family(5)));
	items.push(("branch_chain".into(), b::branch_chain(if ctx.thorough { 6 } else { 2 }, 32767), vec![Knobs::default()]));
	for len in [65533usize, 65534, 65535] { if ctx.thorough || len == 65535 { items.push((format!("code_length {len}"), b::code_length(len), vec![Knobs::default()])); } }
	items.push(("code_length_ending_in_branch".into(), b::code_length_ending_in_branch(), vec![Knobs::default()]));
	if ctx.thorough {
		let s = b::pool_crossing(4);
		for front in [true, false] { if let Ok(k) = b::pool_full_knobs(&s, front) { items.push((format!("pool_full front={front}"), s.clone(), vec![k])); } }
	}
	for (name, spec, knobs) in items {
		let Ok(truth) = fbh::classfile::asm::try_facts_of_spec(&spec) else { r.count("boundary_no_truth"); continue };
		for (ki, k) in knobs.iter().enumerate() {
			let Ok(bytes) = try_assemble(&spec, k) else { r.count("boundary_not_assemblable"); continue };
			r.eval(&hex(&bytes), true);
			r.count("boundary_classes");
			let what = format!("boundary construction {name}, knob setting {ki}");
			match duke_read(&bytes) {
				Read::Panic(p) => r.violation(format!("{what}: read_class panicked: {p}"), format!("property C01\nwhat: {what}: read_class panics\nclass file: {} bytes, regenerate with fbh::classfile::gen::boundary\n", bytes.len())),
				Read::Err(e) => r.violation(format!("{what}: read_class rejects a valid class: {e}"), format!("property C01\nwhat: {what}: read_class returns Err: {e}\nclass file: {} bytes, regenerate with fbh::classfile::gen::boundary\n", bytes.len())),
				Read::Ok(c) => {
					let got = facts_from_duke(&c);
					if truth.with_defined_access_bits() != got {
						let d = truth.with_defined_access_bits().diff(&got);
						r.violation(format!("{what}: {}", d.iter().take(4).cloned().collect::<Vec<_>>().join(" | ")), format!("property C01\nwhat: {what}\n{}\n", d.iter().take(40).cloned().collect::<Vec<_>>().join("\n")));
					}
				}
			}
		}
	}
}

// ---- Coq terms from the independent parse ----
fn g_pool(c: &RawClass) -> Option<String> {
	let mut slots = vec![];
	for e in &c.pool {
		slots.push(match e {
			None => "None".to_string(),
			Some(k) => format!("Some ({})", match k {
				Const::Utf8(b) => format!("EUtf8 {}", fbh::gal::gstr(&JStr::from_mutf8(b).ok()?.code_points())),
				Const::Integer(v) => format!("EInt ({v})"), Const::Float(v) => format!("EFloat {v}"),
				Const::Long(v) => format!("ELong ({v})"), Const::Double(v) => format!("EDouble {v}"),
				Const::Class(a) => format!("EClass {a}"), Const::String(a) => format!("EString {a}"),
				Const::Fieldref(a, b) => format!("EFieldRef {a} {b}"), Const::Methodref(a, b) => format!("EMethodRef {a} {b}"),
				Const::InterfaceMethodref(a, b) => format!("EIMethodRef {a} {b}"), Const::NameAndType(a, b) => format!("ENameAndType {a} {b}"),
				Const::MethodHandle(k, a) => format!("EMethodHandle {k} {a}"), Const::MethodType(a) => format!("EMethodType {a}"),
				Const::Dynamic(a, b) => format!("EDynamic {a} {b}"), Const::InvokeDynamic(a, b) => format!("EInvokeDynamic {a} {b}"),
				Const::Module(a) => format!("EModule {a}"), Const::Package(a) => format!("EPackage {a}"),
			}),
		});
	}
	Some(format!("[{}]", slots.join("; ")))
}

fn vt_points(v: &VType, out: &mut Vec<u16>) { if let VType::Uninitialized(o) = v { out.push(*o); } }

/// the Coq `(code_in, catch types)` of a Code attribute; None when it carries code type annotations
/// (their targets are not projected by this harness) or a CLDC StackMap attribute
fn g_code_in(code: &raw::CodeAttr) -> Option<String> {
	let mut lines = vec![]; let mut ranges = vec![]; let mut deltas = vec![]; let mut points: Vec<u16> = vec![];
	let mut smt = 0;
	for a in &code.attributes {
		match &a.info {
			AttrInfo::LineNumberTable(ls) => for l in ls { lines.push(format!("({}, {})", l.start_pc, l.line)); },
			AttrInfo::LocalVariableTable(vs) | AttrInfo::LocalVariableTypeTable(vs) => for v in vs { ranges.push(format!("({}, {})", v.start_pc, v.length)); },
			AttrInfo::StackMapTable(fs) => {
				smt += 1;
				for f in fs {
					match f {
						Frame::Same { offset_delta } => deltas.push(*offset_delta as u32),
						Frame::SameLocals1 { offset_delta, stack } => { deltas.push(*offset_delta as u32); vt_points(stack, &mut points); }
						Frame::SameLocals1Ext { offset_delta, stack } => { deltas.push(*offset_delta as u32); vt_points(stack, &mut points); }
						Frame::Chop { offset_delta, .. } | Frame::SameExt { offset_delta } => deltas.push(*offset_delta as u32),
						Frame::Append { offset_delta, locals } => { deltas.push(*offset_delta as u32); for v in locals { vt_points(v, &mut points); } }
						Frame::Full { offset_delta, locals, stack } => { deltas.push(*offset_delta as u32); for v in locals { vt_points(v, &mut points); } for v in stack { vt_points(v, &mut points); } }
					}
				}
			}
			AttrInfo::RuntimeVisibleTypeAnnotations(_) | AttrInfo::RuntimeInvisibleTypeAnnotations(_) => return None,
			_ => { if a.name == "StackMap" { return None; } }
		}
	}
	if smt > 1 { return None; }
	Some(format!("({{| ci_code := {}; ci_exc := [{}]; ci_lines := [{}]; ci_ranges := [{}]; ci_frames := [{}]; ci_cldc := None; ci_points := [{}] |}}, [{}])",
		fbh::gal::gnums(code.code.iter().map(|b| *b as u64)),
		code.exception_table.iter().map(|e| format!("({}, {}, {})", e.start_pc, e.end_pc, e.handler_pc)).collect::<Vec<_>>().join("; "),
		lines.join("; "), ranges.join("; "),
		deltas.iter().map(|d| d.to_string()).collect::<Vec<_>>().join("; "),
		points.iter().map(|d| d.to_string()).collect::<Vec<_>>().join("; "),
		code.exception_table.iter().map(|e| e.catch_type.to_string()).collect::<Vec<_>>().join("; ")))
}

/// corpus: (b) facts against the independent parser, (c) code arrays through the Coq model
pub fn stream_corpus(ctx: &Ctx, r: &mut Report) {
	let classes = corpus::corpus_classes();
	let mut coq_budget: usize = if ctx.thorough { 600_000 } else { 150_000 };   // bytes of class files turned into Coq cases
	for (path, bytes) in &classes {
		let parsed = raw::parse(bytes);
		let Ok(rawc) = parsed else { r.count("corpus_rejected_by_independent_parser"); continue };
		r.eval(&format!("corpus:{path}"), true);
		r.count("corpus_classes");
		let truth = match facts_from_raw(&rawc) { Ok(t) => t, Err(_) => { r.count("corpus_no_facts"); continue } };
		let what = format!("corpus class {path}");
		match duke_read(bytes) {
			Read::Panic(p) => r.violation(format!("{what}: read_class panicked: {p}"), format!("property C01\nwhat: {what}: read_class panics: {p}\nfile: /verif/corpus/classes/{path}\n")),
			Read::Err(e) => {
				if has_field_target_in_method(&rawc) && e.contains("unknown type reference 19 for method") {
					r.known("F13t FIELD-targeted type annotation inside method_info (javac 16/17 records) is rejected".into());
					r.count("known_F13t");
				} else {
					r.violation(format!("{what}: read_class rejects a class the independent parser accepts: {e}"), format!("property C01\nwhat: {what}: read_class returns Err: {e}\nfile: /verif/corpus/classes/{path}\n"));
				}
			}
			Read::Ok(c) => {
				compare(r, &what, bytes, &truth, &facts_from_duke(&c));
				// (c) the same class through the model of the code reader
				if bytes.len() <= 20000 && coq_budget >= bytes.len() {
					let with_code: Vec<&raw::CodeAttr> = rawc.methods.iter().filter_map(|m| m.attributes.iter().find_map(|a| if let AttrInfo::Code(c) = &a.info { Some(c) } else { None })).collect();
					let dcodes: Vec<&duke::tree::method::code::Code> = c.methods.iter().filter_map(|m| m.code.as_ref()).collect();
					if with_code.is_empty() || with_code.len() != dcodes.len() { r.count("corpus_coq_skipped_no_code"); continue; }
					let cis: Option<Vec<String>> = with_code.iter().map(|c| g_code_in(c)).collect();
					let (Some(cis), Some(pool)) = (cis, g_pool(&rawc)) else { r.count("corpus_coq_skipped_type_annotations_or_strings"); continue };
					let bsm: Vec<(u16, Vec<u16>)> = rawc.bootstrap_methods().map(|v| v.iter().map(|b| (b.method_ref, b.arguments.clone())).collect()).unwrap_or_default();
					coq_budget -= bytes.len();
					r.count("corpus_coq_classes");
					r.case("corpus-class", format!("CClass {} {} [{}] (Ok [{}])", pool, crate::asm::g_bsm(&bsm), cis.join("; "), dcodes.iter().map(|c| g_xsem(&xsem_of_code(c))).collect::<Vec<_>>().join("; ")));
				}
			}
		}
	}
}
