//! Projection of what duke delivers for a method body into the label-free, resolved form the Coq
//! model produces (`xsem` of coq/C01/Resolve.v): labels become the index of the instruction that
//! carries them, constants become `CVal`s.  The opcode numbers here are written from JVMS chapter 6.
use std::collections::HashMap;
use duke::tree::field::FieldRef;
use duke::tree::method::MethodRef;
use duke::tree::method::code::{ArrayType, Code, ConstantDynamic, Handle, Instruction, InvokeDynamic, Label, Loadable};
use duke::visitor::method::code::{StackMapData, VerificationTypeInfo};
use fbh::gal::cps;
use crate::asm::{gs, g_cval, CVal};

#[derive(Clone, Debug, PartialEq)]
pub enum XOp { N(u32), Z(i64), T(Option<usize>), V(CVal) }
#[derive(Clone, Debug, PartialEq)]
pub enum XInsn {
	Gen(u8, Vec<XOp>),
	TSw { d: Option<usize>, lo: i32, hi: i32, tbl: Vec<Option<usize>> },
	LSw { d: Option<usize>, pairs: Vec<(i32, Option<usize>)> },
}
#[derive(Clone, Debug, PartialEq, Default)]
pub struct XSem {
	pub insns: Vec<(bool, Option<usize>, XInsn)>,
	pub last: bool,
	pub exc: Vec<(Option<usize>, Option<usize>, Option<usize>, Option<Vec<u32>>)>,
	pub lines: Vec<(Option<usize>, u16)>,
	pub ranges: Vec<(Option<usize>, Option<usize>)>,
	pub points: Vec<Option<usize>>,
}

pub fn g_on(x: &Option<usize>) -> String { match x { Some(n) => format!("(Some {n}%nat)"), None => "None".into() } }
pub fn g_xinsn(i: &XInsn) -> String {
	let gop = |o: &XOp| match o { XOp::N(n) => format!("XN {n}"), XOp::Z(z) => format!("XZ ({z})"), XOp::T(t) => format!("XT {}", g_on(t)), XOp::V(v) => format!("XV {}", g_cval(v)) };
	match i {
		XInsn::Gen(c, ops) => format!("XGen {c} [{}]", ops.iter().map(gop).collect::<Vec<_>>().join("; ")),
		XInsn::TSw { d, lo, hi, tbl } => format!("XTSw {} ({lo}) ({hi}) [{}]", g_on(d), tbl.iter().map(g_on).collect::<Vec<_>>().join("; ")),
		XInsn::LSw { d, pairs } => format!("XLSw {} [{}]", g_on(d), pairs.iter().map(|(k, t)| format!("(({k})%Z, {})", g_on(t))).collect::<Vec<_>>().join("; ")),
	}
}
pub fn g_xsem(s: &XSem) -> String {
	format!("{{| xs_insns := {}; xs_last := {}; xs_exc := [{}]; xs_lines := [{}]; xs_ranges := [{}]; xs_points := [{}] |}}",
		crate::asm::glist_rle(&s.insns.iter().map(|(l, f, i)| format!("({l}, {}, {})", g_on(f), g_xinsn(i))).collect::<Vec<_>>()),
		s.last,
		s.exc.iter().map(|(a, b, c, d)| format!("({}, {}, {}, {})", g_on(a), g_on(b), g_on(c), match d { Some(s) => format!("Some {}", gs(s)), None => "None".into() })).collect::<Vec<_>>().join("; "),
		s.lines.iter().map(|(a, l)| format!("({}, {l})", g_on(a))).collect::<Vec<_>>().join("; "),
		s.ranges.iter().map(|(a, b)| format!("({}, {})", g_on(a), g_on(b))).collect::<Vec<_>>().join("; "),
		s.points.iter().map(g_on).collect::<Vec<_>>().join("; "))
}

// ---- constants ----
pub fn cv_field(f: &FieldRef) -> CVal { CVal::Field(cps(f.class.as_inner()), cps(f.name.as_inner()), cps(f.desc.as_inner())) }
pub fn cv_method(m: &MethodRef, itf: bool) -> CVal { CVal::Method(cps(m.class.as_inner()), cps(m.name.as_inner()), cps(m.desc.as_inner()), itf) }
pub fn cv_handle(h: &Handle) -> CVal {
	let (k, r) = match h {
		Handle::GetField(f) => (1, cv_field(f)), Handle::GetStatic(f) => (2, cv_field(f)),
		Handle::PutField(f) => (3, cv_field(f)), Handle::PutStatic(f) => (4, cv_field(f)),
		Handle::InvokeVirtual(m) => (5, cv_method(m, false)),
		Handle::InvokeStatic(m, i) => (6, cv_method(m, *i)),
		Handle::InvokeSpecial(m, i) => (7, cv_method(m, *i)),
		Handle::NewInvokeSpecial(m) => (8, cv_method(m, false)),
		Handle::InvokeInterface(m) => (9, cv_method(m, true)),
	};
	CVal::Handle(k, Box::new(r))
}
pub fn cv_loadable(l: &Loadable) -> CVal {
	match l {
		Loadable::Integer(v) => CVal::Int(*v), Loadable::Float(v) => CVal::Float(v.to_bits()),
		Loadable::Long(v) => CVal::Long(*v), Loadable::Double(v) => CVal::Double(v.to_bits()),
		Loadable::Class(c) => CVal::Class(cps(c.as_inner())), Loadable::String(s) => CVal::Str(cps(s)),
		Loadable::MethodHandle(h) => cv_handle(h), Loadable::MethodType(d) => CVal::MethodType(cps(d.as_inner())),
		Loadable::Dynamic(d) => cv_condy(d),
	}
}
pub fn cv_condy(d: &ConstantDynamic) -> CVal {
	CVal::Dynamic(cps(d.name.as_inner()), cps(d.descriptor.as_inner()), Box::new(cv_handle(&d.handle)), d.arguments.iter().map(cv_loadable).collect())
}
pub fn cv_indy(d: &InvokeDynamic) -> CVal {
	CVal::Indy(cps(d.name.as_inner()), cps(d.descriptor.as_inner()), Box::new(cv_handle(&d.handle)), d.arguments.iter().map(cv_loadable).collect())
}
fn atype(a: &ArrayType) -> u32 {
	match a { ArrayType::Boolean => 4, ArrayType::Char => 5, ArrayType::Float => 6, ArrayType::Double => 7, ArrayType::Byte => 8, ArrayType::Short => 9, ArrayType::Int => 10, ArrayType::Long => 11 }
}

/// one instruction; `lab` maps a label to the index of the instruction carrying it
pub fn xinsn_of(i: &Instruction, lab: &dyn Fn(&Label) -> Option<usize>) -> XInsn {
	use Instruction as I;
	let s = |op: u8| XInsn::Gen(op, vec![]);
	let lv = |op: u8, l: &duke::tree::method::code::LvIndex| XInsn::Gen(op, vec![XOp::N(l.index as u32)]);
	let br = |op: u8, l: &Label| XInsn::Gen(op, vec![XOp::T(lab(l))]);
	let cls = |op: u8, c: &duke::tree::class::ClassName| XInsn::Gen(op, vec![XOp::V(CVal::Class(cps(c.as_inner())))]);
	match i {
		I::Nop => s(0), I::AConstNull => s(1), I::IConstM1 => s(2), I::IConst0 => s(3), I::IConst1 => s(4), I::IConst2 => s(5),
		I::IConst3 => s(6), I::IConst4 => s(7), I::IConst5 => s(8), I::LConst0 => s(9), I::LConst1 => s(10),
		I::FConst0 => s(11), I::FConst1 => s(12), I::FConst2 => s(13), I::DConst0 => s(14), I::DConst1 => s(15),
		I::BiPush(v) => XInsn::Gen(16, vec![XOp::Z(*v as i64)]),
		I::SiPush(v) => XInsn::Gen(17, vec![XOp::Z(*v as i64)]),
		I::Ldc(l) => XInsn::Gen(18, vec![XOp::V(cv_loadable(l))]),
		I::ILoad(l) => lv(21, l), I::LLoad(l) => lv(22, l), I::FLoad(l) => lv(23, l), I::DLoad(l) => lv(24, l), I::ALoad(l) => lv(25, l),
		I::IALoad => s(46), I::LALoad => s(47), I::FALoad => s(48), I::DALoad => s(49), I::AALoad => s(50), I::BALoad => s(51), I::CALoad => s(52), I::SALoad => s(53),
		I::IStore(l) => lv(54, l), I::LStore(l) => lv(55, l), I::FStore(l) => lv(56, l), I::DStore(l) => lv(57, l), I::AStore(l) => lv(58, l),
		I::IAStore => s(79), I::LAStore => s(80), I::FAStore => s(81), I::DAStore => s(82), I::AAStore => s(83), I::BAStore => s(84), I::CAStore => s(85), I::SAStore => s(86),
		I::Pop => s(87), I::Pop2 => s(88), I::Dup => s(89), I::DupX1 => s(90), I::DupX2 => s(91), I::Dup2 => s(92), I::Dup2X1 => s(93), I::Dup2X2 => s(94), I::Swap => s(95),
		I::IAdd => s(96), I::LAdd => s(97), I::FAdd => s(98), I::DAdd => s(99), I::ISub => s(100), I::LSub => s(101), I::FSub => s(102), I::DSub => s(103),
		I::IMul => s(104), I::LMul => s(105), I::FMul => s(106), I::DMul => s(107), I::IDiv => s(108), I::LDiv => s(109), I::FDiv => s(110), I::DDiv => s(111),
		I::IRem => s(112), I::LRem => s(113), I::FRem => s(114), I::DRem => s(115), I::INeg => s(116), I::LNeg => s(117), I::FNeg => s(118), I::DNeg => s(119),
		I::IShl => s(120), I::LShl => s(121), I::IShr => s(122), I::LShr => s(123), I::IUShr => s(124), I::LUShr => s(125),
		I::IAnd => s(126), I::LAnd => s(127), I::IOr => s(128), I::LOr => s(129), I::IXor => s(130), I::LXor => s(131),
		I::IInc(l, v) => XInsn::Gen(132, vec![XOp::N(l.index as u32), XOp::Z(*v as i64)]),
		I::I2L => s(133), I::I2F => s(134), I::I2D => s(135), I::L2I => s(136), I::L2F => s(137), I::L2D => s(138),
		I::F2I => s(139), I::F2L => s(140), I::F2D => s(141), I::D2I => s(142), I::D2L => s(143), I::D2F => s(144),
		I::I2B => s(145), I::I2C => s(146), I::I2S => s(147),
		I::LCmp => s(148), I::FCmpL => s(149), I::FCmpG => s(150), I::DCmpL => s(151), I::DCmpG => s(152),
		I::IfEq(l) => br(153, l), I::IfNe(l) => br(154, l), I::IfLt(l) => br(155, l), I::IfGe(l) => br(156, l), I::IfGt(l) => br(157, l), I::IfLe(l) => br(158, l),
		I::IfICmpEq(l) => br(159, l), I::IfICmpNe(l) => br(160, l), I::IfICmpLt(l) => br(161, l), I::IfICmpGe(l) => br(162, l), I::IfICmpGt(l) => br(163, l), I::IfICmpLe(l) => br(164, l),
		I::IfACmpEq(l) => br(165, l), I::IfACmpNe(l) => br(166, l),
		I::Goto(l) => br(167, l), I::Jsr(l) => br(168, l), I::Ret(l) => lv(169, l),
		I::TableSwitch { default, low, high, table } => XInsn::TSw { d: lab(default), lo: *low, hi: *high, tbl: table.iter().map(|l| lab(l)).collect() },
		I::LookupSwitch { default, pairs } => XInsn::LSw { d: lab(default), pairs: pairs.iter().map(|(k, l)| (*k, lab(l))).collect() },
		I::IReturn => s(172), I::LReturn => s(173), I::FReturn => s(174), I::DReturn => s(175), I::AReturn => s(176), I::Return => s(177),
		I::GetStatic(f) => XInsn::Gen(178, vec![XOp::V(cv_field(f))]), I::PutStatic(f) => XInsn::Gen(179, vec![XOp::V(cv_field(f))]),
		I::GetField(f) => XInsn::Gen(180, vec![XOp::V(cv_field(f))]), I::PutField(f) => XInsn::Gen(181, vec![XOp::V(cv_field(f))]),
		I::InvokeVirtual(m) => XInsn::Gen(182, vec![XOp::V(cv_method(m, false))]),
		I::InvokeSpecial(m, itf) => XInsn::Gen(183, vec![XOp::V(cv_method(m, *itf))]),
		I::InvokeStatic(m, itf) => XInsn::Gen(184, vec![XOp::V(cv_method(m, *itf))]),
		I::InvokeInterface(m) => XInsn::Gen(185, vec![XOp::V(cv_method(m, true))]),
		I::InvokeDynamic(d) => XInsn::Gen(186, vec![XOp::V(cv_indy(d))]),
		I::New(c) => cls(187, c),
		I::NewArray(a) => XInsn::Gen(188, vec![XOp::N(atype(a))]),
		I::ANewArray(c) => cls(189, c),
		I::ArrayLength => s(190), I::AThrow => s(191),
		I::CheckCast(c) => cls(192, c), I::InstanceOf(c) => cls(193, c),
		I::MonitorEnter => s(194), I::MonitorExit => s(195),
		I::MultiANewArray(c, d) => XInsn::Gen(197, vec![XOp::V(CVal::Class(cps(c.as_inner()))), XOp::N(*d as u32)]),
		I::IfNull(l) => br(198, l), I::IfNonNull(l) => br(199, l),
	}
}

// ---- stack map frames with their contents (the facts library does not know the CLDC StackMap attribute) ----
#[derive(Clone, Debug, PartialEq)]
pub enum XVt { Top, Int, Float, Double, Long, Null, UninitThis, Object(Vec<u32>), Uninit(Option<usize>) }
#[derive(Clone, Debug, PartialEq)]
pub enum XFrame { Same, Same1(XVt), Chop(u8), Append(Vec<XVt>), Full(Vec<XVt>, Vec<XVt>) }

fn xvt_of(v: &VerificationTypeInfo, lab: &dyn Fn(&Label) -> Option<usize>) -> XVt {
	match v {
		VerificationTypeInfo::Top => XVt::Top, VerificationTypeInfo::Integer => XVt::Int, VerificationTypeInfo::Float => XVt::Float,
		VerificationTypeInfo::Double => XVt::Double, VerificationTypeInfo::Long => XVt::Long, VerificationTypeInfo::Null => XVt::Null,
		VerificationTypeInfo::UninitializedThis => XVt::UninitThis,
		VerificationTypeInfo::Object(c) => XVt::Object(cps(c.as_inner())),
		VerificationTypeInfo::Uninitialized(l) => XVt::Uninit(lab(l)),
	}
}

/// the frames duke attached, in instruction order, each with its contents (an Uninitialized offset as the index of its instruction)
pub fn xframes_of_code(code: &Code) -> Vec<XFrame> {
	let mut by_label: HashMap<Label, usize> = HashMap::new();
	for (k, e) in code.instructions.iter().enumerate() { if let Some(l) = &e.label { by_label.entry(*l).or_insert(k); } }
	if let Some(l) = &code.last_label { by_label.entry(*l).or_insert(code.instructions.len()); }
	let lab = |l: &Label| by_label.get(l).copied();
	code.instructions.iter().filter_map(|e| e.frame.as_ref()).map(|fr| match fr {
		StackMapData::Same => XFrame::Same,
		StackMapData::SameLocals1StackItem { stack } => XFrame::Same1(xvt_of(stack, &lab)),
		StackMapData::Chop { k } => XFrame::Chop(*k),
		StackMapData::Append { locals } => XFrame::Append(locals.iter().map(|v| xvt_of(v, &lab)).collect()),
		StackMapData::Full { locals, stack } => XFrame::Full(locals.iter().map(|v| xvt_of(v, &lab)).collect(), stack.iter().map(|v| xvt_of(v, &lab)).collect()),
	}).collect()
}

/// label ids are crate-private; the Debug output `Label { id: N }` is the only public view
pub fn label_ids(dbg: &str) -> Vec<u32> {
	let mut v = vec![];
	let mut rest = dbg;
	while let Some(p) = rest.find("id: ") {
		rest = &rest[p + 4..];
		let end = rest.find(|c: char| !c.is_ascii_digit()).unwrap_or(rest.len());
		if let Ok(n) = rest[..end].parse() { v.push(n); }
		rest = &rest[end..];
	}
	v
}

fn vti_points(v: &VerificationTypeInfo, lab: &dyn Fn(&Label) -> Option<usize>, out: &mut Vec<Option<usize>>) {
	if let VerificationTypeInfo::Uninitialized(l) = v { out.push(lab(l)); }
}

/// The Code of a method in the form of Coq's `xsem`.  `points` collects, in this order, the
/// Uninitialized offsets of the attached frames and (not yet) nothing else.
pub fn xsem_of_code(code: &Code) -> XSem {
	let mut by_label: HashMap<Label, usize> = HashMap::new();
	let mut by_id: HashMap<u32, usize> = HashMap::new();
	for (k, e) in code.instructions.iter().enumerate() {
		if let Some(l) = &e.label {
			by_label.entry(*l).or_insert(k);
			if let Some(id) = label_ids(&format!("{l:?}")).first() { by_id.entry(*id).or_insert(k); }
		}
	}
	let n = code.instructions.len();
	if let Some(l) = &code.last_label {
		by_label.entry(*l).or_insert(n);
		if let Some(id) = label_ids(&format!("{l:?}")).first() { by_id.entry(*id).or_insert(n); }
	}
	let lab = |l: &Label| by_label.get(l).copied();
	let mut s = XSem::default();
	let mut frames = 0usize;
	for e in &code.instructions {
		let f = e.frame.as_ref().map(|fr| {
			match fr {
				StackMapData::Same | StackMapData::Chop { .. } => {}
				StackMapData::SameLocals1StackItem { stack } => vti_points(stack, &lab, &mut s.points),
				StackMapData::Append { locals } => for v in locals { vti_points(v, &lab, &mut s.points); },
				StackMapData::Full { locals, stack } => { for v in locals { vti_points(v, &lab, &mut s.points); } for v in stack { vti_points(v, &lab, &mut s.points); } }
			}
			frames += 1; frames - 1
		});
		s.insns.push((e.label.is_some(), f, xinsn_of(&e.instruction, &lab)));
	}
	s.last = code.last_label.is_some();
	for x in &code.exception_table {
		s.exc.push((lab(&x.start), lab(&x.end), lab(&x.handler), x.catch.as_ref().map(|c| cps(c.as_inner()))));
	}
	for (l, line) in code.line_numbers.iter().flatten() { s.lines.push((lab(l), *line)); }
	for lv in code.local_variables.iter().flatten() {
		let ids = label_ids(&format!("{:?}", lv.range));
		let g = |k: usize| ids.get(k).and_then(|id| by_id.get(id).copied());
		s.ranges.push((g(0), g(1)));
	}
	s
}
