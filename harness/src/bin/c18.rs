//! C18 — descriptor parsers/printers, name predicates, inner-class split/join.
use fbh::gal::*;
use fbh::prng::Rng;
use fbh::report::{guarded, Report};
use fbh::Ctx;
use duke::tree::class::{ArrClassName, ArrClassNameSlice, ClassName, ClassNameSlice, ObjClassName, ObjClassNameSlice};
use duke::tree::descriptor::{ArrayType, ParsedFieldDescriptor, ParsedMethodDescriptor, ParsedReturnDescriptor, ReturnDescriptorSlice, Type};
use duke::tree::field::{FieldDescriptorSlice, FieldName, FieldNameSlice};
use duke::tree::method::code::{LocalVariableName, LocalVariableNameSlice};
use duke::tree::method::{MethodDescriptorSlice, MethodName, MethodNameSlice, ParameterName, ParameterNameSlice};
use java_string::{JavaStr, JavaString};

pub const ALPHABET: &str = "BILV[();/.a$<>";
/// second sweep: characters of 2, 3 and 4 UTF-8 bytes, three kinds of white space (space, TAB, EM SPACE), and what gives
/// names, descriptors and inner-class names their structure
pub const ALPHABET2: &str = "\u{fc}\u{65e5}\u{10400} \t\u{2003}$/L;[I";

// ---------- Gallina printers for the tree types ----------
fn g_aty(a: &ArrayType) -> String {
	match a {
		ArrayType::B => "AB".into(), ArrayType::C => "AC".into(), ArrayType::D => "AD".into(), ArrayType::F => "AF".into(),
		ArrayType::I => "AI".into(), ArrayType::J => "AJ".into(), ArrayType::S => "AS".into(), ArrayType::Z => "AZ".into(),
		ArrayType::Object(n) => format!("(AObj {})", gjstr(n.as_inner())),
	}
}
pub fn g_ty(t: &Type) -> String {
	match t {
		Type::B => "TB".into(), Type::C => "TC".into(), Type::D => "TD".into(), Type::F => "TF".into(),
		Type::I => "TI".into(), Type::J => "TJ".into(), Type::S => "TS".into(), Type::Z => "TZ".into(),
		Type::Object(n) => format!("(TObj {})", gjstr(n.as_inner())),
		Type::Array(d, a) => format!("(TArr {} {})", d, g_aty(a)),
	}
}
fn g_method(m: &ParsedMethodDescriptor) -> String {
	gpair(glist(m.parameter_descriptors.iter().map(g_ty)), gopt(m.return_descriptor.as_ref().map(g_ty)))
}

// ---------- implementation entry points (all through the unchecked slice constructors,
// exactly as the class reader and the remapper use them) ----------
pub fn impl_field(s: &JavaStr) -> Result<Option<ParsedFieldDescriptor>, String> {
	// SAFETY: only used to call parse, as the doc examples of the crate do
	let d = unsafe { FieldDescriptorSlice::from_inner_unchecked(s) };
	guarded(|| d.parse().ok())
}
pub fn impl_method(s: &JavaStr) -> Result<Option<ParsedMethodDescriptor>, String> {
	let d = unsafe { MethodDescriptorSlice::from_inner_unchecked(s) };
	guarded(|| d.parse().ok())
}
pub fn impl_return(s: &JavaStr) -> Result<Option<ParsedReturnDescriptor>, String> {
	let d = unsafe { ReturnDescriptorSlice::from_inner_unchecked(s) };
	guarded(|| d.parse().ok())
}
pub const NAME_KINDS: [&str; 7] = ["ClassName", "ArrClassName", "ObjClassName", "FieldName", "MethodName", "ParameterName", "LocalVariableName"];
pub fn impl_name(kind: usize, s: &JavaStr) -> Result<bool, String> {
	guarded(|| match kind {
		0 => ClassName::is_valid(s), 1 => ArrClassName::is_valid(s), 2 => ObjClassName::is_valid(s),
		3 => FieldName::is_valid(s), 4 => MethodName::is_valid(s), 5 => ParameterName::is_valid(s),
		_ => LocalVariableName::is_valid(s),
	})
}
/// the three TryFrom impls make_string_str_like! generates (&Slice from &JavaStr, Owned from JavaString, Owned from &JavaStr):
/// for each, whether it succeeded and whether the value carries the input unchanged
fn impl_try_from(kind: usize, s: &JavaStr) -> Result<[(bool, bool); 3], String> {
	macro_rules! three { ($owned:ty, $slice:ty) => { {
		let a = <&$slice>::try_from(s).map(|x| x.as_inner() == s);
		let b = <$owned>::try_from(s.to_owned()).map(|x| x.as_inner() == s);
		let c = <$owned as TryFrom<&JavaStr>>::try_from(s).map(|x| x.as_inner() == s);
		[(a.is_ok(), a.unwrap_or(true)), (b.is_ok(), b.unwrap_or(true)), (c.is_ok(), c.unwrap_or(true))]
	} } }
	guarded(|| match kind {
		0 => three!(ClassName, ClassNameSlice), 1 => three!(ArrClassName, ArrClassNameSlice), 2 => three!(ObjClassName, ObjClassNameSlice),
		3 => three!(FieldName, FieldNameSlice), 4 => three!(MethodName, MethodNameSlice), 5 => three!(ParameterName, ParameterNameSlice),
		_ => three!(LocalVariableName, LocalVariableNameSlice),
	})
}
fn impl_split(s: &JavaStr) -> Result<Option<(Vec<u32>, Vec<u32>)>, String> {
	let n = unsafe { ObjClassNameSlice::from_inner_unchecked(s) };
	guarded(|| n.split_inner_class_parent_and_name().map(|(p, i)| (cps(p.as_inner()), cps(i.as_inner()))))
}

// ---------- the oracle: an independent recogniser of JVMS 4.2/4.3 ----------
#[derive(Debug, Clone, PartialEq)]
pub enum OTy { Prim(u32), Obj(Vec<u32>), Arr(u32, Box<OTy>) }

fn o_unq(s: &[u32]) -> bool { !s.is_empty() && s.iter().all(|&c| c != '.' as u32 && c != ';' as u32 && c != '[' as u32 && c != '/' as u32) }
pub fn o_class_name(s: &[u32]) -> bool { s.split(|&c| c == '/' as u32).all(o_unq) }
/// FieldType at the start of `s`; returns the type and the rest
fn o_field_type(s: &[u32]) -> Option<(OTy, &[u32])> {
	let c = *s.first()?;
	let ch = char::from_u32(c)?;
	match ch {
		'B' | 'C' | 'D' | 'F' | 'I' | 'J' | 'S' | 'Z' => Some((OTy::Prim(c), &s[1..])),
		'L' => {
			let end = s.iter().position(|&c| c == ';' as u32)?;
			let name = &s[1..end];
			if o_class_name(name) { Some((OTy::Obj(name.to_vec()), &s[end + 1..])) } else { None }
		}
		'[' => {
			let (inner, rest) = o_field_type(&s[1..])?;
			let t = match inner { OTy::Arr(d, b) => OTy::Arr(d + 1, b), b => OTy::Arr(1, Box::new(b)) };
			if let OTy::Arr(d, _) = &t { if *d > 255 { return None; } }
			Some((t, rest))
		}
		_ => None,
	}
}
pub fn o_field(s: &[u32]) -> Option<OTy> { match o_field_type(s)? { (t, []) => Some(t), _ => None } }
pub fn o_return(s: &[u32]) -> Option<Option<OTy>> { if s == ['V' as u32] { Some(None) } else { o_field(s).map(Some) } }
pub fn o_method(s: &[u32]) -> Option<(Vec<OTy>, Option<OTy>)> {
	if s.first() != Some(&('(' as u32)) { return None; }
	let mut s = &s[1..];
	let mut ps = vec![];
	loop {
		if s.first() == Some(&(')' as u32)) { s = &s[1..]; break; }
		let (t, r) = o_field_type(s)?; ps.push(t); s = r;
	}
	Some((ps, o_return(s)?))
}
fn o_of_aty(a: &ArrayType) -> OTy {
	match a {
		ArrayType::B => OTy::Prim('B' as u32), ArrayType::C => OTy::Prim('C' as u32), ArrayType::D => OTy::Prim('D' as u32), ArrayType::F => OTy::Prim('F' as u32),
		ArrayType::I => OTy::Prim('I' as u32), ArrayType::J => OTy::Prim('J' as u32), ArrayType::S => OTy::Prim('S' as u32), ArrayType::Z => OTy::Prim('Z' as u32),
		ArrayType::Object(n) => OTy::Obj(cps(n.as_inner())),
	}
}
pub fn o_of_ty(t: &Type) -> OTy {
	match t {
		Type::B => OTy::Prim('B' as u32), Type::C => OTy::Prim('C' as u32), Type::D => OTy::Prim('D' as u32), Type::F => OTy::Prim('F' as u32),
		Type::I => OTy::Prim('I' as u32), Type::J => OTy::Prim('J' as u32), Type::S => OTy::Prim('S' as u32), Type::Z => OTy::Prim('Z' as u32),
		Type::Object(n) => OTy::Obj(cps(n.as_inner())),
		Type::Array(d, a) => OTy::Arr(*d as u32, Box::new(o_of_aty(a))),
	}
}
fn o_name(kind: usize, s: &[u32]) -> bool {
	let arr = s.first() == Some(&('[' as u32)) && o_field(s).is_some();
	match kind {
		0 => arr || (s.first() != Some(&('[' as u32)) && o_class_name(s)),
		1 => arr,
		2 => s.first() != Some(&('[' as u32)) && o_class_name(s),
		4 => s == cps_str("<init>") || s == cps_str("<clinit>") || (o_unq(s) && !s.contains(&('<' as u32)) && !s.contains(&('>' as u32))),
		_ => o_unq(s),
	}
}
fn o_split(s: &[u32]) -> Option<(Vec<u32>, Vec<u32>)> {
	let pos = s.iter().rposition(|&c| c == '$' as u32)?;
	let (p, i) = (&s[..pos], &s[pos + 1..]);
	if p.is_empty() || i.is_empty() || p.last() == Some(&('/' as u32)) || i.contains(&('/' as u32)) { None } else { Some((p.to_vec(), i.to_vec())) }
}

// ---------- one string through everything ----------
struct St<'a> { r: &'a mut Report, emit_cases: bool }

fn vio(r: &mut Report, what: String, s: &[u32]) {
	r.violation(what.clone(), format!("property C18\nwhat: {what}\ninput (text): {}\ninput (code points): {}\n", show(s), gstr(s)));
}

/// Returns a bit mask of what accepted the string (bits 0..6 names, 7 field, 8 return, 9 method, 10 split)
fn through(st: &mut St, s: &[u32], stream: &str) -> u32 {
	let js = jstring(s);
	let mut mask = 0u32;
	let r = &mut *st.r;
	// field
	match impl_field(&js) {
		Err(p) => vio(r, format!("FieldDescriptorSlice::parse panicked: {p}"), s),
		Ok(got) => {
			let want = o_field(s);
			let got_o = got.as_ref().map(|g| o_of_ty(&g.0));
			if got_o != want { vio(r, format!("field descriptor parse: implementation {:?}, JVMS grammar {:?}", got_o, want), s); }
			if let Some(g) = &got {
				mask |= 1 << 7;
				match guarded(|| cps(g.write().as_inner())) {
					Err(p) => vio(r, format!("ParsedFieldDescriptor::write panicked: {p}"), s),
					Ok(w) => {
						if w != s { vio(r, format!("write(parse(s)) = {:?} differs from s", show(&w)), s); }
						if st.emit_cases { r.case(stream, format!("CPrintF {} {}", g_ty(&g.0), gstr(&w))); }
					}
				}
			}
			if st.emit_cases { r.case(stream, format!("CField {} {}", gstr(s), gres(got.as_ref().map(|g| g_ty(&g.0))))); }
		}
	}
	// return
	match impl_return(&js) {
		Err(p) => vio(r, format!("ReturnDescriptorSlice::parse panicked: {p}"), s),
		Ok(got) => {
			let want = o_return(s);
			let got_o = got.as_ref().map(|g| g.0.as_ref().map(o_of_ty));
			if got_o != want { vio(r, format!("return descriptor parse: implementation {:?}, JVMS grammar {:?}", got_o, want), s); }
			if let Some(g) = &got {
				mask |= 1 << 8;
				match guarded(|| cps(g.write().as_inner())) {
					Err(p) => vio(r, format!("ParsedReturnDescriptor::write panicked: {p}"), s),
					Ok(w) => if w != s { vio(r, format!("return write(parse(s)) = {:?} differs from s", show(&w)), s); }
				}
			}
			if st.emit_cases { r.case(stream, format!("CReturn {} {}", gstr(s), gres(got.as_ref().map(|g| gopt(g.0.as_ref().map(g_ty)))))); }
		}
	}
	// method
	match impl_method(&js) {
		Err(p) => vio(r, format!("MethodDescriptorSlice::parse panicked: {p}"), s),
		Ok(got) => {
			let want = o_method(s);
			let got_o = got.as_ref().map(|g| (g.parameter_descriptors.iter().map(o_of_ty).collect::<Vec<_>>(), g.return_descriptor.as_ref().map(o_of_ty)));
			if got_o != want { vio(r, format!("method descriptor parse: implementation {:?}, JVMS grammar {:?}", got_o, want), s); }
			if let Some(g) = &got {
				mask |= 1 << 9;
				match guarded(|| cps(g.write().as_inner())) {
					Err(p) => vio(r, format!("ParsedMethodDescriptor::write panicked: {p}"), s),
					Ok(w) => {
						if w != s { vio(r, format!("method write(parse(s)) = {:?} differs from s", show(&w)), s); }
						if st.emit_cases { r.case(stream, format!("CPrintM {} {}", g_method(g), gstr(&w))); }
					}
				}
			}
			if st.emit_cases { r.case(stream, format!("CMethod {} {}", gstr(s), gres(got.as_ref().map(g_method)))); }
		}
	}
	// names
	for k in 0..7 {
		match impl_name(k, &js) {
			Err(p) => vio(r, format!("{}::is_valid panicked: {p}", NAME_KINDS[k]), s),
			Ok(b) => {
				if b { mask |= 1 << k; }
				if b != o_name(k, s) { vio(r, format!("{}::is_valid = {b}, documentation/JVMS says {}", NAME_KINDS[k], !b), s); }
				if st.emit_cases { r.case(stream, format!("CName {k} {} {}", gstr(s), gbool(b))); }
				// the checked constructors agree with the predicate and keep the string
				match impl_try_from(k, &js) {
					Err(p) => vio(r, format!("{}: a TryFrom impl panicked: {p}", NAME_KINDS[k]), s),
					Ok(t) => for (i, (ok, same)) in t.iter().enumerate() {
						let which = ["<&Slice>::try_from(&JavaStr)", "Owned::try_from(JavaString)", "Owned::try_from(&JavaStr)"][i];
						if *ok != b { vio(r, format!("{} {which} is {} but is_valid = {b}", NAME_KINDS[k], if *ok { "Ok" } else { "Err" }), s); }
						if !*same { vio(r, format!("{} {which} changed the string", NAME_KINDS[k]), s); }
					},
				}
			}
		}
	}
	// split / join (only meaningful on object class names, which is what the slice type promises)
	if o_name(2, s) {
		match impl_split(&js) {
			Err(p) => vio(r, format!("split_inner_class_parent_and_name panicked: {p}"), s),
			Ok(got) => {
				if got != o_split(s) { vio(r, format!("split_inner_class_parent_and_name = {:?}, expected {:?}", got, o_split(s)), s); }
				if let Some((p, i)) = &got {
					mask |= 1 << 10;
					// join must give back s
					let pj = jstring(p); let ij = jstring(i);
					let joined = guarded(|| {
						let parent = unsafe { ObjClassName::from_inner_unchecked(pj) };
						let inner = unsafe { ObjClassNameSlice::from_inner_unchecked(&ij) };
						cps(ObjClassName::from_inner_class(parent, inner).as_inner())
					});
					match joined { Ok(j) if j == s => {}, other => vio(r, format!("from_inner_class(split(s)) = {:?}", other), s) }
				}
				if st.emit_cases {
					r.case(stream, format!("CSplit {} {}", gstr(s), gopt(got.map(|(p, i)| gpair(gstr(&p), gstr(&i))))));
					let n = unsafe { ObjClassNameSlice::from_inner_unchecked(&js) };
					r.case(stream, format!("CSimple {} {}", gstr(s), gjstr(n.get_simple_name().as_inner())));
				}
			}
		}
	}
	mask
}

// ---------- generators ----------
fn gen_class_name(rng: &mut Rng) -> Vec<u32> {
	let parts = rng.range(1, 4);
	let pool: [&str; 26] = ["a", "L", "java", "lang", "Object", "A$B", "$", "ü", "\u{10400}x", "I", "<x>", "a b",
		" ", "\t", "\u{2003}", "  ", " x", "x ", "Größe", "日本", "Outer$Größe", "Outer$日本", "$\u{10400}", "A$ ", "ü$\u{2003}", "O$I$\u{fc}\u{65e5}\u{10400}"];
	let mut v = vec![];
	for i in 0..parts { if i > 0 { v.push('/' as u32); } v.extend(cps_str(*rng.pick(&pool[..]))); }
	v
}
fn gen_field(rng: &mut Rng) -> Vec<u32> {
	let mut v = vec![];
	let dims = match rng.below(10) { 0 => rng.range(1, 3), 1 => rng.range(250, 255), 2 | 3 => 1, _ => 0 };
	for _ in 0..dims { v.push('[' as u32); }
	if rng.chance(1, 2) { v.push(*rng.pick(&cps_str("BCDFIJSZ"))); } else { v.push('L' as u32); v.extend(gen_class_name(rng)); v.push(';' as u32); }
	v
}
fn gen_method(rng: &mut Rng) -> Vec<u32> {
	let mut v = vec!['(' as u32];
	for _ in 0..rng.below(5) { v.extend(gen_field(rng)); }
	v.push(')' as u32);
	if rng.chance(1, 3) { v.push('V' as u32); } else { v.extend(gen_field(rng)); }
	v
}
fn mutate(rng: &mut Rng, s: &mut Vec<u32>) {
	let mut alpha = cps_str(ALPHABET); alpha.extend(cps_str(ALPHABET2));
	match rng.below(4) {
		0 if !s.is_empty() => { let i = rng.below(s.len()); s.remove(i); }
		1 => { let i = rng.below(s.len() + 1); s.insert(i, *rng.pick(&alpha)); }
		2 if !s.is_empty() => { let i = rng.below(s.len()); s[i] = *rng.pick(&alpha); }
		_ => { s.push(*rng.pick(&alpha)); }
	}
}

/// every string over `alpha` of length exactly `len`, in the order the Coq model enumerates them
fn for_all_strings(alpha: &[u32], len: usize, f: &mut dyn FnMut(&[u32])) {
	let k = alpha.len();
	let mut idx = vec![0usize; len];
	let mut s: Vec<u32> = vec![alpha.first().copied().unwrap_or(0); len];
	loop {
		f(&s);
		let mut p = len;
		loop {
			if p == 0 { return; }
			p -= 1;
			idx[p] += 1;
			if idx[p] < k { s[p] = alpha[idx[p]]; break; }
			idx[p] = 0; s[p] = alpha[0];
		}
	}
}

pub fn run(ctx: &Ctx) -> anyhow::Result<Report> {
	let mut r = Report::new("C18", "C18.Run");
	let mut rng = Rng::new(ctx.seed);
	let alpha = cps_str(ALPHABET);
	let oracle_len = if ctx.thorough { 7 } else { 5 };  // implementation + oracle sweep
	let model_len = if ctx.thorough { 5 } else { 4 };   // swept inside Coq as well
	let oracle_len2 = if ctx.thorough { 5 } else { 4 };
	r.rule = format!("exhaustive: every string over the 14-letter alphabet {ALPHABET:?} up to length {oracle_len} through the 3 descriptor parsers, 7 name predicates and the inner-class split on the implementation against an independent JVMS recogniser (lengths up to {model_len} also enumerated inside Coq by the model and compared as accepted-sets); a second exhaustive sweep over the 12-letter alphabet {ALPHABET2:?} (characters of 2, 3 and 4 UTF-8 bytes, space, TAB, EM SPACE, $ / L ; [ I) up to length {oracle_len2} (quick 4, thorough 5; all of it also enumerated inside Coq); plus grammar-generated and mutated long descriptors and class names (dimensions 250..257 in field, parameter and return position, multi-byte and white-space-only name segments, inner names with multi-byte characters). Every name string also goes through the three TryFrom impls of its newtype (must agree with is_valid and keep the string). A case is non-trivial when at least one parser/predicate accepts it; distinct by string.");

	// 1. sweeps
	let mut accepted: Vec<Vec<Vec<u32>>> = vec![vec![]; 11];
	for len in 0..=oracle_len {
		let in_model = len <= model_len;
		let mut count = 0u64;
		for_all_strings(&alpha, len, &mut |s| {
			count += 1;
			let mut st = St { r: &mut r, emit_cases: false };
			let mask = through(&mut st, s, "sweep");
			r.eval_distinct(mask != 0);
			if mask != 0 { r.count(&format!("sweep_accepted_len{len}")); }
			if in_model { for k in 0..11 { if mask & (1 << k) != 0 { accepted[k].push(s.to_vec()); } } }
			// every accepted short string also becomes individual cases (results compared, not only acceptance)
			if mask & 0b111_1000_0000 != 0 && len <= 3 { let mut st = St { r: &mut r, emit_cases: true }; through(&mut st, s, "sweep-accepted"); }
		});
		r.count_n("sweep_strings", count);
	}
	for k in 0..11 {
		r.big_case("sweep", format!("CSweep {k} {} {model_len} {}", gstr(&alpha), glist(accepted[k].iter().map(|s| gstr(s)))));
	}
	// 1b. the second alphabet: multi-byte characters, white space, $ / L ; [ I
	let alpha2 = cps_str(ALPHABET2);
	let model_len2 = oracle_len2;
	let mut accepted2: Vec<Vec<Vec<u32>>> = vec![vec![]; 11];
	for len in 0..=oracle_len2 {
		let in_model = len <= model_len2;
		let mut count = 0u64;
		for_all_strings(&alpha2, len, &mut |s| {
			count += 1;
			let mut st = St { r: &mut r, emit_cases: false };
			let mask = through(&mut st, s, "sweep2");
			r.eval_distinct(mask != 0);
			if mask != 0 { r.count(&format!("sweep2_accepted_len{len}")); }
			if in_model { for k in 0..11 { if mask & (1 << k) != 0 { accepted2[k].push(s.to_vec()); } } }
			// results (not only acceptance) of every short string that splits or parses
			if mask & 0b111_1000_0000 != 0 && len <= 3 { let mut st = St { r: &mut r, emit_cases: true }; through(&mut st, s, "sweep2-accepted"); }
		});
		r.count_n("sweep2_strings", count);
	}
	for k in 0..11 {
		r.big_case("sweep2", format!("CSweep {k} {} {model_len2} {}", gstr(&alpha2), glist(accepted2[k].iter().map(|s| gstr(s)))));
	}
	r.exhaustive = true;

	// 2. generated valid descriptors and mutations
	let n = if ctx.thorough { 4000 } else { 600 };
	for i in 0..n {
		let mut s = match i % 3 { 0 => gen_field(&mut rng), 1 => gen_method(&mut rng), _ => gen_class_name(&mut rng) };
		let stream = match i % 3 { 0 => "gen-field", 1 => "gen-method", _ => "gen-name" };
		let mut st = St { r: &mut r, emit_cases: true };
		let mask = through(&mut st, &s, stream);
		r.eval(&gstr(&s), mask != 0);
		for _ in 0..rng.range(1, 2) { mutate(&mut rng, &mut s); }
		let mut st = St { r: &mut r, emit_cases: true };
		let mask = through(&mut st, &s, "mutated");
		r.eval(&gstr(&s), mask != 0);
		if mask == 0 { r.count("mutated_rejected_by_all"); }
	}
	// 3. boundaries: dimensions 254..257, inside field, method and array class names
	for d in [1usize, 2, 254, 255, 256, 257, 300] {
		for tail in ["I", "Ljava/lang/Object;", "La;", "V", "", "L;", "[", "La/;"] {
			let mut s = vec!['[' as u32; d]; s.extend(cps_str(tail));
			let mut st = St { r: &mut r, emit_cases: true };
			let m = through(&mut st, &s, "boundary");
			r.eval(&gstr(&s), m != 0);
			let mut ms = vec!['(' as u32]; ms.extend(&s); ms.extend(cps_str(")V"));
			let mut st = St { r: &mut r, emit_cases: true };
			let m = through(&mut st, &ms, "boundary");
			r.eval(&gstr(&ms), m != 0);
			// the same in return position, alone and behind parameters
			for head in ["()", "(I[J)"] {
				let mut rs = cps_str(head); rs.extend(&s);
				let mut st = St { r: &mut r, emit_cases: true };
				let m = through(&mut st, &rs, "boundary-return");
				r.eval(&gstr(&rs), m != 0);
			}
		}
	}
	// 4. printing of generated type values (parse(write(t)) == t on the implementation)
	for _ in 0..(if ctx.thorough { 1000 } else { 200 }) {
		let s = gen_field(&mut rng);
		if let Ok(Some(p)) = impl_field(&jstring(&s)) {
			let back = guarded(|| p.write().parse().ok());
			if back != Ok(Some(p.clone())) { vio(&mut r, "parse(write(t)) differs from t".into(), &s); }
		}
	}
	Ok(r)
}

fn main() -> anyhow::Result<()> { fbh::main_with(run) }
