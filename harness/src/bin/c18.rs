//! C18 — descriptor parsers/printers, name predicates, inner-class split/join.
use fbh::gal::*;
use fbh::prng::Rng;
use fbh::report::{crumb, guarded, Report};
use fbh::Ctx;
use duke::tree::class::{ArrClassName, ArrClassNameSlice, ClassAccess, ClassFile, ClassName, ClassNameSlice, ClassSignature, ClassSignatureSlice, ObjClassName, ObjClassNameSlice};
use duke::tree::descriptor::{ArrayType, ParsedFieldDescriptor, ParsedMethodDescriptor, ParsedReturnDescriptor, ReturnDescriptor, ReturnDescriptorSlice, Type};
use duke::tree::field::{FieldDescriptor, FieldDescriptorSlice, FieldName, FieldNameSlice, FieldSignature, FieldSignatureSlice};
use duke::tree::method::code::{Code, Instruction, InstructionListEntry, LocalVariableName, LocalVariableNameSlice};
use duke::tree::method::{Method, MethodAccess, MethodDescriptor, MethodDescriptorSlice, MethodName, MethodNameSlice, MethodRef, MethodSignature, MethodSignatureSlice, ParameterName, ParameterNameSlice};
use duke::tree::module::{ModuleName, ModuleNameSlice, PackageName, PackageNameSlice};
use duke::tree::record::{RecordName, RecordNameSlice};
use duke::tree::version::Version;
use java_string::{JavaStr, JavaString};
use std::borrow::Borrow;
use std::hash::{Hash, Hasher};

pub const ALPHABET: &str = "BILV[();/.a$<>";
/// thorough tier, length 7 only
pub const ALPHABET_LEN7: &str = "BLV[();/a";
/// second sweep: characters of 2, 3 and 4 UTF-8 bytes, three kinds of white space (space, TAB, EM SPACE), and what gives
/// names, descriptors and inner-class names their structure
pub const ALPHABET2: &str = "\u{fc}\u{65e5}\u{10400} \t\u{2003}$/L;[I";

// ---------- Gallina printers for the tree types ----------
/// a string as a Gallina term; a unit of up to 24 characters repeated so that it covers 16 or more characters is written
/// `rp c n` / `rps unit n` (255 `[`, 127 `D`, 254 x `Ljava/lang/Object;`, …)
fn gs(s: &[u32]) -> String {
	let mut parts: Vec<String> = vec![];
	let mut lit: Vec<u32> = vec![];
	let mut i = 0;
	while i < s.len() {
		let mut best = (0usize, 0usize); // (period, repeats)
		for p in 1..=24.min(s.len() - i) {
			let mut k = 1;
			while i + (k + 1) * p <= s.len() && s[i + k * p..i + (k + 1) * p] == s[i..i + p] { k += 1; }
			if k >= 2 && k * p >= 16 && k * p > best.0 * best.1 { best = (p, k); }
		}
		if best.1 > 0 {
			if !lit.is_empty() { parts.push(gstr(&lit)); lit.clear(); }
			let (p, k) = best;
			parts.push(if p == 1 { format!("rp {} {k}", s[i]) } else { format!("rps {} {k}", gstr(&s[i..i + p])) });
			i += p * k;
		} else { lit.push(s[i]); i += 1; }
	}
	if !lit.is_empty() || parts.is_empty() { parts.push(gstr(&lit)); }
	if parts.len() == 1 && parts[0].starts_with('[') { parts.pop().unwrap() } else { format!("({})", parts.join(" ++ ")) }
}
/// a list of printed terms; 4 or more equal consecutive items are written `rpt x n`
fn glist_rle(items: Vec<String>) -> String {
	let mut parts: Vec<String> = vec![];
	let mut lit: Vec<String> = vec![];
	let mut i = 0;
	while i < items.len() {
		let mut j = i;
		while j < items.len() && items[j] == items[i] { j += 1; }
		if j - i >= 4 {
			if !lit.is_empty() { parts.push(glist(lit.drain(..))); }
			parts.push(format!("rpt {} {}", items[i], j - i));
		} else { lit.extend(items[i..j].iter().cloned()); }
		i = j;
	}
	if !lit.is_empty() || parts.is_empty() { parts.push(glist(lit.drain(..))); }
	if parts.len() == 1 && parts[0].starts_with('[') { parts.pop().unwrap() } else { format!("({})", parts.join(" ++ ")) }
}
fn g_aty(a: &ArrayType) -> String {
	match a {
		ArrayType::B => "AB".into(), ArrayType::C => "AC".into(), ArrayType::D => "AD".into(), ArrayType::F => "AF".into(),
		ArrayType::I => "AI".into(), ArrayType::J => "AJ".into(), ArrayType::S => "AS".into(), ArrayType::Z => "AZ".into(),
		ArrayType::Object(n) => format!("(AObj {})", gjstr(n.as_inner())),
	}
}
pub fn g_ty(t: &Type) -> String {
	match t {
		Type::B => "TB".into(), Type::C => "TC".into(), Type::D => "TD".into(), Type::F => "TF".into(),
		Type::I => "TI".into(), Type::J => "TJ".into(), Type::S => "TS".into(), Type::Z => "TZ".into(),
		Type::Object(n) => format!("(TObj {})", gjstr(n.as_inner())),
		Type::Array(d, a) => format!("(TArr {} {})", d, g_aty(a)),
	}
}
fn g_method(m: &ParsedMethodDescriptor) -> String {
	gpair(glist_rle(m.parameter_descriptors.iter().map(g_ty).collect()), gopt(m.return_descriptor.as_ref().map(g_ty)))
}

// ---------- implementation entry points (all through the unchecked slice constructors,
// exactly as the class reader and the remapper use them) ----------
pub fn impl_field(s: &JavaStr) -> Result<Option<ParsedFieldDescriptor>, String> {
	// SAFETY: only used to call parse, as the doc examples of the crate do
	let d = unsafe { FieldDescriptorSlice::from_inner_unchecked(s) };
	guarded(|| d.parse().ok())
}
pub fn impl_method(s: &JavaStr) -> Result<Option<ParsedMethodDescriptor>, String> {
	let d = unsafe { MethodDescriptorSlice::from_inner_unchecked(s) };
	guarded(|| d.parse().ok())
}
pub fn impl_return(s: &JavaStr) -> Result<Option<ParsedReturnDescriptor>, String> {
	let d = unsafe { ReturnDescriptorSlice::from_inner_unchecked(s) };
	guarded(|| d.parse().ok())
}
/// the checked newtypes of make_string_str_like!: (kind number used in the Coq cases, type name).  Kinds 0..6 are the name
/// types of the property; 11..19 are the newtypes whose check_valid is `Ok(())` in the source (descriptors, signatures, …)
pub const KINDS: [(usize, &str); 16] = [(0, "ClassName"), (1, "ArrClassName"), (2, "ObjClassName"), (3, "FieldName"), (4, "MethodName"),
	(5, "ParameterName"), (6, "LocalVariableName"), (11, "FieldDescriptor"), (12, "MethodDescriptor"), (13, "ReturnDescriptor"),
	(14, "ClassSignature"), (15, "FieldSignature"), (16, "MethodSignature"), (17, "RecordName"), (18, "ModuleName"), (19, "PackageName")];
pub fn kind_name(kind: usize) -> &'static str { KINDS.iter().find(|(k, _)| *k == kind).map(|(_, n)| *n).unwrap_or("?") }

/// dispatch on the kind number: `$body` is expanded with `$O` = owned type, `$S` = slice type
macro_rules! with_kind { ($kind:expr, $O:ident, $S:ident, $body:expr) => { match $kind {
	0 => { type $O = ClassName; type $S = ClassNameSlice; $body }, 1 => { type $O = ArrClassName; type $S = ArrClassNameSlice; $body },
	2 => { type $O = ObjClassName; type $S = ObjClassNameSlice; $body }, 3 => { type $O = FieldName; type $S = FieldNameSlice; $body },
	4 => { type $O = MethodName; type $S = MethodNameSlice; $body }, 5 => { type $O = ParameterName; type $S = ParameterNameSlice; $body },
	6 => { type $O = LocalVariableName; type $S = LocalVariableNameSlice; $body },
	11 => { type $O = FieldDescriptor; type $S = FieldDescriptorSlice; $body }, 12 => { type $O = MethodDescriptor; type $S = MethodDescriptorSlice; $body },
	13 => { type $O = ReturnDescriptor; type $S = ReturnDescriptorSlice; $body }, 14 => { type $O = ClassSignature; type $S = ClassSignatureSlice; $body },
	15 => { type $O = FieldSignature; type $S = FieldSignatureSlice; $body }, 16 => { type $O = MethodSignature; type $S = MethodSignatureSlice; $body },
	17 => { type $O = RecordName; type $S = RecordNameSlice; $body }, 18 => { type $O = ModuleName; type $S = ModuleNameSlice; $body },
	_ => { type $O = PackageName; type $S = PackageNameSlice; $body },
} } }

pub fn impl_name(kind: usize, s: &JavaStr) -> Result<bool, String> {
	guarded(|| with_kind!(kind, O, S, { let _ = std::marker::PhantomData::<S>; O::is_valid(s) }))
}
/// the three TryFrom impls make_string_str_like! generates (&Slice from &JavaStr, Owned from JavaString, Owned from &JavaStr):
/// for each, whether it succeeded and whether the value carries the input unchanged
fn impl_try_from(kind: usize, s: &JavaStr) -> Result<[(bool, bool); 3], String> {
	guarded(|| with_kind!(kind, O, S, {
		let a = <&S>::try_from(s).map(|x| x.as_inner() == s);
		let b = O::try_from(s.to_owned()).map(|x| x.as_inner() == s);
		let c = <O as TryFrom<&JavaStr>>::try_from(s).map(|x| x.as_inner() == s);
		[(a.is_ok(), a.unwrap_or(true)), (b.is_ok(), b.unwrap_or(true)), (c.is_ok(), c.unwrap_or(true))]
	}))
}
fn hash_of<T: Hash + ?Sized>(x: &T) -> u64 { let mut h = std::collections::hash_map::DefaultHasher::new(); x.hash(&mut h); h.finish() }
/// the rest of what make_string_str_like! generates (as_slice, into_inner, AsRef, Borrow, Deref, ToOwned, the From impls back to the
/// inner string, Hash, the four cross PartialEq impls, Ord): each must behave as the wrapped string does.  Returns what does not.
fn impl_newtype_api(kind: usize, s: &JavaStr, other: &JavaStr) -> Result<Vec<&'static str>, String> {
	guarded(|| with_kind!(kind, O, S, {
		let mut bad = vec![];
		// SAFETY: the wrappers are only compared, hashed and unwrapped again
		let owned: O = unsafe { O::from_inner_unchecked(s.to_owned()) };
		let slice: &S = unsafe { S::from_inner_unchecked(s) };
		let o2: O = unsafe { O::from_inner_unchecked(other.to_owned()) };
		let s2: &S = unsafe { S::from_inner_unchecked(other) };
		let same = s == other;
		if owned.as_slice() != slice { bad.push("as_slice"); }
		if owned.as_slice().as_inner() != s || slice.as_inner() != s { bad.push("as_inner"); }
		if <S as AsRef<JavaStr>>::as_ref(slice) != s { bad.push("AsRef<JavaStr> for Slice"); }
		if <O as AsRef<JavaStr>>::as_ref(&owned) != s { bad.push("AsRef<JavaStr> for Owned"); }
		if <O as Borrow<S>>::borrow(&owned) != slice { bad.push("Borrow<Slice> for Owned"); }
		if &*owned != slice { bad.push("Deref"); }
		if slice.to_owned() != owned { bad.push("ToOwned"); }
		if owned.clone().into_inner() != s { bad.push("into_inner"); }
		if JavaString::from(owned.clone()) != s { bad.push("From<Owned> for JavaString"); }
		if <&JavaStr>::from(slice) != s { bad.push("From<&Slice> for &JavaStr"); }
		if hash_of(&owned) != hash_of(slice) { bad.push("Hash of Owned differs from Hash of Slice"); }
		if (hash_of(&owned) == hash_of(&o2)) != same && same { bad.push("Hash"); }
		if (owned == o2) != same { bad.push("PartialEq Owned/Owned"); }
		if (slice == s2) != same { bad.push("PartialEq Slice/Slice"); }
		if (owned == *s2) != same { bad.push("PartialEq<Slice> for Owned"); }
		if (*s2 == owned) != same { bad.push("PartialEq<Owned> for Slice"); }
		if (owned == s2) != same { bad.push("PartialEq<&Slice> for Owned"); }
		if (s2 == owned) != same { bad.push("PartialEq<Owned> for &Slice"); }
		if owned.cmp(&o2) != s.cmp(other) || slice.cmp(s2) != s.cmp(other) { bad.push("Ord"); }
		bad
	}))
}
/// Display (make_display!) of the owned and the slice type: Some(text) or None for fmt::Error; None when the kind has no Display
fn impl_display(kind: usize, s: &JavaStr) -> Option<Result<(Option<String>, Option<String>), String>> {
	use std::fmt::Write;
	macro_rules! disp { ($O:ty, $S:ty) => { Some(guarded(|| {
		let owned: $O = unsafe { <$O>::from_inner_unchecked(s.to_owned()) };
		let slice: &$S = unsafe { <$S>::from_inner_unchecked(s) };
		let mut a = String::new(); let ra = write!(a, "{}", owned).ok().map(|_| a);
		let mut b = String::new(); let rb = write!(b, "{}", slice).ok().map(|_| b);
		(ra, rb)
	})) } }
	match kind {
		0 => disp!(ClassName, ClassNameSlice), 1 => disp!(ArrClassName, ArrClassNameSlice), 2 => disp!(ObjClassName, ObjClassNameSlice),
		3 => disp!(FieldName, FieldNameSlice), 4 => disp!(MethodName, MethodNameSlice), 5 => disp!(ParameterName, ParameterNameSlice),
		6 => disp!(LocalVariableName, LocalVariableNameSlice), 11 => disp!(FieldDescriptor, FieldDescriptorSlice),
		12 => disp!(MethodDescriptor, MethodDescriptorSlice), 17 => disp!(RecordName, RecordNameSlice), 18 => disp!(ModuleName, ModuleNameSlice),
		_ => None,
	}
}

/// `MethodDescriptorSlice::get_arguments_size` is pub(crate); its only caller is the class writer, which puts the result into the
/// count operand of `invokeinterface`.  A one-method class `{ invokeinterface I.f:<s>; return }` is written and the operand read back
/// from the bytes (the method's Code attribute ends the file: … code[6] exception_table_length attributes_count | class attributes_count).
/// Ok(None) = the writer returned an error (nothing else in this class can make it fail).
pub struct ArgsProbe { class: ClassFile }
impl ArgsProbe {
	pub fn new() -> ArgsProbe {
		let obj = |t: &str| unsafe { ObjClassName::from_inner_unchecked(JavaString::from(t)) };
		let mut class = ClassFile::new(Version::V1_8, ClassAccess::default(), obj("A"), Some(obj("java/lang/Object")), vec![]);
		let mut m = Method::new(MethodAccess::from(0x0009u16), unsafe { MethodName::from_inner_unchecked(JavaString::from("m")) },
			unsafe { MethodDescriptor::from_inner_unchecked(JavaString::from("()V")) });
		m.code = Some(Code { max_stack: Some(0), max_locals: Some(0), instructions: vec![], ..Code::default() });
		class.methods.push(m);
		ArgsProbe { class }
	}
	pub fn args_size(&self, s: &JavaStr) -> Result<Option<u8>, String> {
		let mut class = self.class.clone();
		let mref = MethodRef { class: unsafe { ClassName::from_inner_unchecked(JavaString::from("I")) },
			name: unsafe { MethodName::from_inner_unchecked(JavaString::from("f")) },
			desc: unsafe { MethodDescriptor::from_inner_unchecked(s.to_owned()) } };
		class.methods[0].code.as_mut().unwrap().instructions = vec![
			InstructionListEntry { label: None, frame: None, instruction: Instruction::InvokeInterface(mref) },
			InstructionListEntry { label: None, frame: None, instruction: Instruction::Return },
		];
		let out = guarded(move || { let mut v = Vec::new(); duke::write_class(&mut v, &class).map(|_| v) })?;
		match out {
			Err(_) => Ok(None),
			Ok(b) => {
				let n = b.len();
				if n < 16 || b[n - 12] != 0xb9 || b[n - 8] != 0 || b[n - 7] != 0xb1 || b[n - 16..n - 12] != [0, 0, 0, 6] || b[n - 6..] != [0u8; 6] {
					return Err("harness: the written probe class does not end with the expected Code attribute".into());
				}
				Ok(Some(b[n - 9]))
			}
		}
	}
}

/// ClassNameSlice::is_array / as_arr / as_obj / as_arr_and_obj and ClassName::into_arr / into_obj on the same (unchecked) string:
/// (is_array, as_arr, as_obj) and whether the five views agree with each other
fn impl_conv(s: &JavaStr) -> Result<(bool, Option<Vec<u32>>, Option<Vec<u32>>, bool), String> {
	guarded(|| {
		let c = unsafe { ClassNameSlice::from_inner_unchecked(s) };
		let is_arr = c.is_array();
		let a = c.as_arr().map(|x| cps(x.as_inner()));
		let o = c.as_obj().map(|x| cps(x.as_inner()));
		let both = match c.as_arr_and_obj() { Ok(x) => (Some(cps(x.as_inner())), None), Err(x) => (None, Some(cps(x.as_inner()))) };
		let owned = unsafe { ClassName::from_inner_unchecked(s.to_owned()) };
		let ia = owned.clone().into_arr().map(|x| cps(x.as_inner()));
		let io = owned.into_obj().map(|x| cps(x.as_inner()));
		let agree = both == (a.clone(), o.clone()) && ia == a && io == o;
		(is_arr, a, o, agree)
	})
}
fn impl_dimension(s: &JavaStr) -> Option<u8> {
	let a = unsafe { ArrClassNameSlice::from_inner_unchecked(s) };
	guarded(|| a.dimension()).ok()
}

fn impl_split(s: &JavaStr) -> Result<Option<(Vec<u32>, Vec<u32>)>, String> {
	let n = unsafe { ObjClassNameSlice::from_inner_unchecked(s) };
	guarded(|| n.split_inner_class_parent_and_name().map(|(p, i)| (cps(p.as_inner()), cps(i.as_inner()))))
}

// ---------- the oracle: an independent recogniser of JVMS 4.2/4.3 ----------
#[derive(Debug, Clone, PartialEq)]
pub enum OTy { Prim(u32), Obj(Vec<u32>), Arr(u32, Box<OTy>) }

fn o_unq(s: &[u32]) -> bool { !s.is_empty() && s.iter().all(|&c| c != '.' as u32 && c != ';' as u32 && c != '[' as u32 && c != '/' as u32) }
pub fn o_class_name(s: &[u32]) -> bool { s.split(|&c| c == '/' as u32).all(o_unq) }
/// FieldType at the start of `s`; returns the type and the rest
fn o_field_type(s: &[u32]) -> Option<(OTy, &[u32])> {
	let c = *s.first()?;
	let ch = char::from_u32(c)?;
	match ch {
		'B' | 'C' | 'D' | 'F' | 'I' | 'J' | 'S' | 'Z' => Some((OTy::Prim(c), &s[1..])),
		'L' => {
			let end = s.iter().position(|&c| c == ';' as u32)?;
			let name = &s[1..end];
			if o_class_name(name) { Some((OTy::Obj(name.to_vec()), &s[end + 1..])) } else { None }
		}
		'[' => {
			let (inner, rest) = o_field_type(&s[1..])?;
			let t = match inner { OTy::Arr(d, b) => OTy::Arr(d + 1, b), b => OTy::Arr(1, Box::new(b)) };
			if let OTy::Arr(d, _) = &t { if *d > 255 { return None; } }
			Some((t, rest))
		}
		_ => None,
	}
}
pub fn o_field(s: &[u32]) -> Option<OTy> { match o_field_type(s)? { (t, []) => Some(t), _ => None } }
pub fn o_return(s: &[u32]) -> Option<Option<OTy>> { if s == ['V' as u32] { Some(None) } else { o_field(s).map(Some) } }
pub fn o_method(s: &[u32]) -> Option<(Vec<OTy>, Option<OTy>)> {
	if s.first() != Some(&('(' as u32)) { return None; }
	let mut s = &s[1..];
	let mut ps = vec![];
	loop {
		if s.first() == Some(&(')' as u32)) { s = &s[1..]; break; }
		let (t, r) = o_field_type(s)?; ps.push(t); s = r;
	}
	Some((ps, o_return(s)?))
}
fn o_of_aty(a: &ArrayType) -> OTy {
	match a {
		ArrayType::B => OTy::Prim('B' as u32), ArrayType::C => OTy::Prim('C' as u32), ArrayType::D => OTy::Prim('D' as u32), ArrayType::F => OTy::Prim('F' as u32),
		ArrayType::I => OTy::Prim('I' as u32), ArrayType::J => OTy::Prim('J' as u32), ArrayType::S => OTy::Prim('S' as u32), ArrayType::Z => OTy::Prim('Z' as u32),
		ArrayType::Object(n) => OTy::Obj(cps(n.as_inner())),
	}
}
pub fn o_of_ty(t: &Type) -> OTy {
	match t {
		Type::B => OTy::Prim('B' as u32), Type::C => OTy::Prim('C' as u32), Type::D => OTy::Prim('D' as u32), Type::F => OTy::Prim('F' as u32),
		Type::I => OTy::Prim('I' as u32), Type::J => OTy::Prim('J' as u32), Type::S => OTy::Prim('S' as u32), Type::Z => OTy::Prim('Z' as u32),
		Type::Object(n) => OTy::Obj(cps(n.as_inner())),
		Type::Array(d, a) => OTy::Arr(*d as u32, Box::new(o_of_aty(a))),
	}
}
fn o_name(kind: usize, s: &[u32]) -> bool {
	let arr = s.first() == Some(&('[' as u32)) && o_field(s).is_some();
	match kind {
		0 => arr || (s.first() != Some(&('[' as u32)) && o_class_name(s)),
		1 => arr,
		2 => s.first() != Some(&('[' as u32)) && o_class_name(s),
		4 => s == cps_str("<init>") || s == cps_str("<clinit>") || (o_unq(s) && !s.contains(&('<' as u32)) && !s.contains(&('>' as u32))),
		3 | 5 | 6 => o_unq(s),
		// descriptor, signature, record, module and package name types: unchecked in the source (check_valid is `Ok(())`, marked TODO)
		_ => true,
	}
}
/// what get_arguments_size reads on ANY string (it does not validate): `(`, then tokens up to the first `)` at token position —
/// `D` / `J` count 2; anything else is: any number of `[`, one character, and when that is `L` everything up to the next `;`,
/// counting 1 — on top of 1 for `this`; None when the text ends inside that or the sum exceeds 255
fn o_args_lenient(s: &[u32]) -> Option<u8> {
	if s.first() != Some(&('(' as u32)) { return None; }
	let (mut i, mut size) = (1usize, 1u32);
	loop {
		let c = *s.get(i)?;
		if c == ')' as u32 { return Some(size as u8); }
		if c == 'D' as u32 || c == 'J' as u32 { size += 2; i += 1; }
		else {
			while s.get(i) == Some(&('[' as u32)) { i += 1; }
			let ch = *s.get(i)?; i += 1;
			if ch == 'L' as u32 { loop { let c = *s.get(i)?; i += 1; if c == ';' as u32 { break; } } }
			size += 1;
		}
		if size > 255 { return None; }
	}
}
fn o_split(s: &[u32]) -> Option<(Vec<u32>, Vec<u32>)> {
	let pos = s.iter().rposition(|&c| c == '$' as u32)?;
	let (p, i) = (&s[..pos], &s[pos + 1..]);
	if p.is_empty() || i.is_empty() || p.last() == Some(&('/' as u32)) || i.contains(&('/' as u32)) { None } else { Some((p.to_vec(), i.to_vec())) }
}

// ---------- one string through everything ----------
struct St<'a> { r: &'a mut Report, probe: &'a ArgsProbe, emit_cases: bool,
	/// also get_arguments_size (one class written per string)
	args: bool,
	/// also the conversions, Display, the rest of the generated newtype API and the unchecked newtypes
	full: bool }
/// what one string produced: a bit mask of what accepted it (bits 0..6 names, 7 field, 8 return, 9 method, 10 split) and the
/// values of the function-valued entry points (for the value sweeps)
#[derive(Default)]
struct Out { mask: u32, args: Option<u8>, dim: Option<u8>, simple: Option<Vec<u32>>, split: Option<(Vec<u32>, Vec<u32>)>,
	/// what get_inner_class_parent / get_inner_class_name themselves answered (the value tables of the sweeps list these, not the split's halves)
	parent: Option<Vec<u32>>, inner: Option<Vec<u32>> }

fn vio(r: &mut Report, what: String, s: &[u32]) {
	r.violation(what.clone(), format!("property C18\nwhat: {what}\ninput (text): {}\ninput (code points): {}\n", show(s), gstr(s)));
}

fn through(st: &mut St, s: &[u32], stream: &str) -> Out {
	let js = jstring(s);
	let mut mask = 0u32;
	let mut out = Out::default();
	let r = &mut *st.r;
	// the pieces of the one Coq case this string becomes (input printed once, every answer beside it)
	let (mut c_field, mut c_ret, mut c_meth): (Option<String>, Option<String>, Option<String>) = (None, None, None);
	let mut c_printed: Vec<bool> = vec![];
	let mut c_names: Vec<String> = vec![];
	let (mut c_split, mut c_simple) = ("None".to_string(), "None".to_string());
	let (mut c_args, mut c_conv, mut c_disp): (Option<String>, Option<String>, Option<bool>) = (None, None, None);
	// a loop that stops advancing or unbounded recursion in a parser cannot be caught by `guarded`: leave the input behind first
	crumb_input(s);
	// field
	match impl_field(&js) {
		Err(p) => vio(r, format!("FieldDescriptorSlice::parse panicked: {p}"), s),
		Ok(got) => {
			let want = o_field(s);
			let got_o = got.as_ref().map(|g| o_of_ty(&g.0));
			if got_o != want { vio(r, format!("field descriptor parse: implementation {:?}, JVMS grammar {:?}", got_o, want), s); }
			if let Some(g) = &got {
				mask |= 1 << 7;
				match guarded(|| cps(g.write().as_inner())) {
					Err(p) => vio(r, format!("ParsedFieldDescriptor::write panicked: {p}"), s),
					Ok(w) => {
						if w != s { vio(r, format!("write(parse(s)) = {:?} differs from s", show(&w)), s); }
						c_printed.push(w == s);
					}
				}
			}
			c_field = Some(gres(got.as_ref().map(|g| g_ty(&g.0))));
		}
	}
	// return
	match impl_return(&js) {
		Err(p) => vio(r, format!("ReturnDescriptorSlice::parse panicked: {p}"), s),
		Ok(got) => {
			let want = o_return(s);
			let got_o = got.as_ref().map(|g| g.0.as_ref().map(o_of_ty));
			if got_o != want { vio(r, format!("return descriptor parse: implementation {:?}, JVMS grammar {:?}", got_o, want), s); }
			if let Some(g) = &got {
				mask |= 1 << 8;
				match guarded(|| cps(g.write().as_inner())) {
					Err(p) => vio(r, format!("ParsedReturnDescriptor::write panicked: {p}"), s),
					Ok(w) => { if w != s { vio(r, format!("return write(parse(s)) = {:?} differs from s", show(&w)), s); } c_printed.push(w == s); }
				}
			}
			c_ret = Some(gres(got.as_ref().map(|g| gopt(g.0.as_ref().map(g_ty)))));
		}
	}
	// method
	match impl_method(&js) {
		Err(p) => vio(r, format!("MethodDescriptorSlice::parse panicked: {p}"), s),
		Ok(got) => {
			let want = o_method(s);
			let got_o = got.as_ref().map(|g| (g.parameter_descriptors.iter().map(o_of_ty).collect::<Vec<_>>(), g.return_descriptor.as_ref().map(o_of_ty)));
			if got_o != want { vio(r, format!("method descriptor parse: implementation {:?}, JVMS grammar {:?}", got_o, want), s); }
			if let Some(g) = &got {
				mask |= 1 << 9;
				match guarded(|| cps(g.write().as_inner())) {
					Err(p) => vio(r, format!("ParsedMethodDescriptor::write panicked: {p}"), s),
					Ok(w) => {
						if w != s { vio(r, format!("method write(parse(s)) = {:?} differs from s", show(&w)), s); }
						c_printed.push(w == s);
					}
				}
			}
			c_meth = Some(gres(got.as_ref().map(g_method)));
		}
	}
	// names: is_valid against the documented set, the three checked constructors against is_valid
	let n_kinds = if st.full { KINDS.len() } else { 7 };
	// of the unchecked newtypes only one per string becomes a Coq case (they are all `true`)
	let rot = 7 + (s.len() + s.first().copied().unwrap_or(0) as usize) % 9;
	for (ki, &(k, kname)) in KINDS.iter().enumerate().take(n_kinds) {
		match impl_name(k, &js) {
			Err(p) => vio(r, format!("{kname}::is_valid panicked: {p}"), s),
			Ok(b) => {
				if b && k < 7 { mask |= 1 << k; }
				if b != o_name(k, s) { vio(r, format!("{kname}::is_valid = {b}, documentation/JVMS says {}", !b), s); }
				if k < 7 || ki == rot { c_names.push(gpair(k.to_string(), gbool(b))); }
				// the checked constructors agree with the predicate and keep the string
				match impl_try_from(k, &js) {
					Err(p) => vio(r, format!("{kname}: a TryFrom impl panicked: {p}"), s),
					Ok(t) => for (i, (ok, same)) in t.iter().enumerate() {
						let which = ["<&Slice>::try_from(&JavaStr)", "Owned::try_from(JavaString)", "Owned::try_from(&JavaStr)"][i];
						if *ok != b { vio(r, format!("{kname} {which} is {} but is_valid = {b}", if *ok { "Ok" } else { "Err" }), s); }
						if !*same { vio(r, format!("{kname} {which} changed the string", ), s); }
					},
				}
			}
		}
	}
	let valid_class = o_name(0, s); let valid_arr = o_name(1, s); let valid_obj = o_name(2, s);
	// split / join / simple name (only meaningful on object class names, which is what the slice type promises)
	if valid_obj {
		let n = unsafe { ObjClassNameSlice::from_inner_unchecked(&js) };
		match impl_split(&js) {
			Err(p) => vio(r, format!("split_inner_class_parent_and_name panicked: {p}"), s),
			Ok(got) => {
				if got != o_split(s) { vio(r, format!("split_inner_class_parent_and_name = {:?}, expected {:?}", got, o_split(s)), s); }
				// get_inner_class_parent / get_inner_class_name are the two halves
				match guarded(|| (n.get_inner_class_parent().map(|x| cps(x.as_inner())), n.get_inner_class_name().map(|x| cps(x.as_inner())))) {
					Err(p) => vio(r, format!("get_inner_class_parent/name panicked: {p}"), s),
					Ok((gp, gi)) => {
						if (gp.clone(), gi.clone()) != (got.as_ref().map(|x| x.0.clone()), got.as_ref().map(|x| x.1.clone())) {
							vio(r, format!("get_inner_class_parent = {:?}, get_inner_class_name = {:?}, but split_inner_class_parent_and_name = {:?}", gp, gi, got), s);
						}
						out.parent = gp.clone(); out.inner = gi.clone();
						if st.emit_cases && s.len() <= 12 { r.case(stream, format!("CInner {} {} {}", gstr(s), gopt(gp.map(|x| gstr(&x))), gopt(gi.map(|x| gstr(&x))))); }
					}
				}
				if let Some((p, i)) = &got {
					mask |= 1 << 10;
					// both halves are valid object class names again (the SAFETY comments of the function)
					for (half, what) in [(p, "parent"), (i, "inner name")] {
						if impl_name(2, &jstring(half)) != Ok(true) { vio(r, format!("the {what} {:?} returned by split_inner_class_parent_and_name is not a valid ObjClassName", show(half)), s); }
					}
					// join must give back s
					let pj = jstring(p); let ij = jstring(i);
					let joined = guarded(|| {
						let parent = unsafe { ObjClassName::from_inner_unchecked(pj) };
						let inner = unsafe { ObjClassNameSlice::from_inner_unchecked(&ij) };
						cps(ObjClassName::from_inner_class(parent, inner).as_inner())
					});
					match joined { Ok(j) if j == s => {}, other => vio(r, format!("from_inner_class(split(s)) = {:?}", other), s) }
				}
				c_split = gopt(Some(gopt(got.clone().map(|(p, i)| gpair(gs(&p), gs(&i))))));
				out.split = got;
			}
		}
		match guarded(|| cps(n.get_simple_name().as_inner())) {
			Err(p) => vio(r, format!("get_simple_name panicked: {p}"), s),
			Ok(simple) => {
				let want = s.rsplit(|&c| c == '/' as u32).next().unwrap_or(s).to_vec();
				if simple != want { vio(r, format!("get_simple_name = {:?}, expected the text after the last `/`: {:?}", show(&simple), show(&want)), s); }
				if impl_name(2, &jstring(&simple)) != Ok(true) { vio(r, format!("get_simple_name returned {:?}, which is not a valid ObjClassName", show(&simple)), s); }
				c_simple = gopt(Some(gs(&simple)));
				out.simple = Some(simple);
			}
		}
		if st.full {
			// as_class_name and From<ObjClassName> for ClassName keep the string and give a valid ClassName
			let c = guarded(|| (cps(n.as_class_name().as_inner()), cps(ClassName::from(n.to_owned()).as_inner())));
			if c != Ok((s.to_vec(), s.to_vec())) || !valid_class { vio(r, format!("ObjClassNameSlice::as_class_name / ClassName::from(ObjClassName) = {:?} on a valid object class name (ClassName valid: {valid_class})", c), s); }
			match guarded(|| FieldDescriptor::from_obj_class(n).parse().ok().map(|d| o_of_ty(&d.0))) {
				Ok(Some(OTy::Obj(x))) if x == s => {},
				other => vio(r, format!("FieldDescriptor::from_obj_class(name).parse() = {:?}, expected the object type of that class", other), s),
			}
		}
	}
	// ArrClassNameSlice::dimension (on every string through the unchecked constructor; a panic is the answer `Err`)
	out.dim = impl_dimension(&js);
	{
		// through the unchecked constructor on ANY string: the number of leading `[` (as u8), the assertion fails on 0
		let lead = s.iter().take_while(|&&c| c == '[' as u32).count();
		let want = if lead % 256 == 0 { None } else { Some((lead % 256) as u8) };
		if out.dim != want { vio(r, format!("ArrClassNameSlice::dimension = {:?} (None = panic) on a string with {lead} leading `[`: expected {:?} (the count as u8; the assertion `dimension != 0` fails on 0)", out.dim, want), s); }
	}
	if valid_arr {
		let lead = s.iter().take_while(|&&c| c == '[' as u32).count();
		if out.dim.map(|d| d as usize) != Some(lead) { vio(r, format!("ArrClassNameSlice::dimension = {:?} on a valid array class name with {lead} leading `[`", out.dim), s); }
	}
	// get_arguments_size through the class writer
	if st.args {
		match st.probe.args_size(&js) {
			Err(p) => vio(r, format!("get_arguments_size (class writer, invokeinterface) panicked: {p}"), s),
			Ok(got) => {
				if let Some((ps, _)) = o_method(s) {
					let n: u32 = 1 + ps.iter().map(|t| if matches!(t, OTy::Prim(c) if *c == 'D' as u32 || *c == 'J' as u32) { 2 } else { 1 }).sum::<u32>();
					let want = if n <= 255 { Some(n as u8) } else { None };
					if got != want { vio(r, format!("get_arguments_size = {:?} on a valid method descriptor whose arguments take {n} slots (with `this`); expected {:?} (an error above 255)", got, want), s); }
				}
				if got == Some(0) { vio(r, "get_arguments_size = 0 (the implicit `this` alone counts 1)".into(), s); }
				// on every string (it does not validate): what its documentation and token structure give
				let want = o_args_lenient(s);
				if got != want { vio(r, format!("get_arguments_size = {:?}; reading `(`, then per parameter `D`/`J` (2 slots) or `[`* and one character, an `L` running to the next `;` (1 slot), up to `)`, on top of 1 for `this`, gives {:?} (None = error: text ends early or more than 255 slots)", got, want), s); }
				c_args = Some(gres(got.map(|d| d.to_string())));
				out.args = got;
			}
		}
	}
	if st.full {
		// ClassName <-> ArrClassName / ObjClassName
		match impl_conv(&js) {
			Err(p) => vio(r, format!("ClassNameSlice::is_array/as_arr/as_obj/as_arr_and_obj or ClassName::into_arr/into_obj panicked: {p}"), s),
			Ok((is_arr, a, o, agree)) => {
				if !agree { vio(r, "as_arr_and_obj, as_arr/as_obj and into_arr/into_obj disagree with each other".into(), s); }
				// "Array class names start with `[`": on every string the array view exists exactly then, the object view otherwise
				let starts = s.first() == Some(&('[' as u32));
				if is_arr != starts || a.is_some() != starts || o.is_some() == starts {
					vio(r, format!("ClassNameSlice::is_array = {is_arr}, as_arr is {}, as_obj is {} on a string that {} with `[`", if a.is_some() { "Some" } else { "None" }, if o.is_some() { "Some" } else { "None" }, if starts { "starts" } else { "does not start" }), s);
				}
				if valid_class {
					let want_a = if valid_arr { Some(s.to_vec()) } else { None };
					let want_o = if valid_obj { Some(s.to_vec()) } else { None };
					if a != want_a || o != want_o || is_arr != valid_arr {
						vio(r, format!("on a valid class name: is_array = {is_arr}, as_arr = {:?}, as_obj = {:?}; expected the array view exactly for array class names and the object view otherwise", a, o), s);
					}
				}
				// the views hand the string itself back (checked here), so the case only says which views exist
				for v in [&a, &o] { if let Some(x) = v { if x != s { vio(r, format!("as_arr/as_obj changed the string to {:?}", show(x)), s); } } }
				c_conv = Some(format!("({}, {}, {})", gbool(is_arr), gbool(a.is_some()), gbool(o.is_some())));
			}
		}
		if valid_arr {
			let a = unsafe { ArrClassNameSlice::from_inner_unchecked(&js) };
			let c = guarded(|| cps(ClassName::from(a.to_owned()).as_inner()));
			if c != Ok(s.to_vec()) || !valid_class { vio(r, format!("ClassName::from(ArrClassName) = {:?} (ClassName valid: {valid_class})", c), s); }
			match guarded(|| FieldDescriptor::from_arr_class(a).parse().ok().map(|d| o_of_ty(&d.0))) {
				Ok(Some(OTy::Arr(..))) => {},
				other => vio(r, format!("FieldDescriptor::from_arr_class(name).parse() = {:?}, expected an array type", other), s),
			}
		}
		// FieldDescriptor::from_class
		let c = unsafe { ClassNameSlice::from_inner_unchecked(&js) };
		match guarded(|| FieldDescriptor::from_class(c)) {
			Err(p) => vio(r, format!("FieldDescriptor::from_class panicked: {p}"), s),
			Ok(d) => {
				if valid_class {
					let want = if valid_arr { o_field(s) } else { Some(OTy::Obj(s.to_vec())) };
					let got = guarded(|| d.parse().ok().map(|x| o_of_ty(&x.0)));
					if got != Ok(want.clone()) || want.is_none() { vio(r, format!("FieldDescriptor::from_class(valid class name).parse() = {:?}, expected {:?}", got, want), s); }
				}
				if st.emit_cases && s.len() <= 12 { r.case(stream, format!("CDescOf {} {}", gstr(s), gjstr(d.as_inner()))); }
			}
		}
		// From<FieldDescriptor> for ReturnDescriptor
		if mask & (1 << 7) != 0 {
			let f = unsafe { FieldDescriptor::from_inner_unchecked(js.clone()) };
			let got = guarded(|| ReturnDescriptor::from(f).parse().ok().map(|x| x.0.as_ref().map(o_of_ty)));
			if got != Ok(o_field(s).map(Some)) { vio(r, format!("ReturnDescriptor::from(FieldDescriptor).parse() = {:?}, the field descriptor parses to {:?}", got, o_field(s)), s); }
		}
		// Display: the text itself; an error exactly when the string holds a surrogate code point
		let want: Option<String> = s.iter().map(|&c| char::from_u32(c)).collect();
		let mut first = true;
		for &(k, kname) in KINDS.iter() {
			match impl_display(k, &js) {
				None => {},
				Some(Err(p)) => vio(r, format!("Display of {kname} panicked: {p}"), s),
				Some(Ok((a, b))) => {
					if a != want || b != want { vio(r, format!("Display of {kname} / {kname}Slice gives {:?} / {:?}, expected {:?} (fmt::Error exactly on surrogates)", a, b, want), s); }
					if first { c_disp = Some(a.is_some()); }
					first = false;
				}
			}
		}
		// the rest of the generated API behaves as the wrapped string
		let other = { let mut o = s.to_vec(); if o.len() % 2 == 0 { o.push('x' as u32); } else { o.pop(); } jstring(&o) };
		// ... and one that is shorter but greater (or longer but smaller) in code point order, and one differing only in the last place
		let other2 = { let mut o = s.to_vec(); match o.first().copied() { Some(c) if c > 0x21 => { o[0] = c - 1; o.push('z' as u32); o.push('z' as u32); } Some(c) => { o.truncate(1); o[0] = c + 1; } None => o.push(0x10400) } jstring(&o) };
		let other3 = { let mut o = s.to_vec(); match o.last().copied() { Some(c) if c != 'a' as u32 => { let n = o.len(); o[n - 1] = 'a' as u32; } Some(_) => { let n = o.len(); o[n - 1] = 'B' as u32; } None => o.push(' ' as u32) } jstring(&o) };
		for &(k, kname) in KINDS.iter() {
			for oth in [&js, &other, &other2, &other3] {
				match impl_newtype_api(k, &js, oth) {
					Err(p) => vio(r, format!("{kname}: a generated trait impl panicked: {p}"), s),
					Ok(bad) => if !bad.is_empty() { vio(r, format!("{kname}: generated impls that do not behave as the wrapped string: {:?}", bad), s); },
				}
			}
		}
	}
	if st.emit_cases {
		// every piece is present unless the implementation panicked on it (reported above as a violation)
		if let (Some(f), Some(rt), Some(m), Some(ar), Some(cv), Some(dp)) = (c_field, c_ret, c_meth, c_args, c_conv, c_disp) {
			r.case(stream, format!("CAll {} {f} {rt} {m} {} {} {c_split} {c_simple} {} {ar} {cv} {}", gs(s), glist(c_printed.iter().map(|b| gbool(*b))),
				glist(c_names.into_iter()), gres(out.dim.map(|d| d.to_string())), gbool(dp)));
		}
	}
	out.mask = mask;
	out
}

thread_local! { static CRUMB_BUF: std::cell::RefCell<String> = std::cell::RefCell::new(String::new()); }
fn crumb_input(s: &[u32]) {
	CRUMB_BUF.with(|b| {
		let mut b = b.borrow_mut();
		b.clear();
		b.push_str("property C18\nwhat: the harness process died (stack overflow, abort or time limit) while this string was inside a descriptor parser, a name predicate, an inner-class helper or get_arguments_size\ninput (text): ");
		b.push_str(&show(s));
		b.push_str("\ninput (code points): ");
		b.push_str(&gstr(s));
		b.push('\n');
		crumb(&b);
	});
}

// ---------- generators ----------
fn gen_class_name(rng: &mut Rng) -> Vec<u32> {
	let parts = rng.range(1, 4);
	let pool: [&str; 26] = ["a", "L", "java", "lang", "Object", "A$B", "$", "ü", "\u{10400}x", "I", "<x>", "a b",
		" ", "\t", "\u{2003}", "  ", " x", "x ", "Größe", "日本", "Outer$Größe", "Outer$日本", "$\u{10400}", "A$ ", "ü$\u{2003}", "O$I$\u{fc}\u{65e5}\u{10400}"];
	let mut v = vec![];
	for i in 0..parts { if i > 0 { v.push('/' as u32); } v.extend(cps_str(*rng.pick(&pool[..]))); }
	// now and then a lone surrogate (JavaString holds it; Display of the name types must answer fmt::Error)
	if rng.chance(1, 12) { let i = rng.below(v.len() + 1); v.insert(i, *rng.pick(&[0xD800u32, 0xDBFF, 0xDC00, 0xDFFF][..])); }
	v
}
fn gen_field(rng: &mut Rng) -> Vec<u32> {
	let mut v = vec![];
	let dims = match rng.below(10) { 0 => rng.range(1, 3), 1 => rng.range(250, 255), 2 | 3 => 1, _ => 0 };
	for _ in 0..dims { v.push('[' as u32); }
	if rng.chance(1, 2) { v.push(*rng.pick(&cps_str("BCDFIJSZ"))); } else { v.push('L' as u32); v.extend(gen_class_name(rng)); v.push(';' as u32); }
	v
}
fn gen_method(rng: &mut Rng) -> Vec<u32> {
	let mut v = vec!['(' as u32];
	for _ in 0..rng.below(5) { v.extend(gen_field(rng)); }
	v.push(')' as u32);
	if rng.chance(1, 3) { v.push('V' as u32); } else { v.extend(gen_field(rng)); }
	v
}
fn mutate(rng: &mut Rng, s: &mut Vec<u32>) {
	let mut alpha = cps_str(ALPHABET); alpha.extend(cps_str(ALPHABET2)); alpha.extend([0xD800, 0xDFFF, 0xFFFF, 0x10FFFF, 0]);
	match rng.below(4) {
		0 if !s.is_empty() => { let i = rng.below(s.len()); s.remove(i); }
		1 => { let i = rng.below(s.len() + 1); s.insert(i, *rng.pick(&alpha)); }
		2 if !s.is_empty() => { let i = rng.below(s.len()); s[i] = *rng.pick(&alpha); }
		_ => { s.push(*rng.pick(&alpha)); }
	}
}

/// a `Type` built directly: mostly well-formed, sometimes with an invalid or array-like class name or dimension 0
fn gen_type_value(rng: &mut Rng) -> Type {
	let name = |rng: &mut Rng| -> JavaString {
		match rng.below(8) {
			0 => jstring(&cps_str(*rng.pick(&["[I", "[La;", "[", "[[Ljava/lang/Object;", "[a"][..]))),
			1 => jstring(&cps_str(*rng.pick(&["", "a//b", "/a", "a/", "a;b", "a.b", "a[b", ";"][..]))),
			_ => jstring(&gen_class_name(rng)),
		}
	};
	let dim = |rng: &mut Rng| -> u8 { match rng.below(6) { 0 => 0, 1 => 255, 2 => 254, 3 => rng.range(3, 253) as u8, _ => rng.range(1, 2) as u8 } };
	let prim = |rng: &mut Rng| rng.below(8);
	match rng.below(4) {
		0 => [Type::B, Type::C, Type::D, Type::F, Type::I, Type::J, Type::S, Type::Z][prim(rng)].clone(),
		1 => Type::Object(unsafe { ObjClassName::from_inner_unchecked(name(rng)) }),
		2 => Type::Array(dim(rng), [ArrayType::B, ArrayType::C, ArrayType::D, ArrayType::F, ArrayType::I, ArrayType::J, ArrayType::S, ArrayType::Z][prim(rng)].clone()),
		_ => Type::Array(dim(rng), ArrayType::Object(unsafe { ClassName::from_inner_unchecked(name(rng)) })),
	}
}
/// what the checked constructors allow: binary class names, 1..255 dimensions
fn wf_type(t: &Type) -> bool {
	match t {
		Type::Object(n) => o_name(2, &cps(n.as_inner())),
		Type::Array(d, a) => *d >= 1 && match a { ArrayType::Object(n) => o_name(2, &cps(n.as_inner())), _ => true },
		_ => true,
	}
}
fn bracket_name(t: &Type) -> bool {
	match t {
		Type::Object(n) => n.as_inner().starts_with('['),
		Type::Array(_, ArrayType::Object(n)) => n.as_inner().starts_with('['),
		_ => false,
	}
}

/// every string over `alpha` of length exactly `len`, in the order the Coq model enumerates them
fn for_all_strings(alpha: &[u32], len: usize, f: &mut dyn FnMut(&[u32])) {
	let k = alpha.len();
	let mut idx = vec![0usize; len];
	let mut s: Vec<u32> = vec![alpha.first().copied().unwrap_or(0); len];
	loop {
		f(&s);
		let mut p = len;
		loop {
			if p == 0 { return; }
			p -= 1;
			idx[p] += 1;
			if idx[p] < k { s[p] = alpha[idx[p]]; break; }
			idx[p] = 0; s[p] = alpha[0];
		}
	}
}

/// accumulated answers of one exhaustive sweep (what the Coq side re-enumerates)
struct SweepAcc { accepted: Vec<Vec<Vec<u32>>>, args: Vec<(Vec<u32>, u8)>, dims: Vec<(Vec<u32>, u8)>,
	simple: Vec<(Vec<u32>, Vec<u32>)>, parent: Vec<(Vec<u32>, Vec<u32>)>, inner: Vec<(Vec<u32>, Vec<u32>)> }
impl SweepAcc {
	fn new() -> SweepAcc { SweepAcc { accepted: vec![vec![]; 11], args: vec![], dims: vec![], simple: vec![], parent: vec![], inner: vec![] } }
	/// `s`: what is listed for the input (the whole string, or its variable part in a template sweep)
	fn add(&mut self, s: &[u32], o: &Out, with_args: bool) {
		for k in 0..11 { if o.mask & (1 << k) != 0 { self.accepted[k].push(s.to_vec()); } }
		if with_args { if let Some(n) = o.args { self.args.push((s.to_vec(), n)); } }
		if let Some(d) = o.dim { self.dims.push((s.to_vec(), d)); }
		if let Some(x) = &o.simple { self.simple.push((s.to_vec(), x.clone())); }
		if let Some(p) = &o.parent { self.parent.push((s.to_vec(), p.clone())); }
		if let Some(i) = &o.inner { self.inner.push((s.to_vec(), i.clone())); }
	}
	/// the Coq cases: accepted sets of the 11 predicates/parsers and the value tables; `args_len` = None when get_arguments_size was not swept
	fn cases(&self, pre: &[u32], suf: &[u32], alpha: &[u32], len: usize, with_args: bool) -> Vec<String> {
		let head = format!("{} {} {} {len}", gstr(pre), gstr(suf), gstr(alpha));
		let mut v = vec![];
		for k in 0..11 { v.push(format!("CSweepT {k} {head} {}", glist(self.accepted[k].iter().map(|s| gstr(s))))); }
		let nums = |l: &Vec<(Vec<u32>, u8)>| glist(l.iter().map(|(s, n)| gpair(gstr(s), n.to_string())));
		let strs = |l: &Vec<(Vec<u32>, Vec<u32>)>| glist(l.iter().map(|(s, x)| gpair(gstr(s), gstr(x))));
		if with_args { v.push(format!("CSweepN 0 {head} {}", nums(&self.args))); }
		v.push(format!("CSweepN 1 {head} {}", nums(&self.dims)));
		v.push(format!("CSweepS 0 {head} {}", strs(&self.simple)));
		v.push(format!("CSweepS 1 {head} {}", strs(&self.parent)));
		v.push(format!("CSweepS 2 {head} {}", strs(&self.inner)));
		v
	}
}

/// third sweep: every string `prefix ++ w ++ suffix`, w over ALPHABET3 up to a length — the special characters in every position
/// class (alone, at the start, in the middle, at the end, next to each structural character) of every kind of input
pub const ALPHABET3: &str = "\u{fc}\u{65e5}\u{10400} \t\u{2003}\u{d7ff}a/$;[L.<>()";
pub const TEMPLATES: [(&str, &str); 24] = [("", ""), ("L", ";"), ("[L", ";"), ("(L", ";)V"), ("()L", ";"), ("(", ")V"), ("()", ""), ("(I", ")V"), ("(L", ";I)V"),
	("a/", ""), ("", "/a"), ("a/", "/a"), ("a$", ""), ("", "$a"), ("a/b$", ""), ("$", ""), ("", "$"), ("<", ">"), ("<init", ""), ("[", ""), ("[[", "I"),
	("La", ""), ("(D[J", ")V"), ("(", "")];

pub fn run(ctx: &Ctx) -> anyhow::Result<Report> {
	let mut r = Report::new("C18", "C18.Run");
	let mut rng = Rng::new(ctx.seed);
	let probe = ArgsProbe::new();
	let alpha = cps_str(ALPHABET);
	let oracle_len = if ctx.thorough { 6 } else { 5 };  // implementation + oracle sweep (thorough: length 7 over a 9-letter sub-alphabet on top)
	let model_len = if ctx.thorough { 5 } else { 4 };   // swept inside Coq as well
	let oracle_len2 = if ctx.thorough { 5 } else { 4 };
	let len3 = if ctx.thorough { 3 } else { 2 };
	r.rule = format!("exhaustive: every string over the 14-letter alphabet {ALPHABET:?} up to length {oracle_len} (thorough tier: also every string of length 7 over {ALPHABET_LEN7:?}) through the 3 descriptor parsers, 7 name predicates, the inner-class split/parent/name, get_simple_name, ArrClassName::dimension (and get_arguments_size, observed through the class writer, up to length {model_len}) on the implementation against an independent JVMS recogniser (lengths up to {model_len} also enumerated inside Coq by the model: accepted sets and value tables must coincide); a second exhaustive sweep over the 12-letter alphabet {ALPHABET2:?} (characters of 2, 3 and 4 UTF-8 bytes, space, TAB, EM SPACE, $ / L ; [ I) up to length {oracle_len2} (all of it also enumerated inside Coq); a third over {} templates prefix+w+suffix (field/method/return descriptor, class name, inner name, method name shapes) with w over the 19-letter alphabet {ALPHABET3:?} + a lone surrogate U+D800 up to length {len3}, every string also through the conversions, Display, the unchecked newtypes and the rest of the macro-generated API; plus grammar-generated and mutated long descriptors and class names (dimensions 250..257 in field, parameter and return position, 120..130 wide parameters around the 255-slot limit, multi-byte, surrogate and white-space-only name segments, inner names with multi-byte characters). Every name string also goes through the three TryFrom impls of its newtype (must agree with is_valid and keep the string). A case is non-trivial when at least one parser/predicate accepts it; distinct by string.", TEMPLATES.len());

	// 1. sweeps
	let mut clock = std::time::Instant::now();
	let mut lap = |r: &mut Report, what: &str| { r.notes.push(format!("harness phase {what}: {:.1} s", clock.elapsed().as_secs_f64())); clock = std::time::Instant::now(); };
	let mut acc = SweepAcc::new();
	for len in 0..=oracle_len {
		let in_model = len <= model_len;
		let mut count = 0u64;
		for_all_strings(&alpha, len, &mut |s| {
			count += 1;
			let mut st = St { r: &mut r, probe: &probe, emit_cases: false, args: in_model, full: false };
			let o = through(&mut st, s, "sweep");
			r.eval_distinct(o.mask != 0);
			if o.mask != 0 { r.count(&format!("sweep_accepted_len{len}")); }
			if in_model { acc.add(s, &o, true); }
			// every accepted short string also becomes individual cases (results compared, not only acceptance)
			if o.mask & 0b111_1000_0000 != 0 && len <= 3 { let mut st = St { r: &mut r, probe: &probe, emit_cases: true, args: true, full: true }; through(&mut st, s, "sweep-accepted"); }
		});
		r.count_n("sweep_strings", count);
	}
	if ctx.thorough {
		// length 7 over the letters that matter for descriptors (14^7 strings would take half an hour)
		let sub = cps_str(ALPHABET_LEN7);
		let mut count = 0u64;
		for_all_strings(&sub, 7, &mut |s| {
			count += 1;
			let mut st = St { r: &mut r, probe: &probe, emit_cases: false, args: false, full: false };
			let o = through(&mut st, s, "sweep");
			r.eval_distinct(o.mask != 0);
			if o.mask != 0 { r.count("sweep_accepted_len7_subalphabet"); }
		});
		r.count_n("sweep_strings_len7_subalphabet", count);
	}
	for c in acc.cases(&[], &[], &alpha, model_len, true) { r.big_case("sweep", c); }
	lap(&mut r, "sweep 1");
	// 1b. the second alphabet: multi-byte characters, white space, $ / L ; [ I
	let alpha2 = cps_str(ALPHABET2);
	let model_len2 = oracle_len2;
	let mut acc2 = SweepAcc::new();
	for len in 0..=oracle_len2 {
		let mut count = 0u64;
		for_all_strings(&alpha2, len, &mut |s| {
			count += 1;
			let mut st = St { r: &mut r, probe: &probe, emit_cases: false, args: true, full: len <= 3 };
			let o = through(&mut st, s, "sweep2");
			r.eval_distinct(o.mask != 0);
			if o.mask != 0 { r.count(&format!("sweep2_accepted_len{len}")); }
			acc2.add(s, &o, true);
			// results (not only acceptance) of every short string that splits or parses
			if o.mask & 0b111_1000_0000 != 0 && len <= 3 { let mut st = St { r: &mut r, probe: &probe, emit_cases: true, args: true, full: true }; through(&mut st, s, "sweep2-accepted"); }
		});
		r.count_n("sweep2_strings", count);
	}
	for c in acc2.cases(&[], &[], &alpha2, model_len2, true) { r.big_case("sweep2", c); }
	lap(&mut r, "sweep 2");
	// 1c. templates x the third alphabet
	let mut alpha3 = cps_str(ALPHABET3);
	alpha3.push(0xD800); // a lone surrogate: a JavaString can hold it, Display cannot print it
	for (pre, suf) in TEMPLATES {
		let (pre, suf) = (cps_str(pre), cps_str(suf));
		let mut acc3 = SweepAcc::new();
		let mut count = 0u64;
		for len in 0..=len3 {
			for_all_strings(&alpha3, len, &mut |w| {
				count += 1;
				let mut s = pre.clone(); s.extend(w); s.extend(&suf);
				let mut st = St { r: &mut r, probe: &probe, emit_cases: false, args: true, full: true };
				let o = through(&mut st, &s, "sweep3");
				r.eval(&gstr(&s), o.mask != 0);
				if o.mask != 0 { r.count("sweep3_accepted"); }
				acc3.add(w, &o, true);
			});
		}
		r.count_n("sweep3_strings", count);
		for c in acc3.cases(&pre, &suf, &alpha3, len3, true) { r.case("sweep3", c); }
	}
	r.exhaustive = true;
	lap(&mut r, "sweep 3 (templates)");

	// 2. generated valid descriptors and mutations
	let n = if ctx.thorough { 4000 } else { 600 };
	for i in 0..n {
		let mut s = match i % 3 { 0 => gen_field(&mut rng), 1 => gen_method(&mut rng), _ => gen_class_name(&mut rng) };
		let stream = match i % 3 { 0 => "gen-field", 1 => "gen-method", _ => "gen-name" };
		let mut st = St { r: &mut r, probe: &probe, emit_cases: true, args: true, full: true };
		let o = through(&mut st, &s, stream);
		r.eval(&gstr(&s), o.mask != 0);
		if i % 3 == 1 && o.mask & (1 << 9) != 0 { args_ignores_return(&mut r, &probe, &mut rng, &s, o.args); }
		for _ in 0..rng.range(1, 2) { mutate(&mut rng, &mut s); }
		let mut st = St { r: &mut r, probe: &probe, emit_cases: true, args: true, full: true };
		let o = through(&mut st, &s, "mutated");
		r.eval(&gstr(&s), o.mask != 0);
		if o.mask == 0 { r.count("mutated_rejected_by_all"); }
	}
	lap(&mut r, "generated and mutated");
	// 3. boundaries: dimensions 254..257, inside field, method and array class names
	for d in [1usize, 2, 254, 255, 256, 257, 300, 512] {
		for tail in ["I", "Ljava/lang/Object;", "La;", "V", "", "L;", "[", "La/;", "D", "J"] {
			let mut s = vec!['[' as u32; d]; s.extend(cps_str(tail));
			let mut st = St { r: &mut r, probe: &probe, emit_cases: true, args: true, full: true };
			let m = through(&mut st, &s, "boundary").mask;
			r.eval(&gstr(&s), m != 0);
			let mut ms = vec!['(' as u32]; ms.extend(&s); ms.extend(cps_str(")V"));
			let mut st = St { r: &mut r, probe: &probe, emit_cases: true, args: true, full: true };
			let m = through(&mut st, &ms, "boundary").mask;
			r.eval(&gstr(&ms), m != 0);
			// the same in return position, alone and behind parameters
			for head in ["()", "(I[J)"] {
				let mut rs = cps_str(head); rs.extend(&s);
				let mut st = St { r: &mut r, probe: &probe, emit_cases: true, args: true, full: true };
				let m = through(&mut st, &rs, "boundary-return").mask;
				r.eval(&gstr(&rs), m != 0);
			}
		}
	}
	// 3b. the 255-slot limit of get_arguments_size: k wide parameters (2 slots each) and j narrow ones, 1 + 2k + j around 255 / 256,
	// the narrow ones as primitives, arrays of wide types and objects; also malformed tails after the limit is crossed
	for wide in [0usize, 1, 120, 126, 127, 128] {
		for narrow in [0usize, 1, 2, 3, 253, 254, 255, 256] {
			let total = 1 + 2 * wide + narrow;
			if !(total <= 6 || (250..=260).contains(&total)) { continue; }
			for (nk, narrow_text) in ["I", "[D", "Ljava/lang/Object;", "[[J"].iter().enumerate() {
				for (wk, wide_text) in ["D", "J"].iter().enumerate() {
					for tail in [")V", ")D", ")", "", ")[", "L"] {
						if (nk + wk) % 2 == 1 && tail != ")V" { continue; }
						let mut s = vec!['(' as u32];
						for _ in 0..wide { s.extend(cps_str(wide_text)); }
						for _ in 0..narrow { s.extend(cps_str(narrow_text)); }
						s.extend(cps_str(tail));
						let mut st = St { r: &mut r, probe: &probe, emit_cases: false, args: true, full: false };
						let o = through(&mut st, &s, "args-boundary");
						r.case("args-boundary", format!("CArgs {} {}", gs(&s), gres(o.args.map(|d| d.to_string()))));
						if tail == ")V" { r.case("args-boundary", format!("CMethod {} {}", gs(&s), gres(impl_method(&jstring(&s)).ok().flatten().as_ref().map(g_method)))); }
						r.eval(&gstr(&s), o.mask != 0 || o.args.is_some());
						r.count(if o.args.is_some() { "args_boundary_ok" } else { "args_boundary_err" });
					}
				}
			}
		}
	}
	// 3c0. from_inner_class exhaustively on all pairs of strings up to length 2 over the second alphabet (oracle only: the result is
	// parent$inner; of two valid object class names it is one; it splits back when the inner name has no `$` and no `/`)
	{
		let mut shorts: Vec<Vec<u32>> = vec![];
		for len in 0..=2 { for_all_strings(&alpha2, len, &mut |s| shorts.push(s.to_vec())); }
		let valid: Vec<bool> = shorts.iter().map(|s| o_name(2, s)).collect();
		for (pi, p) in shorts.iter().enumerate() {
			crumb_input(p);
			for (ii, i) in shorts.iter().enumerate() {
				let (pj, ij) = (jstring(p), jstring(i));
				let joined = guarded(|| {
					let parent = unsafe { ObjClassName::from_inner_unchecked(pj) };
					let inner = unsafe { ObjClassNameSlice::from_inner_unchecked(&ij) };
					cps(ObjClassName::from_inner_class(parent, inner).as_inner())
				});
				let mut want = p.clone(); want.push('$' as u32); want.extend(i);
				r.eval_distinct(valid[pi] && valid[ii]);
				if joined.as_ref() != Ok(&want) { vio(&mut r, format!("from_inner_class({:?}, {:?}) = {:?}, expected parent$inner", show(p), show(i), joined), &want); continue; }
				if valid[pi] && valid[ii] {
					let jj = jstring(&want);
					if impl_name(2, &jj) != Ok(true) { vio(&mut r, format!("from_inner_class of the valid object class names {:?} and {:?} is not a valid ObjClassName", show(p), show(i)), &want); }
					if !i.contains(&('$' as u32)) && !i.contains(&('/' as u32)) && impl_split(&jj) != Ok(Some((p.clone(), i.clone()))) {
						vio(&mut r, format!("split(from_inner_class({:?}, {:?})) does not give the two names back", show(p), show(i)), &want);
					}
				}
			}
		}
		r.count_n("join_pairs_exhaustive", (shorts.len() * shorts.len()) as u64);
	}
	// 3c. from_inner_class on generated pairs: the result is parent$inner, a valid object class name when both are, and splits back
	for _ in 0..(if ctx.thorough { 1500 } else { 300 }) {
		let p = gen_class_name(&mut rng);
		let mut i = gen_class_name(&mut rng);
		if rng.chance(1, 2) { i.retain(|&c| c != '/' as u32); }
		if rng.chance(1, 3) { i.retain(|&c| c != '$' as u32); }
		crumb_input(&p);
		let (pj, ij) = (jstring(&p), jstring(&i));
		let joined = guarded(|| {
			let parent = unsafe { ObjClassName::from_inner_unchecked(pj) };
			let inner = unsafe { ObjClassNameSlice::from_inner_unchecked(&ij) };
			cps(ObjClassName::from_inner_class(parent, inner).as_inner())
		});
		let mut want = p.clone(); want.push('$' as u32); want.extend(&i);
		let both_valid = o_name(2, &p) && o_name(2, &i);
		r.eval(&format!("join {} {}", gstr(&p), gstr(&i)), both_valid);
		match joined {
			Err(e) => vio(&mut r, format!("ObjClassName::from_inner_class panicked: {e}"), &want),
			Ok(j) => {
				if j != want { vio(&mut r, format!("from_inner_class({:?}, {:?}) = {:?}, expected parent$inner", show(&p), show(&i), show(&j)), &want); }
				let jj = jstring(&j);
				if both_valid && impl_name(2, &jj) != Ok(true) { vio(&mut r, format!("from_inner_class of the valid object class names {:?} and {:?} is not a valid ObjClassName", show(&p), show(&i)), &j); }
				if both_valid && !i.contains(&('$' as u32)) && !i.contains(&('/' as u32)) && impl_split(&jj) != Ok(Some((p.clone(), i.clone()))) {
					vio(&mut r, format!("split(from_inner_class({:?}, {:?})) does not give the two names back", show(&p), show(&i)), &j);
				}
				r.case("join", format!("CJoin {} {} {}", gstr(&p), gstr(&i), gstr(&j)));
				r.count(if both_valid { "join_both_valid" } else { "join_some_invalid" });
			}
		}
	}
	lap(&mut r, "boundaries and join");
	// 3d. the writers on type values built directly (names through the unchecked constructors, any u8 dimension)
	for i in 0..(if ctx.thorough { 3000 } else { 600 }) {
		if i % 3 != 0 {
			let t = gen_type_value(&mut rng);
			crumb_input(&cps_str(&format!("{:?}", t)));
			let t2 = t.clone();
			let got = guarded(move || cps(ParsedFieldDescriptor(t2).write().as_inner())).ok();
			let wf = wf_type(&t);
			r.eval(&format!("write {}", g_ty(&t)), wf);
			r.count(if wf { "write_value_wf" } else if got.is_some() { "write_value_illformed_printed" } else { "write_value_illformed_panic" });
			let here = format!("type value {:?}", t);
			match &got {
				None => if !bracket_name(&t) { r.violation(format!("ParsedFieldDescriptor::write panicked on {here}, whose class name does not start with `[`"), format!("property C18\nwhat: write() panicked\ninput: {here}\n")); },
				Some(w) => {
					let back = impl_field(&jstring(w));
					let same = matches!(&back, Ok(Some(p)) if p.0 == t);
					if same != wf { r.violation(format!("parse(write(t)) == t is {same} for the {} {here} (written text {:?})", if wf { "well-formed" } else { "ill-formed" }, show(w)),
						format!("property C18\nwhat: round trip of a type value\ninput: {here}\nwritten: {}\n", show(w))); }
				}
			}
			r.case("write-value", format!("CWriteF {} {}", g_ty(&t), gres(got.map(|w| gs(&w)))));
		} else {
			let m = ParsedMethodDescriptor { parameter_descriptors: (0..rng.below(4)).map(|_| gen_type_value(&mut rng)).collect(),
				return_descriptor: if rng.chance(1, 3) { None } else { Some(gen_type_value(&mut rng)) } };
			crumb_input(&cps_str(&format!("{:?}", m)));
			let m2 = m.clone();
			let got = guarded(move || cps(m2.write().as_inner())).ok();
			let wf = m.parameter_descriptors.iter().all(wf_type) && m.return_descriptor.as_ref().map_or(true, wf_type);
			let any_bracket = m.parameter_descriptors.iter().any(bracket_name) || m.return_descriptor.as_ref().map_or(false, bracket_name);
			r.eval(&format!("write {}", g_method(&m)), wf);
			r.count(if wf { "write_method_wf" } else { "write_method_illformed" });
			let here = format!("method descriptor value {:?}", m);
			match &got {
				None => if !any_bracket { r.violation(format!("ParsedMethodDescriptor::write panicked on {here}, none of whose class names starts with `[`"), format!("property C18\nwhat: write() panicked\ninput: {here}\n")); },
				Some(w) => {
					let back = impl_method(&jstring(w));
					let same = matches!(&back, Ok(Some(p)) if *p == m);
					if same != wf { r.violation(format!("parse(write(m)) == m is {same} for the {} {here} (written text {:?})", if wf { "well-formed" } else { "ill-formed" }, show(w)),
						format!("property C18\nwhat: round trip of a method descriptor value\ninput: {here}\nwritten: {}\n", show(w))); }
				}
			}
			r.case("write-value", format!("CWriteM {} {}", g_method(&m), gres(got.map(|w| gs(&w)))));
		}
	}
	lap(&mut r, "write values");
	// 3e. the constants built with the unchecked constructors are what their SAFETY comments say, and the *NameAndDesc::with_class
	// helpers only move their parts
	{
		use duke::tree::field::FieldNameAndDesc;
		use duke::tree::method::MethodNameAndDesc;
		for (what, got, want, kind) in [("MethodName::INIT", cps(MethodName::INIT.as_inner()), "<init>", 4usize), ("MethodName::CLINIT", cps(MethodName::CLINIT.as_inner()), "<clinit>", 4),
			("ObjClassName::JAVA_LANG_OBJECT", cps(ObjClassName::JAVA_LANG_OBJECT.as_inner()), "java/lang/Object", 2)] {
			r.eval(&format!("const {what}"), true);
			if got != cps_str(want) || impl_name(kind, &jstring(&got)) != Ok(true) { vio(&mut r, format!("the constant {what} is {:?}: expected the valid name {want:?}", show(&got)), &got); }
			let mut st = St { r: &mut r, probe: &probe, emit_cases: true, args: true, full: true };
			through(&mut st, &got, "constants");
		}
		let (c, n, d) = (jstring(&cps_str("a/B")), jstring(&cps_str("f")), jstring(&cps_str("(I)V")));
		let fr = FieldNameAndDesc { name: unsafe { FieldName::from_inner_unchecked(n.clone()) }, desc: unsafe { FieldDescriptor::from_inner_unchecked(jstring(&cps_str("I"))) } }
			.with_class(unsafe { ObjClassName::from_inner_unchecked(c.clone()) });
		let mnd = MethodNameAndDesc { name: unsafe { MethodName::from_inner_unchecked(n.clone()) }, desc: unsafe { MethodDescriptor::from_inner_unchecked(d.clone()) } };
		let mr = mnd.clone().with_class(unsafe { ClassName::from_inner_unchecked(c.clone()) });
		let mo = mnd.with_class_obj(unsafe { ObjClassName::from_inner_unchecked(c.clone()) });
		if fr.class.as_inner() != &*c || fr.name.as_inner() != &*n || fr.desc.as_inner() != "I" || mr.class.as_inner() != &*c || mr.name.as_inner() != &*n || mr.desc.as_inner() != &*d
			|| mo.class.as_inner() != &*c || mo.name.as_inner() != &*n || mo.desc.as_inner() != &*d {
			vio(&mut r, "FieldNameAndDesc::with_class / MethodNameAndDesc::with_class(_obj) do not keep class, name and descriptor".into(), &cps(&c));
		}
	}
	// 4. printing of generated type values (parse(write(t)) == t on the implementation)
	for _ in 0..(if ctx.thorough { 1000 } else { 200 }) {
		let s = gen_field(&mut rng);
		if let Ok(Some(p)) = impl_field(&jstring(&s)) {
			let back = guarded(|| p.write().parse().ok());
			if back != Ok(Some(p.clone())) { vio(&mut r, "parse(write(t)) differs from t".into(), &s); }
		}
	}
	// the template-sweep cases are the heavy ones: spread them evenly over the shards, and keep the shards small
	let (heavy, mut light): (Vec<String>, Vec<String>) = std::mem::take(&mut r.cases).into_iter().partition(|c| c.starts_with("CSweep"));
	let step = light.len() / (heavy.len() + 1) + 1;
	for (k, h) in heavy.into_iter().enumerate() { let at = ((k + 1) * step).min(light.len()); light.insert(at, h); }
	r.cases = light;
	r.shard_size = 350;
	Ok(r)
}

/// "Does not look at the return descriptor": on a valid method descriptor, replacing what follows the closing `)` by anything
/// (another return type, garbage, nothing) leaves get_arguments_size unchanged
fn args_ignores_return(r: &mut Report, probe: &ArgsProbe, rng: &mut Rng, s: &[u32], base: Option<u8>) {
	// the `)` that closes the parameter list is the first one (class names cannot contain `)`... they can: only `.;[/` are excluded),
	// so take the parameter part from the oracle's own parse: re-print prefix by scanning field types
	let mut rest = &s[1..];
	let mut consumed = 1;
	while rest.first() != Some(&(')' as u32)) {
		match o_field_type(rest) { Some((_, r2)) => { consumed += rest.len() - r2.len(); rest = r2; }, None => return }
	}
	let head = &s[..consumed + 1];
	for tail in ["V", "", "D", "J", "[[[", "L", ")", "(", "\u{10400}"] {
		let mut v = head.to_vec(); v.extend(cps_str(tail));
		if rng.chance(1, 2) { continue; }
		crumb_input(&v);
		match probe.args_size(&jstring(&v)) {
			Ok(got) if got == base => {},
			other => vio(r, format!("get_arguments_size = {:?} but {:?} on the same parameters with the return part {:?}: it must not look at the return descriptor", other, base, tail), &v),
		}
	}
}

fn main() -> anyhow::Result<()> { fbh::main_with(run) }
