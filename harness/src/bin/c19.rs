//! probe (temporary)
use std::collections::HashMap;
use std::future::Future;
use anyhow::{Context, Result};
use maven_dependency_resolver::{get_maven_dependencies, Downloader, DependencyScope};
use maven_dependency_resolver::coord::MavenCoord;
use maven_dependency_resolver::maven_pom::MavenPom;
use maven_dependency_resolver::resolver::Resolver;

struct Dl(HashMap<String, String>);
impl Downloader for Dl {
	#[allow(clippy::manual_async_fn)]
	fn get_maven_pom(&self, url: &str) -> impl Future<Output = Result<Option<MavenPom>>> + Send {
		async move { self.0.get(url).map(|xml| serde_xml_rs::from_str(xml).context("maven pom")).transpose() }
	}
}

fn main() -> anyhow::Result<()> {
	let probes = [
		"<project><modelVersion>4.0.0</modelVersion><groupId>g</groupId><artifactId>a</artifactId><version>1</version></project>",
		"<project><modelVersion>4.0.0</modelVersion><groupId>g</groupId><artifactId>a</artifactId><version>1</version><dependencies></dependencies></project>",
		"<project><modelVersion>4.0.0</modelVersion><groupId>g</groupId><artifactId>a</artifactId><version></version><dependencyManagement></dependencyManagement></project>",
		"<project><modelVersion>4.0.0</modelVersion><groupId>g</groupId><artifactId>a</artifactId><version>1</version><dependencyManagement><dependencies></dependencies></dependencyManagement></project>",
		"<project><modelVersion>4.0.0</modelVersion><artifactId>a</artifactId><parent><groupId>g</groupId><artifactId>p</artifactId><version>1</version></parent><packaging>pom</packaging><dependencies><dependency><groupId>g</groupId><artifactId>x</artifactId><optional>true</optional><scope>test</scope><type>test-jar</type><classifier>c</classifier></dependency><dependency><groupId>g</groupId><artifactId>y</artifactId><version> 1 2 </version><optional>false</optional></dependency></dependencies></project>",
		"<project><modelVersion>4.0.0</modelVersion><artifactId>a</artifactId><dependencies><dependency><groupId>g</groupId><artifactId>x</artifactId><scope>import</scope></dependency></dependencies></project>",
		"<project><modelVersion>4.0.0</modelVersion><artifactId>a</artifactId><dependencies><dependency><groupId>g</groupId><artifactId>x</artifactId><optional>yes</optional></dependency></dependencies></project>",
		"<project><modelVersion>4.0.0</modelVersion><artifactId>a</artifactId><name>foo</name><dependencies><dependency><groupId>g</groupId><artifactId>x</artifactId><exclusions><exclusion><groupId>q</groupId></exclusion></exclusions></dependency></dependencies></project>",
		"<project><modelVersion>4.0.0</modelVersion><dependencies><dependency><groupId>g</groupId><artifactId>x</artifactId></dependency></dependencies><artifactId>a</artifactId><dependencies><dependency><groupId>g</groupId><artifactId>y</artifactId></dependency></dependencies></project>",
		"<project><modelVersion>4.0.0</modelVersion><artifactId>a:b @ c</artifactId><groupId>&lt;x&gt;&amp;</groupId></project>",
	];
	for p in probes {
		let r: Result<MavenPom, _> = serde_xml_rs::from_str(p);
		println!("{:?}\n", r);
	}
	// D1
	let mut m = HashMap::new();
	let pom = |g: &str, a: &str, v: &str, rest: &str| format!("<project><modelVersion>4.0.0</modelVersion><groupId>{g}</groupId><artifactId>{a}</artifactId><version>{v}</version>{rest}</project>");
	m.insert("r/g/p/1/p-1.pom".to_string(), pom("g", "p", "1", "<packaging>pom</packaging><dependencyManagement><dependencies><dependency><groupId>g</groupId><artifactId>x</artifactId><version>1</version></dependency></dependencies></dependencyManagement><dependencies><dependency><groupId>g</groupId><artifactId>x</artifactId></dependency></dependencies>"));
	m.insert("r/g/c/1/c-1.pom".to_string(), pom("g", "c", "1", "<parent><groupId>g</groupId><artifactId>p</artifactId><version>1</version></parent><dependencyManagement><dependencies><dependency><groupId>g</groupId><artifactId>x</artifactId><version>2</version></dependency></dependencies></dependencyManagement>"));
	m.insert("r/g/x/1/x-1.pom".to_string(), pom("g", "x", "1", ""));
	m.insert("r/g/x/2/x-2.pom".to_string(), pom("g", "x", "2", ""));
	let dl = Dl(m);
	let resolvers = [Resolver::new("r", "r")];
	let rt = tokio::runtime::Builder::new_current_thread().build()?;
	let deps = [(MavenCoord::from_group_artifact_version("g", "c", "1"), DependencyScope::Compile)];
	let out = rt.block_on(get_maven_dependencies(&dl, &resolvers, &deps));
	match out { Ok(v) => for d in v { println!("{d}"); }, Err(e) => println!("Err {e:?}") }
	Ok(())
}
