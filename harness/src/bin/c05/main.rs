//! C05 — version graph: `VersionGraph::resolve / get / apply_diffs` of /repo/src/version_graph.rs
//! (compiled into this binary from the repository's source file; the binary crate has no library).
//!
//! For every generated directory (graph shape x edit history x file-creation order) the harness
//!  * materialises it in a fresh scratch directory (removed at exit), in several creation orders
//!    and on two file systems, and records the order `read_dir` really lists,
//!  * runs the implementation and observes everything it offers (nodes, depths, root, adjacency,
//!    every lookup, `apply_diffs` of every lookup name),
//!  * runs the property oracle on the implementation alone (reference graph built from the file
//!    names, fold of quill's own read/apply/extend along every shortest path, the history's own
//!    expected mapping set, equality across creation orders, the malformed shapes),
//!  * prints one correspondence case per listing for the Coq model (coq/C05/Run.v).
#![allow(dead_code, unused_imports, deprecated)]
use std::collections::{BTreeMap, BTreeSet, HashMap, VecDeque};
use std::panic::AssertUnwindSafe;
use std::path::{Path, PathBuf};
use fbh::gal::*;
use fbh::mapmodel::*;
use fbh::prng::Rng;
use fbh::report::{guarded, Report};
use fbh::Ctx;
use quill::tree::mappings::Mappings;

// ---- what /repo/src/version_graph.rs imports from its crate root (src/main.rs, src/download/versions_manifest.rs)
pub struct Official;
pub struct Intermediary;
pub struct Named;
pub mod download { pub mod versions_manifest {
	#[derive(Debug, Clone, PartialEq, Hash, Eq)]
	pub(crate) struct MinecraftVersion(pub(crate) String);
} }
mod version_graph { include!(concat!(env!("FBH_REPO"), "/src/version_graph.rs")); }
use version_graph::{Split, VersionGraph};

mod tdiff;

type QM = Mappings<2, (Intermediary, Named)>;

// =====================================================================================
// scratch space
// =====================================================================================
struct Scratch { bases: Vec<PathBuf>, counter: u64 }
impl Scratch {
	fn new(seed: u64) -> anyhow::Result<Scratch> {
		let mut bases = vec![];
		for root in [PathBuf::from("/dev/shm"), std::env::temp_dir()] {
			let p = root.join(format!("fbh-c05-{}-{}", std::process::id(), seed));
			if std::fs::create_dir_all(&p).is_ok() { bases.push(p); }
		}
		if bases.is_empty() { anyhow::bail!("no scratch directory available"); }
		Ok(Scratch { bases, counter: 0 })
	}
	fn fresh(&mut self, which: usize) -> anyhow::Result<PathBuf> {
		self.counter += 1;
		let p = self.bases[which % self.bases.len()].join(format!("d{}", self.counter));
		std::fs::create_dir(&p)?;
		Ok(p)
	}
}
impl Drop for Scratch {
	fn drop(&mut self) { for b in &self.bases { let _ = std::fs::remove_dir_all(b); } }
}

// =====================================================================================
// directories
// =====================================================================================
#[derive(Clone)]
struct FileSpec { name: String, content: String }

/// the history a directory was produced from
struct Hist {
	names: Vec<String>,          // version string per node
	maps: Vec<MMappings>,        // contracted mapping set per node
	good: bool,                  // every map satisfies tdiff::good and every edge file transports its step
	confluent: bool,             // every edge file p#v is the diff H(p) -> H(v)
}
struct DirSpec { kind: &'static str, files: Vec<FileSpec>, hist: Option<Hist>, queries: Vec<String> }

const TINY: &str = ".tiny";
const TINYDIFF: &str = ".tinydiff";

fn keys_of(v: &str) -> Vec<String> { match v.split_once('~') { Some((a, b)) => vec![a.to_owned(), b.to_owned()], None => vec![v.to_owned()] } }

/// reference reading of the file names (independent of the implementation)
#[derive(Default)]
struct RefGraph { versions: Vec<String>, roots: Vec<(String, usize)>, edges: Vec<(String, String, usize)>, bad_name: bool }
impl RefGraph {
	fn of(files: &[FileSpec]) -> RefGraph {
		let mut g = RefGraph::default();
		let mut add = |g: &mut RefGraph, v: &str| if !g.versions.iter().any(|x| x == v) { g.versions.push(v.to_owned()) };
		for (i, f) in files.iter().enumerate() {
			if let Some(v) = f.name.strip_suffix(TINY) { add(&mut g, v); g.roots.push((v.to_owned(), i)); }
			else if let Some(raw) = f.name.strip_suffix(TINYDIFF) {
				match raw.find('#') {
					None => g.bad_name = true,
					Some(p) => { let (a, b) = (&raw[..p], &raw[p + 1..]); add(&mut g, b); add(&mut g, a); g.edges.push((a.to_owned(), b.to_owned(), i)); }
				}
			}
		}
		g
	}
	fn well_formed(&self) -> bool {
		let mut seen: HashMap<String, &String> = HashMap::new();
		for v in &self.versions {
			let ks = keys_of(v);
			if ks.len() == 2 && ks[0] == ks[1] { return false; }
			for k in ks { if let Some(o) = seen.insert(k, v) { if o != v { return false; } } }
		}
		true
	}
	fn succ(&self, v: &str) -> Vec<(&str, usize)> { self.edges.iter().filter(|e| e.0 == v).map(|e| (e.1.as_str(), e.2)).collect() }
	/// a cycle reachable from `root`?
	fn reachable_cycle(&self, root: &str) -> bool {
		fn dfs<'a>(g: &'a RefGraph, v: &'a str, stack: &mut Vec<&'a str>, done: &mut BTreeSet<&'a str>) -> bool {
			if stack.contains(&v) { return true; }
			if done.contains(v) { return false; }
			stack.push(v);
			for (w, _) in g.succ(v) { if dfs(g, w, stack, done) { return true; } }
			stack.pop(); done.insert(v);
			false
		}
		dfs(self, root, &mut vec![], &mut BTreeSet::new())
	}
	fn dist(&self, root: &str) -> HashMap<String, usize> {
		let mut d = HashMap::new(); d.insert(root.to_owned(), 0usize);
		let mut q = VecDeque::from([root.to_owned()]);
		while let Some(v) = q.pop_front() { let dv = d[&v]; for (w, _) in self.succ(&v) { if !d.contains_key(w) { d.insert(w.to_owned(), dv + 1); q.push_back(w.to_owned()); } } }
		d
	}
	/// every shortest path root -> target, as the list of edge files walked
	fn shortest_paths(&self, root: &str, target: &str) -> Vec<Vec<usize>> {
		let d = self.dist(root);
		let Some(&dt) = d.get(target) else { return vec![] };
		let mut out = vec![];
		fn go(g: &RefGraph, d: &HashMap<String, usize>, v: &str, target: &str, dt: usize, acc: &mut Vec<usize>, out: &mut Vec<Vec<usize>>) {
			if v == target { out.push(acc.clone()); return; }
			let dv = d[v];
			if dv >= dt { return; }
			for (w, f) in g.succ(v) { if d.get(w) == Some(&(dv + 1)) { acc.push(f); go(g, d, w, target, dt, acc, out); acc.pop(); } }
		}
		go(self, &d, root, target, dt, &mut vec![], &mut out);
		out
	}
}

// =====================================================================================
// the composed operations, tabulated with quill itself
// =====================================================================================
#[derive(Default)]
struct Tables {
	maps: Vec<MMappings>,                         // id -> canonical mapping set
	ids: HashMap<MMappings, u64>,
	quill: Vec<QM>,                               // id -> the quill value first seen with that canonical form
	tiny: BTreeMap<u64, u64>, contract: BTreeMap<u64, u64>, diff_ok: BTreeSet<u64>,
	apply: BTreeMap<(u64, u64), u64>, extend: BTreeMap<u64, u64>,
	capped: bool,
}
impl Tables {
	fn intern(&mut self, q: &QM) -> u64 {
		let mut desync = vec![];
		let c = from_quill(q, &mut desync).canon();
		if let Some(&i) = self.ids.get(&c) { return i; }
		let i = self.maps.len() as u64;
		self.ids.insert(c.clone(), i); self.maps.push(c); self.quill.push(q.clone());
		i
	}
	fn id_of(&self, m: &MMappings) -> Option<u64> { self.ids.get(&m.canon()).copied() }
	/// contents: distinct file contents (token = index)
	fn build(contents: &[String], store: &Path, max_depth: usize) -> anyhow::Result<Tables> {
		let mut t = Tables::default();
		let mut diffs = vec![];
		let mut start = vec![];
		for (tok, c) in contents.iter().enumerate() {
			let p = store.join(format!("c{tok}"));
			std::fs::write(&p, c)?;
			if let Ok(Ok(q)) = guarded(AssertUnwindSafe(|| quill::tiny_v2::read_file::<2, (Intermediary, Named)>(&p))) {
				let i = t.intern(&q);
				t.tiny.insert(tok as u64, i);
				if let Ok(Ok(cq)) = guarded(AssertUnwindSafe(|| q.contract_inner_class_names("named"))) { let j = t.intern(&cq); t.contract.insert(i, j); start.push(j); }
			}
			if let Ok(Ok(d)) = guarded(AssertUnwindSafe(|| quill::tiny_v2_diff::read_file(&p))) { t.diff_ok.insert(tok as u64); diffs.push((tok as u64, d)); }
		}
		// closure of the contracted roots under every diff, to the depth of the longest possible path
		let mut frontier: Vec<u64> = start.clone(); frontier.sort(); frontier.dedup();
		let mut seen: BTreeSet<u64> = frontier.iter().copied().collect();
		let mut calls = 0usize;
		for _ in 0..max_depth {
			let mut next = vec![];
			for &m in &frontier {
				for (tok, d) in &diffs {
					calls += 1;
					if calls > 4000 { t.capped = true; return Ok(t); }
					let target = t.quill[m as usize].clone();
					if let Ok(Ok(r)) = guarded(AssertUnwindSafe(|| d.apply_to::<2, (Intermediary, Named), (Intermediary, Named)>(target, "named"))) {
						let j = t.intern(&r);
						t.apply.insert((*tok, m), j);
						if seen.insert(j) { next.push(j); }
					}
				}
			}
			if next.is_empty() { break; }
			frontier = next;
		}
		for m in seen {
			let q = t.quill[m as usize].clone();
			if let Ok(Ok(e)) = guarded(AssertUnwindSafe(|| q.extend_inner_class_names("named"))) { let j = t.intern(&e); t.extend.insert(m, j); }
		}
		Ok(t)
	}
	fn gallina(&self) -> String {
		format!("(mkTables {} {} {} {} {})",
			glist(self.tiny.iter().map(|(a, b)| format!("({a},{b})"))),
			glist(self.contract.iter().map(|(a, b)| format!("({a},{b})"))),
			gnums(self.diff_ok.iter().copied()),
			glist(self.apply.iter().map(|((a, b), c)| format!("({a},{b},{c})"))),
			glist(self.extend.iter().map(|(a, b)| format!("({a},{b})"))))
	}
	/// the reference fold: root token, then the edge-file tokens in path order; None = Err
	fn fold(&self, root_tok: u64, path: &[u64]) -> Option<u64> {
		let mut m = *self.contract.get(self.tiny.get(&root_tok)?)?;
		for d in path { if !self.diff_ok.contains(d) { return None; } m = *self.apply.get(&(*d, m))?; }
		self.extend.get(&m).copied()
	}
}

// =====================================================================================
// the implementation, observed
// =====================================================================================
struct Obs {
	nodes: Vec<(String, usize)>, root: usize, rootmap: QM,
	children: Vec<Vec<usize>>, parents: Vec<Vec<usize>>,
	gets: Vec<(String, Option<(u8, usize)>)>,
	applies: Vec<(String, Option<QM>)>,
}
/// Ok(None) = resolve returned an error; Err = a panic
fn observe(dir: &Path, queries: &[String]) -> Result<Option<Obs>, String> {
	guarded(AssertUnwindSafe(|| {
		let Ok(g) = VersionGraph::resolve(dir) else { return None };
		let nodes: Vec<(String, usize)> = g.versions().map(|v| (v.as_str().to_owned(), v.depth())).collect();
		let index = |name: &str| nodes.iter().position(|n| n.0 == name).expect("entry of an unknown node");
		let mut root = usize::MAX; let mut rootmap = None;
		let mut children = vec![]; let mut parents = vec![];
		for v in g.versions() {
			if let Some(m) = g.is_root_then_get_mappings(v) { root = index(v.as_str()); rootmap = Some(m.clone()); }
			children.push(g.children(v).map(|c| index(c.as_str())).collect());
			parents.push(g.parents(v).map(|c| index(c.as_str())).collect());
		}
		let mut gets = vec![]; let mut applies = vec![];
		for q in queries {
			match g.get(q) {
				Err(_) => { gets.push((q.clone(), None)); applies.push((q.clone(), None)); }
				Ok((split, v)) => {
					let code = match split { Split::None => 0, Split::First => 1, Split::Second => 2 };
					gets.push((q.clone(), Some((code, index(v.as_str())))));
					applies.push((q.clone(), g.apply_diffs(v).ok()));
				}
			}
		}
		Some(Obs { nodes, root, rootmap: rootmap.expect("no node is the root"), children, parents, gets, applies })
	}))
}

// =====================================================================================
// generators
// =====================================================================================
fn version_name(rng: &mut Rng, i: usize, tricky: bool) -> String {
	if tricky {
		match rng.below(7) {
			0 => format!("x{i}.tiny"), 1 => format!("v{i}.tinydiff"), 2 => format!("ü{i}"), 3 => format!("a{i}~b{i}~c{i}"),
			4 => format!("{i}~"), 5 => format!("~{i}"), _ => format!("1.{i} pre"),
		}
	} else {
		match rng.below(7) {
			0 | 1 => format!("1.{i}"), 2 => format!("b1.{i}_0{i}"), 3 => format!("1{i}w0{i}a"),
			4 => format!("1.{i}~server-0.{i}"), _ => format!("a1.{i}~s0.{i}"),
		}
	}
}

struct Shape { n: usize, edges: Vec<(usize, usize)>, tree_parent: Vec<Option<usize>>, kind: &'static str }
fn gen_shape(rng: &mut Rng) -> Shape {
	let n = rng.range(1, 7);
	let which = rng.below(10);
	let mut edges = vec![]; let mut tree_parent = vec![None; n];
	for i in 1..n {
		let p = if which < 2 { i - 1 } else { rng.below(i) };
		edges.push((p, i)); tree_parent[i] = Some(p);
	}
	let mut kind = if which < 2 { "chain" } else { "tree" };
	if which >= 6 && n >= 3 {
		// extra forward edges: diamonds and shortcuts
		for _ in 0..rng.range(1, 3) {
			let c = rng.range(2, n - 1); let p = rng.below(c);
			if !edges.contains(&(p, c)) { edges.push((p, c)); kind = "dag"; }
		}
	}
	Shape { n, edges, tree_parent, kind }
}

fn root_text(m: &MMappings) -> Option<String> {
	let q: QM = to_quill(m).ok()?;
	let e = guarded(AssertUnwindSafe(|| q.extend_inner_class_names("named"))).ok()?.ok()?;
	quill::tiny_v2::write_string(&e).ok()
}
fn plain_text(m: &MMappings) -> Option<String> { let q: QM = to_quill(m).ok()?; quill::tiny_v2::write_string(&q).ok() }

/// does the text of an edge file really transport A to B through quill's reader and apply?
fn transports(store: &Path, text: &str, a: &MMappings, b: &MMappings) -> bool {
	let p = store.join("probe");
	if std::fs::write(&p, text).is_err() { return false; }
	let Ok(qa) = to_quill::<2, (Intermediary, Named)>(a) else { return false };
	let Ok(Ok(d)) = guarded(AssertUnwindSafe(|| quill::tiny_v2_diff::read_file(&p))) else { return false };
	let Ok(Ok(r)) = guarded(AssertUnwindSafe(|| d.apply_to::<2, (Intermediary, Named), (Intermediary, Named)>(qa, "named"))) else { return false };
	let mut ds = vec![];
	from_quill(&r, &mut ds).equiv(b)
}

fn gen_dir(rng: &mut Rng, r: &mut Report, store: &Path) -> DirSpec {
	let sel = rng.below(100);
	let shape = gen_shape(rng);
	let n = shape.n;
	let tricky = rng.chance(1, 8);
	let mut names: Vec<String> = vec![];
	for i in 0..n { let t = tricky && rng.chance(1, 2); names.push(version_name(rng, i, t)); }
	// a node that is nobody's parent may carry a `#` in its name (the file name is split at the first `#`)
	for i in 1..n { if tricky && rng.chance(1, 4) && !shape.edges.iter().any(|e| e.0 == i) { names[i] = format!("{}#x", names[i]); } }
	let sloppy = sel >= 90 && sel < 94;
	let mut maps = vec![tdiff::gen_root(rng, sloppy)];
	let mut counts: Vec<String> = vec![];
	for i in 1..n {
		let mut m = maps[shape.tree_parent[i].unwrap()].clone();
		for _ in 0..rng.below(5) { tdiff::edit(rng, &mut m, &mut |k| counts.push(k.to_owned())); }
		maps.push(m);
	}
	for k in counts { r.count(&k); }
	let mut good = maps.iter().all(tdiff::good);
	let mut confluent = true;
	let mut kind = shape.kind;
	let mut files = vec![];
	// root file: the extended form, written by quill
	let root_content = match root_text(&maps[0]) { Some(t) => t, None => { good = false; plain_text(&maps[0]).unwrap_or_else(|| "tiny\t2\t0\tofficial\tnamed\n".into()) } };
	files.push(FileSpec { name: format!("{}{TINY}", names[0]), content: root_content });
	let mut edge_file = |rng: &mut Rng, p: usize, c: usize, target: &MMappings, good: &mut bool, maps: &[MMappings]| -> FileSpec {
		let content = match tdiff::diff(&maps[p], target, rng.chance(1, 4)) {
			Ok(d) => { let t = tdiff::print(&d, rng); if !transports(store, &t, &maps[p], target) { *good = false; r.count("edge-file-does-not-transport"); } t }
			Err(_) => { *good = false; r.count("step-not-expressible"); "tiny\t2\t0\n".into() }
		};
		FileSpec { name: format!("{}#{}{TINYDIFF}", names[p], names[c]), content }
	};
	let nonconfluent = shape.kind == "dag" && rng.chance(1, 3);
	for (k, &(p, c)) in shape.edges.iter().enumerate() {
		let extra = k >= n - 1;
		if extra && nonconfluent {
			// the extra edge leads to a different mapping set than the tree path does
			let mut other = maps[c].clone();
			for _ in 0..rng.range(1, 3) { tdiff::edit(rng, &mut other, &mut |_| {}); }
			if !other.equiv(&maps[c]) { confluent = false; kind = "dag-nonconfluent"; }
			files.push(edge_file(rng, p, c, &other, &mut good, &maps));
		} else {
			let t = maps[c].clone();
			files.push(edge_file(rng, p, c, &t, &mut good, &maps));
		}
	}
	let mut queries: Vec<String> = vec![];
	let mut hist_ok = true;
	// ---- variations
	match sel {
		0..=54 => {}
		55..=59 => { // a version that is not reachable from the root: a parent of the root, or a separate component
			let u = version_name(rng, 20, false); let w = version_name(rng, 21, false);
			let mut mu = maps[0].clone(); tdiff::edit(rng, &mut mu, &mut |_| {});
			let to = if rng.chance(1, 2) { names[rng.below(n)].clone() } else { w.clone() };
			let content = tdiff::diff(&mu, &maps[0], false).map(|d| tdiff::print(&d, rng)).unwrap_or_else(|_| "tiny\t2\t0\n".into());
			files.push(FileSpec { name: format!("{u}#{to}{TINYDIFF}"), content });
			kind = "unreachable"; hist_ok = false;
		}
		60..=64 => { files.remove(0); kind = "no-root"; hist_ok = false; }
		65..=69 => { // a second root
			let v = if rng.chance(1, 2) && n > 1 { names[rng.range(1, n - 1)].clone() } else { version_name(rng, 30, false) };
			files.push(FileSpec { name: format!("{v}{TINY}"), content: files[0].content.clone() });
			kind = "two-roots"; hist_ok = false;
		}
		70..=77 => { // a cycle: back edge to an ancestor (reachable), a self loop, or a cycle off the root's component
			let style = rng.below(4);
			let empty = "tiny\t2\t0\n".to_owned();
			if style == 0 { let i = rng.below(n); files.push(FileSpec { name: format!("{0}#{0}{TINYDIFF}", names[i]), content: empty }); kind = "cycle-self"; }
			else if style == 1 && n >= 2 {
				let i = rng.range(1, n - 1); let mut a = i; let hops = rng.below(3); for _ in 0..hops { if let Some(p) = shape.tree_parent[a] { a = p; } }
				if a == i { a = shape.tree_parent[i].unwrap(); }
				files.push(FileSpec { name: format!("{}#{}{TINYDIFF}", names[i], names[a]), content: empty }); kind = "cycle-back";
			} else if style == 2 {
				let u = version_name(rng, 40, false); let w = version_name(rng, 41, false);
				files.push(FileSpec { name: format!("{u}#{w}{TINYDIFF}"), content: empty.clone() });
				files.push(FileSpec { name: format!("{w}#{u}{TINYDIFF}"), content: empty }); kind = "cycle-unreachable";
			} else { let i = rng.below(n); files.push(FileSpec { name: format!("{}#{}{TINYDIFF}", names[i], names[0]), content: empty }); kind = "cycle-through-root"; }
			hist_ok = false;
		}
		78..=80 => { files.push(FileSpec { name: format!("{}{TINYDIFF}", version_name(rng, 50, false)), content: "tiny\t2\t0\n".into() }); kind = "diff-name-without-hash"; hist_ok = false; }
		81..=84 => { // unreadable contents
			match rng.below(3) {
				0 => { files[0].content = "this is not a tiny file\n".into(); kind = "root-garbage"; }
				1 => { files[0].content = "tiny\t2\t0\tofficial\tintermediary\nc\ta\tb\n".into(); kind = "root-without-named-namespace"; }
				_ => { if files.len() > 1 { let i = rng.range(1, files.len() - 1); files[i].content = "tiny\t2\t0\nc\n".into(); kind = "diff-garbage"; } }
			}
			hist_ok = false;
		}
		85..=89 => { // lookup-name collisions: outside well_formed, correspondence only
			let i = rng.below(n);
			let ks = keys_of(&names[i]);
			let k = rng.pick(&ks[..]).clone();
			let other = match rng.below(4) { 0 => format!("{k}~zz"), 1 => format!("zz~{k}"), 2 => k.clone(), _ => format!("{k}~{k}") };
			let p = names[rng.below(n)].clone();
			if rng.chance(1, 2) { files.push(FileSpec { name: format!("{p}#{other}{TINYDIFF}"), content: "tiny\t2\t0\n".into() }); }
			else { files.push(FileSpec { name: format!("{other}#{p}{TINYDIFF}"), content: "tiny\t2\t0\n".into() }); }
			kind = "collision"; hist_ok = false;
		}
		90..=93 => { kind = "sloppy-history"; }
		_ => { // files the scanner ignores
			for nm in ["README.md", "x.tiny.bak", "notes.txt", ".tinydif"] { if rng.chance(1, 2) { files.push(FileSpec { name: nm.into(), content: "ignored".into() }); } }
			kind = "ignored-files";
		}
	}
	for v in &names { queries.extend(keys_of(v)); queries.push(v.clone()); }
	for f in &files { let g = RefGraph::of(std::slice::from_ref(f)); for v in g.versions { queries.extend(keys_of(&v)); } }
	queries.push("unknown".into()); queries.push(String::new()); queries.push("1.0~".into());
	queries.sort(); queries.dedup();
	// a directory cannot hold two files of the same name
	let mut uniq: Vec<FileSpec> = vec![];
	for f in files { if !uniq.iter().any(|g| g.name == f.name) { uniq.push(f); } }
	let files = uniq;
	let hist = if hist_ok { Some(Hist { names, maps, good, confluent }) } else { None };
	DirSpec { kind, files, hist, queries }
}

// =====================================================================================
// one directory through everything
// =====================================================================================
/// what must not depend on the creation order
#[derive(PartialEq, Debug)]
struct Summary {
	ok: bool, nodes: BTreeMap<String, usize>, root: String, edges: Vec<(String, String)>,
	gets: Vec<(String, Option<(u8, String)>)>, answers: Vec<(String, Option<u64>)>,
	/// every version has exactly one candidate answer (all shortest paths fold to the same result)
	deterministic: bool,
}

fn replay_text(spec: &DirSpec, order: &[usize], listing: &[String], what: &str) -> String {
	let mut s = format!("property C05\nwhat: {what}\nkind: {}\nfiles created in this order (name, then content):\n", spec.kind);
	for &i in order { s.push_str(&format!("--- {:?}\n{}", spec.files[i].name, spec.files[i].content)); if !spec.files[i].content.ends_with('\n') { s.push('\n'); } }
	s.push_str(&format!("--- listing order seen by read_dir: {:?}\n", listing));
	s
}

fn materialise(dir: &Path, spec: &DirSpec, order: &[usize], rename: bool, rng: &mut Rng) -> anyhow::Result<Vec<String>> {
	if rename {
		// create under temporary names, then rename in another order (a rename re-inserts the entry)
		for &i in order { std::fs::write(dir.join(format!("tmp{i}")), &spec.files[i].content)?; }
		let mut o2 = order.to_vec(); rng.shuffle(&mut o2);
		for &i in &o2 { std::fs::rename(dir.join(format!("tmp{i}")), dir.join(&spec.files[i].name))?; }
	} else {
		for &i in order { std::fs::write(dir.join(&spec.files[i].name), &spec.files[i].content)?; }
	}
	let mut listing = vec![];
	for e in std::fs::read_dir(dir)? { listing.push(e?.file_name().into_string().map_err(|_| anyhow::anyhow!("file name"))?); }
	Ok(listing)
}

fn through(spec: &DirSpec, scratch: &mut Scratch, rng: &mut Rng, r: &mut Report, orders: usize, inst: bool) -> anyhow::Result<()> {
	// distinct contents -> tokens; tables by quill
	let mut contents: Vec<String> = vec![];
	let tok = |contents: &mut Vec<String>, c: &String| -> u64 { match contents.iter().position(|x| x == c) { Some(i) => i as u64, None => { contents.push(c.clone()); (contents.len() - 1) as u64 } } };
	let toks: Vec<u64> = spec.files.iter().map(|f| tok(&mut contents, &f.content)).collect();
	let store = scratch.fresh(0)?;
	let ndiff = spec.files.iter().filter(|f| f.name.ends_with(TINYDIFF)).count();
	let mut tables = Tables::build(&contents, &store, ndiff + 1)?;
	std::fs::remove_dir_all(&store)?;
	if tables.capped { r.count("skipped:apply-closure-too-large"); return Ok(()); }

	let refg = RefGraph::of(&spec.files);
	let wf = refg.well_formed();
	r.count(&format!("kind:{}", spec.kind));
	r.count(if wf { "well-formed" } else { "not-well-formed" });
	r.count(&format!("nodes:{}", refg.versions.len()));

	let mut summaries: Vec<(Summary, Vec<usize>, Vec<String>)> = vec![];
	let mut seen_listings: BTreeSet<Vec<String>> = BTreeSet::new();
	for k in 0..orders {
		let mut order: Vec<usize> = (0..spec.files.len()).collect();
		if k > 0 { rng.shuffle(&mut order); }
		let dir = scratch.fresh(if k == orders - 1 { 1 } else { 0 })?;
		let listing = materialise(&dir, spec, &order, k == 2, rng)?;
		let obs = observe(&dir, &spec.queries);
		std::fs::remove_dir_all(&dir)?;
		if !seen_listings.insert(listing.clone()) { r.count("listing-order-repeated"); continue; }
		r.count("listing-order-distinct");
		let vio = |r: &mut Report, what: String| { let t = replay_text(spec, &order, &listing, &what); r.violation(what, t); };
		let obs = match obs { Err(p) => { vio(r, format!("VersionGraph panicked: {p}")); continue; } Ok(o) => o };

		// ---- correspondence case
		let by_name = |n: &String| spec.files.iter().position(|f| &f.name == n).expect("listed file");
		let mut strs: Vec<String> = vec![];
		let mut sid = |x: &str| -> usize { match strs.iter().position(|y| y == x) { Some(i) => i, None => { strs.push(x.to_owned()); strs.len() - 1 } } };
		let d = glist(listing.iter().map(|n| format!("({},{})", sid(n), toks[by_name(n)])));
		// ---- the instantiated model (coq/C05/Instance.v) on the real contents, first listing of selected directories
		if inst && k == 0 {
			let total: usize = spec.files.iter().map(|f| f.content.chars().count() + f.name.chars().count()).sum();
			if total <= 6000 {
				let d = glist(listing.iter().map(|n| format!("({},{})", gstr(&cps_str(n)), gstr(&cps_str(&spec.files[by_name(n)].content)))));
				let ans = obs.as_ref().map(|o| glist(o.applies.iter().map(|(q, a)| format!("({},{})", gstr(&cps_str(q)),
					gres(a.as_ref().map(|m| { let mut ds = vec![]; g_mappings(&from_quill(m, &mut ds)) }))))));
				r.case("instantiated", format!("CInst {} {}", d, gres(ans)));
				r.count(&format!("instantiated:kind:{}", spec.kind));
				r.count(if obs.is_some() { "instantiated:resolve:ok" } else { "instantiated:resolve:err" });
				if let Some(o) = &obs { r.count_n("instantiated:answers", o.applies.iter().filter(|(_, a)| a.is_some()).count() as u64); }
			} else { r.count("instantiated:skipped-too-large"); }
		}
		let view = obs.as_ref().map(|o| {
			let rootmap = tables.intern(&o.rootmap);
			let applies: Vec<(String, Option<u64>)> = o.applies.iter().map(|(q, a)| (q.clone(), a.as_ref().map(|m| tables.intern(m)))).collect();
			let ll = |v: &Vec<Vec<usize>>| glist(v.iter().map(|l| gnums(l.iter().map(|&x| x as u64))));
			format!("(mkView {} {} {} {} {} {} {})",
				glist(o.nodes.iter().map(|(n, dep)| format!("({},{})", sid(n), dep))),
				o.root, rootmap, ll(&o.children), ll(&o.parents),
				glist(o.gets.iter().map(|(q, g)| format!("({},{})", sid(q), gopt(g.map(|(s, i)| format!("({s},{i})")))))),
				glist(applies.iter().map(|(q, a)| format!("({},{})", sid(q), gres(a.map(|x| x.to_string()))))))
		});
		// the tables may have grown by interning answers; they are printed after the view is built
		let case = format!("CDir {} {} {} {} {}", glist(strs.iter().map(|x| gstr(&cps_str(x)))), d, gbool(wf), tables.gallina(), gres(view));
		let nontrivial = obs.as_ref().map_or(false, |o| o.nodes.len() >= 2);
		r.eval(&format!("{:?}|{:?}", listing, toks), nontrivial);
		r.case(spec.kind, case);
		r.count(if obs.is_some() { "resolve:ok" } else { "resolve:err" });

		// ---- property oracle (well-formed directories)
		if !wf { continue; }
		let root_tok = refg.roots.first().map(|(_, i)| toks[*i]);
		let root_loads = root_tok.map_or(false, |t| tables.tiny.get(&t).and_then(|i| tables.contract.get(i)).is_some());
		let expect_err = refg.roots.len() != 1 || refg.bad_name || !root_loads || refg.reachable_cycle(&refg.roots[0].0);
		let Some(o) = obs else {
			if !expect_err { vio(r, "resolve returned an error for a directory with exactly one readable root, well-formed names and no cycle reachable from the root".into()); }
			r.count("oracle:malformed-is-error");
			summaries.push((Summary { ok: false, nodes: BTreeMap::new(), root: String::new(), edges: vec![], gets: vec![], answers: vec![], deterministic: true }, order, listing));
			continue;
		};
		if expect_err {
			let why = if refg.roots.is_empty() { "no root" } else if refg.roots.len() > 1 { "two roots" } else if refg.bad_name { "a .tinydiff name without #" } else if !root_loads { "an unreadable root file" } else { "a cycle reachable from the root" };
			vio(r, format!("resolve succeeded on a malformed directory ({why})"));
			continue;
		}
		let rootname = &refg.roots[0].0;
		// nodes = versions; root; depths = distance from the root (0 when unreachable)
		let mut names: Vec<&String> = o.nodes.iter().map(|n| &n.0).collect(); names.sort();
		let mut want: Vec<&String> = refg.versions.iter().collect(); want.sort();
		if names != want { vio(r, format!("nodes {:?} differ from the versions named by the files {:?}", names, want)); }
		if &o.nodes[o.root].0 != rootname { vio(r, format!("root is {:?}, the .tiny file names {:?}", o.nodes[o.root].0, rootname)); }
		let dist = refg.dist(rootname);
		for (nm, dep) in &o.nodes { let w = dist.get(nm).copied().unwrap_or(0); if *dep != w { vio(r, format!("depth of {nm:?} is {dep}, its distance from the root is {w}")); } }
		// adjacency
		let mut got_edges: Vec<(String, String)> = vec![];
		for (i, ch) in o.children.iter().enumerate() { for &c in ch { got_edges.push((o.nodes[i].0.clone(), o.nodes[c].0.clone())); } }
		got_edges.sort();
		let mut want_edges: Vec<(String, String)> = refg.edges.iter().map(|e| (e.0.clone(), e.1.clone())).collect(); want_edges.sort();
		if got_edges != want_edges { vio(r, format!("edges {:?} differ from the .tinydiff file names {:?}", got_edges, want_edges)); }
		// lookups: every plain version under its name, every a~b under either half, nothing else
		let mut gets_named = vec![];
		for (q, g) in &o.gets {
			let want: Option<(u8, &String)> = refg.versions.iter().find_map(|v| match v.split_once('~') {
				None => if v == q { Some((0u8, v)) } else { None },
				Some((a, b)) => if a == q { Some((1, v)) } else if b == q { Some((2, v)) } else { None },
			});
			let got = g.map(|(s, i)| (s, &o.nodes[i].0));
			if got != want { vio(r, format!("get({q:?}) = {:?}, expected {:?}", got, want)); }
			gets_named.push((q.clone(), got.map(|(s, n)| (s, n.clone()))));
		}
		r.count("oracle:lookup");
		// apply_diffs: one of the folds along a shortest path; the history's own mapping set
		let mut answers = vec![];
		let mut deterministic = true;
		for ((q, a), (_, g)) in o.applies.iter().zip(o.gets.iter()) {
			let Some((_, i)) = g else { continue };
			let v = &o.nodes[*i].0;
			let paths = refg.shortest_paths(rootname, v);
			let got: Option<u64> = a.as_ref().map(|m| tables.intern(m));
			answers.push((q.clone(), got));
			if paths.is_empty() {
				if got.is_some() { vio(r, format!("apply_diffs({q:?}) answered for version {v:?}, which is not reachable from the root")); }
				r.count("oracle:unreachable-is-error");
				continue;
			}
			let cands: Vec<Option<u64>> = paths.iter().map(|p| tables.fold(root_tok.unwrap(), &p.iter().map(|&f| toks[f]).collect::<Vec<_>>())).collect();
			if cands.iter().any(|c| c != &cands[0]) { deterministic = false; }
			if !cands.contains(&got) { vio(r, format!("apply_diffs({q:?}) (version {v:?}) is not the fold of the diffs along any of the {} shortest paths from the root", paths.len())); }
			r.count(if paths.len() > 1 { "oracle:fold-membership-multipath" } else { "oracle:fold-single-path" });
			if let Some(h) = &spec.hist {
				if h.good && h.confluent {
					let hv = &h.maps[h.names.iter().position(|x| x == v).expect("version of the history")];
					let want = tdiff::ref_extend(hv);
					let same = match (&want, a) { (Some(w), Some(m)) => { let mut ds = vec![]; from_quill(m, &mut ds).equiv(w) } (None, None) => true, _ => false };
					if !same { vio(r, format!("apply_diffs({q:?}) differs from the inner-class-extended mapping set the history has for version {v:?}")); }
					r.count("oracle:history-sound");
				}
			}
		}
		let mut nodes = BTreeMap::new(); for (nm, dep) in &o.nodes { nodes.insert(nm.clone(), *dep); }
		summaries.push((Summary { ok: true, nodes, root: rootname.clone(), edges: got_edges, gets: gets_named, answers, deterministic }, order, listing));
	}
	// ---- listing-order independence
	if wf && summaries.len() >= 2 {
		let confluent = summaries.iter().all(|s| s.0.deterministic);
		for k in 1..summaries.len() {
			let (a, b) = (&summaries[0].0, &summaries[k].0);
			let same = a.ok == b.ok && a.nodes == b.nodes && a.root == b.root && a.edges == b.edges && a.gets == b.gets && (!confluent || a.answers == b.answers);
			if !same {
				let what = format!("the result depends on the listing order: {:?} versus {:?}", summaries[0].2, summaries[k].2);
				let t = replay_text(spec, &summaries[k].1, &summaries[k].2, &what); r.violation(what, t);
			}
			r.count(if confluent { "oracle:order-independent-with-answers" } else { "oracle:order-independent-graph" });
		}
	}
	Ok(())
}

/// the repository's own fixture, through the same machinery
fn fixture(repo: &Path) -> anyhow::Result<DirSpec> {
	let dir = repo.join("tests/version-graph/graph");
	let mut files = vec![];
	for e in std::fs::read_dir(&dir)? { let e = e?; files.push(FileSpec { name: e.file_name().into_string().unwrap(), content: std::fs::read_to_string(e.path())? }); }
	files.sort_by(|a, b| a.name.cmp(&b.name));
	let mut queries = vec![];
	for v in RefGraph::of(&files).versions { queries.extend(keys_of(&v)); queries.push(v); }
	queries.push("unknown".into()); queries.sort(); queries.dedup();
	Ok(DirSpec { kind: "repo-fixture", files, hist: None, queries })
}

fn parse_replay(text: &str) -> DirSpec {
	let mut files: Vec<FileSpec> = vec![];
	let mut cur: Option<FileSpec> = None;
	for line in text.split_inclusive('\n') {
		if let Some(rest) = line.strip_prefix("--- ") {
			if let Some(f) = cur.take() { files.push(f); }
			let rest = rest.trim_end();
			if rest.starts_with('"') && rest.ends_with('"') && rest.len() >= 2 {
				let name = rest[1..rest.len() - 1].replace("\\\"", "\"").replace("\\\\", "\\");
				cur = Some(FileSpec { name, content: String::new() });
			}
		} else if line.starts_with("reproduce: ") { break; }
		else if let Some(f) = cur.as_mut() { f.content.push_str(line); }
	}
	if let Some(f) = cur.take() { files.push(f); }
	let mut uniq: Vec<FileSpec> = vec![];
	for f in files { if !uniq.iter().any(|g| g.name == f.name) { uniq.push(f); } }
	let mut queries = vec![];
	for v in RefGraph::of(&uniq).versions { queries.extend(keys_of(&v)); queries.push(v); }
	queries.push("unknown".into()); queries.sort(); queries.dedup();
	DirSpec { kind: "replay", files: uniq, hist: None, queries }
}

pub fn run(ctx: &Ctx) -> anyhow::Result<Report> {
	let mut r = Report::new("C05", "C05.Run");
	r.shard_size = 220;
	let mut rng = Rng::new(ctx.seed);
	let mut scratch = Scratch::new(ctx.seed)?;
	let repo = PathBuf::from(std::env::var("VERIF_REPO").unwrap_or_else(|_| "/repo".into()));
	r.rule = "directories = rooted version graphs (chains, trees, DAGs with diamonds and shortcuts, confluent and non-confluent; plain and client~server names, tricky names) x edit histories on mapping sets (renames, additions, removals, comment edits at class/field/method/parameter level; edge files printed by the harness' own .tinydiff printer, root file written by quill) x file-creation orders (3-4 per directory: as generated, shuffled, shuffled with renames, and one on a second file system), plus the malformed shapes (no root, two roots, reachable/unreachable cycles, unreachable versions, unknown names, bad file names, unreadable contents) and lookup-name collisions. One correspondence case per distinct listing order actually observed through read_dir. Non-trivial = resolve succeeds with at least two nodes; distinct by (listing order, contents). Stream `instantiated`: every 12th (quick) / 20th (thorough) directory and the repository's fixture additionally as a CInst case — the real file contents as code points, evaluated by the INSTANTIATED model (C03 read, C11 contract/extend, C04 .tinydiff read/apply composed exactly as resolve/apply_diffs do) and compared with resolve's Ok/Err and with apply_diffs of every lookup name up to map order.".into();
	r.notes.push(format!("scratch directories: {:?} (removed at exit)", scratch.bases));
	if let Some(path) = &ctx.replay {
		// a replay file written by an earlier run: the files between the `--- "name"` markers
		let spec = parse_replay(&std::fs::read_to_string(path)?);
		r.notes.push(format!("replay of {:?}: {} files", path, spec.files.len()));
		through(&spec, &mut scratch, &mut rng, &mut r, 4, true)?;
		return Ok(r);
	}
	let fx = fixture(&repo)?;
	through(&fx, &mut scratch, &mut rng, &mut r, 4, true)?;
	let n = if ctx.thorough { 8000 } else { 1000 };
	// every `every`-th directory additionally goes through the instantiated model (whole file contents in the case)
	let every = if ctx.thorough { 20 } else { 12 };
	for i in 0..n {
		let store = scratch.fresh(0)?;
		let spec = gen_dir(&mut rng, &mut r, &store);
		std::fs::remove_dir_all(&store)?;
		through(&spec, &mut scratch, &mut rng, &mut r, 4, i % every == 0)?;
	}
	Ok(r)
}

fn main() -> anyhow::Result<()> { fbh::main_with(run) }
