//! C05 — version graph (skeleton)
#![allow(dead_code, unused_imports, deprecated)]
use fbh::Ctx;
use fbh::report::Report;

pub struct Official;
pub struct Intermediary;
pub struct Named;
pub mod download { pub mod versions_manifest {
	#[derive(Debug, Clone, PartialEq, Hash, Eq)]
	pub(crate) struct MinecraftVersion(pub(crate) String);
} }

mod version_graph { include!(concat!(env!("FBH_REPO"), "/src/version_graph.rs")); }

fn run(_ctx: &Ctx) -> anyhow::Result<Report> {
	let g = version_graph::VersionGraph::resolve("/repo/tests/version-graph/graph")?;
	for v in g.versions() { eprintln!("{} {}", v.as_str(), v.depth()); }
	Ok(Report::new("C05", "C05.Run"))
}
fn main() -> anyhow::Result<()> { fbh::main_with(run) }
