//! C05 — version graph: `VersionGraph::resolve / get / apply_diffs` of /repo/src/version_graph.rs
//! (compiled into this binary from the repository's source file; the binary crate has no library).
//!
//! For every generated directory (graph shape x edit history x file-creation order) the harness
//!  * materialises it in a fresh scratch directory (removed at exit), in several creation orders
//!    and on two file systems, and records the order `read_dir` really lists,
//!  * runs the implementation and observes everything it offers (nodes, depths, root, adjacency,
//!    every lookup, `apply_diffs` of every lookup name),
//!  * runs the property oracle on the implementation alone (reference graph built from the file
//!    names, fold of quill's own read/apply/extend along every shortest path, the history's own
//!    expected mapping set, equality across creation orders, the malformed shapes),
//!  * prints one correspondence case per listing for the Coq model (coq/C05/Run.v).
#![allow(dead_code, unused_imports, deprecated)]
use std::collections::{BTreeMap, BTreeSet, HashMap, VecDeque};
use std::panic::AssertUnwindSafe;
use std::path::{Path, PathBuf};
use fbh::gal::*;
use fbh::mapmodel::*;
use fbh::prng::Rng;
use fbh::report::{crumb, guarded, Report};
use fbh::Ctx;
use quill::tree::mappings::Mappings;

// ---- what /repo/src/version_graph.rs imports from its crate root (src/main.rs, src/download/versions_manifest.rs)
pub struct Official;
pub struct Intermediary;
pub struct Named;
pub mod download { pub mod versions_manifest {
	#[derive(Debug, Clone, PartialEq, Hash, Eq)]
	pub(crate) struct MinecraftVersion(pub(crate) String);
} }
mod version_graph { include!(concat!(env!("FBH_REPO"), "/src/version_graph.rs")); }
use version_graph::{map_shortcut, Split, VersionGraph};

mod tdiff;

type QM = Mappings<2, (Intermediary, Named)>;

// =====================================================================================
// scratch space
// =====================================================================================
struct Scratch { bases: Vec<PathBuf>, counter: u64 }
impl Scratch {
	fn new(seed: u64) -> anyhow::Result<Scratch> {
		let mut bases = vec![];
		for root in [PathBuf::from("/dev/shm"), std::env::temp_dir()] {
			let p = root.join(format!("fbh-c05-{}-{}", std::process::id(), seed));
			if std::fs::create_dir_all(&p).is_ok() { bases.push(p); }
		}
		if bases.is_empty() { anyhow::bail!("no scratch directory available"); }
		Ok(Scratch { bases, counter: 0 })
	}
	fn fresh(&mut self, which: usize) -> anyhow::Result<PathBuf> {
		self.counter += 1;
		let p = self.bases[which % self.bases.len()].join(format!("d{}", self.counter));
		std::fs::create_dir(&p)?;
		Ok(p)
	}
}
impl Drop for Scratch {
	fn drop(&mut self) { for b in &self.bases { let _ = std::fs::remove_dir_all(b); } }
}

// =====================================================================================
// directories
// =====================================================================================
#[derive(Clone)]
struct FileSpec { name: String, content: String }

/// the history a directory was produced from
struct Hist {
	names: Vec<String>,          // version string per node
	maps: Vec<MMappings>,        // contracted mapping set per node
	good: bool,                  // every map satisfies tdiff::good and every edge file transports its step
	confluent: bool,             // every edge file p#v is the diff H(p) -> H(v)
}
struct DirSpec { kind: &'static str, files: Vec<FileSpec>, hist: Option<Hist>, queries: Vec<String> }

const TINY: &str = ".tiny";
const TINYDIFF: &str = ".tinydiff";

fn keys_of(v: &str) -> Vec<String> { match v.split_once('~') { Some((a, b)) => vec![a.to_owned(), b.to_owned()], None => vec![v.to_owned()] } }

/// reference reading of the file names (independent of the implementation)
#[derive(Default)]
struct RefGraph { versions: Vec<String>, roots: Vec<(String, usize)>, edges: Vec<(String, String, usize)>, bad_name: bool }
impl RefGraph {
	fn of(files: &[FileSpec]) -> RefGraph {
		let mut g = RefGraph::default();
		let mut add = |g: &mut RefGraph, v: &str| if !g.versions.iter().any(|x| x == v) { g.versions.push(v.to_owned()) };
		for (i, f) in files.iter().enumerate() {
			if let Some(v) = f.name.strip_suffix(TINY) { add(&mut g, v); g.roots.push((v.to_owned(), i)); }
			else if let Some(raw) = f.name.strip_suffix(TINYDIFF) {
				match raw.find('#') {
					None => g.bad_name = true,
					Some(p) => { let (a, b) = (&raw[..p], &raw[p + 1..]); add(&mut g, b); add(&mut g, a); g.edges.push((a.to_owned(), b.to_owned(), i)); }
				}
			}
		}
		g
	}
	fn well_formed(&self) -> bool {
		let mut seen: HashMap<String, &String> = HashMap::new();
		for v in &self.versions {
			let ks = keys_of(v);
			if ks.len() == 2 && ks[0] == ks[1] { return false; }
			for k in ks { if let Some(o) = seen.insert(k, v) { if o != v { return false; } } }
		}
		true
	}
	fn succ(&self, v: &str) -> Vec<(&str, usize)> { self.edges.iter().filter(|e| e.0 == v).map(|e| (e.1.as_str(), e.2)).collect() }
	/// a cycle reachable from `root`?
	fn reachable_cycle(&self, root: &str) -> bool {
		fn dfs<'a>(g: &'a RefGraph, v: &'a str, stack: &mut Vec<&'a str>, done: &mut BTreeSet<&'a str>) -> bool {
			if stack.contains(&v) { return true; }
			if done.contains(v) { return false; }
			stack.push(v);
			for (w, _) in g.succ(v) { if dfs(g, w, stack, done) { return true; } }
			stack.pop(); done.insert(v);
			false
		}
		dfs(self, root, &mut vec![], &mut BTreeSet::new())
	}
	fn dist(&self, root: &str) -> HashMap<String, usize> {
		let mut d = HashMap::new(); d.insert(root.to_owned(), 0usize);
		let mut q = VecDeque::from([root.to_owned()]);
		while let Some(v) = q.pop_front() { let dv = d[&v]; for (w, _) in self.succ(&v) { if !d.contains_key(w) { d.insert(w.to_owned(), dv + 1); q.push_back(w.to_owned()); } } }
		d
	}
	/// every shortest path root -> target, as the list of edge files walked
	fn shortest_paths(&self, root: &str, target: &str) -> Vec<Vec<usize>> {
		let d = self.dist(root);
		let Some(&dt) = d.get(target) else { return vec![] };
		let mut out = vec![];
		fn go(g: &RefGraph, d: &HashMap<String, usize>, v: &str, target: &str, dt: usize, acc: &mut Vec<usize>, out: &mut Vec<Vec<usize>>) {
			if v == target { out.push(acc.clone()); return; }
			let dv = d[v];
			if dv >= dt { return; }
			for (w, f) in g.succ(v) { if d.get(w) == Some(&(dv + 1)) { acc.push(f); go(g, d, w, target, dt, acc, out); acc.pop(); } }
		}
		go(self, &d, root, target, dt, &mut vec![], &mut out);
		out
	}
}

// =====================================================================================
// the composed operations, tabulated with quill itself
// =====================================================================================
#[derive(Default)]
struct Tables {
	maps: Vec<MMappings>,                         // id -> canonical mapping set
	ids: HashMap<MMappings, u64>,
	quill: Vec<QM>,                               // id -> the quill value first seen with that canonical form
	tiny: BTreeMap<u64, u64>, contract: BTreeMap<u64, u64>, diff_ok: BTreeSet<u64>,
	apply: BTreeMap<(u64, u64), u64>, extend: BTreeMap<u64, u64>,
	/// content token -> the diff it parses to (Debug text; equal texts = equal diffs, IndexMap order included)
	diff_dbg: BTreeMap<u64, String>,
	capped: bool,
}
impl Tables {
	fn intern(&mut self, q: &QM) -> u64 {
		let mut desync = vec![];
		let c = from_quill(q, &mut desync).canon();
		if let Some(&i) = self.ids.get(&c) { return i; }
		let i = self.maps.len() as u64;
		self.ids.insert(c.clone(), i); self.maps.push(c); self.quill.push(q.clone());
		i
	}
	fn id_of(&self, m: &MMappings) -> Option<u64> { self.ids.get(&m.canon()).copied() }
	/// contents: distinct file contents (token = index)
	fn build(contents: &[String], store: &Path, max_depth: usize) -> anyhow::Result<Tables> {
		let mut t = Tables::default();
		let mut diffs = vec![];
		let mut start = vec![];
		for (tok, c) in contents.iter().enumerate() {
			let p = store.join(format!("c{tok}"));
			std::fs::write(&p, c)?;
			if let Ok(Ok(q)) = guarded(AssertUnwindSafe(|| quill::tiny_v2::read_file::<2, (Intermediary, Named)>(&p))) {
				let i = t.intern(&q);
				t.tiny.insert(tok as u64, i);
				if let Ok(Ok(cq)) = guarded(AssertUnwindSafe(|| q.contract_inner_class_names("named"))) { let j = t.intern(&cq); t.contract.insert(i, j); start.push(j); }
			}
			if let Ok(Ok(d)) = guarded(AssertUnwindSafe(|| quill::tiny_v2_diff::read_file(&p))) { t.diff_ok.insert(tok as u64); t.diff_dbg.insert(tok as u64, format!("{d:?}")); diffs.push((tok as u64, d)); }
		}
		// closure of the contracted roots under every diff, to the depth of the longest possible path
		let mut frontier: Vec<u64> = start.clone(); frontier.sort(); frontier.dedup();
		let mut seen: BTreeSet<u64> = frontier.iter().copied().collect();
		let mut calls = 0usize;
		for _ in 0..max_depth {
			let mut next = vec![];
			for &m in &frontier {
				for (tok, d) in &diffs {
					calls += 1;
					if calls > 4000 { t.capped = true; return Ok(t); }
					let target = t.quill[m as usize].clone();
					if let Ok(Ok(r)) = guarded(AssertUnwindSafe(|| d.apply_to::<2, (Intermediary, Named), (Intermediary, Named)>(target, "named"))) {
						let j = t.intern(&r);
						t.apply.insert((*tok, m), j);
						if seen.insert(j) { next.push(j); }
					}
				}
			}
			if next.is_empty() { break; }
			frontier = next;
		}
		for m in seen {
			let q = t.quill[m as usize].clone();
			if let Ok(Ok(e)) = guarded(AssertUnwindSafe(|| q.extend_inner_class_names("named"))) { let j = t.intern(&e); t.extend.insert(m, j); }
		}
		Ok(t)
	}
	fn gallina(&self) -> String {
		format!("(mkTables {} {} {} {} {})",
			glist(self.tiny.iter().map(|(a, b)| format!("({a},{b})"))),
			glist(self.contract.iter().map(|(a, b)| format!("({a},{b})"))),
			gnums(self.diff_ok.iter().copied()),
			glist(self.apply.iter().map(|((a, b), c)| format!("({a},{b},{c})"))),
			glist(self.extend.iter().map(|(a, b)| format!("({a},{b})"))))
	}
	/// the reference fold: root token, then the edge-file tokens in path order; None = Err
	fn fold(&self, root_tok: u64, path: &[u64]) -> Option<u64> {
		let mut m = *self.contract.get(self.tiny.get(&root_tok)?)?;
		for d in path { if !self.diff_ok.contains(d) { return None; } m = *self.apply.get(&(*d, m))?; }
		self.extend.get(&m).copied()
	}
}

// =====================================================================================
// the implementation, observed
// =====================================================================================
struct Obs {
	nodes: Vec<(String, usize)>, root: usize, rootmap: QM,
	children: Vec<Vec<usize>>, parents: Vec<Vec<usize>>,
	gets: Vec<(String, Option<(u8, usize)>)>,
	applies: Vec<(String, Option<QM>)>,
	/// get_all(names) -> the answers in order, None = Err
	getalls: Vec<(Vec<String>, Option<Vec<(u8, usize)>>)>,
	/// get_diff(parent, node) for every pair of nodes: Err(()) = error, Ok(None) = no edge, Ok(Some(debug text of the diff))
	getdiffs: Vec<(usize, usize, Result<Option<String>, ()>)>,
	/// the small accessors around VersionEntry judged on the spot (text = what is wrong)
	api_issues: Vec<String>,
}
/// Ok(None) = resolve returned an error; Err = a panic
fn observe(dir: &Path, queries: &[String]) -> Result<Option<Obs>, String> {
	guarded(AssertUnwindSafe(|| {
		let Ok(g) = VersionGraph::resolve(dir) else { return None };
		let nodes: Vec<(String, usize)> = g.versions().map(|v| (v.as_str().to_owned(), v.depth())).collect();
		let index = |name: &str| nodes.iter().position(|n| n.0 == name).expect("entry of an unknown node");
		let mut root = usize::MAX; let mut rootmap = None;
		let mut children = vec![]; let mut parents = vec![];
		for v in g.versions() {
			if let Some(m) = g.is_root_then_get_mappings(v) { root = index(v.as_str()); rootmap = Some(m.clone()); }
			children.push(g.children(v).map(|c| index(c.as_str())).collect());
			parents.push(g.parents(v).map(|c| index(c.as_str())).collect());
		}
		let mut gets = vec![]; let mut applies = vec![];
		for q in queries {
			match g.get(q) {
				Err(_) => { gets.push((q.clone(), None)); applies.push((q.clone(), None)); }
				Ok((split, v)) => {
					let code = match split { Split::None => 0, Split::First => 1, Split::Second => 2 };
					gets.push((q.clone(), Some((code, index(v.as_str())))));
					applies.push((q.clone(), g.apply_diffs(v).ok()));
				}
			}
		}
		// ---- get_all: the empty list, every known name at once, every adjacent pair of queries
		let code = |split: Split| -> u8 { match split { Split::None => 0, Split::First => 1, Split::Second => 2 } };
		let mut lists: Vec<Vec<String>> = vec![vec![], gets.iter().filter(|g| g.1.is_some()).map(|g| g.0.clone()).collect()];
		for w in queries.windows(2).take(8) { lists.push(w.to_vec()); }
		if let Some(q) = queries.first() { lists.push(vec![q.clone(), q.clone()]); }
		let getalls = lists.into_iter().map(|l| { let a = g.get_all(l.iter()).ok().map(|v| v.into_iter().map(|(s, e)| (code(s), index(e.as_str()))).collect()); (l, a) }).collect();
		// ---- get_diff of every pair of nodes
		let entries: Vec<_> = g.versions().collect();
		let mut getdiffs = vec![];
		for (a, ea) in entries.iter().enumerate() { for (b, eb) in entries.iter().enumerate() {
			getdiffs.push((a, b, match g.get_diff(*ea, *eb) { Err(_) => Err(()), Ok(None) => Ok(None), Ok(Some(d)) => Ok(Some(format!("{d:?}"))) }));
		} }
		// ---- the small accessors: equality and hash go by the version string, owned copies, name suffixes, dot output
		let mut api_issues = vec![];
		let hash_of = |e: &version_graph::VersionEntry<'_>| { use std::hash::{Hash, Hasher}; let mut h = std::collections::hash_map::DefaultHasher::new(); e.hash(&mut h); h.finish() };
		for (a, ea) in entries.iter().enumerate() {
			for (b, eb) in entries.iter().enumerate() {
				if (ea == eb) != (a == b) { api_issues.push(format!("VersionEntry == of nodes {a} and {b} is {}", ea == eb)); }
				if a == b && hash_of(ea) != hash_of(eb) { api_issues.push(format!("VersionEntry hash of node {a} differs from itself")); }
			}
			let owned = ea.make_owned();
			let back = owned.make_borrowed();
			if back != *ea || back.as_str() != ea.as_str() || back.depth() != ea.depth() || hash_of(&back) != hash_of(ea) { api_issues.push(format!("make_owned/make_borrowed changes node {a}")); }
			let name = ea.as_str();
			let (want_v, want_e) = if let Some(w) = name.strip_suffix("-client") { (w, version_graph::Environment::Client) }
				else if let Some(w) = name.strip_suffix("-server") { (w, version_graph::Environment::Server) } else { (name, version_graph::Environment::Merged) };
			if ea.get_environment() != want_e { api_issues.push(format!("get_environment of {name:?} is {:?}", ea.get_environment())); }
			if !(download::versions_manifest::MinecraftVersion(want_v.to_owned()) == ea.get_minecraft_version()) { api_issues.push(format!("get_minecraft_version of {name:?} is {:?}", ea.get_minecraft_version())); }
			if download::versions_manifest::MinecraftVersion(format!("{want_v}x")) == ea.get_minecraft_version() { api_issues.push(format!("get_minecraft_version of {name:?} equals a different version")); }
		}
		let mut dot = vec![];
		match g.write_as_dot(&mut dot) {
			Err(_) => api_issues.push("write_as_dot failed".into()),
			Ok(()) => { let t = String::from_utf8_lossy(&dot); if t.matches(" -> ").count() != children.iter().map(|c: &Vec<usize>| c.len()).sum::<usize>() { api_issues.push("write_as_dot does not list one arrow per edge".into()); } }
		}
		g.write();
		for q in queries { let l = map_shortcut(q); if map_shortcut(l) != l { api_issues.push(format!("map_shortcut is not idempotent on {q:?}")); } }
		Some(Obs { nodes, root, rootmap: rootmap.expect("no node is the root"), children, parents, gets, applies, getalls, getdiffs, api_issues })
	}))
}

// =====================================================================================
// generators
// =====================================================================================
fn version_name(rng: &mut Rng, i: usize, tricky: bool) -> String {
	if tricky {
		match rng.below(10) {
			0 => format!("x{i}.tiny"), 1 => format!("v{i}.tinydiff"), 2 => format!("ü{i}"), 3 => format!("a{i}~b{i}~c{i}"),
			4 => format!("{i}~"), 5 => format!("~{i}"), 6 => format!("\u{1F600}{i}\u{10400}"), 7 => format!("1.{i}\u{2003}pre\u{0660}"),
			8 => format!("{i}.tiny~s{i}.tinydiff"), _ => format!("1.{i} pre"),
		}
	} else {
		match rng.below(7) {
			0 => format!("1.{i}"), 1 => match rng.below(4) { 0 => format!("b1.{i}-client"), 1 => format!("b1.{i}-server"), _ => format!("1.{i}") },
			2 => format!("b1.{i}_0{i}"), 3 => format!("1{i}w0{i}a"),
			4 => format!("1.{i}~server-0.{i}"), _ => format!("a1.{i}~s0.{i}"),
		}
	}
}

struct Shape { n: usize, edges: Vec<(usize, usize)>, tree_parent: Vec<Option<usize>>, kind: &'static str }
fn gen_shape(rng: &mut Rng) -> Shape {
	let n = if rng.chance(1, 12) { rng.range(8, 10) } else { rng.range(1, 7) };
	let which = rng.below(10);
	let mut edges = vec![]; let mut tree_parent = vec![None; n];
	for i in 1..n {
		let p = if which < 2 { i - 1 } else { rng.below(i) };
		edges.push((p, i)); tree_parent[i] = Some(p);
	}
	let mut kind = if which < 2 { "chain" } else { "tree" };
	if which >= 6 && n >= 3 {
		// extra forward edges: diamonds and shortcuts
		for _ in 0..rng.range(1, 3) {
			let c = rng.range(2, n - 1); let p = rng.below(c);
			if !edges.contains(&(p, c)) { edges.push((p, c)); kind = "dag"; }
		}
	}
	Shape { n, edges, tree_parent, kind }
}

fn root_text(m: &MMappings) -> Option<String> {
	let q: QM = to_quill(m).ok()?;
	let e = guarded(AssertUnwindSafe(|| q.extend_inner_class_names("named"))).ok()?.ok()?;
	quill::tiny_v2::write_string(&e).ok()
}
fn plain_text(m: &MMappings) -> Option<String> { let q: QM = to_quill(m).ok()?; quill::tiny_v2::write_string(&q).ok() }

/// does the text of an edge file really transport A to B through quill's reader and apply?
fn transports(store: &Path, text: &str, a: &MMappings, b: &MMappings) -> bool {
	let p = store.join("probe");
	if std::fs::write(&p, text).is_err() { return false; }
	let Ok(qa) = to_quill::<2, (Intermediary, Named)>(a) else { return false };
	let Ok(Ok(d)) = guarded(AssertUnwindSafe(|| quill::tiny_v2_diff::read_file(&p))) else { return false };
	let Ok(Ok(r)) = guarded(AssertUnwindSafe(|| d.apply_to::<2, (Intermediary, Named), (Intermediary, Named)>(qa, "named"))) else { return false };
	let mut ds = vec![];
	from_quill(&r, &mut ds).equiv(b)
}

/// Names that are NOT lookup names but lie next to one: every string that is not a plain version name or one half of an
/// `a~b` name has to be refused by `get` (and by `get_all`), however close it is — a key with a `~`/`#` suffix or prefix,
/// two halves of different versions glued together, the halves swapped, a whole `a~b` name, a proper prefix or suffix
/// of a key, another letter case, a trailing blank or combining mark, a key with a file extension, whole file names.
/// (Whether a generated string happens to be a key after all is decided by the reference reader, not here.)
fn near_miss_queries(rng: &mut Rng, base: &[String], files: &[FileSpec]) -> Vec<String> {
	let refg = RefGraph::of(files);
	let mut keys: Vec<String> = refg.versions.iter().flat_map(|v| keys_of(v)).collect();
	keys.sort(); keys.dedup();
	let mut out: Vec<String> = vec![];
	if keys.is_empty() { return out; }
	let split: Vec<(String, String)> = refg.versions.iter().filter_map(|v| v.split_once('~').map(|(a, b)| (a.to_owned(), b.to_owned()))).collect();
	for _ in 0..6 {
		let k = rng.pick(&keys[..]).clone();
		let o = rng.pick(&keys[..]).clone();
		let cs: Vec<char> = k.chars().collect();
		match rng.below(14) {
			0 => out.push(format!("{k}~{o}")),
			1 => out.push(format!("{k}~x")),
			2 => { out.push(format!("{k}~")); out.push(format!("~{k}")); }
			3 => { out.push(format!("{k}#{o}")); out.push(format!("{k}#")); out.push(format!("#{k}")); }
			4 => if cs.len() >= 1 { out.push(cs[..cs.len() - 1].iter().collect()); out.push(cs[1..].iter().collect()); },
			5 => out.push(format!("{k}{}", rng.pick(&[" ", "0", "\u{0301}", "\t", "\n", "\u{2003}", "-client", "-server"][..]))),
			6 => { let f: String = k.chars().map(|c| if c.is_lowercase() { c.to_uppercase().next().unwrap_or(c) } else { c.to_lowercase().next().unwrap_or(c) }).collect(); out.push(f); }
			7 => { out.push(format!("{k}{TINY}")); out.push(format!("{k}{TINYDIFF}")); }
			8 => if split.len() >= 1 { let (a, b) = rng.pick(&split[..]).clone(); let (a2, b2) = rng.pick(&split[..]).clone();
				out.push(format!("{a}~{b2}")); out.push(format!("{a2}~{b}")); out.push(format!("{b}~{a}")); out.push(format!("{a}~{b}~")); out.push(format!("{a}~{b} ")); },
			9 => if split.len() >= 1 { let (a, b) = rng.pick(&split[..]).clone(); out.push(format!("{a}~{b}")); out.push(format!("{a}~{k}")); out.push(format!("{k}~{b}")); out.push(format!("{a}{b}")); },
			10 => { let f = rng.pick(files); out.push(f.name.clone()); if let Some(x) = f.name.strip_suffix(TINYDIFF) { out.push(x.to_owned()); } }
			11 => out.push(format!(" {k}")),
			12 => if cs.len() >= 2 { let i = rng.below(cs.len() - 1); let mut d = cs.clone(); d.swap(i, i + 1); out.push(d.iter().collect()); },
			_ => out.push(format!("{k}{k}")),
		}
	}
	out.retain(|q| !base.contains(q));
	out
}

fn gen_dir(rng: &mut Rng, r: &mut Report, store: &Path) -> DirSpec {
	let sel = rng.below(108);
	let shape = gen_shape(rng);
	let n = shape.n;
	let tricky = rng.chance(1, 8);
	let mut names: Vec<String> = vec![];
	for i in 0..n { let t = tricky && rng.chance(1, 2); names.push(version_name(rng, i, t)); }
	// a node that is nobody's parent may carry a `#` in its name (the file name is split at the first `#`)
	for i in 1..n { if tricky && rng.chance(1, 4) && !shape.edges.iter().any(|e| e.0 == i) { names[i] = format!("{}#x", names[i]); } }
	let sloppy = sel >= 90 && sel < 94;
	let mut maps = vec![tdiff::gen_root(rng, sloppy)];
	let mut counts: Vec<String> = vec![];
	for i in 1..n {
		let mut m = maps[shape.tree_parent[i].unwrap()].clone();
		for _ in 0..rng.below(5) { tdiff::edit(rng, &mut m, &mut |k| counts.push(k.to_owned())); }
		// every fourth step additionally edits many things inside ONE class at once (its name, its comment, members, parameters)
		if rng.chance(1, 4) { tdiff::edit_burst(rng, &mut m, &mut |k| counts.push(k.to_owned())); }
		maps.push(m);
	}
	for k in counts { r.count(&k); }
	let mut good = tdiff::good(&maps[0]) && maps[1..].iter().all(tdiff::good_step);
	let mut confluent = true;
	let mut kind = shape.kind;
	let mut files = vec![];
	// root file: the extended form, written by quill
	let root_content = match root_text(&maps[0]) { Some(t) => t, None => { good = false; plain_text(&maps[0]).unwrap_or_else(|| "tiny\t2\t0\tofficial\tnamed\n".into()) } };
	files.push(FileSpec { name: format!("{}{TINY}", names[0]), content: root_content });
	let mut edge_file = |rng: &mut Rng, p: usize, c: usize, target: &MMappings, good: &mut bool, maps: &[MMappings]| -> FileSpec {
		let content = match tdiff::diff(&maps[p], target, rng.chance(1, 4)) {
			// (whether quill's own reader/apply carry this file from H(p) to H(v) is only counted: what apply_diffs
			// has to answer is decided by the history alone, see `history-sound` in `through`)
			Ok(d) => { let t = tdiff::print(&d, rng); if !transports(store, &t, &maps[p], target) { r.count("edge-file-does-not-transport"); } t }
			Err(_) => { *good = false; r.count("step-not-expressible"); "tiny\t2\t0\n".into() }
		};
		FileSpec { name: format!("{}#{}{TINYDIFF}", names[p], names[c]), content }
	};
	let nonconfluent = shape.kind == "dag" && rng.chance(1, 3);
	for (k, &(p, c)) in shape.edges.iter().enumerate() {
		let extra = k >= n - 1;
		if extra && nonconfluent {
			// the extra edge leads to a different mapping set than the tree path does
			let mut other = maps[c].clone();
			for _ in 0..rng.range(1, 3) { tdiff::edit(rng, &mut other, &mut |_| {}); }
			if !other.equiv(&maps[c]) { confluent = false; kind = "dag-nonconfluent"; }
			files.push(edge_file(rng, p, c, &other, &mut good, &maps));
		} else {
			let t = maps[c].clone();
			files.push(edge_file(rng, p, c, &t, &mut good, &maps));
		}
	}
	let mut queries: Vec<String> = vec![];
	let mut hist_ok = true;
	// ---- variations
	match sel {
		0..=54 => {}
		55..=59 => { // a version that is not reachable from the root: a parent of the root, or a separate component
			let u = version_name(rng, 20, false); let w = version_name(rng, 21, false);
			let mut mu = maps[0].clone(); tdiff::edit(rng, &mut mu, &mut |_| {});
			let to = if rng.chance(1, 2) { names[rng.below(n)].clone() } else { w.clone() };
			let content = tdiff::diff(&mu, &maps[0], false).map(|d| tdiff::print(&d, rng)).unwrap_or_else(|_| "tiny\t2\t0\n".into());
			files.push(FileSpec { name: format!("{u}#{to}{TINYDIFF}"), content });
			kind = "unreachable"; hist_ok = false;
		}
		60..=64 => { files.remove(0); kind = "no-root"; hist_ok = false; }
		65..=69 => { // a second root
			// the second root is another version, a fresh version, or — a third of the time — a SECOND FILE FOR THE ROOT'S OWN
			// NODE (a version is identified by the part before `~`: `1.4.tiny` beside `1.4~server-0.4.tiny`, or two `1.4~…`
			// files): still two roots, and with different contents so that "the last one wins" would show
			let same_node = rng.chance(1, 3);
			let v = if same_node {
				let client = names[0].split('~').next().unwrap_or(&names[0]).to_owned();
				let cand = if names[0].contains('~') && rng.chance(1, 2) { client.clone() } else { format!("{client}~server-{}.{}", rng.below(9), rng.below(9)) };
				if cand == names[0] { format!("{client}~other") } else { cand }
			} else if rng.chance(1, 2) && n > 1 { names[rng.range(1, n - 1)].clone() } else { version_name(rng, 30, false) };
			let content = if same_node { let mut m2 = maps[0].clone(); tdiff::edit(rng, &mut m2, &mut |_| {}); root_text(&m2).or_else(|| plain_text(&m2)).unwrap_or_else(|| files[0].content.clone()) } else { files[0].content.clone() };
			files.push(FileSpec { name: format!("{v}{TINY}"), content });
			kind = "two-roots"; hist_ok = false;
		}
		70..=77 | 100..=103 => { // a cycle: back edge to an ancestor (reachable), a self loop, or a cycle off the root's component
			let style = rng.below(7);
			let empty = "tiny\t2\t0\n".to_owned();
			if style == 0 { let i = rng.below(n); files.push(FileSpec { name: format!("{0}#{0}{TINYDIFF}", names[i]), content: empty }); kind = "cycle-self"; }
			else if style == 1 && n >= 2 {
				let i = rng.range(1, n - 1); let mut a = i; let hops = rng.below(3); for _ in 0..hops { if let Some(p) = shape.tree_parent[a] { a = p; } }
				if a == i { a = shape.tree_parent[i].unwrap(); }
				files.push(FileSpec { name: format!("{}#{}{TINYDIFF}", names[i], names[a]), content: empty }); kind = "cycle-back";
			} else if style == 2 {
				let u = version_name(rng, 40, false); let w = version_name(rng, 41, false);
				files.push(FileSpec { name: format!("{u}#{w}{TINYDIFF}"), content: empty.clone() });
				files.push(FileSpec { name: format!("{w}#{u}{TINYDIFF}"), content: empty }); kind = "cycle-unreachable";
			} else if style == 3 { let i = rng.below(n); files.push(FileSpec { name: format!("{}#{}{TINYDIFF}", names[i], names[0]), content: empty }); kind = "cycle-through-root"; }
			else if style == 4 && n >= 3 {
				// a cycle among 2 or 3 arbitrary versions (siblings, cousins, ...): entered from outside at several of its members
				let k = if n >= 4 && rng.chance(1, 2) { 3 } else { 2 };
				let mut pool: Vec<usize> = (1..n).collect(); rng.shuffle(&mut pool); pool.truncate(k);
				for j in 0..k { let (a, b) = (pool[j], pool[(j + 1) % k]); files.push(FileSpec { name: format!("{}#{}{TINYDIFF}", names[a], names[b]), content: empty.clone() }); }
				kind = "cycle-among-any";
			} else {
				// extra edges between arbitrary versions, in any direction: may or may not close a cycle (the reference decides)
				for _ in 0..rng.range(1, 4) { let (a, b) = (rng.below(n), rng.below(n)); files.push(FileSpec { name: format!("{}#{}{TINYDIFF}", names[a], names[b]), content: empty.clone() }); }
				kind = "random-extra-edges";
			}
			hist_ok = false;
		}
		78..=80 => { files.push(FileSpec { name: format!("{}{TINYDIFF}", version_name(rng, 50, false)), content: "tiny\t2\t0\n".into() }); kind = "diff-name-without-hash"; hist_ok = false; }
		81..=84 => { // unreadable contents
			match rng.below(4) {
				3 => { files[0].content = "tiny\t2\t0\tnamed\tofficial\nc\ta\tb\nc\ta$x\tb$y\n".into(); kind = "root-named-namespace-first"; }
				0 => { files[0].content = "this is not a tiny file\n".into(); kind = "root-garbage"; }
				1 => { files[0].content = "tiny\t2\t0\tofficial\tintermediary\nc\ta\tb\n".into(); kind = "root-without-named-namespace"; }
				_ => { if files.len() > 1 { let i = rng.range(1, files.len() - 1); files[i].content = "tiny\t2\t0\nc\n".into(); kind = "diff-garbage"; } }
			}
			hist_ok = false;
		}
		85..=89 => { // lookup-name collisions: outside well_formed, correspondence only
			let i = rng.below(n);
			let ks = keys_of(&names[i]);
			let k = rng.pick(&ks[..]).clone();
			let other = match rng.below(4) { 0 => format!("{k}~zz"), 1 => format!("zz~{k}"), 2 => k.clone(), _ => format!("{k}~{k}") };
			let p = names[rng.below(n)].clone();
			if rng.chance(1, 2) { files.push(FileSpec { name: format!("{p}#{other}{TINYDIFF}"), content: "tiny\t2\t0\n".into() }); }
			else { files.push(FileSpec { name: format!("{other}#{p}{TINYDIFF}"), content: "tiny\t2\t0\n".into() }); }
			kind = "collision"; hist_ok = false;
		}
		90..=93 => { kind = "sloppy-history"; }
		104..=107 => { // one file's text is disturbed: lines with unknown tags at every nesting level (the readers skip them), a second
			// comment line, a parameter line with a source name, stray indentation, empty lines
			let fi = rng.below(files.len());
			let mut lines: Vec<String> = files[fi].content.split_inclusive('\n').map(|l| l.to_owned()).collect();
			let indent = |l: &str| l.chars().take_while(|&c| c == '\t').count();
			let what = rng.below(7);
			match what {
				0 | 1 => { for _ in 0..rng.range(1, 4) { let at = rng.range(1, lines.len()); let base = if at > 0 { indent(&lines[at - 1]) } else { 0 }; let k = match rng.below(4) { 0 => base, 1 | 2 => base + 1, _ => base.saturating_sub(1) };
					lines.insert(at, format!("{}{}\tjunk\tmore\n", "\t".repeat(k), rng.pick(&["x", "v", "#", "cc", "q"][..]))); } }
				6 => { let cs: Vec<usize> = (0..lines.len()).filter(|&i| lines[i].trim_start_matches('\t').starts_with("c\t") && indent(&lines[i]) >= 1).collect();
					if cs.is_empty() { lines.push("\tx\ty\n".into()); } else { let i = *rng.pick(&cs[..]); let l = lines[i].clone(); lines.insert(i, l); } }
				2 => { let ps: Vec<usize> = (0..lines.len()).filter(|&i| lines[i].starts_with("\t\tp\t")).collect();
					if ps.is_empty() { lines.push("c\tzz\n".into()); lines.push("\tm\t()V\tzz\n".into()); lines.push("\t\tp\t1\tsrc\t\tdst\n".into()); }
					else { let i = *rng.pick(&ps[..]); let mut cells: Vec<String> = lines[i].trim_end_matches('\n').split('\t').map(|c| c.to_owned()).collect(); if cells.len() > 4 { cells[4] = "src".into(); } else { cells.push("src".into()); } lines[i] = format!("{}\n", cells.join("\t")); } }
				3 => { lines.insert(1.min(lines.len()), "\tx\ty\n".into()); }
				4 => { lines.push("\t\t\t\tdeep\n".into()); }
				_ => { let at = rng.range(1, lines.len()); lines.insert(at, "\n".into()); }
			}
			files[fi].content = lines.concat();
			kind = "mutated-text"; hist_ok = false;
		}
		_ => { // files the scanner ignores
			for nm in ["README.md", "x.tiny.bak", "notes.txt", ".tinydif"] { if rng.chance(1, 2) { files.push(FileSpec { name: nm.into(), content: "ignored".into() }); } }
			kind = "ignored-files";
		}
	}
	for v in &names { queries.extend(keys_of(v)); queries.push(v.clone()); }
	for f in &files { let g = RefGraph::of(std::slice::from_ref(f)); for v in g.versions { queries.extend(keys_of(&v)); } }
	queries.push("unknown".into()); queries.push(String::new()); queries.push("1.0~".into());
	queries.sort(); queries.dedup();
	let near = near_miss_queries(rng, &queries, &files);
	queries.extend(near);
	queries.sort(); queries.dedup();
	// a directory cannot hold two files of the same name
	let mut uniq: Vec<FileSpec> = vec![];
	for f in files { if !uniq.iter().any(|g| g.name == f.name) { uniq.push(f); } }
	let files = uniq;
	let hist = if hist_ok { Some(Hist { names, maps, good, confluent }) } else { None };
	DirSpec { kind, files, hist, queries }
}

// =====================================================================================
// one directory through everything
// =====================================================================================
/// what must not depend on the creation order
#[derive(PartialEq, Debug)]
struct Summary {
	ok: bool, nodes: BTreeMap<String, usize>, root: String, edges: Vec<(String, String)>,
	gets: Vec<(String, Option<(u8, String)>)>, answers: Vec<(String, Option<u64>)>,
	/// every version has exactly one candidate answer (all shortest paths fold to the same result)
	deterministic: bool,
}

fn replay_text(spec: &DirSpec, order: &[usize], listing: &[String], what: &str) -> String {
	let mut s = format!("property C05\nwhat: {what}\nkind: {}\nfiles created in this order (name, then content):\n", spec.kind);
	for &i in order { s.push_str(&format!("--- {:?}\n{}", spec.files[i].name, spec.files[i].content)); if !spec.files[i].content.ends_with('\n') { s.push('\n'); } }
	s.push_str(&format!("--- listing order seen by read_dir: {:?}\n", listing));
	s
}

fn materialise(dir: &Path, spec: &DirSpec, order: &[usize], rename: bool, rng: &mut Rng) -> anyhow::Result<Vec<String>> {
	if rename {
		// create under temporary names, then rename in another order (a rename re-inserts the entry)
		for &i in order { std::fs::write(dir.join(format!("tmp{i}")), &spec.files[i].content)?; }
		let mut o2 = order.to_vec(); rng.shuffle(&mut o2);
		for &i in &o2 { std::fs::rename(dir.join(format!("tmp{i}")), dir.join(&spec.files[i].name))?; }
	} else {
		for &i in order { std::fs::write(dir.join(&spec.files[i].name), &spec.files[i].content)?; }
	}
	let mut listing = vec![];
	for e in std::fs::read_dir(dir)? { listing.push(e?.file_name().into_string().map_err(|_| anyhow::anyhow!("file name"))?); }
	Ok(listing)
}

fn through(spec: &DirSpec, scratch: &mut Scratch, rng: &mut Rng, r: &mut Report, orders: usize, inst: bool) -> anyhow::Result<()> {
	// distinct contents -> tokens; tables by quill
	let mut contents: Vec<String> = vec![];
	let tok = |contents: &mut Vec<String>, c: &String| -> u64 { match contents.iter().position(|x| x == c) { Some(i) => i as u64, None => { contents.push(c.clone()); (contents.len() - 1) as u64 } } };
	let toks: Vec<u64> = spec.files.iter().map(|f| tok(&mut contents, &f.content)).collect();
	let store = scratch.fresh(0)?;
	let ndiff = spec.files.iter().filter(|f| f.name.ends_with(TINYDIFF)).count();
	// quill's reader / contract / apply / extend recurse over the nesting of the texts and over inner-class chains
	{ let natural: Vec<usize> = (0..spec.files.len()).collect();
	  crumb(&replay_text(spec, &natural, &[], "the harness process died (stack overflow, abort or time-out) while quill read, contracted, applied or extended the contents of these files")); }
	let mut tables = Tables::build(&contents, &store, ndiff + 1)?;
	std::fs::remove_dir_all(&store)?;
	if tables.capped { r.count("skipped:apply-closure-too-large"); return Ok(()); }

	let refg = RefGraph::of(&spec.files);
	let wf = refg.well_formed();
	r.count(&format!("kind:{}", spec.kind));
	r.count(if wf { "well-formed" } else { "not-well-formed" });
	r.count(&format!("nodes:{}", refg.versions.len()));

	let mut summaries: Vec<(Summary, Vec<usize>, Vec<String>)> = vec![];
	let mut digests: Option<(Option<String>, Vec<String>)> = None;
	let mut seen_listings: BTreeSet<Vec<String>> = BTreeSet::new();
	for k in 0..orders {
		let mut order: Vec<usize> = (0..spec.files.len()).collect();
		if k > 0 { rng.shuffle(&mut order); }
		let dir = scratch.fresh(if k == orders - 1 { 1 } else { 0 })?;
		let listing = materialise(&dir, spec, &order, k == 2, rng)?;
		// resolve walks a user-supplied graph (one walker per path from the root) and apply_diffs searches it: if
		// the process dies in there, this text is the failing input
		crumb(&replay_text(spec, &order, &listing, "the harness process died (stack overflow, abort or time-out) inside VersionGraph::resolve / get / apply_diffs on this directory"));
		let obs = observe(&dir, &spec.queries);
		std::fs::remove_dir_all(&dir)?;
		if !seen_listings.insert(listing.clone()) { r.count("listing-order-repeated"); continue; }
		r.count("listing-order-distinct");
		let vio = |r: &mut Report, what: String| { let t = replay_text(spec, &order, &listing, &what); r.violation(what, t); };
		let obs = match obs { Err(p) => { vio(r, format!("VersionGraph panicked: {p}")); continue; } Ok(o) => o };

		// ---- correspondence case
		let by_name = |n: &String| spec.files.iter().position(|f| &f.name == n).expect("listed file");
		let mut strs: Vec<String> = vec![];
		let mut sid = |x: &str| -> usize { match strs.iter().position(|y| y == x) { Some(i) => i, None => { strs.push(x.to_owned()); strs.len() - 1 } } };
		let d = glist(listing.iter().map(|n| format!("({},{})", sid(n), toks[by_name(n)])));
		// ---- the instantiated model (coq/C05/Instance.v) on the real contents, first listing of selected directories
		if inst && k == 0 {
			let total: usize = spec.files.iter().map(|f| f.content.chars().count() + f.name.chars().count()).sum();
			if total <= 6000 {
				let d = glist(listing.iter().map(|n| format!("({},{})", gstr(&cps_str(n)), gstr(&cps_str(&spec.files[by_name(n)].content)))));
				let ans = obs.as_ref().map(|o| glist(o.applies.iter().map(|(q, a)| format!("({},{})", gstr(&cps_str(q)),
					gres(a.as_ref().map(|m| { let mut ds = vec![]; g_mappings(&from_quill(m, &mut ds)) }))))));
				r.case("instantiated", format!("CInst {} {}", d, gres(ans)));
				r.count(&format!("instantiated:kind:{}", spec.kind));
				r.count(if obs.is_some() { "instantiated:resolve:ok" } else { "instantiated:resolve:err" });
				if let Some(o) = &obs { r.count_n("instantiated:answers", o.applies.iter().filter(|(_, a)| a.is_some()).count() as u64); }
			} else { r.count("instantiated:skipped-too-large"); }
		}
		let view = obs.as_ref().map(|o| {
			let rootmap = tables.intern(&o.rootmap);
			let applies: Vec<(String, Option<u64>)> = o.applies.iter().map(|(q, a)| (q.clone(), a.as_ref().map(|m| tables.intern(m)))).collect();
			let ll = |v: &Vec<Vec<usize>>| glist(v.iter().map(|l| gnums(l.iter().map(|&x| x as u64))));
			// diffs are identified by the text of their Debug form
			let mut dids: Vec<String> = vec![];
			let did = |x: &String, dids: &mut Vec<String>| -> usize { match dids.iter().position(|y| y == x) { Some(i) => i, None => { dids.push(x.clone()); dids.len() - 1 } } };
			let tokids: Vec<(u64, usize)> = tables.diff_dbg.iter().map(|(t, x)| (*t, did(x, &mut dids))).collect();
			let getdiffs = glist(o.getdiffs.iter().map(|(a, b, x)| format!("({a},{b},{})", match x { Err(()) => "Err".to_owned(), Ok(None) => "(Ok None)".to_owned(), Ok(Some(t)) => format!("(Ok (Some {}))", did(t, &mut dids)) })));
			let getalls = glist(o.getalls.iter().map(|(l, a)| format!("({},{})", gnums(l.iter().map(|q| sid(q) as u64)), gres(a.as_ref().map(|v| glist(v.iter().map(|(s, i)| format!("({s},{i})"))))))));
			format!("(mkView {} {} {} {} {} {} {} {} {} {})",
				glist(o.nodes.iter().map(|(n, dep)| format!("({},{})", sid(n), dep))),
				o.root, rootmap, ll(&o.children), ll(&o.parents),
				glist(o.gets.iter().map(|(q, g)| format!("({},{})", sid(q), gopt(g.map(|(s, i)| format!("({s},{i})")))))),
				glist(applies.iter().map(|(q, a)| format!("({},{})", sid(q), gres(a.map(|x| x.to_string()))))),
				getalls, glist(tokids.iter().map(|(t, i)| format!("({t},{i})"))), getdiffs)
		});
		// the tables may have grown by interning answers; they are printed after the view is built
		let case = format!("CDir {} {} {} {} {}", glist(strs.iter().map(|x| gstr(&cps_str(x)))), d, gbool(wf), tables.gallina(), gres(view));
		let nontrivial = obs.as_ref().map_or(false, |o| o.nodes.len() >= 2);
		r.eval(&format!("{:?}|{:?}", listing, toks), nontrivial);
		r.case(spec.kind, case);
		r.count(if obs.is_some() { "resolve:ok" } else { "resolve:err" });

		// ---- oracle on the graph the implementation itself reports (every directory, collisions of lookup names included):
		// a successful resolve has no cycle that can be reached from the root, depth = breadth-first distance from the
		// root, parents is the inverse of children, a version that cannot be reached from the root is never answered,
		// get_all = the gets in order, get_diff reads a file exactly for the edges
		if let Some(o) = &obs {
			for what in &o.api_issues { vio(r, what.clone()); }
			let n = o.nodes.len();
			let mut dist: Vec<Option<usize>> = vec![None; n]; dist[o.root] = Some(0);
			let mut q = VecDeque::from([o.root]);
			while let Some(a) = q.pop_front() { for &b in &o.children[a] { if dist[b].is_none() { dist[b] = Some(dist[a].unwrap() + 1); q.push_back(b); } } }
			// a cycle among the reachable nodes: repeatedly strip reachable nodes that have no reachable successor left
			let mut alive: Vec<bool> = dist.iter().map(|d| d.is_some()).collect();
			loop { let mut ch = false; for a in 0..n { if alive[a] && !o.children[a].iter().any(|&b| alive[b]) { alive[a] = false; ch = true; } } if !ch { break; } }
			if alive.iter().any(|&x| x) {
				let on: Vec<&String> = (0..n).filter(|&a| alive[a]).map(|a| &o.nodes[a].0).collect();
				vio(r, format!("resolve succeeded although the graph it built has a cycle that can be reached from the root {:?} (on or leading to the cycle: {:?})", o.nodes[o.root].0, on));
			}
			for a in 0..n { let w = if a == o.root { 0 } else { dist[a].unwrap_or(0) }; if o.nodes[a].1 != w { vio(r, format!("depth of {:?} is {}, its breadth-first distance from the root in the graph resolve built is {w}", o.nodes[a].0, o.nodes[a].1)); } }
			let mut inv: Vec<Vec<usize>> = vec![vec![]; n];
			for a in 0..n { for &b in &o.children[a] { inv[b].push(a); } }
			for b in 0..n { let mut x = inv[b].clone(); x.sort(); let mut y = o.parents[b].clone(); y.sort(); if x != y { vio(r, format!("parents of {:?} are not the nodes that list it as a child", o.nodes[b].0)); } }
			for ((qn, a), (_, g)) in o.applies.iter().zip(o.gets.iter()) {
				if let Some((_, i)) = g { if dist[*i].is_none() && a.is_some() { vio(r, format!("apply_diffs({qn:?}) answered for {:?}, which cannot be reached from the root in the graph resolve built", o.nodes[*i].0)); } }
			}
			// a name is answered exactly if it is a lookup name: a plain version string or one half of an `a~b` string that
			// some file name mentions (collisions decide WHICH node answers, never WHETHER) — everything else is refused
			for (qn, g) in &o.gets {
				let is_key = refg.versions.iter().any(|v| keys_of(v).iter().any(|k| k == qn));
				if g.is_some() != is_key {
					vio(r, if is_key { format!("get({qn:?}) is refused although it is a lookup name of the directory") }
						else { format!("get({qn:?}) is answered with {:?} although no version of the directory has this lookup name", g.map(|(_, i)| &o.nodes[i].0)) });
				}
			}
			r.count_n("oracle:lookup-refusal", o.gets.iter().filter(|g| g.1.is_none()).count() as u64);
			for (l, a) in &o.getalls {
				let want: Option<Vec<(u8, usize)>> = l.iter().map(|qn| o.gets.iter().find(|g| &g.0 == qn).and_then(|g| g.1)).collect();
				if &want != a { vio(r, format!("get_all({l:?}) = {a:?}, the single gets give {want:?}")); }
			}
			for (a, b, x) in &o.getdiffs {
				let edge = o.children[*a].contains(b);
				if matches!(x, Ok(None)) == edge { vio(r, format!("get_diff({:?}, {:?}) {} although there is {} edge", o.nodes[*a].0, o.nodes[*b].0, if edge { "finds nothing" } else { "reads a file" }, if edge { "an" } else { "no" })); }
			}
			r.count("oracle:own-graph-consistent");
		}
		// ---- EVERY directory (collisions of lookup names, non-confluent diamonds, malformed ones): nothing that can be
		// observed of the graph — success, node order and depths, root, adjacency order, every lookup, every get_diff, and
		// the mapping set apply_diffs answers for every lookup name — may depend on the order read_dir lists the files in
		{
			// (by NAME: node numbers and iteration orders are not part of any answer)
			let digest: Option<String> = obs.as_ref().map(|o| {
				let nm = |i: usize| o.nodes[i].0.clone();
				let answers: Vec<(String, Option<u64>)> = o.applies.iter().map(|(q, a)| (q.clone(), a.as_ref().map(|m| tables.intern(m)))).collect();
				let nodes: BTreeMap<String, usize> = o.nodes.iter().cloned().collect();
				let mut edges: Vec<(String, String)> = vec![];
				for (i, ch) in o.children.iter().enumerate() { for &c in ch { edges.push((nm(i), nm(c))); } }
				edges.sort();
				let mut back: Vec<(String, String)> = vec![];
				for (i, ps) in o.parents.iter().enumerate() { for &p in ps { back.push((nm(p), nm(i))); } }
				back.sort();
				let gets: Vec<(String, Option<(u8, String)>)> = o.gets.iter().map(|(q, g)| (q.clone(), g.map(|(s, i)| (s, nm(i))))).collect();
				let getalls: Vec<(Vec<String>, Option<Vec<(u8, String)>>)> = o.getalls.iter().map(|(l, a)| (l.clone(), a.as_ref().map(|v| v.iter().map(|(s, i)| (*s, nm(*i))).collect()))).collect();
				let mut getdiffs: Vec<(String, String, Result<Option<String>, ()>)> = o.getdiffs.iter().map(|(a, b, x)| (nm(*a), nm(*b), x.clone())).collect();
				getdiffs.sort();
				format!("versions and depths {:?} root {:?} edges {:?} parents {:?} lookups {:?} answers (ids of equal mapping sets) {:?} get_all {:?} get_diff {:?}", nodes, nm(o.root), edges, back, gets, answers, getalls, getdiffs)
			});
			if let Some((first, first_listing)) = &digests {
				if first != &digest {
					let what = format!("the result depends on the listing order: {:?} versus {:?}{}", first_listing, listing,
						match (first, &digest) { (Some(a), Some(b)) => { let (pa, pb): (Vec<&str>, Vec<&str>) = (a.split(" get_all ").collect(), b.split(" get_all ").collect()); if pa[0] != pb[0] { format!("\n  first:  {}\n  second: {}", pa[0], pb[0]) } else { String::new() } } _ => " (one resolve fails, the other succeeds)".into() });
					vio(r, what);
				}
				r.count("oracle:listing-order-identical");
			} else { digests = Some((digest, listing.clone())); }
		}
		// ---- on EVERY directory (lookup-name collisions included; C05_resolve_err_iff): the number of .tiny files must be
		// one and every .tinydiff name must have its `#`, whatever else the names do — two files for one node are two roots
		if obs.is_some() && (refg.roots.len() != 1 || refg.bad_name) {
			let why = if refg.roots.is_empty() { "no root" } else if refg.roots.len() > 1 { "two roots" } else { "a .tinydiff name without #" };
			vio(r, format!("resolve succeeded on a malformed directory ({why}; the file names collide on a lookup name, which does not make it well-formed)"));
			r.count("oracle:malformed-is-error-any-directory");
			continue;
		}
		// ---- property oracle (well-formed directories)
		if !wf { continue; }
		let root_tok = refg.roots.first().map(|(_, i)| toks[*i]);
		let root_loads = root_tok.map_or(false, |t| tables.tiny.get(&t).and_then(|i| tables.contract.get(i)).is_some());
		let expect_err = refg.roots.len() != 1 || refg.bad_name || !root_loads || refg.reachable_cycle(&refg.roots[0].0);
		let Some(o) = obs else {
			if !expect_err { vio(r, "resolve returned an error for a directory with exactly one readable root, well-formed names and no cycle reachable from the root".into()); }
			r.count("oracle:malformed-is-error");
			summaries.push((Summary { ok: false, nodes: BTreeMap::new(), root: String::new(), edges: vec![], gets: vec![], answers: vec![], deterministic: true }, order, listing));
			continue;
		};
		if expect_err {
			let why = if refg.roots.is_empty() { "no root" } else if refg.roots.len() > 1 { "two roots" } else if refg.bad_name { "a .tinydiff name without #" } else if !root_loads { "an unreadable root file" } else { "a cycle reachable from the root" };
			vio(r, format!("resolve succeeded on a malformed directory ({why})"));
			continue;
		}
		let rootname = &refg.roots[0].0;
		// nodes = versions; root; depths = distance from the root (0 when unreachable)
		let mut names: Vec<&String> = o.nodes.iter().map(|n| &n.0).collect(); names.sort();
		let mut want: Vec<&String> = refg.versions.iter().collect(); want.sort();
		if names != want { vio(r, format!("nodes {:?} differ from the versions named by the files {:?}", names, want)); }
		if &o.nodes[o.root].0 != rootname { vio(r, format!("root is {:?}, the .tiny file names {:?}", o.nodes[o.root].0, rootname)); }
		let dist = refg.dist(rootname);
		for (nm, dep) in &o.nodes { let w = dist.get(nm).copied().unwrap_or(0); if *dep != w { vio(r, format!("depth of {nm:?} is {dep}, its distance from the root is {w}")); } }
		// adjacency
		let mut got_edges: Vec<(String, String)> = vec![];
		for (i, ch) in o.children.iter().enumerate() { for &c in ch { got_edges.push((o.nodes[i].0.clone(), o.nodes[c].0.clone())); } }
		got_edges.sort();
		let mut want_edges: Vec<(String, String)> = refg.edges.iter().map(|e| (e.0.clone(), e.1.clone())).collect(); want_edges.sort();
		if got_edges != want_edges { vio(r, format!("edges {:?} differ from the .tinydiff file names {:?}", got_edges, want_edges)); }
		// lookups: every plain version under its name, every a~b under either half, nothing else
		let mut gets_named = vec![];
		for (q, g) in &o.gets {
			let want: Option<(u8, &String)> = refg.versions.iter().find_map(|v| match v.split_once('~') {
				None => if v == q { Some((0u8, v)) } else { None },
				Some((a, b)) => if a == q { Some((1, v)) } else if b == q { Some((2, v)) } else { None },
			});
			let got = g.map(|(s, i)| (s, &o.nodes[i].0));
			if got != want { vio(r, format!("get({q:?}) = {:?}, expected {:?}", got, want)); }
			gets_named.push((q.clone(), got.map(|(s, n)| (s, n.clone()))));
		}
		r.count("oracle:lookup");
		// apply_diffs: one of the folds along a shortest path; the history's own mapping set
		let mut answers = vec![];
		let mut deterministic = true;
		for ((q, a), (_, g)) in o.applies.iter().zip(o.gets.iter()) {
			let Some((_, i)) = g else { continue };
			let v = &o.nodes[*i].0;
			let paths = refg.shortest_paths(rootname, v);
			let got: Option<u64> = a.as_ref().map(|m| tables.intern(m));
			answers.push((q.clone(), got));
			if paths.is_empty() {
				if got.is_some() { vio(r, format!("apply_diffs({q:?}) answered for version {v:?}, which is not reachable from the root")); }
				r.count("oracle:unreachable-is-error");
				continue;
			}
			let cands: Vec<Option<u64>> = paths.iter().map(|p| tables.fold(root_tok.unwrap(), &p.iter().map(|&f| toks[f]).collect::<Vec<_>>())).collect();
			if cands.iter().any(|c| c != &cands[0]) { deterministic = false; }
			if !cands.contains(&got) { vio(r, format!("apply_diffs({q:?}) (version {v:?}) is not the fold of the diffs along any of the {} shortest paths from the root", paths.len())); }
			r.count(if paths.len() > 1 { "oracle:fold-membership-multipath" } else { "oracle:fold-single-path" });
			if let Some(h) = &spec.hist {
				if h.good && h.confluent {
					let hv = &h.maps[h.names.iter().position(|x| x == v).expect("version of the history")];
					let want = tdiff::ref_extend(hv);
					let same = match (&want, a) { (Some(w), Some(m)) => { let mut ds = vec![]; from_quill(m, &mut ds).equiv(w) } (None, None) => true, _ => false };
					if !same {
						let what = format!("apply_diffs({q:?}) differs from the inner-class-extended mapping set the history has for version {v:?}");
						let show = |t: Option<String>| t.unwrap_or_else(|| "(an error)\n".into());
						let mut t = replay_text(spec, &order, &listing, &what);
						t.push_str(&format!("--- expected for version {v:?}: the history's mapping set with inner class names extended\n{}--- apply_diffs({q:?}) answered\n{}",
							show(want.as_ref().and_then(plain_text)), show(a.as_ref().and_then(|m| quill::tiny_v2::write_string(m).ok()))));
						r.violation(what, t);
					}
					r.count("oracle:history-sound");
				}
			}
		}
		let mut nodes = BTreeMap::new(); for (nm, dep) in &o.nodes { nodes.insert(nm.clone(), *dep); }
		summaries.push((Summary { ok: true, nodes, root: rootname.clone(), edges: got_edges, gets: gets_named, answers, deterministic }, order, listing));
	}
	// ---- listing-order independence
	if wf && summaries.len() >= 2 {
		let confluent = summaries.iter().all(|s| s.0.deterministic);
		for k in 1..summaries.len() {
			let (a, b) = (&summaries[0].0, &summaries[k].0);
			let same = a.ok == b.ok && a.nodes == b.nodes && a.root == b.root && a.edges == b.edges && a.gets == b.gets && a.answers == b.answers;
			if !same {
				let what = format!("the result depends on the listing order: {:?} versus {:?}", summaries[0].2, summaries[k].2);
				let t = replay_text(spec, &summaries[k].1, &summaries[k].2, &what); r.violation(what, t);
			}
			r.count(if confluent { "oracle:order-independent-with-answers" } else { "oracle:order-independent-graph" });
			// a directory with two shortest paths that fold differently is the record of no history (C05_nonconfluent_no_history):
			// which fold apply_diffs returns is petgraph's choice; measured here, not judged (see props/c05.py)
			if !confluent && a.ok && b.ok {
				if a.answers != b.answers {
					r.count("nonconfluent:answer-depends-on-listing-order");
					if !r.notes.iter().any(|n| n.starts_with("non-confluent directory")) {
						let diff: Vec<&String> = a.answers.iter().zip(b.answers.iter()).filter(|(x, y)| x != y).map(|(x, _)| &x.0).collect();
						r.notes.push(format!("non-confluent directory (two shortest paths with different folds; outside every history): apply_diffs of {:?} differs between listing orders {:?} and {:?}; files {:?}",
							diff, summaries[0].2, summaries[k].2, spec.files.iter().map(|f| &f.name).collect::<Vec<_>>()));
					}
				} else { r.count("nonconfluent:answer-same-in-both-listing-orders"); }
			}
		}
	}
	Ok(())
}

/// the repository's own fixture, through the same machinery
fn fixture(repo: &Path) -> anyhow::Result<DirSpec> {
	let dir = repo.join("tests/version-graph/graph");
	let mut files = vec![];
	for e in std::fs::read_dir(&dir)? { let e = e?; files.push(FileSpec { name: e.file_name().into_string().unwrap(), content: std::fs::read_to_string(e.path())? }); }
	files.sort_by(|a, b| a.name.cmp(&b.name));
	let mut queries = vec![];
	for v in RefGraph::of(&files).versions { queries.extend(keys_of(&v)); queries.push(v); }
	queries.push("unknown".into()); queries.sort(); queries.dedup();
	Ok(DirSpec { kind: "repo-fixture", files, hist: None, queries })
}

fn parse_replay(text: &str) -> DirSpec {
	let mut files: Vec<FileSpec> = vec![];
	let mut cur: Option<FileSpec> = None;
	for line in text.split_inclusive('\n') {
		if let Some(rest) = line.strip_prefix("--- ") {
			if let Some(f) = cur.take() { files.push(f); }
			let rest = rest.trim_end();
			if rest.starts_with('"') && rest.ends_with('"') && rest.len() >= 2 {
				let name = rest[1..rest.len() - 1].replace("\\\"", "\"").replace("\\\\", "\\");
				cur = Some(FileSpec { name, content: String::new() });
			}
		} else if line.starts_with("reproduce: ") { break; }
		else if let Some(f) = cur.as_mut() { f.content.push_str(line); }
	}
	if let Some(f) = cur.take() { files.push(f); }
	let mut uniq: Vec<FileSpec> = vec![];
	for f in files { if !uniq.iter().any(|g| g.name == f.name) { uniq.push(f); } }
	let mut queries = vec![];
	for v in RefGraph::of(&uniq).versions { queries.extend(keys_of(&v)); queries.push(v); }
	queries.push("unknown".into()); queries.sort(); queries.dedup();
	DirSpec { kind: "replay", files: uniq, hist: None, queries }
}

pub fn run(ctx: &Ctx) -> anyhow::Result<Report> {
	let mut r = Report::new("C05", "C05.Run");
	r.shard_size = 220;
	let mut rng = Rng::new(ctx.seed);
	let mut scratch = Scratch::new(ctx.seed)?;
	let repo = PathBuf::from(std::env::var("VERIF_REPO").unwrap_or_else(|_| "/repo".into()));
	r.rule = "directories = rooted version graphs (chains, trees, DAGs with diamonds and shortcuts, confluent and non-confluent; plain and client~server names, tricky names) x edit histories on mapping sets (renames, additions, removals, comment edits at class/field/method/parameter level; edge files printed by the harness' own .tinydiff printer, root file written by quill) x file-creation orders (3-4 per directory: as generated, shuffled, shuffled with renames, and one on a second file system), plus the malformed shapes (no root, two roots, reachable/unreachable cycles, unreachable versions, unknown names, bad file names, unreadable contents) cycles among arbitrary versions (entered from outside at several members), extra edges between arbitrary versions in any direction, graphs of up to 10 versions, steps that edit many things below ONE class at once (name given or changed + comments + members + parameters in the same edge file), disturbed texts (lines with unknown tags at every nesting level, a second comment line, a parameter line with a source name, stray indentation, empty lines; these and the unreadable-root shapes always also as CInst), names ending in -client/-server, and lookup-name collisions. Every case also carries get_all of several name lists and get_diff of every node pair. Lookups: besides every lookup name and every whole version string, each directory is asked for near misses derived from its own keys (a key with a ~/# suffix or prefix, two halves of different versions glued together, halves swapped, a proper prefix/suffix of a key, another letter case, a trailing blank/TAB/LF/combining mark, -client/-server appended, a key with .tiny/.tinydiff, whole file names, two adjacent characters swapped, the key doubled): on EVERY directory a name must be answered exactly if it is a lookup name (C05_get_err_iff). Listing order: on EVERY directory (collisions, non-confluent diamonds, malformed ones) everything observable by name — success, versions and depths, root, edges, every lookup, the mapping set apply_diffs answers for every name, get_all, get_diff — must be identical for all listing orders (C05_resolve_dir_perm); the model receives the listing as read_dir gave it and sorts it itself. Oracle: what apply_diffs must answer for a version of a good history is decided by the history alone (the harness' own diff, printer and inner-class extension; quill is not consulted), resolve must fail exactly on the malformed shapes (reference cycle search on the file names), and on EVERY directory (collisions included) the graph resolve reports about itself must be consistent: no cycle reachable from the root, depth = breadth-first distance, parents = inverse of children, unreachable versions never answered, get_all = the gets, get_diff = the edges. One correspondence case per distinct listing order actually observed through read_dir. Non-trivial = resolve succeeds with at least two nodes; distinct by (listing order, contents). Stream `instantiated`: every 12th (quick) / 20th (thorough) directory and the repository's fixture additionally as a CInst case — the real file contents as code points, evaluated by the INSTANTIATED model (C03 read, C11 contract/extend, C04 .tinydiff read/apply composed exactly as resolve/apply_diffs do) and compared with resolve's Ok/Err and with apply_diffs of every lookup name up to map order.".into();
	r.notes.push(format!("scratch directories: {:?} (removed at exit)", scratch.bases));
	if let Some(path) = &ctx.replay {
		// a replay file written by an earlier run: the files between the `--- "name"` markers
		let spec = parse_replay(&std::fs::read_to_string(path)?);
		r.notes.push(format!("replay of {:?}: {} files", path, spec.files.len()));
		through(&spec, &mut scratch, &mut rng, &mut r, 4, true)?;
		return Ok(r);
	}
	let fx = fixture(&repo)?;
	through(&fx, &mut scratch, &mut rng, &mut r, 4, true)?;
	let n = if ctx.thorough { 8000 } else { 1000 };
	// every `every`-th directory additionally goes through the instantiated model (whole file contents in the case)
	let every = if ctx.thorough { 20 } else { 12 };
	for i in 0..n {
		let store = scratch.fresh(0)?;
		let spec = gen_dir(&mut rng, &mut r, &store);
		std::fs::remove_dir_all(&store)?;
		// (disturbed texts always: only the instantiated model reads the text itself)
		through(&spec, &mut scratch, &mut rng, &mut r, 4, i % every == 0 || spec.kind == "mutated-text" || spec.kind.starts_with("root-"))?;
	}
	Ok(r)
}

fn main() -> anyhow::Result<()> { fbh::main_with(run) }
