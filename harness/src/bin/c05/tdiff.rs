//! Harness-side reference pieces for C05 that the repository does not offer:
//!  * edit histories on mapping sets (contracted form, namespaces official/named),
//!  * a diff between two mapping sets and OUR printer of the `.tinydiff` text form
//!    (the repository only has a reader),
//!  * an independent inner-class-name extension (to state what `apply_diffs` must answer).
use fbh::gal::*;
use fbh::mapmodel::*;
use fbh::prng::Rng;

pub const NAMED: usize = 1;

// ---------- names ----------
/// duke's split rule: last `$`, both sides non-empty, parent not ending in `/`, inner without `/`
pub fn split_inner(s: &[u32]) -> Option<(Vec<u32>, Vec<u32>)> {
	let pos = s.iter().rposition(|&c| c == '$' as u32)?;
	let (p, i) = (&s[..pos], &s[pos + 1..]);
	if p.is_empty() || i.is_empty() || p.last() == Some(&('/' as u32)) || i.contains(&('/' as u32)) { None } else { Some((p.to_vec(), i.to_vec())) }
}
fn src(c: &MClass) -> &S { c.names[0].as_ref().expect("class without source name") }
fn named_of<'a>(m: &'a MMappings, s: &[u32]) -> Option<&'a S> {
	m.classes.iter().find(|c| src(c).as_slice() == s).and_then(|c| c.names[NAMED].as_ref())
}
/// all ancestors (by the split rule on the source name) exist and have a named name
fn ancestors_named(m: &MMappings, s: &[u32]) -> bool {
	let mut cur = s.to_vec();
	while let Some((p, _)) = split_inner(&cur) {
		if named_of(m, &p).is_none() { return false; }
		cur = p;
	}
	true
}
fn is_nested(s: &[u32]) -> bool { split_inner(s).is_some() }
fn has_nested_below(m: &MMappings, s: &[u32]) -> bool {
	m.classes.iter().any(|c| { let mut cur = src(c).clone(); loop { match split_inner(&cur) { Some((p, _)) => { if p == s { return true; } cur = p; } None => return false } } })
}

/// The hypotheses under which C03/C04/C11 promise their laws, as far as this harness knows them:
/// named class names carry no `$`; a nested class with a named name has a package-less one and
/// all its ancestors are present with named names; documentation strings are non-empty.
/// `good` for a version behind the root: its named names may contain `$` (they never go through contract . extend; the
/// answer for the version is still the history's set with the names extended, see `ref_extend`)
pub fn good_step(m: &MMappings) -> bool {
	m.ns.len() == 2 && m.classes.iter().all(|c| {
		let s = src(c);
		match &c.names[NAMED] {
			None => true,
			Some(b) => !is_nested(s) || (!b.contains(&('/' as u32)) && ancestors_named(m, s)),
		}
	})
}
pub fn good(m: &MMappings) -> bool {
	m.ns.len() == 2 && m.classes.iter().all(|c| {
		let s = src(c);
		match &c.names[NAMED] {
			None => true,
			Some(b) => !b.contains(&('$' as u32)) && (!is_nested(s) || (!b.contains(&('/' as u32)) && ancestors_named(m, s))),
		}
	})
}

/// independent reference of `extend_inner_class_names("named")`: None = it has to fail
pub fn ref_extend(m: &MMappings) -> Option<MMappings> {
	fn ext(m: &MMappings, s: &[u32], mapped: &[u32]) -> Option<Vec<u32>> {
		match split_inner(s) {
			None => Some(mapped.to_vec()),
			Some((p, _)) => {
				let pm = named_of(m, &p)?.clone();
				let mut r = ext(m, &p, &pm)?;
				r.push('$' as u32); r.extend_from_slice(mapped);
				Some(r)
			}
		}
	}
	let mut out = m.clone();
	for (i, c) in m.classes.iter().enumerate() {
		if let Some(b) = &c.names[NAMED] { out.classes[i].names[NAMED] = Some(ext(m, src(c), b)?); }
	}
	Some(out)
}

// ---------- root generation ----------
const SIMPLE: [&str; 12] = ["Alpha", "Beta", "Gamma", "Delta", "Eps", "Zeta", "Eta", "Theta", "Iota", "Kappa", "Lam", "Mu"];
const MEMB: [&str; 10] = ["fieldA", "methodB", "value", "count", "getX", "setY", "run", "tick", "size", "next"];
fn fresh_simple(rng: &mut Rng) -> S { let mut s = cps_str(*rng.pick(&SIMPLE[..])); s.extend(cps_str(&rng.below(100).to_string())); s }
fn fresh_member(rng: &mut Rng) -> S { let mut s = cps_str(*rng.pick(&MEMB[..])); if rng.chance(1, 2) { s.extend(cps_str(&rng.below(100).to_string())); } s }
fn fresh_class_named(rng: &mut Rng, nested: bool) -> S {
	if nested || rng.chance(1, 3) { fresh_simple(rng) } else { let mut p = cps_str(*rng.pick(&["org/example/", "net/minecraft/", "a/"][..])); p.extend(fresh_simple(rng)); p }
}
/// the named name for a class: nested classes often take a simple name that ANOTHER nested class (in another outer class,
/// at any depth) already has — `Alpha$Builder` and `Delta$Builder` are both just `Builder` before the extension
fn class_named_in(rng: &mut Rng, m: &MMappings, nested: bool) -> S {
	// a named name whose OWN simple name contains `$` (`Class$D`, `org/example/Outer$Gen`): the version graph works on
	// contracted names, so a `$` seen when the names are extended at the end belongs to the simple name and the outer
	// class's name still has to be put in front of it (seed C05-b7: an "idempotent" extension skipped such names).
	// Only edits produce these, never the root (contract . extend is not the identity on them).
	if rng.chance(1, 8) {
		let mut n = fresh_class_named(rng, nested);
		n.push('$' as u32); n.extend(if rng.chance(1, 3) { cps_str(&rng.range(1, 9).to_string()) } else { fresh_simple(rng) });
		return n;
	}
	if nested && rng.chance(1, 3) {
		let taken: Vec<&S> = m.classes.iter().filter(|c| is_nested(src(c))).filter_map(|c| c.names[NAMED].as_ref()).collect();
		if !taken.is_empty() { return (*rng.pick(&taken[..])).clone(); }
	}
	fresh_class_named(rng, nested)
}
/// two different classes each get an inner class with the SAME simple named name, and each of those an inner class of its
/// own (same or different simple names): equal names in different scopes, at nesting depth two and more
pub fn twin_chains(rng: &mut Rng, m: &mut MMappings, counts: &mut dyn FnMut(&str)) {
	let cands: Vec<S> = m.classes.iter().filter(|c| c.names[NAMED].is_some() && ancestors_named(m, src(c))).map(|c| src(c).clone()).collect();
	if cands.len() < 2 { return; }
	let a = rng.below(cands.len()); let mut b = rng.below(cands.len() - 1); if b >= a { b += 1; }
	let shared = fresh_simple(rng);
	let deep_same = rng.chance(1, 2);
	let deep = fresh_simple(rng);
	for p in [cands[a].clone(), cands[b].clone()] {
		let mut s1 = p.clone(); s1.push('$' as u32); s1.extend(fresh_simple(rng));
		if m.classes.iter().any(|c| src(c) == &s1) { continue; }
		m.classes.push(MClass { names: vec![Some(s1.clone()), Some(shared.clone())], doc: None, fields: vec![], methods: vec![] });
		let mut s2 = s1.clone(); s2.push('$' as u32); s2.extend(fresh_simple(rng));
		let n2 = if deep_same { deep.clone() } else { fresh_simple(rng) };
		m.classes.push(MClass { names: vec![Some(s2), Some(n2)], doc: if rng.chance(1, 3) { Some(fresh_doc(rng)) } else { None }, fields: vec![], methods: vec![] });
	}
	counts("edit:twin-nested-chains");
}
fn fresh_doc(rng: &mut Rng) -> S {
	const DOCS: [&str; 9] = ["A comment.", "two\nlines", "  leading", "# hash", "tab\there", "back\\slash n", "ünï\u{1F600}", "x", "More comments"];
	let mut s = cps_str(*rng.pick(&DOCS[..])); if rng.chance(1, 2) { s.extend(cps_str(&format!(" {}", rng.below(50)))); } s
}

/// a root mapping set in contracted form; `good` unless `sloppy`
pub fn gen_root(rng: &mut Rng, sloppy: bool) -> MMappings {
	let mut cfg = GenCfg::new(2);
	cfg.max_classes = 5; cfg.max_members = 3; cfg.max_params = 2;
	let mut m = gen_mappings(rng, &cfg);
	m.ns = vec![cps_str("official"), cps_str("named")];
	if rng.chance(1, 6) { m.doc = Some(fresh_doc(rng)); }
	if sloppy { return m; }
	// make it good: named names without `$`, nested ones package-less, ancestors named
	for i in 0..m.classes.len() {
		let s = src(&m.classes[i]).clone();
		if let Some(b) = m.classes[i].names[NAMED].clone() {
			let mut b: S = b.into_iter().filter(|&c| c != '$' as u32).collect();
			if is_nested(&s) { if let Some(p) = b.iter().rposition(|&c| c == '/' as u32) { b = b[p + 1..].to_vec(); } }
			if b.is_empty() { b = cps_str("X"); }
			m.classes[i].names[NAMED] = Some(b);
		}
	}
	loop {
		let mut changed = false;
		for i in 0..m.classes.len() {
			let s = src(&m.classes[i]).clone();
			if m.classes[i].names[NAMED].is_some() {
				let mut cur = s;
				while let Some((p, _)) = split_inner(&cur) {
					if let Some(j) = m.classes.iter().position(|c| src(c) == &p) {
						if m.classes[j].names[NAMED].is_none() { m.classes[j].names[NAMED] = Some(fresh_class_named(rng, is_nested(&p))); changed = true; }
					} else {
						// ancestor missing altogether: drop the name of the nested class
						m.classes[i].names[NAMED] = None; changed = true; break;
					}
					cur = p;
				}
			}
		}
		if !changed { break; }
	}
	if rng.chance(1, 4) { twin_chains(rng, &mut m, &mut |_| {}); }
	m
}

// ---------- edits (child := parent with a few edits; every edit is expressible as a tiny diff) ----------
pub fn edit(rng: &mut Rng, m: &mut MMappings, counts: &mut dyn FnMut(&str)) {
	let ncls = m.classes.len();
	let kind = rng.below(16);
	match kind {
		0 | 1 if ncls > 0 => { // rename a class / give it a name
			let i = rng.below(ncls);
			let s = src(&m.classes[i]).clone();
			if m.classes[i].names[NAMED].is_none() && !ancestors_named(m, &s) { return; }
			let was = m.classes[i].names[NAMED].is_some();
			let nn = class_named_in(rng, m, is_nested(&s));
			m.classes[i].names[NAMED] = Some(nn);
			counts(if was { "edit:class-rename" } else { "edit:class-name-add" });
		}
		2 => { // add a class, possibly nested under a named one
			let nested_parent = if ncls > 0 && rng.chance(1, 2) {
				let i = rng.below(ncls);
				let s = src(&m.classes[i]).clone();
				if m.classes[i].names[NAMED].is_some() && ancestors_named(m, &s) { Some(s) } else { None }
			} else { None };
			let mut s = match &nested_parent { Some(p) => { let mut p = p.clone(); p.push('$' as u32); p } None => cps_str(*rng.pick(&["", "net/minecraft/", "q/"][..])) };
			s.extend(fresh_simple(rng));
			if m.classes.iter().any(|c| src(c) == &s) { return; }
			let nn = class_named_in(rng, m, nested_parent.is_some());
			let mut c = MClass { names: vec![Some(s), Some(nn)], doc: if rng.chance(1, 3) { Some(fresh_doc(rng)) } else { None }, fields: vec![], methods: vec![] };
			if rng.chance(1, 2) { c.fields.push(MField { desc: cps_str("I"), names: vec![Some(fresh_member(rng)), Some(fresh_member(rng))], doc: if rng.chance(1, 3) { Some(fresh_doc(rng)) } else { None } }); }
			if rng.chance(1, 2) {
				let mut me = MMeth { desc: cps_str("(I)V"), names: vec![Some(fresh_member(rng)), Some(fresh_member(rng))], doc: None, params: vec![] };
				if rng.chance(1, 2) { me.params.push(MParam { index: 1, names: vec![None, Some(cps_str("arg"))], doc: if rng.chance(1, 3) { Some(fresh_doc(rng)) } else { None } }); }
				c.methods.push(me);
			}
			m.classes.push(c);
			counts(if nested_parent.is_some() { "edit:class-add-nested" } else { "edit:class-add" });
		}
		3 if ncls > 0 => { // remove a class
			let i = rng.below(ncls);
			let s = src(&m.classes[i]).clone();
			if m.classes[i].names[NAMED].is_none() || has_nested_below(m, &s) { return; }
			m.classes.remove(i);
			counts("edit:class-remove");
		}
		4 | 5 if ncls > 0 => { // class comment
			let i = rng.below(ncls);
			let was = m.classes[i].doc.is_some();
			m.classes[i].doc = if was && rng.chance(1, 2) { None } else { Some(fresh_doc(rng)) };
			counts(if !was { "edit:class-doc-add" } else if m.classes[i].doc.is_none() { "edit:class-doc-remove" } else { "edit:class-doc-edit" });
		}
		6 | 7 if ncls > 0 => { // field: rename / name / add / remove / comment
			let i = rng.below(ncls);
			let c = &mut m.classes[i];
			let nf = c.fields.len();
			match rng.below(4) {
				0 if nf > 0 => { let j = rng.below(nf); let was = c.fields[j].names[NAMED].is_some(); c.fields[j].names[NAMED] = Some(fresh_member(rng)); counts(if was { "edit:field-rename" } else { "edit:field-name-add" }); }
				1 => {
					let f = MField { desc: cps_str(*rng.pick(&["I", "J", "[B", "Ljava/lang/Object;"][..])), names: vec![Some(fresh_member(rng)), Some(fresh_member(rng))], doc: if rng.chance(1, 3) { Some(fresh_doc(rng)) } else { None } };
					if c.fields.iter().any(|g| g.names[0] == f.names[0] && g.desc == f.desc) { return; }
					c.fields.push(f); counts("edit:field-add");
				}
				2 if nf > 0 => { let j = rng.below(nf); if c.fields[j].names[NAMED].is_some() { c.fields.remove(j); counts("edit:field-remove"); } }
				_ if nf > 0 => { let j = rng.below(nf); let was = c.fields[j].doc.is_some(); c.fields[j].doc = if was && rng.chance(1, 2) { None } else { Some(fresh_doc(rng)) }; counts("edit:field-doc"); }
				_ => {}
			}
		}
		8 | 9 | 10 if ncls > 0 => { // method
			let i = rng.below(ncls);
			let c = &mut m.classes[i];
			let nm = c.methods.len();
			match rng.below(4) {
				0 if nm > 0 => { let j = rng.below(nm); let was = c.methods[j].names[NAMED].is_some(); c.methods[j].names[NAMED] = Some(fresh_member(rng)); counts(if was { "edit:method-rename" } else { "edit:method-name-add" }); }
				1 => {
					let me = MMeth { desc: cps_str(*rng.pick(&["()V", "(I)V", "(IJ)Ljava/lang/Object;"][..])), names: vec![Some(fresh_member(rng)), Some(fresh_member(rng))], doc: if rng.chance(1, 3) { Some(fresh_doc(rng)) } else { None }, params: vec![] };
					if c.methods.iter().any(|g| g.names[0] == me.names[0] && g.desc == me.desc) { return; }
					c.methods.push(me); counts("edit:method-add");
				}
				2 if nm > 0 => { let j = rng.below(nm); if c.methods[j].names[NAMED].is_some() { c.methods.remove(j); counts("edit:method-remove"); } }
				_ if nm > 0 => { let j = rng.below(nm); let was = c.methods[j].doc.is_some(); c.methods[j].doc = if was && rng.chance(1, 2) { None } else { Some(fresh_doc(rng)) }; counts("edit:method-doc"); }
				_ => {}
			}
		}
		15 if ncls >= 2 => twin_chains(rng, m, counts),
		_ if ncls > 0 => { // parameter
			let i = rng.below(ncls);
			let c = &mut m.classes[i];
			if c.methods.is_empty() { return; }
			let j = rng.below(c.methods.len());
			let me = &mut c.methods[j];
			let np = me.params.len();
			match rng.below(4) {
				0 if np > 0 => { let k = rng.below(np); let was = me.params[k].names[NAMED].is_some(); me.params[k].names[NAMED] = Some(cps_str(&format!("param{}", rng.below(100)))); counts(if was { "edit:param-rename" } else { "edit:param-name-add" }); }
				1 => {
					let index = rng.below(8) as u64;
					if me.params.iter().any(|p| p.index == index) { return; }
					me.params.push(MParam { index, names: vec![None, Some(cps_str(&format!("param{}", rng.below(100))))], doc: if rng.chance(1, 3) { Some(fresh_doc(rng)) } else { None } });
					counts("edit:param-add");
				}
				2 if np > 0 => { let k = rng.below(np); if me.params[k].names[NAMED].is_some() { me.params.remove(k); counts("edit:param-remove"); } }
				_ if np > 0 => { let k = rng.below(np); let was = me.params[k].doc.is_some(); me.params[k].doc = if was && rng.chance(1, 2) { None } else { Some(fresh_doc(rng)) }; counts("edit:param-doc"); }
				_ => {}
			}
		}
		_ => {}
	}
}

/// many edits inside ONE class in one step: its name (renamed, or given for the first time), its comment, and
/// every field / method / parameter below it with probability 1/2 each (name, comment), plus new parameters —
/// so that one edge file carries several changes below one entry, at several levels at once
pub fn edit_burst(rng: &mut Rng, m: &mut MMappings, counts: &mut dyn FnMut(&str)) {
	if m.classes.is_empty() { return; }
	let i = rng.below(m.classes.len());
	let s = src(&m.classes[i]).clone();
	let can_name = m.classes[i].names[NAMED].is_some() || ancestors_named(m, &s);
	if can_name && rng.chance(1, 2) {
		counts(if m.classes[i].names[NAMED].is_some() { "burst:class-rename" } else { "burst:class-name-add" });
		m.classes[i].names[NAMED] = Some(fresh_class_named(rng, is_nested(&s)));
	}
	fn toggle(rng: &mut Rng, doc: &mut Option<S>) { *doc = if doc.is_some() && rng.chance(1, 2) { None } else { Some(fresh_doc(rng)) }; }
	let c = &mut m.classes[i];
	if rng.chance(1, 2) { toggle(rng, &mut c.doc); }
	for f in c.fields.iter_mut() {
		if rng.chance(1, 2) { f.names[NAMED] = Some(fresh_member(rng)); }
		if rng.chance(1, 2) { toggle(rng, &mut f.doc); }
	}
	for me in c.methods.iter_mut() {
		if rng.chance(1, 2) { me.names[NAMED] = Some(fresh_member(rng)); }
		if rng.chance(1, 2) { toggle(rng, &mut me.doc); }
		for p in me.params.iter_mut() {
			if rng.chance(1, 2) { p.names[NAMED] = Some(cps_str(&format!("param{}", rng.below(100)))); }
			if rng.chance(1, 2) { toggle(rng, &mut p.doc); }
		}
		for _ in 0..rng.below(3) {
			let index = rng.below(8) as u64;
			if me.params.iter().any(|p| p.index == index) { continue; }
			me.params.push(MParam { index, names: vec![None, Some(cps_str(&format!("param{}", rng.below(100))))], doc: if rng.chance(1, 2) { Some(fresh_doc(rng)) } else { None } });
		}
	}
	counts("edit:burst");
}

// ---------- diff + text ----------
#[derive(Clone, Debug, PartialEq)]
pub enum Act { None, Same(S), Add(S), Remove(S), Edit(S, S) }
impl Act {
	fn of(a: &Option<S>, b: &Option<S>) -> Act {
		match (a, b) {
			(None, None) => Act::None,
			(None, Some(b)) => Act::Add(b.clone()),
			(Some(a), None) => Act::Remove(a.clone()),
			(Some(a), Some(b)) if a == b => Act::Same(a.clone()),
			(Some(a), Some(b)) => Act::Edit(a.clone(), b.clone()),
		}
	}
	fn is_diff(&self) -> bool { !matches!(self, Act::None | Act::Same(_)) }
}
pub struct DParam { pub index: u64, pub act: Act, pub doc: Act }
pub struct DField { pub desc: S, pub name: S, pub act: Act, pub doc: Act }
pub struct DMeth { pub desc: S, pub name: S, pub act: Act, pub doc: Act, pub params: Vec<DParam> }
pub struct DClass { pub name: S, pub act: Act, pub doc: Act, pub fields: Vec<DField>, pub methods: Vec<DMeth> }
pub struct TDiff { pub classes: Vec<DClass> }

/// Err = the step is not expressible as a tiny diff (a kept entry loses its name, an added or
/// removed entry has no named name): the generator avoids these.
pub fn diff(a: &MMappings, b: &MMappings, verbose: bool) -> Result<TDiff, String> {
	fn entry_act(a: Option<&Option<S>>, b: Option<&Option<S>>, what: &str) -> Result<Act, String> {
		match (a, b) {
			(Some(a), Some(b)) => match Act::of(a, b) { Act::Remove(_) => Err(format!("{what}: a kept entry loses its name")), x => Ok(x) },
			(Some(a), None) => a.clone().map(Act::Remove).ok_or_else(|| format!("{what}: removed entry without a name")),
			(None, Some(b)) => b.clone().map(Act::Add).ok_or_else(|| format!("{what}: added entry without a name")),
			(None, None) => unreachable!(),
		}
	}
	let none_doc = None;
	let mut out = TDiff { classes: vec![] };
	let mut ckeys: Vec<&S> = a.classes.iter().map(src).collect();
	for c in &b.classes { if !ckeys.contains(&src(c)) { ckeys.push(src(c)); } }
	for k in ckeys {
		let ca = a.classes.iter().find(|c| src(c) == k);
		let cb = b.classes.iter().find(|c| src(c) == k);
		let act = entry_act(ca.map(|c| &c.names[NAMED]), cb.map(|c| &c.names[NAMED]), "class")?;
		let mut dc = DClass { name: k.clone(), act, doc: Act::None, fields: vec![], methods: vec![] };
		if let Some(cb) = cb {
			dc.doc = Act::of(ca.map_or(&none_doc, |c| &c.doc), &cb.doc);
			// fields
			let empty_f: Vec<MField> = vec![]; let fa = ca.map_or(&empty_f, |c| &c.fields);
			let mut fkeys: Vec<(&S, &S)> = fa.iter().map(|f| (&f.desc, f.names[0].as_ref().unwrap())).collect();
			for f in &cb.fields { let key = (&f.desc, f.names[0].as_ref().unwrap()); if !fkeys.contains(&key) { fkeys.push(key); } }
			for (desc, name) in fkeys {
				let x = fa.iter().find(|f| &f.desc == desc && f.names[0].as_ref() == Some(name));
				let y = cb.fields.iter().find(|f| &f.desc == desc && f.names[0].as_ref() == Some(name));
				let act = entry_act(x.map(|f| &f.names[NAMED]), y.map(|f| &f.names[NAMED]), "field")?;
				let doc = match y { Some(y) => Act::of(x.map_or(&none_doc, |f| &f.doc), &y.doc), None => Act::None };
				if verbose || act.is_diff() || doc.is_diff() { dc.fields.push(DField { desc: desc.clone(), name: name.clone(), act, doc }); }
			}
			// methods
			let empty_m: Vec<MMeth> = vec![]; let ma = ca.map_or(&empty_m, |c| &c.methods);
			let mut mkeys: Vec<(&S, &S)> = ma.iter().map(|f| (&f.desc, f.names[0].as_ref().unwrap())).collect();
			for f in &cb.methods { let key = (&f.desc, f.names[0].as_ref().unwrap()); if !mkeys.contains(&key) { mkeys.push(key); } }
			for (desc, name) in mkeys {
				let x = ma.iter().find(|f| &f.desc == desc && f.names[0].as_ref() == Some(name));
				let y = cb.methods.iter().find(|f| &f.desc == desc && f.names[0].as_ref() == Some(name));
				let act = entry_act(x.map(|f| &f.names[NAMED]), y.map(|f| &f.names[NAMED]), "method")?;
				let mut dm = DMeth { desc: desc.clone(), name: name.clone(), act, doc: Act::None, params: vec![] };
				if let Some(y) = y {
					dm.doc = Act::of(x.map_or(&none_doc, |f| &f.doc), &y.doc);
					let empty_p: Vec<MParam> = vec![]; let pa = x.map_or(&empty_p, |m| &m.params);
					let mut pkeys: Vec<u64> = pa.iter().map(|p| p.index).collect();
					for p in &y.params { if !pkeys.contains(&p.index) { pkeys.push(p.index); } }
					for index in pkeys {
						let px = pa.iter().find(|p| p.index == index);
						let py = y.params.iter().find(|p| p.index == index);
						if let (Some(px), Some(py)) = (px, py) { if px.names[0] != py.names[0] { return Err("parameter: source name changes".into()); } }
						if let (None, Some(py)) = (px, py) { if py.names[0].is_some() { return Err("parameter: added with a source name".into()); } }
						let act = entry_act(px.map(|p| &p.names[NAMED]), py.map(|p| &p.names[NAMED]), "parameter")?;
						let doc = match py { Some(py) => Act::of(px.map_or(&none_doc, |p| &p.doc), &py.doc), None => Act::None };
						if verbose || act.is_diff() || doc.is_diff() { dm.params.push(DParam { index, act, doc }); }
					}
				}
				if verbose || dm.act.is_diff() || dm.doc.is_diff() || !dm.params.is_empty() { dc.methods.push(dm); }
			}
		}
		if verbose || dc.act.is_diff() || dc.doc.is_diff() || !dc.fields.is_empty() || !dc.methods.is_empty() { out.classes.push(dc); }
	}
	Ok(out)
}

fn escape(s: &[u32]) -> String {
	let mut out = String::new();
	for &c in s {
		match char::from_u32(c).unwrap_or('?') { '\\' => out.push_str("\\\\"), '\n' => out.push_str("\\n"), '\r' => out.push_str("\\r"), '\t' => out.push_str("\\t"), ch => out.push(ch) }
	}
	out
}
fn plain(s: &[u32]) -> String { s.iter().map(|&c| char::from_u32(c).unwrap_or('?')).collect() }

/// `\t<a>\t<b>` with trailing empty cells optionally dropped (the reader accepts both)
fn cells(act: &Act, esc: bool, trim: bool) -> String {
	let f = |s: &S| if esc { escape(s) } else { plain(s) };
	let (a, b) = match act {
		Act::None => (String::new(), String::new()),
		Act::Same(a) => (f(a), f(a)),
		Act::Add(b) => (String::new(), f(b)),
		Act::Remove(a) => (f(a), String::new()),
		Act::Edit(a, b) => (f(a), f(b)),
	};
	if trim && b.is_empty() { if a.is_empty() { String::new() } else { format!("\t{a}") } } else { format!("\t{a}\t{b}") }
}

/// OUR printer of the tiny diff text form (what `quill::tiny_v2_diff::read` reads)
pub fn print(d: &TDiff, rng: &mut Rng) -> String {
	let mut o = String::from("tiny\t2\t0\n");
	let mut doc = |o: &mut String, depth: usize, a: &Act, rng: &mut Rng| {
		if a.is_diff() || (matches!(a, Act::Same(_)) && rng.chance(1, 3)) {
			o.push_str(&"\t".repeat(depth)); o.push('c'); o.push_str(&cells(a, true, rng.chance(1, 2))); o.push('\n');
		}
	};
	for c in &d.classes {
		o.push_str(&format!("c\t{}{}\n", plain(&c.name), cells(&c.act, false, rng.chance(1, 2))));
		doc(&mut o, 1, &c.doc, rng);
		for f in &c.fields {
			o.push_str(&format!("\tf\t{}\t{}{}\n", plain(&f.desc), plain(&f.name), cells(&f.act, false, rng.chance(1, 2))));
			doc(&mut o, 2, &f.doc, rng);
		}
		for m in &c.methods {
			o.push_str(&format!("\tm\t{}\t{}{}\n", plain(&m.desc), plain(&m.name), cells(&m.act, false, rng.chance(1, 2))));
			doc(&mut o, 2, &m.doc, rng);
			for p in &m.params {
				o.push_str(&format!("\t\tp\t{}\t{}\n", p.index, cells(&p.act, false, rng.chance(1, 2))));
				doc(&mut o, 3, &p.doc, rng);
			}
		}
	}
	o
}
