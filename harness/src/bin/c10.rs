//! C10 — dummy-mapping filters: `Mappings::remove_dummy(namespace)` and
//! `MappingsDiff::insert_dummy_and_contract_inner_names()`.
//!
//! Per input: (a) the real function is called (guarded), (b) the property oracle runs on the
//! implementation alone — comparison with an independent reference written from the documented
//! rules (literal prefixes, bottom-up `Option`-returning recursion, no `retain`), idempotence
//! (apply twice == once), and "no removed entry has a retained child" (a removed class/method,
//! when given a comment so that it must stay, comes back childless) — and (c) a correspondence
//! case with input and answer is printed for the Coq model.
use fbh::gal::*;
use fbh::mapmodel::*;
use fbh::prng::Rng;
use fbh::report::{crumb, guarded, Report};
use fbh::Ctx;
use duke::tree::class::ObjClassName;
use duke::tree::field::FieldNameAndDesc;
use duke::tree::method::MethodNameAndDesc;
use quill::tree::mappings::{JavadocMapping, Mappings, ParameterKey};
use quill::tree::mappings_diff::{Action, ClassNowodeDiff, FieldNowodeDiff, MappingsDiff, MethodNowodeDiff, ParameterNowodeDiff};
use std::panic::AssertUnwindSafe;

fn s(x: &str) -> S { cps_str(x) }

// =====================================================================================
// mirror of the diff tree
// =====================================================================================
#[derive(Clone, Debug, PartialEq, Eq, Hash, PartialOrd, Ord)]
pub enum DAct { None, Add(S), Remove(S), Edit(S, S) }
#[derive(Clone, Debug, PartialEq, Eq, Hash, PartialOrd, Ord)]
pub struct DParam { pub index: u64, pub info: DAct, pub doc: DAct }
#[derive(Clone, Debug, PartialEq, Eq, Hash, PartialOrd, Ord)]
pub struct DField { pub name: S, pub desc: S, pub info: DAct, pub doc: DAct }
#[derive(Clone, Debug, PartialEq, Eq, Hash, PartialOrd, Ord)]
pub struct DMeth { pub name: S, pub desc: S, pub info: DAct, pub doc: DAct, pub params: Vec<DParam> }
#[derive(Clone, Debug, PartialEq, Eq, Hash, PartialOrd, Ord)]
pub struct DClass { pub name: S, pub info: DAct, pub doc: DAct, pub fields: Vec<DField>, pub methods: Vec<DMeth> }
#[derive(Clone, Debug, PartialEq, Eq, Hash, PartialOrd, Ord)]
pub struct DDiff { pub info: DAct, pub doc: DAct, pub classes: Vec<DClass> }

impl DDiff {
	fn canon(&self) -> DDiff {
		let mut d = self.clone();
		for c in &mut d.classes {
			for m in &mut c.methods { m.params.sort(); }
			c.fields.sort(); c.methods.sort();
		}
		d.classes.sort();
		d
	}
	fn size(&self) -> usize { self.classes.iter().map(|c| 1 + c.fields.len() + c.methods.iter().map(|m| 1 + m.params.len()).sum::<usize>()).sum() }
}

fn g_act(a: &DAct) -> String {
	match a {
		DAct::None => "ANone".into(),
		DAct::Add(b) => format!("(AAdd {})", gstr(b)),
		DAct::Remove(a) => format!("(ARemove {})", gstr(a)),
		DAct::Edit(a, b) => format!("(AEdit {} {})", gstr(a), gstr(b)),
	}
}
fn g_dparam(p: &DParam) -> String { format!("(mkDParam {} {} {})", p.index, g_act(&p.info), g_act(&p.doc)) }
fn g_dfield(f: &DField) -> String { format!("(mkDField {} {} {} {})", gstr(&f.name), gstr(&f.desc), g_act(&f.info), g_act(&f.doc)) }
fn g_dmeth(m: &DMeth) -> String { format!("(mkDMeth {} {} {} {} {})", gstr(&m.name), gstr(&m.desc), g_act(&m.info), g_act(&m.doc), glist(m.params.iter().map(g_dparam))) }
fn g_dclass(c: &DClass) -> String { format!("(mkDClass {} {} {} {} {})", gstr(&c.name), g_act(&c.info), g_act(&c.doc), glist(c.fields.iter().map(g_dfield)), glist(c.methods.iter().map(g_dmeth))) }
fn g_diff(d: &DDiff) -> String { format!("(mkDiff {} {} {})", g_act(&d.info), g_act(&d.doc), glist(d.classes.iter().map(g_dclass))) }

fn act_to<T>(a: &DAct, f: impl Fn(&S) -> T) -> Action<T> {
	match a {
		DAct::None => Action::None,
		DAct::Add(b) => Action::Add(f(b)),
		DAct::Remove(a) => Action::Remove(f(a)),
		DAct::Edit(a, b) => Action::Edit(f(a), f(b)),
	}
}
fn act_from<T>(a: &Action<T>, f: impl Fn(&T) -> S) -> DAct {
	match a {
		Action::None => DAct::None,
		Action::Add(b) => DAct::Add(f(b)),
		Action::Remove(a) => DAct::Remove(f(a)),
		Action::Edit(a, b) => DAct::Edit(f(a), f(b)),
	}
}
fn to_string_lossy(x: &S) -> String { x.iter().map(|&c| char::from_u32(c).unwrap_or('?')).collect() }
fn jdoc(x: &S) -> JavadocMapping { JavadocMapping(to_string_lossy(x)) }

/// builds the quill diff tree by direct insertion into the public IndexMaps, in list order
fn to_quill_diff(d: &DDiff) -> anyhow::Result<MappingsDiff> {
	let mut out = MappingsDiff { info: act_to(&d.info, to_string_lossy), classes: Default::default(), javadoc: act_to(&d.doc, jdoc) };
	for c in &d.classes {
		let mut cn = ClassNowodeDiff { info: act_to(&c.info, class_name), fields: Default::default(), methods: Default::default(), javadoc: act_to(&c.doc, jdoc) };
		for f in &c.fields {
			let key = FieldNameAndDesc { name: field_name(&f.name), desc: field_desc(&f.desc) };
			let node = FieldNowodeDiff { info: act_to(&f.info, field_name), javadoc: act_to(&f.doc, jdoc) };
			if cn.fields.insert(key, node).is_some() { anyhow::bail!("duplicate field key"); }
		}
		for m in &c.methods {
			let key = MethodNameAndDesc { name: method_name(&m.name), desc: method_desc(&m.desc) };
			let mut node = MethodNowodeDiff { info: act_to(&m.info, method_name), parameters: Default::default(), javadoc: act_to(&m.doc, jdoc) };
			for p in &m.params {
				let pn = ParameterNowodeDiff { info: act_to(&p.info, param_name), javadoc: act_to(&p.doc, jdoc) };
				if node.parameters.insert(ParameterKey { index: p.index as usize }, pn).is_some() { anyhow::bail!("duplicate parameter key"); }
			}
			if cn.methods.insert(key, node).is_some() { anyhow::bail!("duplicate method key"); }
		}
		let key: ObjClassName = class_name(&c.name);
		if out.classes.insert(key, cn).is_some() { anyhow::bail!("duplicate class key"); }
	}
	Ok(out)
}
fn from_quill_diff(d: &MappingsDiff) -> DDiff {
	let jd = |j: &JavadocMapping| cps_str(&j.0);
	DDiff {
		info: act_from(&d.info, |x| cps_str(x)), doc: act_from(&d.javadoc, jd),
		classes: d.classes.iter().map(|(k, c)| DClass {
			name: cps(k.as_inner()), info: act_from(&c.info, |x| cps(x.as_inner())), doc: act_from(&c.javadoc, jd),
			fields: c.fields.iter().map(|(k, f)| DField { name: cps(k.name.as_inner()), desc: cps(k.desc.as_inner()), info: act_from(&f.info, |x| cps(x.as_inner())), doc: act_from(&f.javadoc, jd) }).collect(),
			methods: c.methods.iter().map(|(k, m)| DMeth {
				name: cps(k.name.as_inner()), desc: cps(k.desc.as_inner()), info: act_from(&m.info, |x| cps(x.as_inner())), doc: act_from(&m.javadoc, jd),
				params: m.parameters.iter().map(|(k, p)| DParam { index: k.index as u64, info: act_from(&p.info, |x| cps(x.as_inner())), doc: act_from(&p.javadoc, jd) }).collect(),
			}).collect(),
		}).collect(),
	}
}

// =====================================================================================
// the implementation
// =====================================================================================
/// Err(panic message) / Ok(None) = the function returned Err / Ok(Some(result))
fn impl_remove_n<const N: usize>(m: &MMappings, ns: &S) -> Result<Option<MMappings>, String> {
	let q: Mappings<N, NsAny> = to_quill(m).map_err(|e| format!("harness could not build the input: {e}"))?;
	let name = to_string_lossy(ns);
	let q = AssertUnwindSafe(q);
	guarded(move || {
		let q = q;
		q.0.remove_dummy(&name).ok().map(|o| { let mut d = vec![]; let m = from_quill(&o, &mut d); (m, d) })
	}).and_then(|o| match o {
		// an IndexMap key that no longer matches the key derived from the node would be a corrupted result
		Some((_, d)) if !d.is_empty() => Err(format!("result has entries whose map key differs from their info: {}", d.join("; "))),
		Some((m, _)) => Ok(Some(m)),
		None => Ok(None),
	})
}
fn impl_remove(m: &MMappings, ns: &S) -> Result<Option<MMappings>, String> {
	match m.ns.len() {
		2 => impl_remove_n::<2>(m, ns),
		3 => impl_remove_n::<3>(m, ns),
		4 => impl_remove_n::<4>(m, ns),
		n => Err(format!("harness: unsupported namespace count {n}")),
	}
}
fn impl_insert(d: &DDiff) -> Result<Option<DDiff>, String> {
	let q = to_quill_diff(d).map_err(|e| format!("harness could not build the input: {e}"))?;
	let q = AssertUnwindSafe(q);
	guarded(move || { let q = q; q.0.insert_dummy_and_contract_inner_names().ok().map(|o| from_quill_diff(&o)) })
}

// =====================================================================================
// the reference: the documented rules, written bottom-up without `retain`
// =====================================================================================
fn begins(name: &Option<S>, prefixes: &[&str]) -> bool {
	match name { None => false, Some(n) => prefixes.iter().any(|p| { let p = s(p); n.len() >= p.len() && n[..p.len()] == p[..] }) }
}
fn equals(name: &Option<S>, names: &[&str]) -> bool { match name { None => false, Some(n) => names.iter().any(|p| *n == s(p)) } }

fn ref_param(p: &MParam, i: usize) -> Option<MParam> {
	if p.doc.is_none() && begins(&p.names[i], &["p_"]) { None } else { Some(p.clone()) }
}
fn ref_field(f: &MField, i: usize) -> Option<MField> {
	if f.doc.is_none() && begins(&f.names[i], &["f_"]) { None } else { Some(f.clone()) }
}
fn ref_meth(m: &MMeth, i: usize) -> Option<MMeth> {
	let params: Vec<MParam> = m.params.iter().filter_map(|p| ref_param(p, i)).collect();
	let dummy_name = begins(&m.names[i], &["m_"]) || equals(&m.names[i], &["<init>", "<clinit>"]);
	if m.doc.is_none() && params.is_empty() && dummy_name { None } else { Some(MMeth { desc: m.desc.clone(), names: m.names.clone(), doc: m.doc.clone(), params }) }
}
fn ref_class(c: &MClass, i: usize) -> Option<MClass> {
	let fields: Vec<MField> = c.fields.iter().filter_map(|f| ref_field(f, i)).collect();
	let methods: Vec<MMeth> = c.methods.iter().filter_map(|m| ref_meth(m, i)).collect();
	let dummy_name = begins(&c.names[i], &["C_", "net/minecraft/unmapped/C_"]);
	if c.doc.is_none() && fields.is_empty() && methods.is_empty() && dummy_name { None } else { Some(MClass { names: c.names.clone(), doc: c.doc.clone(), fields, methods }) }
}
fn ref_remove(m: &MMappings, ns: &S) -> Option<MMappings> {
	let i = m.ns.iter().position(|n| n == ns)?;
	Some(MMappings { ns: m.ns.clone(), doc: m.doc.clone(), classes: m.classes.iter().filter_map(|c| ref_class(c, i)).collect() })
}

fn act_is_diff(a: &DAct) -> bool { match a { DAct::None => false, DAct::Add(_) | DAct::Remove(_) => true, DAct::Edit(a, b) => a != b } }
/// simple inner name: the part after the last `$`, when there is a non-empty outer part not ending in `/` and the inner part is non-empty without `/`
fn ref_simple_inner(k: &S) -> S {
	if let Some(pos) = k.iter().rposition(|&c| c == '$' as u32) {
		let (outer, inner) = (&k[..pos], &k[pos + 1..]);
		if !outer.is_empty() && !inner.is_empty() && *outer.last().unwrap() != '/' as u32 && !inner.contains(&('/' as u32)) { return inner.to_vec(); }
	}
	k.clone()
}
/// the rewritten action and whether the node itself counts as a (legal) change
fn ref_node(info: &DAct, doc: &DAct, placeholder: S) -> (DAct, bool) {
	match info {
		DAct::Add(b) => (DAct::Add(b.clone()), false),
		DAct::Remove(a) => { let changes = *a != placeholder || act_is_diff(doc); (DAct::Edit(a.clone(), placeholder), changes) }
		DAct::None => (DAct::None, act_is_diff(doc)),
		DAct::Edit(a, b) => (DAct::Edit(a.clone(), b.clone()), a != b || act_is_diff(doc)),
	}
}
fn ref_dparam(p: &DParam) -> Option<DParam> {
	let (info, ch) = ref_node(&p.info, &p.doc, s(&format!("p_{}", p.index)));
	if ch { Some(DParam { index: p.index, info, doc: p.doc.clone() }) } else { None }
}
fn ref_dfield(f: &DField) -> Option<DField> {
	let (info, ch) = ref_node(&f.info, &f.doc, f.name.clone());
	if ch { Some(DField { name: f.name.clone(), desc: f.desc.clone(), info, doc: f.doc.clone() }) } else { None }
}
fn ref_dmeth(m: &DMeth) -> Option<DMeth> {
	let params: Vec<DParam> = m.params.iter().filter_map(ref_dparam).collect();
	let (info, ch) = ref_node(&m.info, &m.doc, m.name.clone());
	if ch || !params.is_empty() { Some(DMeth { name: m.name.clone(), desc: m.desc.clone(), info, doc: m.doc.clone(), params }) } else { None }
}
fn ref_dclass(c: &DClass) -> Option<DClass> {
	let fields: Vec<DField> = c.fields.iter().filter_map(ref_dfield).collect();
	let methods: Vec<DMeth> = c.methods.iter().filter_map(ref_dmeth).collect();
	let (info, ch) = ref_node(&c.info, &c.doc, ref_simple_inner(&c.name));
	if ch || !fields.is_empty() || !methods.is_empty() { Some(DClass { name: c.name.clone(), info, doc: c.doc.clone(), fields, methods }) } else { None }
}
fn ref_insert(d: &DDiff) -> DDiff { DDiff { info: d.info.clone(), doc: d.doc.clone(), classes: d.classes.iter().filter_map(ref_dclass).collect() } }

// =====================================================================================
// human-readable dumps for replay files
// =====================================================================================
fn sh_names(n: &NamesRow) -> String { n.iter().map(|o| match o { Some(x) => show(x), None => "<absent>".into() }).collect::<Vec<_>>().join(" | ") }
fn sh_doc(d: &Option<S>) -> String { match d { Some(x) => format!("   // comment {:?}", show(x)), None => String::new() } }
fn dump_mappings(m: &MMappings) -> String {
	let mut t = format!("namespaces: {}\n", m.ns.iter().map(|x| show(x)).collect::<Vec<_>>().join(" | "));
	for c in &m.classes {
		t += &format!("class {}{}\n", sh_names(&c.names), sh_doc(&c.doc));
		for f in &c.fields { t += &format!("  field {} : {}{}\n", sh_names(&f.names), show(&f.desc), sh_doc(&f.doc)); }
		for me in &c.methods {
			t += &format!("  method {} : {}{}\n", sh_names(&me.names), show(&me.desc), sh_doc(&me.doc));
			for p in &me.params { t += &format!("    parameter #{} {}{}\n", p.index, sh_names(&p.names), sh_doc(&p.doc)); }
		}
	}
	if m.classes.is_empty() { t += "(no classes)\n"; }
	t
}
fn sh_act(a: &DAct) -> String {
	match a { DAct::None => "None".into(), DAct::Add(b) => format!("Add({})", show(b)), DAct::Remove(a) => format!("Remove({})", show(a)), DAct::Edit(a, b) => format!("Edit({} -> {})", show(a), show(b)) }
}
fn dump_diff(d: &DDiff) -> String {
	let mut t = format!("diff info {} javadoc {}\n", sh_act(&d.info), sh_act(&d.doc));
	for c in &d.classes {
		t += &format!("class [{}] name {} javadoc {}\n", show(&c.name), sh_act(&c.info), sh_act(&c.doc));
		for f in &c.fields { t += &format!("  field [{} {}] name {} javadoc {}\n", show(&f.name), show(&f.desc), sh_act(&f.info), sh_act(&f.doc)); }
		for m in &c.methods {
			t += &format!("  method [{} {}] name {} javadoc {}\n", show(&m.name), show(&m.desc), sh_act(&m.info), sh_act(&m.doc));
			for p in &m.params { t += &format!("    parameter [{}] name {} javadoc {}\n", p.index, sh_act(&p.info), sh_act(&p.doc)); }
		}
	}
	if d.classes.is_empty() { t += "(no classes)\n"; }
	t
}

// =====================================================================================
// one input through implementation, oracle and case printer
// =====================================================================================
fn counts(m: &MMappings) -> (usize, usize, usize, usize) {
	(m.classes.len(), m.classes.iter().map(|c| c.fields.len()).sum(), m.classes.iter().map(|c| c.methods.len()).sum(),
		m.classes.iter().map(|c| c.methods.iter().map(|m| m.params.len()).sum::<usize>()).sum())
}

fn through_remove(r: &mut Report, m: &MMappings, ns: &S, stream: &str) {
	let head = |what: &str| format!("property C10\ncall: Mappings::remove_dummy({:?})\nwhat: {what}\ninput:\n{}", show(ns), dump_mappings(m));
	// (no recursion in the filter itself; the crumb makes a death of the process — abort, endless loop — reportable with its input)
	crumb(&head("the harness process died inside remove_dummy on this input"));
	let got = match impl_remove(m, ns) {
		Err(p) => { r.eval(&format!("R{}{}", g_mappings(m), gstr(ns)), false); r.violation(format!("remove_dummy panicked or input not buildable: {p}"), head(&p)); return; }
		Ok(g) => g,
	};
	let fresh = r.eval(&format!("R{}{}", g_mappings(m), gstr(ns)), m.size() > 0 && got.is_some());
	let want = ref_remove(m, ns);
	// oracle 1: the documented rules
	match (&got, &want) {
		(None, None) => { r.count("remove:outcome:Err(namespace unknown)"); }
		(Some(g), Some(w)) => {
			if !g.equiv(w) {
				r.violation("remove_dummy result differs from the documented rules".into(),
					format!("{}implementation returned:\n{}documented rules give:\n{}", head("result differs from the documented removal rules (reference implementation in the harness)"), dump_mappings(g), dump_mappings(w)));
			}
			let (a, b) = (counts(m), counts(g));
			if fresh {
				r.count("remove:outcome:Ok");
				if b.0 < a.0 { r.count("remove:removed_some_class"); }
				if b.1 < a.1 { r.count("remove:removed_some_field"); }
				if b.2 < a.2 { r.count("remove:removed_some_method"); }
				if b.3 < a.3 { r.count("remove:removed_some_parameter"); }
				if b == a { r.count("remove:nothing_removed"); }
				if g.size() == 0 && m.size() > 0 { r.count("remove:everything_removed"); }
				if m.classes.iter().any(|c| c.doc.is_none() && begins(&c.names[m.ns.iter().position(|n| n == ns).unwrap()], &["C_", "net/minecraft/unmapped/C_"]) && g.classes.iter().any(|d| d.names == c.names)) { r.count("remove:placeholder_class_kept_for_children"); }
			}
			// oracle 2: idempotence on the implementation
			match impl_remove(g, ns) {
				Ok(Some(g2)) if g2.equiv(g) => {}
				other => r.violation("remove_dummy is not idempotent".into(),
					format!("{}first application:\n{}second application: {}\n", head("applying remove_dummy twice differs from applying it once"), dump_mappings(g),
						match other { Ok(Some(x)) => format!("\n{}", dump_mappings(&x)), Ok(None) => "Err".into(), Err(p) => format!("panic {p}") })),
			}
			// oracle 3: a removed entry has no retained child — give each removed class / method a
			// comment (then it must stay) and look at the children it comes back with
			for (ci, c) in m.classes.iter().enumerate() {
				let out_c = g.classes.iter().find(|d| d.names == c.names && d.doc == c.doc);
				if out_c.is_none() && (!c.fields.is_empty() || !c.methods.is_empty()) {
					let mut m2 = m.clone(); m2.classes[ci].doc = Some(s("kept for the orphan check"));
					match impl_remove(&m2, ns) {
						Ok(Some(g2)) => {
							let back = g2.classes.iter().find(|d| d.names == c.names);
							if back.map_or(true, |d| !d.fields.is_empty() || !d.methods.is_empty()) {
								r.violation("remove_dummy removed a class that had a retained child".into(),
									format!("{}the class {} was removed, but with a comment added to it (nothing else changed) it is returned as:\n{}", head("a removed class still had a child the filter retains"), sh_names(&c.names), dump_mappings(&g2)));
							}
						}
						other => r.violation("remove_dummy failed on the orphan probe".into(), format!("{}probe result: {:?}", head("orphan probe"), other.map(|o| o.is_some()))),
					}
					r.count("remove:orphan_probe_class");
				}
				for (mi, me) in c.methods.iter().enumerate() {
					let kept = out_c.map_or(false, |d| d.methods.iter().any(|x| x.names == me.names && x.desc == me.desc));
					if !kept && !me.params.is_empty() {
						let mut m2 = m.clone(); m2.classes[ci].methods[mi].doc = Some(s("kept for the orphan check"));
						match impl_remove(&m2, ns) {
							Ok(Some(g2)) => {
								let back = g2.classes.iter().find(|d| d.names == c.names).and_then(|d| d.methods.iter().find(|x| x.names == me.names && x.desc == me.desc));
								if back.map_or(true, |x| !x.params.is_empty()) {
									r.violation("remove_dummy removed a method that had a retained parameter".into(),
										format!("{}the method {} of class {} was removed, but with a comment added to it it is returned as:\n{}", head("a removed method still had a parameter the filter retains"), sh_names(&me.names), sh_names(&c.names), dump_mappings(&g2)));
								}
							}
							other => r.violation("remove_dummy failed on the orphan probe".into(), format!("{}probe result: {:?}", head("orphan probe"), other.map(|o| o.is_some()))),
						}
						r.count("remove:orphan_probe_method");
					}
				}
			}
		}
		(g, w) => {
			r.violation("remove_dummy Ok/Err differs from the documented behaviour".into(),
				format!("{}implementation: {}, expected: {}\n", head("success/failure differs (must fail exactly when the namespace is unknown)"), if g.is_some() { "Ok" } else { "Err" }, if w.is_some() { "Ok" } else { "Err" }));
		}
	}
	if fresh { r.case(stream, format!("CRemove {} {} {}", g_mappings(m), gstr(ns), gres(got.as_ref().map(g_mappings)))); }
}

fn through_insert(r: &mut Report, d: &DDiff, stream: &str) {
	let head = |what: &str| format!("property C10\ncall: MappingsDiff::insert_dummy_and_contract_inner_names()\nwhat: {what}\ninput:\n{}", dump_diff(d));
	crumb(&head("the harness process died inside insert_dummy_and_contract_inner_names on this input"));
	let got = match impl_insert(d) {
		Err(p) => { r.eval(&format!("I{}", g_diff(d)), false); r.violation(format!("insert_dummy panicked or input not buildable: {p}"), head(&p)); return; }
		Ok(g) => g,
	};
	let fresh = r.eval(&format!("I{}", g_diff(d)), d.size() > 0 && got.is_some());
	let want = ref_insert(d);
	match &got {
		None => r.violation("insert_dummy returned Err".into(), head("the function returned Err; it is documented (and written) to always succeed")),
		Some(g) => {
			if g.canon() != want.canon() {
				r.violation("insert_dummy result differs from the documented rules".into(),
					format!("{}implementation returned:\n{}documented rules give:\n{}", head("result differs from the documented rules (reference implementation in the harness)"), dump_diff(g), dump_diff(&want)));
			}
			if fresh {
				if g.size() < d.size() { r.count("insert:dropped_some_node"); } else { r.count("insert:nothing_dropped"); }
				if g.size() == 0 && d.size() > 0 { r.count("insert:everything_dropped"); }
				let removes = |x: &DDiff| x.classes.iter().map(|c| matches!(c.info, DAct::Remove(_)) as usize
					+ c.fields.iter().filter(|f| matches!(f.info, DAct::Remove(_))).count()
					+ c.methods.iter().map(|m| matches!(m.info, DAct::Remove(_)) as usize + m.params.iter().filter(|p| matches!(p.info, DAct::Remove(_))).count()).sum::<usize>()).sum::<usize>();
				if removes(d) > 0 { r.count("insert:input_has_remove"); }
				if g.classes.iter().any(|c| matches!(c.info, DAct::Add(_)) || c.methods.iter().any(|m| matches!(m.info, DAct::Add(_)))) { r.count("insert:added_node_survives_with_children"); }
			}
			// structural clauses of the property, checked on the implementation's output directly
			let mut bad = vec![];
			for c in &g.classes {
				if matches!(c.info, DAct::Remove(_)) { bad.push(format!("class {} still carries a Remove", show(&c.name))); }
				if matches!(c.info, DAct::Add(_)) && c.fields.is_empty() && c.methods.is_empty() { bad.push(format!("added class {} survives without children", show(&c.name))); }
				for f in &c.fields {
					if matches!(f.info, DAct::Remove(_)) { bad.push(format!("field {} still carries a Remove", show(&f.name))); }
					if matches!(f.info, DAct::Add(_)) { bad.push(format!("added field {} survives", show(&f.name))); }
				}
				for m in &c.methods {
					if matches!(m.info, DAct::Remove(_)) { bad.push(format!("method {} still carries a Remove", show(&m.name))); }
					if matches!(m.info, DAct::Add(_)) && m.params.is_empty() { bad.push(format!("added method {} survives without parameters", show(&m.name))); }
					for p in &m.params {
						if matches!(p.info, DAct::Remove(_)) { bad.push(format!("parameter {} still carries a Remove", p.index)); }
						if matches!(p.info, DAct::Add(_)) { bad.push(format!("added parameter {} survives", p.index)); }
					}
				}
			}
			if !bad.is_empty() {
				r.violation(format!("insert_dummy output breaks a clause: {}", bad[0]), format!("{}clauses broken: {:?}\nimplementation returned:\n{}", head(&bad[0]), bad, dump_diff(g)));
			}
			// idempotence on the implementation
			match impl_insert(g) {
				Ok(Some(g2)) if g2.canon() == g.canon() => {}
				other => r.violation("insert_dummy is not idempotent".into(),
					format!("{}first application:\n{}second application: {}\n", head("applying the filter twice differs from applying it once"), dump_diff(g),
						match other { Ok(Some(x)) => format!("\n{}", dump_diff(&x)), Ok(None) => "Err".into(), Err(p) => format!("panic {p}") })),
			}
		}
	}
	if fresh { r.case(stream, format!("CInsert {} {}", g_diff(d), gres(got.as_ref().map(g_diff)))); }
}

// =====================================================================================
// generators
// =====================================================================================
// name kinds of the truth table; None = absent in the chosen namespace
const CLASS_KINDS: [(&str, Option<&str>); 30] = [
	("placeholder", Some("C_1")), ("unmapped-placeholder", Some("net/minecraft/unmapped/C_77")), ("pkg/C_", Some("pkg/C_1")),
	("nested Outer$C_", Some("Outer$C_1")), ("prefix-in-the-middle", Some("xC_1")), ("ends-with-prefix", Some("AC_")),
	("real", Some("Real")), ("absent", None), ("bare-prefix", Some("C_")), ("unmapped-real", Some("net/minecraft/unmapped/Real")),
	("bare-unmapped-prefix", Some("net/minecraft/unmapped/C_")), ("lower-case", Some("c_1")), ("prefix-without-underscore", Some("C1")),
	// the rule is a pure PREFIX rule: whatever follows the prefix (a further package separator, `$`, letters) is irrelevant
	("placeholder-then-slash", Some("C_12/Foo")), ("unmapped-placeholder-then-slash", Some("net/minecraft/unmapped/C_5/Bar")),
	("placeholder-then-dollar", Some("C_1$Inner")), ("placeholder-non-numeric", Some("C_abc")),
	// round 4: the test is on the FULL name, never on the simple name (part after the last `/`) or on an inner name (after `$`),
	// and the long prefix is exactly `net/minecraft/unmapped/C_`: look-alikes of both prefixes
	("deep-pkg/C_", Some("com/example/gl/C_Api")), ("pkg/C_Holder$Inner", Some("com/example/C_Holder$Inner")), ("bare-C", Some("C")),
	("bare-unmapped-package", Some("net/minecraft/unmapped/")), ("unmapped-without-slash", Some("net/minecraft/unmappedC_x")),
	("unmapped-lower-case-c", Some("net/minecraft/unmapped/c_1")), ("unmapped-other-case", Some("Net/Minecraft/Unmapped/C_1")),
	("unmapped-suffix-only", Some("minecraft/unmapped/C_1")), ("other-root/unmapped", Some("com/net/minecraft/unmapped/C_1")),
	("unmapped-deeper-package", Some("net/minecraft/unmapped/sub/C_1")), ("unmapped-nested-C_", Some("net/minecraft/unmapped/Outer$C_1")),
	("underscore-before", Some("_C_1")), ("unmapped-no-underscore", Some("net/minecraft/unmapped/C1")),
];
const FIELD_KINDS: [(&str, Option<&str>); 10] = [
	("placeholder", Some("f_1")), ("prefix-in-the-middle", Some("xf_1")), ("ends-with-prefix", Some("af_")), ("real", Some("real")),
	("absent", None), ("bare-prefix", Some("f_")), ("upper-case", Some("F_1")), ("other-level-prefix", Some("m_1")), ("prefix-without-underscore", Some("f1")), ("placeholder-non-numeric", Some("f_abc$x")),
];
const METHOD_KINDS: [(&str, Option<&str>); 15] = [
	("placeholder", Some("m_1")), ("prefix-in-the-middle", Some("xm_1")), ("ends-with-prefix", Some("am_")), ("real", Some("real")),
	("absent", None), ("<init>", Some("<init>")), ("<clinit>", Some("<clinit>")), ("<init>-then-more", Some("<init>x")),
	("ends-with-<init>", Some("x<init>")), ("bare-prefix", Some("m_")), ("other-level-prefix", Some("f_1")), ("<Init>", Some("<Init>")), ("prefix-without-underscore", Some("m1")),
	("placeholder-non-numeric", Some("m_abc$x")), ("<clinit>-then-more", Some("<clinit>0")),
];
const PARAM_KINDS: [(&str, Option<&str>); 10] = [
	("placeholder", Some("p_1")), ("prefix-in-the-middle", Some("xp_1")), ("ends-with-prefix", Some("ap_")), ("real", Some("real")),
	("absent", None), ("bare-prefix", Some("p_")), ("upper-case", Some("P_1")), ("prefix-without-underscore", Some("p1")), ("placeholder-non-numeric", Some("p_abc")), ("placeholder-then-more", Some("p_1x")),
];

/// doc: 0 = no comment, 1 = a comment, 2 = the EMPTY comment Some("") (it is a comment: the entry must be kept)
#[derive(Clone, Copy)]
struct Node { kind: usize, doc: u8 }
#[derive(Clone, Copy)]
struct Path { class: Node, field: Option<Node>, meth: Option<(Node, Option<Node>)>, ns: usize, src_placeholder: bool }

fn doc_of(b: u8) -> Option<S> { match b { 0 => None, 1 => Some(s("a comment")), _ => Some(vec![]) } }
/// a row for 2 namespaces: when the chosen namespace is 1 the first cell is the source name and the
/// second the kind; when it is 0 the first cell is the kind (an absent kind falls back to the source
/// name for keyed entries) and the second a placeholder that must be irrelevant
fn row2(ns: usize, src: &str, kind: Option<&str>, other_placeholder: &str, keyed: bool) -> Option<NamesRow> {
	if ns == 1 { Some(vec![Some(s(src)), kind.map(s)]) }
	else if kind.is_none() && keyed { None }
	else { Some(vec![kind.map(s), Some(s(other_placeholder))]) }
}
fn single_path(p: &Path) -> Option<MMappings> {
	let (csrc, fsrc, msrc, psrc) = if p.src_placeholder { ("C_0", "f_0", "m_0", "p_0") } else { ("a/A", "fa", "ma", "pa") };
	let mut c = MClass { names: row2(p.ns, csrc, CLASS_KINDS[p.class.kind].1, "C_9", true)?, doc: doc_of(p.class.doc), fields: vec![], methods: vec![] };
	if let Some(f) = p.field {
		c.fields.push(MField { desc: s("I"), names: row2(p.ns, fsrc, FIELD_KINDS[f.kind].1, "f_9", true)?, doc: doc_of(f.doc) });
	}
	if let Some((m, par)) = p.meth {
		let mut me = MMeth { desc: s("(I)V"), names: row2(p.ns, msrc, METHOD_KINDS[m.kind].1, "m_9", true)?, doc: doc_of(m.doc), params: vec![] };
		if let Some(pa) = par {
			let names = if p.ns == 1 { vec![if p.src_placeholder { Some(s(psrc)) } else { None }, PARAM_KINDS[pa.kind].1.map(s)] } else { vec![PARAM_KINDS[pa.kind].1.map(s), Some(s("p_9"))] };
			me.params.push(MParam { index: 1, names, doc: doc_of(pa.doc) });
		}
		c.methods.push(me);
	}
	// the comment of the mapping set itself (never looked at by the filter, must come back unchanged — also when every class goes)
	let top = match p.class.kind % 4 { 1 => Some(s("a comment on the mappings")), 2 => Some(vec![]), _ => None };
	Some(MMappings { ns: vec![s("official"), s("named")], doc: top, classes: vec![c] })
}
fn run_path(r: &mut Report, p: &Path, stream: &str) {
	if let Some(m) = single_path(p) {
		let ns = m.ns[p.ns].clone();
		r.count(&format!("table:class:{}", CLASS_KINDS[p.class.kind].0));
		if let Some(f) = p.field { r.count(&format!("table:field:{}", FIELD_KINDS[f.kind].0)); }
		if let Some((me, pa)) = p.meth {
			r.count(&format!("table:method:{}", METHOD_KINDS[me.kind].0));
			if let Some(pa) = pa { r.count(&format!("table:parameter:{}", PARAM_KINDS[pa.kind].0)); }
		}
		through_remove(r, &m, &ns, stream);
	}
}

fn all_nodes(kinds: usize) -> Vec<Node> { (0..kinds).flat_map(|k| [0u8, 1].into_iter().map(move |doc| Node { kind: k, doc })).collect() }

/// the empty comment Some("") at every level, for every name kind: `javadoc.is_some()` keeps the entry (and its parents),
/// a test for a NON-EMPTY comment would not.  Parents are placeholders without comment, so the difference cascades upwards.
fn remove_empty_comment_tables(r: &mut Report) {
	let n = |kind, doc: u8| Node { kind, doc };
	for ns in [1usize, 0] {
		for k in 0..PARAM_KINDS.len() { for me in [n(0, 0), n(5, 0), n(3, 0)] {
			run_path(r, &Path { class: n(0, 0), field: None, meth: Some((me, Some(n(k, 2)))), ns, src_placeholder: false }, "table-empty-comment");
		} }
		for k in 0..FIELD_KINDS.len() { for cl in [n(0, 0), n(1, 0), n(6, 0)] {
			run_path(r, &Path { class: cl, field: Some(n(k, 2)), meth: None, ns, src_placeholder: false }, "table-empty-comment");
		} }
		for k in 0..METHOD_KINDS.len() { for pa in [None, Some(n(0, 0)), Some(n(0, 2))] { for cl in [n(0, 0), n(1, 0)] {
			run_path(r, &Path { class: cl, field: None, meth: Some((n(k, 2), pa)), ns, src_placeholder: false }, "table-empty-comment");
		} } }
		for k in 0..CLASS_KINDS.len() { for f in [None, Some(n(0, 0)), Some(n(0, 2))] { for me in [None, Some((n(0, 0), None)), Some((n(5, 0), Some(n(0, 0))))] {
			run_path(r, &Path { class: n(k, 2), field: f, meth: me, ns, src_placeholder: false }, "table-empty-comment");
		} } }
	}
}

/// the level tables: every (name kind x comment) of one level against representative parents and children
fn remove_tables(r: &mut Report) {
	let n = |kind, doc: bool| Node { kind, doc: doc as u8 };
	// representatives: removed-if-alone, kept-by-comment, kept-by-name
	let rep_param = [None, Some(n(0, false)), Some(n(0, true)), Some(n(3, false)), Some(n(4, false))];
	let rep_field = [None, Some(n(0, false)), Some(n(0, true)), Some(n(3, false))];
	let rep_meth: Vec<Option<(Node, Option<Node>)>> = vec![None, Some((n(0, false), None)), Some((n(0, false), Some(n(0, false)))), Some((n(0, false), Some(n(3, false)))),
		Some((n(5, false), None)), Some((n(6, false), Some(n(0, true)))), Some((n(3, false), None)), Some((n(0, true), None))];
	let rep_class = [n(0, false), n(1, false), n(6, false), n(0, true)];
	for ns in [1usize, 0] {
		for src_placeholder in [false, true] {
			if ns == 0 && src_placeholder { continue; }
			// the first variant gets every representative parent / child, the two others a reduced set
			let full = ns == 1 && !src_placeholder;
			let parents: &[Node] = if full { &rep_class[..] } else { &rep_class[..1] };
			// parameter level
			for pa in all_nodes(PARAM_KINDS.len()) {
				for me in if full { vec![n(0, false), n(5, false), n(3, false), n(0, true)] } else { vec![n(0, false)] } {
					for cl in parents { run_path(r, &Path { class: *cl, field: None, meth: Some((me, Some(pa))), ns, src_placeholder }, "table-parameter"); }
				}
			}
			// field level
			for f in all_nodes(FIELD_KINDS.len()) {
				for cl in parents { for me in [None, Some((n(0, false), None))] { run_path(r, &Path { class: *cl, field: Some(f), meth: me, ns, src_placeholder }, "table-field"); } }
			}
			// method level
			for me in all_nodes(METHOD_KINDS.len()) {
				for pa in if full { &rep_param[..] } else { &rep_param[..3] } { for cl in parents { for f in [None, Some(n(0, false))] {
					run_path(r, &Path { class: *cl, field: f, meth: Some((me, *pa)), ns, src_placeholder }, "table-method");
				} } }
			}
			// class level
			for cl in all_nodes(CLASS_KINDS.len()) {
				for f in if full { &rep_field[..] } else { &rep_field[..3] } { for me in if full { &rep_meth[..] } else { &rep_meth[..4] } {
					run_path(r, &Path { class: cl, field: *f, meth: *me, ns, src_placeholder }, "table-class");
				} }
			}
		}
	}
}

/// the product of the four levels for single-path trees: a random sample over all kinds
/// (60 x 21 x 631 trees for the second namespace), or, with `sample = None`, the FULL product
/// over the reduced kind sets (placeholder, prefix in the middle, real, absent, and
/// net/minecraft/unmapped/C_… for classes, <init> for methods): 10 x 9 x 91 = 8 190 trees
fn remove_product(r: &mut Report, rng: &mut Rng, sample: Option<usize>) {
	let pick_kinds = |all: usize, reduced: &[usize]| -> Vec<Node> {
		if sample.is_some() { all_nodes(all) } else { reduced.iter().flat_map(|&k| [0u8, 1].into_iter().map(move |doc| Node { kind: k, doc })).collect() }
	};
	let opt = |v: Vec<Node>| -> Vec<Option<Node>> { std::iter::once(None).chain(v.into_iter().map(Some)).collect() };
	let classes = pick_kinds(CLASS_KINDS.len(), &[0, 1, 4, 6, 7]);
	let fields = opt(pick_kinds(FIELD_KINDS.len(), &[0, 1, 3, 4]));
	let params = opt(pick_kinds(PARAM_KINDS.len(), &[0, 1, 3, 4]));
	let mut meths: Vec<Option<(Node, Option<Node>)>> = vec![None];
	for me in pick_kinds(METHOD_KINDS.len(), &[0, 1, 3, 4, 5]) { for pa in &params { meths.push(Some((me, *pa))); } }
	match sample {
		Some(k) => for _ in 0..k {
			let mut p = Path { class: *rng.pick(&classes), field: *rng.pick(&fields), meth: *rng.pick(&meths), ns: if rng.chance(1, 6) { 0 } else { 1 }, src_placeholder: rng.chance(1, 4) };
			// one comment in six is the empty one
			let e = |rng: &mut Rng, n: &mut Node| if n.doc == 1 && rng.chance(1, 6) { n.doc = 2; };
			e(rng, &mut p.class);
			if let Some(f) = &mut p.field { e(rng, f); }
			if let Some((m, pa)) = &mut p.meth { e(rng, m); if let Some(pa) = pa { e(rng, pa); } }
			run_path(r, &p, "product-sample");
		},
		None => for cl in &classes { for f in &fields { for me in &meths {
			run_path(r, &Path { class: *cl, field: *f, meth: *me, ns: 1, src_placeholder: false }, "product-full");
		} } },
	}
}

const DUMMY_CLASS: [&str; 16] = ["C_1", "C_204", "net/minecraft/unmapped/C_5", "a/C_1", "Outer$C_2", "C_", "C9", "C_12/Foo", "net/minecraft/unmapped/C_5/Bar", "C_1$In",
	"com/example/gl/C_Api", "com/example/C_Holder$Inner", "net/minecraft/unmappedC_x", "net/minecraft/unmapped/", "net/minecraft/unmapped/c_1", "C"];
const DUMMY_FIELD: [&str; 6] = ["f_1", "f_22", "f_", "af_1", "f2", "f_x"];
const DUMMY_METH: [&str; 9] = ["m_1", "m_33", "<init>", "<clinit>", "m_", "am_1", "<init>2", "m3", "m_x"];
const DUMMY_PARAM: [&str; 6] = ["p_1", "p_0", "p_", "ap_1", "p4", "p_x"];

/// pushes a random tree towards the interesting region: many placeholder names in the chosen
/// namespace and few comments, so that removals cascade
fn dummify(rng: &mut Rng, m: &mut MMappings, i: usize) {
	let strip = |rng: &mut Rng, d: &mut Option<S>| if rng.chance(2, 3) { *d = None; } else if rng.chance(1, 4) { *d = Some(vec![]); };
	// the comment of the mapping set itself: absent, present, empty (the shared generator leaves it absent)
	m.doc = match rng.below(4) { 0 => Some(s("about these mappings")), 1 => Some(vec![]), _ => None };
	for c in &mut m.classes {
		if i > 0 { if rng.chance(1, 2) { c.names[i] = Some(s(*rng.pick(&DUMMY_CLASS[..]))); } else if rng.chance(1, 6) { c.names[i] = None; } }
		strip(rng, &mut c.doc);
		for f in &mut c.fields {
			if i > 0 { if rng.chance(1, 2) { f.names[i] = Some(s(*rng.pick(&DUMMY_FIELD[..]))); } else if rng.chance(1, 6) { f.names[i] = None; } }
			strip(rng, &mut f.doc);
		}
		for me in &mut c.methods {
			if i > 0 { if rng.chance(1, 2) { me.names[i] = Some(s(*rng.pick(&DUMMY_METH[..]))); } else if rng.chance(1, 6) { me.names[i] = None; } }
			strip(rng, &mut me.doc);
			for p in &mut me.params {
				if rng.chance(1, 2) { p.names[i] = Some(s(*rng.pick(&DUMMY_PARAM[..]))); } else if rng.chance(1, 6) { p.names[i] = None; }
				strip(rng, &mut p.doc);
			}
		}
	}
}

// ---------- diff side ----------
const INFO_KINDS: [&str; 9] = ["None", "Add(x)", "Remove(old)", "Remove(placeholder)", "Edit(old,new)", "Edit(same,same)", "Edit(placeholder,placeholder)", "Edit(old,placeholder)", "Add(placeholder)"];
fn info_kind(k: usize, ph: &S) -> DAct {
	match k {
		0 => DAct::None, 1 => DAct::Add(s("added")), 2 => DAct::Remove(s("old")), 3 => DAct::Remove(ph.clone()),
		4 => DAct::Edit(s("old"), s("new")), 5 => DAct::Edit(s("same"), s("same")), 6 => DAct::Edit(ph.clone(), ph.clone()),
		7 => DAct::Edit(s("old"), ph.clone()), _ => DAct::Add(ph.clone()),
	}
}
const DOC_KINDS: [&str; 10] = ["None", "Add", "Remove", "Edit(a,b)", "Edit(a,a)", "Add(empty)", "Remove(empty)", "Edit(empty,empty)", "Edit(empty,a)", "Edit(a,empty)"];
/// the first five are crossed with everything; the five with the EMPTY comment run against reduced parents / children
const MAIN_DOC_KINDS: usize = 5;
fn doc_kind(k: usize) -> DAct {
	match k {
		0 => DAct::None, 1 => DAct::Add(s("doc")), 2 => DAct::Remove(s("doc")), 3 => DAct::Edit(s("doc"), s("other doc")), 4 => DAct::Edit(s("doc"), s("doc")),
		5 => DAct::Add(vec![]), 6 => DAct::Remove(vec![]), 7 => DAct::Edit(vec![], vec![]), 8 => DAct::Edit(vec![], s("doc")), _ => DAct::Edit(s("doc"), vec![]),
	}
}
const CLASS_KEYS: [&str; 23] = ["A", "pkg/A", "a/Outer$Inner", "A$B$C", "pkg/A$1", "$B", "A$", "a/$B", "A$b/C", "a$b/Outer$In", "$", "a/b$/C$D",
	// round 5: a simple name that STARTS with `$` at every level - default package, one / several package levels, as the outer part of a
	// further `$`, doubled, numeric, behind a package component that itself contains `$`, `$` as a whole package component.
	// Only a `$` with a non-empty outer part that does not end in `/` splits: com/example/$Proxy is NOT contracted to Proxy.
	"com/example/$Proxy", "a/b/c/$D", "$B$C", "a/$B$C", "a/$$B", "a/$1", "$1", "a/b$c/$D", "a/$/B", "pkg/Outer$$Inner", "com/sun/proxy/$Proxy12"];
const PARAM_INDICES: [u64; 6] = [0, 3, 10, 255, 4294967296, u64::MAX];

fn dparam(index: u64, ik: usize, dk: usize) -> DParam { DParam { index, info: info_kind(ik, &s(&format!("p_{index}"))), doc: doc_kind(dk) } }
fn dfield(name: &str, ik: usize, dk: usize) -> DField { DField { name: s(name), desc: s("I"), info: info_kind(ik, &s(name)), doc: doc_kind(dk) } }
fn dmeth(name: &str, ik: usize, dk: usize, params: Vec<DParam>) -> DMeth { DMeth { name: s(name), desc: s("(I)V"), info: info_kind(ik, &s(name)), doc: doc_kind(dk), params } }
fn dclass(key: &str, ik: usize, dk: usize, fields: Vec<DField>, methods: Vec<DMeth>) -> DClass {
	DClass { name: s(key), info: info_kind(ik, &ref_simple_inner(&s(key))), doc: doc_kind(dk), fields, methods }
}
fn ddiff(classes: Vec<DClass>) -> DDiff { DDiff { info: DAct::None, doc: DAct::None, classes } }

fn insert_tables(r: &mut Report) {
	let nk = INFO_KINDS.len(); let nd = MAIN_DOC_KINDS;
	let go = |r: &mut Report, d: DDiff, stream: &str, level: &str, ik: usize, dk: usize| {
		r.count(&format!("table:diff-{level}:info={}", INFO_KINDS[ik]));
		r.count(&format!("table:diff-{level}:javadoc={}", DOC_KINDS[dk]));
		through_insert(r, &d, stream);
	};
	// parameter level (under a method and class that change nothing themselves, and under added ones)
	for ik in 0..nk { for dk in 0..nd { for &idx in &PARAM_INDICES[..4] { for (mik, cik) in [(0, 0), (1, 1), (2, 0)] {
		go(r, ddiff(vec![dclass("a/Outer$Inner", cik, 0, vec![], vec![dmeth("m", mik, 0, vec![dparam(idx, ik, dk)])])]), "table-diff-parameter", "parameter", ik, dk);
	} } } }
	// field level
	for ik in 0..nk { for dk in 0..nd { for cik in [0, 1, 2, 3] { for name in ["f", "f_1"] {
		go(r, ddiff(vec![dclass("a/Outer$Inner", cik, 0, vec![dfield(name, ik, dk)], vec![])]), "table-diff-field", "field", ik, dk);
	} } } }
	// method level x representative parameters
	let rep_params: Vec<Vec<DParam>> = vec![vec![], vec![dparam(1, 0, 0)], vec![dparam(1, 1, 1)], vec![dparam(1, 2, 0)], vec![dparam(1, 3, 0)], vec![dparam(1, 0, 3)], vec![dparam(1, 3, 0), dparam(2, 4, 0)]];
	for ik in 0..nk { for dk in 0..nd { for ps in &rep_params { for cik in [0, 1] { for name in ["m", "<init>"] {
		go(r, ddiff(vec![dclass("A", cik, 0, vec![], vec![dmeth(name, ik, dk, ps.clone())])]), "table-diff-method", "method", ik, dk);
	} } } } }
	// class level x representative fields and methods
	let rep_fields: Vec<Vec<DField>> = vec![vec![], vec![dfield("f", 0, 0)], vec![dfield("f", 1, 0)], vec![dfield("f", 2, 0)], vec![dfield("f", 3, 0)]];
	let rep_meths: Vec<Vec<DMeth>> = vec![vec![], vec![dmeth("m", 0, 0, vec![])], vec![dmeth("m", 1, 0, vec![])], vec![dmeth("m", 1, 0, vec![dparam(0, 2, 0)])],
		vec![dmeth("m", 3, 0, vec![])], vec![dmeth("m", 2, 0, vec![])], vec![dmeth("m", 0, 0, vec![dparam(0, 1, 0)])]];
	for ik in 0..nk { for dk in 0..nd { for fs in &rep_fields { for ms in &rep_meths {
		go(r, ddiff(vec![dclass("a/Outer$Inner", ik, dk, fs.clone(), ms.clone())]), "table-diff-class", "class", ik, dk);
	} } } }
	// comment actions with the EMPTY comment (Edit("","") changes nothing; Add("") / Remove("") / Edit("",a) do), every level, reduced surroundings
	for ik in 0..nk { for dk in MAIN_DOC_KINDS..DOC_KINDS.len() {
		go(r, ddiff(vec![dclass("a/Outer$Inner", 0, 0, vec![], vec![dmeth("m", 0, 0, vec![dparam(3, ik, dk)])])]), "table-diff-empty-comment", "parameter", ik, dk);
		go(r, ddiff(vec![dclass("a/Outer$Inner", 0, 0, vec![dfield("f", ik, dk)], vec![])]), "table-diff-empty-comment", "field", ik, dk);
		for ps in [vec![], vec![dparam(1, 0, 0)], vec![dparam(1, 0, 7)]] { go(r, ddiff(vec![dclass("A", 0, 0, vec![], vec![dmeth("m", ik, dk, ps)])]), "table-diff-empty-comment", "method", ik, dk); }
		for fs in [vec![], vec![dfield("f", 0, 0)], vec![dfield("f", 0, 7)]] { for ms in [vec![], vec![dmeth("m", 0, 7, vec![])]] {
			go(r, ddiff(vec![dclass("a/Outer$Inner", ik, dk, fs.clone(), ms)]), "table-diff-empty-comment", "class", ik, dk);
		} }
	} }
	// class keys: what the placeholder of a removed class is
	for key in CLASS_KEYS { for ik in 0..nk { for dk in [0, 1] {
		r.count(&format!("table:diff-class-key:{key}"));
		go(r, ddiff(vec![dclass(key, ik, dk, vec![], vec![])]), "table-diff-class-key", "class", ik, dk);
	} } }
}

fn gen_act(rng: &mut Rng, ph: &S, pool: &[&str]) -> DAct {
	let name = |rng: &mut Rng| if rng.chance(1, 3) { ph.clone() } else { s(*rng.pick(pool)) };
	match rng.below(10) {
		0 | 1 | 2 => DAct::None,
		3 => DAct::Add(name(rng)),
		4 | 5 | 6 => DAct::Remove(name(rng)),
		_ => { let a = name(rng); let b = if rng.chance(1, 4) { a.clone() } else { name(rng) }; DAct::Edit(a, b) }
	}
}
fn gen_doc_act(rng: &mut Rng) -> DAct {
	const D: [&str; 5] = ["a comment", "two\nlines", "x", "ünï", ""];
	match rng.below(12) {
		0 => DAct::Add(s(*rng.pick(&D[..]))), 1 => DAct::Remove(s(*rng.pick(&D[..]))),
		2 => { let a = s(*rng.pick(&D[..])); let b = if rng.chance(1, 3) { a.clone() } else { s(*rng.pick(&D[..])) }; DAct::Edit(a, b) }
		// an edit between two comments that a normalising comparison (trim, lines(), case folding) would call equal:
		// it IS a change (is_diff), in either direction
		3 => {
			let a = s(*rng.pick(&D[..]));
			let mut b = a.clone();
			match rng.below(7) {
				0 => b.push('\n' as u32), 1 => b.push(' ' as u32), 2 => { b.push('\r' as u32); b.push('\n' as u32); }
				3 => b.insert(0, ' ' as u32), 4 => b.push('\t' as u32), 5 => b.push(0x2003),
				_ => { if let Some(c) = b.last_mut() { *c ^= 0x20; } else { b.push('\n' as u32); } }
			}
			if rng.chance(1, 2) { DAct::Edit(a, b) } else { DAct::Edit(b, a) }
		}
		_ => DAct::None,
	}
}
fn gen_diff(rng: &mut Rng, max_classes: usize) -> DDiff {
	let cfg = GenCfg::new(2);
	let ncls = rng.below(max_classes + 1);
	let srcs = gen_class_names(rng, &cfg, ncls);
	const CN: [&str; 8] = ["Foo", "Bar", "Inner", "a/B", "C_1", "1", "Outer$Inner", "B"];
	const MN: [&str; 8] = ["a", "foo", "f_1", "m_2", "get", "<init>", "value", "x"];
	const PN: [&str; 6] = ["p_1", "arg", "value", "p_0", "p_3", "x"];
	let mut classes = vec![];
	// one class key in five has one of the special shapes (leading `$` in the simple name at some package depth, `$` at the end, …)
	let mut srcs = srcs;
	for i in 0..srcs.len() { if rng.chance(1, 5) { let k = s(*rng.pick(&CLASS_KEYS[..])); if !srcs.contains(&k) { srcs[i] = k; } } }
	for src in &srcs {
		let mut c = DClass { name: src.clone(), info: gen_act(rng, &ref_simple_inner(src), &CN[..]), doc: gen_doc_act(rng), fields: vec![], methods: vec![] };
		for _ in 0..rng.below(4) {
			let name = s(*rng.pick(&MN[..5])); let desc = gen_field_desc(rng, &srcs);
			if c.fields.iter().any(|f| f.name == name && f.desc == desc) { continue; }
			c.fields.push(DField { info: gen_act(rng, &name, &MN[..]), name, desc, doc: gen_doc_act(rng) });
		}
		for _ in 0..rng.below(4) {
			let name = s(*rng.pick(&MN[..])); let desc = gen_method_desc(rng, &srcs);
			if c.methods.iter().any(|f| f.name == name && f.desc == desc) { continue; }
			let mut m = DMeth { info: gen_act(rng, &name, &MN[..]), name, desc, doc: gen_doc_act(rng), params: vec![] };
			for _ in 0..rng.below(4) {
				let index = if rng.chance(1, 10) { *rng.pick(&PARAM_INDICES[..]) } else { rng.below(13) as u64 };
				if m.params.iter().any(|p| p.index == index) { continue; }
				m.params.push(DParam { index, info: gen_act(rng, &s(&format!("p_{index}")), &PN[..]), doc: gen_doc_act(rng) });
			}
			c.methods.push(m);
		}
		classes.push(c);
	}
	DDiff { info: if rng.chance(1, 8) { DAct::Edit(s("a"), s("b")) } else { DAct::None }, doc: gen_doc_act(rng), classes }
}
fn shuffled_diff(rng: &mut Rng, d: &DDiff) -> DDiff {
	let mut d = d.clone();
	for c in &mut d.classes { for m in &mut c.methods { rng.shuffle(&mut m.params); } rng.shuffle(&mut c.fields); rng.shuffle(&mut c.methods); }
	rng.shuffle(&mut d.classes);
	d
}

// =====================================================================================
// insert_dummy reports every ignored addition with eprintln!; silence fd 2 while the cases run
extern "C" { fn dup(fd: i32) -> i32; fn dup2(from: i32, to: i32) -> i32; fn close(fd: i32) -> i32; }
struct QuietStderr { saved: i32 }
impl QuietStderr {
	fn new() -> QuietStderr {
		use std::os::unix::io::AsRawFd;
		let saved = unsafe { dup(2) };
		if let Ok(null) = std::fs::OpenOptions::new().write(true).open("/dev/null") { unsafe { dup2(null.as_raw_fd(), 2); } }
		QuietStderr { saved }
	}
}
impl Drop for QuietStderr { fn drop(&mut self) { if self.saved >= 0 { unsafe { dup2(self.saved, 2); close(self.saved); } } } }

/// reorder the cases so that the shards (fixed number of cases each) get about the same number of bytes
fn balance(r: &mut Report, shards: usize) {
	let mut cs = std::mem::take(&mut r.cases);
	cs.sort_by_key(|c| std::cmp::Reverse(c.len()));
	let k = shards.max(1);
	let mut buckets: Vec<Vec<String>> = vec![vec![]; k];
	for (i, c) in cs.into_iter().enumerate() { let round = i / k; let pos = if round % 2 == 0 { i % k } else { k - 1 - i % k }; buckets[pos].push(c); }
	let per = buckets.iter().map(|b| b.len()).max().unwrap_or(1).max(1);
	r.shard_size = per;
	let mut flat = vec![];
	// chunks() cuts by count: buckets with `per` cases first, those that are one short last
	buckets.sort_by_key(|b| std::cmp::Reverse(b.len()));
	for b in buckets { flat.extend(b); }
	r.cases = flat;
}

pub fn run(ctx: &Ctx) -> anyhow::Result<Report> {
	let _quiet = QuietStderr::new();
	let mut r = Report::new("C10", "C10.Run");
	let mut rng = Rng::new(ctx.seed);
	r.rule = "remove_dummy: (1) level tables, exhaustive: every name kind of a level (placeholder, net/minecraft/unmapped/C_…, pkg/C_…, nested Outer$C_…, placeholder prefix followed by `/…`, `$…` or letters (C_12/Foo, net/minecraft/unmapped/C_5/Bar, C_1$Inner, C_abc, f_abc$x, p_1x: a pure prefix rule), look-alikes of the class prefixes (com/example/gl/C_Api, com/example/C_Holder$Inner — C_ only in the simple name —, C, net/minecraft/unmapped/ alone, net/minecraft/unmappedC_x, net/minecraft/unmapped/c_1, Net/Minecraft/Unmapped/C_1, minecraft/unmapped/C_1, com/net/minecraft/unmapped/C_1, net/minecraft/unmapped/sub/C_1, net/minecraft/unmapped/Outer$C_1, _C_1, net/minecraft/unmapped/C1), prefix in the middle, name ending with the prefix, prefix without the underscore, real, absent, bare prefix, other case, <init>, <clinit>, <init>x, x<init>, other level's prefix) x comment yes/no, against representative parents and children (none / removed / kept by comment / kept by name), for chosen namespace = second (source names real or placeholder-like) and = first; (1a) the EMPTY comment Some(\"\") at every level for every name kind under comment-free placeholder parents (it is a comment: entry and parents stay), and as one comment in six of the product sample and one in twelve of the random trees; the comment of the mapping set itself is absent / present / empty (table paths by class kind, random trees at random) and must come back unchanged; (2) the product of the four levels for single-path trees of depth 4: a random sample over all kinds (quick 1000, thorough 15000 of ~795 000) and, thorough only, the full product over the reduced kind sets (8 190); (3) random bushy trees from mapmodel::gen_mappings with 2-4 namespaces pushed towards placeholder names, every namespace chosen in turn, plus an unknown and a duplicated namespace name. insert_dummy: level tables 9 name actions (None, Add, Remove(old), Remove(placeholder), Edit, Edit(same,same), …) x 5 comment actions x representative children and parents, the 5 comment actions with the empty comment (Add(\"\"), Remove(\"\"), Edit(\"\",\"\") = no change, Edit(\"\",a), Edit(a,\"\")) x 9 name actions at every level against reduced surroundings, 23 class-key shapes for the simple-inner-name placeholder (among them simple names that start with `$` in the default package, in one / several package levels, as outer part of a further `$`, doubled, numeric, behind a package component containing `$`; also used as one class key in five of the random diffs), parameter indices up to usize::MAX; random bushy diffs and a shuffled copy. Non-trivial: the tree is non-empty and the call returned Ok; distinct by the Gallina text of input + namespace.".into();

	// decimal printing and inner-class names, on their own
	for n in [0u64, 1, 9, 10, 11, 99, 100, 101, 255, 256, 999, 1000, 65535, 65536, 4294967295, 4294967296, 9999999999, 10000000000, u64::MAX - 1, u64::MAX] {
		r.case("dec", format!("CDec {} {}", n, gstr(&s(&format!("{}", n as usize)))));
	}
	for _ in 0..200 { let n = rng.next() >> rng.below(64); r.case("dec", format!("CDec {} {}", n, gstr(&s(&format!("{}", n as usize))))); }
	for key in CLASS_KEYS.iter().copied().chain(["a/b/C", "A$B", "A$$B", "a$b/C", "$$", "A$B$", "ü$名"]) {
		let k = class_name(&s(key));
		let got = guarded(|| k.get_inner_class_name().map(|x| cps(x.as_inner())));
		match got {
			Ok(g) => {
				let simple = ref_simple_inner(&s(key));
				let want = if simple == s(key) { None } else { Some(simple) };
				if g != want {
					r.violation(format!("get_inner_class_name({key:?}) = {:?}", g.as_ref().map(|x| show(x))), format!("property C10\nget_inner_class_name({key:?}) returned {:?}, the documented simple inner name is {:?}\n", g.as_ref().map(|x| show(x)), want.as_ref().map(|x| show(x))));
				}
				r.case("inner-name", format!("CInner {} {}", gstr(&s(key)), gopt(g.map(|x| gstr(&x)))));
			}
			Err(p) => r.violation(format!("get_inner_class_name({key:?}) panicked: {p}"), format!("property C10\nget_inner_class_name({key:?}) panicked: {p}\n")),
		}
	}

	// ---- remove_dummy ----
	remove_tables(&mut r);
	remove_empty_comment_tables(&mut r);
	if ctx.thorough { remove_product(&mut r, &mut rng, None); r.notes.push("full product of the four levels over the reduced kind sets enumerated (8 190 single-path trees; namespace = second, real source names)".into()); }
	remove_product(&mut r, &mut rng, Some(if ctx.thorough { 15000 } else { 1000 }));
	r.exhaustive = true;

	let nrand = if ctx.thorough { 3000 } else { 350 };
	for k in 0..nrand {
		let n = 2 + k % 3;
		let mut cfg = GenCfg::new(n);
		if k % 7 == 0 { cfg.max_classes = 10; cfg.max_members = 6; }
		let mut m = gen_mappings(&mut rng, &cfg);
		let i = rng.below(n);
		if k % 5 != 4 { dummify(&mut rng, &mut m, i); }
		r.count(&format!("random:namespaces={n}"));
		r.count(&format!("random:chosen_namespace={i}"));
		let ns = m.ns[i].clone();
		through_remove(&mut r, &m, &ns, "random");
		if k % 10 == 0 {
			// the same content in another insertion order must give the same result (order plays no role)
			let m2 = shuffled(&mut rng, &m);
			through_remove(&mut r, &m2, &ns, "random-shuffled");
			// an unknown namespace: the whole call is refused
			through_remove(&mut r, &m, &s("no-such-namespace"), "unknown-namespace");
		}
		if k % 25 == 0 && n >= 3 {
			// duplicated namespace name: the first one with that name is meant
			let mut m3 = m.clone(); m3.ns[n - 1] = m3.ns[0].clone();
			let ns0 = m3.ns[0].clone();
			through_remove(&mut r, &m3, &ns0, "duplicate-namespace");
			let mut m4 = m.clone(); m4.ns[n - 1] = m4.ns[1].clone();
			let ns1 = m4.ns[1].clone();
			through_remove(&mut r, &m4, &ns1, "duplicate-namespace");
		}
	}
	// malformed / exotic names: unpaired surrogates, supplementary characters, control characters and
	// garbage descriptors around the prefixes (the name types are built unchecked, as the readers do)
	{
		let sur = |pre: &str, cp: u32, post: &str| -> S { let mut v = s(pre); v.push(cp); v.extend(s(post)); v };
		let exotic: Vec<u32> = vec![0xD800, 0xDFFF, 0x10400, 0, 9, 0x7f, 0xFFFF, '$' as u32, '/' as u32];
		for &cp in &exotic {
			for (ci, cn) in [sur("C_", cp, ""), sur("", cp, "C_1"), sur("net/minecraft/unmapped/C_", cp, "x"), sur("net/minecraft/unmapped", cp, "C_1")].into_iter().enumerate() {
				let m = MMappings { ns: vec![s("official"), s("named")], doc: None, classes: vec![MClass {
					names: vec![Some(sur("a/", cp, "A")), Some(cn)], doc: None,
					fields: vec![MField { desc: sur("", cp, "garbage"), names: vec![Some(s("f")), Some(sur("f_", cp, ""))], doc: None },
						MField { desc: s("I"), names: vec![Some(s("g")), Some(sur("", cp, "f_"))], doc: None }],
					methods: vec![MMeth { desc: sur("(", cp, ""), names: vec![Some(s("m")), Some(if ci % 2 == 0 { sur("m_", cp, "") } else { sur("<init>", cp, "") })], doc: None,
						params: vec![MParam { index: 0, names: vec![None, Some(sur("p_", cp, ""))], doc: None }, MParam { index: 1, names: vec![None, Some(sur("", cp, "p_"))], doc: None }] },
						MMeth { desc: s("()V"), names: vec![Some(s("n")), Some(sur("", cp, "<init>"))], doc: None, params: vec![] }],
				}] };
				r.count("exotic:remove");
				through_remove(&mut r, &m, &s("named"), "exotic-names");
			}
		}
	}
	// the repository's own fixture
	{
		let repo = std::env::var("VERIF_REPO").unwrap_or_else(|_| env!("FBH_REPO").to_string());
		let input = std::fs::read(format!("{repo}/quill/tests/remove_dummy_input.tiny"));
		if let Ok(bytes) = input {
			if let Ok(q) = quill::tiny_v2::read::<2, NsAny>(&bytes[..]) {
				let mut d = vec![];
				let m = from_quill(&q, &mut d);
				through_remove(&mut r, &m, &s("namespaceB"), "fixture");
				through_remove(&mut r, &m, &s("namespaceA"), "fixture");
			} else { r.notes.push("fixture quill/tests/remove_dummy_input.tiny could not be read".into()); }
		}
	}

	// ---- insert_dummy ----
	insert_tables(&mut r);
	for &cp in &[0xD800u32, 0xDFFF, 0x10400, 0, 0x7f, '$' as u32, '/' as u32] {
		for (pre, post) in [("A$", "B"), ("A", "$B"), ("a/", "$B"), ("A$B", ""), ("", "A$B")] {
			let mut key = s(pre); key.push(cp); key.extend(s(post));
			for ik in [2usize, 3, 0] {
				let c = DClass { name: key.clone(), info: info_kind(ik, &ref_simple_inner(&key)), doc: DAct::None, fields: vec![DField { name: key.clone(), desc: s("I"), info: info_kind(ik, &key), doc: DAct::None }], methods: vec![] };
				r.count("exotic:insert");
				through_insert(&mut r, &ddiff(vec![c]), "exotic-diff-keys");
			}
		}
	}
	let nrand = if ctx.thorough { 3000 } else { 350 };
	for k in 0..nrand {
		let d = gen_diff(&mut rng, if k % 7 == 0 { 8 } else { 4 });
		through_insert(&mut r, &d, "random-diff");
		if k % 10 == 0 { let d2 = shuffled_diff(&mut rng, &d); through_insert(&mut r, &d2, "random-diff-shuffled"); }
	}
	balance(&mut r, if ctx.thorough { 48 } else { 16 });
	Ok(r)
}

fn main() -> anyhow::Result<()> { fbh::main_with(run) }
