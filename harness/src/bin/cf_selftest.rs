//! Self-test of the class-file infrastructure (`fbh::classfile`).  Usage: `cf_selftest [raw|duke|asm|all] [n]`.
use fbh::classfile::{corpus, raw};
use std::collections::BTreeMap;

fn raw_part() -> bool {
	let classes = corpus::corpus_classes();
	let mut ok = true;
	let mut attrs: BTreeMap<String, usize> = BTreeMap::new();
	let mut ops: BTreeMap<&'static str, usize> = BTreeMap::new();
	let mut versions: BTreeMap<u16, usize> = BTreeMap::new();
	fn count_attrs(v: &[raw::Attribute], m: &mut BTreeMap<String, usize>, ops: &mut BTreeMap<&'static str, usize>) {
		for a in v {
			let key = if matches!(a.info, raw::AttrInfo::Unknown(_)) { format!("(unknown) {}", a.name) } else { a.name.clone() };
			*m.entry(key).or_insert(0) += 1;
			match &a.info {
				raw::AttrInfo::Code(c) => {
					for (_, i) in raw::decode_code(&c.code).unwrap() {
						let mn = fbh::classfile::opcodes::mnemonic(i.opcode).unwrap();
						*ops.entry(if i.wide { Box::leak(format!("wide {mn}").into_boxed_str()) } else { mn }).or_insert(0) += 1;
					}
					count_attrs(&c.attributes, m, ops);
				}
				raw::AttrInfo::Record(cs) => for c in cs { count_attrs(&c.attributes, m, ops); },
				_ => {}
			}
		}
	}
	for (name, bytes) in &classes {
		match raw::parse(bytes) {
			Err(e) => { ok = false; println!("PARSE FAIL {name}: {e}"); }
			Ok(c) => {
				*versions.entry(c.major).or_insert(0) += 1;
				let w = raw::write(&c);
				if &w != bytes { ok = false; println!("REWRITE DIFFERS {name}: {} vs {} bytes", w.len(), bytes.len()); }
				count_attrs(&c.attributes, &mut attrs, &mut ops);
				for m in c.fields.iter().chain(c.methods.iter()) { count_attrs(&m.attributes, &mut attrs, &mut ops); }
			}
		}
	}
	println!("raw: {} classes, versions {:?}", classes.len(), versions);
	println!("attributes: {:?}", attrs);
	println!("opcodes seen: {}", ops.len());
	let missing: Vec<&str> = fbh::classfile::opcodes::MNEMONICS.iter().copied().filter(|m| *m != "wide" && !ops.contains_key(m)).collect();
	println!("opcodes never seen: {:?}", missing);
	println!("wide forms: {:?}", ops.iter().filter(|(k, _)| k.starts_with("wide ")).collect::<Vec<_>>());
	ok
}

/// raw facts vs duke facts on every corpus class, and duke's writer checked by the strict parser
fn duke_part(verbose: bool) -> bool {
	use fbh::classfile::facts::{facts_from_duke, facts_from_raw, FactGroup};
	use std::collections::BTreeSet;
	let classes = corpus::corpus_classes();
	let only_group: Option<String> = std::env::args().nth(2).filter(|a| a == "-g").and_then(|_| std::env::args().nth(3));
	let mut ok = true;
	let mut read_groups: BTreeMap<FactGroup, Vec<String>> = BTreeMap::new();
	let mut write_groups: BTreeMap<FactGroup, Vec<String>> = BTreeMap::new();
	let (mut read_err, mut write_err, mut reparse_err, mut equal, mut wequal) = (vec![], vec![], vec![], 0, 0);
	for (name, bytes) in &classes {
		let rc = match raw::parse(bytes) { Ok(c) => c, Err(e) => { ok = false; println!("PARSE FAIL {name}: {e}"); continue; } };
		let rf = match facts_from_raw(&rc) { Ok(f) => f, Err(e) => { ok = false; println!("FACTS FAIL {name}: {e}"); continue; } };
		let b2 = bytes.clone();
		let dc = match fbh::report::guarded(move || duke::read_class(&mut std::io::Cursor::new(&b2))) {
			Ok(Ok(c)) => c,
			Ok(Err(e)) => { read_err.push(format!("{name}: {e:#}")); continue; }
			Err(p) => { read_err.push(format!("{name}: PANIC {p}")); continue; }
		};
		let df = facts_from_duke(&dc);
		if df == rf { equal += 1; } else {
			let gs: BTreeSet<FactGroup> = rf.differing_groups(&df);
			for g in &gs { read_groups.entry(*g).or_default().push(name.clone()); }
			if verbose { for l in rf.diff(&df).iter().take(6) { println!("  READ {name}: {l}"); } }
			if let Some(g) = &only_group { for l in rf.diff(&df).iter().filter(|l| format!("{:?}", FactGroup::of_diff_line(l)) == *g).take(4) { println!("  READ[{g}] {name}: {l}"); } }
		}
		// duke writes what it read; the strict parser validates it
		let dc2 = dc.clone();
		let written = match fbh::report::guarded(move || { let mut v = Vec::new(); duke::write_class(&mut v, &dc2).map(|_| v) }) {
			Ok(Ok(v)) => v,
			Ok(Err(e)) => { write_err.push(format!("{name}: {e:#}")); continue; }
			Err(p) => { write_err.push(format!("{name}: PANIC {p}")); continue; }
		};
		match raw::parse(&written).and_then(|c| facts_from_raw(&c)) {
			Err(e) => reparse_err.push(format!("{name}: {e}")),
			Ok(wf) => {
				if wf == rf { wequal += 1; } else {
					for g in rf.differing_groups(&wf) { write_groups.entry(g).or_default().push(name.clone()); }
					if verbose { for l in rf.diff(&wf).iter().take(6) { println!("  WRITE {name}: {l}"); } }
					if let Some(g) = &only_group { for l in rf.diff(&wf).iter().filter(|l| format!("{:?}", FactGroup::of_diff_line(l)) == *g).take(4) { println!("  WRITE[{g}] {name}: {l}"); } }
				}
			}
		}
	}
	let show = |title: &str, m: &BTreeMap<FactGroup, Vec<String>>| {
		println!("{title}");
		for (g, names) in m { println!("  {g:?}: {} classes, e.g. {}", names.len(), names.iter().take(3).cloned().collect::<Vec<_>>().join(", ")); }
	};
	println!("duke: {} classes; facts_from_duke(read_class(b)) == facts_from_raw(parse(b)) for {equal}", classes.len());
	show("fact groups differing between the independent parser and duke::read_class:", &read_groups);
	println!("duke::read_class errors: {}", read_err.len());
	for e in read_err.iter().take(10) { println!("  {e}"); }
	println!("duke::write_class errors: {}", write_err.len());
	for e in write_err.iter().take(10) { println!("  {e}"); }
	println!("duke-written classes rejected by the strict parser: {}", reparse_err.len());
	for e in reparse_err.iter().take(10) { println!("  {e}"); }
	println!("facts(parse(write_class(read_class(b)))) == facts(parse(b)) for {wequal}");
	show("fact groups differing after a duke read+write round trip:", &write_groups);
	ok
}

fn main() {
	let what = std::env::args().nth(1).unwrap_or_else(|| "all".into());
	let mut ok = true;
	if what == "raw" || what == "all" { ok &= raw_part(); }
	if what == "duke" || what == "all" { ok &= duke_part(std::env::args().nth(2).as_deref() == Some("-v")); }
	println!("{}", if ok { "SELFTEST OK" } else { "SELFTEST FAILED" });
	std::process::exit(if ok { 0 } else { 1 });
}
