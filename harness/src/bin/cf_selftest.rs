//! Self-test of the class-file infrastructure (`fbh::classfile`).  Usage: `cf_selftest [raw|duke|asm|all] [n]`.
use fbh::classfile::{corpus, raw};
use std::collections::BTreeMap;

fn raw_part() -> bool {
	let classes = corpus::corpus_classes();
	let mut ok = true;
	let mut attrs: BTreeMap<String, usize> = BTreeMap::new();
	let mut ops: BTreeMap<&'static str, usize> = BTreeMap::new();
	let mut versions: BTreeMap<u16, usize> = BTreeMap::new();
	let mut nspans = 0usize;
	fn count_attrs(v: &[raw::Attribute], m: &mut BTreeMap<String, usize>, ops: &mut BTreeMap<&'static str, usize>) {
		for a in v {
			let key = if matches!(a.info, raw::AttrInfo::Unknown(_)) { format!("(unknown) {}", a.name) } else { a.name.clone() };
			*m.entry(key).or_insert(0) += 1;
			match &a.info {
				raw::AttrInfo::Code(c) => {
					for (_, i) in raw::decode_code(&c.code).unwrap() {
						let mn = fbh::classfile::opcodes::mnemonic(i.opcode).unwrap();
						*ops.entry(if i.wide { Box::leak(format!("wide {mn}").into_boxed_str()) } else { mn }).or_insert(0) += 1;
					}
					count_attrs(&c.attributes, m, ops);
				}
				raw::AttrInfo::Record(cs) => for c in cs { count_attrs(&c.attributes, m, ops); },
				_ => {}
			}
		}
	}
	for (name, bytes) in &classes {
		match raw::parse(bytes) {
			Err(e) => { ok = false; println!("PARSE FAIL {name}: {e}"); }
			Ok(c) => {
				*versions.entry(c.major).or_insert(0) += 1;
				let w = raw::write(&c);
				if &w != bytes { ok = false; println!("REWRITE DIFFERS {name}: {} vs {} bytes", w.len(), bytes.len()); }
				match fbh::classfile::layout::layout(bytes) {
					Err(e) => { ok = false; println!("LAYOUT FAIL {name}: {e}"); }
					Ok(spans) => {
						let mut at = 0;
						for s in &spans { if s.offset != at { ok = false; println!("LAYOUT GAP {name} at {at} before {}", s.path); break; } at += s.len; }
						if at != bytes.len() || spans.iter().any(|s| s.path == "trailing") { ok = false; println!("LAYOUT {name}: covers {at} of {} bytes", bytes.len()); }
						nspans += spans.len();
					}
				}
				count_attrs(&c.attributes, &mut attrs, &mut ops);
				for m in c.fields.iter().chain(c.methods.iter()) { count_attrs(&m.attributes, &mut attrs, &mut ops); }
			}
		}
	}
	println!("raw: {} classes, versions {:?}", classes.len(), versions);
	println!("layout: {nspans} spans tile all classes");
	println!("attributes: {:?}", attrs);
	println!("opcodes seen: {}", ops.len());
	let missing: Vec<&str> = fbh::classfile::opcodes::MNEMONICS.iter().copied().filter(|m| *m != "wide" && !ops.contains_key(m)).collect();
	println!("opcodes never seen: {:?}", missing);
	println!("wide forms: {:?}", ops.iter().filter(|(k, _)| k.starts_with("wide ")).collect::<Vec<_>>());
	ok
}

/// the table written to corpus/classes/FEATURES.txt
fn features() {
	let mut classes = corpus::corpus_classes();
	classes.sort_by_key(|(n, _)| (n.starts_with("crafted/"), n.starts_with("sample/"), n.clone()));
	let mut attrs: BTreeMap<String, (usize, Vec<String>)> = BTreeMap::new();
	let mut ops: BTreeMap<String, (usize, Vec<String>)> = BTreeMap::new();
	let mut consts: BTreeMap<&'static str, (usize, Vec<String>)> = BTreeMap::new();
	let mut align: BTreeMap<(String, u32), (usize, Vec<String>)> = BTreeMap::new();
	fn note<K: Ord>(m: &mut BTreeMap<K, (usize, Vec<String>)>, k: K, ex: &str) { let e = m.entry(k).or_insert((0, vec![])); e.0 += 1; if e.1.len() < 2 && !e.1.iter().any(|x| x == ex) { e.1.push(ex.to_string()); } }
	fn walk(v: &[raw::Attribute], cls: &str, ctx: &str, attrs: &mut BTreeMap<String, (usize, Vec<String>)>, ops: &mut BTreeMap<String, (usize, Vec<String>)>, align: &mut BTreeMap<(String, u32), (usize, Vec<String>)>) {
		for a in v {
			let key = if matches!(a.info, raw::AttrInfo::Unknown(_)) { format!("{} [{ctx}] (not predefined there: kept as bytes)", a.name) } else { format!("{} [{ctx}]", a.name) };
			note(attrs, key, cls);
			match &a.info {
				raw::AttrInfo::Code(c) => {
					for (pc, i) in raw::decode_code(&c.code).unwrap() {
						let mn = fbh::classfile::opcodes::mnemonic(i.opcode).unwrap();
						note(ops, if i.wide { format!("wide {mn}") } else { mn.to_string() }, cls);
						if mn.ends_with("switch") { note(align, (mn.to_string(), pc % 4), &format!("{cls} pc {pc}")); }
					}
					walk(&c.attributes, cls, "Code", attrs, ops, align);
				}
				raw::AttrInfo::Record(cs) => for c in cs { walk(&c.attributes, cls, "record component", attrs, ops, align); },
				_ => {}
			}
		}
	}
	for (name, bytes) in &classes {
		let c = raw::parse(bytes).unwrap();
		for k in c.pool.iter().flatten() { note(&mut consts, k.kind_name(), name); }
		walk(&c.attributes, name, "class", &mut attrs, &mut ops, &mut align);
		for m in &c.fields { walk(&m.attributes, name, "field", &mut attrs, &mut ops, &mut align); }
		for m in &c.methods { walk(&m.attributes, name, "method", &mut attrs, &mut ops, &mut align); }
	}
	println!("== attributes (name [location]): occurrences, example classes");
	for (k, (n, ex)) in &attrs { println!("{k}: {n}  e.g. {}", ex.join(", ")); }
	println!("\n== constant kinds: occurrences, example classes");
	for (k, (n, ex)) in &consts { println!("{k}: {n}  e.g. {}", ex.join(", ")); }
	println!("\n== switch opcodes by (offset mod 4): occurrences, examples");
	for ((m, r), (n, ex)) in &align { println!("{m} at pc%4={r}: {n}  e.g. {}", ex.join(", ")); }
	println!("\n== opcodes: occurrences, example classes");
	for (k, (n, ex)) in &ops { println!("{k}: {n}  e.g. {}", ex.join(", ")); }
	let missing: Vec<&str> = fbh::classfile::opcodes::MNEMONICS.iter().copied().filter(|m| *m != "wide" && !ops.contains_key(*m)).collect();
	println!("\nopcodes never seen: {missing:?}");
}

/// raw facts vs duke facts on every corpus class, and duke's writer checked by the strict parser
fn duke_part(verbose: bool) -> bool {
	use fbh::classfile::facts::{facts_from_duke, facts_from_raw, FactGroup};
	use std::collections::BTreeSet;
	let classes = corpus::corpus_classes();
	let only_group: Option<String> = std::env::args().nth(2).filter(|a| a == "-g").and_then(|_| std::env::args().nth(3));
	let mut ok = true;
	let mut read_groups: BTreeMap<FactGroup, Vec<String>> = BTreeMap::new();
	let mut write_groups: BTreeMap<FactGroup, Vec<String>> = BTreeMap::new();
	let (mut read_err, mut write_err, mut reparse_err, mut equal, mut wequal) = (vec![], vec![], vec![], 0, 0);
	for (name, bytes) in &classes {
		let rc = match raw::parse(bytes) { Ok(c) => c, Err(e) => { ok = false; println!("PARSE FAIL {name}: {e}"); continue; } };
		let rf = match facts_from_raw(&rc) { Ok(f) => f, Err(e) => { ok = false; println!("FACTS FAIL {name}: {e}"); continue; } };
		let b2 = bytes.clone();
		let dc = match fbh::report::guarded(move || duke::read_class(&mut std::io::Cursor::new(&b2))) {
			Ok(Ok(c)) => c,
			Ok(Err(e)) => { read_err.push(format!("{name}: {e:#}")); continue; }
			Err(p) => { read_err.push(format!("{name}: PANIC {p}")); continue; }
		};
		let df = facts_from_duke(&dc);
		if df == rf { equal += 1; } else {
			let gs: BTreeSet<FactGroup> = rf.differing_groups(&df);
			for g in &gs { read_groups.entry(*g).or_default().push(name.clone()); }
			if verbose { for l in rf.diff(&df).iter().take(6) { println!("  READ {name}: {l}"); } }
			if let Some(g) = &only_group { for l in rf.diff(&df).iter().filter(|l| format!("{:?}", FactGroup::of_diff_line(l)) == *g).take(4) { println!("  READ[{g}] {name}: {l}"); } }
		}
		// duke writes what it read; the strict parser validates it
		let dc2 = dc.clone();
		let written = match fbh::report::guarded(move || { let mut v = Vec::new(); duke::write_class(&mut v, &dc2).map(|_| v) }) {
			Ok(Ok(v)) => v,
			Ok(Err(e)) => { write_err.push(format!("{name}: {e:#}")); continue; }
			Err(p) => { write_err.push(format!("{name}: PANIC {p}")); continue; }
		};
		match raw::parse(&written).and_then(|c| facts_from_raw(&c)) {
			Err(e) => reparse_err.push(format!("{name}: {e}")),
			Ok(wf) => {
				if wf == rf { wequal += 1; } else {
					for g in rf.differing_groups(&wf) { write_groups.entry(g).or_default().push(name.clone()); }
					if verbose { for l in rf.diff(&wf).iter().take(6) { println!("  WRITE {name}: {l}"); } }
					if let Some(g) = &only_group { for l in rf.diff(&wf).iter().filter(|l| format!("{:?}", FactGroup::of_diff_line(l)) == *g).take(4) { println!("  WRITE[{g}] {name}: {l}"); } }
				}
			}
		}
	}
	let show = |title: &str, m: &BTreeMap<FactGroup, Vec<String>>| {
		println!("{title}");
		for (g, names) in m { println!("  {g:?}: {} classes, e.g. {}", names.len(), names.iter().take(3).cloned().collect::<Vec<_>>().join(", ")); }
	};
	println!("duke: {} classes; facts_from_duke(read_class(b)) == facts_from_raw(parse(b)) for {equal}", classes.len());
	show("fact groups differing between the independent parser and duke::read_class:", &read_groups);
	println!("duke::read_class errors: {}", read_err.len());
	for e in read_err.iter().take(10) { println!("  {e}"); }
	println!("duke::write_class errors: {}", write_err.len());
	for e in write_err.iter().take(10) { println!("  {e}"); }
	println!("duke-written classes rejected by the strict parser: {}", reparse_err.len());
	for e in reparse_err.iter().take(10) { println!("  {e}"); }
	println!("facts(parse(write_class(read_class(b)))) == facts(parse(b)) for {wequal}");
	show("fact groups differing after a duke read+write round trip:", &write_groups);
	ok
}

/// facts_from_raw(parse(assemble(spec, knobs))) == facts_of_spec(spec) for generated specs and every knob setting,
/// plus the boundary constructions; also runs duke over the generated classes and summarises
fn asm_part(n: usize, seed: u64) -> bool {
	use fbh::classfile::asm::*;
	use fbh::classfile::facts::{facts_from_duke, facts_from_raw, FactGroup};
	use fbh::classfile::gen::{self, boundary, GenCfg};
	let mut ok = true;
	let mut rng = fbh::prng::Rng::new(seed);
	let cfg = GenCfg::default();
	let (mut total, mut bytes_total, mut under_1k) = (0usize, 0usize, 0usize);
	let mut attrs: BTreeMap<String, usize> = BTreeMap::new();
	let mut ops: BTreeMap<String, usize> = BTreeMap::new();
	let mut duke_groups: BTreeMap<FactGroup, usize> = BTreeMap::new();
	let mut duke_err: BTreeMap<String, usize> = BTreeMap::new();
	let mut check = |name: &str, spec: &ClassSpec, knobs: &Knobs, ok: &mut bool| -> Option<Vec<u8>> {
		let truth = facts_of_spec(spec);
		let bytes = match try_assemble(spec, knobs) { Ok(b) => b, Err(e) => { *ok = false; println!("ASSEMBLE FAIL {name} {knobs:?}: {e}"); return None; } };
		match raw::parse(&bytes).and_then(|c| { if raw::write(&c) != bytes { return Err("rewrite differs".into()); } facts_from_raw(&c) }) {
			Err(e) => { *ok = false; println!("PARSE FAIL {name} {knobs:?}: {e}"); None }
			Ok(f) => { if f != truth { *ok = false; println!("FACTS DIFFER {name} {knobs:?}:"); for l in truth.diff(&f).iter().take(8) { println!("   {l}"); } } Some(bytes) }
		}
	};
	for k in 0..n {
		let spec = gen::gen_class(&mut rng, &cfg);
		let fam = Knobs::family(seed ^ k as u64);
		for (j, knobs) in fam.iter().enumerate() {
			let Some(bytes) = check(&format!("gen#{k}"), &spec, knobs, &mut ok) else { continue };
			total += 1;
			if j == 0 {
				bytes_total += bytes.len(); if bytes.len() < 1024 { under_1k += 1; }
				let c = raw::parse(&bytes).unwrap();
				fn walk(v: &[raw::Attribute], m: &mut BTreeMap<String, usize>, ops: &mut BTreeMap<String, usize>) {
					for a in v {
						*m.entry(if matches!(a.info, raw::AttrInfo::Unknown(_)) { "(unknown)".to_string() } else { a.name.clone() }).or_insert(0) += 1;
						if let raw::AttrInfo::Code(c) = &a.info { for (_, i) in raw::decode_code(&c.code).unwrap() { *ops.entry(fbh::classfile::opcodes::mnemonic(i.opcode).unwrap().to_string()).or_insert(0) += 1; } walk(&c.attributes, m, ops); }
						if let raw::AttrInfo::Record(cs) = &a.info { for c in cs { walk(&c.attributes, m, ops); } }
					}
				}
				walk(&c.attributes, &mut attrs, &mut ops);
				for m in c.fields.iter().chain(c.methods.iter()) { walk(&m.attributes, &mut attrs, &mut ops); }
			}
			// duke on the generated class (informative: differences are findings for the property agents)
			if j == 0 || j == fam.len() - 2 {
				let truth = facts_of_spec(&spec);
				let b2 = bytes.clone();
				match fbh::report::guarded(move || duke::read_class(&mut std::io::Cursor::new(&b2))) {
					Ok(Ok(c)) => for g in truth.differing_groups(&facts_from_duke(&c)) { *duke_groups.entry(g).or_insert(0) += 1; },
					Ok(Err(e)) => { let m = format!("{e:#}"); let key: String = m.split(':').last().unwrap_or("").trim().chars().filter(|c| !c.is_ascii_digit()).take(70).collect(); *duke_err.entry(key).or_insert(0) += 1; }
					Err(p) => *duke_err.entry(format!("PANIC {}", p.chars().take(60).collect::<String>())).or_insert(0) += 1,
				}
			}
		}
	}
	println!("asm: {n} generated specs x {} knob settings = {total} assemblies checked; mean size {} bytes, {under_1k}/{n} under 1 KB", Knobs::family(0).len(), bytes_total / n.max(1));
	println!("attributes generated: {attrs:?}");
	let missing: Vec<&str> = fbh::classfile::opcodes::MNEMONICS.iter().copied().filter(|m| *m != "wide" && !ops.contains_key(*m)).collect();
	println!("opcodes generated: {} distinct; never (with default knobs): {:?}", ops.len(), missing);
	println!("duke::read_class on generated classes: fact groups differing from the ground truth: {duke_groups:?}");
	println!("duke::read_class errors on generated classes (message tail -> count): {duke_err:?}");
	// boundary constructions
	let d = Knobs::default();
	for dist in [32766, 32767, 32768, 32769, -32767, -32768, -32769, -32770, 3, -1] {
		for opn in ["goto", "jsr", "ifeq", "if_acmpne", "ifnull"] {
			let (spec, d) = boundary::branch_distance(opn, dist);
			let encodable = (-32768..=32767).contains(&dist) || opn == "goto" || opn == "jsr";
			match try_assemble(&spec, &d) {
				Ok(b) => {
					if !encodable { ok = false; println!("BOUNDARY {opn} {dist}: assembled though not encodable"); }
					let c = raw::parse(&b).unwrap();
					let code = c.methods[0].attributes.iter().find_map(|a| if let raw::AttrInfo::Code(c) = &a.info { Some(c) } else { None }).unwrap();
					let ins = raw::decode_code(&code.code).unwrap();
					let (pc, br) = ins.iter().find(|(_, i)| matches!(i.operands, raw::Operands::Branch(_))).unwrap();
					if let raw::Operands::Branch(t) = br.operands { if t as i64 - *pc as i64 != dist as i64 { ok = false; println!("BOUNDARY {opn} {dist}: got distance {}", t as i64 - *pc as i64); } }
					check(&format!("branch_distance({opn},{dist})"), &spec, &d, &mut ok);
				}
				Err(e) => if encodable { ok = false; println!("BOUNDARY {opn} {dist}: {e}"); },
			}
		}
	}
	for (name, spec) in [("branch_chain", boundary::branch_chain(5, 32767)), ("switch_alignments", boundary::switch_alignments()), ("locals_crossing", boundary::locals_crossing()),
		("code_length 65533", boundary::code_length(65533)), ("code_length 65534", boundary::code_length(65534)), ("code_length 65535", boundary::code_length(65535)),
		("code_length_ending_in_branch", boundary::code_length_ending_in_branch()), ("all_instructions", boundary::all_instructions())] {
		for knobs in Knobs::family(seed) {
			if name.starts_with("code_length") && knobs.enc != Enc::Shortest { continue; }
			if name == "branch_chain" && !matches!(knobs.enc, Enc::Shortest) { continue; }
			check(name, &spec, &knobs, &mut ok);
		}
	}
	if try_assemble(&boundary::code_length(65536), &d).is_ok() { ok = false; println!("BOUNDARY code_length 65536 assembled"); }
	if try_assemble(&boundary::branch_chain(3, 32768), &d).is_ok() { ok = false; println!("BOUNDARY branch_chain at 32768 assembled"); }
	let pc = boundary::pool_crossing(40);
	for knobs in boundary::pool_crossing_knobs() {
		if let Some(b) = check("pool_crossing", &pc, &knobs, &mut ok) {
			let c = raw::parse(&b).unwrap();
			let first = c.pool.iter().position(|e| matches!(e, Some(raw::Const::Integer(100000)))).unwrap();
			if knobs.pool.pad_kind == PadKind::Int && first != 5 + knobs.pool.pad_front { ok = false; println!("BOUNDARY pool_crossing: first constant at {first}, expected {}", 5 + knobs.pool.pad_front); }
		}
	}
	for front in [true, false] {
		let knobs = boundary::pool_full_knobs(&pc, front).unwrap();
		if let Some(b) = check("pool_full", &pc, &knobs, &mut ok) { let c = raw::parse(&b).unwrap(); if c.pool.len() != 65535 { ok = false; println!("BOUNDARY pool_full: count {}", c.pool.len()); } }
	}
	ok
}

fn main() {
	let what = std::env::args().nth(1).unwrap_or_else(|| "all".into());
	let mut ok = true;
	if what == "raw" || what == "all" { ok &= raw_part(); }
	if what == "features" { features(); return; }
	if what == "craft" {
		// writes corpus/classes/crafted (run once; the files are vendored)
		let dir = std::path::PathBuf::from(std::env::args().nth(2).expect("output directory"));
		for (name, spec, knobs) in fbh::classfile::gen::crafted() {
			let p = dir.join(format!("{name}.class"));
			std::fs::create_dir_all(p.parent().unwrap()).unwrap();
			std::fs::write(&p, fbh::classfile::asm::assemble(&spec, &knobs)).unwrap();
		}
		return;
	}
	if what == "asm" || what == "all" { let n = std::env::args().nth(2).and_then(|a| a.parse().ok()).unwrap_or(2000); ok &= asm_part(n, std::env::args().nth(3).and_then(|a| a.parse().ok()).unwrap_or(1)); }
	if what == "duke" || what == "all" { ok &= duke_part(std::env::args().nth(2).as_deref() == Some("-v")); }
	println!("{}", if ok { "SELFTEST OK" } else { "SELFTEST FAILED" });
	std::process::exit(if ok { 0 } else { 1 });
}
