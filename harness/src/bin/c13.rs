//! scratch: reproduce the merge_preserve_order observation through the public API
use duke::tree::class::{ClassAccess, ClassFile, ObjClassName};
use duke::tree::version::Version;
use dukebox::storage::{ClassRepr, JarEntryEnum, ParsedJar, ParsedJarEntry, BasicFileAttributes};
use java_string::JavaString;

fn ocn(s: &str) -> ObjClassName { ObjClassName::try_from(JavaString::from(s.to_owned())).unwrap() }

fn cls(itfs: &[&str]) -> ClassFile {
	ClassFile::new(Version::V1_8, ClassAccess::from(0x21u16), ocn("net/minecraft/A"), Some(ocn("java/lang/Object")), itfs.iter().map(|s| ocn(s)).collect())
}
fn jar(c: ClassFile) -> ParsedJar<ClassRepr, Vec<u8>> {
	let mut j = ParsedJar { entries: Default::default() };
	j.entries.insert("net/minecraft/A.class".to_owned(), ParsedJarEntry { attr: BasicFileAttributes::default(), content: JarEntryEnum::Class(ClassRepr::Parsed { class: c }) });
	j
}

fn main() {
	let a = jar(cls(&["I1", "I2", "I3"]));
	let b = jar(cls(&["I1", "I9", "I2", "I3"]));
	let m = dukebox::merge::merge(a, b).unwrap();
	for (k, e) in &m.entries {
		if let JarEntryEnum::Class(ClassRepr::Parsed { class }) = &e.content {
			println!("{k}: {:?}", class.interfaces);
			println!("{:?}", class.runtime_invisible_annotations);
		}
	}
}
