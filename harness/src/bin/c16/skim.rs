//! More visitors for the class reader's other code paths: `Skim` declares (almost) no
//! interests and declines every field and method (every attribute is skipped with a seek, members
//! through skip_attributes); `Decline` declines the class itself; `()` (all interests, no tree)
//! is the crate's own.
use anyhow::Result;
use duke::tree::class::{ClassAccess, ObjClassName};
use duke::tree::field::{FieldAccess, FieldDescriptor, FieldName};
use duke::tree::method::{MethodAccess, MethodDescriptor, MethodName};
use duke::tree::version::Version;
use duke::visitor::simple::class::SimpleClassVisitor;
use duke::visitor::MultiClassVisitor;
use std::convert::Infallible;
use std::ops::ControlFlow;

pub struct Skim(pub usize);
pub struct SkimClass;
impl MultiClassVisitor for Skim {
	type ClassVisitor = SkimClass;
	type ClassResidual = Skim;
	fn visit_class(self, _v: Version, _a: ClassAccess, _n: ObjClassName, _s: Option<ObjClassName>, _i: Vec<ObjClassName>) -> Result<ControlFlow<Self, (Skim, SkimClass)>> {
		Ok(ControlFlow::Continue((Skim(self.0 + 1), SkimClass)))
	}
	fn finish_class(this: Skim, _c: SkimClass) -> Result<Self> { Ok(this) }
}
impl SimpleClassVisitor for SkimClass {
	type FieldVisitor = Infallible;
	type MethodVisitor = Infallible;
	fn visit_field(&mut self, _a: FieldAccess, _n: FieldName, _d: FieldDescriptor) -> Result<Option<Infallible>> { Ok(None) }
	fn finish_field(&mut self, _f: Infallible) -> Result<()> { Ok(()) }
	fn visit_method(&mut self, _a: MethodAccess, _n: MethodName, _d: MethodDescriptor) -> Result<Option<Infallible>> { Ok(None) }
	fn finish_method(&mut self, _m: Infallible) -> Result<()> { Ok(()) }
}

pub struct Decline(pub usize);
impl MultiClassVisitor for Decline {
	type ClassVisitor = SkimClass;
	type ClassResidual = Decline;
	fn visit_class(self, _v: Version, _a: ClassAccess, _n: ObjClassName, _s: Option<ObjClassName>, _i: Vec<ObjClassName>) -> Result<ControlFlow<Self, (Decline, SkimClass)>> {
		Ok(ControlFlow::Break(Decline(self.0 + 1)))
	}
	fn finish_class(this: Decline, _c: SkimClass) -> Result<Self> { Ok(this) }
}

// ---------------------------------------------------------------------------------------------
// `NoMembers`: a class visitor WITHOUT interest in fields and methods (the reader then skips every
// member without parsing it) that is interested in records but declines every record component.
use anyhow::bail;
use duke::tree::class::{ClassName, ClassSignature, EnclosingMethod, InnerClass};
use duke::tree::method::{MethodParameter, MethodSignature};
use duke::tree::module::{Module, PackageName};
use duke::tree::record::RecordName;
use duke::visitor::class::{ClassInterests, ClassVisitor};
use duke::visitor::method::{MethodInterests, MethodVisitor};
use java_string::JavaString;

pub struct NoMembers(pub usize);
pub struct NoMembersClass;
impl MultiClassVisitor for NoMembers {
	type ClassVisitor = NoMembersClass;
	type ClassResidual = NoMembers;
	fn visit_class(self, _v: Version, _a: ClassAccess, _n: ObjClassName, _s: Option<ObjClassName>, _i: Vec<ObjClassName>) -> Result<ControlFlow<Self, (NoMembers, NoMembersClass)>> {
		Ok(ControlFlow::Continue((NoMembers(self.0 + 1), NoMembersClass)))
	}
	fn finish_class(this: NoMembers, _c: NoMembersClass) -> Result<Self> { Ok(this) }
}
impl ClassVisitor for NoMembersClass {
	type AnnotationsVisitor = Infallible;
	type AnnotationsResidual = Self;
	type TypeAnnotationsVisitor = Infallible;
	type TypeAnnotationsResidual = Self;
	type RecordComponentVisitor = Infallible;
	type RecordComponentResidual = Self;
	type FieldVisitor = Infallible;
	type FieldResidual = Self;
	type MethodVisitor = Infallible;
	type MethodResidual = Self;
	type UnknownAttribute = ();
	fn interests(&self) -> ClassInterests { ClassInterests { record: true, ..ClassInterests::none() } }
	fn visit_deprecated_and_synthetic_attribute(&mut self, _d: bool, _s: bool) -> Result<()> { Ok(()) }
	fn visit_inner_classes(&mut self, _x: Vec<InnerClass>) -> Result<()> { Ok(()) }
	fn visit_enclosing_method(&mut self, _x: EnclosingMethod) -> Result<()> { Ok(()) }
	fn visit_signature(&mut self, _x: ClassSignature) -> Result<()> { Ok(()) }
	fn visit_source_file(&mut self, _x: JavaString) -> Result<()> { Ok(()) }
	fn visit_source_debug_extension(&mut self, _x: JavaString) -> Result<()> { Ok(()) }
	fn visit_annotations(self, _visible: bool) -> Result<(Self, Infallible)> { bail!("no interest in annotations was declared") }
	fn finish_annotations(this: Self, _a: Infallible) -> Result<Self> { Ok(this) }
	fn visit_type_annotations(self, _visible: bool) -> Result<(Self, Infallible)> { bail!("no interest in type annotations was declared") }
	fn finish_type_annotations(this: Self, _a: Infallible) -> Result<Self> { Ok(this) }
	fn visit_module(&mut self, _x: Module) -> Result<()> { Ok(()) }
	fn visit_module_packages(&mut self, _x: Vec<PackageName>) -> Result<()> { Ok(()) }
	fn visit_module_main_class(&mut self, _x: ClassName) -> Result<()> { Ok(()) }
	fn visit_nest_host_class(&mut self, _x: ClassName) -> Result<()> { Ok(()) }
	fn visit_nest_members(&mut self, _x: Vec<ClassName>) -> Result<()> { Ok(()) }
	fn visit_permitted_subclasses(&mut self, _x: Vec<ClassName>) -> Result<()> { Ok(()) }
	fn visit_record_component(self, _n: RecordName, _d: FieldDescriptor) -> Result<ControlFlow<Self, (Self, Infallible)>> { Ok(ControlFlow::Break(self)) }
	fn finish_record_component(this: Self, _r: Infallible) -> Result<Self> { Ok(this) }
	fn visit_unknown_attribute(&mut self, _x: ()) -> Result<()> { Ok(()) }
	fn visit_field(self, _a: FieldAccess, _n: FieldName, _d: FieldDescriptor) -> Result<ControlFlow<Self, (Self, Infallible)>> { Ok(ControlFlow::Break(self)) }
	fn finish_field(this: Self, _f: Infallible) -> Result<Self> { Ok(this) }
	fn visit_method(self, _a: MethodAccess, _n: MethodName, _d: MethodDescriptor) -> Result<ControlFlow<Self, (Self, Infallible)>> { Ok(ControlFlow::Break(self)) }
	fn finish_method(this: Self, _m: Infallible) -> Result<Self> { Ok(this) }
}

// `DeclineCode`: visits every method, declares interest in its code, and declines the code when it is
// offered (`visit_code` returns None): the reader has to skip the Code attribute by its length.
pub struct DeclineCode(pub usize);
pub struct DeclineCodeClass;
pub struct DeclineCodeMethod;
impl MultiClassVisitor for DeclineCode {
	type ClassVisitor = DeclineCodeClass;
	type ClassResidual = DeclineCode;
	fn visit_class(self, _v: Version, _a: ClassAccess, _n: ObjClassName, _s: Option<ObjClassName>, _i: Vec<ObjClassName>) -> Result<ControlFlow<Self, (DeclineCode, DeclineCodeClass)>> {
		Ok(ControlFlow::Continue((DeclineCode(self.0 + 1), DeclineCodeClass)))
	}
	fn finish_class(this: DeclineCode, _c: DeclineCodeClass) -> Result<Self> { Ok(this) }
}
impl SimpleClassVisitor for DeclineCodeClass {
	type FieldVisitor = Infallible;
	type MethodVisitor = DeclineCodeMethod;
	fn visit_field(&mut self, _a: FieldAccess, _n: FieldName, _d: FieldDescriptor) -> Result<Option<Infallible>> { Ok(None) }
	fn finish_field(&mut self, _f: Infallible) -> Result<()> { Ok(()) }
	fn visit_method(&mut self, _a: MethodAccess, _n: MethodName, _d: MethodDescriptor) -> Result<Option<DeclineCodeMethod>> { Ok(Some(DeclineCodeMethod)) }
	fn finish_method(&mut self, _m: DeclineCodeMethod) -> Result<()> { Ok(()) }
}
impl MethodVisitor for DeclineCodeMethod {
	type AnnotationsVisitor = Infallible;
	type AnnotationsResidual = Self;
	type TypeAnnotationsVisitor = Infallible;
	type TypeAnnotationsResidual = Self;
	type AnnotationDefaultVisitor = Infallible;
	type AnnotationDefaultResidual = Self;
	type CodeVisitor = Infallible;
	type UnknownAttribute = ();
	fn interests(&self) -> MethodInterests { MethodInterests { code: true, ..MethodInterests::none() } }
	fn visit_deprecated_and_synthetic_attribute(&mut self, _d: bool, _s: bool) -> Result<()> { Ok(()) }
	fn visit_exceptions(&mut self, _x: Vec<ClassName>) -> Result<()> { Ok(()) }
	fn visit_signature(&mut self, _x: MethodSignature) -> Result<()> { Ok(()) }
	fn visit_annotations(self, _visible: bool) -> Result<(Self, Infallible)> { bail!("no interest in annotations was declared") }
	fn finish_annotations(this: Self, _a: Infallible) -> Result<Self> { Ok(this) }
	fn visit_type_annotations(self, _visible: bool) -> Result<(Self, Infallible)> { bail!("no interest in type annotations was declared") }
	fn finish_type_annotations(this: Self, _a: Infallible) -> Result<Self> { Ok(this) }
	fn visit_annotation_default(self) -> Result<(Self, Infallible)> { bail!("no interest in the annotation default was declared") }
	fn finish_annotation_default(this: Self, _e: Infallible) -> Result<Self> { Ok(this) }
	fn visit_parameters(&mut self, _x: Vec<MethodParameter>) -> Result<()> { Ok(()) }
	fn visit_annotable_parameter_count(&mut self) {}
	fn visit_parameter_annotation(&mut self) {}
	fn visit_unknown_attribute(&mut self, _x: ()) -> Result<()> { Ok(()) }
	fn visit_code(&mut self) -> Result<Option<Infallible>> { Ok(None) }
	fn finish_code(&mut self, _c: Infallible) -> Result<()> { Ok(()) }
}
