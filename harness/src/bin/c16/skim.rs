//! Two more visitors for the class reader's other code paths: `Skim` declares (almost) no
//! interests and declines every field and method (every attribute is skipped with a seek, members
//! through skip_attributes); `Decline` declines the class itself; `()` (all interests, no tree)
//! is the crate's own.
use anyhow::Result;
use duke::tree::class::{ClassAccess, ObjClassName};
use duke::tree::field::{FieldAccess, FieldDescriptor, FieldName};
use duke::tree::method::{MethodAccess, MethodDescriptor, MethodName};
use duke::tree::version::Version;
use duke::visitor::simple::class::SimpleClassVisitor;
use duke::visitor::MultiClassVisitor;
use std::convert::Infallible;
use std::ops::ControlFlow;

pub struct Skim(pub usize);
pub struct SkimClass;
impl MultiClassVisitor for Skim {
	type ClassVisitor = SkimClass;
	type ClassResidual = Skim;
	fn visit_class(self, _v: Version, _a: ClassAccess, _n: ObjClassName, _s: Option<ObjClassName>, _i: Vec<ObjClassName>) -> Result<ControlFlow<Self, (Skim, SkimClass)>> {
		Ok(ControlFlow::Continue((Skim(self.0 + 1), SkimClass)))
	}
	fn finish_class(this: Skim, _c: SkimClass) -> Result<Self> { Ok(this) }
}
impl SimpleClassVisitor for SkimClass {
	type FieldVisitor = Infallible;
	type MethodVisitor = Infallible;
	fn visit_field(&mut self, _a: FieldAccess, _n: FieldName, _d: FieldDescriptor) -> Result<Option<Infallible>> { Ok(None) }
	fn finish_field(&mut self, _f: Infallible) -> Result<()> { Ok(()) }
	fn visit_method(&mut self, _a: MethodAccess, _n: MethodName, _d: MethodDescriptor) -> Result<Option<Infallible>> { Ok(None) }
	fn finish_method(&mut self, _m: Infallible) -> Result<()> { Ok(()) }
}

pub struct Decline(pub usize);
impl MultiClassVisitor for Decline {
	type ClassVisitor = SkimClass;
	type ClassResidual = Decline;
	fn visit_class(self, _v: Version, _a: ClassAccess, _n: ObjClassName, _s: Option<ObjClassName>, _i: Vec<ObjClassName>) -> Result<ControlFlow<Self, (Decline, SkimClass)>> {
		Ok(ControlFlow::Break(Decline(self.0 + 1)))
	}
	fn finish_class(this: Decline, _c: SkimClass) -> Result<Self> { Ok(this) }
}
