//! Sandbox: inputs are run in child processes of this very binary (`c16 --child <batch>`), started
//! through `sh -c 'ulimit …; exec …'` so that a stack overflow, an abort on a failed allocation, an
//! endless loop or a runaway allocation kills the child, not the harness.  The child reports
//! `S <i>` before and `E <i> …` after each input, so a child that dies pinpoints its input.
use std::alloc::{GlobalAlloc, Layout, System};
use std::io::{Read, Write};
use std::os::unix::process::ExitStatusExt;
use std::path::{Path, PathBuf};
use std::sync::atomic::{AtomicU64, AtomicUsize, Ordering};
use std::time::Instant;

// ---------------------------------------------------------------- counting allocator
pub struct Counting;
static CUR: AtomicUsize = AtomicUsize::new(0);
static PEAK: AtomicUsize = AtomicUsize::new(0);
static BIG: AtomicUsize = AtomicUsize::new(0);

fn note(size: usize) {
	let c = CUR.fetch_add(size, Ordering::Relaxed) + size;
	PEAK.fetch_max(c, Ordering::Relaxed);
	BIG.fetch_max(size, Ordering::Relaxed);
}
unsafe impl GlobalAlloc for Counting {
	unsafe fn alloc(&self, l: Layout) -> *mut u8 { let p = System.alloc(l); if !p.is_null() { note(l.size()); } else { BIG.fetch_max(l.size(), Ordering::Relaxed); } p }
	unsafe fn alloc_zeroed(&self, l: Layout) -> *mut u8 { let p = System.alloc_zeroed(l); if !p.is_null() { note(l.size()); } else { BIG.fetch_max(l.size(), Ordering::Relaxed); } p }
	unsafe fn dealloc(&self, p: *mut u8, l: Layout) { System.dealloc(p, l); CUR.fetch_sub(l.size(), Ordering::Relaxed); }
	unsafe fn realloc(&self, p: *mut u8, l: Layout, new: usize) -> *mut u8 {
		let q = System.realloc(p, l, new);
		if !q.is_null() { CUR.fetch_sub(l.size(), Ordering::Relaxed); note(new); } else { BIG.fetch_max(new, Ordering::Relaxed); }
		q
	}
}

// ---------------------------------------------------------------- inputs
pub const K_CLASS: u8 = 0;
pub const K_TINY: u8 = 1;
pub const K_DIFF: u8 = 2;
pub const K_ENIGMA: u8 = 3;
pub const K_NESTS: u8 = 4;
pub const K_DESC: u8 = 5;
pub const KIND_NAMES: [&str; 6] = ["class", "tiny-v2", "tiny-diff", "enigma", "nests", "descriptor"];

#[derive(Clone)]
pub enum Form { Raw(Vec<u8>), Derived { base: u32, trunc: Option<u32>, edits: Vec<(u32, u8, u32)> } }

#[derive(Clone)]
pub struct Input {
	pub kind: u8,
	pub form: Form,
	/// generator stream (distribution key)
	pub stream: &'static str,
	/// human readable description of how the input was made
	pub label: String,
	/// narrow structural class used by the known-finding classifier ("" = none)
	pub shape: &'static str,
	/// prefix of a correspondence case (`C… args`), the observed outcome is appended
	pub case: Option<String>,
}

impl Input {
	pub fn raw(kind: u8, stream: &'static str, label: impl Into<String>, bytes: Vec<u8>) -> Input {
		Input { kind, form: Form::Raw(bytes), stream, label: label.into(), shape: "", case: None }
	}
	pub fn bytes(&self, bases: &[Vec<u8>]) -> Vec<u8> {
		match &self.form {
			Form::Raw(b) => b.clone(),
			Form::Derived { base, trunc, edits } => derive(&bases[*base as usize], *trunc, edits),
		}
	}
}
fn derive(base: &[u8], trunc: Option<u32>, edits: &[(u32, u8, u32)]) -> Vec<u8> {
	let mut b = base.to_vec();
	for &(off, w, v) in edits { if off as usize + w as usize <= b.len() { super::cf::write_at(&mut b, off as usize, w, v); } }
	if let Some(t) = trunc { b.truncate(t as usize); }
	b
}

#[derive(Clone, Debug, PartialEq)]
pub enum Res { Ok, Err, Panic(String), Crash(String), Timeout, /// the parser returned a value that breaks a limit the parser documents (bounded work / memory)
	Limit(String) }
impl Res {
	pub fn bad(&self) -> bool { !matches!(self, Res::Ok | Res::Err) }
	pub fn token(&self) -> &'static str { match self { Res::Ok => "ok", Res::Err => "err", Res::Panic(_) => "panic", Res::Crash(_) => "crash", Res::Timeout => "timeout", Res::Limit(_) => "limit" } }
	pub fn detail(&self) -> String { match self { Res::Panic(m) | Res::Crash(m) | Res::Limit(m) => m.clone(), Res::Timeout => "no answer within the time limit".into(), _ => String::new() } }
}
#[derive(Clone, Debug)]
pub struct Outcome { pub res: Res, pub write: Option<Res>, pub peak: u64, pub big: u64, pub micros: u64, pub confirmed: bool,
	/// a number the parser run reports about its result (class reader: the largest number of bootstrap
	/// arguments, counting nested ones, that one instruction of the tree carries)
	pub aux: u64 }

// ---------------------------------------------------------------- batch file
fn put32(v: &mut Vec<u8>, x: u32) { v.extend_from_slice(&x.to_le_bytes()); }
fn encode(bases: &[Vec<u8>], inputs: &[&Input]) -> Vec<u8> {
	// only the bases that are used
	let mut used: Vec<u32> = inputs.iter().filter_map(|i| if let Form::Derived { base, .. } = &i.form { Some(*base) } else { None }).collect();
	used.sort(); used.dedup();
	let mut v = vec![];
	put32(&mut v, used.len() as u32);
	for &u in &used { put32(&mut v, bases[u as usize].len() as u32); v.extend_from_slice(&bases[u as usize]); }
	put32(&mut v, inputs.len() as u32);
	for i in inputs {
		v.push(i.kind);
		match &i.form {
			Form::Raw(b) => { v.push(0); put32(&mut v, b.len() as u32); v.extend_from_slice(b); }
			Form::Derived { base, trunc, edits } => {
				v.push(1);
				put32(&mut v, used.binary_search(base).unwrap_or(0) as u32);
				put32(&mut v, trunc.unwrap_or(u32::MAX));
				put32(&mut v, edits.len() as u32);
				for &(o, w, x) in edits { put32(&mut v, o); v.push(w); put32(&mut v, x); }
			}
		}
	}
	v
}
struct Rd<'a> { b: &'a [u8], p: usize }
impl<'a> Rd<'a> {
	fn u8(&mut self) -> u8 { let x = self.b[self.p]; self.p += 1; x }
	fn u32(&mut self) -> u32 { let x = u32::from_le_bytes(self.b[self.p..self.p + 4].try_into().unwrap()); self.p += 4; x }
	fn take(&mut self, n: usize) -> &'a [u8] { let s = &self.b[self.p..self.p + n]; self.p += n; s }
}

// ---------------------------------------------------------------- child
static STARTED_MS: AtomicU64 = AtomicU64::new(0);
static STARTED_CPU_MS: AtomicU64 = AtomicU64::new(0);
static CURRENT: AtomicU64 = AtomicU64::new(0);
/// per input: CPU time of the child process (the machine may be heavily shared, so wall time only
/// serves as a backstop for an input that sleeps or blocks)
pub const INPUT_CPU_LIMIT_MS: u64 = 10_000;
pub const INPUT_WALL_LIMIT_MS: u64 = 180_000;

/// CPU time (user + system) of this process in milliseconds, from /proc/self/stat (10 ms ticks)
pub fn cpu_ms() -> u64 {
	let Ok(s) = std::fs::read_to_string("/proc/self/stat") else { return 0; };
	// fields after the parenthesised command name; utime and stime are fields 14 and 15
	let Some(rest) = s.rfind(')').map(|i| &s[i + 1..]) else { return 0; };
	let f: Vec<&str> = rest.split_whitespace().collect();
	let (u, k) = (f.get(11).and_then(|x| x.parse::<u64>().ok()).unwrap_or(0), f.get(12).and_then(|x| x.parse::<u64>().ok()).unwrap_or(0));
	(u + k) * 10
}

fn clean(s: &str) -> String { s.chars().map(|c| if c == '\n' || c == '\t' || c == '\r' { ' ' } else { c }).take(300).collect() }

/// `c16 --child <batchfile>`: run every record, print one line per record
pub fn child_main(batch: &Path, run_one: fn(u8, &[u8], &Path) -> (Res, Option<Res>, u64)) -> ! {
	std::panic::set_hook(Box::new(|_| {}));
	let data = std::fs::read(batch).expect("batch file");
	let scratch = PathBuf::from(format!("{}.scratch", batch.display()));
	let mut rd = Rd { b: &data, p: 0 };
	let nb = rd.u32() as usize;
	let mut bases = vec![];
	for _ in 0..nb { let l = rd.u32() as usize; bases.push(rd.take(l)); }
	let n = rd.u32() as usize;
	let t0 = Instant::now();
	std::thread::spawn(move || loop {
		std::thread::sleep(std::time::Duration::from_millis(100));
		let s = STARTED_MS.load(Ordering::SeqCst);
		if s != 0 && ((t0.elapsed().as_millis() as u64).saturating_sub(s) > INPUT_WALL_LIMIT_MS || cpu_ms().saturating_sub(STARTED_CPU_MS.load(Ordering::SeqCst)) > INPUT_CPU_LIMIT_MS) {
			let out = std::io::stdout();
			let mut out = out.lock();
			let _ = writeln!(out, "T {}", CURRENT.load(Ordering::SeqCst));
			let _ = out.flush();
			std::process::exit(3);
		}
	});
	for i in 0..n {
		let kind = rd.u8();
		let form = rd.u8();
		let bytes: Vec<u8> = if form == 0 { let l = rd.u32() as usize; rd.take(l).to_vec() } else {
			let base = rd.u32() as usize; let trunc = rd.u32(); let ne = rd.u32() as usize;
			let mut edits = vec![];
			for _ in 0..ne { let o = rd.u32(); let w = rd.u8(); let x = rd.u32(); edits.push((o, w, x)); }
			derive(bases[base], if trunc == u32::MAX { None } else { Some(trunc) }, &edits)
		};
		{ let out = std::io::stdout(); let mut out = out.lock(); let _ = writeln!(out, "S {i}"); let _ = out.flush(); }
		CURRENT.store(i as u64, Ordering::SeqCst);
		let base_mem = CUR.load(Ordering::Relaxed);
		PEAK.store(base_mem, Ordering::Relaxed); BIG.store(0, Ordering::Relaxed);
		let t = Instant::now();
		let cpu0 = cpu_ms();
		STARTED_CPU_MS.store(cpu0, Ordering::SeqCst);
		STARTED_MS.store((t0.elapsed().as_millis() as u64).max(1), Ordering::SeqCst);
		let (res, wres, aux) = run_one(kind, &bytes, &scratch);
		STARTED_MS.store(0, Ordering::SeqCst);
		// CPU time where it is measurable (10 ms ticks), else wall time; never more than wall time
		let wall = t.elapsed().as_micros() as u64;
		let cpu = cpu_ms().saturating_sub(cpu0) * 1000;
		let micros = if cpu > 0 { cpu.min(wall) } else { wall.min(10_000) };
		let peak = PEAK.load(Ordering::Relaxed).saturating_sub(base_mem);
		let big = BIG.load(Ordering::Relaxed);
		let msg = match (&res, &wres) { (Res::Panic(m) | Res::Limit(m), _) => clean(m), (_, Some(Res::Panic(m))) => clean(m), _ => String::new() };
		let out = std::io::stdout(); let mut out = out.lock();
		let _ = writeln!(out, "E {i} {} {} {peak} {big} {micros} {aux}\t{msg}", res.token(), wres.as_ref().map(|w| w.token()).unwrap_or("-"));
		let _ = out.flush();
	}
	let _ = std::fs::remove_file(&scratch);
	std::process::exit(0);
}

// ---------------------------------------------------------------- parent
pub struct Limits { pub as_kib: u64, pub stack_kib: u64, pub cpu_s: u64 }
pub const LIMITS: Limits = Limits { as_kib: 1024 * 1024, stack_kib: 8 * 1024, cpu_s: 600 };

fn describe_exit(st: &std::process::ExitStatus, stderr: &str) -> (bool, String) {
	// (is_timeout, text)
	let tail: String = clean(stderr.trim().lines().last().unwrap_or(""));
	if let Some(sig) = st.signal() {
		let name = match sig { 11 => "SIGSEGV", 6 => "SIGABRT", 9 => "SIGKILL", 24 => "SIGXCPU", 7 => "SIGBUS", 4 => "SIGILL", _ => "signal" };
		let what = if stderr.contains("overflowed its stack") { "stack overflow" } else if stderr.contains("memory allocation of") { "allocation failure under the 1 GiB address-space limit" } else if sig == 9 || sig == 24 { "killed by the CPU-time limit" } else { "process abort" };
		(sig == 9 || sig == 24, format!("{what}: child killed by {name} ({sig}); stderr: {tail}"))
	} else {
		(false, format!("child exited with {:?} without finishing the input; stderr: {tail}", st.code()))
	}
}

/// run inputs[..] in as many children as it takes; returns one outcome per input
fn run_batch(exe: &Path, dir: &Path, tag: &str, bases: &[Vec<u8>], inputs: &[&Input]) -> Vec<Outcome> {
	let mut out: Vec<Outcome> = Vec::with_capacity(inputs.len());
	let mut start = 0usize;
	let path = dir.join(format!("batch_{tag}.bin"));
	while start < inputs.len() {
		let slice = &inputs[start..];
		std::fs::write(&path, encode(bases, slice)).expect("write batch");
		let script = format!("ulimit -v {}; ulimit -s {}; ulimit -t {}; exec \"$0\" \"$@\"", LIMITS.as_kib, LIMITS.stack_kib, LIMITS.cpu_s);
		let child = std::process::Command::new("sh").arg("-c").arg(&script).arg(exe).arg("--child").arg(&path)
			.env("RUST_BACKTRACE", "0")
			.stdin(std::process::Stdio::null()).stdout(std::process::Stdio::piped()).stderr(std::process::Stdio::piped())
			.spawn().expect("spawn child");
		let o = child.wait_with_output().expect("child output");
		let stdout = String::from_utf8_lossy(&o.stdout);
		let stderr = String::from_utf8_lossy(&o.stderr);
		let mut done = 0usize; // number of E lines
		let mut started: Option<usize> = None;
		let mut timed_out = false;
		for line in stdout.lines() {
			if let Some(rest) = line.strip_prefix("S ") { started = rest.trim().parse().ok(); }
			else if line.starts_with("T ") { timed_out = true; }
			else if let Some(rest) = line.strip_prefix("E ") {
				let (head, msg) = rest.split_once('\t').unwrap_or((rest, ""));
				let f: Vec<&str> = head.split(' ').collect();
				if f.len() < 6 { continue; }
				let mk = |t: &str| match t { "ok" => Res::Ok, "err" => Res::Err, "limit" => Res::Limit(msg.to_string()), _ => Res::Panic(msg.to_string()) };
				out.push(Outcome { res: mk(f[1]), write: if f[2] == "-" { None } else { Some(mk(f[2])) }, peak: f[3].parse().unwrap_or(0), big: f[4].parse().unwrap_or(0), micros: f[5].parse().unwrap_or(0), confirmed: true, aux: f.get(6).and_then(|x| x.parse().ok()).unwrap_or(0) });
				done += 1; started = None;
			}
		}
		if done >= slice.len() { break; }
		// the child died (or was stopped by its watchdog) while working on input `done`
		let _ = started;
		let (is_to, text) = if timed_out { (true, String::new()) } else { describe_exit(&o.status, &stderr) };
		let res = if is_to { Res::Timeout } else { Res::Crash(text) };
		out.push(Outcome { res, write: None, peak: 0, big: 0, micros: 0, confirmed: false, aux: 0 });
		start += done + 1;
	}
	let _ = std::fs::remove_file(&path);
	let _ = std::fs::remove_file(format!("{}.scratch", path.display()));
	out
}

/// Run all inputs (in parallel batches); every crash/timeout/panic is re-run alone in a fresh
/// child and only counts when it reproduces (`confirmed`).
pub fn run_all(dir: &Path, bases: &[Vec<u8>], inputs: &[Input], jobs: usize) -> Vec<Outcome> {
	let exe = std::env::current_exe().expect("current_exe");
	std::fs::create_dir_all(dir).expect("outdir");
	// batches: at most 4000 inputs or ~24 MiB of raw bytes
	let mut batches: Vec<(usize, usize)> = vec![];
	let (mut s, mut bytes) = (0usize, 0usize);
	for (i, inp) in inputs.iter().enumerate() {
		let l = match &inp.form { Form::Raw(b) => b.len(), Form::Derived { edits, .. } => 16 + 9 * edits.len() };
		// inputs that cost tens of milliseconds each (65536 expanded bootstrap arguments) go in small batches so that they spread over the jobs
		let heavy = inp.shape == "bootstrap-multi-argument";
		if i > s && (i - s >= 4000 || bytes + l > 24 << 20 || (heavy && i - s >= 10)) { batches.push((s, i)); s = i; bytes = 0; }
		bytes += l;
	}
	if s < inputs.len() { batches.push((s, inputs.len())); }
	let next = AtomicUsize::new(0);
	let results: Vec<std::sync::Mutex<Vec<Outcome>>> = batches.iter().map(|_| std::sync::Mutex::new(vec![])).collect();
	std::thread::scope(|sc| {
		for j in 0..jobs.max(1) {
			let (next, batches, results, exe) = (&next, &batches, &results, &exe);
			sc.spawn(move || loop {
				let k = next.fetch_add(1, Ordering::SeqCst);
				if k >= batches.len() { break; }
				let (a, b) = batches[k];
				let refs: Vec<&Input> = inputs[a..b].iter().collect();
				let mut outs = run_batch(exe, dir, &format!("{j}_{k}"), bases, &refs);
				// confirm every bad outcome alone
				for (idx, o) in outs.iter_mut().enumerate() {
					let bad = o.res.bad() || o.write.as_ref().map_or(false, |w| w.bad());
					if !bad { continue; }
					let solo = run_batch(exe, dir, &format!("{j}_{k}_solo"), bases, &[refs[idx]]);
					if let Some(s) = solo.into_iter().next() {
						let sbad = s.res.bad() || s.write.as_ref().map_or(false, |w| w.bad());
						if sbad { *o = s; o.confirmed = true; } else { o.confirmed = false; }
					}
				}
				*results[k].lock().unwrap() = outs;
			});
		}
	});
	let mut all = Vec::with_capacity(inputs.len());
	for r in results { all.extend(r.into_inner().unwrap()); }
	all
}

#[allow(dead_code)]
pub fn read_all(mut r: impl Read) -> Vec<u8> { let mut v = vec![]; let _ = r.read_to_end(&mut v); v }
