//! Hostile strings: every Utf8 constant that the reader (or an error message of the reader, or the
//! writer) may look at, print or parse is replaced by "interesting" strings — unpaired surrogates,
//! embedded NUL, very long strings, long runs of every structural character of names, descriptors and
//! signatures — in classes that stay structurally valid.  The variants are used (a) as additional
//! BASES, so that every malformed-class mutation of the other generators (boundary values in every
//! structural field, truncation at every position, random byte edits) is crossed with them: the error
//! paths then have such strings in their context (class name, member name, descriptor), and (b) as
//! inputs of their own (one constant at a time, up to the 65535 bytes a Utf8 constant can hold).
use super::cf::*;
use super::sbx::*;
use fbh::prng::Rng;
use std::collections::{HashMap, HashSet};

/// what a Utf8 constant is used for (decides which rewrites keep the class acceptable)
#[derive(Clone, Copy, PartialEq, Eq, Debug)]
pub enum Role { AttrName, ClassName, Name, Other }

pub struct PoolMap {
	/// (pool index, byte offset of the entry's tag, total length of the entry in bytes) of every Utf8 constant
	pub utf8: Vec<(u16, usize, usize)>,
	pub role: HashMap<u16, Role>,
	/// Utf8 constants that are the class name of this_class or the name / descriptor of a field or method
	pub context: HashSet<u16>,
}

/// the Utf8 constants of a (valid) class with their roles; None when the pool cannot be walked
pub fn pool_map(b: &[u8]) -> Option<PoolMap> {
	let count = u16::from_be_bytes([*b.get(8)?, *b.get(9)?]);
	let mut p = 10usize;
	let mut utf8 = vec![];
	let mut class_of: HashMap<u16, u16> = HashMap::new();
	let mut role: HashMap<u16, Role> = HashMap::new();
	let set = |role: &mut HashMap<u16, Role>, i: u16, r: Role| {
		// the most restrictive use wins: attribute name > class name > name > other
		let rank = |r: Role| match r { Role::AttrName => 3, Role::ClassName => 2, Role::Name => 1, Role::Other => 0 };
		let e = role.entry(i).or_insert(r);
		if rank(r) > rank(*e) { *e = r; }
	};
	let mut i = 1u16;
	while i < count {
		let tag = *b.get(p)?;
		let rd = |o: usize| -> Option<u16> { Some(u16::from_be_bytes([*b.get(o)?, *b.get(o + 1)?])) };
		match tag {
			1 => { let l = rd(p + 1)? as usize; if p + 3 + l > b.len() { return None; } utf8.push((i, p, 3 + l)); p += 3 + l; }
			3 | 4 => p += 5,
			5 | 6 => { p += 9; i += 1; }
			7 => { let n = rd(p + 1)?; class_of.insert(i, n); set(&mut role, n, Role::ClassName); p += 3; }
			19 | 20 => { set(&mut role, rd(p + 1)?, Role::Name); p += 3; }
			8 | 16 => { set(&mut role, rd(p + 1)?, Role::Other); p += 3; }
			12 => { set(&mut role, rd(p + 1)?, Role::Name); set(&mut role, rd(p + 3)?, Role::Other); p += 5; }
			9 | 10 | 11 | 17 | 18 => p += 5,
			15 => p += 4,
			_ => return None,
		}
		i += 1;
	}
	let pool_end = p;
	let mut context = HashSet::new();
	let (sites, ok) = walk(b);
	if !ok { return None; }
	for s in &sites {
		let v = read_at(b, s.off, s.w) as u16;
		match s.what {
			"attribute_name_index" => set(&mut role, v, Role::AttrName),
			"member name" => { set(&mut role, v, Role::Name); context.insert(v); }
			"member descriptor" => { set(&mut role, v, Role::Other); context.insert(v); }
			"lv name" | "parameter name" | "component name" => set(&mut role, v, Role::Name),
			"this_class" => { if let Some(&n) = class_of.get(&v) { context.insert(n); } }
			_ => {}
		}
	}
	let _ = pool_end;
	Some(PoolMap { utf8, role, context })
}

/// the class with some Utf8 constants replaced: `f(index, bytes, role)` returns the new bytes (at most 65535) or None
pub fn rewrite_utf8(b: &[u8], m: &PoolMap, f: &dyn Fn(u16, &[u8], Role) -> Option<Vec<u8>>) -> Vec<u8> {
	let mut out = Vec::with_capacity(b.len());
	let mut at = 0usize;
	for &(i, off, len) in &m.utf8 {
		let body = &b[off + 3..off + len];
		let role = m.role.get(&i).copied().unwrap_or(Role::Other);
		if let Some(mut new) = f(i, body, role) {
			new.truncate(65535);
			out.extend_from_slice(&b[at..off]);
			out.push(1); u16be(&mut out, new.len() as u16); out.extend_from_slice(&new);
			at = off + len;
		}
	}
	out.extend_from_slice(&b[at..]);
	out
}

/// `ins` put where it keeps most strings acceptable for their role: before a final `;` (descriptors of
/// object types, array class names), otherwise at the end; None for strings that no insertion keeps valid
fn insert_benign(s: &[u8], ins: &[u8], role: Role) -> Option<Vec<u8>> {
	if role == Role::AttrName || s == b"<init>" || s == b"<clinit>" { return None; }
	if s.first() == Some(&b'[') && s.last() != Some(&b';') { return None; }
	let mut v = s.to_vec();
	if s.last() == Some(&b';') { let at = v.len() - 1; v.splice(at..at, ins.iter().copied()); } else { v.extend_from_slice(ins); }
	Some(v)
}

pub const LONE_SURROGATE: [u8; 3] = [0xED, 0xA0, 0x80];
pub const LOW_SURROGATE: [u8; 3] = [0xED, 0xB0, 0x80];
pub const MUTF8_NUL: [u8; 2] = [0xC0, 0x80];
/// the structural characters of names, descriptors and signatures
pub const STRUCTURAL: &[u8] = b"[L;()/.<>:^*+-TV$";

fn rep(x: &[u8], n: usize) -> Vec<u8> { x.iter().copied().cycle().take(x.len() * n).collect() }

/// the variants of one valid class that stay (mostly) acceptable; every Utf8 constant is changed at once
pub fn variants(name: &str, b: &[u8]) -> Vec<(String, Vec<u8>)> {
	let Some(m) = pool_map(b) else { return vec![]; };
	let mut v = vec![];
	v.push((format!("hostile strings: every Utf8 of {name} with an unpaired high surrogate (ED A0 80)"), rewrite_utf8(b, &m, &|_, s, r| insert_benign(s, &LONE_SURROGATE, r))));
	v.push((format!("hostile strings: every Utf8 of {name} with an unpaired low surrogate first and a high one last"), rewrite_utf8(b, &m, &|_, s, r| {
		let t = insert_benign(s, &LONE_SURROGATE, r)?;
		if r == Role::Other && s.first().map_or(true, |c| !b"([L".contains(c)) { Some([&LOW_SURROGATE[..], &t[..]].concat()) } else { Some(t) }
	})));
	v.push((format!("hostile strings: every name of {name} starts with a 2-, 3- or 6-byte character, object types carry one after the `L`"), rewrite_utf8(b, &m, &|i, s, r| {
		let ch: &[u8] = [&[0xC3u8, 0xA9][..], &[0xE2, 0x82, 0xAC], &[0xED, 0xA0, 0x81, 0xED, 0xB0, 0x80]][i as usize % 3];
		if r == Role::AttrName || s == b"<init>" || s == b"<clinit>" || s.first() == Some(&b'[') { return None; }
		if r == Role::Other {
			// after every `L` that starts an object type of a descriptor: `(Ljava/..;)V` -> `(L?java/..;)V`; other strings in front
			if s.first().map_or(false, |c| b"(L".contains(c)) {
				let mut v = vec![]; let mut prev_boundary = true;
				for &c in s { v.push(c); if c == b'L' && prev_boundary { v.extend_from_slice(ch); } prev_boundary = matches!(c, b'(' | b')' | b';' | b'['); }
				return Some(v);
			}
		}
		Some([ch, s].concat())
	})));
	v.push((format!("hostile strings: every Utf8 of {name} with an embedded NUL (C0 80)"), rewrite_utf8(b, &m, &|_, s, r| insert_benign(s, &MUTF8_NUL, r))));
	v.push((format!("hostile strings: every Utf8 of {name} made 700 bytes longer"), rewrite_utf8(b, &m, &|i, s, r| insert_benign(s, &rep(&[b'a' + (i % 26) as u8], 700), r))));
	v.push((format!("hostile strings: every descriptor / signature / string of {name} behind 300 `[`"), rewrite_utf8(b, &m, &|_, s, r| if r == Role::Other { Some([&rep(b"[", 300)[..], s].concat()) } else { insert_benign(s, &LONE_SURROGATE, r) })));
	v.push((format!("hostile strings: every descriptor / signature / string of {name} followed by a run of 300 structural characters (one kind per constant)"), rewrite_utf8(b, &m, &|i, s, r| {
		if r == Role::Other { Some([s, &rep(&[STRUCTURAL[i as usize % STRUCTURAL.len()]], 300)[..]].concat()) } else { insert_benign(s, &LONE_SURROGATE, r) }
	})));
	v
}

/// strings of the largest size a Utf8 constant can hold
pub fn giants() -> Vec<(&'static str, Vec<u8>)> {
	vec![
		("65535 `[`", rep(b"[", 65535)),
		("`L`, 65533 letters, `;`", [b"L".to_vec(), rep(b"a", 65533), b";".to_vec()].concat()),
		("65535 `(`", rep(b"(", 65535)),
		("`(`, 65530 `[`, `I)V`", [b"(".to_vec(), rep(b"[", 65530), b"I)V".to_vec()].concat()),
		("32767 x `a/`", rep(b"a/", 32767)),
		("65535 `;`", rep(b";", 65535)),
		("65535 `<`", rep(b"<", 65535)),
		("21845 unpaired surrogates", rep(&LONE_SURROGATE, 21845)),
		("32767 embedded NUL", rep(&MUTF8_NUL, 32767)),
		("65535 letters", rep(b"a", 65535)),
		("`(`, 21844 x `[[I`, `)V`", [b"(".to_vec(), rep(b"[[I", 21844), b")V".to_vec()].concat()),
		("16383 x `TT;<`", rep(b"TT;<", 16383)),
	]
}

/// the context strings of a class (its name, the names and descriptors of its members — what the error
/// messages of the reader carry) replaced by strings of the largest size: bases for the mutation generators
pub fn giant_context_variants(name: &str, b: &[u8]) -> Vec<(String, Vec<u8>)> {
	let Some(m) = pool_map(b) else { return vec![]; };
	let mut v = vec![];
	for (what, unit) in [("unpaired surrogates", &LONE_SURROGATE[..]), ("letters", &b"a"[..]), ("`[`", &b"["[..])] {
		v.push((format!("hostile strings: class name, member names and member descriptors of {name} filled up to 65535 bytes with {what}"), rewrite_utf8(b, &m, &|i, s, r| {
			if !m.context.contains(&i) { return None; }
			let room = 65535usize.saturating_sub(s.len());
			if unit == b"[" {
				// names cannot hold `[`: descriptors get the run in front (a field type of 65535 dimensions), names letters at the end
				if r == Role::Other { Some([&rep(b"[", room)[..], s].concat()) } else { insert_benign(s, &rep(b"a", room), r) }
			} else { insert_benign(s, &rep(unit, room / unit.len()), r) }
		})));
	}
	v
}

/// one Utf8 constant at a time: replaced by / extended with every giant; and made invalid for its role
/// next to an unpaired surrogate (so that the message about the invalid value has to print one); a few
/// of them with a random structural mutation on top
pub fn one_at_a_time(name: &str, b: &[u8], per_base: usize, rng: &mut Rng, out: &mut Vec<Input>) {
	let Some(m) = pool_map(b) else { return; };
	let surrogate_base = rewrite_utf8(b, &m, &|_, s, r| insert_benign(s, &LONE_SURROGATE, r));
	let Some(ms) = pool_map(&surrogate_base) else { return; };
	let eligible: Vec<u16> = m.utf8.iter().map(|x| x.0).filter(|i| m.role.get(i).copied().unwrap_or(Role::Other) != Role::AttrName).collect();
	let step = (eligible.len() / per_base.max(1)).max(1);
	let gs = giants();
	for (k, &i) in eligible.iter().enumerate() {
		let role = m.role.get(&i).copied().unwrap_or(Role::Other);
		// invalid for its role, next to a surrogate (every constant of the class)
		for (what, bad) in [("`.`", &b"."[..]), ("`;`", b";"), ("`[`", b"["), ("`/` twice", b"//"), ("nothing left but the surrogate", b"")] {
			let bytes = rewrite_utf8(&surrogate_base, &ms, &|j, s, _| if j == i { Some(if bad.is_empty() { LONE_SURROGATE.to_vec() } else { [s, bad, &LONE_SURROGATE[..]].concat() }) } else { None });
			out.push(Input { kind: K_CLASS, form: Form::Raw(bytes), stream: "class-hostile-strings", shape: "", case: None,
				label: format!("{name}, every Utf8 with an unpaired surrogate; Utf8 #{i} ({role:?}) additionally followed by {what} and a surrogate") });
		}
		if k % step != 0 { continue; }
		for (gi, (gname, g)) in gs.iter().enumerate() {
			// every constant sees some giants replaced and some appended (rotating), the context strings all of them
			let all = m.context.contains(&i);
			if !all && (gi + k) % 3 != 0 { continue; }
			let append = (gi + k) % 2 == 0;
			let bytes = rewrite_utf8(b, &m, &|j, s, _| if j == i { Some(if append { let mut v = s.to_vec(); v.extend_from_slice(&g[..g.len().min(65535 - s.len().min(65535))]); v } else { g.clone() }) } else { None });
			let label = format!("{name}: Utf8 #{i} ({role:?}) {} {gname}", if append { "extended to 65535 bytes with" } else { "replaced by" });
			if all && gi % 4 == 0 {
				// ... and malformed somewhere else: a random structural field at a boundary value
				let (sites, _) = walk(&bytes);
				let cands: Vec<&Site> = sites.iter().filter(|s| matches!(s.kind, Kind::PoolIdx | Kind::Count | Kind::Len | Kind::Tag)).collect();
				for _ in 0..3 {
					if cands.is_empty() { break; }
					let s = cands[rng.below(cands.len())];
					let v = *rng.pick(&[0u32, 1, 0xFFFF, 0x7FFF, 2, 0xFF]);
					let mut mutated = bytes.clone(); write_at(&mut mutated, s.off, s.w, v);
					out.push(Input { kind: K_CLASS, form: Form::Raw(mutated), stream: "class-hostile-strings", shape: "", case: None, label: format!("{label}; {} at offset {} set to {v:#x}", s.what, s.off) });
				}
			}
			out.push(Input { kind: K_CLASS, form: Form::Raw(bytes), stream: "class-hostile-strings", shape: "", case: None, label });
		}
	}
}

/// descriptor / name strings: long runs of every structural character, alone and inside the frames of a
/// field type, a method descriptor, an object type and a signature
pub fn structural_runs(out: &mut Vec<Input>) {
	let mut push = |label: String, v: Vec<u8>| out.push(Input { kind: K_DESC, form: Form::Raw(v), stream: "descriptor-structural-runs", label, shape: "", case: None });
	for &c in STRUCTURAL {
		for n in [255usize, 256, 257, 65535, 65536, 300_000] {
			let run = rep(&[c], n);
			let ch = c as char;
			push(format!("descriptor: {n} x `{ch}`"), run.clone());
			push(format!("descriptor: `(`, {n} x `{ch}`, `)V`"), [b"(".to_vec(), run.clone(), b")V".to_vec()].concat());
			push(format!("descriptor: `L`, {n} x `{ch}`, `;`"), [b"L".to_vec(), run.clone(), b";".to_vec()].concat());
			push(format!("descriptor: `[`, {n} x `{ch}`"), [b"[".to_vec(), run.clone()].concat());
			push(format!("descriptor: {n} x `{ch}`, `I`"), [run.clone(), b"I".to_vec()].concat());
			push(format!("descriptor: `()`, {n} x `{ch}`"), [b"()".to_vec(), run.clone()].concat());
			if n <= 65536 { push(format!("descriptor: `([La;`, {n} x `{ch}`, `)La;`"), [b"([La;".to_vec(), run.clone(), b")La;".to_vec()].concat()); }
		}
	}
	for n in [255usize, 256, 65535, 100_000] {
		push(format!("descriptor: {n} x `[I` as parameters"), [b"(".to_vec(), rep(b"[I", n), b")V".to_vec()].concat());
		push(format!("descriptor: {n} x `La;` as parameters"), [b"(".to_vec(), rep(b"La;", n), b")V".to_vec()].concat());
		push(format!("descriptor: {n} x `[` then `La;`"), [rep(b"[", n), b"La;".to_vec()].concat());
		push(format!("descriptor: {n} unpaired surrogates in an object type"), [b"L".to_vec(), rep(&LONE_SURROGATE, n), b";".to_vec()].concat());
		push(format!("descriptor: {n} embedded NUL in an object type"), [b"L".to_vec(), rep(&MUTF8_NUL, n), b";".to_vec()].concat());
		push(format!("descriptor: {n} x `a/` in an object type"), [b"L".to_vec(), rep(b"a/", n), b"a;".to_vec()].concat());
	}
}

/// the same runs where the text formats carry class names, member names and descriptors
pub fn text_structural_runs(out: &mut Vec<Input>) {
	let n = 100_000usize;
	for &c in STRUCTURAL {
		let run = String::from_utf8(rep(&[c], n)).unwrap_or_default();
		let ch = c as char;
		let shapes: Vec<(u8, &str, String)> = vec![
			(K_TINY, "class name", format!("tiny\t2\t0\ta\tb\nc\t{run}\tB\n")),
			(K_TINY, "second class name", format!("tiny\t2\t0\ta\tb\nc\tA\t{run}\n")),
			(K_TINY, "field descriptor", format!("tiny\t2\t0\ta\tb\nc\tA\tB\n\tf\t{run}\tx\ty\n")),
			(K_TINY, "method descriptor", format!("tiny\t2\t0\ta\tb\nc\tA\tB\n\tm\t({run})V\tx\ty\n")),
			(K_TINY, "method name", format!("tiny\t2\t0\ta\tb\nc\tA\tB\n\tm\t()V\t{run}\ty\n")),
			(K_DIFF, "class name", format!("tiny\t2\t0\nc\t{run}\tX\tY\n")),
			(K_DIFF, "field descriptor", format!("tiny\t2\t0\nc\tA\tX\tY\n\tf\t{run}\tx\t\ty\n")),
			(K_ENIGMA, "class name", format!("CLASS {run} B\n")),
			(K_ENIGMA, "field descriptor", format!("CLASS A B\n\tFIELD x y {run}\n")),
			(K_ENIGMA, "method descriptor", format!("CLASS A B\n\tMETHOD p q ({run})V\n")),
			(K_NESTS, "class name", format!("{run}\ta/B\t\t\tC\t8\n")),
			(K_NESTS, "enclosing class name", format!("a/B$C\t{run}\t\t\tC\t8\n")),
			(K_NESTS, "enclosing method descriptor", format!("a/B$C\ta/B\tm\t({run})V\tC\t8\n")),
			(K_NESTS, "inner name", format!("a/B$C\ta/B\t\t\t{run}\t8\n")),
		];
		for (k, w, t) in shapes {
			out.push(Input { kind: k, form: Form::Raw(t.into_bytes()), stream: "text-structural-runs", label: format!("{}: {w} = {n} x `{ch}`", KIND_NAMES[k as usize]), shape: "", case: None });
		}
	}
}

/// descriptor and name strings with an unpaired surrogate, an embedded NUL, a 4-byte character (as six
/// bytes) or a raw NUL at every position of short valid and invalid descriptors: the messages of the
/// descriptor parsers quote the whole descriptor and what remained of it
pub fn descriptor_hostile_cells(out: &mut Vec<Input>) {
	let shapes: [&str; 34] = ["", "I", "V", "[I", "[[J", "La;", "La/b;", "[La;", "L;", "La", "(", "()", "()V", "(I)V", "(IJ)La;", "([I[La;)[J", "(La;)", "(V)V", "I)", "II", "La;I", "[", "[[", "[V", "()VV", "()II",
		"(I)VI", "L/a;", "La//b;", "La.b;", "(La;La", "a", "<init>", "a/b"];
	let pieces: [(&str, &[u8]); 5] = [("an unpaired high surrogate", &LONE_SURROGATE), ("an unpaired low surrogate", &LOW_SURROGATE), ("an embedded NUL (C0 80)", &MUTF8_NUL), ("U+10400 as a surrogate pair", &[0xED, 0xA0, 0x81, 0xED, 0xB0, 0x80]), ("a raw NUL byte", &[0])];
	for sh in shapes {
		for (pn, piece) in pieces {
			for at in 0..=sh.len() {
				let mut v = sh.as_bytes()[..at].to_vec(); v.extend_from_slice(piece); v.extend_from_slice(&sh.as_bytes()[at..]);
				for kind in [K_DESC, super::K_MDESC, super::K_RDESC] {
					out.push(Input { kind, form: Form::Raw(v.clone()), stream: "descriptor-hostile-cells", label: format!("descriptor {sh:?} with {pn} at position {at}"), shape: "", case: None });
				}
			}
		}
	}
}

/// every byte string of length <= 2, and the 3-byte strings that start like a 3-byte character or a
/// surrogate, over the bytes where modified UTF-8 changes its mind, as the name of this_class (the Utf8 is
/// decoded, validated as a class name, and quoted in error messages)
pub fn mutf8_exhaustive(out: &mut Vec<Input>) {
	let alpha: [u8; 19] = [0x00, 0x01, 0x41, 0x7F, 0x80, 0x9F, 0xA0, 0xB0, 0xBF, 0xC0, 0xC1, 0xC2, 0xDF, 0xE0, 0xED, 0xEF, 0xF0, 0xF4, 0xFF];
	let mut strings: Vec<Vec<u8>> = vec![vec![]];
	for &a in &alpha { strings.push(vec![a]); for &b in &alpha { strings.push(vec![a, b]); if a >= 0xE0 && a <= 0xEF { for &c in &alpha { strings.push(vec![a, b, c]); } } } }
	// surrogate halves next to each other in every order, cut short, and doubled
	let (hi, lo) = (LONE_SURROGATE, LOW_SURROGATE);
	for v in [[&hi[..], &lo[..]].concat(), [&lo[..], &hi[..]].concat(), [&hi[..], &hi[..]].concat(), [&lo[..], &lo[..]].concat(), [&hi[..], &lo[..2]].concat(), [&hi[..], &[0xEDu8][..]].concat(), [&hi[..], &lo[..], &lo[..]].concat(), [&b"a"[..], &hi[..], &b"/"[..], &lo[..]].concat()] { strings.push(v); }
	for sfx in [&b""[..], b"A"] {
		for st in &strings {
			let raw = [&st[..], sfx].concat();
			let mut p = Pool::new();
			let u = p.utf8b(&raw); let this = p.idx1(7, u);
			let bytes = class_file(61, &p, 0x0021, this, 0, &[], &[], &[], &[]);
			out.push(Input { kind: K_CLASS, form: Form::Raw(bytes), stream: "class-mutf8-exhaustive", label: format!("class whose name is the Utf8 with the bytes {raw:02x?}"), shape: "", case: None });
		}
	}
}

/// annotation element values of the integer kinds (B C S Z I) whose constant is at the boundaries of every
/// narrower type, as a named element value and as an AnnotationDefault
pub fn element_value_integers(out: &mut Vec<Input>) {
	for tag in [b'B', b'C', b'S', b'Z', b'I'] {
		for value in [i32::MIN, -65537, -65536, -32769, -32768, -129, -128, -1, 0, 1, 127, 128, 255, 256, 32767, 32768, 65535, 65536, i32::MAX] {
			for named in [true, false] {
				let mut p = Pool::new();
				let this = p.class("T"); let sup = p.class("java/lang/Object");
				let k = p.int(value);
				let (n, d) = (p.utf8("v"), p.utf8("()I"));
				let bytes = if named {
					let (an, ty) = (p.utf8("RuntimeVisibleAnnotations"), p.utf8("LA;"));
					let mut b = vec![]; u16be(&mut b, 1); u16be(&mut b, ty); u16be(&mut b, 1); u16be(&mut b, n); b.push(tag); u16be(&mut b, k);
					class_file(61, &p, 0x0021, this, sup, &[], &[], &[], &[attr(an, &b)])
				} else {
					let ad = p.utf8("AnnotationDefault");
					let mut b = vec![tag]; u16be(&mut b, k);
					let m = member(0x0401, n, d, &[attr(ad, &b)]);
					class_file(61, &p, 0x2601, this, sup, &[], &[], &[m], &[])
				};
				out.push(Input { kind: K_CLASS, form: Form::Raw(bytes), stream: "class-targeted", shape: "element-value-integer", case: None,
					label: format!("{}: element value `{}` with the Integer constant {value}", if named { "RuntimeVisibleAnnotations" } else { "AnnotationDefault" }, tag as char) });
			}
		}
	}
}

/// every cell (TAB / blank separated field) of the valid text fixtures replaced, one at a time, by hostile
/// cells: names that start with multi-byte characters, empty, special method names, array class names,
/// separators, long
pub fn text_cells(fixtures: &[(u8, String)], out: &mut Vec<Input>) {
	let long = "x".repeat(3000);
	let cells: Vec<&str> = vec!["", "é", "éA", "€/é", "\u{10400}x", "<init>", "<clinit>", "<é>", "[", "[I", "[[Lé;", "a//b", "/", ".", ";", "a;b", "$", "$é", "é$", "Lé;", "(Lé;)V", "()", "(", "+1", "-0", "٣", "0x", "ACC:", "#", " ", "\u{0}", "\u{b}", "\u{85}", "\u{2028}", "\\", "\\é", &long];
	for (k, text) in fixtures {
		let sep: &[char] = if *k == K_ENIGMA { &[' ', '\t'] } else { &['\t'] };
		// (start, end) of every cell
		let mut spans = vec![]; let mut start = 0usize;
		for (i, c) in text.char_indices() {
			if sep.contains(&c) || c == '\n' { if i > start || !sep.contains(&c) || *k != K_ENIGMA { spans.push((start, i)); } start = i + c.len_utf8(); }
		}
		for (ci, &(a, b)) in spans.iter().enumerate() {
			for cell in &cells {
				if &text[a..b] == *cell { continue; }
				let t = format!("{}{}{}", &text[..a], cell, &text[b..]);
				let shown = if cell.len() > 20 { "3000 letters" } else { cell };
				out.push(Input { kind: *k, form: Form::Raw(t.into_bytes()), stream: "text-cells", label: format!("{} fixture: cell #{ci} ({:?}) replaced by {shown:?}", KIND_NAMES[*k as usize], &text[a..b]), shape: "", case: None });
			}
		}
	}
}
