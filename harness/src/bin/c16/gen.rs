//! Generators of hostile inputs.
use super::cf::*;
use super::sbx::*;
use fbh::prng::Rng;

fn cls(stream: &'static str, shape: &'static str, label: String, bytes: Vec<u8>) -> Input {
	Input { kind: K_CLASS, form: Form::Raw(bytes), stream, label, shape, case: None }
}
fn no_attrs(_: &mut Pool) -> Vec<Vec<u8>> { vec![] }

pub fn boundary_values(w: u8, actual: u32) -> Vec<u32> {
	let max: u32 = match w { 1 => 0xFF, 2 => 0xFFFF, _ => 0xFFFF_FFFF };
	let mut v = vec![0, 1, max - 1, max, actual.wrapping_add(1) & max, actual.wrapping_sub(1) & max];
	if w == 4 { v.extend_from_slice(&[0x7FFF_FFFF, 0x8000_0000, 0x0001_0000, 0x4000_0000]); }
	if w == 2 { v.extend_from_slice(&[0x7FFF, 0x8000]); }
	v.sort(); v.dedup();
	v.retain(|&x| x != actual);
	v
}
const TAG_VALUES: [u32; 22] = [0, 1, 2, 5, 7, 8, 15, 17, 18, 20, 21, 63, 64, 91, 127, 128, 170, 171, 196, 247, 251, 255];

/// G1: every structural field of a valid class set to its boundary values
pub fn field_mutations(base_idx: u32, base: &[u8], rng: &mut Rng, budget: usize, out: &mut Vec<Input>) -> usize {
	let (sites, _ok) = walk(base);
	let mut all: Vec<(Site, u32)> = vec![];
	for s in &sites {
		if s.kind == Kind::Other && s.what != "magic" && s.what != "major" { continue; }
		let actual = read_at(base, s.off, s.w);
		let vals: Vec<u32> = if s.kind == Kind::Tag { TAG_VALUES.iter().copied().filter(|&x| x != actual).chain([actual.wrapping_add(1) & 0xFF, actual.wrapping_sub(1) & 0xFF]).collect() } else { boundary_values(s.w, actual) };
		for v in vals { all.push((*s, v)); }
	}
	let total = all.len();
	if all.len() > budget { rng.shuffle(&mut all); all.truncate(budget); }
	for (s, v) in all {
		out.push(Input { kind: K_CLASS, form: Form::Derived { base: base_idx, trunc: None, edits: vec![(s.off as u32, s.w, v)] }, stream: "class-field-mutation",
			label: format!("base #{base_idx}: {} ({:?}, {} bytes) at offset {} set to {v:#x}", s.what, s.kind, s.w, s.off), shape: "", case: None });
	}
	total
}

/// G2: truncation at every byte position
pub fn truncations(base_idx: u32, base: &[u8], step: usize, out: &mut Vec<Input>) {
	let mut t = 0;
	while t < base.len() {
		out.push(Input { kind: K_CLASS, form: Form::Derived { base: base_idx, trunc: Some(t as u32), edits: vec![] }, stream: "class-truncation", label: format!("base #{base_idx} truncated to {t} bytes"), shape: "", case: None });
		t += step;
	}
}

/// G4: random byte edits (1..4 positions; random byte, boundary byte or a bit flip), sometimes with truncation
pub fn random_edits(base_idx: u32, base: &[u8], rng: &mut Rng, n: usize, out: &mut Vec<Input>) {
	for _ in 0..n {
		let k = rng.range(1, 4);
		let mut edits = vec![];
		for _ in 0..k {
			let off = rng.below(base.len());
			let v = match rng.below(4) { 0 => 0, 1 => 0xFF, 2 => (base[off] ^ (1 << rng.below(8))) as u32, _ => rng.below(256) as u32 };
			edits.push((off as u32, 1u8, v));
		}
		let trunc = if rng.chance(1, 10) { Some(rng.below(base.len()) as u32) } else { None };
		out.push(Input { kind: K_CLASS, form: Form::Derived { base: base_idx, trunc, edits: edits.clone() }, stream: "class-random-edit", label: format!("base #{base_idx}: byte edits {edits:?} trunc {trunc:?}"), shape: "", case: None });
	}
}

// ------------------------------------------------------------------ targeted shapes
pub fn lvt_class(attr_name: &str, code_len: usize, start: u16, len: u16) -> Vec<u8> {
	one_method_class(|p| {
		let name = p.utf8(attr_name);
		let (n, d) = (p.utf8("x"), p.utf8("I"));
		let mut b = vec![]; u16be(&mut b, 1); u16be(&mut b, start); u16be(&mut b, len); u16be(&mut b, n); u16be(&mut b, d); u16be(&mut b, 1);
		(nops(code_len - 1), vec![], vec![attr(name, &b)])
	}, no_attrs)
}
pub fn stackmap_class(code_len: usize, deltas: &[u16]) -> Vec<u8> {
	one_method_class(|p| {
		let name = p.utf8("StackMapTable");
		let mut b = vec![]; u16be(&mut b, deltas.len() as u16);
		for &d in deltas { b.push(251); u16be(&mut b, d); }
		(nops(code_len - 1), vec![], vec![attr(name, &b)])
	}, no_attrs)
}
/// StackMapTable with frames of every kind at the given offset deltas: same (short / extended), same_locals_1_stack_item
/// (short / extended, type 247), chop, append, full — with Integer / Object / Uninitialized verification types
pub fn stackmap_kinds_class(code_len: usize, deltas: &[u16]) -> Vec<u8> {
	one_method_class(|p| {
		let name = p.utf8("StackMapTable");
		let obj = p.class("java/lang/Object");
		let mut b = vec![]; u16be(&mut b, deltas.len() as u16);
		for (i, &d) in deltas.iter().enumerate() {
			match i % 7 {
				0 => { if d < 64 { b.push(d as u8); } else { b.push(251); u16be(&mut b, d); } }
				1 => { if d < 64 { b.push(64 + d as u8); } else { b.push(247); u16be(&mut b, d); } b.push(1); }
				2 => { b.push(247); u16be(&mut b, d); b.push(7); u16be(&mut b, obj); }
				3 => { b.push(252); u16be(&mut b, d); b.push(1); }
				4 => { b.push(250); u16be(&mut b, d); }
				5 => { b.push(255); u16be(&mut b, d); u16be(&mut b, 2); b.push(1); b.push(8); u16be(&mut b, 0); u16be(&mut b, 1); b.push(4); }
				_ => { b.push(254); u16be(&mut b, d); b.push(3); b.push(2); b.push(7); u16be(&mut b, obj); }
			}
		}
		(nops(code_len - 1), vec![], vec![attr(name, &b)])
	}, no_attrs)
}
/// 65535 bytes of code (the maximum) that grows when it is written: `ldc` of constants whose indices exceed 255 in the
/// written pool (see ldc_growth_far_branch_class); the writer must refuse (code_length), not crash
pub fn ldc_growth_max_code_class(n_ints: usize, code_len: usize) -> Vec<u8> {
	let mut p = Pool::new();
	let ints: Vec<u16> = (0..n_ints).map(|i| p.int(1000 + i as i32)).collect();
	let this = p.class("T"); let sup = p.class("java/lang/Object");
	let (n, d, c) = (p.utf8("m"), p.utf8("()V"), p.utf8("Code"));
	let mut code: Vec<u8> = vec![];
	for &i in &ints { code.push(0x12); code.push(i as u8); code.push(0x57); }
	while code.len() + 1 < code_len { code.push(0x00); }
	code.push(0xb1);
	let m = member(0x0009, n, d, &[attr(c, &code_body(4, 4, &code, &[], &[]))]);
	class_file(52, &p, 0x0021, this, sup, &[], &[], &[m], &[])
}
/// 65535 bytes of code with a label on each of the first `lines` offsets (LineNumberTable) and,
/// with `with_end`, one more at offset 65535 (exclusive end of a local variable range)
pub fn label_flood_class(lines: usize, with_end: bool) -> Vec<u8> {
	one_method_class(|p| {
		let lnt = p.utf8("LineNumberTable");
		let mut b = vec![]; u16be(&mut b, lines as u16);
		for pc in 0..lines { u16be(&mut b, pc as u16); u16be(&mut b, 1); }
		let mut sub = vec![attr(lnt, &b)];
		if with_end {
			let lvt = p.utf8("LocalVariableTable"); let (n, d) = (p.utf8("x"), p.utf8("I"));
			let mut b = vec![]; u16be(&mut b, 1); u16be(&mut b, 0); u16be(&mut b, 65535); u16be(&mut b, n); u16be(&mut b, d); u16be(&mut b, 1);
			sub.push(attr(lvt, &b));
		}
		(nops(65534), vec![], sub)
	}, no_attrs)
}
pub fn code_class(code: &[u8]) -> Vec<u8> { one_method_class(|_| (code.to_vec(), vec![], vec![]), no_attrs) }

pub fn tableswitch_code(default: i32, low: i32, high: i32, entries: &[i32]) -> Vec<u8> {
	let mut c = vec![0xaa, 0, 0, 0];
	i32be(&mut c, default); i32be(&mut c, low); i32be(&mut c, high);
	for &e in entries { i32be(&mut c, e); }
	c
}
pub fn lookupswitch_code(default: i32, npairs: i32, pairs: &[(i32, i32)]) -> Vec<u8> {
	let mut c = vec![0xab, 0, 0, 0];
	i32be(&mut c, default); i32be(&mut c, npairs);
	for &(k, v) in pairs { i32be(&mut c, k); i32be(&mut c, v); }
	c
}

/// bootstrap graph: `args[i]` = indices (into the list of dynamic constants) that bootstrap method i
/// lists as arguments; constant i uses bootstrap method i; the code loads constant `root` with ldc_w.
/// A leaf argument (usize::MAX) is an Integer constant.
pub fn bootstrap_class(args: &[Vec<usize>], root: usize, via_indy: bool) -> Vec<u8> { bootstrap_class_roots(args, &[root], via_indy) }

/// as `bootstrap_class`; with `via_indy` the bootstrap method of the invokedynamic lists all of `roots`
/// (usize::MAX = the Integer leaf) as its arguments, otherwise `roots[0]` is loaded with ldc_w
pub fn bootstrap_class_roots(args: &[Vec<usize>], roots: &[usize], via_indy: bool) -> Vec<u8> {
	let mut p = Pool::new();
	let this = p.class("T"); let sup = p.class("java/lang/Object");
	let (n, d, c) = (p.utf8("m"), p.utf8("()V"), p.utf8("Code"));
	let bsm_name = p.utf8("BootstrapMethods");
	let mref = p.methodref("B", "bsm", "()Ljava/lang/Object;");
	let h = p.handle(6, mref);
	let nat = p.nat("k", "I");
	let leaf = p.int(7);
	let first = p.slots;
	for i in 0..args.len() { p.dynamic(17, i as u16, nat); }
	let mut b = vec![]; u16be(&mut b, args.len() as u16 + 1);
	for a in args {
		u16be(&mut b, h); u16be(&mut b, a.len() as u16);
		for &x in a { u16be(&mut b, if x == usize::MAX { leaf } else { first + x as u16 }); }
	}
	// last bootstrap method: used by the invokedynamic variant, its arguments are the root constants
	u16be(&mut b, h); u16be(&mut b, roots.len() as u16);
	for &x in roots { u16be(&mut b, if x == usize::MAX { leaf } else { first + x as u16 }); }
	let mut code = vec![];
	if via_indy {
		let mnat = p.nat("call", "()V");
		let indy = p.dynamic(18, args.len() as u16, mnat);
		code.push(0xba); u16be(&mut code, indy); code.push(0); code.push(0);
	} else {
		code.push(0x13); u16be(&mut code, first + roots[0] as u16); code.push(0x57);
	}
	code.push(0xb1);
	let m = member(0x0009, n, d, &[attr(c, &code_body(4, 4, &code, &[], &[]))]);
	class_file(61, &p, 0x0021, this, sup, &[], &[], &[m], &[attr(bsm_name, &b)])
}

/// Appends to `g` a shared DAG of dynamic constants whose root expands to exactly `n` constants
/// (the root itself, every nested dynamic constant once per use, and Integer leaves), `n >= 1`;
/// returns the index of the root.  E(node) = 1 + sum E(arguments), E(leaf) = 1, so a node listing
/// a child of size m twice plus r leaves has size 1 + 2m + r: depth about log2(n).
pub fn dag_exact(g: &mut Vec<Vec<usize>>, n: usize) -> usize {
	assert!(n >= 1);
	let node = if n == 1 { vec![] } else {
		let (m, r) = ((n - 1) / 2, (n - 1) % 2);
		let mut a = vec![];
		if m >= 1 { let c = dag_exact(g, m); a.push(c); a.push(c); }
		for _ in 0..r { a.push(usize::MAX); }
		a
	};
	g.push(node);
	g.len() - 1
}

/// One instruction whose bootstrap arguments are `parts.len()` dynamic constants expanding to
/// `parts[i]` constants each (equal parts share one DAG).  `via_indy`: they are the arguments of the
/// invokedynamic's bootstrap method; otherwise the arguments of one more dynamic constant that is
/// loaded with ldc_w (which itself is not counted).  Returns (graph, roots).
pub fn multi_root_graph(parts: &[usize], via_indy: bool) -> (Vec<Vec<usize>>, Vec<usize>) {
	let mut g: Vec<Vec<usize>> = vec![];
	let mut by_size: std::collections::BTreeMap<usize, usize> = Default::default();
	let mut roots = vec![];
	for &n in parts {
		let r = match by_size.get(&n) { Some(&r) => r, None => { let r = dag_exact(&mut g, n); by_size.insert(n, r); r } };
		roots.push(r);
	}
	if via_indy { (g, roots) } else { g.push(roots); let top = g.len() - 1; (g, vec![top]) }
}
/// `total` split into `k` parts: k-1 equal ones and the rest (every part >= 1)
pub fn split_parts(total: usize, k: usize) -> Vec<usize> {
	let each = (total / k).max(1);
	let mut v = vec![each; k - 1];
	v.push(total - each * (k - 1));
	v
}

/// `k` invokedynamic instructions that all use one bootstrap method with `a` Integer arguments;
/// with `dag` > 0 the single argument is instead the root of a shared DAG of `dag` dynamic
/// constants (each listing the next one twice), loaded by `k` ldc_w instructions
pub fn shared_bootstrap_class(k: usize, a: usize, dag: usize) -> Vec<u8> {
	let mut p = Pool::new();
	let this = p.class("T"); let sup = p.class("java/lang/Object");
	let (n, d, c) = (p.utf8("m"), p.utf8("()V"), p.utf8("Code"));
	let bsm_name = p.utf8("BootstrapMethods");
	let mref = p.methodref("B", "bsm", "()Ljava/lang/Object;");
	let h = p.handle(6, mref);
	let leaf = p.int(7);
	let mut b = vec![]; let mut code = vec![];
	if dag == 0 {
		u16be(&mut b, 1); u16be(&mut b, h); u16be(&mut b, a as u16); for _ in 0..a { u16be(&mut b, leaf); }
		let mnat = p.nat("call", "()V");
		let indy = p.dynamic(18, 0, mnat);
		for _ in 0..k { code.push(0xba); u16be(&mut code, indy); code.push(0); code.push(0); }
	} else {
		let nat = p.nat("k", "I");
		let first = p.slots;
		for i in 0..dag { p.dynamic(17, i as u16, nat); }
		u16be(&mut b, dag as u16);
		for i in 0..dag { u16be(&mut b, h); if i + 1 < dag { u16be(&mut b, 2); u16be(&mut b, first + i as u16 + 1); u16be(&mut b, first + i as u16 + 1); } else { u16be(&mut b, 1); u16be(&mut b, leaf); } }
		for _ in 0..k { code.push(0x13); u16be(&mut code, first); code.push(0x57); }
	}
	code.push(0xb1);
	let m = member(0x0009, n, d, &[attr(c, &code_body(4, 4, &code, &[], &[]))]);
	class_file(61, &p, 0x0021, this, sup, &[], &[], &[m], &[attr(bsm_name, &b)])
}

/// `aconst_null; invokeinterface I.run <desc>` — the class writer recomputes the `count` operand
/// from the descriptor (MethodDescriptorSlice::get_arguments_size, a u8)
pub fn invokeinterface_class(desc: &[u8]) -> Vec<u8> {
	one_method_class(|p| {
		let c = p.class("I");
		let (n, d) = (p.utf8("run"), p.utf8b(desc));
		let nat = p.idx2(12, n, d);
		let im = p.idx2(11, c, nat);
		let mut code = vec![0x01, 0xb9]; u16be(&mut code, im); code.extend_from_slice(&[1, 0, 0xb1]);
		(code, vec![], vec![])
	}, no_attrs)
}
/// method descriptors around the u8 limit of the argument size (1 for `this` + 2 per J/D + 1 per other)
pub fn argument_size_descriptors() -> Vec<(String, Vec<u8>)> {
	let rep = |s: &str, n: usize| s.repeat(n);
	let mut v: Vec<(String, String)> = vec![];
	for (what, unit) in [("J", "J"), ("D", "D"), ("I", "I"), ("Ljava/lang/Object;", "La;"), ("[J", "[J"), ("[[D", "[[D")] {
		let wide = unit == "J" || unit == "D";
		let limit = if wide { 127 } else { 254 };
		for n in [0usize, 1, limit - 1, limit, limit + 1, limit + 2, 2 * limit, 2 * limit + 2, 1000] {
			v.push((format!("{n} parameters {what}"), format!("({})V", rep(unit, n))));
		}
	}
	v.push(("126 J + 2 I (size 255)".into(), format!("({}II)V", rep("J", 126))));
	v.push(("126 J + 3 I (size 256)".into(), format!("({}III)V", rep("J", 126))));
	v.push(("127 J + I (size 256)".into(), format!("({}I)V", rep("J", 127))));
	v.push(("253 I + J (size 256)".into(), format!("({}J)V", rep("I", 253))));
	v.push(("252 I + J (size 255)".into(), format!("({}J)V", rep("I", 252))));
	v.push(("16000 J".into(), format!("({})V", rep("J", 16000))));
	v.push(("65000 I".into(), format!("({})V", rep("I", 65000))));
	v.push(("no parentheses".into(), "V".into()));
	v.push(("unterminated".into(), format!("({}", rep("J", 200))));
	v.push(("unterminated object".into(), "(Ljava/lang".into()));
	v.push(("bracket before the closing parenthesis".into(), "([)V".into()));
	v.push(("300 closing brackets counted as parameters".into(), format!("({})V", rep("[)", 300))));
	v.push(("non-ASCII parameter".into(), format!("({}é)V", rep("J", 127))));
	v.into_iter().map(|(a, b)| (a, b.into_bytes())).collect()
}

/// annotation attribute whose single element value nests arrays (`[`) or annotations (`@`) `depth` deep
pub fn deep_annotation_class(attr_name: &str, depth: usize, nest_annotations: bool) -> Vec<u8> { deep_annotation_class_mode(attr_name, depth, nest_annotations as u8) }
/// mode 0: arrays, 1: annotations, 2: alternating starting with an array, 3: alternating starting with an annotation
/// (the reader's recursion goes through different function pairs for each of them)
pub fn deep_annotation_class_mode(attr_name: &str, depth: usize, mode: u8) -> Vec<u8> {
	one_method_class(|_| (nops(0), vec![], vec![]), |p| {
		let name = p.utf8(attr_name);
		let (ty, el, k) = (p.utf8("LA;"), p.utf8("v"), p.int(1));
		let mut b = vec![];
		let is_default = attr_name == "AnnotationDefault";
		if !is_default { u16be(&mut b, 1); u16be(&mut b, ty); u16be(&mut b, 1); u16be(&mut b, el); }
		for i in 0..depth {
			let annotation = match mode { 0 => false, 1 => true, 2 => i % 2 == 1, _ => i % 2 == 0 };
			if annotation { b.push(b'@'); u16be(&mut b, ty); u16be(&mut b, 1); u16be(&mut b, el); } else { b.push(b'['); u16be(&mut b, 1); }
		}
		b.push(b'I'); u16be(&mut b, k);
		vec![attr(name, &b)]
	})
}

/// a branch whose distance is exactly at the i16 limit in the input, over `ldc` instructions whose constants
/// sit at the very start of the input pool: the writer's pool puts the class and member names first, so the
/// last constants get indices above 255, their `ldc` becomes `ldc_w`, the code between the branch and its
/// target grows and the written branch no longer fits 16 bits (the writer's far-branch paths)
pub fn ldc_growth_far_branch_class(opcode: u8, n_ints: usize, backward: bool) -> Vec<u8> {
	let mut p = Pool::new();
	let ints: Vec<u16> = (0..n_ints).map(|i| p.int(1000 + i as i32)).collect();
	let this = p.class("T"); let sup = p.class("java/lang/Object");
	let (n, d, c) = (p.utf8("m"), p.utf8("()V"), p.utf8("Code"));
	let mut code: Vec<u8> = vec![];
	if backward {
		// target at 0; ldc/pop pairs; padding; the branch at offset 32768 jumps back by -32768
		for &i in &ints { code.push(0x12); code.push(i as u8); code.push(0x57); }
		while code.len() < 32768 { code.push(0x00); }
		code.push(opcode); code.extend_from_slice(&(-32768i16).to_be_bytes());
		code.push(0xb1);
	} else {
		// the branch at offset 0 jumps forward by +32767 to the return
		code.push(opcode); code.extend_from_slice(&32767i16.to_be_bytes());
		for &i in &ints { code.push(0x12); code.push(i as u8); code.push(0x57); }
		while code.len() < 32767 { code.push(0x00); }
		code.push(0xb1);
	}
	let m = member(0x0009, n, d, &[attr(c, &code_body(4, 4, &code, &[], &[]))]);
	class_file(52, &p, 0x0021, this, sup, &[], &[], &[m], &[])
}

/// abstract method `v()I` with an AnnotationDefault attribute whose value nests `depth` containers
/// (modes as for deep_annotation_class_mode): the reader enters through read_element_value_unnamed
pub fn annotation_default_class(depth: usize, mode: u8) -> Vec<u8> {
	let mut p = Pool::new();
	let this = p.class("T"); let sup = p.class("java/lang/Object");
	let (n, d, ad, k) = (p.utf8("v"), p.utf8("()I"), p.utf8("AnnotationDefault"), p.int(1));
	let (ty, el) = (p.utf8("LA;"), p.utf8("v"));
	let mut b = vec![];
	for i in 0..depth {
		let annotation = match mode { 0 => false, 1 => true, 2 => i % 2 == 1, _ => i % 2 == 0 };
		if annotation { b.push(b'@'); u16be(&mut b, ty); u16be(&mut b, 1); u16be(&mut b, el); } else { b.push(b'['); u16be(&mut b, 1); }
	}
	b.push(b'I'); u16be(&mut b, k);
	let m = member(0x0401, n, d, &[attr(ad, &b)]);
	class_file(61, &p, 0x2601, this, sup, &[], &[], &[m], &[])
}

pub fn attr_length_class(level: usize, attr_name: &str, declared: u32, actual_body: usize) -> Vec<u8> {
	// level 0 class, 1 field, 2 method, 3 code
	let mut p = Pool::new();
	let this = p.class("T"); let sup = p.class("java/lang/Object");
	let (n, d, c) = (p.utf8("m"), p.utf8("()V"), p.utf8("Code"));
	let (fname, fdesc) = (p.utf8("f"), p.utf8("I"));
	let an = p.utf8(attr_name);
	let a = attr_len(an, declared, &vec![b'x'; actual_body]);
	let code_sub = if level == 3 { vec![a.clone()] } else { vec![] };
	let mut mat = vec![attr(c, &code_body(1, 1, &nops(0), &[], &code_sub))];
	if level == 2 { mat.push(a.clone()); }
	let m = member(0x0009, n, d, &mat);
	let f = member(0x0002, fname, fdesc, &if level == 1 { vec![a.clone()] } else { vec![] });
	// the hostile attribute is last in the file so that "remaining input" is exactly `actual_body`
	match level {
		0 => class_file(61, &p, 0x0021, this, sup, &[], &[f], &[m], &[a]),
		_ => class_file(61, &p, 0x0021, this, sup, &[], &[f], &[m], &[]),
	}
}

pub fn targeted(thorough: bool, out: &mut Vec<Input>) {
	let s = "class-targeted";
	// 1. every opcode as the last instruction with 0..5 operand bytes present (truncated operands)
	for op in 0..=255u8 {
		for have in 0..=5usize {
			let mut code = vec![0u8]; code.push(op); code.extend(std::iter::repeat(0u8).take(have));
			out.push(cls(s, "truncated-last-instruction", format!("code = nop, opcode {op:#x}, {have} zero operand bytes, end of code"), code_class(&code)));
		}
	}
	for w in [0x15u8, 0x36, 0x84, 0xa9, 0x00, 0xc4] { for have in 0..=4usize {
		let mut code = vec![0xc4, w]; code.extend(std::iter::repeat(0u8).take(have));
		out.push(cls(s, "truncated-last-instruction", format!("code = wide {w:#x} with {have} operand bytes"), code_class(&code)));
	} }
	// 2. switches
	let (mn, mx) = (i32::MIN, i32::MAX);
	for (lo, hi) in [(mn, mx), (0, mx), (mn, -1), (-1, mx - 1), (mn, 0), (1, mx), (0, 0), (0, 1), (5, 4), (mx, mx), (mn, mn), (-2, 1), (0, 16000), (0, 16384), (0, 0x3FFF_FFFF)] {
		for n_entries in [0usize, 1, 2, 4] {
			let mut code = tableswitch_code(0, lo, hi, &vec![0; n_entries]); code.push(0xb1);
			out.push(cls(s, "tableswitch-range", format!("tableswitch low={lo} high={hi} with {n_entries} entries present"), code_class(&code)));
		}
	}
	{
		// a full table that really has 16000 entries
		let mut code = tableswitch_code(0, 0, 15999, &vec![0; 16000]); code.push(0xb1);
		out.push(cls(s, "tableswitch-range", "tableswitch with 16000 entries, all present".into(), code_class(&code)));
	}
	for np in [-1, 0, 1, 2, mx, 0x1000_0000, mn, 8000] {
		for present in [0usize, 1, 2] {
			let mut code = lookupswitch_code(0, np, &vec![(1, 0); present]); code.push(0xb1);
			out.push(cls(s, "lookupswitch-npairs", format!("lookupswitch npairs={np} with {present} pairs present"), code_class(&code)));
		}
	}
	// branch targets
	for (op, off) in [(0xa7u8, -1i32), (0xa7, 3), (0xa7, 4), (0xa7, 32767), (0xa7, -32768), (0x99, 0), (0xc8, -1), (0xc8, mx), (0xc8, mn), (0xc8, 65535), (0xc8, 65536), (0xc8, 5), (0xc9, 6), (0xa8, 0)] {
		let mut code = vec![op];
		if op == 0xc8 || op == 0xc9 { i32be(&mut code, off); } else { code.extend_from_slice(&(off as i16).to_be_bytes()); }
		code.push(0xb1);
		out.push(cls(s, "branch-target", format!("opcode {op:#x} with branch offset {off}"), code_class(&code)));
	}
	// 3. stack map offsets
	for code_len in [4usize, 65535] {
		for deltas in [vec![65535u16], vec![0, 65535], vec![65534, 0], vec![65534, 1], vec![40000, 40000], vec![3, 65535], vec![0, 0, 0], vec![1, 1], vec![3], vec![4], vec![65534], vec![32767, 32767], vec![32767, 32768], vec![2, 0, 0]] {
			out.push(cls(s, "stackmap-offset-sum", format!("code_length {code_len}, same_frame_extended offset deltas {deltas:?}"), stackmap_class(code_len, &deltas)));
		}
	}
	// 4. local variable ranges
	for an in ["LocalVariableTable", "LocalVariableTypeTable"] {
		for code_len in [8usize, 65535] {
			let l = code_len as u32;
			for (st, ln) in [(0u32, 65535u32), (1, 65535), (5, 65531), (5, 65530), (65535, 1), (65535, 0), (l, 0), (l - 1, 1), (l - 1, 2), (0, l), (0, l + 1), (0, 0), (l - 1, 65535), (32768, 32768), (32768, 32767), (7, 65529)] {
				if st > 65535 || ln > 65535 { continue; }
				out.push(cls(s, "local-variable-range", format!("{an}: code_length {code_len}, start_pc {st}, length {ln}"), lvt_class(an, code_len, st as u16, ln as u16)));
			}
		}
	}
	// type annotation localvar target with the same ranges
	for (st, ln) in [(1u16, 65535u16), (0, 9), (7, 65529), (0, 8)] {
		out.push(cls(s, "local-variable-range", format!("RuntimeVisibleTypeAnnotations localvar target start_pc {st} length {ln}, code_length 8"), one_method_class(|p| {
			let name = p.utf8("RuntimeVisibleTypeAnnotations"); let ty = p.utf8("LA;");
			let mut b = vec![]; u16be(&mut b, 1); b.push(0x40); u16be(&mut b, 1); u16be(&mut b, st); u16be(&mut b, ln); u16be(&mut b, 0); b.push(0); u16be(&mut b, ty); u16be(&mut b, 0);
			(nops(7), vec![], vec![attr(name, &b)])
		}, no_attrs)));
	}
	// 5. exception ranges beyond the code
	for (a, b, h) in [(0u16, 8u16, 0u16), (0, 9, 0), (0, 65535, 0), (65535, 65535, 65535), (0, 7, 8), (8, 8, 0), (3, 1, 0)] {
		out.push(cls(s, "exception-range", format!("exception table entry start {a} end {b} handler {h}, code_length 8"), one_method_class(|_| (nops(7), vec![(a, b, h, 0)], vec![]), no_attrs)));
	}
	// 6. code_length
	for (declared, actual) in [(0u32, 0usize), (0, 4), (5, 4), (65535, 4), (65536, 4), (0xFFFF_FFFF, 4), (0x7FFF_FFFF, 4), (3, 4)] {
		let mut c = code_class(&nops(actual.max(1) - 1).iter().copied().take(actual).collect::<Vec<u8>>());
		// patch code_length: find the Code body (max_stack=4,max_locals=4 then length)
		if let Some(pos) = c.windows(8).position(|w| w[0..4] == [0, 4, 0, 4] && u32::from_be_bytes([w[4], w[5], w[6], w[7]]) as usize == actual) { write_at(&mut c, pos + 4, 4, declared); }
		out.push(cls(s, "code-length", format!("code_length declared {declared}, {actual} code bytes present"), c));
	}
	// 7. attribute_length
	for an in ["Foo", "SourceDebugExtension", "Code", "Signature", "StackMapTable"] {
		for level in 0..4usize {
			if an == "SourceDebugExtension" && level != 0 { continue; }
			if (an == "Code" && level == 2) || (an == "StackMapTable" && level == 3) { continue; }
			for (declared, actual) in [(0xFFFF_FFFFu32, 0usize), (0xFFFF_FFFF, 3), (0x7FFF_FFFF, 3), (0x4000_0000, 3), (0x1000_0000, 3), (0x0400_0000, 3), (4, 3), (3, 3), (0, 3), (0x8000_0000, 3)] {
				out.push(cls(s, "attribute-length", format!("attribute {an:?} at level {level} (0 class,1 field,2 method,3 code): attribute_length {declared:#x}, {actual} bytes present"), attr_length_class(level, an, declared, actual)));
			}
		}
	}
	// 8. bootstrap method arguments
	for indy in [false, true] {
		out.push(cls(s, "bootstrap-self-reference", format!("dynamic constant whose bootstrap method lists the constant itself (indy={indy})"), bootstrap_class(&[vec![0]], 0, indy)));
		out.push(cls(s, "bootstrap-self-reference", format!("two dynamic constants referring to each other (indy={indy})"), bootstrap_class(&[vec![1], vec![0]], 0, indy)));
		out.push(cls(s, "bootstrap-self-reference", format!("cycle of length 3 behind a leaf argument (indy={indy})"), bootstrap_class(&[vec![usize::MAX, 1], vec![2], vec![usize::MAX, 0]], 0, indy)));
		out.push(cls(s, "bootstrap-acyclic", format!("acyclic: constant with two leaf arguments (indy={indy})"), bootstrap_class(&[vec![usize::MAX, usize::MAX]], 0, indy)));
		out.push(cls(s, "bootstrap-acyclic", format!("acyclic chain of 5 (indy={indy})"), bootstrap_class(&(0..5).map(|i| if i == 4 { vec![usize::MAX] } else { vec![i + 1] }).collect::<Vec<_>>(), 0, indy)));
		for depth in [50usize, 300, 3000, 20000] {
			out.push(cls(s, "bootstrap-deep-chain", format!("acyclic chain of {depth} dynamic constants, each the bootstrap argument of the previous (indy={indy})"),
				bootstrap_class(&(0..depth).map(|i| if i == depth - 1 { vec![usize::MAX] } else { vec![i + 1] }).collect::<Vec<_>>(), 0, indy)));
		}
	}
	for depth in [4usize, 12, 18, 26, 40] {
		out.push(cls(s, "bootstrap-shared-dag", format!("{depth} dynamic constants, each listing the next one twice as bootstrap argument (2^{depth} expansions)"),
			bootstrap_class(&(0..depth).map(|i| if i == depth - 1 { vec![usize::MAX] } else { vec![i + 1, i + 1] }).collect::<Vec<_>>(), 0, false)));
	}
	for (k, a, dag) in [(10usize, 10usize, 0usize), (1000, 1000, 0), (13000, 60000, 0), (13000, 65535, 0), (100, 65535, 0), (10, 0, 10), (3000, 0, 15), (100, 0, 16), (5, 0, 17)] {
		out.push(cls(s, "shared-bootstrap-arguments", if dag == 0 { format!("{k} invokedynamic instructions sharing one bootstrap method with {a} Integer arguments") } else { format!("{k} ldc_w instructions of a dynamic constant whose arguments form a shared DAG of depth {dag}") }, shared_bootstrap_class(k, a, dag)));
	}
	// 9. nesting of element values
	for an in ["RuntimeVisibleAnnotations", "RuntimeInvisibleAnnotations", "AnnotationDefault"] {
		for nest in [false, true] {
			for depth in if thorough { vec![1usize, 10, 200, 2000, 20000, 200000, 1000000] } else { vec![1usize, 10, 200, 2000, 20000, 200000] } {
				if an == "AnnotationDefault" { continue; }
				out.push(cls(s, "deep-element-value", format!("{an}: element value nested {depth} deep ({})", if nest { "annotations" } else { "arrays" }), deep_annotation_class(an, depth, nest)));
			}
		}
	}
	for an in ["RuntimeVisibleAnnotations", "RuntimeInvisibleAnnotations"] {
		for mode in [2u8, 3] {
			for depth in [2usize, 10, 200, 2000, 20000, 200000] {
				out.push(cls(s, "deep-element-value", format!("{an}: element value nested {depth} deep (arrays and annotations alternating, {} outermost)", if mode == 2 { "array" } else { "annotation" }), deep_annotation_class_mode(an, depth, mode)));
			}
		}
	}
	// AnnotationDefault lives on a method
	for depth in [1usize, 2000, 200000] {
		let bytes = {
			let mut p = Pool::new();
			let this = p.class("T"); let sup = p.class("java/lang/Object");
			let (n, d, ad, k) = (p.utf8("v"), p.utf8("()I"), p.utf8("AnnotationDefault"), p.int(1));
			let mut b = vec![]; for _ in 0..depth { b.push(b'['); u16be(&mut b, 1); } b.push(b'I'); u16be(&mut b, k);
			let m = member(0x0401, n, d, &[attr(ad, &b)]);
			class_file(61, &p, 0x2601, this, sup, &[], &[], &[m], &[])
		};
		out.push(cls(s, "deep-element-value", format!("AnnotationDefault: arrays nested {depth} deep"), bytes));
	}
	// 9b. ldc of a method handle of every reference kind (and the two undefined kinds next to them), on a field / method / interface method
	for kind in 0..=10u8 {
		for target in 0..3u8 {
			let bytes = one_method_class(|p| {
				let r = match target { 0 => p.fieldref("A", "f", "I"), 1 => p.methodref("A", "m", "()V"), _ => { let a = p.class("A"); let b = p.nat("m", "()V"); p.idx2(11, a, b) } };
				let h = p.handle(kind, r);
				let mut c = vec![0x13]; u16be(&mut c, h); c.push(0x57); c.push(0xb1);
				(c, vec![], vec![])
			}, no_attrs);
			out.push(cls(s, "method-handle-kinds", format!("ldc_w of a method handle of kind {kind} on a {}", ["field", "method", "interface method"][target as usize]), bytes));
		}
	}
	// 9c. branches at the 16-bit limit over code that grows when it is written (ldc -> ldc_w)
	for opcode in [0x99u8, 0x9f, 0xa7, 0xa8, 0xc6, 0xc7] {
		for backward in [false, true] {
			for n_ints in [240usize, 250, 254] {
				out.push(cls(s, "far-branch-after-growth", format!("opcode {opcode:#x} with a {} branch of exactly {} bytes over {n_ints} ldc instructions whose constants get indices above 255 in the written pool", if backward { "backward" } else { "forward" }, if backward { 32768 } else { 32767 }), ldc_growth_far_branch_class(opcode, n_ints, backward)));
			}
		}
	}
	// 9d. code at the size limit that grows when written; stack map frames of every kind with short and long deltas
	for (n_ints, len) in [(254usize, 65535usize), (254, 65534), (254, 65530), (250, 65535), (240, 65535)] {
		out.push(cls(s, "max-code-growth", format!("{len} bytes of code with {n_ints} ldc instructions that become ldc_w when written"), ldc_growth_max_code_class(n_ints, len)));
	}
	for deltas in [vec![0u16, 0, 0, 0, 0, 0, 0], vec![1, 2, 3, 4, 5, 6, 7], vec![63, 63, 63, 63, 63, 63, 63], vec![64, 64, 64, 64, 64, 64, 64], vec![100, 200, 300, 64, 63, 0, 1000], vec![0, 100, 64, 2, 2, 2, 2, 70, 70, 70]] {
		let total: usize = deltas.iter().map(|&d| d as usize + 1).sum();
		out.push(cls(s, "stack-map-kinds", format!("StackMapTable with one frame of every kind, offset deltas {deltas:?}"), stackmap_kinds_class(total + 4, &deltas)));
	}
	// 10. constant pool edge cases
	{
		let mk = |f: &dyn Fn(&mut Pool) -> (u16, u16), patch_count: Option<u16>| -> Vec<u8> {
			let mut p = Pool::new();
			let (this, sup) = f(&mut p);
			let mut c = class_file(61, &p, 0x0021, this, sup, &[], &[], &[], &[]);
			if let Some(pc) = patch_count { write_at(&mut c, 8, 2, pc as u32); }
			c
		};
		out.push(cls(s, "pool-self-reference", "this_class is a Class entry whose name_index is the entry itself".into(), mk(&|p| { let i = p.slots; p.raw(vec![7, (i >> 8) as u8, i as u8], false); (i, 0) }, None)));
		out.push(cls(s, "pool-self-reference", "two Class entries naming each other".into(), mk(&|p| { let i = p.slots; p.raw(vec![7, 0, (i + 1) as u8], false); p.raw(vec![7, 0, i as u8], false); (i, i + 1) }, None)));
		out.push(cls(s, "pool-edge", "constant_pool_count 0".into(), mk(&|p| { let t = p.class("T"); (t, 0) }, Some(0))));
		out.push(cls(s, "pool-edge", "constant_pool_count 1 (entries follow)".into(), mk(&|p| { let t = p.class("T"); (t, 0) }, Some(1))));
		out.push(cls(s, "pool-edge", "constant_pool_count 65535 (3 entries follow)".into(), mk(&|p| { let t = p.class("T"); (t, 0) }, Some(65535))));
		out.push(cls(s, "pool-edge", "Long constant in the last slot".into(), mk(&|p| { let t = p.class("T"); p.long(5); (t, 0) }, Some(4))));
		out.push(cls(s, "pool-edge", "this_class points at the upper half of a Long".into(), mk(&|p| { let l = p.long(5); p.class("T"); (l + 1, 0) }, None)));
		out.push(cls(s, "pool-edge", "this_class index past the pool".into(), mk(&|p| { p.class("T"); (999, 0) }, None)));
		for (what, raw) in [("0xFF byte", vec![0xFFu8]), ("overlong NUL C0 80", vec![0xC0, 0x80]), ("raw NUL", vec![0]), ("lone continuation", vec![0x80]), ("truncated 2-byte", vec![0xC3]), ("truncated 3-byte", vec![0xE2, 0x82]),
			("surrogate pair 6 bytes", vec![0xED, 0xA0, 0xBD, 0xED, 0xB8, 0x80]), ("lone high surrogate", vec![0xED, 0xA0, 0xBD]), ("4-byte utf8", vec![0xF0, 0x9F, 0x98, 0x80]), ("empty", vec![])] {
			out.push(cls(s, "pool-utf8", format!("class name is a Utf8 with {what}"), mk(&|p| { let u = p.utf8b(&raw); let c = p.idx1(7, u); (c, 0) }, None)));
		}
		for name in ["", "[", "[I", "[[Ljava/lang/Object;", "a//b", "/a", "a/", "a.b", "a;b", "[L;", "La;", &"[".repeat(256), &format!("{}I", "[".repeat(255)), &"a/".repeat(30000)] {
			out.push(cls(s, "pool-class-name", format!("this_class named {:?}", if name.len() > 40 { &name[..40] } else { name }), mk(&|p| { let c = p.class(name); (c, 0) }, None)));
			out.push(cls(s, "pool-class-name", format!("super_class named {:?}", if name.len() > 40 { &name[..40] } else { name }), mk(&|p| { let t = p.class("T"); let c = p.class(name); (t, c) }, None)));
		}
	}
	// 11. huge counts without data
	{
		let base = code_class(&nops(3));
		let (sites, _) = walk(&base);
		for st in sites.iter().filter(|x| x.kind == Kind::Count) {
			for v in [65535u32, 65534, 32768, 1000] {
				let mut c = base.clone(); write_at(&mut c, st.off, st.w, v);
				out.push(cls(s, "huge-count", format!("{} = {v} without the data", st.what), c));
			}
		}
		// counts inside attributes that the plain class does not have
		for (an, body) in [
			("Exceptions", vec![0xFF, 0xFF]), ("InnerClasses", vec![0xFF, 0xFF]), ("BootstrapMethods", vec![0xFF, 0xFF]), ("NestMembers", vec![0xFF, 0xFF]), ("PermittedSubclasses", vec![0xFF, 0xFF]),
			("ModulePackages", vec![0xFF, 0xFF]), ("Record", vec![0xFF, 0xFF]), ("RuntimeVisibleAnnotations", vec![0xFF, 0xFF]), ("RuntimeVisibleTypeAnnotations", vec![0xFF, 0xFF]),
			("MethodParameters", vec![0xFF]), ("Module", vec![0, 1, 0, 0, 0, 0, 0xFF, 0xFF]), ("LineNumberTable", vec![0xFF, 0xFF]), ("StackMapTable", vec![0xFF, 0xFF]),
			("StackMapTable", vec![0, 1, 255, 0, 0, 0xFF, 0xFF]), ("StackMapTable", vec![0, 1, 255, 0, 0, 0, 0, 0xFF, 0xFF]), ("StackMap", vec![0xFF, 0xFF]), ("StackMap", vec![0, 1, 0, 0, 0xFF, 0xFF]),
			("LocalVariableTable", vec![0xFF, 0xFF]), ("RuntimeVisibleParameterAnnotations", vec![0xFF, 0xFF, 0xFF]),
		] {
			for level in [0usize, 2, 3] {
				let bytes = {
					let mut p = Pool::new();
					let this = p.class("T"); let sup = p.class("java/lang/Object");
					let (n, d, c) = (p.utf8("m"), p.utf8("()V"), p.utf8("Code"));
					let a = attr(p.utf8(an), &body);
					let m = member(0x0009, n, d, &{ let mut v = vec![attr(c, &code_body(1, 1, &nops(3), &[], &if level == 3 { vec![a.clone()] } else { vec![] }))]; if level == 2 { v.push(a.clone()); } v });
					class_file(61, &p, 0x0021, this, sup, &[], &[], &[m], &if level == 0 { vec![a.clone()] } else { vec![] })
				};
				out.push(cls(s, "huge-count", format!("attribute {an} (level {level}) body {body:02x?}: count without data"), bytes));
			}
		}
	}
	// 12. duplicates
	for an in ["Code", "BootstrapMethods", "StackMapTable", "Record", "Signature", "SourceFile", "NestHost", "Module", "LineNumberTable", "LocalVariableTable", "EnclosingMethod", "ConstantValue", "Exceptions", "MethodParameters", "AnnotationDefault"] {
		let bytes = {
			let mut p = Pool::new();
			let this = p.class("T"); let sup = p.class("java/lang/Object");
			let (n, d, c) = (p.utf8("m"), p.utf8("()V"), p.utf8("Code"));
			let ani = p.utf8(an); let u = p.utf8("x"); let k = p.int(3);
			let body: Vec<u8> = match an {
				"Code" => code_body(1, 1, &nops(0), &[], &[]),
				"BootstrapMethods" | "Record" | "LineNumberTable" | "LocalVariableTable" | "StackMapTable" | "Exceptions" => vec![0, 0],
				"MethodParameters" => vec![0],
				"AnnotationDefault" => vec![b'I', (k >> 8) as u8, k as u8],
				"ConstantValue" => vec![(k >> 8) as u8, k as u8],
				"EnclosingMethod" => vec![(this >> 8) as u8, this as u8, 0, 0],
				"NestHost" => vec![(this >> 8) as u8, this as u8],
				"Module" => vec![0; 16],
				_ => vec![(u >> 8) as u8, u as u8],
			};
			let a = attr(ani, &body);
			let code_sub: Vec<Vec<u8>> = if ["StackMapTable", "LineNumberTable", "LocalVariableTable"].contains(&an) { vec![a.clone(), a.clone()] } else { vec![] };
			let mut mat = vec![attr(c, &code_body(1, 1, &nops(0), &[], &code_sub))];
			if ["Code", "Signature", "Exceptions", "MethodParameters", "AnnotationDefault"].contains(&an) { mat.push(a.clone()); mat.push(a.clone()); }
			let fat: Vec<Vec<u8>> = if ["ConstantValue", "Signature"].contains(&an) { vec![a.clone(), a.clone()] } else { vec![] };
			let f = member(0x0019, p.utf8("f"), p.utf8("I"), &fat);
			let m = member(0x0009, n, d, &mat);
			let cat: Vec<Vec<u8>> = if ["BootstrapMethods", "Record", "Signature", "SourceFile", "NestHost", "Module", "EnclosingMethod"].contains(&an) { vec![a.clone(), a.clone()] } else { vec![] };
			class_file(61, &p, 0x0021, this, sup, &[], &[f], &[m], &cat)
		};
		out.push(cls(s, "duplicate-attribute", format!("attribute {an} given twice"), bytes));
	}
	// 13. header
	for major in [0u16, 44, 45, 67, 68, 0xFFFF] {
		let mut c = code_class(&nops(0)); write_at(&mut c, 6, 2, major as u32);
		out.push(cls(s, "header", format!("major version {major}"), c));
	}
	{
		let one = code_class(&nops(0));
		let mut two = one.clone(); two.extend_from_slice(&one);
		out.push(cls(s, "header", "two class files concatenated".into(), two));
		let mut junk = one.clone(); junk.extend_from_slice(b"trailing junk");
		out.push(cls(s, "header", "valid class followed by junk".into(), junk));
		out.push(cls(s, "header", "empty input".into(), vec![]));
		out.push(cls(s, "header", "magic only".into(), vec![0xCA, 0xFE, 0xBA, 0xBE]));
	}
	// 14. code at the 65535 limit (reader accepts, writer must cope)
	for (lines, with_end) in [(65535usize, true), (65535, false), (65534, true), (100, true)] {
		out.push(cls(s, "label-count", format!("65535 bytes of code, a line number entry on each of the first {lines} offsets{}", if with_end { " and a local variable range 0..65535 (label at the end of the code)" } else { "" }), label_flood_class(lines, with_end)));
	}
	{
		let mut code = vec![0u8; 65535]; code[65534] = 0xb1;
		out.push(cls(s, "max-code", "65535 bytes of code (nops, return)".into(), code_class(&code)));
		// conditional branch at the very end, far backward target reached through goto_w
		let mut code = vec![0u8; 65535];
		code[65527] = 0x99; code[65528] = 0; code[65529] = 3; // ifeq +3 -> 65530
		code[65530] = 0xc8; code[65531..65535].copy_from_slice(&(-65530i32).to_be_bytes()); // goto_w 0
		out.push(cls(s, "max-code", "65535 bytes: ifeq near the end, goto_w back to 0 as last instruction".into(), code_class(&code)));
		let mut code = vec![0u8; 65535];
		code[0] = 0xa7; code[1] = 0x7f; code[2] = 0xff; // goto +32767
		code[65532] = 0x99; code[65533] = 0x80; code[65534] = 0x00; // ifeq -32768 as last instruction
		out.push(cls(s, "max-code", "65535 bytes: goto +32767 first, ifeq -32768 as last instruction".into(), code_class(&code)));
		// many ldc of a constant that the writer may renumber above 255
		let bytes = one_method_class(|p| {
			for i in 0..300 { p.int(1000 + i); }
			let k = p.int(5) ; let _ = k;
			let small = 3u8; // some low index (a Class entry is not loadable by ldc as int, but Loadable::Class is fine)
			let mut code = vec![];
			code.extend_from_slice(&[0x99, 0x7f, 0xfe]); // ifeq +32766
			while code.len() + 3 < 32766 + 3 { code.push(0x12); code.push(small); code.push(0x57); }
			while code.len() < 32766 { code.push(0); }
			code.extend_from_slice(&[0xb1]);
			(code, vec![], vec![])
		}, no_attrs);
		out.push(cls(s, "max-code", "ifeq over ~10900 ldc/pop pairs at the i16 limit (the writer may have to widen)".into(), bytes));
	}
}

// ------------------------------------------------------------------ text formats
const TINY_OK: &str = "tiny\t2\t0\ta\tb\nc\tA\tB\n\tc\tclass doc\\n\n\tf\tI\tx\ty\n\t\tc\tfield doc\n\tm\t(LA;)V\tp\tq\n\t\tp\t0\t\targ\n\t\t\tc\tparam doc\n\t\tc\tmethod doc\nc\tA$B\tB$C\n";
const DIFF_OK: &str = "tiny\t2\t0\nc\tA\tX\tY\n\tc\told\tnew\n\tf\tI\tx\t\ty\n\t\tc\t\tadded\n\tm\t(LA;)V\tp\tq\tr\n\t\tp\t0\t\t\targ\n\t\t\tc\ta\tb\n\t\tc\tm1\t\n";
const ENIGMA_OK: &str = "CLASS A B\n\tCOMMENT class doc # not a comment\n\tFIELD x y I\n\t\tCOMMENT f\n\tMETHOD p q (LA;)V ACC:PUBLIC\n\t\tARG 0 arg\n\t\t\tCOMMENT pd\n\t\tCOMMENT md\n\tCLASS Inner In2\n\t\tFIELD z I\n# top comment\nCLASS C\n";
const NESTS_OK: &str = "a/B$C\ta/B\t\t\tC\t0x0008\na/B$1\ta/B\tm\t()V\t1\t10\na/B$1L\ta/B\tm\t()V\t1L\t0b101\n";

fn txt(kind: u8, stream: &'static str, label: String, bytes: Vec<u8>) -> Input { Input { kind, form: Form::Raw(bytes), stream, label, shape: "", case: None } }

const PIECES: [&str; 50] = ["\\é", "\\€", "\\𐐀", "\\\u{301}", "\\\\", "\\\t", "é\\", "€#", "$é", "\\n\\é", "\t", "\t\t", "\t\t\t\t\t\t\t\t", " ", "\n", "\r\n", "\r", "c", "f", "m", "p", "tiny", "2", "0", "CLASS", "FIELD", "METHOD", "ARG", "COMMENT", "ACC:", "#", "A", "a/B$C", "I", "(LA;)V", "()V", "[I", "L;", "<init>", "0", "-1", "99999999999999999999", "0x10", "0b1", "é", "😀", "\\n", "\\", "\u{0}", "\u{b}"];

pub fn random_text(rng: &mut Rng, lines: usize) -> Vec<u8> {
	let mut v: Vec<u8> = vec![];
	for _ in 0..lines {
		for _ in 0..rng.below(4) { v.push(b'\t'); }
		for _ in 0..rng.below(7) {
			match rng.below(12) {
				0 => v.extend_from_slice(&[0xFF]), 1 => v.extend_from_slice(&[0xC3]), 2 => v.extend_from_slice(&[0x80, 0xBF]), 3 => v.extend_from_slice(&[0xED, 0xA0, 0x80]),
				_ => v.extend_from_slice(rng.pick(&PIECES[..]).as_bytes()),
			}
			if rng.chance(2, 3) { v.push(b'\t'); } else if rng.chance(1, 3) { v.push(b' '); }
		}
		v.push(b'\n');
	}
	v
}

pub fn mutate_text(rng: &mut Rng, base: &str) -> Vec<u8> {
	let mut v = base.as_bytes().to_vec();
	for _ in 0..rng.range(1, 4) {
		if v.is_empty() { break; }
		let i = rng.below(v.len());
		match rng.below(9) {
			0 => { v.remove(i); }
			1 => { v.insert(i, b'\t'); }
			2 => { v.insert(i, b'\n'); }
			3 => { v[i] = 0xFF; }
			4 => { v[i] = rng.below(256) as u8; }
			5 => { let p = rng.pick(&PIECES[..]).as_bytes(); for (k, b) in p.iter().enumerate() { v.insert(i + k, *b); } }
			6 => { v.truncate(i); }
			7 => { let j = rng.below(v.len()); let (a, b) = (i.min(j), i.max(j)); let seg: Vec<u8> = v[a..b].to_vec(); for (k, x) in seg.iter().enumerate() { v.insert(b + k, *x); } }
			_ => { v[i] = b' '; }
		}
	}
	v
}

pub fn texts(rng: &mut Rng, thorough: bool, out: &mut Vec<Input>) {
	let n = if thorough { 6000 } else { 1200 };
	let fixtures: Vec<(u8, String)> = {
		let mut f = vec![(K_TINY, TINY_OK.to_string()), (K_DIFF, DIFF_OK.to_string()), (K_ENIGMA, ENIGMA_OK.to_string()), (K_NESTS, NESTS_OK.to_string())];
		// fixtures of the repository under test; a missing one is simply not used
		let repo = std::env::var("VERIF_REPO").unwrap_or_else(|_| env!("FBH_REPO").to_string());
		for (k, p) in [(K_TINY, "quill/tests/read_file_input_tiny_v2.txt"), (K_ENIGMA, "quill/tests/read_file_input_enigma.txt"), (K_TINY, "quill/tests/remap_input.tiny"), (K_TINY, "quill/tests/merge_input_a.tiny")] {
			if let Ok(s) = std::fs::read_to_string(format!("{repo}/{p}")) { if s.len() < 20000 { f.push((k, s)); } }
		}
		f
	};
	for (k, s) in &fixtures { out.push(txt(*k, "text-valid", format!("valid {} fixture ({} bytes)", KIND_NAMES[*k as usize], s.len()), s.as_bytes().to_vec())); }
	super::hostile::text_cells(&fixtures[..4], out);
	for i in 0..n {
		let (k, s) = &fixtures[i % fixtures.len()];
		// a mutated fixture goes to its own parser and to one other parser
		let m = mutate_text(rng, s);
		out.push(txt(*k, "text-mutated", format!("mutated {} fixture", KIND_NAMES[*k as usize]), m.clone()));
		let other = [K_TINY, K_DIFF, K_ENIGMA, K_NESTS][rng.below(4)];
		if other != *k && i % 3 == 0 { out.push(txt(other, "text-cross", format!("mutated {} fixture fed to the {} parser", KIND_NAMES[*k as usize], KIND_NAMES[other as usize]), m)); }
		let nl = rng.range(1, 12); let r = random_text(rng, nl);
		let kind = [K_TINY, K_DIFF, K_ENIGMA, K_NESTS][i % 4];
		let mut with_header = match kind { K_TINY => b"tiny\t2\t0\ta\tb\n".to_vec(), K_DIFF => b"tiny\t2\t0\n".to_vec(), _ => vec![] };
		if rng.chance(3, 4) { with_header.extend_from_slice(&r); } else { with_header = r; }
		out.push(txt(kind, "text-random", format!("random lines for the {} parser", KIND_NAMES[kind as usize]), with_header));
	}
	// fixed hostile shapes for every text parser
	for kind in [K_TINY, K_DIFF, K_ENIGMA, K_NESTS] {
		let kn = KIND_NAMES[kind as usize];
		let hdr: &[u8] = match kind { K_TINY => b"tiny\t2\t0\ta\tb\n", K_DIFF => b"tiny\t2\t0\n", _ => b"" };
		let mut shapes: Vec<(String, Vec<u8>)> = vec![
			("empty file".into(), vec![]), ("single newline".into(), b"\n".to_vec()), ("only tabs".into(), b"\t\t\t\t".to_vec()), ("NUL bytes".into(), vec![0; 64]),
			("invalid UTF-8 first line".into(), vec![0xFF, 0xFE, b'\n']), ("header then invalid UTF-8".into(), [hdr, &[b'c', b'\t', 0xC3, b'\n'][..]].concat()),
			("header then tab + multibyte char".into(), [hdr, "\té\tA\tB\n".as_bytes()].concat()), ("header then multibyte first".into(), [hdr, "é\t\tA\n".as_bytes()].concat()),
			("header only, no newline".into(), hdr[..hdr.len().saturating_sub(1)].to_vec()), ("CRLF line ends".into(), [hdr, b"c\tA\tB\r\n\tc\tdoc\r\n"].concat()),
			("header then 100000 tabs".into(), [hdr, &vec![b'\t'; 100_000][..], b"c\tA\tB\n"].concat()),
			("one line of 4 MiB".into(), [hdr, b"c\t", &vec![b'A'; 4 << 20][..], b"\tB\n"].concat()),
			("200000 fields in one line".into(), [hdr, &b"c\t".repeat(200_000)[..], b"\n"].concat()),
			("100000 short lines".into(), [hdr, &b"c\tA\tB\n".repeat(100_000)[..]].concat()),
			("indentation staircase 0..400".into(), { let mut v = hdr.to_vec(); for d in 0..400 { v.extend(std::iter::repeat(b'\t').take(d)); v.extend_from_slice(b"c\tA\tB\n"); } v }),
			("missing header".into(), b"c\tA\tB\n".to_vec()), ("wrong header version".into(), b"tiny\t3\t0\ta\tb\n".to_vec()), ("header with one namespace".into(), b"tiny\t2\t0\ta\n".to_vec()),
			("header with 1000 namespaces".into(), [b"tiny\t2\t0".to_vec(), b"\tn".repeat(1000), b"\n".to_vec()].concat()),
			("parameter index overflow".into(), [hdr, b"c\tA\tB\n\tm\t()V\ta\tb\n\t\tp\t99999999999999999999999\t\tx\n"].concat()),
			("parameter index negative".into(), [hdr, b"c\tA\tB\n\tm\t()V\ta\tb\n\t\tp\t-1\t\tx\n"].concat()),
			("escape at end of comment".into(), [hdr, b"c\tA\tB\n\tc\tdoc\\\n"].concat()),
		];
		// parameter indices that parse (up to usize::MAX) must not size anything
		for idx in ["4294967295", "4294967296", "1000000000000", "9223372036854775807", "18446744073709551615", "18446744073709551616", "+18446744073709551615", "00000000000000000000000000000007", "+", "+-1", "1_000", "１２"] {
			let body = match kind {
				K_TINY => format!("c\tA\tB\n\tm\t(I)V\ta\tb\n\t\tp\t{idx}\t\tx\n"),
				K_DIFF => format!("c\tA\n\tm\t(I)V\ta\n\t\tp\t{idx}\t\t\tx\n"),
				K_ENIGMA => format!("CLASS A\n\tMETHOD m (I)V\n\t\tARG {idx} x\n"),
				_ => format!("a/B$C\ta/B\t\t\tC\t{idx}\n"),
			};
			shapes.push((format!("index / access field {idx:?}"), [hdr, body.as_bytes()].concat()));
		}
		if kind == K_DIFF {
			for (what, body) in [
				("parameter with a src name", "c\tA\tX\tY\n\tm\t()V\tp\tq\tr\n\t\tp\t0\tsrc\t\targ\n"),
				("parameter without src field", "c\tA\tX\tY\n\tm\t()V\tp\tq\tr\n\t\tp\t0\n"),
				("parameter index only plus sign", "c\tA\tX\tY\n\tm\t()V\tp\tq\tr\n\t\tp\t+\t\t\targ\n"),
				("parameter index with plus", "c\tA\tX\tY\n\tm\t()V\tp\tq\tr\n\t\tp\t+7\t\t\targ\n"),
				("duplicate class", "c\tA\tX\tY\nc\tA\tX\tZ\n"),
				("duplicate field", "c\tA\n\tf\tI\tx\t\ty\n\tf\tI\tx\ty\t\n"),
				("duplicate method", "c\tA\n\tm\t()V\tx\n\tm\t()V\tx\n"),
				("duplicate parameter", "c\tA\n\tm\t(II)V\tx\n\t\tp\t1\t\t\ta\n\t\tp\t1\t\t\tb\n"),
				("two class comments", "c\tA\n\tc\t\ta\n\tc\t\tb\n"),
				("comment with equal sides", "c\tA\n\tc\tsame\\n\tsame\\n\n"),
				("comment with three fields", "c\tA\n\tc\ta\tb\tc\n"),
				("class with four fields", "c\tA\tX\tY\tZ\n"),
				("class key invalid", "c\ta.b\tX\tY\n"),
				("class key only", "c\tA\n"),
				("class without key", "c\n"),
				("field without name", "c\tA\n\tf\tI\n"),
				("method name invalid", "c\tA\n\tm\t()V\t<x>\n"),
				("header with a namespace", ""),
				("unknown tags and a deeper line", "x\ty\n\tz\n"),
			] {
				let h: &[u8] = if what == "header with a namespace" { b"tiny\t2\t0\ta\n" } else { hdr };
				shapes.push((what.into(), [h, body.as_bytes()].concat()));
			}
		}
		if kind == K_TINY {
			for (what, body) in [
				("duplicate class", "c\tA\tB\nc\tA\tC\n"),
				("class without first name", "c\t\tB\n"),
				("duplicate field", "c\tA\tB\n\tf\tI\tx\ty\n\tf\tI\tx\tz\n"),
				("same field name other descriptor", "c\tA\tB\n\tf\tI\tx\ty\n\tf\tJ\tx\tz\n"),
				("duplicate method", "c\tA\tB\n\tm\t()V\tx\ty\n\tm\t()V\tx\tz\n"),
				("duplicate parameter", "c\tA\tB\n\tm\t(II)V\tx\ty\n\t\tp\t1\t\ta\n\t\tp\t+1\t\tb\n"),
				("parameter without names", "c\tA\tB\n\tm\t(I)V\tx\ty\n\t\tp\t1\n"),
				("two comments on every level", "\tc\th1\n\tc\th2\n"),
				("two class comments", "c\tA\tB\n\tc\ta\n\tc\tb\n"),
				("two field comments", "c\tA\tB\n\tf\tI\tx\ty\n\t\tc\ta\n\t\tc\tb\n"),
				("two parameter comments", "c\tA\tB\n\tm\t(I)V\tx\ty\n\t\tp\t0\t\ta\n\t\t\tc\ta\n\t\t\tc\tb\n"),
				("comment with two fields", "c\tA\tB\n\tc\ta\tb\n"),
				("comment without text", "c\tA\tB\n\tc\n"),
				("header comment then classes", "\tc\tabout\nc\tA\tB\n"),
				("header sub-section too deep", "\t\tc\tabout\n"),
				("unknown tags on every level", "x\nc\tA\tB\n\tx\n\tm\t()V\ta\tb\n\t\tx\n\t\tp\t0\t\tq\n\t\t\tx\n"),
				("line below an unknown tag", "x\n\ty\n"),
				("field without descriptor", "c\tA\tB\n\tf\n"),
				("method name <init> and <clinit>", "c\tA\tB\n\tm\t()V\t<init>\t<init>\n\tm\t()V\t<clinit>\t<x>\n"),
				("three names", "c\tA\tB\tC\n"),
				("one name", "c\tA\n"),
				("empty line in the middle", "c\tA\tB\n\nc\tC\tD\n"),
				("empty line inside a class", "c\tA\tB\n\tf\tI\tx\ty\n\n\tf\tI\tz\ty\n"),
			] { shapes.push((what.into(), [hdr, body.as_bytes()].concat())); }
		}
		if kind == K_ENIGMA {
			for (what, body) in [
				("duplicate class", "CLASS A B\nCLASS A C\n"),
				("duplicate nested class", "CLASS A B\n\tCLASS X\n\tCLASS X\n"),
				("nested class equals a top-level one", "CLASS A$X\nCLASS A\n\tCLASS X\n"),
				("duplicate field", "CLASS A\n\tFIELD x I\n\tFIELD x y I\n"),
				("duplicate method", "CLASS A\n\tMETHOD m ()V\n\tMETHOD m n ()V\n"),
				("duplicate ARG", "CLASS A\n\tMETHOD m (II)V\n\t\tARG 1 a\n\t\tARG +1 b\n"),
				("modifier in every position", "CLASS A ACC:PUBLIC\n\tFIELD x I ACC:PRIVATE\n\tFIELD y z I ACC:X\n\tMETHOD m ()V ACC:\n\tCLASS I J ACC:PROTECTED\n"),
				("five arguments", "CLASS A B C D\n"),
				("FIELD with one argument", "CLASS A\n\tFIELD x\n"),
				("FIELD with five arguments", "CLASS A\n\tFIELD a b c d e\n"),
				("ARG with three arguments", "CLASS A\n\tMETHOD m ()V\n\t\tARG 0 a b\n"),
				("unknown tag in every section", "CLASS A\n\tFOO\n"),
				("unknown tag below FIELD", "CLASS A\n\tFIELD x I\n\t\tFOO\n"),
				("unknown tag below METHOD", "CLASS A\n\tMETHOD m ()V\n\t\tFOO\n"),
				("unknown tag below ARG", "CLASS A\n\tMETHOD m ()V\n\t\tARG 0 a\n\t\t\tFOO\n"),
				("root FIELD", "FIELD x I\n"),
				("adjacent blanks make empty names", "CLASS  A\n"),
				("nested class with empty name", "CLASS A\n\tCLASS  X\n"),
				("COMMENT lines everywhere", "CLASS A\n\tCOMMENT a\n\tCOMMENT  b  c \n\tMETHOD m ()V\n\t\tCOMMENT\n\t\tARG 0 a\n\t\t\tCOMMENT x # y\n"),
				("hash directly after the tag", "CLASS A#B\n\tFIELD x I# c\n"),
				("only blanks and a hash", "  \t # x\nCLASS A\n"),
				("blank lines between sections", "CLASS A\n\n\tFIELD x I\n   \n\tFIELD y I\n"),
				("deeper line after a removed blank line", "CLASS A\n\t\t\n\t\tFIELD x I\n"),
				("invalid names", "CLASS a.b\n"),
				("invalid method name", "CLASS A\n\tMETHOD <x> ()V\n"),
				("array class name", "CLASS [I\n"),
			] { shapes.push((what.into(), body.as_bytes().to_vec())); }
			for depth in [10usize, 64, 65, 66, 67, 200, 1500, 6000] {
				let mut v = vec![];
				for d in 0..depth { v.extend(std::iter::repeat(b'\t').take(d)); v.extend_from_slice(b"CLASS A B\n"); }
				shapes.push((format!("CLASS nested {depth} deep"), v));
			}
			shapes.push(("ARG with huge index".into(), b"CLASS A\n\tMETHOD m ()V\n\t\tARG 99999999999999999999 x\n".to_vec()));
			shapes.push(("ARG negative".into(), b"CLASS A\n\tMETHOD m ()V\n\t\tARG -1 x\n".to_vec()));
			shapes.push(("unicode whitespace".into(), "CLASS\u{2003}A\u{a0}B\n\tFIELD\u{b}x\u{c}I\n".as_bytes().to_vec()));
			shapes.push(("only a comment".into(), b"# nothing\n".to_vec()));
			shapes.push(("COMMENT with # and multibyte".into(), "CLASS A\n\tCOMMENT é # é\n".as_bytes().to_vec()));
			shapes.push(("tab then multibyte".into(), "CLASS A\n\té\n".as_bytes().to_vec()));
		}
		if kind == K_NESTS {
			for acc in ["0x", "0b", "0x10000", "65536", "-1", "0xFFFF", "0b2", "+5", "", " 1", "0X10", "1e3", "0x-1", "0x+1"] {
				shapes.push((format!("access field {acc:?}"), format!("a/B$C\ta/B\t\t\tC\t{acc}\n").into_bytes()));
			}
			shapes.push(("missing class name".into(), b"\ta/B\t\t\tC\t8\n".to_vec()));
			shapes.push(("missing enclosing class name".into(), b"a/B$C\t\t\t\tC\t8\n".to_vec()));
			shapes.push(("missing inner name".into(), b"a/B$C\ta/B\t\t\t\t8\n".to_vec()));
			shapes.push(("invalid enclosing method name".into(), b"a/B$C\ta/B\t<m>\t()V\tC\t8\n".to_vec()));
			shapes.push(("method name without descriptor".into(), b"a/B$C\ta/B\tm\t\tC\t8\n".to_vec()));
			shapes.push(("array class name".into(), b"[La/B;\ta/B\t\t\tC\t8\n".to_vec()));
			shapes.push(("second line broken".into(), b"a/B$C\ta/B\t\t\tC\t8\na/B$D\ta/B\t\t\tD\t0x1FFFF\n".to_vec()));
			shapes.push(("5 fields".into(), b"a\tb\tc\td\te\n".to_vec()));
			shapes.push(("7 fields".into(), b"a\tb\tc\td\te\tf\tg\n".to_vec()));
			shapes.push(("empty line between".into(), b"a/B$C\ta/B\t\t\tC\t8\n\na/B$D\ta/B\t\t\tD\t8\n".to_vec()));
			shapes.push(("digit-leading multibyte inner name".into(), "a/B$1é\ta/B\t\t\t1é\t8\n".as_bytes().to_vec()));
		}
		for (what, bytes) in shapes { out.push(txt(kind, "text-targeted", format!("{kn}: {what}"), bytes)); }
	}
	hostile_cells(out);
	// descriptors / names
	let dn = if thorough { 20000 } else { 4000 };
	let alpha: Vec<&[u8]> = vec![b"B", b"C", b"D", b"F", b"I", b"J", b"S", b"Z", b"L", b"V", b"[", b"(", b")", b";", b"/", b".", b"a", b"$", b"<", b">", "é".as_bytes(), "😀".as_bytes(), b"Ljava/lang/Object;", b"[[", b"()", b"\0"];
	for _ in 0..dn {
		let mut v = vec![];
		for _ in 0..rng.below(9) { let piece: &[u8] = alpha[rng.below(alpha.len())]; v.extend_from_slice(piece); }
		out.push(txt(K_DESC, "descriptor-random", "random descriptor string".into(), v));
	}
	for (what, v) in [("empty", vec![]), ("100000 brackets", vec![b'['; 100_000]), ("255 brackets + I", [vec![b'['; 255], vec![b'I']].concat()), ("256 brackets + I", [vec![b'['; 256], vec![b'I']].concat()),
		("method with 70000 parameters", [b"(".to_vec(), vec![b'I'; 70_000], b")V".to_vec()].concat()), ("unterminated L of 1 MiB", [b"L".to_vec(), vec![b'a'; 1 << 20]].concat()),
		("nested parens", b"((((I))))V".to_vec()), ("lone surrogate (as WTF-8 like bytes)", vec![b'L', 0xED, 0xA0, 0x80, b';'])] {
		out.push(txt(K_DESC, "descriptor-targeted", format!("descriptor: {what}"), v));
	}
}

// ------------------------------------------------------------------ escapes and multi-byte characters
/// cells that put a backslash directly before characters of every UTF-8 width (and before a combining
/// mark, TAB, the end of the line, another backslash), and multi-byte characters directly next to every
/// structural character of the text formats
pub fn backslash_cells() -> Vec<String> {
	let wide = ["é", "€", "𐐀", "\u{301}", "e\u{301}", "\u{7ff}", "\u{800}", "\u{ffff}", "\u{10ffff}"];
	let mut v: Vec<String> = vec![];
	for w in wide {
		v.push(format!("\\{w}")); v.push(format!("x\\{w}")); v.push(format!("\\{w}x")); v.push(format!("\\\\{w}")); v.push(format!("\\\\\\{w}"));
		v.push(format!("{w}\\")); v.push(format!("\\n\\{w}")); v.push(format!("\\{w}\\{w}")); v.push(format!("\\{w}\\n")); v.push(format!("{w}\\{w}"));
	}
	for s in ["\\", "\\\\", "\\\\\\", "x\\", "\\\t", "\\\tx", "\\\t\\", "\\ ", "\\#", "\\\\n", "\\n", "\\r\\t\\\\", "\\é\\€\\𐐀", "\\𐐀\\€\\é\\", "see C:\\Données\\été"] { v.push(s.to_string()); }
	for st in ["\t", " ", "#", "$", "/", ";", "[", "(", ")", "<", ":"] {
		for w in ["é", "€", "𐐀"] {
			v.push(format!("{w}{st}")); v.push(format!("{st}{w}")); v.push(format!("{w}{st}{w}")); v.push(format!("{st}{w}{st}"));
		}
	}
	v
}
/// every string of at most 3 symbols over { \\ n é € 𐐀 TAB c }
pub fn escape_exhaustive() -> Vec<String> {
	let alpha = ["\\", "n", "é", "€", "𐐀", "\t", "c"];
	let mut v = vec![String::new()];
	let mut last = vec![String::new()];
	for _ in 0..3 {
		let mut next = vec![];
		for s in &last { for a in alpha { next.push(format!("{s}{a}")); } }
		v.extend(next.iter().cloned());
		last = next;
	}
	v
}
fn hostile_cells(out: &mut Vec<Input>) {
	let tiny = |body: String| format!("tiny\t2\t0\ta\tb\n{body}").into_bytes();
	let diff = |body: String| format!("tiny\t2\t0\n{body}").into_bytes();
	let tiny_levels = |c: &str| -> Vec<(&'static str, Vec<u8>)> { vec![
		("class comment", tiny(format!("c\tA\tB\n\tc\t{c}\n"))),
		("field comment", tiny(format!("c\tA\tB\n\tf\tI\tx\ty\n\t\tc\t{c}\n"))),
		("method comment", tiny(format!("c\tA\tB\n\tm\t()V\tp\tq\n\t\tc\t{c}\n"))),
		("parameter comment", tiny(format!("c\tA\tB\n\tm\t(I)V\tp\tq\n\t\tp\t0\t\targ\n\t\t\tc\t{c}\n"))),
	] };
	let diff_levels = |c: &str| -> Vec<(&'static str, Vec<u8>)> { vec![
		("class comment added", diff(format!("c\tA\tX\tY\n\tc\t\t{c}\n"))),
		("class comment removed", diff(format!("c\tA\tX\tY\n\tc\t{c}\t\n"))),
		("class comment edited", diff(format!("c\tA\tX\tY\n\tc\t{c}\tx{c}\n"))),
	] };
	for c in backslash_cells() {
		let mut all: Vec<(u8, &'static str, Vec<u8>)> = vec![];
		for (w, b) in tiny_levels(&c) { all.push((K_TINY, w, b)); }
		all.push((K_TINY, "class name", tiny(format!("c\t{c}\tB\n"))));
		all.push((K_TINY, "whole line", tiny(format!("{c}\n"))));
		all.push((K_TINY, "whole line after a tab", tiny(format!("c\tA\tB\n\t{c}\n"))));
		all.push((K_TINY, "header namespace", format!("tiny\t2\t0\ta\t{c}\nc\tA\tB\n").into_bytes()));
		for (w, b) in diff_levels(&c) { all.push((K_DIFF, w, b)); }
		all.push((K_DIFF, "edited to plain", diff(format!("c\tA\tX\tY\n\tc\t{c}\tx\n"))));
		all.push((K_DIFF, "field comment added", diff(format!("c\tA\tX\tY\n\tf\tI\tx\t\ty\n\t\tc\t\t{c}\n"))));
		all.push((K_DIFF, "method comment removed", diff(format!("c\tA\tX\tY\n\tm\t()V\tp\tq\tr\n\t\tc\t{c}\t\n"))));
		all.push((K_DIFF, "parameter comment edited", diff(format!("c\tA\tX\tY\n\tm\t(I)V\tp\tq\tr\n\t\tp\t0\t\t\targ\n\t\t\tc\t{c}\t{c}{c}\n"))));
		all.push((K_DIFF, "class name", diff(format!("c\t{c}\tX\tY\n"))));
		all.push((K_DIFF, "whole line", diff(format!("{c}\n"))));
		all.push((K_ENIGMA, "class COMMENT", format!("CLASS A B\n\tCOMMENT {c}\n").into_bytes()));
		all.push((K_ENIGMA, "field COMMENT", format!("CLASS A B\n\tFIELD x y I\n\t\tCOMMENT {c}\n").into_bytes()));
		all.push((K_ENIGMA, "method COMMENT", format!("CLASS A B\n\tMETHOD p q ()V\n\t\tCOMMENT {c}\n").into_bytes()));
		all.push((K_ENIGMA, "ARG COMMENT", format!("CLASS A B\n\tMETHOD p q (I)V\n\t\tARG 0 arg\n\t\t\tCOMMENT {c}\n").into_bytes()));
		all.push((K_ENIGMA, "class name", format!("CLASS {c} B\n").into_bytes()));
		all.push((K_ENIGMA, "trailing # comment", format!("CLASS A B # {c}\n").into_bytes()));
		all.push((K_ENIGMA, "whole line", format!("{c}\n").into_bytes()));
		all.push((K_ENIGMA, "whole line after a tab", format!("CLASS A B\n\t{c}\n").into_bytes()));
		all.push((K_ENIGMA, "directly after COMMENT", format!("CLASS A B\n\tCOMMENT{c}\n").into_bytes()));
		let fields = ["a/B$C", "a/B", "m", "()V", "C", "8"];
		for i in 0..6 { let mut f: Vec<String> = fields.iter().map(|x| x.to_string()).collect(); f[i] = c.clone(); all.push((K_NESTS, "one field", format!("{}\n", f.join("\t")).into_bytes())); }
		all.push((K_NESTS, "whole line", format!("{c}\n").into_bytes()));
		for (k, w, b) in all { out.push(txt(k, "text-backslash-multibyte", format!("{}: {w} = {c:?}", KIND_NAMES[k as usize]), b)); }
	}
	for c in escape_exhaustive() {
		let mut all: Vec<(u8, &'static str, Vec<u8>)> = vec![];
		for (w, b) in tiny_levels(&c) { all.push((K_TINY, w, b)); }
		for (w, b) in diff_levels(&c) { all.push((K_DIFF, w, b)); }
		all.push((K_ENIGMA, "class COMMENT", format!("CLASS A B\n\tCOMMENT {c}\n").into_bytes()));
		all.push((K_NESTS, "inner name", format!("a/B$C\ta/B\t\t\t{c}\t8\n").into_bytes()));
		for (k, w, b) in all { out.push(txt(k, "text-escape-exhaustive", format!("{}: {w} = {c:?} (every string of length <= 3 over backslash, n, é, €, 𐐀, TAB, c)", KIND_NAMES[k as usize]), b)); }
	}
}

// ------------------------------------------------------------------ hand-assembled valid bases
/// valid classes for features the javac corpus does not contain; they are mutated like the corpus
pub fn assembled_bases() -> Vec<(String, Vec<u8>)> {
	let mut v = vec![];
	// every instruction form in one method, old StackMap attribute, code type annotations of every target
	v.push(("assembled: all instruction forms + StackMap + code type annotations".to_string(), one_method_class(|p| {
		let k = p.int(5); let l = p.long(7); let s = p.string("s"); let c = p.class("java/lang/String");
		let f = p.fieldref("T", "f", "I"); let m = p.methodref("T", "m", "()V");
		let im = { let a = p.class("java/lang/Runnable"); let b = p.nat("run", "()V"); p.idx2(11, a, b) };
		let arr = p.class("[[I");
		let mut code: Vec<u8> = vec![];
		code.extend_from_slice(&[0x12, k as u8, 0x57]);                       // ldc, pop
		code.push(0x13); u16be(&mut code, s); code.push(0x57);                // ldc_w, pop
		code.push(0x14); u16be(&mut code, l); code.push(0x58);                // ldc2_w, pop2
		code.extend_from_slice(&[0x10, 1, 0x11, 1, 0, 0x57, 0x57]);           // bipush sipush pop pop
		code.extend_from_slice(&[0x15, 1, 0x36, 2, 0x84, 1, 5]);              // iload istore iinc
		code.extend_from_slice(&[0xc4, 0x15, 1, 0, 0xc4, 0x36, 1, 1, 0xc4, 0x84, 1, 2, 0, 9]); // wide forms
		code.push(0xb2); u16be(&mut code, f); code.push(0x57);                // getstatic pop
		code.push(0xb8); u16be(&mut code, m);                                 // invokestatic
		code.extend_from_slice(&[0x01]); code.push(0xb9); u16be(&mut code, im); code.extend_from_slice(&[1, 0]); // aconst_null invokeinterface
		code.push(0xbb); u16be(&mut code, c); code.push(0x57);                // new pop
		code.extend_from_slice(&[0x04, 0xbc, 10, 0x57]);                      // iconst_1 newarray int pop
		code.extend_from_slice(&[0x04, 0x04]); code.push(0xc5); u16be(&mut code, arr); code.extend_from_slice(&[2, 0x57]); // multianewarray pop
		code.extend_from_slice(&[0x01]); code.push(0xc0); u16be(&mut code, c); code.push(0x57); // checkcast
		let here = code.len(); code.extend_from_slice(&[0x03, 0x99, 0, 4, 0x00]); let _ = here;   // iconst_0 ifeq +4 nop
		code.extend_from_slice(&[0xa7, 0, 3]);                                // goto +3
		code.push(0xc8); i32be(&mut code, 5);                                 // goto_w +5
		code.extend_from_slice(&[0x01, 0xc6, 0, 3]);                          // aconst_null ifnull +3
		// tableswitch
		code.push(0x03); let pos = code.len(); code.push(0xaa); while code.len() % 4 != 0 { code.push(0); }
		let table_len = (4 - (pos + 1) % 4) % 4 + 12 + 8 + 1;
		i32be(&mut code, table_len as i32); i32be(&mut code, 0); i32be(&mut code, 1); i32be(&mut code, table_len as i32); i32be(&mut code, table_len as i32);
		// lookupswitch
		code.push(0x03); let pos = code.len(); code.push(0xab); while code.len() % 4 != 0 { code.push(0); }
		let ls_len = (4 - (pos + 1) % 4) % 4 + 8 + 16 + 1;
		i32be(&mut code, ls_len as i32); i32be(&mut code, 2); i32be(&mut code, -1); i32be(&mut code, ls_len as i32); i32be(&mut code, 7); i32be(&mut code, ls_len as i32);
		// jsr / ret
		code.extend_from_slice(&[0xa8, 0, 4, 0xb1, 0x3a, 3, 0xa9, 3]);         // jsr +4; return; astore 3; ret 3
		let n = code.len() as u16;
		let sm = p.utf8("StackMap");
		let mut b = vec![]; u16be(&mut b, 2);
		u16be(&mut b, 3); u16be(&mut b, 2); b.push(1); b.push(7); u16be(&mut b, c); u16be(&mut b, 1); b.push(8); u16be(&mut b, 0);
		u16be(&mut b, 0); u16be(&mut b, 0); u16be(&mut b, 0);
		let ta = p.utf8("RuntimeVisibleTypeAnnotations"); let ty = p.utf8("LA;"); let el = p.utf8("v");
		let mut t = vec![]; let targets: Vec<Vec<u8>> = vec![
			{ let mut x = vec![0x40]; u16be(&mut x, 1); u16be(&mut x, 0); u16be(&mut x, n); u16be(&mut x, 1); x },
			{ let mut x = vec![0x41]; u16be(&mut x, 1); u16be(&mut x, 3); u16be(&mut x, 2); u16be(&mut x, 2); x },
			{ let mut x = vec![0x42]; u16be(&mut x, 0); x },
			{ let mut x = vec![0x43]; u16be(&mut x, 0); x }, { let mut x = vec![0x44]; u16be(&mut x, 3); x }, { let mut x = vec![0x45]; u16be(&mut x, 0); x }, { let mut x = vec![0x46]; u16be(&mut x, 0); x },
			{ let mut x = vec![0x47]; u16be(&mut x, 0); x.push(0); x }, { let mut x = vec![0x48]; u16be(&mut x, 0); x.push(1); x }, { let mut x = vec![0x49]; u16be(&mut x, 0); x.push(0); x },
			{ let mut x = vec![0x4A]; u16be(&mut x, 0); x.push(0); x }, { let mut x = vec![0x4B]; u16be(&mut x, 0); x.push(0); x },
		];
		u16be(&mut t, targets.len() as u16);
		for (i, tg) in targets.iter().enumerate() {
			t.extend_from_slice(tg);
			if i % 2 == 0 { t.extend_from_slice(&[2, 0, 0, 3, 1]); } else { t.push(0); }
			u16be(&mut t, ty); u16be(&mut t, 1); u16be(&mut t, el); t.push(b'I'); u16be(&mut t, k);
		}
		let lnt = p.utf8("LineNumberTable"); let mut ln = vec![]; u16be(&mut ln, 2); u16be(&mut ln, 0); u16be(&mut ln, 10); u16be(&mut ln, 3); u16be(&mut ln, 11);
		(code, vec![(0, 3, 3, 0), (0, 3, 5, c)], vec![attr(sm, &b), attr(ta, &t), attr(lnt, &ln)])
	}, |p| {
		let sde = p.utf8("SourceDebugExtension"); let em = p.utf8("EnclosingMethod"); let t = p.class("T"); let nat = p.nat("m", "()V");
		let mut e = vec![]; u16be(&mut e, t); u16be(&mut e, nat);
		let foo = p.utf8("Foo");
		vec![attr(sde, b"SMAP\nx.java\nJava\n*E\n"), attr(em, &e), attr(foo, &[1, 2, 3])]
	})));
	// nested dynamic constants (valid, acyclic, shared) through ldc and invokedynamic
	v.push(("assembled: nested dynamic constants (ldc)".to_string(), bootstrap_class(&[vec![1, usize::MAX, 2], vec![2, 2], vec![usize::MAX]], 0, false)));
	v.push(("assembled: nested dynamic constants (invokedynamic)".to_string(), bootstrap_class(&[vec![1, usize::MAX, 2], vec![2, 2], vec![usize::MAX]], 0, true)));
	v.push(("assembled: StackMapTable of extended frames".to_string(), stackmap_class(40, &[3, 4, 0, 9])));
	v.push(("assembled: annotation with nested arrays".to_string(), deep_annotation_class("RuntimeVisibleAnnotations", 5, false)));
	v.push(("assembled: annotation with nested annotations".to_string(), deep_annotation_class("RuntimeInvisibleAnnotations", 5, true)));
	v
}

// ------------------------------------------------------------------ counts with all their data present
/// every count field of the format at 255 / 256 / 257 / 65535 WITH the counted items present (tiny ones):
/// attributes at every level (class, field, method, Code, record component), members, interfaces, table
/// entries of every table-like attribute, annotations, element value pairs, array values, bootstrap
/// methods and their arguments — where a narrower counter (u8) or a quadratic walk would show
pub fn exact_counts(out: &mut Vec<Input>) {
	for n in [255usize, 256, 257, 65535] {
		let s = "class-exact-counts";
		let many = |item: &[u8]| -> Vec<u8> { let mut b = vec![]; u16be(&mut b, n as u16); for _ in 0..n { b.extend_from_slice(item); } b };
		// attributes at every level: 0 class, 1 field, 2 method, 3 Code, 4 record component
		for level in 0..5usize {
			let mut p = Pool::new();
			let this = p.class("T"); let sup = p.class("java/lang/Object");
			let (mn, md, c) = (p.utf8("m"), p.utf8("()V"), p.utf8("Code"));
			let (fname, fdesc) = (p.utf8("f"), p.utf8("I"));
			let foo = p.utf8("Foo"); let rec = p.utf8("Record");
			let a = attr(foo, &[]);
			let list: Vec<Vec<u8>> = vec![a; n];
			let code_sub = if level == 3 { list.clone() } else { vec![] };
			let mut mat = vec![attr(c, &code_body(1, 1, &nops(0), &[], &code_sub))];
			if level == 2 { mat.extend(list.iter().cloned()); }
			let m = member(0x0009, mn, md, &mat);
			let f = member(0x0002, fname, fdesc, &if level == 1 { list.clone() } else { vec![] });
			let mut cat: Vec<Vec<u8>> = if level == 0 { list.clone() } else { vec![] };
			if level == 4 { let mut b = vec![]; u16be(&mut b, 1); u16be(&mut b, fname); u16be(&mut b, fdesc); b.extend_from_slice(&attrs(&list)); cat.push(attr(rec, &b)); }
			out.push(cls(s, "exact-count", format!("{n} attributes (all present, empty) on the {}", ["class", "field", "method", "Code attribute", "record component"][level]), class_file(61, &p, 0x0031, this, sup, &[], &[f], &[m], &cat)));
		}
		// members and interfaces
		{
			let mut p = Pool::new();
			let this = p.class("T"); let sup = p.class("java/lang/Object"); let itf = p.class("I");
			let (mn, md) = (p.utf8("m"), p.utf8("()V")); let (fname, fdesc) = (p.utf8("f"), p.utf8("I"));
			let f = member(0x0002, fname, fdesc, &[]); let m = member(0x0401, mn, md, &[]);
			out.push(cls(s, "exact-count", format!("{n} fields"), class_file(61, &p, 0x0421, this, sup, &[], &vec![f.clone(); n], &[], &[])));
			out.push(cls(s, "exact-count", format!("{n} methods"), class_file(61, &p, 0x0421, this, sup, &[], &[], &vec![m.clone(); n], &[])));
			out.push(cls(s, "exact-count", format!("{n} interfaces"), class_file(61, &p, 0x0421, this, sup, &vec![itf; n], &[], &[], &[])));
		}
		// class-level tables
		{
			let mk = |an: &str, f: &dyn Fn(&mut Pool) -> Vec<u8>| -> Vec<u8> {
				let mut p = Pool::new();
				let this = p.class("T"); let sup = p.class("java/lang/Object");
				let name = p.utf8(an);
				let body = f(&mut p);
				class_file(61, &p, 0x0021, this, sup, &[], &[], &[], &[attr(name, &body)])
			};
			out.push(cls(s, "exact-count", format!("InnerClasses with {n} entries"), mk("InnerClasses", &|p| { let c = p.class("T$I"); let o = p.class("T"); let i = p.utf8("I"); let mut e = vec![]; u16be(&mut e, c); u16be(&mut e, o); u16be(&mut e, i); u16be(&mut e, 8); many(&e) })));
			out.push(cls(s, "exact-count", format!("NestMembers with {n} entries"), mk("NestMembers", &|p| { let c = p.class("T$I"); many(&c.to_be_bytes()) })));
			out.push(cls(s, "exact-count", format!("PermittedSubclasses with {n} entries"), mk("PermittedSubclasses", &|p| { let c = p.class("T$I"); many(&c.to_be_bytes()) })));
			out.push(cls(s, "exact-count", format!("Record with {n} components"), mk("Record", &|p| { let (a, b) = (p.utf8("x"), p.utf8("I")); let mut e = vec![]; u16be(&mut e, a); u16be(&mut e, b); u16be(&mut e, 0); many(&e) })));
			out.push(cls(s, "exact-count", format!("BootstrapMethods with {n} methods without arguments"), mk("BootstrapMethods", &|p| { let r = p.methodref("B", "bsm", "()V"); let h = p.handle(6, r); let mut e = vec![]; u16be(&mut e, h); u16be(&mut e, 0); many(&e) })));
			out.push(cls(s, "exact-count", format!("BootstrapMethods with one method of {n} arguments"), mk("BootstrapMethods", &|p| { let r = p.methodref("B", "bsm", "()V"); let h = p.handle(6, r); let k = p.int(7); let mut b = vec![]; u16be(&mut b, 1); u16be(&mut b, h); b.extend_from_slice(&many(&k.to_be_bytes())); b })));
			out.push(cls(s, "exact-count", format!("RuntimeVisibleAnnotations with {n} annotations"), mk("RuntimeVisibleAnnotations", &|p| { let ty = p.utf8("LA;"); let mut e = vec![]; u16be(&mut e, ty); u16be(&mut e, 0); many(&e) })));
			out.push(cls(s, "exact-count", format!("one annotation with {n} element value pairs"), mk("RuntimeInvisibleAnnotations", &|p| { let ty = p.utf8("LA;"); let (el, k) = (p.utf8("v"), p.int(1)); let mut e = vec![]; u16be(&mut e, el); e.push(b'I'); u16be(&mut e, k); let mut b = vec![]; u16be(&mut b, 1); u16be(&mut b, ty); b.extend_from_slice(&many(&e)); b })));
			out.push(cls(s, "exact-count", format!("one annotation whose element is an array of {n} values"), mk("RuntimeVisibleAnnotations", &|p| { let ty = p.utf8("LA;"); let (el, k) = (p.utf8("v"), p.int(1)); let mut e = vec![b'I']; u16be(&mut e, k); let mut b = vec![]; u16be(&mut b, 1); u16be(&mut b, ty); u16be(&mut b, 1); u16be(&mut b, el); b.push(b'['); b.extend_from_slice(&many(&e)); b })));
			out.push(cls(s, "exact-count", format!("RuntimeVisibleTypeAnnotations with {n} annotations"), mk("RuntimeVisibleTypeAnnotations", &|p| { let ty = p.utf8("LA;"); let mut e = vec![0x00, 0, 0]; u16be(&mut e, ty); u16be(&mut e, 0); many(&e) })));
			out.push(cls(s, "exact-count", format!("ModulePackages with {n} packages"), mk("ModulePackages", &|p| { let u = p.utf8("a/b"); let k = p.idx1(20, u); many(&k.to_be_bytes()) })));
			out.push(cls(s, "exact-count", format!("Module with {n} requires, exports, opens, uses and provides"), mk("Module", &|p| {
				let mu = p.utf8("m"); let mo = p.idx1(19, mu); let pu = p.utf8("a/b"); let pk = p.idx1(20, pu); let c = p.class("a/b/C");
				let mut b = vec![]; u16be(&mut b, mo); u16be(&mut b, 0); u16be(&mut b, 0);
				let mut req = vec![]; u16be(&mut req, mo); u16be(&mut req, 0); u16be(&mut req, 0); b.extend_from_slice(&many(&req));
				let mut exp = vec![]; u16be(&mut exp, pk); u16be(&mut exp, 0); u16be(&mut exp, 0); b.extend_from_slice(&many(&exp));
				b.extend_from_slice(&many(&exp));
				b.extend_from_slice(&many(&c.to_be_bytes()));
				let mut prov = vec![]; u16be(&mut prov, c); u16be(&mut prov, 1); u16be(&mut prov, c); b.extend_from_slice(&many(&prov));
				b
			})));
			if n <= 257 { out.push(cls(s, "exact-count", format!("a type annotation whose type path has {} entries", n.min(255)), mk("RuntimeVisibleTypeAnnotations", &|p| { let ty = p.utf8("LA;"); let mut b = vec![]; u16be(&mut b, 1); b.extend_from_slice(&[0x00, 0]); b.push(n.min(255) as u8); for _ in 0..n.min(255) { b.extend_from_slice(&[0, 0]); } u16be(&mut b, ty); u16be(&mut b, 0); b }))); }
		}
		// method-level and Code-level tables
		{
			let mk_m = |an: &str, f: &dyn Fn(&mut Pool) -> Vec<u8>| -> Vec<u8> {
				let mut p = Pool::new();
				let this = p.class("T"); let sup = p.class("java/lang/Object");
				let (mn, md) = (p.utf8("m"), p.utf8("()V"));
				let name = p.utf8(an);
				let body = f(&mut p);
				let m = member(0x0401, mn, md, &[attr(name, &body)]);
				class_file(61, &p, 0x0421, this, sup, &[], &[], &[m], &[])
			};
			out.push(cls(s, "exact-count", format!("Exceptions with {n} classes"), mk_m("Exceptions", &|p| { let c = p.class("E"); many(&c.to_be_bytes()) })));
			if n == 255 { out.push(cls(s, "exact-count", "MethodParameters with 255 parameters".into(), mk_m("MethodParameters", &|p| { let u = p.utf8("x"); let mut b = vec![255u8]; for _ in 0..255 { u16be(&mut b, u); u16be(&mut b, 0); } b }))); }
			let code_len = if n == 65535 { 65535 } else { n + 8 };
			let mk_c = |exc: usize, an: &str, f: &dyn Fn(&mut Pool) -> Vec<u8>| -> Vec<u8> {
				one_method_class(|p| { let name = p.utf8(an); let body = f(p); (nops(code_len - 1), vec![(0, 1, 0, 0); exc], vec![attr(name, &body)]) }, no_attrs)
			};
			out.push(cls(s, "exact-count", format!("exception table with {n} entries"), mk_c(n, "Foo", &|_| vec![])));
			out.push(cls(s, "exact-count", format!("LineNumberTable with {n} entries on one offset"), mk_c(0, "LineNumberTable", &|_| many(&[0, 0, 0, 1]))));
			out.push(cls(s, "exact-count", format!("LineNumberTable with {n} entries on {n} offsets"), mk_c(0, "LineNumberTable", &|_| { let mut b = vec![]; u16be(&mut b, n as u16); for i in 0..n { u16be(&mut b, (i % code_len) as u16); u16be(&mut b, 1); } b })));
			out.push(cls(s, "exact-count", format!("LocalVariableTable with {n} entries"), mk_c(0, "LocalVariableTable", &|p| { let (a, b) = (p.utf8("x"), p.utf8("I")); let mut e = vec![]; u16be(&mut e, 0); u16be(&mut e, 1); u16be(&mut e, a); u16be(&mut e, b); u16be(&mut e, 0); many(&e) })));
			out.push(cls(s, "exact-count", format!("LocalVariableTypeTable with {n} entries"), mk_c(0, "LocalVariableTypeTable", &|p| { let (a, b) = (p.utf8("x"), p.utf8("TT;")); let mut e = vec![]; u16be(&mut e, 0); u16be(&mut e, 1); u16be(&mut e, a); u16be(&mut e, b); u16be(&mut e, 0); many(&e) })));
			out.push(cls(s, "exact-count", format!("StackMapTable with {n} same frames on consecutive offsets"), mk_c(0, "StackMapTable", &|_| many(&[0]))));
			out.push(cls(s, "exact-count", format!("StackMapTable with one full frame of {n} locals and {n} stack items"), mk_c(0, "StackMapTable", &|_| { let mut b = vec![]; u16be(&mut b, 1); b.push(255); u16be(&mut b, 0); b.extend_from_slice(&many(&[1])); b.extend_from_slice(&many(&[1])); b })));
			out.push(cls(s, "exact-count", format!("StackMap (CLDC) with {n} frames"), mk_c(0, "StackMap", &|_| many(&[0, 0, 0, 0, 0, 0]))));
			out.push(cls(s, "exact-count", format!("Code type annotation with a local variable target of {n} ranges"), mk_c(0, "RuntimeVisibleTypeAnnotations", &|p| { let ty = p.utf8("LA;"); let mut b = vec![]; u16be(&mut b, 1); b.push(0x40); b.extend_from_slice(&many(&[0, 0, 0, 1, 0, 0])); b.push(0); u16be(&mut b, ty); u16be(&mut b, 0); b })));
		}
	}
}
