//! C16 — parsers fail with an error, never crash, on arbitrary input.
//!
//! Every parser of the property (class reader + class writer on what it accepts, tiny v2, tiny
//! diff, Enigma, nests, descriptors) is run on hostile input inside sandboxed child processes of
//! this binary (see sbx.rs); outcome ∈ {ok, err, panic, crash (signal), timeout} plus the peak
//! heap use measured by a counting allocator.  The numeric skeleton of a subset of the inputs is
//! also printed as Gallina cases for the model of coq/C16.
mod cf;
mod gen;
mod hostile;
mod sbx;
mod skim;

use fbh::gal::*;
use fbh::prng::Rng;
use fbh::report::{guarded, Report};
use fbh::Ctx;
use sbx::*;
use std::collections::BTreeMap;
use std::io::Cursor;
use std::panic::AssertUnwindSafe;
use std::path::Path;

#[global_allocator]
static ALLOC: Counting = Counting;

/// whole text files up to this size are also evaluated by the model of the whole parser
const TEXT_CASE_MAX_BYTES: usize = 4096;
/// class files up to this size are candidates for the whole-reader model (coq/C16/ModelClsRead.v): the cost of
/// a case is its literal (about 0.1 ms per byte in coqc), not the evaluation
const CLASS_CASE_MAX_BYTES: usize = 4096;
/// the auxiliary number of a class run: the low bits hold the largest bootstrap expansion, bit VISITOR_BIT0 + k tells
/// whether visitor k (order of `others` in run_one_) accepted the input
const VISITOR_BIT0: u32 = 41;
const AUX_COUNT_MASK: u64 = (1 << 40) - 1;
pub const K_MDESC: u8 = 6;
pub const K_RDESC: u8 = 7;

struct NsA;

fn res_of<T>(r: Result<anyhow::Result<T>, String>) -> (Res, Option<T>) {
	match r { Err(p) => (Res::Panic(p), None), Ok(Err(_)) => (Res::Err, None), Ok(Ok(v)) => (Res::Ok, Some(v)) }
}

/// the limit that duke/src/class_reader/pool.rs documents (MAX_BOOTSTRAP_ARGUMENTS_EXPANDED): bootstrap
/// arguments, counting the nested ones, that are resolved (and stored by value) for ONE instruction
pub const MAX_BOOTSTRAP_ARGUMENTS_EXPANDED: u64 = 1 << 16;
/// ... as the source under test states it (`const MAX_BOOTSTRAP_ARGUMENTS_EXPANDED: usize = 1 << 16;`), so that a
/// deliberate change of the documented limit is not reported as a violation of the property (the
/// model's `max_expanded` then disagrees in the correspondence instead); 65536 when it cannot be read
fn documented_expansion_limit() -> u64 {
	static L: std::sync::OnceLock<u64> = std::sync::OnceLock::new();
	*L.get_or_init(|| {
		let repo = std::env::var("VERIF_REPO").unwrap_or_else(|_| env!("FBH_REPO").to_string());
		let parse = |e: &str| -> Option<u64> {
			let num = |x: &str| -> Option<u64> { let x = x.trim().replace('_', ""); if let Some(h) = x.strip_prefix("0x") { u64::from_str_radix(h, 16).ok() } else { x.parse().ok() } };
			match e.split_once("<<") { Some((a, b)) => num(a)?.checked_shl(num(b)? as u32), None => num(e) }
		};
		std::fs::read_to_string(format!("{repo}/duke/src/class_reader/pool.rs")).ok()
			.and_then(|src| src.lines().find(|l| l.trim_start().starts_with("const MAX_BOOTSTRAP_ARGUMENTS_EXPANDED")).map(|l| l.to_string()))
			.and_then(|l| l.split_once('=').and_then(|(_, e)| parse(e.trim().trim_end_matches(';'))))
			.unwrap_or(MAX_BOOTSTRAP_ARGUMENTS_EXPANDED)
	})
}

/// number of `Loadable` values below `arguments`, counting nested ones (iterative: the tree may be deep)
fn count_loadables(arguments: &[duke::tree::method::code::Loadable]) -> u64 {
	use duke::tree::method::code::Loadable;
	let mut n = 0u64;
	let mut stack: Vec<&[Loadable]> = vec![arguments];
	while let Some(args) = stack.pop() {
		for a in args { n += 1; if let Loadable::Dynamic(d) = a { stack.push(&d.arguments); } }
	}
	n
}
/// the largest number of (nested) bootstrap arguments that one instruction of the class carries
fn max_bootstrap_expansion(class: &duke::tree::class::ClassFile) -> u64 {
	use duke::tree::method::code::{Instruction, Loadable};
	let mut max = 0u64;
	for m in &class.methods {
		let Some(code) = m.code.as_ref() else { continue; };
		for e in &code.instructions {
			let n = match &e.instruction {
				Instruction::Ldc(Loadable::Dynamic(d)) => count_loadables(&d.arguments),
				Instruction::InvokeDynamic(i) => count_loadables(&i.arguments),
				_ => 0,
			};
			max = max.max(n);
		}
	}
	max
}

/// what an accepted ClassFile shows of the numbers of the file (coq/C16/Run.v cskel): decoded class access, number of
/// interfaces, decoded InnerClasses flags, Module (decoded flags, number of requires / exports / opens), decoded
/// field accesses; per method decoded access, Code as (max_stack, max_locals, exception table length, line numbers),
/// the number of Exceptions entries and the decoded MethodParameters flags.  None: a Code without max_stack / max_locals
fn class_skeleton(c: &duke::tree::class::ClassFile) -> Option<String> {
	let n = |x: usize| format!("{x}");
	let mut methods = Vec::new();
	for m in &c.methods {
		let code = match &m.code {
			None => None,
			Some(code) => {
				let (ms, ml) = (code.max_stack?, code.max_locals?);
				let lines = gnums(code.line_numbers.iter().flatten().map(|(_, l)| *l as u64));
				Some(format!("({ms}, {ml}, {}, {lines})", code.exception_table.len()))
			}
		};
		let params = m.method_parameters.as_ref().map(|v| gnums(v.iter().map(|p| u16::from(p.flags) as u64)));
		methods.push(format!("(mkMS {} {} {} {})", u16::from(m.access), gopt(code), gopt(m.exceptions.as_ref().map(|v| n(v.len()))), gopt(params)));
	}
	let inner = c.inner_classes.as_ref().map(|v| gnums(v.iter().map(|i| u16::from(i.flags) as u64)));
	let module = c.module.as_ref().map(|m| format!("({}, {}, {}, {})", u16::from(m.flags), m.requires.len(), m.exports.len(), m.opens.len()));
	let fields = gnums(c.fields.iter().map(|f| u16::from(f.access) as u64));
	Some(format!("(mkSK {} {} {} {} {fields} {})", u16::from(c.access), c.interfaces.len(), gopt(inner), gopt(module), glist(methods)))
}
/// the bits each flags type of the tree keeps: u16::from(T::from(0xFFFF)) (coq/C16/Run.v masks)
fn flag_masks() -> String {
	use duke::tree::{class::{ClassAccess, InnerClassFlags}, field::FieldAccess, method::{MethodAccess, ParameterFlags}, module::ModuleFlags};
	format!("(mkMK {} {} {} {} {} {})", u16::from(ClassAccess::from(0xFFFFu16)), u16::from(InnerClassFlags::from(0xFFFFu16)), u16::from(ModuleFlags::from(0xFFFFu16)),
		u16::from(FieldAccess::from(0xFFFFu16)), u16::from(MethodAccess::from(0xFFFFu16)), u16::from(ParameterFlags::from(0xFFFFu16)))
}

/// one input through its parser, inside the child
fn run_one(kind: u8, bytes: &[u8], scratch: &Path) -> (Res, Option<Res>, u64) {
	let (a, b) = run_one_(kind, bytes, scratch);
	(a.0, a.1, b)
}
fn run_one_(kind: u8, bytes: &[u8], scratch: &Path) -> ((Res, Option<Res>), u64) {
	let mut aux = 0u64;
	let r = match kind {
		K_CLASS => {
			let (r, class) = res_of(guarded(|| duke::read_class(&mut Cursor::new(bytes))));
			// the same bytes through the reader's other paths: all interests without a tree, no
			// interests with every member declined, class declined; twice in a row on one cursor
			// (each answers whether its FIRST read on a fresh cursor was accepted: bits 41.. of the auxiliary number,
			// compared with the whole-reader model under the same visitor, coq/C16/Run.v CClassV)
			let others: [(&str, Result<bool, String>); 6] = [
				("read_class_multi with a visitor without interest in fields and methods that declines every record component", guarded(|| { let mut c = Cursor::new(bytes); match duke::read_class_multi(&mut c, skim::NoMembers(0)) { Ok(v) => { let _ = duke::read_class_multi(&mut c, v); true } Err(_) => false } })),
				("read_class_multi with a visitor that declines the code of every method", guarded(|| { let mut c = Cursor::new(bytes); match duke::read_class_multi(&mut c, skim::DeclineCode(0)) { Ok(v) => { let _ = duke::read_class_multi(&mut c, v); true } Err(_) => false } })),
				("read_class_multi with the () visitor", guarded(|| { duke::read_class_multi(&mut Cursor::new(bytes), ()).is_ok() })),
				("read_class_multi with a visitor without interests", guarded(|| { let mut c = Cursor::new(bytes); match duke::read_class_multi(&mut c, skim::Skim(0)) { Ok(v) => { let _ = duke::read_class_multi(&mut c, v); true } Err(_) => false } })),
				("read_class_multi with a visitor that declines the class", guarded(|| { let mut c = Cursor::new(bytes); match duke::read_class_multi(&mut c, skim::Decline(0)) { Ok(v) => { let _ = duke::read_class_multi(&mut c, v); true } Err(_) => false } })),
				("read_class_multi into Vec<ClassFile>, twice on one cursor", guarded(|| { let mut c = Cursor::new(bytes); match duke::read_class_multi(&mut c, Vec::new()) { Ok(v) => { let _ = duke::read_class_multi(&mut c, v); true } Err(_) => false } })),
			];
			let mut vbits = 0u64;
			for (k, (what, o)) in others.into_iter().enumerate() {
				match o { Err(p) => return ((Res::Panic(format!("{what}: {p}")), None), 0), Ok(ok) => vbits |= (ok as u64) << (VISITOR_BIT0 + k as u32) }
			}
			aux = vbits;
			let Some(class) = class else { return ((r, None), aux); };
			// the accepted tree must respect the documented bound on bootstrap arguments per instruction
			let expansion = max_bootstrap_expansion(&class);
			aux |= expansion.min(AUX_COUNT_MASK);
			let limit = documented_expansion_limit();
			if expansion > limit {
				return ((Res::Limit(format!("one instruction of the accepted class carries {expansion} bootstrap arguments (counting nested ones), the class reader documents a limit of {limit} per instruction (MAX_BOOTSTRAP_ARGUMENTS_EXPANDED)")), None), aux);
			}
			let (w, written) = res_of(guarded(AssertUnwindSafe(|| { let mut v = vec![]; duke::write_class(&mut v, &class).map(|_| v) })));
			let w = match (w, written) {
				(Res::Ok, Some(v)) => match guarded(|| duke::read_class(&mut Cursor::new(&v)).is_ok()) { Err(p) => Res::Panic(format!("re-reading the written class: {p}")), Ok(_) => Res::Ok },
				(w, _) => w,
			};
			(r, Some(w))
		}
		K_TINY => {
			let (a, _) = res_of(guarded(|| quill::tiny_v2::read::<2, NsA>(bytes)));
			let (b, _) = res_of(guarded(|| quill::tiny_v2::read::<3, NsA>(bytes)));
			let (c, _) = res_of(guarded(|| quill::tiny_v2::read::<1, NsA>(bytes)));
			// what the readers for one and for three namespaces answered, for the whole-file cases
			aux = 4 | (c == Res::Ok) as u64 | ((b == Res::Ok) as u64) << 1;
			if b.bad() { (b, None) } else if c.bad() { (c, None) } else { (a, None) }
		}
		K_DIFF => {
			if std::fs::write(scratch, bytes).is_err() { return ((Res::Crash("cannot write scratch file".into()), None), 0); }
			(res_of(guarded(|| quill::tiny_v2_diff::read_file(scratch))).0, None)
		}
		K_ENIGMA => {
			let r = guarded(|| -> anyhow::Result<()> {
				let mut m = quill::tree::mappings::Mappings::<2, NsA>::from_namespaces(["a", "b"])?;
				quill::enigma_file::read_into(bytes, &mut m)
			});
			(res_of(r).0, None)
		}
		K_NESTS => { let v = bytes.to_vec(); (res_of(guarded(AssertUnwindSafe(|| dukenest::nest::Nests::<NsA>::read(&v)))).0, None) }
		K_DESC | K_MDESC | K_RDESC => {
			use duke::tree::descriptor::ReturnDescriptorSlice;
			use duke::tree::field::FieldDescriptorSlice;
			use duke::tree::method::MethodDescriptorSlice;
			let js = match java_string::JavaString::from_modified_utf8(bytes.to_vec()) { Ok(s) => s, Err(_) => java_string::JavaString::from(String::from_utf8_lossy(bytes).into_owned()) };
			// what parses is also printed again (ParsedFieldDescriptor::write and friends contain assertions)
			let f = guarded(|| unsafe { FieldDescriptorSlice::from_inner_unchecked(&js) }.parse().map(|p| { let _ = p.write(); }));
			let m = guarded(|| unsafe { MethodDescriptorSlice::from_inner_unchecked(&js) }.parse().map(|p| { let _ = p.write(); }));
			let r = guarded(|| unsafe { ReturnDescriptorSlice::from_inner_unchecked(&js) }.parse().map(|p| { let _ = p.write(); }));
			let names = guarded(|| {
				use duke::tree::class::{ArrClassName, ClassName, ObjClassName};
				(ClassName::is_valid(&js), ArrClassName::is_valid(&js), ObjClassName::is_valid(&js), duke::tree::method::MethodName::is_valid(&js), duke::tree::field::FieldName::is_valid(&js))
			});
			for p in [&f, &m, &r] { if let Err(p) = p { return ((Res::Panic(p.clone()), None), 0); } }
			if let Err(p) = names { return ((Res::Panic(p), None), 0); }
			let own = match kind { K_DESC => f, K_MDESC => m, _ => r };
			(res_of(own).0, None)
		}
		_ => (Res::Err, None),
	};
	(r, aux)
}

// ---------------------------------------------------------------- bases
fn load_bases() -> Vec<(String, Vec<u8>)> {
	let mut v = vec![];
	for dir in ["/verif/corpus/C16/classes", "/verif/corpus/classes"] {
		let mut stack = vec![std::path::PathBuf::from(dir)];
		let mut found = vec![];
		while let Some(d) = stack.pop() {
			let Ok(rd) = std::fs::read_dir(&d) else { continue; };
			for e in rd.flatten() { let p = e.path(); if p.is_dir() { stack.push(p); } else if p.extension().map_or(false, |x| x == "class") { found.push(p); } }
		}
		found.sort();
		for p in found.into_iter().take(80) { if let Ok(b) = std::fs::read(&p) { if b.len() <= 64 << 10 { v.push((p.display().to_string(), b)); } } }
	}
	v
}
fn load_crashers() -> Vec<(String, u8, Vec<u8>)> {
	let mut v = vec![];
	let Ok(rd) = std::fs::read_dir("/verif/corpus/C16/crashers") else { return v; };
	let mut ps: Vec<_> = rd.flatten().map(|e| e.path()).collect();
	ps.sort();
	for p in ps {
		let name = p.file_name().map(|x| x.to_string_lossy().into_owned()).unwrap_or_default();
		let kind = match p.extension().and_then(|x| x.to_str()) { Some("class") => K_CLASS, Some("tiny") => K_TINY, Some("tinydiff") => K_DIFF, Some("mapping") => K_ENIGMA, Some("nest") => K_NESTS, Some("desc") => K_DESC, _ => continue };
		if let Ok(b) = std::fs::read(&p) { v.push((name, kind, b)); }
	}
	v
}

// ---------------------------------------------------------------- correspondence streams
fn case_inputs(rng: &mut Rng, thorough: bool, out: &mut Vec<Input>) {
	let scale = if thorough { 4 } else { 1 };
	let mk = |stream: &'static str, case: String, label: String, bytes: Vec<u8>| Input { kind: K_CLASS, form: Form::Raw(bytes), stream, label, shape: "", case: Some(case) };
	// local variable ranges
	let mut ranges: Vec<(usize, u32, u32)> = vec![];
	for cl in [1usize, 2, 8, 300, 65535] {
		let l = cl as u32;
		for st in [0, 1, l.saturating_sub(1), l, l + 1, 32768, 65534, 65535] { for ln in [0, 1, 2, l.saturating_sub(1), l, l + 1, 32767, 32768, 65534, 65535] {
			if st <= 65535 && ln <= 65535 { ranges.push((cl, st, ln)); }
		} }
	}
	for _ in 0..150 * scale { let cl = *rng.pick(&[1usize, 5, 8, 100, 4000, 65535]); ranges.push((cl, rng.below(65536) as u32, rng.below(65536) as u32)); }
	for _ in 0..150 * scale { let cl = rng.range(1, 40); ranges.push((cl, rng.below(cl + 3) as u32, rng.below(cl + 3) as u32)); }
	ranges.sort(); ranges.dedup();
	for (cl, st, ln) in ranges {
		let an = if (st + ln) % 2 == 0 { "LocalVariableTable" } else { "LocalVariableTypeTable" };
		out.push(mk("case-range", format!("CRange {cl} {st} {ln}"), format!("{an}: code_length {cl}, start_pc {st}, length {ln}"), gen::lvt_class(an, cl, st as u16, ln as u16)));
	}
	// stack map offset accumulation
	let mut frames: Vec<(usize, Vec<u16>)> = vec![];
	for cl in [1usize, 8, 65535] {
		for d in [vec![], vec![0u16], vec![7], vec![8], vec![65535], vec![0, 65535], vec![65534, 0], vec![65534, 1], vec![65535, 0], vec![3, 3], vec![3, 4], vec![32767, 32767], vec![32767, 32768], vec![32768, 32767], vec![0, 0, 0, 0, 0, 0, 0, 0], vec![0, 0, 0, 0, 0, 0, 0, 0, 0], vec![65533, 0, 0], vec![21845, 21844, 21844]] { frames.push((cl, d)); }
	}
	for _ in 0..120 * scale {
		let cl = *rng.pick(&[4usize, 8, 60, 65535]);
		let n = rng.range(1, 6);
		let d: Vec<u16> = (0..n).map(|_| match rng.below(4) { 0 => rng.below(4) as u16, 1 => rng.below(cl + 1) as u16, 2 => 65535 - rng.below(3) as u16, _ => rng.below(65536) as u16 }).collect();
		frames.push((cl, d));
	}
	for (cl, d) in frames {
		out.push(mk("case-frames", format!("CFrames {cl} {}", gnums(d.iter().map(|&x| x as u64))), format!("StackMapTable: code_length {cl}, same_frame_extended deltas {d:?}"), gen::stackmap_class(cl, &d)));
	}
	// bytecode scan: pool-free instruction soup, truncated / edited
	let plain: Vec<u8> = (0x00..=0x0f).chain(0x1a..=0x35).chain(0x3b..=0x83).chain(0x85..=0x98).chain(0xac..=0xb1).chain([0xbe, 0xbf, 0xc2, 0xc3]).collect();
	let mut codes: Vec<Vec<u8>> = vec![];
	for op in 0..=255u8 { for have in 0..=4usize { let mut c = vec![0u8, op]; c.extend(std::iter::repeat(0).take(have)); codes.push(c); } }
	for (lo, hi, n) in [(i32::MIN, i32::MAX, 0usize), (0, i32::MAX, 1), (i32::MIN, -1, 1), (-1, i32::MAX - 1, 2), (0, 0, 1), (0, 1, 2), (0, 1, 1), (5, 4, 0), (0, 2, 3), (-1, 1, 3)] {
		let mut c = gen::tableswitch_code(0, lo, hi, &vec![0; n]); c.push(0xb1); codes.push(c.clone());
		let mut c2 = vec![0u8]; c2.extend_from_slice(&c[..1]); c2.extend_from_slice(&[0, 0]); c2.extend_from_slice(&c[4..]); codes.push(c2); // other alignment
	}
	for (np, present) in [(-1, 0usize), (0, 0), (1, 1), (2, 1), (i32::MAX, 1), (i32::MIN, 0), (3, 3)] { let mut c = gen::lookupswitch_code(0, np, &vec![(1, 0); present]); c.push(0xb1); codes.push(c); }
	for _ in 0..700 * scale {
		let mut c: Vec<u8> = vec![];
		let n = rng.range(1, 10);
		for _ in 0..n {
			match rng.below(16) {
				0 => { c.push(0x10); c.push(rng.below(256) as u8); }
				1 => { c.push(0x11); c.push(rng.below(256) as u8); c.push(rng.below(256) as u8); }
				2 => { c.push(*rng.pick(&[0x15u8, 0x16, 0x17, 0x18, 0x19, 0x36, 0x37, 0x38, 0x39, 0x3a, 0xa9])); c.push(rng.below(256) as u8); }
				3 => { c.push(0x84); c.push(rng.below(256) as u8); c.push(rng.below(256) as u8); }
				4 => { c.push(0xbc); c.push(*rng.pick(&[3u8, 4, 5, 8, 10, 11, 12, 0])); }
				5 => { c.push(0xc4); let w = *rng.pick(&[0x15u8, 0x19, 0x36, 0x3a, 0xa9, 0x84, 0x84, 0x00, 0xc4]); c.push(w); c.push(0); c.push(rng.below(256) as u8); if w == 0x84 { c.push(0); c.push(1); } }
				6 | 7 => { c.push(*rng.pick(&[0x99u8, 0x9f, 0xa6, 0xa7, 0xa8, 0xc6, 0xc7])); let off = rng.below(40) as i16 - 12; c.extend_from_slice(&off.to_be_bytes()); }
				8 => { c.push(*rng.pick(&[0xc8u8, 0xc9])); let off: i32 = match rng.below(6) { 0 => i32::MAX, 1 => i32::MIN, 2 => 65535, 3 => -1, _ => rng.below(40) as i32 - 12 }; c.extend_from_slice(&off.to_be_bytes()); }
				9 => {
					c.push(0xaa); while c.len() % 4 != 0 { c.push(0); }
					let lo: i32 = match rng.below(5) { 0 => i32::MIN, 1 => -1, 2 => i32::MAX - 1, _ => rng.below(5) as i32 - 2 };
					let cnt = rng.below(4) as i32;
					let hi: i32 = match rng.below(6) { 0 => i32::MAX, 1 => lo.wrapping_sub(1), _ => lo.saturating_add(cnt) };
					c.extend_from_slice(&(rng.below(12) as i32 - 2).to_be_bytes()); c.extend_from_slice(&lo.to_be_bytes()); c.extend_from_slice(&hi.to_be_bytes());
					for _ in 0..(cnt + 1 - rng.below(2) as i32).max(0) { c.extend_from_slice(&(rng.below(12) as i32 - 2).to_be_bytes()); }
				}
				10 => {
					c.push(0xab); while c.len() % 4 != 0 { c.push(0); }
					let np: i32 = match rng.below(6) { 0 => -1, 1 => i32::MAX, _ => rng.below(3) as i32 };
					c.extend_from_slice(&(rng.below(12) as i32 - 2).to_be_bytes()); c.extend_from_slice(&np.to_be_bytes());
					for k in 0..(np.clamp(0, 3) - rng.below(2) as i32).max(0) { c.extend_from_slice(&k.to_be_bytes()); c.extend_from_slice(&(rng.below(12) as i32 - 2).to_be_bytes()); }
				}
				11 => { c.push(rng.below(256) as u8); } // anything, including pool opcodes and undefined ones
				_ => c.push(*rng.pick(&plain)),
			}
		}
		match rng.below(5) { 0 if c.len() > 1 => { let t = rng.range(1, c.len() - 1); c.truncate(t); } 1 => { let i = rng.below(c.len()); c[i] = rng.below(256) as u8; } _ => {} }
		if c.len() > 120 { c.truncate(120); }
		codes.push(c);
	}
	for c in codes {
		if c.is_empty() { continue; }
		out.push(mk("case-scan", format!("CScan {}", gnums(c.iter().map(|&x| x as u64))), format!("Code attribute with code bytes {c:02x?}"), gen::code_class(&c)));
	}
	// bootstrap argument graphs
	let mut graphs: Vec<(Vec<Vec<usize>>, usize)> = vec![(vec![vec![0]], 0), (vec![vec![1], vec![0]], 0), (vec![vec![9], vec![0]], 1), (vec![vec![9, 9]], 0), (vec![vec![1, 1], vec![2, 2], vec![9]], 0), (vec![vec![]], 0)];
	for _ in 0..80 * scale {
		let n = rng.range(1, 6);
		let acyclic = rng.chance(1, 2);
		let g: Vec<Vec<usize>> = (0..n).map(|i| (0..rng.below(3)).map(|_| if rng.chance(1, 3) { 99 } else if acyclic { if i + 1 < n { rng.range(i + 1, n - 1) } else { 99 } } else { rng.below(n) }).collect()).collect();
		graphs.push((g, rng.below(n)));
	}
	for depth in [30usize, 64, 65, 66, 100, 255, 256, 257, 400] { graphs.push(((0..depth).map(|i| if i + 1 < depth { vec![i + 1] } else { vec![999] }).collect(), 0)); }
	for (g, root) in graphs {
		let n = g.len();
		let args: Vec<Vec<usize>> = g.iter().map(|a| a.iter().map(|&x| if x >= n { usize::MAX } else { x }).collect()).collect();
		for indy in [false, true] {
			let gtxt = glist(g.iter().map(|a| gnums(a.iter().map(|&x| if x >= n { n as u64 } else { x as u64 }))));
			out.push(mk("case-bootstrap", format!("CBoot {gtxt} {root} {}", gbool(indy)), format!("bootstrap argument graph {g:?} (index >= {n} = integer leaf), root {root}, through invokedynamic: {indy}"), gen::bootstrap_class(&args, root, indy)));
		}
	}
	// one instruction, several top-level bootstrap arguments: the budget of 65536 expanded arguments is
	// per instruction (shared DAGs of exact sizes; sums at 65535 / 65536 / 65537; every argument far
	// below the budget but the sum above it), through invokedynamic and through ldc of a dynamic constant
	let mut multi: Vec<(Vec<usize>, bool)> = vec![];
	for indy in [true, false] {
		for k in [1usize, 2, 3, 4, 8, 255] {
			for total in [65535usize, 65536, 65537] { multi.push((gen::split_parts(total, k), indy)); }
			if k >= 2 {
				multi.push((vec![65535; k], indy));                      // every argument just under the budget
				multi.push((vec![65536 / k + 1; k], indy));              // every argument far below, the sum just above
				multi.push((vec![65536 / k; k], indy));                  // ... and at / just below
			}
		}
		for parts in [vec![32767usize, 32767], vec![32767, 32767, 32767], vec![32767, 32767, 2], vec![32767, 32767, 3], vec![511; 255], vec![65535, 1], vec![65535, 1, 1], vec![1, 65535], vec![1, 1, 65535], vec![65536, 1], vec![1, 65536],
			vec![40000, 30000], vec![60000, 5536], vec![60000, 5537], vec![1; 255], vec![1, 2, 3, 4, 5], vec![65536], vec![65537], vec![131071], vec![70000, 70000]] { multi.push((parts, indy)); }
		for _ in 0..12 * scale {
			let k = rng.range(2, 6);
			let total = 65536 + rng.below(5) - 2;
			let mut parts: Vec<usize> = (0..k - 1).map(|_| rng.range(1, total / k + total / (2 * k))).collect();
			let used: usize = parts.iter().sum();
			parts.push(total.saturating_sub(used).max(1));
			multi.push((parts, indy));
		}
	}
	for (parts, indy) in multi {
		let (g, roots) = gen::multi_root_graph(&parts, indy);
		let n = g.len();
		let gtxt = glist(g.iter().map(|a| gnums(a.iter().map(|&x| if x >= n { n as u64 } else { x as u64 }))));
		let total: usize = parts.iter().sum();
		let summary = if parts.len() > 8 { format!("{} arguments, sizes {:?}..", parts.len(), &parts[..4]) } else { format!("sizes {parts:?}") };
		out.push(Input { kind: K_CLASS, form: Form::Raw(gen::bootstrap_class_roots(&g, &roots, indy)), stream: "case-bootstrap-multi", shape: "bootstrap-multi-argument",
			label: format!("one {} whose top-level bootstrap arguments are dynamic constants over shared DAGs expanding to {summary} constants, {total} in total (limit 65536 per instruction)", if indy { "invokedynamic" } else { "ldc_w of a dynamic constant" }),
			case: Some(format!("CBootN {gtxt} {} {}", gnums(roots.iter().map(|&x| x as u64)), gbool(indy))) });
	}
	// random graphs with several roots under one invokedynamic
	for _ in 0..60 * scale {
		let n = rng.range(1, 6);
		let acyclic = rng.chance(2, 3);
		let g: Vec<Vec<usize>> = (0..n).map(|i| (0..rng.below(4)).map(|_| if rng.chance(1, 3) { usize::MAX } else if acyclic { if i + 1 < n { rng.range(i + 1, n - 1) } else { usize::MAX } } else { rng.below(n) }).collect()).collect();
		let roots: Vec<usize> = (0..rng.range(0, 4)).map(|_| if rng.chance(1, 5) { usize::MAX } else { rng.below(n) }).collect();
		let gtxt = glist(g.iter().map(|a| gnums(a.iter().map(|&x| if x >= n { n as u64 } else { x as u64 }))));
		out.push(Input { kind: K_CLASS, form: Form::Raw(gen::bootstrap_class_roots(&g, &roots, true)), stream: "case-bootstrap-multi", shape: "bootstrap-multi-argument",
			label: format!("invokedynamic with the bootstrap arguments {roots:?} over the graph {g:?} (usize::MAX = integer leaf)"),
			case: Some(format!("CBootN {gtxt} {} true", gnums(roots.iter().map(|&x| if x >= n { n as u64 } else { x as u64 })))) });
	}
	// invokeinterface: the writer recomputes the count operand (u8) from the method descriptor
	for (what, d) in gen::argument_size_descriptors() {
		let text = String::from_utf8_lossy(&d).into_owned();
		out.push(Input { kind: K_CLASS, form: Form::Raw(gen::invokeinterface_class(&d)), stream: "case-arguments-size", shape: "invokeinterface-arguments-size",
			label: format!("invokeinterface with a descriptor of {what} ({} bytes), read then written", d.len()), case: Some(format!("CArgSize {}", gstr(&cps_str(&text)))) });
	}
	// unknown attribute: declared length vs bytes present
	for (declared, actual) in [(0u32, 0usize), (0, 5), (5, 5), (6, 5), (4, 5), (0xFFFF_FFFF, 5), (0x7FFF_FFFF, 0), (0x8000_0000, 5), (0x1000_0000, 16), (0x0800_0000, 1), (65536, 65536), (65537, 65536), (100, 70000)] {
		for (an, tag) in [("Foo", 0u64), ("SourceDebugExtension", 1)] {
			out.push(mk("case-attrlen", format!("CAttrLen {tag} {declared} {actual}"), format!("class attribute {an}: attribute_length {declared}, {actual} bytes present (end of file)"), gen::attr_length_class(0, an, declared, actual)));
		}
	}
	// known finding F17: instructions x shared bootstrap arguments (cases away from the heap bound)
	for (k, a) in [(1usize, 1usize), (10, 10), (100, 100), (250, 250), (1000, 1000), (13000, 2), (13000, 100), (20, 60000), (2000, 2000), (150, 65535)] {
		let b = gen::shared_bootstrap_class(k, a, 0);
		out.push(Input { kind: K_CLASS, form: Form::Raw(b.clone()), stream: "case-shared-arguments", label: format!("{k} invokedynamic instructions sharing one bootstrap method with {a} Integer arguments"), shape: "shared-bootstrap-arguments", case: Some(format!("CShared {k} {a} {}", b.len())) });
	}
	// nesting limits
	for depth in [0usize, 1, 2, 3, 10, 63, 64, 65, 66, 67, 100, 126, 127, 128, 129, 130, 131, 1000] {
		if depth > 0 {
			// the same four nesting patterns as the value of an AnnotationDefault (entry through read_element_value_unnamed)
			for mode in 0..4u8 {
				out.push(mk("case-nesting", format!("CNest {} {depth}", 5 + mode), format!("AnnotationDefault: element value nested {depth} deep, pattern {mode} (0 arrays, 1 annotations, 2 alternating array first, 3 alternating annotation first)"), gen::annotation_default_class(depth, mode)));
			}
			out.push(mk("case-nesting", format!("CNest 0 {depth}"), format!("RuntimeVisibleAnnotations: arrays nested {depth} deep"), gen::deep_annotation_class("RuntimeVisibleAnnotations", depth, false)));
			out.push(mk("case-nesting", format!("CNest 1 {depth}"), format!("RuntimeInvisibleAnnotations: annotations nested {depth} deep"), gen::deep_annotation_class("RuntimeInvisibleAnnotations", depth, true)));
			out.push(mk("case-nesting", format!("CNest 3 {depth}"), format!("RuntimeVisibleAnnotations: arrays and annotations alternating, nested {depth} deep, array outermost"), gen::deep_annotation_class_mode("RuntimeVisibleAnnotations", depth, 2)));
			out.push(mk("case-nesting", format!("CNest 4 {depth}"), format!("RuntimeInvisibleAnnotations: annotations and arrays alternating, nested {depth} deep, annotation outermost"), gen::deep_annotation_class_mode("RuntimeInvisibleAnnotations", depth, 3)));
		}
		let mut v = vec![];
		for d in 0..depth { v.extend(std::iter::repeat(b'\t').take(d)); v.extend_from_slice(b"CLASS A B\n"); }
		out.push(Input { kind: K_ENIGMA, form: Form::Raw(v), stream: "case-nesting", label: format!("Enigma: CLASS sections nested {depth} deep"), shape: "", case: Some(format!("CNest 2 {depth}")) });
	}
	// text line slicing (through the tiny v2 reader, header + one line)
	let mut lines: Vec<Vec<u8>> = vec![vec![], b"\t".to_vec(), b"\t\t\t".to_vec(), "\té".as_bytes().to_vec(), "é".as_bytes().to_vec(), "\t\t😀\tx".as_bytes().to_vec(), vec![b'\t', 0xA9], vec![0xC3], vec![b'\t', 0xC3, 0xA9, b'\t'], vec![0xFF], b"c\tA\tB".to_vec(), b"\tc\tdoc".to_vec(), vec![b'\t', 0xE2, 0x82, 0xAC], vec![b'\t', 0xE2, 0x82], vec![b'\t', 0xF0, 0x9F, 0x98, 0x80], vec![0xED, 0xA0, 0x80]];
	for _ in 0..150 * scale {
		let mut l = vec![b'\t'; rng.below(4)];
		for _ in 0..rng.below(5) { match rng.below(8) { 0 => l.push(rng.range(0x80, 0xFF) as u8), 1 => l.extend_from_slice("é".as_bytes()), 2 => l.extend_from_slice("€".as_bytes()), 3 => l.extend_from_slice("😀".as_bytes()), 4 => l.push(b'\t'), _ => l.push(rng.range(0x20, 0x7E) as u8) } }
		lines.push(l);
	}
	for l in lines {
		if l.contains(&b'\n') || l.contains(&b'\r') { continue; }
		let mut t = b"tiny\t2\t0\ta\tb\n".to_vec(); t.extend_from_slice(&l); t.push(b'\n');
		out.push(Input { kind: K_TINY, form: Form::Raw(t), stream: "case-line", label: format!("tiny v2 header followed by the line {l:02x?}"), shape: "", case: Some(format!("CLine {}", gnums(l.iter().map(|&x| x as u64)))) });
	}
	// descriptors (exact Ok/Err against the C18 model)
	let alpha = cps_str("BCDFIJSZLV[();/.a$<>");
	let mut descs: Vec<Vec<u32>> = vec![vec![], cps_str("I"), cps_str("[[Ljava/lang/Object;"), cps_str("(I[J)V"), cps_str("L;"), cps_str("La//b;"), cps_str("()"), cps_str("(V)V"), cps_str("Lé;"), [vec!['[' as u32; 255], cps_str("I")].concat(), [vec!['[' as u32; 256], cps_str("I")].concat(),
		cps_str("C"), cps_str("D"), cps_str("F"), cps_str("J"), cps_str("S"), cps_str("Z"), cps_str("B"), cps_str("[C"), cps_str("[D"), cps_str("[F"), cps_str("[J"), cps_str("[S"), cps_str("[Z"), cps_str("[B"), cps_str("[[La/B;"),
		cps_str("(CDFJSZB)V"), cps_str("([C[D[F[J[S[Z[B)[J"), cps_str("()C"), cps_str("()[S"), cps_str("(J"), cps_str("(JD)"), cps_str("V"), cps_str("[V"), cps_str("(V)I")];
	for _ in 0..200 * scale { let n = rng.below(8); descs.push((0..n).map(|_| *rng.pick(&alpha)).collect()); }
	for d in descs {
		let s: String = d.iter().filter_map(|&c| char::from_u32(c)).collect();
		for (kind, k) in [(K_DESC, 0u64), (K_MDESC, 1), (K_RDESC, 2)] {
			out.push(Input { kind, form: Form::Raw(s.as_bytes().to_vec()), stream: "case-descriptor", label: format!("descriptor {s:?}"), shape: "", case: Some(format!("CDesc {k} {}", gstr(&d))) });
		}
	}
}

/// comment cells through the real tiny v2 reader (in this process, panics caught): what `unescape`
/// made of them, for the model's unescape on code points.  Cells without TAB / CR / LF (those
/// change the line structure; they are run in the sandbox streams only).
fn unescape_cases(r: &mut Report) {
	let mut cells = gen::escape_exhaustive();
	cells.extend(gen::backslash_cells());
	for a in ["r", "t", "\\"] { for b in ["\\", "r", "t", "n", "é"] { cells.push(format!("{a}{b}")); cells.push(format!("\\{a}{b}")); cells.push(format!("\\\\{a}{b}x")); } }
	cells.sort(); cells.dedup();
	for c in cells {
		if c.contains(['\t', '\n', '\r']) { continue; }
		let text = format!("tiny\t2\t0\ta\tb\nc\tA\tB\n\tc\t{c}\n");
		fbh::report::crumb(&format!("property C16\nparser: tiny-v2 (in the harness process)\ninput: class comment cell {c:?}\ninput text:\n{text}"));
		let got = guarded(|| quill::tiny_v2::read::<2, NsA>(text.as_bytes()).map(|m| m.classes.values().next().and_then(|c| c.javadoc.as_ref().map(|j| j.0.clone()))));
		r.eval(&format!("unescape:{c}"), true);
		if let Err(p) = &got { r.violation(format!("tiny-v2 parser: panic: {p} — class comment cell {c:?}"), format!("property C16\nparser: tiny-v2\nfailure: tiny-v2 parser: panic\ndetail: {p}\ninput: class comment cell {c:?}\ninput text:\n{text}")); }
		let (tok, s) = match got { Err(_) => ("RPanic", String::new()), Ok(Err(_)) | Ok(Ok(None)) => ("RErr", String::new()), Ok(Ok(Some(s))) => ("ROk", s) };
		r.case("case-unescape", format!("CUnesc {} {tok} {}", gnums(c.bytes().map(|x| x as u64)), gnums(s.bytes().map(|x| x as u64))));
	}
}

// ---------------------------------------------------------------- verdicts
/// heap that an input may legitimately need: a constant plus a multiple of its size
fn mem_bound(len: usize) -> u64 { (32u64 << 20) + 512 * len as u64 }

fn hex_dump(b: &[u8]) -> String {
	let mut s = String::new();
	for (i, chunk) in b.chunks(32).enumerate() { s.push_str(&format!("{:06x}  ", i * 32)); for x in chunk { s.push_str(&format!("{x:02x}")); } s.push('\n'); }
	s
}

/// known findings: (id + text) for an input shape and failure kind, as narrow as the defect
fn known_class(inp: &Input, bytes: &[u8], failure: &str) -> Option<&'static str> {
	// F17: bootstrap arguments are stored by value in every ldc / invokedynamic instruction of the
	// tree, so K instructions that share A (expanded) arguments cost K*A `Loadable`s.  Only a memory
	// failure (heap bound, failed allocation, or the resulting timeout) of the class reader on an
	// input whose expansion alone explains it (256 bytes per Loadable) is in the class.
	let memory_failure = failure.contains("allocation") || failure.contains("timeout");
	if inp.kind == K_CLASS && memory_failure && failure.starts_with("class parser") {
		if let Some(e) = cf::bootstrap_expansion(bytes) { if e.saturating_mul(256) > mem_bound(bytes.len()) { return Some("F17 bootstrap arguments stored by value per instruction (instructions x shared arguments)"); } }
		// F17s (found in round 6, listed in known_findings.json): the same by-value design for pool strings — every reference to a Class entry gets its own
		// copy of the name, so K interfaces that name one class with an L-byte name cost K*L bytes for a file of
		// about 2K + L bytes.  Only the one generated shape, and only when the copies alone exceed the bound.
		if inp.shape == "shared-pool-string" { if let Some(e) = interface_name_bytes(bytes) { if e > mem_bound(bytes.len()) { return Some("F17s pool strings copied by value per reference (references x string length)"); } } }
	}
	None
}

/// sum over the interfaces of a class file of the byte length of the named class's Utf8 (a walker of its own:
/// pool entry sizes from the JVMS tags); None when the bytes are not of that shape
fn interface_name_bytes(b: &[u8]) -> Option<u64> {
	let u2 = |p: usize| -> Option<usize> { Some(((*b.get(p)? as usize) << 8) | *b.get(p + 1)? as usize) };
	let count = u2(8)?;
	let mut p = 10usize;
	let mut utf8_len: Vec<usize> = vec![0; count.max(1)];
	let mut class_name: Vec<usize> = vec![0; count.max(1)];
	let mut i = 1usize;
	while i < count {
		let tag = *b.get(p)?;
		match tag {
			1 => { let l = u2(p + 1)?; utf8_len[i] = l; p += 3 + l; }
			7 => { class_name[i] = u2(p + 1)?; p += 3; }
			8 | 16 | 19 | 20 => p += 3,
			15 => p += 4,
			3 | 4 | 9 | 10 | 11 | 12 | 17 | 18 => p += 5,
			5 | 6 => { p += 9; i += 1; }
			_ => return None,
		}
		i += 1;
	}
	let n = u2(p + 6)?;
	let mut total = 0u64;
	for k in 0..n { let c = u2(p + 8 + 2 * k)?; total += *utf8_len.get(*class_name.get(c)?)? as u64; }
	Some(total)
}

/// K interfaces that all name one class whose name has L bytes (candidate finding F17s)
fn shared_string_inputs(out: &mut Vec<Input>) {
	for (k, l) in [(10usize, 100usize), (3000, 30000)] {
		let mut p = cf::Pool::new();
		let this = p.class("T"); let sup = p.class("java/lang/Object");
		let itf = p.class(&"a".repeat(l));
		out.push(Input { kind: K_CLASS, form: Form::Raw(cf::class_file(61, &p, 0x0421, this, sup, &vec![itf; k], &[], &[], &[])), stream: "class-shared-string", shape: "shared-pool-string",
			label: format!("{k} interfaces that all name one class whose name has {l} bytes"), case: None });
	}
}

pub fn run(ctx: &Ctx) -> anyhow::Result<Report> {
	let mut r = Report::new("C16", "C16.Run");
	let mut rng = Rng::new(ctx.seed);
	let mut bases_named = load_bases();
	bases_named.extend(gen::assembled_bases());
	// hostile strings: compact valid classes whose Utf8 constants carry unpaired surrogates, NUL, long runs
	// of structural characters ... are bases as well, so every mutation below is crossed with them
	let first_hostile = bases_named.len();
	let compact: Vec<(String, Vec<u8>)> = {
		let wanted = ["mod_module-info.class", "r17_Seal.class", "r17_Anno.class", "r17_Rec.class", "p17_AbsE.class", "r17_Inv.class", "r17_Big_In_Deep.class", "r8_Old.class", "simple_expected.class"];
		let mut v: Vec<(String, Vec<u8>)> = bases_named.iter().filter(|(n, _)| wanted.iter().any(|w| n.ends_with(&format!("/{w}")))).map(|(n, b)| (n.rsplit('/').next().unwrap_or(n).to_string(), b.clone())).collect();
		for (n, b) in gen::assembled_bases().into_iter().take(3) { v.push((n, b)); }
		v
	};
	for (n, b) in &compact { bases_named.extend(hostile::variants(n, b)); }
	for (n, b) in compact.iter().filter(|(n, _)| n == "r17_Anno.class" || n.starts_with("assembled: all instruction forms")) { bases_named.extend(hostile::giant_context_variants(n, b)); }
	r.count_n("hostile_string_bases", (bases_named.len() - first_hostile) as u64);
	let bases: Vec<Vec<u8>> = bases_named.iter().map(|x| x.1.clone()).collect();
	let mut inputs: Vec<Input> = vec![];

	// regression inputs (minimised crashers found earlier) always run first
	for (name, kind, b) in load_crashers() { inputs.push(Input { kind, form: Form::Raw(b), stream: "regression", label: format!("corpus/C16/crashers/{name}"), shape: "", case: None }); }
	for (i, (name, _)) in bases_named.iter().enumerate() {
		inputs.push(Input { kind: K_CLASS, form: Form::Derived { base: i as u32, trunc: None, edits: vec![] }, stream: if i < first_hostile { "class-valid" } else { "class-hostile-base" }, label: format!("unmodified {name}"), shape: "", case: None });
	}
	let mut sites_total = 0usize;
	for (i, b) in bases.iter().enumerate() {
		// work per base is bounded in bytes parsed (a 60 KB class costs ~30 ms per input)
		let by_bytes = |mb: usize| ((mb << 20) / b.len().max(1)).max(50);
		let hostile = i >= first_hostile;
		let budget = if ctx.thorough { by_bytes(100).min(if hostile { 4000 } else { usize::MAX }) } else { by_bytes(24).min(if hostile { 450 } else if b.len() > 4096 { 6000 } else { 4000 }) };
		sites_total += gen::field_mutations(i as u32, b, &mut rng, budget, &mut inputs);
		let step = if hostile && !ctx.thorough { (b.len() / 150).max(1) } else if b.len() <= 4096 { 1 } else if ctx.thorough { (b.len() / 2000).max(1) } else { (b.len() / 600).max(7) };
		gen::truncations(i as u32, b, step, &mut inputs);
		gen::random_edits(i as u32, b, &mut rng, if ctx.thorough { by_bytes(30).min(3000) } else { by_bytes(6).min(if hostile { 60 } else { 400 }) }, &mut inputs);
	}
	r.count_n("structural_sites_times_values_available", sites_total as u64);
	for (n, b) in compact.iter().filter(|(n, _)| n == "r17_Anno.class" || n == "r17_Rec.class" || n.starts_with("assembled: all instruction forms") || n.starts_with("assembled: nested dynamic constants (invokedynamic)")) {
		hostile::one_at_a_time(n, b, if ctx.thorough { 1000 } else { 24 }, &mut rng, &mut inputs);
	}
	hostile::structural_runs(&mut inputs);
	hostile::descriptor_hostile_cells(&mut inputs);
	hostile::mutf8_exhaustive(&mut inputs);
	hostile::element_value_integers(&mut inputs);
	hostile::text_structural_runs(&mut inputs);
	gen::targeted(ctx.thorough, &mut inputs);
	gen::exact_counts(&mut inputs);
	gen::texts(&mut rng, ctx.thorough, &mut inputs);
	shared_string_inputs(&mut inputs);
	case_inputs(&mut rng, ctx.thorough, &mut inputs);

	let dir = ctx.out.join("sbx");
	let jobs = std::env::var("VERIF_JOBS").ok().and_then(|x| x.parse().ok()).unwrap_or(14usize);
	let outs = run_all(&dir, &bases, &inputs, jobs);
	let _ = std::fs::remove_dir_all(&dir);
	anyhow::ensure!(outs.len() == inputs.len(), "sandbox returned {} outcomes for {} inputs", outs.len(), inputs.len());

	r.rule = format!("every input runs in a child process of the harness under ulimit (address space {} MiB, stack {} MiB, CPU {} s per batch, {} s CPU per input) with a counting allocator; outcome ok/err is fine, panic / signal / timeout / heap above 32 MiB + 512 x input size is a violation, and so is an accepted class in which one ldc / invokedynamic instruction carries more (nested) bootstrap arguments than the limit the reader documents (MAX_BOOTSTRAP_ARGUMENTS_EXPANDED as read from the source under test, 65536) (each re-run alone before it counts). Inputs: {} valid classes (javac 17 output for --release 8/17 incl. records, sealed, module-info, lambdas, switches, annotations, type annotations; /repo fixtures), every structural field found by an independent walker set to boundary values, truncation at every byte, random byte edits, hand-assembled hostile shapes (truncated instructions, switch ranges, stack-map offset sums, local-variable ranges, exception ranges, code_length, attribute_length up to 4 GiB, self-referential / deep / shared bootstrap arguments, one instruction with 1..255 top-level bootstrap arguments over shared DAGs of exact sizes (each far below or just under the budget, sums 65535 / 65536 / 65537 and far above, through invokedynamic and through ldc), self-referential pool entries, deeply nested element values (arrays, annotations, alternating), huge counts, duplicates, 65535-byte code, invokeinterface descriptors around the writer's u8 argument size, every count of the format at 255 / 256 / 257 / 65535 with all counted items present, element values of the integer kinds at the boundaries of the narrower types, every byte string of length <= 2 (and the 3-byte ones behind E0..EF) over 19 bytes where modified UTF-8 changes its mind as a class name), HOSTILE STRINGS: {} variants of compact valid classes in which every Utf8 that is not an attribute name carries an unpaired high / low surrogate, an embedded NUL, a leading 2- / 3- / 6-byte character, 700 extra bytes, 300 `[` or a run of 300 of one structural character, and whose class name / member names / member descriptors are filled up to 65535 bytes, are BASES too (every field mutation, truncation and byte edit is crossed with them), one Utf8 at a time replaced by / extended to twelve 65535-byte strings (runs of `[` `(` `;` `<` `a/`, surrogates, NUL ...) and made invalid for its role next to a surrogate; every accepted or refused class additionally goes through read_class_multi with the () visitor, a visitor without interests, one that declines the class, one without interest in fields and methods that declines record components, one that declines the code of every method, and twice into Vec<ClassFile>; text inputs for tiny v2 / tiny diff / Enigma / nests (fixtures mutated, random lines, invalid UTF-8, huge indentation, very long lines, deep CLASS nesting; every cell of the valid fixtures replaced one at a time by 37 hostile cells (names that start with multi-byte characters, empty, <init>, array names, separators, Unicode digits and line separators, 3000 letters); 100000-character runs of each of 17 structural characters as class name, member name and descriptor; a backslash directly before 2-, 3-, 4-byte characters and combining marks, at the end of the line, doubled, before TAB, multi-byte characters next to every structural character, in every comment position / field; every string of length <= 3 over (backslash, n, e-acute, euro, U+10400, TAB, c) as comment cell) and descriptor strings (random, runs of each structural character of length 255..300000 inside the frames of field / method / object / array descriptors, 34 short valid and invalid descriptors with a surrogate / NUL / 6-byte character at every position); accepted classes go through write_class and the written bytes are read again. Whole-class correspondence: class files of at most 4096 bytes (all the javac corpus classes of that size, every class of the case-* streams, even samples of the field-mutation / truncation / random-edit / hostile-string / mutf8 / targeted / exact-count streams under a byte budget of 2.6 MB per quick run, 12 MB per thorough run) are cases CClassV for the model of the WHOLE class reader (coq/C16/ModelCls*.v): exact outcome class ok / err / panic of duke::read_class, and whether read_class_multi accepted the same bytes with the () visitor, a visitor without interests that declines every member, one that declines the code of every method, one with interest in Record only and none in fields / methods, and one that declines the class (the model runs under the corresponding visitor description); an ACCEPTED class is a case CClassT instead: it is read once more in the harness and what the returned ClassFile shows of the file's numbers (decoded class / field / method access, InnerClasses, Module and MethodParameters flags under the mask of their type, number of interfaces, max_stack, max_locals, exception table length, the line numbers, numbers of Exceptions / requires / exports / opens entries) must equal the tree skeleton of the instrumented reader model (coq/C16/ModelClsTree.v), about which the range theorems C16_reader_* are proved. Whole-file correspondence: every text input of at most 4096 bytes (all targeted shapes and fixtures, the other streams sampled down to 5000 per quick run) is also a case CText for the model of the WHOLE parser (tiny v2 with 1 / 2 / 3 namespaces, tiny diff, Enigma, nests; coq/C16/ModelText.v, UTF-8 bytes), compared by exact outcome class ok / err / panic; element-value nesting is compared at 18 depths x 8 patterns against the three-function model whose increments are read from the source. Non-trivial: the parser accepted the input, or the input is a structured mutation of a valid file (reaches past the header). Distinct by input bytes.", LIMITS.as_kib / 1024, LIMITS.stack_kib / 1024, LIMITS.cpu_s, INPUT_CPU_LIMIT_MS / 1000, first_hostile, bases.len() - first_hostile);

	// group failures so that the report shows each distinct failure once, smallest input first
	struct Fail { what: String, replay: String, len: usize, count: u64, known: Option<&'static str> }
	let mut fails: BTreeMap<String, Fail> = BTreeMap::new();
	let mut slowest: (u64, String) = (0, String::new());
	let mut slow_list: Vec<(u64, String)> = vec![];
	let mut fattest: (f64, String) = (0.0, String::new());
	// correspondence cases; the heavy ones (up to 65537 model steps each) are spread evenly over the shards
	let mut light_cases: Vec<(&'static str, String)> = vec![];
	let mut heavy_cases: Vec<(&'static str, String)> = vec![];
	let mut text_cases: Vec<(&'static str, String)> = vec![];
	// whole class files for the model of the WHOLE reader: (stream, index of the input, observed outcome class)
	let mut class_cases: BTreeMap<&'static str, Vec<(usize, &'static str, u64)>> = BTreeMap::new();
	for (k_inp, (inp, o)) in inputs.iter().zip(outs.iter()).enumerate() {
		let bytes = inp.bytes(&bases);
		let kname = match inp.kind { K_MDESC | K_RDESC => "descriptor", k => KIND_NAMES[k as usize] };
		let mem_bad = o.peak > mem_bound(bytes.len()) || o.big as u64 > mem_bound(bytes.len());
		let accepted = o.res == Res::Ok;
		let derived = matches!(inp.form, Form::Derived { .. }) || inp.stream.starts_with("class-") || inp.stream.starts_with("case-");
		let canon = { use std::hash::{Hash, Hasher}; let mut h = std::collections::hash_map::DefaultHasher::new(); bytes.hash(&mut h); format!("{}:{}:{:x}", inp.kind, bytes.len(), h.finish()) };
		r.eval(&canon, !bytes.is_empty() && (accepted || derived));
		r.count(&format!("inputs:{}", inp.stream));
		r.count_n(&format!("millis:{}", inp.stream), o.micros / 1000);
		r.count(&format!("outcome:{kname}:{}", o.res.token()));
		if let Some(w) = &o.write { r.count(&format!("outcome:class-writer:{}", w.token())); }
		if inp.stream == "class-hostile-base" { r.count(&format!("hostile-base:{}", o.res.token())); if let Some(w) = &o.write { r.count(&format!("hostile-base-written:{}", w.token())); } }
		if inp.stream == "class-valid" { r.count(&format!("valid-base:{}", o.res.token())); if o.res != Res::Ok { r.notes.push(format!("base not accepted by the reader: {}", inp.label)); } }
		if o.micros > slowest.0 { slowest = (o.micros, inp.label.clone()); }
		if o.micros > 200_000 { slow_list.push((o.micros, inp.label.clone())); }
		let ratio = o.peak as f64 / (bytes.len().max(1) as f64);
		if o.peak > (1 << 20) && ratio > fattest.0 { fattest = (ratio, format!("{} (peak {} bytes for {} input bytes)", inp.label, o.peak, bytes.len())); }

		// failures
		let mut failure: Option<(String, String)> = None; // (kind, detail)
		if let Res::Limit(m) = &o.res { failure = Some((format!("{kname} parser: accepted an input beyond a limit that it documents"), m.clone())); }
		else if o.res.bad() { failure = Some((format!("{kname} parser: {}", o.res.token()), o.res.detail())); }
		else if let Some(w) = o.write.as_ref().filter(|w| w.bad()) { failure = Some((format!("class writer on an accepted class: {}", w.token()), w.detail())); }
		else if mem_bad { failure = Some((format!("{kname} parser: allocation unrelated to input size"), format!("peak heap {} bytes, largest single request {} bytes, input {} bytes", o.peak, o.big, bytes.len()))); }
		if let Some((fk, detail)) = &failure {
			if !o.confirmed && !mem_bad { r.count("failure_not_reproduced_alone"); r.notes.push(format!("not reproduced when re-run alone: {} — {fk}: {detail}", inp.label)); }
			else {
				// one group per kind of failure: numbers blanked, quoted input text (after the first quote) left out
				let generic: String = detail.chars().take_while(|c| !matches!(c, '`' | '\'' | '"')).map(|c| if c.is_ascii_digit() { '#' } else { c }).collect();
				let known = known_class(inp, &bytes, &format!("{fk}: {detail}"));
				let key = format!("{fk}|{}|{}|{}", inp.shape, known.is_some(), generic.chars().take(120).collect::<String>());
				let replay = format!("property C16\nparser: {kname}\nfailure: {fk}\ndetail: {detail}\ninput: {}\ninput length: {} bytes\n{}", inp.label, bytes.len(),
					if bytes.len() <= 2048 { format!("input bytes (hex):\n{}", hex_dump(&bytes)) } else { format!("first 256 bytes (hex):\n{}", hex_dump(&bytes[..256])) });
				let e = fails.entry(key).or_insert(Fail { what: format!("{fk}: {detail} — {}", inp.label), replay: replay.clone(), len: bytes.len(), count: 0, known });
				e.count += 1;
				if bytes.len() < e.len { e.len = bytes.len(); e.what = format!("{fk}: {detail} — {}", inp.label); e.replay = replay; e.known = known; }
			}
		}
		// the whole class file against the model of the whole reader: what duke::read_class answered (a panic of
		// one of the other visitors, a crash, a timeout or a heap use unrelated to the input counts as RPanic);
		// the streams that are about the open known finding F17 (heap) and the 65536-step budget cases stay out
		if inp.kind == K_CLASS && bytes.len() <= CLASS_CASE_MAX_BYTES && !bytes.is_empty() && !matches!(inp.stream, "case-shared-arguments" | "case-bootstrap-multi" | "regression") {
			let tok = if (o.res.bad() && o.confirmed) || mem_bad { "RPanic" } else if o.res == Res::Ok { "ROk" } else { "RErr" };
			class_cases.entry(inp.stream).or_default().push((k_inp, tok, o.aux));
		}
		// correspondence case
		if let Some(prefix) = &inp.case {
			let tok = if failure.is_some() && (o.confirmed || mem_bad) { "RPanic" } else if o.res == Res::Ok { "ROk" } else { "RErr" };
			if prefix.starts_with("CBootN ") {
				// the observed number of expanded arguments accompanies an accepted class
				heavy_cases.push((inp.stream, format!("{prefix} {tok} {}", if tok == "ROk" { format!("(Some {})", o.aux & AUX_COUNT_MASK) } else { "None".to_string() })));
			} else if prefix.starts_with("CArgSize ") {
				// what the WRITER did with the class the reader accepted
				match (&o.res, &o.write) {
					(Res::Ok, Some(w)) => light_cases.push((inp.stream, format!("{prefix} {}", match w { Res::Ok => "ROk", Res::Err => "RErr", _ => "RPanic" }))),
					_ => r.count("arguments-size case without a writer run (reader refused)"),
				}
			} else {
				light_cases.push((inp.stream, format!("{prefix} {tok}")));
			}
		} else if matches!(inp.kind, K_TINY | K_DIFF | K_ENIGMA | K_NESTS) && bytes.len() <= TEXT_CASE_MAX_BYTES {
			// the whole text file against the model of the whole parser (coq/C16/ModelText.v): exact
			// outcome class ok / err / panic.  The tiny v2 outcome is that of read::<2, _> (a panic of
			// read::<3, _> is reported as the outcome, the model then disagrees as well).
			let tok = if failure.is_some() && (o.confirmed || mem_bad) { "RPanic" } else if o.res == Res::Ok { "ROk" } else { "RErr" };
			let k = match inp.kind { K_TINY => 0, K_DIFF => 1, K_ENIGMA => 2, _ => 3 };
			let gb = gnums(bytes.iter().map(|&x| x as u64));
			text_cases.push((inp.stream, format!("CText {k} 2 {gb} {tok}")));
			r.count(&format!("text-case:{kname}:{tok}"));
			// the same file through read::<3, _> and read::<1, _> (the latter always refuses)
			if inp.kind == K_TINY && tok != "RPanic" && o.aux & 4 != 0 && (matches!(inp.stream, "text-targeted" | "text-valid") || text_cases.len() % 5 == 0) {
				text_cases.push((inp.stream, format!("CText 0 3 {gb} {}", if o.aux & 2 != 0 { "ROk" } else { "RErr" })));
				text_cases.push((inp.stream, format!("CText 0 1 {gb} {}", if o.aux & 1 != 0 { "ROk" } else { "RErr" })));
			}
		}
	}
	{
		// whole-file cases: all of the targeted / hostile-cell streams, the others up to a budget
		let budget = if ctx.thorough { usize::MAX } else { 5000 };
		let (must, rest): (Vec<_>, Vec<_>) = text_cases.into_iter().partition(|(s, _)| matches!(*s, "text-targeted" | "text-valid" | "regression"));
		let take_rest = budget.saturating_sub(must.len());
		let step = (rest.len() / take_rest.max(1)).max(1);
		for c in must { light_cases.push(c); }
		for (i, c) in rest.into_iter().enumerate() { if i % step == 0 { light_cases.push(c); } }
	}
	{
		// whole-class cases: per stream an even sample up to a count, the whole under a byte budget
		let quota = |stream: &str| -> usize {
			let q = match stream {
				"class-valid" | "class-hostile-base" => 200, "class-targeted" => 700, "class-exact-counts" => 60,
				"class-field-mutation" => 1300, "class-truncation" => 700, "class-random-edit" => 500,
				"class-hostile-strings" => 250, "class-mutf8-exhaustive" => 300,
				"case-scan" => 700, "case-range" => 200, "case-frames" => 120, "case-bootstrap" => 120, "case-nesting" => 100,
				_ => 100,
			};
			if ctx.thorough { q * 4 } else { q }
		};
		let mut byte_budget: usize = if ctx.thorough { 12 << 20 } else { 2600 << 10 };
		for (stream, list) in &class_cases {
			let take = quota(stream).min(list.len());
			let step = (list.len() / take.max(1)).max(1);
			for (j, &(k, tok, aux)) in list.iter().enumerate() {
				if j % step != 0 { continue; }
				let bytes = inputs[k].bytes(&bases);
				if bytes.len() > byte_budget { continue; }
				byte_budget -= bytes.len();
				let gb = gnums(bytes.iter().map(|&x| x as u64));
				if tok == "RPanic" { light_cases.push((stream, format!("CClass {gb} {tok}"))); }
				else {
					// what the five other visitors answered (order of `others` in run_one_)
					let v = |k: u32| gbool(aux >> (VISITOR_BIT0 + k) & 1 == 1);
					// an accepted class (the child read it within the limits) is read once more here: the numbers in the
					// tree are compared with the instrumented reader model (CClassT)
					let tree = if tok == "ROk" { guarded(|| duke::read_class(&mut Cursor::new(&bytes[..]))).ok().and_then(|x| x.ok()) } else { None };
					match tree.as_ref().map(class_skeleton) {
						Some(Some(sk)) => {
							light_cases.push((stream, format!("CClassT {gb} {} {} {} {} {} {} {sk}", v(0), v(1), v(2), v(3), v(4), flag_masks())));
							r.count("class-case:tree-skeleton");
						}
						Some(None) => {
							r.violation("duke::read_class returned a method with Code but without max_stack / max_locals: write_class cannot write it".into(), format!("class file bytes {gb}"));
							light_cases.push((stream, format!("CClassV {gb} {tok} {} {} {} {} {}", v(0), v(1), v(2), v(3), v(4))));
						}
						None => light_cases.push((stream, format!("CClassV {gb} {tok} {} {} {} {} {}", v(0), v(1), v(2), v(3), v(4)))),
					}
				}
				r.count(&format!("class-case:{tok}"));
				r.count_n("class-case-bytes", bytes.len() as u64);
			}
		}
	}
	{
		// the class cases are heavy in bytes: spread them over the shards
		let n = light_cases.len();
		let mut order: Vec<usize> = (0..n).collect();
		let shards = (n / 350).max(1);
		order.sort_by_key(|&i| (i % shards, i));
		let mut slots: Vec<Option<(&'static str, String)>> = light_cases.into_iter().map(Some).collect();
		light_cases = order.into_iter().filter_map(|i| slots[i].take()).collect();
		r.shard_size = 350;
	}
	{
		let every = (light_cases.len() / heavy_cases.len().max(1)).max(1);
		let mut heavy = heavy_cases.into_iter();
		for (i, (stream, term)) in light_cases.into_iter().enumerate() {
			if i % every == 0 { if let Some((hs, ht)) = heavy.next() { r.case(hs, ht); } }
			r.case(stream, term);
		}
		for (hs, ht) in heavy { r.case(hs, ht); }
	}
	unescape_cases(&mut r);
	r.notes.push(format!("slowest input: {} us — {}", slowest.0, slowest.1));
	slow_list.sort(); slow_list.reverse();
	r.count_n("inputs_slower_than_200ms", slow_list.len() as u64);
	for (us, l) in slow_list.iter().take(8) { r.notes.push(format!("slow: {us} us — {l}")); }
	r.notes.push(format!("largest heap/input ratio above 1 MiB: {:.0} — {}", fattest.0, fattest.1));
	for (_, f) in fails {
		r.count_n("distinct_failures", 1);
		match f.known {
			Some(k) => r.known(k.to_string()),
			None => r.violation(format!("{} [{} inputs fail this way]", f.what, f.count), f.replay),
		}
	}
	Ok(r)
}

/// writes the minimised crashing inputs found on the pinned tree (kept under corpus/C16/crashers)
fn dump_crashers(dir: &Path) -> anyhow::Result<()> {
	std::fs::create_dir_all(dir)?;
	let chain = |n: usize| -> Vec<Vec<usize>> { (0..n).map(|i| if i + 1 < n { vec![i + 1] } else { vec![usize::MAX] }).collect() };
	let dag = |n: usize| -> Vec<Vec<usize>> { (0..n).map(|i| if i + 1 < n { vec![i + 1, i + 1] } else { vec![usize::MAX] }).collect() };
	let files: Vec<(&str, Vec<u8>)> = vec![
		("f17a_truncated_last_instruction.class", gen::code_class(&[0x00, 0x10])),
		("f17a_truncated_wide.class", gen::code_class(&[0xc4, 0x84, 0x00])),
		("f17b_tableswitch_min_max.class", gen::code_class(&{ let mut c = gen::tableswitch_code(0, i32::MIN, i32::MAX, &[]); c.push(0xb1); c })),
		("f17b_tableswitch_0_max.class", gen::code_class(&{ let mut c = gen::tableswitch_code(0, 0, i32::MAX, &[]); c.push(0xb1); c })),
		("f17c_stackmap_offset_sum.class", gen::stackmap_class(4, &[0, 65535])),
		("f17c_stackmap_delta_plus_one.class", gen::stackmap_class(4, &[1, 65535])),
		("f17d_local_variable_range.class", gen::lvt_class("LocalVariableTable", 8, 1, 65535)),
		("f17d_local_variable_type_range.class", gen::lvt_class("LocalVariableTypeTable", 8, 7, 65529)),
		("f17e_unknown_attribute_length_4g.class", gen::attr_length_class(0, "Foo", 0xFFFF_FFFF, 0)),
		("f17e_source_debug_extension_length_2g.class", gen::attr_length_class(0, "SourceDebugExtension", 0x7FFF_FFFF, 3)),
		("f17e_code_attribute_unknown_length_256m.class", gen::attr_length_class(3, "Foo", 0x1000_0000, 3)),
		("f17f_bootstrap_self_reference.class", gen::bootstrap_class(&[vec![0]], 0, false)),
		("f17f_bootstrap_self_reference_indy.class", gen::bootstrap_class(&[vec![0]], 0, true)),
		("f17f_bootstrap_two_cycle.class", gen::bootstrap_class(&[vec![1], vec![0]], 0, false)),
		("f17f_bootstrap_chain_20000.class", gen::bootstrap_class(&chain(20000), 0, false)),
		("f17g_bootstrap_shared_dag_26.class", gen::bootstrap_class(&dag(26), 0, false)),
		("f17h_element_value_arrays_20000.class", gen::deep_annotation_class("RuntimeVisibleAnnotations", 20000, false)),
		("f17h_element_value_annotations_20000.class", gen::deep_annotation_class("RuntimeInvisibleAnnotations", 20000, true)),
		("f17h_element_value_alternating_20000.class", gen::deep_annotation_class_mode("RuntimeVisibleAnnotations", 20000, 2)),
		("f17i_label_on_every_offset.class", gen::label_flood_class(65535, true)),
		// the writer's u8 argument size (invokeinterface count operand)
		("f17j_invokeinterface_128_long_parameters.class", gen::invokeinterface_class(format!("({})V", "J".repeat(128)).as_bytes())),
		("f17j_invokeinterface_255_int_parameters.class", gen::invokeinterface_class(format!("({})V", "I".repeat(255)).as_bytes())),
		// the budget of expanded bootstrap arguments is per instruction, not per top-level argument
		("f17k_indy_three_arguments_32767_each.class", { let (g, roots) = gen::multi_root_graph(&[32767, 32767, 32767], true); gen::bootstrap_class_roots(&g, &roots, true) }),
		("f17k_indy_255_arguments_258_each.class", { let (g, roots) = gen::multi_root_graph(&[258; 255], true); gen::bootstrap_class_roots(&g, &roots, true) }),
		("f17k_ldc_two_arguments_sum_65537.class", { let (g, roots) = gen::multi_root_graph(&[32768, 32769], false); gen::bootstrap_class_roots(&g, &roots, false) }),
		// a backslash directly before a multi-byte character in a comment
		("f17l_comment_backslash_multibyte.tiny", "tiny\t2\t0\ta\tb\nc\tA\tB\n\tc\tsee C:\\Données\\été\n".as_bytes().to_vec()),
		("f17l_comment_backslash_multibyte.tinydiff", "tiny\t2\t0\nc\tA\tX\tY\n\tc\t\\€\t\\𐐀\n".as_bytes().to_vec()),
	];
	for (n, b) in files { std::fs::write(dir.join(n), b)?; }
	Ok(())
}

fn main() -> anyhow::Result<()> {
	let args: Vec<String> = std::env::args().collect();
	if args.len() >= 3 && args[1] == "--child" { child_main(Path::new(&args[2]), run_one); }
	if args.len() >= 3 && args[1] == "--dump-crashers" { return dump_crashers(Path::new(&args[2])); }
	if args.len() >= 3 && args[1] == "--selftest" {
		let n: usize = args[2].parse()?;
		let jobs: usize = args.get(3).and_then(|x| x.parse().ok()).unwrap_or(1);
		let inputs: Vec<Input> = (0..n).map(|i| Input::raw(K_CLASS, "selftest", format!("nops {i}"), gen::code_class(&cf::nops(65534)))).collect();
		let t = std::time::Instant::now();
		let outs = run_all(Path::new("/tmp/c16-selftest"), &[], &inputs, jobs);
		let mut us: Vec<u64> = outs.iter().map(|o| o.micros).collect(); us.sort();
		println!("{n} inputs, {jobs} jobs: wall {:?}; per input min {} median {} max {} us", t.elapsed(), us[0], us[us.len() / 2], us[us.len() - 1]);
		return Ok(());
	}
	if args.len() >= 3 && args[1] == "--time" {
		let bytes = if args[2] == "nops" { gen::code_class(&cf::nops(65534)) } else { std::fs::read(&args[2])? };
		let t = std::time::Instant::now();
		let c = duke::read_class(&mut Cursor::new(&bytes));
		println!("read_class: {:?} ok={}", t.elapsed(), c.is_ok());
		if let Ok(c) = c { let t = std::time::Instant::now(); let mut v = vec![]; let w = duke::write_class(&mut v, &c); println!("write_class: {:?} ok={}", t.elapsed(), w.is_ok());
			let t = std::time::Instant::now(); let _ = duke::read_class(&mut Cursor::new(&v)); println!("re-read: {:?}", t.elapsed()); }
		let t = std::time::Instant::now(); let _ = duke::read_class_multi(&mut Cursor::new(&bytes), ()); println!("unit visitor: {:?}", t.elapsed());
		let t = std::time::Instant::now(); let _ = duke::read_class_multi(&mut Cursor::new(&bytes), skim::Skim(0)); println!("skim visitor: {:?}", t.elapsed());
		return Ok(());
	}
	fbh::main_with(run)
}
