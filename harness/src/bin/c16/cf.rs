//! Tiny class-file assembler and a lenient structural walker (independent of duke) that knows
//! where the length / count / index / offset / tag fields of a class file are.
use std::collections::HashMap;

// ---------------------------------------------------------------- assembler
pub fn u16be(v: &mut Vec<u8>, x: u16) { v.extend_from_slice(&x.to_be_bytes()); }
pub fn u32be(v: &mut Vec<u8>, x: u32) { v.extend_from_slice(&x.to_be_bytes()); }
pub fn i32be(v: &mut Vec<u8>, x: i32) { v.extend_from_slice(&x.to_be_bytes()); }

#[derive(Clone, Default)]
pub struct Pool { pub entries: Vec<Vec<u8>>, pub slots: u16, memo: HashMap<Vec<u8>, u16> }

impl Pool {
	pub fn new() -> Pool { Pool { entries: vec![], slots: 1, memo: HashMap::new() } }
	pub fn raw(&mut self, e: Vec<u8>, wide: bool) -> u16 {
		let i = self.slots;
		self.entries.push(e);
		self.slots += if wide { 2 } else { 1 };
		i
	}
	fn memo(&mut self, e: Vec<u8>) -> u16 {
		if let Some(&i) = self.memo.get(&e) { return i; }
		let i = self.raw(e.clone(), false);
		self.memo.insert(e, i);
		i
	}
	pub fn utf8b(&mut self, s: &[u8]) -> u16 { let mut e = vec![1]; u16be(&mut e, s.len() as u16); e.extend_from_slice(s); self.memo(e) }
	pub fn utf8(&mut self, s: &str) -> u16 { self.utf8b(s.as_bytes()) }
	pub fn int(&mut self, x: i32) -> u16 { let mut e = vec![3]; i32be(&mut e, x); self.memo(e) }
	pub fn long(&mut self, x: i64) -> u16 { let mut e = vec![5]; e.extend_from_slice(&x.to_be_bytes()); self.raw(e, true) }
	pub fn idx1(&mut self, tag: u8, a: u16) -> u16 { let mut e = vec![tag]; u16be(&mut e, a); self.memo(e) }
	pub fn idx2(&mut self, tag: u8, a: u16, b: u16) -> u16 { let mut e = vec![tag]; u16be(&mut e, a); u16be(&mut e, b); self.memo(e) }
	pub fn class(&mut self, n: &str) -> u16 { let u = self.utf8(n); self.idx1(7, u) }
	pub fn string(&mut self, n: &str) -> u16 { let u = self.utf8(n); self.idx1(8, u) }
	pub fn nat(&mut self, n: &str, d: &str) -> u16 { let a = self.utf8(n); let b = self.utf8(d); self.idx2(12, a, b) }
	pub fn methodref(&mut self, c: &str, n: &str, d: &str) -> u16 { let a = self.class(c); let b = self.nat(n, d); self.idx2(10, a, b) }
	pub fn fieldref(&mut self, c: &str, n: &str, d: &str) -> u16 { let a = self.class(c); let b = self.nat(n, d); self.idx2(9, a, b) }
	pub fn handle(&mut self, kind: u8, r: u16) -> u16 { let mut e = vec![15, kind]; u16be(&mut e, r); self.memo(e) }
	/// a Dynamic (17) / InvokeDynamic (18) entry; never memoised (self references need a fresh slot)
	pub fn dynamic(&mut self, tag: u8, bsm: u16, nat: u16) -> u16 { let mut e = vec![tag]; u16be(&mut e, bsm); u16be(&mut e, nat); self.raw(e, false) }
	pub fn bytes(&self) -> Vec<u8> { let mut v = vec![]; u16be(&mut v, self.slots); for e in &self.entries { v.extend_from_slice(e); } v }
}

pub fn attr(name_idx: u16, body: &[u8]) -> Vec<u8> { let mut v = vec![]; u16be(&mut v, name_idx); u32be(&mut v, body.len() as u32); v.extend_from_slice(body); v }
pub fn attr_len(name_idx: u16, len: u32, body: &[u8]) -> Vec<u8> { let mut v = vec![]; u16be(&mut v, name_idx); u32be(&mut v, len); v.extend_from_slice(body); v }
pub fn attrs(list: &[Vec<u8>]) -> Vec<u8> { let mut v = vec![]; u16be(&mut v, list.len() as u16); for a in list { v.extend_from_slice(a); } v }

pub fn code_body(max_stack: u16, max_locals: u16, code: &[u8], exc: &[(u16, u16, u16, u16)], sub: &[Vec<u8>]) -> Vec<u8> {
	let mut v = vec![];
	u16be(&mut v, max_stack); u16be(&mut v, max_locals); u32be(&mut v, code.len() as u32); v.extend_from_slice(code);
	u16be(&mut v, exc.len() as u16);
	for &(a, b, c, d) in exc { u16be(&mut v, a); u16be(&mut v, b); u16be(&mut v, c); u16be(&mut v, d); }
	v.extend_from_slice(&attrs(sub));
	v
}
pub fn member(access: u16, name: u16, desc: u16, at: &[Vec<u8>]) -> Vec<u8> { let mut v = vec![]; u16be(&mut v, access); u16be(&mut v, name); u16be(&mut v, desc); v.extend_from_slice(&attrs(at)); v }

pub fn class_file(major: u16, pool: &Pool, access: u16, this: u16, sup: u16, itf: &[u16], fields: &[Vec<u8>], methods: &[Vec<u8>], at: &[Vec<u8>]) -> Vec<u8> {
	let mut v = vec![0xCA, 0xFE, 0xBA, 0xBE]; u16be(&mut v, 0); u16be(&mut v, major);
	v.extend_from_slice(&pool.bytes());
	u16be(&mut v, access); u16be(&mut v, this); u16be(&mut v, sup);
	u16be(&mut v, itf.len() as u16); for &i in itf { u16be(&mut v, i); }
	u16be(&mut v, fields.len() as u16); for f in fields { v.extend_from_slice(f); }
	u16be(&mut v, methods.len() as u16); for m in methods { v.extend_from_slice(m); }
	v.extend_from_slice(&attrs(at));
	v
}

/// class `T` with one static method `m()V` whose Code attribute is built by `f` from the pool
/// (returns code bytes, exception table, sub-attributes); `class_attrs` builds class attributes.
pub fn one_method_class(
	f: impl FnOnce(&mut Pool) -> (Vec<u8>, Vec<(u16, u16, u16, u16)>, Vec<Vec<u8>>),
	class_attrs: impl FnOnce(&mut Pool) -> Vec<Vec<u8>>,
) -> Vec<u8> {
	let mut p = Pool::new();
	let this = p.class("T"); let sup = p.class("java/lang/Object");
	let (n, d, c) = (p.utf8("m"), p.utf8("()V"), p.utf8("Code"));
	let (code, exc, sub) = f(&mut p);
	let ca = class_attrs(&mut p);
	let m = member(0x0009, n, d, &[attr(c, &code_body(4, 4, &code, &exc, &sub))]);
	class_file(61, &p, 0x0021, this, sup, &[], &[], &[m], &ca)
}
/// `n` nops followed by `return`
pub fn nops(n: usize) -> Vec<u8> { let mut c = vec![0u8; n]; c.push(0xb1); c }

// ---------------------------------------------------------------- walker
#[derive(Clone, Copy, Debug, PartialEq, Eq)]
pub enum Kind { Count, Len, PoolIdx, CodeOff, Branch, Switch, Tag, Other }

#[derive(Clone, Copy, Debug)]
pub struct Site { pub off: usize, pub w: u8, pub kind: Kind, pub what: &'static str }

pub struct Walker<'a> { b: &'a [u8], p: usize, pub sites: Vec<Site>, utf8: HashMap<u16, &'a [u8]> }

type O<T> = Option<T>;

impl<'a> Walker<'a> {
	fn u8(&mut self, kind: Kind, what: &'static str) -> O<u8> { let x = *self.b.get(self.p)?; self.sites.push(Site { off: self.p, w: 1, kind, what }); self.p += 1; Some(x) }
	fn u16(&mut self, kind: Kind, what: &'static str) -> O<u16> {
		let s = self.b.get(self.p..self.p + 2)?; self.sites.push(Site { off: self.p, w: 2, kind, what }); self.p += 2; Some(u16::from_be_bytes([s[0], s[1]]))
	}
	fn u32(&mut self, kind: Kind, what: &'static str) -> O<u32> {
		let s = self.b.get(self.p..self.p + 4)?; self.sites.push(Site { off: self.p, w: 4, kind, what }); self.p += 4; Some(u32::from_be_bytes([s[0], s[1], s[2], s[3]]))
	}
	fn skip(&mut self, n: usize) -> O<()> { if self.p + n > self.b.len() { return None; } self.p += n; Some(()) }

	fn pool(&mut self) -> O<()> {
		let count = self.u16(Kind::Count, "constant_pool_count")?;
		let mut i = 1u16;
		while i < count {
			let tag = self.u8(Kind::Tag, "cp tag")?;
			match tag {
				1 => { let l = self.u16(Kind::Len, "utf8 length")? as usize; let s = self.b.get(self.p..self.p + l)?; self.utf8.insert(i, s); self.p += l; }
				3 | 4 => self.skip(4)?,
				5 | 6 => { self.skip(8)?; i += 1; }
				7 | 8 | 16 | 19 | 20 => { self.u16(Kind::PoolIdx, "cp index")?; }
				9 | 10 | 11 | 12 | 17 | 18 => { self.u16(Kind::PoolIdx, "cp index a")?; self.u16(Kind::PoolIdx, "cp index b")?; }
				15 => { self.u8(Kind::Tag, "reference_kind")?; self.u16(Kind::PoolIdx, "reference_index")?; }
				_ => return None,
			}
			i += 1;
		}
		Some(())
	}

	fn members(&mut self, what: &'static str) -> O<()> {
		let n = self.u16(Kind::Count, what)?;
		for _ in 0..n {
			self.u16(Kind::Other, "access")?; self.u16(Kind::PoolIdx, "member name")?; self.u16(Kind::PoolIdx, "member descriptor")?;
			self.attributes()?;
		}
		Some(())
	}

	fn attributes(&mut self) -> O<()> {
		let n = self.u16(Kind::Count, "attributes_count")?;
		for _ in 0..n {
			let name = self.u16(Kind::PoolIdx, "attribute_name_index")?;
			let len = self.u32(Kind::Len, "attribute_length")? as usize;
			let start = self.p;
			let end = start.checked_add(len)?;
			if end > self.b.len() { return None; }
			let name = self.utf8.get(&name).copied().unwrap_or(b"");
			let _ = self.attribute_body(name, end);
			// whatever the body walker did, continue after the declared length
			if self.p < end { self.generic_u16(end); }
			self.p = end;
		}
		Some(())
	}

	fn generic_u16(&mut self, end: usize) { while self.p + 2 <= end { let _ = self.u16(Kind::PoolIdx, "u16 in attribute body"); } }

	fn attribute_body(&mut self, name: &[u8], end: usize) -> O<()> {
		match name {
			b"Code" => {
				self.u16(Kind::Other, "max_stack")?; self.u16(Kind::Other, "max_locals")?;
				let cl = self.u32(Kind::Len, "code_length")? as usize;
				if self.p + cl > end { return None; }
				self.code(self.p, cl);
				self.p += cl;
				let n = self.u16(Kind::Count, "exception_table_length")?;
				for _ in 0..n { self.u16(Kind::CodeOff, "exception start_pc")?; self.u16(Kind::CodeOff, "exception end_pc")?; self.u16(Kind::CodeOff, "exception handler_pc")?; self.u16(Kind::PoolIdx, "catch_type")?; }
				self.attributes()?;
			}
			b"StackMapTable" => {
				let n = self.u16(Kind::Count, "stack map number_of_entries")?;
				for _ in 0..n {
					let t = self.u8(Kind::Tag, "frame_type")?;
					match t {
						0..=63 => {}
						64..=127 => self.vti()?,
						247 => { self.u16(Kind::CodeOff, "frame offset_delta")?; self.vti()?; }
						248..=251 => { self.u16(Kind::CodeOff, "frame offset_delta")?; }
						252..=254 => { self.u16(Kind::CodeOff, "frame offset_delta")?; for _ in 0..(t - 251) { self.vti()?; } }
						255 => {
							self.u16(Kind::CodeOff, "frame offset_delta")?;
							let l = self.u16(Kind::Count, "number_of_locals")?; for _ in 0..l { self.vti()?; }
							let s = self.u16(Kind::Count, "number_of_stack_items")?; for _ in 0..s { self.vti()?; }
						}
						_ => return None,
					}
				}
			}
			b"LineNumberTable" => {
				let n = self.u16(Kind::Count, "line_number_table_length")?;
				for _ in 0..n { self.u16(Kind::CodeOff, "line start_pc")?; self.u16(Kind::Other, "line_number")?; }
			}
			b"LocalVariableTable" | b"LocalVariableTypeTable" => {
				let n = self.u16(Kind::Count, "local_variable_table_length")?;
				for _ in 0..n {
					self.u16(Kind::CodeOff, "lv start_pc")?; self.u16(Kind::CodeOff, "lv length")?;
					self.u16(Kind::PoolIdx, "lv name")?; self.u16(Kind::PoolIdx, "lv descriptor")?; self.u16(Kind::Other, "lv index")?;
				}
			}
			b"BootstrapMethods" => {
				let n = self.u16(Kind::Count, "num_bootstrap_methods")?;
				for _ in 0..n {
					self.u16(Kind::PoolIdx, "bootstrap_method_ref")?;
					let k = self.u16(Kind::Count, "num_bootstrap_arguments")?;
					for _ in 0..k { self.u16(Kind::PoolIdx, "bootstrap_argument")?; }
				}
			}
			b"InnerClasses" => {
				let n = self.u16(Kind::Count, "number_of_classes")?;
				for _ in 0..n { self.u16(Kind::PoolIdx, "inner_class_info")?; self.u16(Kind::PoolIdx, "outer_class_info")?; self.u16(Kind::PoolIdx, "inner_name")?; self.u16(Kind::Other, "inner access")?; }
			}
			b"RuntimeVisibleAnnotations" | b"RuntimeInvisibleAnnotations" => {
				let n = self.u16(Kind::Count, "num_annotations")?;
				for _ in 0..n { self.annotation(0)?; }
			}
			b"RuntimeVisibleParameterAnnotations" | b"RuntimeInvisibleParameterAnnotations" => {
				let np = self.u8(Kind::Count, "num_parameters")?;
				for _ in 0..np { let n = self.u16(Kind::Count, "num_annotations")?; for _ in 0..n { self.annotation(0)?; } }
			}
			b"AnnotationDefault" => self.element_value(0)?,
			b"RuntimeVisibleTypeAnnotations" | b"RuntimeInvisibleTypeAnnotations" => {
				let n = self.u16(Kind::Count, "num_type_annotations")?;
				for _ in 0..n {
					let t = self.u8(Kind::Tag, "target_type")?;
					match t {
						0x00 | 0x01 => { self.u8(Kind::Other, "type_parameter_index")?; }
						0x10 => { self.u16(Kind::Other, "supertype_index")?; }
						0x11 | 0x12 => { self.u8(Kind::Other, "tp index")?; self.u8(Kind::Other, "bound index")?; }
						0x13..=0x15 => {}
						0x16 => { self.u8(Kind::Other, "formal_parameter_index")?; }
						0x17 => { self.u16(Kind::Other, "throws_type_index")?; }
						0x40 | 0x41 => {
							let k = self.u16(Kind::Count, "localvar table_length")?;
							for _ in 0..k { self.u16(Kind::CodeOff, "localvar start_pc")?; self.u16(Kind::CodeOff, "localvar length")?; self.u16(Kind::Other, "localvar index")?; }
						}
						0x42 => { self.u16(Kind::Other, "exception_table_index")?; }
						0x43..=0x46 => { self.u16(Kind::CodeOff, "type annotation offset")?; }
						0x47..=0x4B => { self.u16(Kind::CodeOff, "type annotation offset")?; self.u8(Kind::Other, "type_argument_index")?; }
						_ => return None,
					}
					let pl = self.u8(Kind::Count, "type_path length")?;
					for _ in 0..pl { self.u8(Kind::Tag, "type_path_kind")?; self.u8(Kind::Other, "type_argument_index")?; }
					self.annotation(0)?;
				}
			}
			b"MethodParameters" => {
				let n = self.u8(Kind::Count, "parameters_count")?;
				for _ in 0..n { self.u16(Kind::PoolIdx, "parameter name")?; self.u16(Kind::Other, "parameter flags")?; }
			}
			b"Record" => {
				let n = self.u16(Kind::Count, "components_count")?;
				for _ in 0..n { self.u16(Kind::PoolIdx, "component name")?; self.u16(Kind::PoolIdx, "component descriptor")?; self.attributes()?; }
			}
			b"SourceDebugExtension" => { self.p = end; }
			_ => self.generic_u16(end),
		}
		Some(())
	}

	fn vti(&mut self) -> O<()> {
		let t = self.u8(Kind::Tag, "verification tag")?;
		match t { 7 => { self.u16(Kind::PoolIdx, "verification class")?; } 8 => { self.u16(Kind::CodeOff, "uninitialized offset")?; } _ => {} }
		Some(())
	}
	fn annotation(&mut self, depth: usize) -> O<()> {
		self.u16(Kind::PoolIdx, "annotation type_index")?;
		let n = self.u16(Kind::Count, "num_element_value_pairs")?;
		for _ in 0..n { self.u16(Kind::PoolIdx, "element_name_index")?; self.element_value(depth + 1)?; }
		Some(())
	}
	fn element_value(&mut self, depth: usize) -> O<()> {
		if depth > 200 { return None; }
		let t = self.u8(Kind::Tag, "element_value tag")?;
		match t {
			b'e' => { self.u16(Kind::PoolIdx, "enum type_name")?; self.u16(Kind::PoolIdx, "enum const_name")?; }
			b'@' => self.annotation(depth + 1)?,
			b'[' => { let n = self.u16(Kind::Count, "array num_values")?; for _ in 0..n { self.element_value(depth + 1)?; } }
			_ => { self.u16(Kind::PoolIdx, "const_value_index")?; }
		}
		Some(())
	}

	/// instruction walk of code[start..start+len]; records operand sites
	fn code(&mut self, start: usize, len: usize) {
		let save = self.p;
		self.p = start;
		let end = start + len;
		let _ = (|| -> O<()> {
			while self.p < end {
				let pc = self.p - start;
				let op = self.u8(Kind::Tag, "opcode")?;
				match op {
					0x10 | 0x15..=0x19 | 0x36..=0x3a | 0xa9 | 0xbc => { self.u8(Kind::Other, "u8 operand")?; }
					0x12 => { self.u8(Kind::PoolIdx, "ldc index")?; }
					0x11 => { self.u16(Kind::Other, "sipush")?; }
					0x84 => { self.u8(Kind::Other, "iinc index")?; self.u8(Kind::Other, "iinc const")?; }
					0x13 | 0x14 | 0xb2..=0xb8 | 0xbb | 0xbd | 0xc0 | 0xc1 => { self.u16(Kind::PoolIdx, "cp operand")?; }
					0xc5 => { self.u16(Kind::PoolIdx, "cp operand")?; self.u8(Kind::Other, "dimensions")?; }
					0xb9 | 0xba => { self.u16(Kind::PoolIdx, "cp operand")?; self.u8(Kind::Other, "count")?; self.u8(Kind::Other, "zero")?; }
					0xc4 => { let w = self.u8(Kind::Tag, "wide opcode")?; self.u16(Kind::Other, "wide index")?; if w == 0x84 { self.u16(Kind::Other, "wide const")?; } }
					0x99..=0xa8 | 0xc6 | 0xc7 => { self.u16(Kind::Branch, "branch offset")?; }
					0xc8 | 0xc9 => { self.u32(Kind::Branch, "wide branch offset")?; }
					0xaa => {
						while (self.p - start) % 4 != 0 { self.u8(Kind::Other, "switch padding")?; }
						self.u32(Kind::Switch, "tableswitch default")?;
						let lo = self.u32(Kind::Switch, "tableswitch low")? as i32; let hi = self.u32(Kind::Switch, "tableswitch high")? as i32;
						let n = (hi as i64 - lo as i64 + 1).clamp(0, 20000);
						for _ in 0..n { self.u32(Kind::Switch, "tableswitch offset")?; }
					}
					0xab => {
						while (self.p - start) % 4 != 0 { self.u8(Kind::Other, "switch padding")?; }
						self.u32(Kind::Switch, "lookupswitch default")?;
						let n = (self.u32(Kind::Switch, "lookupswitch npairs")? as i32).clamp(0, 20000);
						for _ in 0..n { self.u32(Kind::Other, "lookupswitch key")?; self.u32(Kind::Switch, "lookupswitch offset")?; }
					}
					_ => {}
				}
				let _ = pc;
				if self.p > end { return None; }
			}
			Some(())
		})();
		self.p = save;
	}
}

/// All structural sites of a (valid) class file; None when the file cannot be walked to the end.
pub fn walk(b: &[u8]) -> (Vec<Site>, bool) {
	let mut w = Walker { b, p: 0, sites: vec![], utf8: HashMap::new() };
	let ok = (|| -> O<()> {
		w.u32(Kind::Other, "magic")?; w.u16(Kind::Other, "minor")?; w.u16(Kind::Other, "major")?;
		w.pool()?;
		w.u16(Kind::Other, "access_flags")?; w.u16(Kind::PoolIdx, "this_class")?; w.u16(Kind::PoolIdx, "super_class")?;
		let n = w.u16(Kind::Count, "interfaces_count")?;
		for _ in 0..n { w.u16(Kind::PoolIdx, "interface")?; }
		w.members("fields_count")?; w.members("methods_count")?;
		w.attributes()?;
		if w.p == b.len() { Some(()) } else { None }
	})().is_some();
	(w.sites, ok)
}

pub fn read_at(b: &[u8], off: usize, w: u8) -> u32 {
	match w { 1 => b[off] as u32, 2 => u16::from_be_bytes([b[off], b[off + 1]]) as u32, _ => u32::from_be_bytes([b[off], b[off + 1], b[off + 2], b[off + 3]]) }
}
pub fn write_at(b: &mut [u8], off: usize, w: u8, v: u32) {
	match w { 1 => b[off] = v as u8, 2 => b[off..off + 2].copy_from_slice(&(v as u16).to_be_bytes()), _ => b[off..off + 4].copy_from_slice(&v.to_be_bytes()) }
}

// ---------------------------------------------------------------- bootstrap expansion estimate
/// For a well-formed class: the number of `Loadable` values the reader's tree has to hold because
/// bootstrap arguments are stored by value in every ldc / invokedynamic instruction
/// (sum over those instructions of the expanded argument count, each capped at 65536).
pub fn bootstrap_expansion(b: &[u8]) -> Option<u64> {
	struct R<'a> { b: &'a [u8], p: usize }
	impl<'a> R<'a> {
		fn u8(&mut self) -> Option<u8> { let x = *self.b.get(self.p)?; self.p += 1; Some(x) }
		fn u16(&mut self) -> Option<u16> { let s = self.b.get(self.p..self.p + 2)?; self.p += 2; Some(u16::from_be_bytes([s[0], s[1]])) }
		fn u32(&mut self) -> Option<u32> { let s = self.b.get(self.p..self.p + 4)?; self.p += 4; Some(u32::from_be_bytes([s[0], s[1], s[2], s[3]])) }
		fn take(&mut self, n: usize) -> Option<&'a [u8]> { let s = self.b.get(self.p..self.p.checked_add(n)?)?; self.p += n; Some(s) }
	}
	let mut r = R { b, p: 0 };
	r.take(8)?;
	let count = r.u16()? as usize;
	// per pool index: Some(bsm index) for Dynamic (17) / InvokeDynamic (18)
	let mut dynamic: Vec<Option<u16>> = vec![None; count.max(1)];
	let mut utf8: HashMap<usize, &[u8]> = HashMap::new();
	let mut i = 1;
	while i < count {
		match r.u8()? {
			1 => { let l = r.u16()? as usize; utf8.insert(i, r.take(l)?); }
			3 | 4 => { r.take(4)?; }
			5 | 6 => { r.take(8)?; i += 1; }
			7 | 8 | 16 | 19 | 20 => { r.take(2)?; }
			9 | 10 | 11 | 12 => { r.take(4)?; }
			17 | 18 => { dynamic[i] = Some(r.u16()?); r.take(2)?; }
			15 => { r.take(3)?; }
			_ => return None,
		}
		i += 1;
	}
	r.take(6)?;
	let n = r.u16()? as usize; r.take(2 * n)?;
	let mut codes: Vec<&[u8]> = vec![];
	let mut bsms: Vec<Vec<u16>> = vec![];
	for _ in 0..2 {
		let members = r.u16()?;
		for _ in 0..members {
			r.take(6)?;
			let na = r.u16()?;
			for _ in 0..na {
				let name = r.u16()? as usize; let len = r.u32()? as usize; let body = r.take(len)?;
				if utf8.get(&name).copied() == Some(b"Code") {
					let mut c = R { b: body, p: 4 };
					let cl = c.u32()? as usize;
					codes.push(c.take(cl)?);
				}
			}
		}
	}
	let na = r.u16()?;
	for _ in 0..na {
		let name = r.u16()? as usize; let len = r.u32()? as usize; let body = r.take(len)?;
		if utf8.get(&name).copied() == Some(b"BootstrapMethods") {
			let mut c = R { b: body, p: 0 };
			let k = c.u16()?;
			for _ in 0..k { c.u16()?; let a = c.u16()?; let mut v = vec![]; for _ in 0..a { v.push(c.u16()?); } bsms.push(v); }
		}
	}
	const CAP: u64 = 65536;
	fn expand(idx: u16, dynamic: &[Option<u16>], bsms: &[Vec<u16>], depth: usize, memo: &mut HashMap<u16, u64>) -> u64 {
		if depth > 66 { return 1; }
		let Some(Some(b)) = dynamic.get(idx as usize) else { return 1; };
		if let Some(&m) = memo.get(&idx) { return m; }
		let mut t = 1u64;
		if let Some(args) = bsms.get(*b as usize) { for &a in args { t = (t + expand(a, dynamic, bsms, depth + 1, memo)).min(CAP); if t >= CAP { break; } } }
		memo.insert(idx, t);
		t
	}
	let mut memo = HashMap::new();
	let mut total = 0u64;
	for code in codes {
		// instruction walk (only what is needed to find ldc / ldc_w / ldc2_w / invokedynamic)
		let mut w = Walker { b: code, p: 0, sites: vec![], utf8: HashMap::new() };
		w.code(0, code.len());
		for s in w.sites.iter().filter(|s| s.kind == Kind::PoolIdx) {
			let op = code[s.off - 1];
			let idx = read_at(code, s.off, s.w) as u16;
			if matches!(op, 0x12 | 0x13 | 0x14 | 0xba) { total = total.saturating_add(expand(idx, &dynamic, &bsms, 0, &mut memo)); }
		}
	}
	Some(total)
}
