//! C20 — raw_class_file reads and writes class files byte-exactly.
//!
//! Implementation under test: `raw_class_file::ClassFile::{read, to_bytes, write, length}`.
//! Independent consumers / references used by the oracle:
//!   * `jvms::check` (below): a strict walker of the JVMS 4.1–4.7 layouts written for this harness
//!     (two-slot Long/Double rule, every attribute_length compared with the structure it covers),
//!   * `duke::read_class` on files the crate wrote.
//! Correspondence cases: values are printed from the crate's own `#[derive(Debug)]` output (so every
//! struct/enum the crate declares is covered without a hand-written conversion per type).
use fbh::gal::*;
use fbh::prng::Rng;
use fbh::report::{guarded, Report};
use fbh::Ctx;
use raw_class_file::{
	Annotation, AttributeInfo, BootstrapMethodsEntry, ClassFile, CpInfo, ElementValue, ElementValuePairsEntry, ExceptionTableEntry, FieldInfo,
	InnerClassesEntry, LineNumberTableEntry, LocalVariableTableEntry, LocalVariableTypeTableEntry, MethodInfo, MethodParametersEntry,
	ModuleExportsEntry, ModuleOpensEntry, ModuleProvidesEntry, ModuleRequiresEntry, ParameterAnnotationEntry, RecordComponentInfo, StackMapFrame,
	VerificationTypeInfo,
};
use std::io::Cursor;

// ------------------------------------------------------------------ Debug output -> Gallina `nval`
#[derive(Debug, Clone, PartialEq)]
enum NV { N(u64), B(Vec<u64>), L(Vec<NV>), R(String, Vec<NV>) }

struct DP<'a> { s: &'a [u8], i: usize }
impl<'a> DP<'a> {
	fn ws(&mut self) { while self.i < self.s.len() && (self.s[self.i] == b' ' || self.s[self.i] == b'\n') { self.i += 1; } }
	fn value(&mut self) -> Result<NV, String> {
		self.ws();
		let c = *self.s.get(self.i).ok_or("eof")?;
		if c.is_ascii_digit() {
			let st = self.i;
			while self.i < self.s.len() && self.s[self.i].is_ascii_digit() { self.i += 1; }
			return std::str::from_utf8(&self.s[st..self.i]).unwrap().parse::<u64>().map(NV::N).map_err(|e| e.to_string());
		}
		if c == b'[' {
			self.i += 1;
			let mut xs = vec![];
			loop {
				self.ws();
				if self.s.get(self.i) == Some(&b']') { self.i += 1; break; }
				xs.push(self.value()?);
				self.ws();
				if self.s.get(self.i) == Some(&b',') { self.i += 1; }
			}
			if xs.iter().all(|x| matches!(x, NV::N(_))) { return Ok(NV::B(xs.iter().map(|x| if let NV::N(n) = x { *n } else { 0 }).collect())); }
			return Ok(NV::L(xs));
		}
		if c.is_ascii_alphabetic() || c == b'_' {
			let st = self.i;
			while self.i < self.s.len() && (self.s[self.i].is_ascii_alphanumeric() || self.s[self.i] == b'_') { self.i += 1; }
			let name = std::str::from_utf8(&self.s[st..self.i]).unwrap().to_string();
			self.ws();
			let mut fs = vec![];
			if self.s.get(self.i) == Some(&b'{') {
				self.i += 1;
				loop {
					self.ws();
					if self.s.get(self.i) == Some(&b'}') { self.i += 1; break; }
					while self.i < self.s.len() && self.s[self.i] != b':' { self.i += 1; }   // field name
					self.i += 1;
					fs.push(self.value()?);
					self.ws();
					if self.s.get(self.i) == Some(&b',') { self.i += 1; }
				}
			}
			return Ok(NV::R(name, fs));
		}
		Err(format!("unexpected {:?} at {}", c as char, self.i))
	}
}
fn nv_of<T: std::fmt::Debug>(v: &T) -> NV {
	let s = format!("{v:?}");
	let mut p = DP { s: s.as_bytes(), i: 0 };
	let r = p.value().unwrap_or_else(|e| panic!("cannot parse Debug output: {e}: {s}"));
	p.ws();
	assert!(p.i == s.len(), "trailing Debug output");
	r
}
fn g_nv(v: &NV) -> String {
	match v {
		NV::N(n) => format!("(NN {n})"),
		NV::B(b) => format!("(NB {})", gnums(b.iter().copied())),
		NV::L(l) => format!("(NL {})", glist(l.iter().map(g_nv))),
		NV::R(n, fs) => format!("(NR \"{n}\" {})", glist(fs.iter().map(g_nv))),
	}
}
fn g_bytes(b: &[u8]) -> String { gnums(b.iter().map(|&x| x as u64)) }

// ------------------------------------------------------------------ the implementation
fn impl_write(c: &ClassFile) -> Result<Vec<u8>, String> { let c = c.clone(); guarded(move || c.to_bytes()) }
fn impl_length(c: &ClassFile) -> Result<usize, String> { let c = c.clone(); guarded(move || c.length()) }
/// Ok(Some((value, bytes consumed))) | Ok(None) = Err(_) | Err = panic
fn impl_read(b: &[u8]) -> Result<Option<(ClassFile, usize)>, String> {
	let b = b.to_vec();
	guarded(move || { let mut c = Cursor::new(&b); ClassFile::read(&mut c).ok().map(|v| (v, c.position() as usize)) })
}
fn impl_write_stream(c: &ClassFile) -> Result<Option<Vec<u8>>, String> {
	let c = c.clone();
	guarded(move || { let mut v = Vec::new(); c.write(&mut v).ok().map(|_| v) })
}

/// a writer that takes at most `chunk` bytes per call (what pipes, sockets and full buffers do) and is interrupted now
/// and then: `Write::write` may accept less than it is given, only `write_all` hands over everything
struct ChunkWriter { out: Vec<u8>, chunk: usize, calls: usize, interrupt_every: usize }
impl std::io::Write for ChunkWriter {
	fn write(&mut self, buf: &[u8]) -> std::io::Result<usize> {
		self.calls += 1;
		if self.interrupt_every != 0 && self.calls % self.interrupt_every == 0 { return Err(std::io::Error::new(std::io::ErrorKind::Interrupted, "interrupted")); }
		let n = buf.len().min(self.chunk);
		self.out.extend_from_slice(&buf[..n]);
		Ok(n)
	}
	fn flush(&mut self) -> std::io::Result<()> { Ok(()) }
}
/// ClassFile::write through partial-write writers: (what, bytes that arrived or None for Err)
fn impl_write_partial(c: &ClassFile, len: usize) -> Vec<(String, Result<Option<Vec<u8>>, String>)> {
	use std::io::Write;
	let chunk = 7 + (len * 31 + 5) % 58; // 7..64
	let mut out = vec![];
	let c1 = c.clone();
	out.push((format!("a writer accepting at most {chunk} bytes per call"), guarded(move || { let mut w = ChunkWriter { out: vec![], chunk, calls: 0, interrupt_every: 0 }; c1.write(&mut w).ok().map(|_| w.out) })));
	let c2 = c.clone();
	out.push((format!("a writer accepting at most {chunk} bytes per call and answering every 5th call with ErrorKind::Interrupted"), guarded(move || { let mut w = ChunkWriter { out: vec![], chunk, calls: 0, interrupt_every: 5 }; c2.write(&mut w).ok().map(|_| w.out) })));
	let c3 = c.clone();
	out.push((format!("BufWriter::with_capacity(16, a writer accepting at most {chunk} bytes per call)"), guarded(move || {
		let mut w = std::io::BufWriter::with_capacity(16, ChunkWriter { out: vec![], chunk, calls: 0, interrupt_every: 0 });
		if c3.write(&mut w).is_err() || w.flush().is_err() { return None; }
		w.into_inner().ok().map(|x| x.out)
	})));
	let c4 = c.clone();
	out.push(("Cursor over a mutable slice of exactly length() bytes".to_string(), guarded(move || { let mut buf = vec![0xAAu8; len]; let mut cur = Cursor::new(&mut buf[..]); let ok = c4.write(&mut cur).is_ok() && cur.position() as usize == len; if ok { Some(buf) } else { None } })));
	out
}
/// writing into a slice that is one byte too short must be reported as an error
fn impl_write_short_slice(c: &ClassFile, len: usize) -> Result<bool, String> {
	let c = c.clone();
	guarded(move || { let mut buf = vec![0u8; len.saturating_sub(1)]; let mut cur = Cursor::new(&mut buf[..]); c.write(&mut cur).is_err() })
}

// ------------------------------------------------------------------ independent JVMS walker
mod jvms {
	pub struct W<'a> { pub b: &'a [u8], pub i: usize, pub utf8: Vec<Option<Vec<u8>>>, pub wide: bool }
	type R<T> = Result<T, String>;
	impl<'a> W<'a> {
		fn u(&mut self, n: usize) -> R<u64> {
			if self.i + n > self.b.len() { return Err(format!("end of input at {}", self.i)); }
			let mut x = 0u64;
			for k in 0..n { x = x << 8 | self.b[self.i + k] as u64; }
			self.i += n;
			Ok(x)
		}
		fn skip(&mut self, n: usize) -> R<()> { if self.i + n > self.b.len() { return Err("end of input".into()); } self.i += n; Ok(()) }
		fn table(&mut self, cw: usize, mut f: impl FnMut(&mut Self) -> R<()>) -> R<()> { let n = self.u(cw)?; for _ in 0..n { f(self)?; } Ok(()) }
		fn u2s(&mut self, k: usize) -> R<()> { self.skip(2 * k) }
		pub fn pool(&mut self) -> R<()> {
			let count = self.u(2)? as usize;
			if count == 0 { return Err("constant_pool_count 0".into()); }
			self.utf8 = vec![None; count];
			let mut slot = 1;
			while slot < count {
				let tag = self.u(1)?;
				match tag {
					7 | 8 | 16 | 19 | 20 => self.skip(2)?,
					9 | 10 | 11 | 12 | 17 | 18 | 3 | 4 => self.skip(4)?,
					15 => self.skip(3)?,
					5 | 6 => { self.skip(8)?; self.wide = true; slot += 1; }
					1 => { let n = self.u(2)? as usize; if self.i + n > self.b.len() { return Err("utf8 past end".into()); } self.utf8[slot] = Some(self.b[self.i..self.i + n].to_vec()); self.i += n; }
					t => return Err(format!("constant pool tag {t}")),
				}
				slot += 1;
			}
			if slot != count { return Err("long/double in the last slot".into()); }
			Ok(())
		}
		fn vti(&mut self) -> R<()> { match self.u(1)? { 0..=6 => Ok(()), 7 | 8 => self.skip(2), t => Err(format!("verification type {t}")) } }
		fn element(&mut self, depth: usize) -> R<()> {
			if depth > 5000 { return Err("element value nesting".into()); }
			match self.u(1)? as u8 {
				b'B' | b'C' | b'D' | b'F' | b'I' | b'J' | b'S' | b'Z' | b's' | b'c' => self.skip(2),
				b'e' => self.skip(4),
				b'@' => self.annotation(depth + 1),
				b'[' => self.table(2, |w| w.element(depth + 1)),
				t => Err(format!("element value tag {t}")),
			}
		}
		fn annotation(&mut self, depth: usize) -> R<()> { self.skip(2)?; self.table(2, |w| { w.skip(2)?; w.element(depth) }) }
		fn frame(&mut self) -> R<()> {
			let t = self.u(1)?;
			match t {
				0..=63 => Ok(()),
				64..=127 => self.vti(),
				247 => { self.skip(2)?; self.vti() }
				248..=251 => self.skip(2),
				252..=254 => { self.skip(2)?; for _ in 0..(t - 251) { self.vti()?; } Ok(()) }
				255 => { self.skip(2)?; self.table(2, |w| w.vti())?; self.table(2, |w| w.vti()) }
				t => Err(format!("reserved stack map frame type {t}")),
			}
		}
		pub fn attributes(&mut self, depth: usize) -> R<()> { self.table(2, |w| w.attribute(depth)) }
		fn attribute(&mut self, depth: usize) -> R<()> {
			if depth > 2000 { return Err("attribute nesting".into()); }
			let name_index = self.u(2)? as usize;
			let name = self.utf8.get(name_index).cloned().flatten().ok_or(format!("attribute name index {name_index} is not a Utf8 entry"))?;
			let len = self.u(4)? as usize;
			let start = self.i;
			if start + len > self.b.len() { return Err("attribute body past end".into()); }
			let fixed = |w: &mut Self, n: usize| w.skip(n);
			match name.as_slice() {
				b"ConstantValue" | b"Signature" | b"SourceFile" | b"ModuleMainClass" | b"NestHost" => fixed(self, 2)?,
				b"EnclosingMethod" => fixed(self, 4)?,
				b"Synthetic" | b"Deprecated" => {}
				b"Code" => {
					self.skip(4)?;
					let n = self.u(4)? as usize; self.skip(n)?;
					self.table(2, |w| w.skip(8))?;
					self.attributes(depth + 1)?;
				}
				b"StackMapTable" => self.table(2, |w| w.frame())?,
				b"Exceptions" | b"ModulePackages" | b"NestMembers" | b"PermittedSubclasses" => self.table(2, |w| w.skip(2))?,
				b"InnerClasses" => self.table(2, |w| w.skip(8))?,
				b"LineNumberTable" => self.table(2, |w| w.skip(4))?,
				b"LocalVariableTable" | b"LocalVariableTypeTable" => self.table(2, |w| w.skip(10))?,
				b"RuntimeVisibleAnnotations" | b"RuntimeInvisibleAnnotations" => self.table(2, |w| w.annotation(0))?,
				b"RuntimeVisibleParameterAnnotations" | b"RuntimeInvisibleParameterAnnotations" => self.table(1, |w| w.table(2, |w| w.annotation(0)))?,
				b"AnnotationDefault" => self.element(0)?,
				b"BootstrapMethods" => self.table(2, |w| { w.skip(2)?; w.table(2, |w| w.skip(2)) })?,
				b"MethodParameters" => self.table(1, |w| w.skip(4))?,
				b"Module" => {
					self.u2s(3)?;
					self.table(2, |w| w.u2s(3))?;
					self.table(2, |w| { w.u2s(2)?; w.table(2, |w| w.u2s(1)) })?;
					self.table(2, |w| { w.u2s(2)?; w.table(2, |w| w.u2s(1)) })?;
					self.table(2, |w| w.u2s(1))?;
					self.table(2, |w| { w.u2s(1)?; w.table(2, |w| w.u2s(1)) })?;
				}
				b"Record" => self.table(2, |w| { w.skip(4)?; w.attributes(depth + 1) })?,
				_ => self.skip(len)?,   // SourceDebugExtension, type annotations, unknown: opaque
			}
			if self.i != start + len {
				return Err(format!("attribute {} at {}: attribute_length {} but the structure occupies {} bytes", String::from_utf8_lossy(&name), start - 6, len, self.i as i64 - start as i64));
			}
			Ok(())
		}
	}
	/// Ok(has Long/Double) iff `b` is laid out as JVMS 4.1 says, every attribute_length exact, nothing left over
	pub fn check(b: &[u8]) -> Result<bool, String> {
		let mut w = W { b, i: 0, utf8: vec![], wide: false };
		if w.u(4)? != 0xCAFEBABE { return Err("magic".into()); }
		w.skip(4)?;
		w.pool()?;
		w.skip(6)?;
		w.table(2, |w| w.skip(2))?;
		w.table(2, |w| { w.skip(6)?; w.attributes(0) })?;
		w.table(2, |w| { w.skip(6)?; w.attributes(0) })?;
		w.attributes(0)?;
		if w.i != b.len() { return Err(format!("{} trailing bytes", b.len() - w.i)); }
		Ok(w.wide)
	}
}

// ------------------------------------------------------------------ generators
const ATTR_NAMES: [&str; 32] = ["ConstantValue", "Code", "StackMapTable", "Exceptions", "InnerClasses", "EnclosingMethod", "Synthetic", "Signature",
	"SourceFile", "SourceDebugExtension", "LineNumberTable", "LocalVariableTable", "LocalVariableTypeTable", "Deprecated", "RuntimeVisibleAnnotations",
	"RuntimeInvisibleAnnotations", "RuntimeVisibleParameterAnnotations", "RuntimeInvisibleParameterAnnotations", "AnnotationDefault", "BootstrapMethods",
	"MethodParameters", "Module", "ModulePackages", "ModuleMainClass", "NestHost", "NestMembers", "Record", "PermittedSubclasses",
	"RuntimeVisibleTypeAnnotations", "Unknown", "X", ""];

/// JVMS 4.4.5 (written for the harness, not the crate's `CpInfo::slots`): an 8-byte constant takes up two pool indices
fn is_wide(c: &CpInfo) -> bool { matches!(c, CpInfo::Long { .. } | CpInfo::Double { .. }) }
fn indices_used(e: &[CpInfo]) -> usize { e.iter().map(|c| if is_wide(c) { 2 } else { 1 }).sum() }

/// a pool under construction; the numbers returned are JVMS pool indices (the first entry has index 1, the entry
/// after a Long/Double at n has index n + 2)
#[derive(Default)]
struct Pool { e: Vec<CpInfo> }
impl Pool {
	fn push(&mut self, c: CpInfo) -> u16 { let i = 1 + indices_used(&self.e); self.e.push(c); i as u16 }
	fn utf8(&mut self, s: &str) -> u16 {
		let mut index = 1u16;
		for c in &self.e {
			if let CpInfo::Utf8 { bytes } = c { if bytes == s.as_bytes() { return index; } }
			index += if is_wide(c) { 2 } else { 1 };
		}
		self.push(CpInfo::Utf8 { bytes: s.as_bytes().to_vec() })
	}
	fn class(&mut self, s: &str) -> u16 { let n = self.utf8(s); self.push(CpInfo::Class { name_index: n }) }
	fn nat(&mut self, n: &str, d: &str) -> u16 { let a = self.utf8(n); let b = self.utf8(d); self.push(CpInfo::NameAndType { name_index: a, descriptor_index: b }) }
}

/// random raw structure: every declared struct/enum/variant can occur; indices are arbitrary numbers except
/// attribute names (they select the variant when reading back)
struct RawGen<'a> { rng: &'a mut Rng, pool: Pool, budget: i64, wide: bool }
impl<'a> RawGen<'a> {
	fn u16(&mut self) -> u16 { match self.rng.below(6) { 0 => 0, 1 => 0xFFFF, 2 => self.rng.below(256) as u16, _ => self.rng.below(65536) as u16 } }
	fn idx(&mut self) -> u16 { self.rng.range(0, indices_used(&self.pool.e).max(1) + 1) as u16 }
	fn n(&mut self, max: usize) -> usize { if self.budget <= 0 { 0 } else { let k = self.rng.below(max + 1); self.budget -= k as i64; k } }
	fn u16s(&mut self, max: usize) -> Vec<u16> { let k = self.n(max); (0..k).map(|_| self.idx()).collect() }
	fn cp(&mut self) -> CpInfo {
		let k = if self.wide { self.rng.below(17) } else { self.rng.below(15) };
		let (a, b) = (self.u16(), self.u16());
		match k {
			0 => CpInfo::Class { name_index: a }, 1 => CpInfo::Fieldref { class_index: a, name_and_type_index: b },
			2 => CpInfo::Methodref { class_index: a, name_and_type_index: b }, 3 => CpInfo::InterfaceMethodref { class_index: a, name_and_type_index: b },
			4 => CpInfo::String { string_index: a }, 5 => CpInfo::Integer { bytes: self.rng.next() as u32 }, 6 => CpInfo::Float { bytes: self.rng.next() as u32 },
			7 => CpInfo::NameAndType { name_index: a, descriptor_index: b },
			8 => { let k = self.rng.below(6); CpInfo::Utf8 { bytes: (0..k).map(|_| self.rng.below(256) as u8).collect() } }
			9 => CpInfo::MethodHandle { reference_kind: self.rng.below(256) as u8, reference_index: a }, 10 => CpInfo::MethodType { descriptor_index: a },
			11 => CpInfo::Dynamic { bootstrap_method_attr_index: a, name_and_type_index: b }, 12 => CpInfo::InvokeDynamic { bootstrap_method_attr_index: a, name_and_type_index: b },
			13 => CpInfo::Module { name_index: a }, 14 => CpInfo::Package { name_index: a },
			15 => CpInfo::Long { high_bytes: self.rng.next() as u32, low_bytes: self.rng.next() as u32 },
			_ => CpInfo::Double { high_bytes: self.rng.next() as u32, low_bytes: self.rng.next() as u32 },
		}
	}
	fn vti(&mut self) -> VerificationTypeInfo {
		match self.rng.below(9) {
			0 => VerificationTypeInfo::Top {}, 1 => VerificationTypeInfo::Integer {}, 2 => VerificationTypeInfo::Float {}, 3 => VerificationTypeInfo::Null {},
			4 => VerificationTypeInfo::UnintializedThis {}, 5 => VerificationTypeInfo::Object { cpool_index: self.idx() },
			6 => VerificationTypeInfo::Unintialized { offset: self.u16() }, 7 => VerificationTypeInfo::Long {}, _ => VerificationTypeInfo::Double {},
		}
	}
	fn frame(&mut self) -> StackMapFrame {
		match self.rng.below(7) {
			0 => StackMapFrame::SameFrame { offset_delta: self.rng.below(64) as u8 },
			1 => StackMapFrame::SameLocals1StackItemFrame { offset_delta: self.rng.below(64) as u8, stack: self.vti() },
			2 => StackMapFrame::SameLocals1StackItemFrameExtended { offset_delta: self.u16(), stack: self.vti() },
			3 => StackMapFrame::ChopFrame { k: self.rng.range(1, 3) as u8, offset_delta: self.u16() },
			4 => StackMapFrame::SameFrameExtended { offset_delta: self.u16() },
			5 => { let k = self.rng.range(1, 3); StackMapFrame::AppendFrame { offset_delta: self.u16(), locals: (0..k).map(|_| self.vti()).collect() } }
			_ => { let a = self.n(3); let b = self.n(3); StackMapFrame::FullFrame { offset_delta: self.u16(), locals: (0..a).map(|_| self.vti()).collect(), stack: (0..b).map(|_| self.vti()).collect() } }
		}
	}
	fn element(&mut self, depth: usize) -> ElementValue {
		let i = self.idx();
		match self.rng.below(if depth > 2 { 11 } else { 13 }) {
			0 => ElementValue::Byte { const_value_index: i }, 1 => ElementValue::Char { const_value_index: i }, 2 => ElementValue::Double { const_value_index: i },
			3 => ElementValue::Float { const_value_index: i }, 4 => ElementValue::Integer { const_value_index: i }, 5 => ElementValue::Long { const_value_index: i },
			6 => ElementValue::Short { const_value_index: i }, 7 => ElementValue::Boolean { const_value_index: i }, 8 => ElementValue::String { const_value_index: i },
			9 => ElementValue::Enum { type_name_index: i, const_name_index: self.idx() }, 10 => ElementValue::Class { class_info_index: i },
			11 => ElementValue::Annotation { annotation_value: self.annotation(depth + 1) },
			_ => { let k = self.n(3); ElementValue::Array { values: (0..k).map(|_| self.element(depth + 1)).collect() } }
		}
	}
	fn annotation(&mut self, depth: usize) -> Annotation {
		let k = self.n(2);
		Annotation { type_index: self.idx(), element_value_pairs: (0..k).map(|_| ElementValuePairsEntry { element_name_index: self.idx(), value: self.element(depth) }).collect() }
	}
	fn attrs(&mut self, depth: usize, max: usize) -> Vec<AttributeInfo> { let k = self.n(max); (0..k).map(|_| self.attr(depth)).collect() }
	fn attr(&mut self, depth: usize) -> AttributeInfo {
		let kind = self.rng.below(if depth >= 2 { 29 } else { 31 });
		let kind = if depth >= 2 && (kind == 1 || kind == 26) { 6 } else { kind };
		self.attr_of_kind(depth, kind)
	}
	/// kind 0..=27: the attribute kinds the crate models, in declaration order; above: a name the crate does not model
	fn attr_of_kind(&mut self, depth: usize, kind: usize) -> AttributeInfo {
		let name = if kind <= 27 { ATTR_NAMES[kind] } else { ATTR_NAMES[28 + self.rng.below(4)] };
		let ani = self.pool.utf8(name);
		let i = self.idx();
		match kind {
			0 => AttributeInfo::ConstantValue { attribute_name_index: ani, constantvalue_index: i },
			1 => {
				let c = self.n(6); let e = self.n(2);
				AttributeInfo::Code { attribute_name_index: ani, max_stack: self.u16(), max_locals: self.u16(), code: (0..c).map(|_| self.rng.below(256) as u8).collect(),
					exception_table: (0..e).map(|_| ExceptionTableEntry { start_pc: self.u16(), end_pc: self.u16(), handler_pc: self.u16(), catch_type: self.idx() }).collect(),
					attributes: self.attrs(depth + 1, 3) }
			}
			2 => { let k = self.n(4); AttributeInfo::StackMapTable { attribute_name_index: ani, entries: (0..k).map(|_| self.frame()).collect() } }
			3 => AttributeInfo::Exceptions { attribute_name_index: ani, exception_index_table: self.u16s(3) },
			4 => { let k = self.n(2); AttributeInfo::InnerClasses { attribute_name_index: ani, classes: (0..k).map(|_| InnerClassesEntry { inner_class_info_index: self.idx(), outer_class_info_index: self.idx(), inner_name_index: self.idx(), inner_class_access_flags: self.u16() }).collect() } }
			5 => AttributeInfo::EnclosingMethod { attribute_name_index: ani, class_index: i, method_index: self.idx() },
			6 => AttributeInfo::Synthetic { attribute_name_index: ani },
			7 => AttributeInfo::Signature { attribute_name_index: ani, signature_index: i },
			8 => AttributeInfo::SourceFile { attribute_name_index: ani, sourcefile_index: i },
			9 => { let k = self.n(5); AttributeInfo::SourceDebugExtension { attribute_name_index: ani, debug_extension: (0..k).map(|_| self.rng.below(256) as u8).collect() } }
			10 => { let k = self.n(3); AttributeInfo::LineNumberTable { attribute_name_index: ani, line_number_table: (0..k).map(|_| LineNumberTableEntry { start_pc: self.u16(), line_number: self.u16() }).collect() } }
			11 => { let k = self.n(2); AttributeInfo::LocalVariableTable { attribute_name_index: ani, local_variable_table: (0..k).map(|_| LocalVariableTableEntry { start_pc: self.u16(), length: self.u16(), name_index: self.idx(), descriptor_index: self.idx(), index: self.u16() }).collect() } }
			12 => { let k = self.n(2); AttributeInfo::LocalVariableTypeTable { attribute_name_index: ani, local_variable_type_table: (0..k).map(|_| LocalVariableTypeTableEntry { start_pc: self.u16(), length: self.u16(), name_index: self.idx(), signature_index: self.idx(), index: self.u16() }).collect() } }
			13 => AttributeInfo::Deprecated { attribute_name_index: ani },
			14 => { let k = self.n(2); AttributeInfo::RuntimeVisibleAnnotations { attribute_name_index: ani, annotations: (0..k).map(|_| self.annotation(0)).collect() } }
			15 => { let k = self.n(2); AttributeInfo::RuntimeInvisibleAnnotations { attribute_name_index: ani, annotations: (0..k).map(|_| self.annotation(0)).collect() } }
			16 | 17 => {
				let k = self.n(2);
				let pa = (0..k).map(|_| { let j = self.n(2); ParameterAnnotationEntry { annotations: (0..j).map(|_| self.annotation(0)).collect() } }).collect();
				if kind == 16 { AttributeInfo::RuntimeVisibleParameterAnnotations { attribute_name_index: ani, parameter_annotations: pa } }
				else { AttributeInfo::RuntimeInvisibleParameterAnnotations { attribute_name_index: ani, parameter_annotations: pa } }
			}
			18 => AttributeInfo::AnnotationDefault { attribute_name_index: ani, default_value: self.element(0) },
			19 => { let k = self.n(2); AttributeInfo::BootstrapMethods { attribute_name_index: ani, bootstrap_methods: (0..k).map(|_| BootstrapMethodsEntry { bootstrap_method_ref: self.idx(), boostrap_arguments: self.u16s(3) }).collect() } }
			20 => { let k = self.n(3); AttributeInfo::MethodParameters { attribute_name_index: ani, parameters: (0..k).map(|_| MethodParametersEntry { name_index: self.idx(), access_flags: self.u16() }).collect() } }
			21 => {
				let (a, b, c, d) = (self.n(2), self.n(2), self.n(2), self.n(2));
				AttributeInfo::Module { attribute_name_index: ani, module_name_index: i, module_flags: self.u16(), module_version_index: self.idx(),
					requires: (0..a).map(|_| ModuleRequiresEntry { requires_index: self.idx(), requires_flags: self.u16(), requires_version_index: self.idx() }).collect(),
					exports: (0..b).map(|_| ModuleExportsEntry { exports_index: self.idx(), exports_flags: self.u16(), exports_to_index: self.u16s(2) }).collect(),
					opens: (0..c).map(|_| ModuleOpensEntry { opens_index: self.idx(), opens_flags: self.u16(), opens_to_index: self.u16s(2) }).collect(),
					uses_index: self.u16s(2),
					provides: (0..d).map(|_| ModuleProvidesEntry { provides_index: self.idx(), provides_with_index: self.u16s(2) }).collect() }
			}
			22 => AttributeInfo::ModulePackages { attribute_name_index: ani, package_index: self.u16s(3) },
			23 => AttributeInfo::ModuleMainClass { attribute_name_index: ani, main_class_index: i },
			24 => AttributeInfo::NestHost { attribute_name_index: ani, host_class_index: i },
			25 => AttributeInfo::NestMembers { attribute_name_index: ani, classes: self.u16s(3) },
			26 => { let k = self.n(2); AttributeInfo::Record { attribute_name_index: ani, components: (0..k).map(|_| RecordComponentInfo { name_index: self.idx(), descriptor_index: self.idx(), attributes: self.attrs(depth + 1, 2) }).collect() } }
			27 => AttributeInfo::PermittedSubclasses { attribute_name_index: ani, classes: self.u16s(3) },
			_ => { let k = self.n(6); AttributeInfo::Other { attribute_name_index: ani, info: (0..k).map(|_| self.rng.below(256) as u8).collect() } }
		}
	}
	fn class(&mut self) -> ClassFile {
		let k = self.rng.below(6);
		for _ in 0..k { let c = self.cp(); self.pool.e.push(c); }
		let nf = self.n(2); let nm = self.n(2);
		let fields = (0..nf).map(|_| FieldInfo { access_flags: self.u16(), name_index: self.idx(), descriptor_index: self.idx(), attributes: self.attrs(0, 3) }).collect();
		let methods = (0..nm).map(|_| MethodInfo { access_flags: self.u16(), name_index: self.idx(), descriptor_index: self.idx(), attributes: self.attrs(0, 3) }).collect();
		let mut attributes = self.attrs(0, 4);
		let mut k = self.rng.below(4);
		if self.rng.chance(1, 3) {
			// the name of the last attribute is the very LAST pool entry (javac -g:none ends a trivial class's pool with "Code"),
			// in wide mode half of the time directly behind an 8-byte constant
			k = 0;
			if self.wide && self.rng.chance(1, 2) { let c = if self.rng.chance(1, 2) { CpInfo::Long { high_bytes: self.rng.next() as u32, low_bytes: self.rng.next() as u32 } } else { CpInfo::Double { high_bytes: self.rng.next() as u32, low_bytes: self.rng.next() as u32 } }; self.pool.e.push(c); }
			let fresh: Vec<&str> = ["Deprecated", "Synthetic", "SourceFile", "Signature", "NestHost", "ModuleMainClass", "ConstantValue", "Code", "Exceptions", "SourceDebugExtension", "ZLast"].into_iter()
				.filter(|n| !self.pool.e.iter().any(|c| matches!(c, CpInfo::Utf8 { bytes } if bytes == n.as_bytes()))).collect();
			if let Some(name) = fresh.get(self.rng.below(fresh.len().max(1))) {
				let i = self.idx();
				let ani = self.pool.utf8(name);
				debug_assert_eq!(ani as usize, indices_used(&self.pool.e));
				attributes.push(match *name {
					"Deprecated" => AttributeInfo::Deprecated { attribute_name_index: ani }, "Synthetic" => AttributeInfo::Synthetic { attribute_name_index: ani },
					"SourceFile" => AttributeInfo::SourceFile { attribute_name_index: ani, sourcefile_index: i }, "Signature" => AttributeInfo::Signature { attribute_name_index: ani, signature_index: i },
					"NestHost" => AttributeInfo::NestHost { attribute_name_index: ani, host_class_index: i }, "ModuleMainClass" => AttributeInfo::ModuleMainClass { attribute_name_index: ani, main_class_index: i },
					"ConstantValue" => AttributeInfo::ConstantValue { attribute_name_index: ani, constantvalue_index: i },
					"Code" => AttributeInfo::Code { attribute_name_index: ani, max_stack: 1, max_locals: 1, code: vec![0xb1], exception_table: vec![], attributes: vec![] },
					"Exceptions" => AttributeInfo::Exceptions { attribute_name_index: ani, exception_index_table: vec![i] },
					"SourceDebugExtension" => AttributeInfo::SourceDebugExtension { attribute_name_index: ani, debug_extension: vec![1, 2, 3] },
					_ => AttributeInfo::Other { attribute_name_index: ani, info: vec![7] },
				});
			}
		}
		for _ in 0..k { let c = self.cp(); self.pool.e.push(c); }
		ClassFile { minor_version: self.u16(), major_version: self.u16(), constant_pool: std::mem::take(&mut self.pool.e), access_flags: self.u16(),
			this_class: self.idx(), super_class: self.idx(), interfaces: self.u16s(3), fields, methods, attributes }
	}
}
fn gen_raw(rng: &mut Rng, wide: bool) -> ClassFile {
	let budget = rng.range(4, 40) as i64;
	RawGen { rng, pool: Pool::default(), budget, wide }.class()
}

/// a small class that is valid enough for duke to accept, with the facts duke must report
struct Facts { name: String, fields: Vec<String>, methods: Vec<String>, nest_members: Option<Vec<String>>, permitted: Option<Vec<String>>,
	params: Vec<Option<Vec<Option<String>>>>, source_file: Option<String>, inner: Option<usize>, record: Vec<String>, exceptions: Vec<Option<Vec<String>>> }
fn gen_valid(rng: &mut Rng) -> (ClassFile, Facts) {
	let mut p = Pool::default();
	let names = ["pkg/Alpha", "Beta", "a/b/Gamma", "Delta$Inner"];
	let name = names[rng.below(names.len())].to_string();
	// 8-byte constants in front of everything: every index used below lies behind their second indices
	for _ in 0..rng.below(3) { p.push(if rng.chance(1, 2) { CpInfo::Long { high_bytes: rng.next() as u32, low_bytes: rng.next() as u32 } } else { CpInfo::Double { high_bytes: rng.next() as u32, low_bytes: rng.next() as u32 } }); }
	let this_class = p.class(&name);
	let super_class = p.class("java/lang/Object");
	let interfaces: Vec<u16> = (0..rng.below(3)).map(|i| p.class(["java/lang/Runnable", "java/io/Serializable"][i])).collect();
	let mut f = Facts { name, fields: vec![], methods: vec![], nest_members: None, permitted: None, params: vec![], source_file: None, inner: None, record: vec![], exceptions: vec![] };
	let mut fields = vec![];
	for i in 0..rng.below(3) {
		let n = format!("f{i}");
		let kind = rng.below(4);   // int, String, long, double
		let is_int = kind != 1;
		let mut attributes = vec![];
		if is_int && rng.chance(1, 2) {
			let c = p.push(match kind { 0 => CpInfo::Integer { bytes: rng.next() as u32 }, 2 => CpInfo::Long { high_bytes: rng.next() as u32, low_bytes: rng.next() as u32 }, _ => CpInfo::Double { high_bytes: 0x40040000, low_bytes: 0 } });
			attributes.push(AttributeInfo::ConstantValue { attribute_name_index: p.utf8("ConstantValue"), constantvalue_index: c });
		}
		if rng.chance(1, 3) { attributes.push(AttributeInfo::Deprecated { attribute_name_index: p.utf8("Deprecated") }); }
		if rng.chance(1, 3) { attributes.push(AttributeInfo::Synthetic { attribute_name_index: p.utf8("Synthetic") }); }
		if rng.chance(1, 3) {
			let ty = p.utf8("Ljava/lang/Deprecated;");
			let en = p.utf8("since"); let s = p.utf8("9");
			attributes.push(AttributeInfo::RuntimeVisibleAnnotations { attribute_name_index: p.utf8("RuntimeVisibleAnnotations"),
				annotations: vec![Annotation { type_index: ty, element_value_pairs: vec![ElementValuePairsEntry { element_name_index: en, value: ElementValue::String { const_value_index: s } }] }] });
		}
		fields.push(FieldInfo { access_flags: 0x0019 & if is_int { 0xFFFF } else { 0x0001 }, name_index: p.utf8(&n), descriptor_index: p.utf8(["I", "Ljava/lang/String;", "J", "D"][kind]), attributes });
		f.fields.push(n);
	}
	let mut methods = vec![];
	for i in 0..rng.below(4) {
		let n = format!("m{i}");
		let nparams = rng.below(3);
		let desc = format!("({})V", "I".repeat(nparams));
		let abstract_ = rng.chance(1, 3);
		let mut attributes = vec![];
		if !abstract_ {
			let mut inner = vec![];
			if rng.chance(1, 2) { inner.push(AttributeInfo::LineNumberTable { attribute_name_index: p.utf8("LineNumberTable"), line_number_table: vec![LineNumberTableEntry { start_pc: 0, line_number: rng.range(1, 500) as u16 }] }); }
			attributes.push(AttributeInfo::Code { attribute_name_index: p.utf8("Code"), max_stack: 0, max_locals: 1 + nparams as u16, code: vec![0x00, 0xb1], exception_table: vec![], attributes: inner });
		}
		if rng.chance(1, 2) {
			let ex: Vec<&str> = ["java/io/IOException", "java/lang/Exception"][..rng.range(1, 2)].to_vec();
			attributes.push(AttributeInfo::Exceptions { attribute_name_index: p.utf8("Exceptions"), exception_index_table: ex.iter().map(|e| p.class(e)).collect() });
			f.exceptions.push(Some(ex.iter().map(|s| s.to_string()).collect()));
		} else { f.exceptions.push(None); }
		if rng.chance(1, 2) {
			let ps: Vec<Option<String>> = (0..nparams).map(|j| if rng.chance(3, 4) { Some(format!("p{j}")) } else { None }).collect();
			attributes.push(AttributeInfo::MethodParameters { attribute_name_index: p.utf8("MethodParameters"),
				parameters: ps.iter().map(|q| MethodParametersEntry { name_index: q.as_ref().map(|s| p.utf8(s)).unwrap_or(0), access_flags: if rng.chance(1, 2) { 0x0010 } else { 0 } }).collect() });
			f.params.push(Some(ps));
		} else { f.params.push(None); }
		if rng.chance(1, 4) { attributes.push(AttributeInfo::Signature { attribute_name_index: p.utf8("Signature"), signature_index: p.utf8(&desc) }); }
		methods.push(MethodInfo { access_flags: if abstract_ { 0x0401 } else { 0x0001 }, name_index: p.utf8(&n), descriptor_index: p.utf8(&desc), attributes });
		f.methods.push(n);
	}
	let mut attributes = vec![];
	if rng.chance(1, 2) { let s = "Src.java"; attributes.push(AttributeInfo::SourceFile { attribute_name_index: p.utf8("SourceFile"), sourcefile_index: p.utf8(s) }); f.source_file = Some(s.into()); }
	if rng.chance(1, 2) {
		let ms: Vec<String> = (0..rng.range(0, 3)).map(|i| format!("{}$N{i}", f.name)).collect();
		attributes.push(AttributeInfo::NestMembers { attribute_name_index: p.utf8("NestMembers"), classes: ms.iter().map(|m| p.class(m)).collect() });
		f.nest_members = Some(ms);
	}
	if rng.chance(1, 3) {
		let ms: Vec<String> = (0..rng.range(1, 3)).map(|i| format!("sub/P{i}")).collect();
		attributes.push(AttributeInfo::PermittedSubclasses { attribute_name_index: p.utf8("PermittedSubclasses"), classes: ms.iter().map(|m| p.class(m)).collect() });
		f.permitted = Some(ms);
	}
	if rng.chance(1, 3) {
		let k = rng.range(1, 2);
		let classes = (0..k).map(|i| { let inner = p.class(&format!("{}$I{i}", f.name)); InnerClassesEntry { inner_class_info_index: inner, outer_class_info_index: this_class, inner_name_index: p.utf8(&format!("I{i}")), inner_class_access_flags: 0x0008 } }).collect();
		attributes.push(AttributeInfo::InnerClasses { attribute_name_index: p.utf8("InnerClasses"), classes });
		f.inner = Some(k);
	}
	if rng.chance(1, 3) {
		let k = rng.range(0, 2);
		let components = (0..k).map(|i| { let n = format!("c{i}"); f.record.push(n.clone());
			RecordComponentInfo { name_index: p.utf8(&n), descriptor_index: p.utf8("I"), attributes: if rng.chance(1, 2) { vec![AttributeInfo::Signature { attribute_name_index: p.utf8("Signature"), signature_index: p.utf8("I") }] } else { vec![] } } }).collect();
		attributes.push(AttributeInfo::Record { attribute_name_index: p.utf8("Record"), components });
	}
	if rng.chance(1, 4) { attributes.push(AttributeInfo::Deprecated { attribute_name_index: p.utf8("Deprecated") }); }
	if rng.chance(1, 4) { attributes.push(AttributeInfo::Signature { attribute_name_index: p.utf8("Signature"), signature_index: p.utf8("Ljava/lang/Object;") }); }
	(ClassFile { minor_version: 0, major_version: 61, constant_pool: p.e, access_flags: 0x0421, this_class, super_class, interfaces, fields, methods, attributes }, f)
}

fn duke_facts(bytes: &[u8], f: &Facts) -> Result<(), String> {
	let b = bytes.to_vec();
	let c = guarded(move || duke::read_class(&mut Cursor::new(&b)).map_err(|e| format!("{e:#}")))
		.map_err(|p| format!("duke::read_class panicked: {p}"))?.map_err(|e| format!("duke::read_class failed: {e}"))?;
	let s = |x: &java_string::JavaStr| x.to_string();
	let mut errs = vec![];
	let mut cmp = |what: &str, got: String, want: String| { if got != want { errs.push(format!("{what}: duke sees {got}, written {want}")); } };
	cmp("class name", s(c.name.as_inner()), f.name.clone());
	cmp("field names", format!("{:?}", c.fields.iter().map(|x| s(x.name.as_inner())).collect::<Vec<_>>()), format!("{:?}", f.fields));
	cmp("method names", format!("{:?}", c.methods.iter().map(|x| s(x.name.as_inner())).collect::<Vec<_>>()), format!("{:?}", f.methods));
	cmp("NestMembers", format!("{:?}", c.nest_members.as_ref().map(|v| v.iter().map(|x| s(x.as_inner())).collect::<Vec<_>>())), format!("{:?}", f.nest_members));
	cmp("PermittedSubclasses", format!("{:?}", c.permitted_subclasses.as_ref().map(|v| v.iter().map(|x| s(x.as_inner())).collect::<Vec<_>>())), format!("{:?}", f.permitted));
	cmp("SourceFile", format!("{:?}", c.source_file.as_ref().map(|x| x.to_string())), format!("{:?}", f.source_file));
	cmp("InnerClasses count", format!("{:?}", c.inner_classes.as_ref().map(|v| v.len())), format!("{:?}", f.inner));
	cmp("Record components", format!("{:?}", c.record_components.iter().map(|x| s(x.name.as_inner())).collect::<Vec<_>>()), format!("{:?}", f.record));
	for (i, m) in c.methods.iter().enumerate() {
		let got = m.method_parameters.as_ref().map(|v| v.iter().map(|q| q.name.as_ref().map(|n| s(n.as_inner()))).collect::<Vec<_>>());
		if let Some(w) = f.params.get(i) { cmp(&format!("MethodParameters of m{i}"), format!("{got:?}"), format!("{w:?}")); }
		let got = m.exceptions.as_ref().map(|v| v.iter().map(|x| s(x.as_inner())).collect::<Vec<_>>());
		if let Some(w) = f.exceptions.get(i) { cmp(&format!("Exceptions of m{i}"), format!("{got:?}"), format!("{w:?}")); }
	}
	if errs.is_empty() { Ok(()) } else { Err(errs.join("; ")) }
}

// ------------------------------------------------------------------ running one input
// ------------------------------------------------------------------ "so that other readers see the same structure"
/// The value ClassFile::read returns, item by item BY NAME (the crate's public fields), against the independent strict parser of
/// this harness (fbh::classfile::raw, which takes the items by their JVMS position): two items of equal width exchanged, a tag
/// given to the wrong alternative or a count read with the wrong width leave read→write byte-exact and still change what the
/// crate's user sees.  Used on well-formed class files the independent parser accepts (the corpus).
mod xread {
	use super::*;
	use fbh::classfile::raw as ind;
	macro_rules! same { ($what:expr, $a:expr, $b:expr) => { if ($a as u64) != ($b as u64) { return Err(format!("{}: raw_class_file has {}, the JVMS position holds {}", $what, $a, $b)); } } }
	fn list<A, B>(what: &str, a: &[A], b: &[B], f: &dyn Fn(&str, &A, &B) -> Result<(), String>) -> Result<(), String> {
		if a.len() != b.len() { return Err(format!("{what}: raw_class_file has {} entries, the file holds {}", a.len(), b.len())); }
		for (i, (x, y)) in a.iter().zip(b.iter()).enumerate() { f(&format!("{what}[{i}]"), x, y)?; }
		Ok(())
	}
	fn u16s(what: &str, a: &[u16], b: &[u16]) -> Result<(), String> { list(what, a, b, &|w, x, y| { same!(w, *x, *y); Ok(()) }) }
	fn constant(w: &str, a: &CpInfo, b: &ind::Const) -> Result<(), String> {
		use ind::Const as K;
		match (a, b) {
			(CpInfo::Utf8 { bytes }, K::Utf8(x)) => if bytes != x { return Err(format!("{w}: Utf8 bytes differ")) },
			(CpInfo::Integer { bytes }, K::Integer(x)) => same!(format!("{w}.bytes"), *bytes, *x as u32),
			(CpInfo::Float { bytes }, K::Float(x)) => same!(format!("{w}.bytes"), *bytes, *x),
			(CpInfo::Long { high_bytes, low_bytes }, K::Long(x)) => { same!(format!("{w}.high_bytes"), *high_bytes, ((*x as u64) >> 32) as u32); same!(format!("{w}.low_bytes"), *low_bytes, *x as u64 as u32); }
			(CpInfo::Double { high_bytes, low_bytes }, K::Double(x)) => { same!(format!("{w}.high_bytes"), *high_bytes, (*x >> 32) as u32); same!(format!("{w}.low_bytes"), *low_bytes, *x as u32); }
			(CpInfo::Class { name_index }, K::Class(x)) => same!(format!("{w}.name_index"), *name_index, *x),
			(CpInfo::String { string_index }, K::String(x)) => same!(format!("{w}.string_index"), *string_index, *x),
			(CpInfo::Fieldref { class_index, name_and_type_index }, K::Fieldref(x, y)) | (CpInfo::Methodref { class_index, name_and_type_index }, K::Methodref(x, y))
			| (CpInfo::InterfaceMethodref { class_index, name_and_type_index }, K::InterfaceMethodref(x, y)) => { same!(format!("{w}.class_index"), *class_index, *x); same!(format!("{w}.name_and_type_index"), *name_and_type_index, *y); }
			(CpInfo::NameAndType { name_index, descriptor_index }, K::NameAndType(x, y)) => { same!(format!("{w}.name_index"), *name_index, *x); same!(format!("{w}.descriptor_index"), *descriptor_index, *y); }
			(CpInfo::MethodHandle { reference_kind, reference_index }, K::MethodHandle(x, y)) => { same!(format!("{w}.reference_kind"), *reference_kind, *x); same!(format!("{w}.reference_index"), *reference_index, *y); }
			(CpInfo::MethodType { descriptor_index }, K::MethodType(x)) => same!(format!("{w}.descriptor_index"), *descriptor_index, *x),
			(CpInfo::Dynamic { bootstrap_method_attr_index, name_and_type_index }, K::Dynamic(x, y)) | (CpInfo::InvokeDynamic { bootstrap_method_attr_index, name_and_type_index }, K::InvokeDynamic(x, y)) => {
				same!(format!("{w}.bootstrap_method_attr_index"), *bootstrap_method_attr_index, *x); same!(format!("{w}.name_and_type_index"), *name_and_type_index, *y); }
			(CpInfo::Module { name_index }, K::Module(x)) | (CpInfo::Package { name_index }, K::Package(x)) => same!(format!("{w}.name_index"), *name_index, *x),
			(a, b) => return Err(format!("{w}: raw_class_file has {a:?}, the file holds a CONSTANT_{}", b.kind_name())),
		}
		Ok(())
	}
	fn vtype(w: &str, a: &VerificationTypeInfo, b: &ind::VType) -> Result<(), String> {
		use ind::VType as V; use VerificationTypeInfo as A;
		match (a, b) {
			(A::Top {}, V::Top) | (A::Integer {}, V::Integer) | (A::Float {}, V::Float) | (A::Null {}, V::Null) | (A::UnintializedThis {}, V::UninitializedThis) | (A::Long {}, V::Long) | (A::Double {}, V::Double) => {}
			(A::Object { cpool_index }, V::Object(x)) => same!(format!("{w}.cpool_index"), *cpool_index, *x),
			(A::Unintialized { offset }, V::Uninitialized(x)) => same!(format!("{w}.offset"), *offset, *x),
			(a, b) => return Err(format!("{w}: raw_class_file has {a:?}, the file holds {b:?}")),
		}
		Ok(())
	}
	fn frame(w: &str, a: &StackMapFrame, b: &ind::Frame) -> Result<(), String> {
		use ind::Frame as F; use StackMapFrame as A;
		match (a, b) {
			(A::SameFrame { offset_delta }, F::Same { offset_delta: x }) => same!(format!("{w}.offset_delta"), *offset_delta, *x),
			(A::SameLocals1StackItemFrame { offset_delta, stack }, F::SameLocals1 { offset_delta: x, stack: y }) => { same!(format!("{w}.offset_delta"), *offset_delta, *x); vtype(&format!("{w}.stack"), stack, y)?; }
			(A::SameLocals1StackItemFrameExtended { offset_delta, stack }, F::SameLocals1Ext { offset_delta: x, stack: y }) => { same!(format!("{w}.offset_delta"), *offset_delta, *x); vtype(&format!("{w}.stack"), stack, y)?; }
			(A::ChopFrame { k, offset_delta }, F::Chop { k: x, offset_delta: y }) => { same!(format!("{w}.k"), *k, *x); same!(format!("{w}.offset_delta"), *offset_delta, *y); }
			(A::SameFrameExtended { offset_delta }, F::SameExt { offset_delta: x }) => same!(format!("{w}.offset_delta"), *offset_delta, *x),
			(A::AppendFrame { offset_delta, locals }, F::Append { offset_delta: x, locals: y }) => { same!(format!("{w}.offset_delta"), *offset_delta, *x); list(&format!("{w}.locals"), locals, y, &vtype)?; }
			(A::FullFrame { offset_delta, locals, stack }, F::Full { offset_delta: x, locals: y, stack: z }) => { same!(format!("{w}.offset_delta"), *offset_delta, *x); list(&format!("{w}.locals"), locals, y, &vtype)?; list(&format!("{w}.stack"), stack, z, &vtype)?; }
			(a, b) => return Err(format!("{w}: raw_class_file has {a:?}, the file holds {b:?}")),
		}
		Ok(())
	}
	fn element(w: &str, a: &ElementValue, b: &ind::ElementValue) -> Result<(), String> {
		use ind::ElementValue as E; use ElementValue as A;
		let konst = |tag: u8, idx: u16| -> Result<(), String> { match b { E::Const { tag: t, index } if *t == tag => { same!(format!("{w}.const_value_index"), idx, *index); Ok(()) } other => Err(format!("{w}: raw_class_file has the tag {:?}, the file holds {other:?}", tag as char)) } };
		match a {
			A::Byte { const_value_index } => konst(b'B', *const_value_index), A::Char { const_value_index } => konst(b'C', *const_value_index), A::Double { const_value_index } => konst(b'D', *const_value_index),
			A::Float { const_value_index } => konst(b'F', *const_value_index), A::Integer { const_value_index } => konst(b'I', *const_value_index), A::Long { const_value_index } => konst(b'J', *const_value_index),
			A::Short { const_value_index } => konst(b'S', *const_value_index), A::Boolean { const_value_index } => konst(b'Z', *const_value_index), A::String { const_value_index } => konst(b's', *const_value_index),
			A::Enum { type_name_index, const_name_index } => match b { E::Enum { type_name_index: x, const_name_index: y } => { same!(format!("{w}.type_name_index"), *type_name_index, *x); same!(format!("{w}.const_name_index"), *const_name_index, *y); Ok(()) } o => Err(format!("{w}: raw_class_file has an enum constant, the file holds {o:?}")) },
			A::Class { class_info_index } => match b { E::Class(x) => { same!(format!("{w}.class_info_index"), *class_info_index, *x); Ok(()) } o => Err(format!("{w}: raw_class_file has a class, the file holds {o:?}")) },
			A::Annotation { annotation_value } => match b { E::Annotation(x) => annotation(&format!("{w}.annotation_value"), annotation_value, x), o => Err(format!("{w}: raw_class_file has an annotation, the file holds {o:?}")) },
			A::Array { values } => match b { E::Array(x) => list(&format!("{w}.values"), values, x, &element), o => Err(format!("{w}: raw_class_file has an array, the file holds {o:?}")) },
		}
	}
	fn annotation(w: &str, a: &Annotation, b: &ind::Annotation) -> Result<(), String> {
		same!(format!("{w}.type_index"), a.type_index, b.type_index);
		list(&format!("{w}.element_value_pairs"), &a.element_value_pairs, &b.pairs, &|w, x, y| { same!(format!("{w}.element_name_index"), x.element_name_index, y.0); element(&format!("{w}.value"), &x.value, &y.1) })
	}
	fn attribute(w: &str, a: &AttributeInfo, b: &ind::Attribute) -> Result<(), String> {
		use ind::AttrInfo as I; use AttributeInfo as A;
		// a predefined name in a place where the JVMS does not define it is opaque for the independent parser: nothing to compare
		if let I::Unknown(bytes) = &b.info { if let A::Other { attribute_name_index, info } = a { same!(format!("{w}.attribute_name_index"), *attribute_name_index, b.name_index); if info != bytes { return Err(format!("{w}: info bytes differ")); } } return Ok(()); }
		let w = &format!("{w} ({})", b.name);
		macro_rules! ani { ($x:expr) => { same!(format!("{w}.attribute_name_index"), *$x, b.name_index) } }
		match (a, &b.info) {
			(A::ConstantValue { attribute_name_index, constantvalue_index }, I::ConstantValue(x)) => { ani!(attribute_name_index); same!(format!("{w}.constantvalue_index"), *constantvalue_index, *x); }
			(A::Code { attribute_name_index, max_stack, max_locals, code, exception_table, attributes }, I::Code(c)) => {
				ani!(attribute_name_index); same!(format!("{w}.max_stack"), *max_stack, c.max_stack); same!(format!("{w}.max_locals"), *max_locals, c.max_locals);
				if code != &c.code { return Err(format!("{w}.code: bytes differ")); }
				list(&format!("{w}.exception_table"), exception_table, &c.exception_table, &|w, x, y| { same!(format!("{w}.start_pc"), x.start_pc, y.start_pc); same!(format!("{w}.end_pc"), x.end_pc, y.end_pc); same!(format!("{w}.handler_pc"), x.handler_pc, y.handler_pc); same!(format!("{w}.catch_type"), x.catch_type, y.catch_type); Ok(()) })?;
				list(&format!("{w}.attributes"), attributes, &c.attributes, &attribute)?;
			}
			(A::StackMapTable { attribute_name_index, entries }, I::StackMapTable(x)) => { ani!(attribute_name_index); list(&format!("{w}.entries"), entries, x, &frame)?; }
			(A::Exceptions { attribute_name_index, exception_index_table }, I::Exceptions(x)) => { ani!(attribute_name_index); u16s(&format!("{w}.exception_index_table"), exception_index_table, x)?; }
			(A::InnerClasses { attribute_name_index, classes }, I::InnerClasses(x)) => { ani!(attribute_name_index); list(&format!("{w}.classes"), classes, x, &|w, p, q| {
				same!(format!("{w}.inner_class_info_index"), p.inner_class_info_index, q.inner_class_info_index); same!(format!("{w}.outer_class_info_index"), p.outer_class_info_index, q.outer_class_info_index);
				same!(format!("{w}.inner_name_index"), p.inner_name_index, q.inner_name_index); same!(format!("{w}.inner_class_access_flags"), p.inner_class_access_flags, q.inner_class_access_flags); Ok(()) })?; }
			(A::EnclosingMethod { attribute_name_index, class_index, method_index }, I::EnclosingMethod { class_index: x, method_index: y }) => { ani!(attribute_name_index); same!(format!("{w}.class_index"), *class_index, *x); same!(format!("{w}.method_index"), *method_index, *y); }
			(A::Synthetic { attribute_name_index }, I::Synthetic) | (A::Deprecated { attribute_name_index }, I::Deprecated) => ani!(attribute_name_index),
			(A::Signature { attribute_name_index, signature_index }, I::Signature(x)) => { ani!(attribute_name_index); same!(format!("{w}.signature_index"), *signature_index, *x); }
			(A::SourceFile { attribute_name_index, sourcefile_index }, I::SourceFile(x)) => { ani!(attribute_name_index); same!(format!("{w}.sourcefile_index"), *sourcefile_index, *x); }
			(A::SourceDebugExtension { attribute_name_index, debug_extension }, I::SourceDebugExtension(x)) => { ani!(attribute_name_index); if debug_extension != x { return Err(format!("{w}.debug_extension: bytes differ")); } }
			(A::LineNumberTable { attribute_name_index, line_number_table }, I::LineNumberTable(x)) => { ani!(attribute_name_index); list(&format!("{w}.line_number_table"), line_number_table, x, &|w, p, q| { same!(format!("{w}.start_pc"), p.start_pc, q.start_pc); same!(format!("{w}.line_number"), p.line_number, q.line); Ok(()) })?; }
			(A::LocalVariableTable { attribute_name_index, local_variable_table }, I::LocalVariableTable(x)) => { ani!(attribute_name_index); list(&format!("{w}.local_variable_table"), local_variable_table, x, &|w, p, q| {
				same!(format!("{w}.start_pc"), p.start_pc, q.start_pc); same!(format!("{w}.length"), p.length, q.length); same!(format!("{w}.name_index"), p.name_index, q.name_index);
				same!(format!("{w}.descriptor_index"), p.descriptor_index, q.descriptor_index); same!(format!("{w}.index"), p.index, q.index); Ok(()) })?; }
			(A::LocalVariableTypeTable { attribute_name_index, local_variable_type_table }, I::LocalVariableTypeTable(x)) => { ani!(attribute_name_index); list(&format!("{w}.local_variable_type_table"), local_variable_type_table, x, &|w, p, q| {
				same!(format!("{w}.start_pc"), p.start_pc, q.start_pc); same!(format!("{w}.length"), p.length, q.length); same!(format!("{w}.name_index"), p.name_index, q.name_index);
				same!(format!("{w}.signature_index"), p.signature_index, q.descriptor_index); same!(format!("{w}.index"), p.index, q.index); Ok(()) })?; }
			(A::RuntimeVisibleAnnotations { attribute_name_index, annotations }, I::RuntimeVisibleAnnotations(x)) | (A::RuntimeInvisibleAnnotations { attribute_name_index, annotations }, I::RuntimeInvisibleAnnotations(x)) => { ani!(attribute_name_index); list(&format!("{w}.annotations"), annotations, x, &annotation)?; }
			(A::RuntimeVisibleParameterAnnotations { attribute_name_index, parameter_annotations }, I::RuntimeVisibleParameterAnnotations(x)) | (A::RuntimeInvisibleParameterAnnotations { attribute_name_index, parameter_annotations }, I::RuntimeInvisibleParameterAnnotations(x)) => {
				ani!(attribute_name_index); list(&format!("{w}.parameter_annotations"), parameter_annotations, x, &|w, p, q| list(&format!("{w}.annotations"), &p.annotations, q, &annotation))?; }
			(A::AnnotationDefault { attribute_name_index, default_value }, I::AnnotationDefault(x)) => { ani!(attribute_name_index); element(&format!("{w}.default_value"), default_value, x)?; }
			(A::BootstrapMethods { attribute_name_index, bootstrap_methods }, I::BootstrapMethods(x)) => { ani!(attribute_name_index); list(&format!("{w}.bootstrap_methods"), bootstrap_methods, x, &|w, p, q| { same!(format!("{w}.bootstrap_method_ref"), p.bootstrap_method_ref, q.method_ref); u16s(&format!("{w}.bootstrap_arguments"), &p.boostrap_arguments, &q.arguments) })?; }
			(A::MethodParameters { attribute_name_index, parameters }, I::MethodParameters(x)) => { ani!(attribute_name_index); list(&format!("{w}.parameters"), parameters, x, &|w, p, q| { same!(format!("{w}.name_index"), p.name_index, q.name_index); same!(format!("{w}.access_flags"), p.access_flags, q.access_flags); Ok(()) })?; }
			(A::Module { attribute_name_index, module_name_index, module_flags, module_version_index, requires, exports, opens, uses_index, provides }, I::Module(m)) => {
				ani!(attribute_name_index); same!(format!("{w}.module_name_index"), *module_name_index, m.name_index); same!(format!("{w}.module_flags"), *module_flags, m.flags); same!(format!("{w}.module_version_index"), *module_version_index, m.version_index);
				list(&format!("{w}.requires"), requires, &m.requires, &|w, p, q| { same!(format!("{w}.requires_index"), p.requires_index, q.index); same!(format!("{w}.requires_flags"), p.requires_flags, q.flags); same!(format!("{w}.requires_version_index"), p.requires_version_index, q.version_index); Ok(()) })?;
				list(&format!("{w}.exports"), exports, &m.exports, &|w, p, q| { same!(format!("{w}.exports_index"), p.exports_index, q.index); same!(format!("{w}.exports_flags"), p.exports_flags, q.flags); u16s(&format!("{w}.exports_to_index"), &p.exports_to_index, &q.to) })?;
				list(&format!("{w}.opens"), opens, &m.opens, &|w, p, q| { same!(format!("{w}.opens_index"), p.opens_index, q.index); same!(format!("{w}.opens_flags"), p.opens_flags, q.flags); u16s(&format!("{w}.opens_to_index"), &p.opens_to_index, &q.to) })?;
				u16s(&format!("{w}.uses_index"), uses_index, &m.uses)?;
				list(&format!("{w}.provides"), provides, &m.provides, &|w, p, q| { same!(format!("{w}.provides_index"), p.provides_index, q.index); u16s(&format!("{w}.provides_with_index"), &p.provides_with_index, &q.with) })?;
			}
			(A::ModulePackages { attribute_name_index, package_index }, I::ModulePackages(x)) => { ani!(attribute_name_index); u16s(&format!("{w}.package_index"), package_index, x)?; }
			(A::ModuleMainClass { attribute_name_index, main_class_index }, I::ModuleMainClass(x)) => { ani!(attribute_name_index); same!(format!("{w}.main_class_index"), *main_class_index, *x); }
			(A::NestHost { attribute_name_index, host_class_index }, I::NestHost(x)) => { ani!(attribute_name_index); same!(format!("{w}.host_class_index"), *host_class_index, *x); }
			(A::NestMembers { attribute_name_index, classes }, I::NestMembers(x)) | (A::PermittedSubclasses { attribute_name_index, classes }, I::PermittedSubclasses(x)) => { ani!(attribute_name_index); u16s(&format!("{w}.classes"), classes, x)?; }
			(A::Record { attribute_name_index, components }, I::Record(x)) => { ani!(attribute_name_index); list(&format!("{w}.components"), components, x, &|w, p, q| { same!(format!("{w}.name_index"), p.name_index, q.name_index); same!(format!("{w}.descriptor_index"), p.descriptor_index, q.descriptor_index); list(&format!("{w}.attributes"), &p.attributes, &q.attributes, &attribute) })?; }
			// attributes the crate keeps as opaque bytes (type annotations, anything it does not model): only the name
			(A::Other { attribute_name_index, .. }, _) => ani!(attribute_name_index),
			(a, _) => return Err(format!("{w}: raw_class_file read it as {}", format!("{a:?}").split(' ').next().unwrap_or("?"))),
		}
		Ok(())
	}
	pub fn class(a: &ClassFile, b: &ind::RawClass) -> Result<(), String> {
		same!("minor_version", a.minor_version, b.minor); same!("major_version", a.major_version, b.major);
		same!("constant_pool_count", 1 + indices_used(&a.constant_pool), b.pool.len());
		let mut idx = 1usize;
		for c in &a.constant_pool {
			match b.pool.get(idx) { Some(Some(k)) => constant(&format!("constant_pool[index {idx}]"), c, k)?, _ => return Err(format!("constant_pool: raw_class_file has an entry at index {idx}, the file has none starting there")) }
			idx += if is_wide(c) { 2 } else { 1 };
		}
		same!("access_flags", a.access_flags, b.access); same!("this_class", a.this_class, b.this_class); same!("super_class", a.super_class, b.super_class);
		u16s("interfaces", &a.interfaces, &b.interfaces)?;
		list("fields", &a.fields, &b.fields, &|w, p, q| { same!(format!("{w}.access_flags"), p.access_flags, q.access); same!(format!("{w}.name_index"), p.name_index, q.name_index); same!(format!("{w}.descriptor_index"), p.descriptor_index, q.descriptor_index); list(&format!("{w}.attributes"), &p.attributes, &q.attributes, &attribute) })?;
		list("methods", &a.methods, &b.methods, &|w, p, q| { same!(format!("{w}.access_flags"), p.access_flags, q.access); same!(format!("{w}.name_index"), p.name_index, q.name_index); same!(format!("{w}.descriptor_index"), p.descriptor_index, q.descriptor_index); list(&format!("{w}.attributes"), &p.attributes, &q.attributes, &attribute) })?;
		list("attributes", &a.attributes, &b.attributes, &attribute)
	}
}

fn hex(b: &[u8]) -> String { b.iter().map(|x| format!("{x:02x}")).collect::<Vec<_>>().join("") }
fn has_wide(c: &ClassFile) -> bool { c.constant_pool.iter().any(is_wide) }

/// a raw value: write, length, read back; oracle on the implementation alone; one CVal case
fn through_value(r: &mut Report, stream: &str, c: &ClassFile, hyp: Option<bool>, emit: bool) -> Option<Vec<u8>> {
	// the crate's _write/_len/_read (and the derived Clone/PartialEq/Debug) recurse over the nesting of the value: a stack
	// overflow kills the process, so the input is recorded before it is handed over
	fbh::report::crumb(&format!("property C20, stream {stream}\nthe harness died (stack overflow / abort / timeout) while this raw value was written with to_bytes()/write(), measured with length() or read back with ClassFile::read\nraw value (Rust Debug syntax of raw_class_file::ClassFile):\n{c:?}\n"));
	let wr = impl_write(c);
	let len = impl_length(c);
	let shown = format!("{c:?}");
	r.eval(&shown, !c.constant_pool.is_empty() || !c.attributes.is_empty());
	let replay = |what: &str, extra: String| format!("property C20, stream {stream}\n{what}\nraw value (Rust Debug syntax of raw_class_file::ClassFile):\n{shown}\n{extra}");
	let mut rd = "RErr".to_string();
	if let Ok(bytes) = &wr {
		match &len {
			Ok(l) if *l == bytes.len() => {}
			other => r.violation(format!("ClassFile::length() = {other:?} but to_bytes() wrote {} bytes", bytes.len()), replay("length() differs from the number of bytes written", format!("bytes: {}", hex(bytes)))),
		}
		match impl_write_stream(c) {
			Ok(Some(b2)) if &b2 == bytes => {}
			_ => r.violation("ClassFile::write() and to_bytes() differ".into(), replay("write(&mut Vec) produced other bytes than to_bytes()", String::new())),
		}
		// write() must hand over every byte whatever the writer accepts per call
		for (what, got) in impl_write_partial(c, bytes.len()) {
			match got {
				Ok(Some(b2)) if &b2 == bytes => r.count("write_through_partial_writer_ok"),
				Ok(Some(b2)) => r.violation(format!("ClassFile::write() through {what}: {} of {} bytes arrived", b2.len(), bytes.len()), replay(&format!("ClassFile::write() returned Ok through {what}, but the writer received {} bytes where to_bytes() has {} (first difference at {})", b2.len(), bytes.len(), b2.iter().zip(bytes.iter()).position(|(a, b)| a != b).unwrap_or(b2.len().min(bytes.len()))), format!("to_bytes(): {}\narrived:    {}", hex(bytes), hex(&b2)))),
				Ok(None) => r.violation(format!("ClassFile::write() fails through {what}"), replay(&format!("ClassFile::write() returned Err through {what} (a short or interrupted write is not an error: write_all retries)"), String::new())),
				Err(p) => r.violation(format!("ClassFile::write() panics through {what}: {p}"), replay("write() panicked", p.clone())),
			}
		}
		if !bytes.is_empty() { match impl_write_short_slice(c, bytes.len()) {
			Ok(true) => r.count("write_into_short_slice_is_error"),
			_ => r.violation("ClassFile::write() reports success into a slice that is one byte too short".into(), replay("ClassFile::write(&mut Cursor::new(&mut [0u8; length() - 1][..])) must be an error (WriteZero)", String::new())),
		} }
		let back = impl_read(bytes);
		match &back {
			Ok(Some((v, pos))) if v == c && *pos == bytes.len() => { rd = "RSame".into(); r.count("roundtrip_equal"); }
			Ok(Some((v, pos))) => { rd = format!("(RVal {} {})", g_nv(&nv_of(v)), bytes.len() - pos); r.count("roundtrip_different"); }
			_ => { r.count("roundtrip_read_error"); }
		}
		if hyp == Some(true) && rd != "RSame" {
			r.violation("write then read does not return an equal value".into(), replay("ClassFile::read(to_bytes(v)) != v for a value whose numbers fit and whose tags resolve", format!("bytes: {}\nread back: {:?}", hex(bytes), back.as_ref().map(|o| o.as_ref().map(|x| &x.0)))));
		}
		if hyp == Some(true) {
			match jvms::check(bytes) {
				Ok(w) if w == has_wide(c) => r.count(if w { "jvms_layout_ok_wide_pool" } else { "jvms_layout_ok" }),
				Ok(w) => r.violation(format!("the walker sees {} 8-byte constant in the written pool, the value has {}", if w { "an" } else { "no" }, if has_wide(c) { "one" } else { "none" }), replay("written pool and value disagree about Long/Double entries", format!("bytes: {}", hex(bytes)))),
				Err(e) => r.violation(format!("written file is not laid out as the JVMS prescribes: {e}"), replay("an independent strict JVMS walker rejects the bytes the crate wrote", format!("walker: {e}\nbytes: {}", hex(bytes)))),
			}
		}
	} else {
		r.count("write_panicked");
		if hyp == Some(true) { r.violation("to_bytes() panicked on a value inside the hypotheses".into(), replay("to_bytes() panicked", format!("{wr:?}"))); }
	}
	if emit {
		let g_hyp = match hyp { Some(b) => format!("(Some {})", gbool(b)), None => "None".into() };
		r.case(stream, format!("CVal {g_hyp} {} {} {} {rd}", g_nv(&nv_of(c)), gres(wr.as_ref().ok().map(|b| g_bytes(b))), gres(len.as_ref().ok().map(|l| l.to_string()))));
	}
	wr.ok()
}

/// as through_value, the correspondence case in a shard of its own
fn through_value_big(r: &mut Report, stream: &str, c: &ClassFile, hyp: Option<bool>) {
	let n = r.cases.len();
	through_value(r, stream, c, hyp, true);
	if r.cases.len() == n + 1 { let t = r.cases.pop().unwrap(); r.big_cases.push(t); }
}

/// a byte string: read; when it is a well-formed class file (walker) it must be reproduced byte for byte
fn through_bytes(r: &mut Report, stream: &str, b: &[u8], origin: &str, emit: bool) {
	r.eval(&hex(b), b.len() > 24);
	fbh::report::crumb(&format!("property C20, stream {stream} ({origin})\nthe harness died (stack overflow / abort / timeout) while ClassFile::read was reading these bytes (or while the value read was written again)\nclass file bytes (hex):\n{}\n", hex(b)));
	let rd = impl_read(b);
	let wf = jvms::check(b);
	let replay = |what: &str, extra: String| format!("property C20, stream {stream} ({origin})\n{what}\nclass file bytes (hex):\n{}\n{extra}", hex(b));
	let mut g = "Err".to_string();
	match &rd {
		Ok(Some((v, pos))) => {
			let out = impl_write(v);
			let same = out.as_ref().map(|o| o.as_slice() == &b[..*pos]).unwrap_or(false);
			g = format!("(Ok ({}, {}, {}))", g_nv(&nv_of(v)), b.len() - pos, gbool(same));
			// whatever was read (well-formed input or not): the reader consumed exactly as many bytes as the value it returned announces
			match impl_length(v) {
				Ok(l) if l == *pos => r.count("read_consumed_equals_length"),
				other => r.violation(format!("ClassFile::read consumed {pos} bytes, but length() of the value it returned is {other:?}"), replay("the number of bytes ClassFile::read takes from the reader differs from ClassFile::length() of the value read", format!("consumed: {pos}
length(): {other:?}
rewritten: {:?}", out.as_ref().map(|o| hex(o))))),
			}
			r.count(if same { "read_ok_rewrite_exact" } else { "read_ok_rewrite_differs" });
			if let Ok(wide) = &wf {
				if !same || *pos != b.len() {
					r.violation("a well-formed class file is not reproduced byte for byte".into(), replay("read then to_bytes differs from the input (input accepted by the strict JVMS walker)", format!("rewritten: {:?}", out.as_ref().map(|o| hex(o)))));
				} else {
					r.count(if *wide { "wellformed_byte_exact_wide_pool" } else { "wellformed_byte_exact" });
					// "other readers see the same structure": every item the crate hands out by name is the item at that JVMS position
					match guarded(|| fbh::classfile::raw::parse(b)) {
						Ok(Ok(ind)) => match xread::class(v, &ind) {
							Ok(()) => r.count("cross_read_items_by_name_ok"),
							Err(e) => r.violation(format!("ClassFile::read hands out another item than the one the JVMS puts there: {e}"), replay("the value read from a well-formed class file differs, item by item (the crate's field names against the JVMS positions, taken by an independent parser), from the file", e.clone())),
						},
						_ => r.count("cross_read_skipped_not_semantically_valid"),
					}
					if *wide != has_wide(v) { r.violation("the value read and the 4.4.5 walk of the input disagree about Long/Double entries".into(), replay("has_wide(read(b)) differs from the walker's answer", String::new())); }
					if let Ok(o) = &out { if impl_length(v).ok() != Some(o.len()) { r.violation("length() differs from bytes written after read".into(), replay("length()", String::new())); } }
				}
			}
		}
		Ok(None) | Err(_) => {
			r.count(if rd.is_err() { "read_panicked" } else { "read_error" });
			if wf.is_ok() {
				r.violation("a well-formed class file cannot be read".into(), replay("ClassFile::read fails on input accepted by the strict JVMS walker", format!("{:?}", rd.as_ref().map(|_| ()))));
			}
		}
	}
	// the walker's verdict goes into the case: the model compares it with the strict reader generated from the hand-written
	// JVMS table of coq/C20/Jvms.v (two independent transcriptions of JVMS 4.1-4.7 must agree on every input)
	if emit { r.count(if wf.is_ok() { "case_wellformed_for_walker" } else { "case_not_wellformed_for_walker" }); r.case(stream, format!("CBytes {} {} {g}", g_bytes(b), gbool(wf.is_ok()))); }
}

fn mutate(rng: &mut Rng, b: &mut Vec<u8>) {
	match rng.below(6) {
		0 if b.len() > 1 => { let n = rng.below(b.len()); b.truncate(n); }
		1 if !b.is_empty() => { let i = rng.below(b.len()); b[i] = b[i].wrapping_add(1); }
		2 if !b.is_empty() => { let i = rng.below(b.len()); b[i] = b[i].wrapping_sub(1); }
		3 if !b.is_empty() => { let i = rng.below(b.len()); b.remove(i); }
		4 => { let i = rng.below(b.len() + 1); b.insert(i, rng.below(256) as u8); }
		_ if !b.is_empty() => { let i = rng.below(b.len()); b[i] = rng.below(256) as u8; }
		_ => b.push(0),
	}
}

fn corpus_files() -> Vec<(String, Vec<u8>)> {
	let root = std::path::Path::new(env!("CARGO_MANIFEST_DIR")).parent().unwrap().join("corpus").join("C20");
	let mut out = vec![];
	let mut dirs: Vec<_> = std::fs::read_dir(&root).map(|d| d.filter_map(|e| e.ok()).map(|e| e.path()).filter(|p| p.is_dir()).collect()).unwrap_or_default();
	dirs.sort();
	for d in dirs {
		let mut fs: Vec<_> = std::fs::read_dir(&d).map(|d| d.filter_map(|e| e.ok()).map(|e| e.path()).filter(|p| p.extension().map(|x| x == "class").unwrap_or(false)).collect()).unwrap_or_default();
		fs.sort();
		for f in fs { if let Ok(b) = std::fs::read(&f) { out.push((format!("{}/{}", d.file_name().unwrap().to_string_lossy(), f.file_name().unwrap().to_string_lossy()), b)); } }
	}
	out
}

/// the class-file corpus shared by the class-file properties (corpus/classes: javac 8/11/17 output, 260 third-party and JDK
/// classes, crafted ones), in path order
fn shared_corpus_files() -> Vec<(String, Vec<u8>)> {
	fn walk(d: &std::path::Path, out: &mut Vec<std::path::PathBuf>) {
		let mut es: Vec<_> = std::fs::read_dir(d).map(|d| d.filter_map(|e| e.ok()).map(|e| e.path()).collect()).unwrap_or_default();
		es.sort();
		for p in es { if p.is_dir() { walk(&p, out); } else if p.extension().map(|x| x == "class").unwrap_or(false) { out.push(p); } }
	}
	let root = std::path::Path::new(env!("CARGO_MANIFEST_DIR")).parent().unwrap().join("corpus").join("classes");
	let mut ps = vec![];
	walk(&root, &mut ps);
	ps.into_iter().filter_map(|p| std::fs::read(&p).ok().map(|b| (p.strip_prefix(&root).unwrap_or(&p).display().to_string(), b))).collect()
}

/// pools with 8-byte constants under every constant_pool_count around the right one, and attribute names designating each
/// index of such a pool (an entry, the unusable second index of a Long/Double, one past the end)
fn crafted_wide() -> Vec<(String, Vec<u8>)> {
	let mut out = vec![];
	let mut p = Pool::default();
	let l = p.push(CpInfo::Long { high_bytes: 1, low_bytes: 2 });
	let dep = p.utf8("Deprecated");
	let d = p.push(CpInfo::Double { high_bytes: 0x40040000, low_bytes: 0 });
	assert!((l, dep, d) == (1, 3, 4));
	let mk = |ani: u16| ClassFile { minor_version: 0, major_version: 52, constant_pool: p.e.clone(), access_flags: 0x21, this_class: 0, super_class: 0,
		interfaces: vec![], fields: vec![], methods: vec![], attributes: vec![AttributeInfo::Deprecated { attribute_name_index: ani }] }.to_bytes();
	let base = mk(dep);
	out.push(("wide pool unchanged (count 6, entries at 1, 3, 4)".to_string(), base.clone()));
	for c in 1..=9u8 { if c != 6 { let mut b = base.clone(); b[9] = c; out.push((format!("wide pool announced with constant_pool_count {c} instead of 6"), b)); } }
	for ani in [0u16, 1, 2, 4, 5, 6, 7] { out.push((format!("wide pool, attribute_name_index {ani} (the Utf8 entry is at 3)"), mk(ani))); }
	// a Long as the last entry with only one index left for it, and with none
	let mut q = Pool::default();
	q.utf8("X"); q.push(CpInfo::Long { high_bytes: 0, low_bytes: 0 });
	let b2 = ClassFile { minor_version: 0, major_version: 52, constant_pool: q.e.clone(), access_flags: 0, this_class: 0, super_class: 0, interfaces: vec![], fields: vec![], methods: vec![], attributes: vec![] }.to_bytes();
	out.push(("wide pool: Utf8 then Long, count 4".into(), b2.clone()));
	for c in [2u8, 3, 5] { let mut b = b2.clone(); b[9] = c; out.push((format!("wide pool: Utf8 then Long announced with constant_pool_count {c} instead of 4"), b)); }
	out
}

/// the attribute name at the first, a middle and the LAST pool position, also directly behind (and in front of) an 8-byte
/// constant, for several attribute kinds; all inside the hypotheses: they must round-trip and the walker accepts them
fn crafted_positions() -> Vec<(String, ClassFile)> {
	let mut out = vec![];
	let long = || CpInfo::Long { high_bytes: 7, low_bytes: 9 };
	let dbl = || CpInfo::Double { high_bytes: 0x40040000, low_bytes: 0 };
	let x = || CpInfo::Utf8 { bytes: b"x".to_vec() };
	let int = || CpInfo::Integer { bytes: 5 };
	// (description, entries before the name, entries after the name)
	let layouts: Vec<(&str, Vec<CpInfo>, Vec<CpInfo>)> = vec![
		("the only pool entry", vec![], vec![]),
		("first entry, others behind it", vec![], vec![x(), int()]),
		("first entry, an 8-byte constant behind it", vec![], vec![long()]),
		("last entry", vec![x(), int()], vec![]),
		("last entry, directly behind an 8-byte constant", vec![x(), long()], vec![]),
		("last entry, the pool is one 8-byte constant and the name", vec![dbl()], vec![]),
		("last entry behind two 8-byte constants", vec![long(), dbl()], vec![]),
		("middle entry between two 8-byte constants", vec![long()], vec![dbl()]),
		("middle entry", vec![x()], vec![int()]),
	];
	for (what, before, after) in layouts {
		for kind in 0..6 {
			let mut pool = before.clone();
			let ani = (1 + indices_used(&pool)) as u16;
			let name = ["Deprecated", "Code", "SourceFile", "StackMapTable", "NestMembers", "Mystery"][kind];
			pool.push(CpInfo::Utf8 { bytes: name.as_bytes().to_vec() });
			pool.extend(after.clone());
			let attr = match kind {
				0 => AttributeInfo::Deprecated { attribute_name_index: ani },
				1 => AttributeInfo::Code { attribute_name_index: ani, max_stack: 0, max_locals: 1, code: vec![0xb1], exception_table: vec![], attributes: vec![] },
				2 => AttributeInfo::SourceFile { attribute_name_index: ani, sourcefile_index: ani },
				3 => AttributeInfo::StackMapTable { attribute_name_index: ani, entries: vec![StackMapFrame::SameFrame { offset_delta: 3 }] },
				4 => AttributeInfo::NestMembers { attribute_name_index: ani, classes: vec![1, 2] },
				_ => AttributeInfo::Other { attribute_name_index: ani, info: vec![1, 2, 3] },
			};
			let (mut fields, mut methods, mut attributes) = (vec![], vec![], vec![]);
			match kind {
				1 => methods.push(MethodInfo { access_flags: 1, name_index: ani, descriptor_index: ani, attributes: vec![attr] }),
				0 if what.len() % 2 == 0 => fields.push(FieldInfo { access_flags: 1, name_index: ani, descriptor_index: ani, attributes: vec![attr] }),
				_ => attributes.push(attr),
			}
			out.push((format!("attribute name {name:?} is {what} (index {ani})"),
				ClassFile { minor_version: 0, major_version: 52, constant_pool: pool, access_flags: 0x21, this_class: 0, super_class: 0, interfaces: vec![], fields, methods, attributes }));
		}
	}
	out
}

/// constant pools that END with an 8-byte constant (legal: bytecode libraries do not order the pool as javac does): the
/// entry takes the last TWO indices, constant_pool_count is one more than the index of its second half; with and without an
/// attribute whose name sits in front.  All inside the hypotheses.
fn pool_tail_values() -> Vec<(String, ClassFile)> {
	let mut out = vec![];
	let long = |n: u32| CpInfo::Long { high_bytes: n, low_bytes: !n };
	let dbl = |n: u32| CpInfo::Double { high_bytes: 0x3ff00000 | n, low_bytes: n };
	let x = || CpInfo::Utf8 { bytes: b"x".to_vec() };
	let tails: Vec<(&str, Vec<CpInfo>)> = vec![
		("a single Long", vec![long(1)]), ("a single Double", vec![dbl(2)]), ("Utf8, Long", vec![x(), long(3)]), ("Utf8, Double", vec![x(), dbl(4)]),
		("Long, Double", vec![long(5), dbl(6)]), ("Double, Long", vec![dbl(7), long(8)]), ("Integer, Long, Long", vec![CpInfo::Integer { bytes: 9 }, long(10), long(11)]),
		("three Doubles", vec![dbl(12), dbl(13), dbl(14)]), ("Long, Utf8, Class, Double", vec![long(15), x(), CpInfo::Class { name_index: 3 }, dbl(16)]),
	];
	for (what, tail) in tails {
		for with_attr in [false, true] {
			let mut pool = vec![];
			let mut attributes = vec![];
			if with_attr { pool.push(CpInfo::Utf8 { bytes: b"Deprecated".to_vec() }); attributes.push(AttributeInfo::Deprecated { attribute_name_index: 1 }); }
			pool.extend(tail.clone());
			let count = 1 + indices_used(&pool);
			out.push((format!("constant pool ending in an 8-byte constant: {}{what} (constant_pool_count must be {count})", if with_attr { "the name of a Deprecated attribute, " } else { "" }),
				ClassFile { minor_version: 0, major_version: 52, constant_pool: pool, access_flags: 0x21, this_class: 0, super_class: 0, interfaces: vec![], fields: vec![], methods: vec![], attributes }));
		}
	}
	out
}

/// deterministic boundary values of every count/length width: (what, value, inside the hypotheses of read_write, also a correspondence case).
/// The large ones are oracle-only: reading some 10^5 numerals takes coqc longer than the whole quick run.
fn boundary_values(thorough: bool) -> Vec<(String, ClassFile, bool, bool)> {
	let mut out: Vec<(String, ClassFile, bool, bool)> = vec![];
	let class = |pool: Vec<CpInfo>, interfaces: Vec<u16>, methods: Vec<MethodInfo>, attributes: Vec<AttributeInfo>|
		ClassFile { minor_version: 0, major_version: 61, constant_pool: pool, access_flags: 0x21, this_class: 0, super_class: 0, interfaces, fields: vec![], methods, attributes };
	let name = |n: &str| vec![CpInfo::Utf8 { bytes: n.as_bytes().to_vec() }];
	// one-byte counts: 255 fits, 256 does not
	for n in [254usize, 255, 256, 257] {
		out.push((format!("MethodParameters with {n} parameters (u8 count)"), class(name("MethodParameters"), vec![], vec![], vec![AttributeInfo::MethodParameters { attribute_name_index: 1, parameters: vec![MethodParametersEntry { name_index: 0, access_flags: 0x10 }; n] }]), n <= 255, true));
		out.push((format!("RuntimeVisibleParameterAnnotations with {n} parameters (u8 count)"), class(name("RuntimeVisibleParameterAnnotations"), vec![], vec![], vec![AttributeInfo::RuntimeVisibleParameterAnnotations { attribute_name_index: 1, parameter_annotations: vec![ParameterAnnotationEntry { annotations: vec![] }; n] }]), n <= 255, true));
	}
	// two-byte counts: 255/256 are nothing special, 65535 fits, 65536 is written as 0
	for n in [255usize, 256, 65535, 65536, 70000] {
		let big = n > 300;
		let fits = n <= 65535;
		out.push((format!("{n} interfaces (u16 count)"), class(vec![], (0..n).map(|i| i as u16).collect(), vec![], vec![]), fits, !big));
		out.push((format!("NestMembers with {n} classes (u16 count)"), class(name("NestMembers"), vec![], vec![], vec![AttributeInfo::NestMembers { attribute_name_index: 1, classes: (0..n).map(|i| i as u16).collect() }]), fits, !big));
		out.push((format!("Exceptions with {n} entries (u16 count, attribute_length 2 + 2n)"), class(name("Exceptions"), vec![], vec![MethodInfo { access_flags: 1, name_index: 1, descriptor_index: 1, attributes: vec![AttributeInfo::Exceptions { attribute_name_index: 1, exception_index_table: vec![1; n] }] }], vec![]), fits, !big));
		out.push((format!("Utf8 constant of {n} bytes (u16 length)"), class(vec![CpInfo::Utf8 { bytes: (0..n).map(|i| b'a' + (i % 26) as u8).collect() }], vec![], vec![], vec![]), fits, !big || (thorough && n == 65536)));
		if big {
			let mut code_pool = name("Code"); code_pool.extend(name("LineNumberTable"));
			out.push((format!("LineNumberTable with {n} entries inside Code (u16 count)"), class(code_pool, vec![], vec![MethodInfo { access_flags: 1, name_index: 1, descriptor_index: 1, attributes: vec![AttributeInfo::Code { attribute_name_index: 1, max_stack: 0, max_locals: 0, code: vec![0xb1], exception_table: vec![],
				attributes: vec![AttributeInfo::LineNumberTable { attribute_name_index: 2, line_number_table: vec![LineNumberTableEntry { start_pc: 0, line_number: 1 }; n] }] }] }], vec![]), fits, false));
		}
	}
	// constant_pool_count = indices + 1: 65534 one-index entries announce 65535, one more announces 0; 8-byte constants count twice
	for (n, wide) in [(65534usize, false), (65535, false), (32767, true), (32768, true)] {
		let pool: Vec<CpInfo> = (0..n).map(|i| if wide { CpInfo::Long { high_bytes: 0, low_bytes: i as u32 } } else { CpInfo::Integer { bytes: i as u32 } }).collect();
		let indices = if wide { 2 * n } else { n };
		out.push((format!("constant pool of {n} {} entries ({indices} indices, constant_pool_count {})", if wide { "Long" } else { "Integer" }, indices + 1), class(pool, vec![], vec![], vec![]), indices + 1 <= 65535, false));
	}
	// the name of an attribute behind 65533 other indices: the largest index a pool can have
	{
		let mut pool: Vec<CpInfo> = (0..32766).map(|i| CpInfo::Double { high_bytes: i as u32, low_bytes: 0 }).collect(); // indices 1..65532
		pool.push(CpInfo::Integer { bytes: 1 }); // 65533
		pool.push(CpInfo::Utf8 { bytes: b"Deprecated".to_vec() }); // 65534 = constant_pool_count - 1
		out.push(("attribute name at index 65534 of a pool announcing 65535".into(), class(pool, vec![], vec![], vec![AttributeInfo::Deprecated { attribute_name_index: 65534 }]), true, false));
	}
	// four-byte lengths: nothing happens at 2^16
	for n in [65535usize, 65536, 70000] {
		let body: Vec<u8> = (0..n).map(|i| (i * 7 % 251) as u8).collect();
		out.push((format!("unknown attribute with {n} bytes of info (u32 length)"), class(name("Mystery"), vec![], vec![], vec![AttributeInfo::Other { attribute_name_index: 1, info: body.clone() }]), true, false));
		out.push((format!("SourceDebugExtension of {n} bytes (u32 length)"), class(name("SourceDebugExtension"), vec![], vec![], vec![AttributeInfo::SourceDebugExtension { attribute_name_index: 1, debug_extension: body.clone() }]), true, n == 65536));
		out.push((format!("Code with {n} bytes of code (u32 code_length)"), class(name("Code"), vec![], vec![MethodInfo { access_flags: 1, name_index: 1, descriptor_index: 1, attributes: vec![AttributeInfo::Code { attribute_name_index: 1, max_stack: 0, max_locals: 0, code: body.clone(), exception_table: vec![], attributes: vec![] }] }], vec![]), true, false));
	}
	out
}

/// deep nesting: the crate's reader, writer and length recurse over element values in arrays / nested annotations and over
/// attributes inside Code / Record components; (what, value, also a correspondence case).  All inside the hypotheses.
fn nested_values() -> Vec<(String, ClassFile, bool)> {
	let mut out = vec![];
	let class = |names: &[&str], attributes: Vec<AttributeInfo>| ClassFile { minor_version: 0, major_version: 61, constant_pool: names.iter().map(|n| CpInfo::Utf8 { bytes: n.as_bytes().to_vec() }).collect(),
		access_flags: 0x21, this_class: 0, super_class: 0, interfaces: vec![], fields: vec![], methods: vec![], attributes };
	for (d, emit) in [(1usize, true), (12, true), (30, true), (300, false), (2000, false)] {
		let mut e = ElementValue::Byte { const_value_index: 1 };
		for i in 0..d { e = ElementValue::Array { values: if i % 7 == 3 { vec![ElementValue::Class { class_info_index: 1 }, e] } else { vec![e] } }; }
		out.push((format!("AnnotationDefault: arrays nested {d} deep"), class(&["AnnotationDefault"], vec![AttributeInfo::AnnotationDefault { attribute_name_index: 1, default_value: e }]), emit));
	}
	for (d, emit) in [(10usize, true), (500, false)] {
		let mut a = Annotation { type_index: 1, element_value_pairs: vec![] };
		for _ in 0..d { a = Annotation { type_index: 1, element_value_pairs: vec![ElementValuePairsEntry { element_name_index: 1, value: ElementValue::Annotation { annotation_value: a } }] }; }
		out.push((format!("RuntimeVisibleAnnotations: annotations nested {d} deep"), class(&["RuntimeVisibleAnnotations"], vec![AttributeInfo::RuntimeVisibleAnnotations { attribute_name_index: 1, annotations: vec![a] }]), emit));
	}
	for (d, emit) in [(3usize, true), (12, true), (150, false), (600, false)] {
		let mut a = vec![AttributeInfo::LineNumberTable { attribute_name_index: 2, line_number_table: vec![LineNumberTableEntry { start_pc: 0, line_number: 1 }] }];
		for _ in 0..d { a = vec![AttributeInfo::Code { attribute_name_index: 1, max_stack: 1, max_locals: 1, code: vec![0xb1], exception_table: vec![], attributes: a }]; }
		out.push((format!("Code attributes nested {d} deep (attribute_length of each covers all inner ones)"), class(&["Code", "LineNumberTable"], a), emit));
	}
	for (d, emit) in [(10usize, true), (300, false)] {
		let mut a = vec![AttributeInfo::Signature { attribute_name_index: 2, signature_index: 2 }];
		for _ in 0..d { a = vec![AttributeInfo::Record { attribute_name_index: 1, components: vec![RecordComponentInfo { name_index: 1, descriptor_index: 2, attributes: a }] }]; }
		out.push((format!("Record attributes nested {d} deep through their components"), class(&["Record", "Signature"], a), emit));
	}
	out
}

/// every attribute kind once, as the only attribute of a class, with its attribute_length exact, one too large and one too
/// small: a prescribed (literal) length that is off makes the read fail, a computed one is read and written back repaired —
/// either way the file is not well-formed (walker and JVMS table agree) and not reproduced
fn crafted_lengths(seed: u64) -> Vec<(String, Vec<u8>)> {
	let mut out = vec![];
	for kind in 0..30usize {
		let mut rng = Rng::new(seed.wrapping_mul(31).wrapping_add(kind as u64));
		let mut g = RawGen { rng: &mut rng, pool: Pool::default(), budget: 8, wide: kind % 3 == 0 };
		if kind % 3 == 0 { g.pool.push(CpInfo::Long { high_bytes: 1, low_bytes: 2 }); }
		let attr = g.attr_of_kind(1, kind);
		let pool = std::mem::take(&mut g.pool.e);
		let name = match &attr { a => format!("{a:?}").split(' ').next().unwrap_or("?").to_string() };
		let mk = |attributes: Vec<AttributeInfo>| ClassFile { minor_version: 0, major_version: 61, constant_pool: pool.clone(), access_flags: 0x21, this_class: 0, super_class: 0,
			interfaces: vec![], fields: vec![], methods: vec![], attributes };
		let at = mk(vec![]).length() + 2; // behind attributes_count and the attribute's name index
		let base = mk(vec![attr]).to_bytes();
		let len = u32::from_be_bytes([base[at], base[at + 1], base[at + 2], base[at + 3]]);
		out.push((format!("{name}: attribute_length {len} (exact)"), base.clone()));
		for d in [1i64, -1] {
			let l2 = len as i64 + d;
			if l2 < 0 { continue; }
			let mut b = base.clone();
			b[at..at + 4].copy_from_slice(&(l2 as u32).to_be_bytes());
			out.push((format!("{name}: attribute_length {l2} instead of {len}"), b));
		}
	}
	out
}

/// values outside the hypotheses of read_write, one stream per hypothesis
fn gen_violating(rng: &mut Rng, which: usize) -> ClassFile {
	let mut p = Pool::default();
	let smt = p.utf8("StackMapTable");
	let code = p.utf8("Code");
	let sig = p.utf8("Signature");
	let k = p.push(CpInfo::Class { name_index: 1 });
	let attr = match which {
		// frame tags that resolve to another variant, or overflow the u8 tag arithmetic
		0 => AttributeInfo::StackMapTable { attribute_name_index: smt, entries: vec![StackMapFrame::SameFrame { offset_delta: rng.range(64, 255) as u8 }] },
		1 => AttributeInfo::StackMapTable { attribute_name_index: smt, entries: vec![StackMapFrame::SameLocals1StackItemFrame { offset_delta: rng.range(64, 255) as u8, stack: VerificationTypeInfo::Top {} }] },
		2 => AttributeInfo::StackMapTable { attribute_name_index: smt, entries: vec![StackMapFrame::ChopFrame { k: [0u8, 4, 5, 251, 252, 255][rng.below(6)], offset_delta: 7 }] },
		3 => { let n = [0usize, 4, 5, 261][rng.below(4)]; AttributeInfo::StackMapTable { attribute_name_index: smt, entries: vec![StackMapFrame::AppendFrame { offset_delta: 7, locals: vec![VerificationTypeInfo::Top {}; n] }] } }
		// attribute whose name index designates another name / no Utf8 / nothing
		4 => AttributeInfo::Code { attribute_name_index: sig, max_stack: 0, max_locals: 0, code: vec![], exception_table: vec![], attributes: vec![] },
		5 => AttributeInfo::Other { attribute_name_index: code, info: vec![0, 1, 0, 1, 0, 0, 0, 0, 0, 0, 0, 0] },
		6 => AttributeInfo::Signature { attribute_name_index: k, signature_index: 1 },
		7 => AttributeInfo::Deprecated { attribute_name_index: [0u16, 9, 0xFFFF][rng.below(3)] },
		// a count that does not fit its width: MethodParameters has a one-byte count
		_ => { let mp = p.utf8("MethodParameters"); AttributeInfo::MethodParameters { attribute_name_index: mp, parameters: vec![MethodParametersEntry { name_index: 0, access_flags: 0 }; [256usize, 257, 300][rng.below(3)]] } }
	};
	ClassFile { minor_version: 0, major_version: 52, constant_pool: p.e, access_flags: 0, this_class: 0, super_class: 0, interfaces: vec![], fields: vec![], methods: vec![], attributes: vec![attr] }
}

/// deterministic byte-level edits of a small written file, one per reader branch that random mutation rarely reaches
fn crafted() -> Vec<(String, Vec<u8>)> {
	let mut out = vec![];
	let mut p = Pool::default();
	let sig = p.utf8("Signature");
	let exc = p.utf8("Exceptions");
	let cls = p.class("A");
	let other = p.utf8("Whatever");
	let mk = |attrs: Vec<AttributeInfo>, pool: &Pool| ClassFile { minor_version: 0, major_version: 52, constant_pool: pool.e.clone(), access_flags: 0x21, this_class: cls, super_class: 0,
		interfaces: vec![], fields: vec![], methods: vec![], attributes: attrs }.to_bytes();
	let base = mk(vec![AttributeInfo::Signature { attribute_name_index: sig, signature_index: 1 }], &p);
	let n = base.len();
	out.push(("unchanged".to_string(), base.clone()));
	let patch = |at: usize, v: &[u8], what: &str, out: &mut Vec<(String, Vec<u8>)>, base: &Vec<u8>| { let mut b = base.clone(); b[at..at + v.len()].copy_from_slice(v); out.push((what.to_string(), b)); };
	patch(0, &[0xCA, 0xFE, 0xBA, 0xBF], "magic off by one", &mut out, &base);
	patch(8, &[0, 0], "constant_pool_count 0 (u16 underflow in the length expression)", &mut out, &base);
	patch(8, &[0, 1], "constant_pool_count 1 (empty pool, entries become garbage)", &mut out, &base);
	patch(8, &[0xFF, 0xFF], "constant_pool_count 65535", &mut out, &base);
	patch(n - 6, &[0, 0, 0, 3], "literal attribute_length 3 for Signature", &mut out, &base);
	patch(n - 6, &[0, 0, 0, 0], "literal attribute_length 0 for Signature", &mut out, &base);
	patch(n - 8, &[0, 0], "attribute_name_index 0 (u16 underflow in pool_has_utf8)", &mut out, &base);
	patch(n - 8, &(cls.to_be_bytes()), "attribute_name_index designates a Class entry", &mut out, &base);
	patch(n - 8, &[0x7F, 0xFF], "attribute_name_index past the pool", &mut out, &base);
	patch(n - 8, &(other.to_be_bytes()), "attribute name unknown: read as Other with the same bytes", &mut out, &base);
	patch(n - 10, &[0xFF, 0xFF], "attributes_count 65535", &mut out, &base);
	let mut t = base.clone(); t.extend([1, 2, 3]); out.push(("three trailing bytes".into(), t));
	for k in 0..n { out.push((format!("truncated to {k} bytes"), base[..k].to_vec())); }
	// a computed attribute_length that disagrees with the structure: the reader never looks at it
	let b2 = mk(vec![AttributeInfo::Exceptions { attribute_name_index: exc, exception_index_table: vec![cls, cls] }], &p);
	let m = b2.len();
	out.push(("Exceptions unchanged".into(), b2.clone()));
	patch(m - 10, &[0, 0, 0, 7], "computed attribute_length 7 instead of 6 for Exceptions", &mut out, &b2);
	patch(m - 10, &[0xFF, 0, 0, 6], "computed attribute_length huge for Exceptions", &mut out, &b2);
	patch(m - 6, &[0xFF, 0xFF], "number_of_exceptions 65535", &mut out, &b2);
	let b3 = mk(vec![AttributeInfo::Other { attribute_name_index: other, info: vec![9, 9, 9] }], &p);
	let m3 = b3.len();
	patch(m3 - 7, &[0, 0xFF, 0xFF, 0xFF], "unknown attribute announcing 16 MiB of info", &mut out, &b3);
	patch(m3 - 7, &[0, 0, 0, 2], "unknown attribute one byte shorter than its info (trailing byte)", &mut out, &b3);
	out
}

pub fn run(ctx: &Ctx) -> anyhow::Result<Report> {
	let mut r = Report::new("C20", "C20.Run");
	let mut rng = Rng::new(ctx.seed);
	r.rule = "streams: corpus (javac 17 --release 8/11/17 classes vendored under corpus/C20, read + rewritten); shared-corpus (every class of corpus/classes — javac 8/11/17 output, 260 third-party/JDK classes, crafted ones; 76 of them with long/double constants — through the oracle, the smaller ones with 8-byte constants also as correspondence cases); raw (random raw ClassFile values over every struct/enum/variant the crate declares, attribute names interned so that tags resolve: inside the hypotheses of read_write); raw-wide (same with Long/Double pool entries in front of and behind the interned attribute names: indices are JVMS indices, an 8-byte constant takes two); valid (small semantically valid classes, also cross-read by duke::read_class and compared with the generator's ground truth); violating (one sub-stream per hypothesis of read_write: frame tags resolving elsewhere, u8 tag overflow, attribute names designating another/no name, count wider than its field); written (bytes the crate wrote, read as input); crafted-lengths (each of the 28 modelled attribute kinds and two unknown ones as the only attribute of a class, attribute_length exact / one too large / one too small: prescribed lengths are refused, computed ones read and repaired); crafted (deterministic edits: wrong magic, pool count 0/1/65535, literal and computed attribute_length off, name index 0 / not Utf8 / past the pool / unknown name, giant counts, every truncation, trailing bytes; pools with 8-byte constants announced with every count around the right one, attribute names designating every index of such a pool incl. the unusable second index of a Long/Double — refused with an error, never a panic); mutated (1-3 byte edits/truncations of corpus and written files); nested (element values in arrays 1..2000 deep, annotations in annotations 10/500 deep, Code in Code 3..600 deep, Record in Record 10/300 deep: the recursion of reader, writer and length; the deepest oracle-only, with a crumb in case the process dies); pool-tail (pools ENDING in a Long / Double, alone or behind other entries, with and without an attribute: constant_pool_count judged directly and by the walker, value and bytes both correspondence cases); positions (the attribute name as the only / first / middle / LAST pool entry, directly behind or in front of 8-byte constants, x six attribute kinds on class, field and method; a third of the raw values also end their pool with the name of their last attribute); boundary / boundary-violating (254..257 elements under a u8 count, 255/256/65535/65536/70000 under u16 counts and lengths incl. Utf8, constant_pool_count 65535 and 0 with one- and two-index entries, an attribute name at index 65534, attribute bodies of 65535/65536/70000 bytes under u32 lengths; the large ones oracle-only, except the 65536-byte SourceDebugExtension, which is a correspondence case in a shard of its own). Oracle on the implementation alone: length()==bytes written, write()==to_bytes() also through writers accepting 7..64 bytes per call, interrupted writers, a 16-byte BufWriter over them and an exact-length slice, an error into a slice one byte short, read(to_bytes(v))==v, every successful read consumed exactly length() of the value it returned (well-formed input or not), files accepted by an independent strict JVMS walker are reproduced byte for byte and — where the harness' independent semantic parser also accepts them (corpus, valid) — every item of the value read (the crate's public field names) equals the item at that JVMS position and files the crate writes are accepted by it. Every byte-string correspondence case carries the walker's verdict, which the model compares with the strict reader generated from the hand-written JVMS table of coq/C20/Jvms.v (the notion of well-formedness of C20_reads_every_wellformed_class / C20_strict_accepts_iff). Non-trivial: non-empty pool or attributes / more than 24 bytes; distinct by Debug text or bytes.".into();
	let (n_raw, n_valid, n_viol, n_mut) = if ctx.thorough { (3000, 900, 270, 3000) } else { (320, 100, 54, 300) };
	r.shard_size = if ctx.thorough { 170 } else { 62 };

	// replay of a single file: a class file (binary) given on the command line
	if let Some(p) = &ctx.replay { if let Ok(b) = std::fs::read(p) { through_bytes(&mut r, "replay", &b, &p.display().to_string(), true); } }

	// 1 corpus (its cases are spread over the shards: they are the largest ones)
	let corpus = corpus_files();
	r.notes.push(format!("corpus: {} class files", corpus.len()));
	let mut seeds: Vec<Vec<u8>> = vec![];
	let mut pending: Vec<(String, Vec<u8>)> = corpus.clone();
	for (_, b) in &corpus { if b.len() <= 700 { seeds.push(b.clone()); } }
	// the fixture of the crate's own test
	if let Ok(b) = std::fs::read(std::path::Path::new(&std::env::var("VERIF_REPO").unwrap_or("/repo".into())).join("raw_class_file/tests/simple_expected.class")) {
		pending.push(("raw_class_file/tests/simple_expected.class".into(), b.clone()));
		seeds.push(b);
	}
	pending.reverse();
	let corpus_limit = if ctx.thorough { 4000 } else { 1300 };
	let every = (n_raw / (pending.len() + 1)).max(1);

	// 2 raw values
	for i in 0..n_raw {
		if i % every == 0 { if let Some((name, b)) = pending.pop() { through_bytes(&mut r, "corpus", &b, &name, b.len() <= corpus_limit); } }
		let wide = i % 5 == 4;
		let c = gen_raw(&mut rng, wide);
		if let Some(b) = through_value(&mut r, if wide { "raw-wide" } else { "raw" }, &c, Some(true), true) {
			r.count(&format!("raw_bytes_{}", (b.len() / 100) * 100));
			if i % 4 == 0 { through_bytes(&mut r, "written", &b, "bytes written by the crate", true); if b.len() <= 500 { seeds.push(b); } }
		}
	}
	while let Some((name, b)) = pending.pop() { through_bytes(&mut r, "corpus", &b, &name, b.len() <= corpus_limit); }
	// 3 valid classes, cross-read by duke
	for _ in 0..n_valid {
		let (c, f) = gen_valid(&mut rng);
		if let Some(b) = through_value(&mut r, "valid", &c, Some(true), true) {
			match duke_facts(&b, &f) {
				Ok(()) => r.count("duke_cross_read_ok"),
				Err(e) => r.violation(format!("duke reads another structure than the one written: {e}"), format!("property C20, stream valid\nduke::read_class on the bytes raw_class_file wrote: {e}\nraw value:\n{c:?}\nbytes: {}", hex(&b))),
			}
		}
	}
	// duke on the rewritten corpus
	for (name, b) in &corpus {
		if let Ok(Some((v, _))) = impl_read(b) {
			if let Ok(out) = impl_write(&v) {
				let o2 = out.clone();
				let a = guarded(move || duke::read_class(&mut Cursor::new(&o2)).map(|c| format!("{c:?}")).map_err(|e| e.to_string()));
				let b2 = b.clone();
				let e = guarded(move || duke::read_class(&mut Cursor::new(&b2)).map(|c| format!("{c:?}")).map_err(|e| e.to_string()));
				if a == e { r.count("duke_corpus_same_tree"); } else {
					r.violation(format!("duke sees another class in the rewritten {name}"), format!("property C20, corpus {name}: duke::read_class(original) != duke::read_class(read+to_bytes)\noriginal: {}\nrewritten: {}", hex(b), hex(&out)));
				}
			}
		}
	}
	// 4 outside the hypotheses
	for i in 0..n_viol {
		let which = i % 9;
		let c = gen_violating(&mut rng, which);
		through_value(&mut r, &format!("violating-{which}"), &c, Some(false), true);
	}
	// 4b attribute names at the first / last / behind-a-wide-entry pool positions; boundary values of every count width
	for (what, c) in crafted_positions() {
		if let Some(b) = through_value(&mut r, "positions", &c, Some(true), true) { through_bytes(&mut r, "positions-bytes", &b, &what, false); if b.len() <= 500 { seeds.push(b); } }
		r.count("crafted_positions");
	}
	for (what, c) in pool_tail_values() {
		// the count the JVMS prescribes, judged here directly (besides the walker): bytes 8..10 of the written file
		let want = 1 + indices_used(&c.constant_pool);
		if let Some(b) = through_value(&mut r, "pool-tail", &c, Some(true), true) {
			let got = u16::from_be_bytes([b[8], b[9]]) as usize;
			if got != want { r.violation(format!("constant_pool_count written as {got}, the pool takes up {} indices: JVMS 4.1 prescribes {want}", want - 1), format!("property C20, stream pool-tail\n{what}\nraw value:\n{c:?}\nbytes: {}", hex(&b))); }
			through_bytes(&mut r, "pool-tail-bytes", &b, &what, true);
			if b.len() <= 500 { seeds.push(b); }
		}
		r.count("pool_tail_values");
	}
	for (what, c, fits, emit) in boundary_values(ctx.thorough) {
		let stream = if fits { "boundary" } else { "boundary-violating" };
		if emit && c.length() > 4000 { r.count("boundary_big_case"); through_value_big(&mut r, stream, &c, Some(fits)); }
		else if let Some(b) = through_value(&mut r, stream, &c, Some(fits), emit) { if fits { through_bytes(&mut r, "boundary-bytes", &b, &what, false); } }
		r.count(if emit { "boundary_values_also_correspondence" } else { "boundary_values_oracle_only" });
	}
	// 4c deep nesting (recursion of reader, writer and length); the deeper ones are oracle-only (a stack overflow would show up
	// through the crumb)
	for (what, c, emit) in nested_values() {
		if let Some(b) = through_value(&mut r, "nested", &c, Some(true), emit) { through_bytes(&mut r, "nested-bytes", &b, &what, false); }
		r.count("nested_values");
	}
	// 5 crafted edits, then random mutations
	for (what, b) in crafted() { through_bytes(&mut r, "crafted", &b, &what, true); }
	for (what, b) in crafted_lengths(ctx.seed) { through_bytes(&mut r, "crafted-lengths", &b, &what, true); }
	for (what, b) in crafted_wide() {
		if impl_read(&b).is_err() { r.violation(format!("ClassFile::read panicked on: {what}"), format!("property C20, stream crafted-wide\nClassFile::read panics (an io::Error is expected) on: {what}\nclass file bytes (hex):\n{}", hex(&b))); }
		if b.len() <= 500 { seeds.push(b.clone()); }
		through_bytes(&mut r, "crafted-wide", &b, &what, true);
	}
	// 6 the corpus shared by the class-file properties: oracle on every file, correspondence cases for the smaller ones with 8-byte constants
	let shared = shared_corpus_files();
	r.notes.push(format!("shared corpus: {} class files", shared.len()));
	let (mut shared_wide, mut shared_emitted, mut shared_rejected) = (0, 0, vec![]);
	let shared_limit = if ctx.thorough { (3000, 120) } else { (1200, 24) };
	for (name, b) in &shared {
		let wide = matches!(jvms::check(b), Ok(true));
		if wide { shared_wide += 1; }
		if jvms::check(b).is_err() { shared_rejected.push(name.clone()); }
		let emit = wide && b.len() <= shared_limit.0 && shared_emitted < shared_limit.1;
		if emit { shared_emitted += 1; }
		through_bytes(&mut r, "shared-corpus", b, name, emit);
	}
	r.notes.push(format!("shared corpus: {shared_wide} well-formed files with long/double constants, {shared_emitted} of them also correspondence cases; not well-formed for the strict walker (predefined attribute names on foreign bytes, by construction): {shared_rejected:?}"));
	for i in 0..n_mut {
		let mut b = seeds[rng.below(seeds.len())].clone();
		for _ in 0..rng.range(1, 3) { mutate(&mut rng, &mut b); }
		through_bytes(&mut r, "mutated", &b, "mutation", b.len() <= 800 || i % 8 == 0);
	}
	Ok(r)
}

fn main() -> anyhow::Result<()> { fbh::main_with(run) }
