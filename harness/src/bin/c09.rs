//! C09 — `Mappings::merge`: faithful join of two two-namespace mapping sets on the shared
//! first namespace.  Generators of overlapping pairs, the call into quill, an independent
//! reference join, the projection/key/column/error oracles on the implementation's answer,
//! and the Gallina cases for coq/C09/Run.v.
use fbh::gal::*;
use fbh::mapmodel::*;
use fbh::prng::Rng;
use fbh::report::{crumb, guarded, Report};
use fbh::Ctx;
use quill::tree::mappings::Mappings;
use quill::tree::names::{Names, Namespace, Namespaces};
use std::collections::{BTreeSet, HashMap, HashSet};
use std::hash::Hash;
use std::panic::AssertUnwindSafe;

struct NsS; struct NsA; struct NsB;

// ---------- the implementation ----------
/// Ok(Some(m)) merged, Ok(None) the implementation returned Err, Err(p) it panicked,
/// plus the list of nodes whose IndexMap key is not the key of their info.
fn impl_merge(a: &MMappings, b: &MMappings) -> anyhow::Result<(Result<Option<MMappings>, String>, Vec<String>)> {
	let qa = to_quill::<2, (NsS, NsA)>(a)?;
	let qb = to_quill::<2, (NsS, NsB)>(b)?;
	Ok(impl_merge_q(&qa, &qb))
}
fn impl_merge_q(qa: &Mappings<2, (NsS, NsA)>, qb: &Mappings<2, (NsS, NsB)>) -> (Result<Option<MMappings>, String>, Vec<String>) {
	let mut desync = vec![];
	let r = guarded(AssertUnwindSafe(|| Mappings::<2, (NsS, NsA, NsB)>::merge(qa, qb).ok()));
	let r = r.map(|o| o.map(|m| from_quill::<3, _>(&m, &mut desync)));
	(r, desync)
}

// ---------- keys ----------
type K2 = (S, S);
fn ckey(c: &MClass) -> S { c.names[0].clone().unwrap_or_default() }
fn fkey(f: &MField) -> K2 { (f.names[0].clone().unwrap_or_default(), f.desc.clone()) }
fn mkey(m: &MMeth) -> K2 { (m.names[0].clone().unwrap_or_default(), m.desc.clone()) }
fn pkey(p: &MParam) -> u64 { p.index }

// ---------- independent reference join ----------
fn ref_names(a: Option<&NamesRow>, b: Option<&NamesRow>) -> Result<NamesRow, String> {
	match (a, b) {
		(Some(a), None) => Ok(vec![a[0].clone(), a[1].clone(), None]),
		(None, Some(b)) => Ok(vec![b[0].clone(), None, b[1].clone()]),
		(Some(a), Some(b)) => {
			if a[0] != b[0] { return Err("first names differ".into()); }
			Ok(vec![a[0].clone(), a[1].clone(), b[1].clone()])
		}
		(None, None) => Err("no side".into()),
	}
}
fn ref_doc(a: Option<&Option<S>>, b: Option<&Option<S>>) -> Result<Option<S>, String> {
	let a = a.and_then(|d| d.as_ref());
	let b = b.and_then(|d| d.as_ref());
	match (a, b) {
		(Some(x), Some(y)) if x != y => Err("comments differ".into()),
		(Some(x), _) => Ok(Some(x.clone())),
		(None, y) => Ok(y.cloned()),
	}
}
/// A's entries in A's order joined with their partner in B, then the entries only B has
fn ref_join_list<T, K: Hash + Eq, W>(a: &[T], b: &[T], key: impl Fn(&T) -> K, mut f: impl FnMut(Option<&T>, Option<&T>) -> Result<W, String>) -> Result<Vec<W>, String> {
	let in_b: HashMap<K, &T> = b.iter().map(|y| (key(y), y)).collect();
	let in_a: HashSet<K> = a.iter().map(&key).collect();
	let mut out = vec![];
	for x in a { out.push(f(Some(x), in_b.get(&key(x)).copied())?); }
	for y in b { if !in_a.contains(&key(y)) { out.push(f(None, Some(y))?); } }
	Ok(out)
}
fn ref_join(a: &MMappings, b: &MMappings) -> Result<MMappings, String> {
	if a.ns[0] != b.ns[0] { return Err("first namespaces differ".into()); }
	const NOP: &[MParam] = &[];
	let classes = ref_join_list(&a.classes, &b.classes, ckey, |x, y| {
		let nof: Vec<MField> = vec![]; let nom: Vec<MMeth> = vec![];
		let fields = ref_join_list(x.map_or(&nof[..], |c| &c.fields[..]), y.map_or(&nof[..], |c| &c.fields[..]), fkey, |x, y| {
			Ok(MField { desc: x.or(y).unwrap().desc.clone(), names: ref_names(x.map(|f| &f.names), y.map(|f| &f.names))?, doc: ref_doc(x.map(|f| &f.doc), y.map(|f| &f.doc))? })
		})?;
		let methods = ref_join_list(x.map_or(&nom[..], |c| &c.methods[..]), y.map_or(&nom[..], |c| &c.methods[..]), mkey, |x, y| {
			let params = ref_join_list(x.map_or(NOP, |m| &m.params[..]), y.map_or(NOP, |m| &m.params[..]), pkey, |x, y| {
				Ok(MParam { index: x.or(y).unwrap().index, names: ref_names(x.map(|p| &p.names), y.map(|p| &p.names))?, doc: ref_doc(x.map(|p| &p.doc), y.map(|p| &p.doc))? })
			})?;
			Ok(MMeth { desc: x.or(y).unwrap().desc.clone(), names: ref_names(x.map(|m| &m.names), y.map(|m| &m.names))?, doc: ref_doc(x.map(|m| &m.doc), y.map(|m| &m.doc))?, params })
		})?;
		Ok(MClass { names: ref_names(x.map(|c| &c.names), y.map(|c| &c.names))?, doc: ref_doc(x.map(|c| &c.doc), y.map(|c| &c.doc))?, fields, methods })
	})?;
	Ok(MMappings { ns: vec![a.ns[0].clone(), a.ns[1].clone(), b.ns[1].clone()], doc: ref_doc(Some(&a.doc), Some(&b.doc))?, classes })
}

// ---------- the documented conflicts, found by a scan over shared key paths ----------
fn docs_conflict(a: &Option<S>, b: &Option<S>) -> bool { matches!((a, b), (Some(x), Some(y)) if x != y) }
fn conflicts(a: &MMappings, b: &MMappings) -> Vec<String> {
	let mut out = vec![];
	if a.ns[0] != b.ns[0] { out.push("ns".to_string()); }
	if docs_conflict(&a.doc, &b.doc) { out.push("doc-top".to_string()); }
	for ca in &a.classes {
		let Some(cb) = b.classes.iter().find(|c| ckey(c) == ckey(ca)) else { continue };
		if docs_conflict(&ca.doc, &cb.doc) { out.push("doc-class".into()); }
		for fa in &ca.fields {
			if let Some(fb) = cb.fields.iter().find(|f| fkey(f) == fkey(fa)) { if docs_conflict(&fa.doc, &fb.doc) { out.push("doc-field".into()); } }
		}
		for ma in &ca.methods {
			let Some(mb) = cb.methods.iter().find(|m| mkey(m) == mkey(ma)) else { continue };
			if docs_conflict(&ma.doc, &mb.doc) { out.push("doc-method".into()); }
			for pa in &ma.params {
				let Some(pb) = mb.params.iter().find(|p| p.index == pa.index) else { continue };
				if docs_conflict(&pa.doc, &pb.doc) { out.push("doc-param".into()); }
				if pa.names[0] != pb.names[0] { out.push("param-first-name".into()); }
			}
		}
	}
	out
}

/// which kinds of comment pairs involving the empty comment occur on shared entries (input distribution)
fn empty_doc_pairs(a: &MMappings, b: &MMappings) -> BTreeSet<&'static str> {
	let mut out = BTreeSet::new();
	let mut see = |x: &Option<S>, y: &Option<S>| {
		let e = |d: &Option<S>| d.as_ref().is_some_and(|s| s.is_empty());
		match (x, y) {
			(Some(_), None) if e(x) => { out.insert("docpair:A empty, B absent"); }
			(None, Some(_)) if e(y) => { out.insert("docpair:A absent, B empty"); }
			(Some(_), Some(_)) if e(x) && e(y) => { out.insert("docpair:both empty"); }
			(Some(_), Some(_)) if e(x) || e(y) => { out.insert("docpair:empty against text (conflict)"); }
			_ => {}
		}
	};
	see(&a.doc, &b.doc);
	for ca in &a.classes {
		let Some(cb) = b.classes.iter().find(|c| ckey(c) == ckey(ca)) else { continue };
		see(&ca.doc, &cb.doc);
		for fa in &ca.fields { if let Some(fb) = cb.fields.iter().find(|f| fkey(f) == fkey(fa)) { see(&fa.doc, &fb.doc); } }
		for ma in &ca.methods {
			let Some(mb) = cb.methods.iter().find(|m| mkey(m) == mkey(ma)) else { continue };
			see(&ma.doc, &mb.doc);
			for pa in &ma.params { if let Some(pb) = mb.params.iter().find(|p| p.index == pa.index) { see(&pa.doc, &pb.doc); } }
		}
	}
	out
}

// ---------- projections of the implementation's answer ----------
fn mask(dx: &Option<S>, dy: &Option<S>) -> Option<S> { if dx.is_none() { None } else { dy.clone() } }
fn pick(n: &NamesRow, i: usize) -> NamesRow { vec![n[0].clone(), n[i].clone()] }
/// M's entries (in M's order) whose key path exists in X, columns (0, i); comments only where X has one
fn restrict(m: &MMappings, i: usize, x: &MMappings) -> MMappings {
	let mut out = MMappings { ns: vec![m.ns[0].clone(), m.ns[i].clone()], doc: mask(&x.doc, &m.doc), classes: vec![] };
	for yc in &m.classes {
		let Some(xc) = x.classes.iter().find(|c| ckey(c) == ckey(yc)) else { continue };
		let mut c = MClass { names: pick(&yc.names, i), doc: mask(&xc.doc, &yc.doc), fields: vec![], methods: vec![] };
		for yf in &yc.fields {
			let Some(xf) = xc.fields.iter().find(|f| fkey(f) == fkey(yf)) else { continue };
			c.fields.push(MField { desc: yf.desc.clone(), names: pick(&yf.names, i), doc: mask(&xf.doc, &yf.doc) });
		}
		for ym in &yc.methods {
			let Some(xm) = xc.methods.iter().find(|f| mkey(f) == mkey(ym)) else { continue };
			let mut mm = MMeth { desc: ym.desc.clone(), names: pick(&ym.names, i), doc: mask(&xm.doc, &ym.doc), params: vec![] };
			for yp in &ym.params {
				let Some(xp) = xm.params.iter().find(|p| p.index == yp.index) else { continue };
				mm.params.push(MParam { index: yp.index, names: pick(&yp.names, i), doc: mask(&xp.doc, &yp.doc) });
			}
			c.methods.push(mm);
		}
		out.classes.push(c);
	}
	out
}
/// the order law for B: entries whose key the corresponding node of A also has, in A's order, then the rest in B's order
fn reord<T: Clone, K: PartialEq>(xa: &[T], lb: &[T], key: impl Fn(&T) -> K) -> Vec<T> {
	let mut out: Vec<T> = vec![];
	for x in xa { if let Some(y) = lb.iter().find(|y| key(y) == key(x)) { out.push(y.clone()); } }
	for y in lb { if !xa.iter().any(|x| key(x) == key(y)) { out.push(y.clone()); } }
	out
}
fn reorder(a: &MMappings, b: &MMappings) -> MMappings {
	let mut out = MMappings { ns: b.ns.clone(), doc: b.doc.clone(), classes: vec![] };
	for yc in reord(&a.classes, &b.classes, ckey) {
		let xc = a.classes.iter().find(|c| ckey(c) == ckey(&yc));
		let (xf, xm): (&[MField], &[MMeth]) = match xc { Some(c) => (&c.fields, &c.methods), None => (&[], &[]) };
		let mut c = MClass { names: yc.names.clone(), doc: yc.doc.clone(), fields: reord(xf, &yc.fields, fkey), methods: vec![] };
		for ym in reord(xm, &yc.methods, mkey) {
			let xp: &[MParam] = match xm.iter().find(|m| mkey(m) == mkey(&ym)) { Some(m) => &m.params, None => &[] };
			c.methods.push(MMeth { desc: ym.desc.clone(), names: ym.names.clone(), doc: ym.doc.clone(), params: reord(xp, &ym.params, pkey) });
		}
		out.classes.push(c);
	}
	out
}
/// the key paths of a set, as strings (for the union law)
fn key_paths(m: &MMappings) -> (BTreeSet<String>, usize) {
	let mut s = BTreeSet::new(); let mut n = 0;
	for c in &m.classes {
		let ck = format!("{:?}", ckey(c)); s.insert(ck.clone()); n += 1;
		for f in &c.fields { s.insert(format!("{ck}/f{:?}", fkey(f))); n += 1; }
		for me in &c.methods {
			let mk = format!("{ck}/m{:?}", mkey(me)); s.insert(mk.clone()); n += 1;
			for p in &me.params { s.insert(format!("{mk}/p{}", p.index)); n += 1; }
		}
	}
	(s, n)
}
/// comments of M that neither side has, or that differ from the side that has one
fn check_columns(a: &MMappings, b: &MMappings, m: &MMappings) -> Vec<String> {
	let mut bad = vec![];
	let row = |what: &str, y: &NamesRow, xa: Option<&NamesRow>, xb: Option<&NamesRow>, bad: &mut Vec<String>| {
		if y.len() != 3 { bad.push(format!("{what}: row of length {}", y.len())); return; }
		if y[1] != xa.and_then(|r| r[1].clone()) { bad.push(format!("{what}: column a is not A's name")); }
		if y[2] != xb.and_then(|r| r[1].clone()) { bad.push(format!("{what}: column b is not B's name")); }
		if xa.is_some_and(|r| r[0] != y[0]) || xb.is_some_and(|r| r[0] != y[0]) { bad.push(format!("{what}: first column differs from a side")); }
	};
	let doc = |what: &str, y: &Option<S>, xa: Option<&Option<S>>, xb: Option<&Option<S>>, bad: &mut Vec<String>| {
		let xa = xa.and_then(|d| d.clone()); let xb = xb.and_then(|d| d.clone());
		if *y != xa.clone().or(xb.clone()) { bad.push(format!("{what}: comment is not the one a side has")); }
	};
	for yc in &m.classes {
		let xa = a.classes.iter().find(|c| ckey(c) == ckey(yc)); let xb = b.classes.iter().find(|c| ckey(c) == ckey(yc));
		row("class", &yc.names, xa.map(|c| &c.names), xb.map(|c| &c.names), &mut bad);
		doc("class", &yc.doc, xa.map(|c| &c.doc), xb.map(|c| &c.doc), &mut bad);
		for yf in &yc.fields {
			let fa = xa.and_then(|c| c.fields.iter().find(|f| fkey(f) == fkey(yf))); let fb = xb.and_then(|c| c.fields.iter().find(|f| fkey(f) == fkey(yf)));
			row("field", &yf.names, fa.map(|c| &c.names), fb.map(|c| &c.names), &mut bad);
			doc("field", &yf.doc, fa.map(|c| &c.doc), fb.map(|c| &c.doc), &mut bad);
		}
		for ym in &yc.methods {
			let ma = xa.and_then(|c| c.methods.iter().find(|f| mkey(f) == mkey(ym))); let mb = xb.and_then(|c| c.methods.iter().find(|f| mkey(f) == mkey(ym)));
			row("method", &ym.names, ma.map(|c| &c.names), mb.map(|c| &c.names), &mut bad);
			doc("method", &ym.doc, ma.map(|c| &c.doc), mb.map(|c| &c.doc), &mut bad);
			for yp in &ym.params {
				let pa = ma.and_then(|c| c.params.iter().find(|p| p.index == yp.index)); let pb = mb.and_then(|c| c.params.iter().find(|p| p.index == yp.index));
				row("parameter", &yp.names, pa.map(|c| &c.names), pb.map(|c| &c.names), &mut bad);
				doc("parameter", &yp.doc, pa.map(|c| &c.doc), pb.map(|c| &c.doc), &mut bad);
			}
		}
	}
	bad
}

// ---------- human-readable replay text ----------
fn dump(m: &MMappings) -> String {
	let names = |n: &NamesRow| n.iter().map(|o| o.as_ref().map_or("<absent>".to_string(), |s| format!("{:?}", show(s)))).collect::<Vec<_>>().join(" ");
	let doc = |d: &Option<S>, ind: &str| d.as_ref().map_or(String::new(), |s| format!("{ind}comment {:?}\n", show(s)));
	let mut t = format!("namespaces {}\n{}", m.ns.iter().map(|s| format!("{:?}", show(s))).collect::<Vec<_>>().join(" "), doc(&m.doc, ""));
	for c in &m.classes {
		t += &format!("class {}\n{}", names(&c.names), doc(&c.doc, "  "));
		for f in &c.fields { t += &format!("  field {:?} {}\n{}", show(&f.desc), names(&f.names), doc(&f.doc, "    ")); }
		for me in &c.methods {
			t += &format!("  method {:?} {}\n{}", show(&me.desc), names(&me.names), doc(&me.doc, "    "));
			for p in &me.params { t += &format!("    parameter {} {}\n{}", p.index, names(&p.names), doc(&p.doc, "      ")); }
		}
	}
	t
}
fn vio(r: &mut Report, what: String, a: &MMappings, b: &MMappings, got: &str) {
	r.violation(what.clone(), format!("property C09 (Mappings::merge)\nwhat: {what}\n--- A (namespaces s, a)\n{}--- B (namespaces s, b)\n{}--- implementation answered\n{got}\n--- Gallina\nA := {}\nB := {}\n", dump(a), dump(b), g_mappings(a), g_mappings(b)));
}

// ---------- compact Gallina (CMergeT): a string table per case, strings written as [index] ----------
// (A, B and the result share almost all of their strings; Coq spends its time elaborating
// the literals, not evaluating the model)
#[derive(Default)]
struct Intern { tbl: Vec<S>, idx: HashMap<S, usize> }
impl Intern {
	fn s(&mut self, s: &S) -> String {
		if let Some(i) = self.idx.get(s) { return format!("[{i}]"); }
		let i = self.tbl.len(); self.tbl.push(s.clone()); self.idx.insert(s.clone(), i);
		format!("[{i}]")
	}
	fn names(&mut self, n: &NamesRow) -> String { let v: Vec<String> = n.iter().map(|o| gopt(o.as_ref().map(|s| self.s(s)))).collect(); glist(v) }
	fn doc(&mut self, d: &Option<S>) -> String { gopt(d.as_ref().map(|s| self.s(s))) }
	fn mappings(&mut self, m: &MMappings) -> String {
		let mut cs = vec![];
		for c in &m.classes {
			let fs: Vec<String> = c.fields.iter().map(|f| format!("(mkField {} {} {})", self.s(&f.desc), self.names(&f.names), self.doc(&f.doc))).collect();
			let mut ms = vec![];
			for me in &c.methods {
				let ps: Vec<String> = me.params.iter().map(|p| format!("(mkParam {} {} {})", p.index, self.names(&p.names), self.doc(&p.doc))).collect();
				ms.push(format!("(mkMeth {} {} {} {})", self.s(&me.desc), self.names(&me.names), self.doc(&me.doc), glist(ps)));
			}
			cs.push(format!("(mkClass {} {} {} {})", self.names(&c.names), self.doc(&c.doc), glist(fs), glist(ms)));
		}
		let ns: Vec<String> = m.ns.iter().map(|s| self.s(s)).collect();
		format!("(mkMappings {} {} {})", glist(ns), self.doc(&m.doc), glist(cs))
	}
}
fn g_case_t(a: &MMappings, b: &MMappings, got: &Option<MMappings>) -> String {
	let mut i = Intern::default();
	let body = format!("{} {} {}", i.mappings(a), i.mappings(b), gres(got.as_ref().map(|m| i.mappings(m))));
	format!("CMergeT {} {body}", glist(i.tbl.iter().map(|s| gstr(s))))
}

// ---------- generators ----------
const CLS2: [&str; 8] = ["net/minecraft/Foo", "Bar", "a/b/C", "Foo$Inner", "X", "Ü", "pkg/Thing", "Q$1"];
const MEM2: [&str; 8] = ["getValue", "name", "count", "run", "x", "field_1", "method_2", "π"];
const PAR2: [&str; 5] = ["value", "index", "p", "arg0", "名"];
const DOCS: [&str; 9] = ["from B", "a comment", "two\nlines", "x", "B's words", "ünï", "", " ", "a comment "];

fn second(rng: &mut Rng, pool: &[&str]) -> Option<S> { if rng.chance(1, 4) { None } else { Some(cps_str(*rng.pick(pool))) } }
/// the comment B gives to an entry A also has: none / the same / (rarely here) another one
fn doc_b(rng: &mut Rng, a: &Option<S>, docs: bool) -> Option<S> {
	if !docs { return None; }
	match rng.below(9) {
		0 | 1 => a.clone(),
		2 => Some(cps_str(*rng.pick(&DOCS[..]))),
		3 => Some(vec![]),                      // the empty comment is a comment: Some("") is not None
		_ => None,
	}
}
/// sprinkle empty comments over A (the shared generator never produces Some(""))
fn empty_docs(rng: &mut Rng, m: &mut MMappings) {
	let mut e = |d: &mut Option<S>| if rng.chance(1, 7) { *d = Some(vec![]); };
	e(&mut m.doc);
	for c in &mut m.classes { e(&mut c.doc); for f in &mut c.fields { e(&mut f.doc); } for me in &mut c.methods { e(&mut me.doc); for p in &mut me.params { e(&mut p.doc); } } }
}
/// a comment different from `d` (Some) — in every way two comments can differ, not only by a suffix
fn other_doc(rng: &mut Rng, d: &Option<S>) -> S {
	let s = d.clone().unwrap_or_default();
	let v: S = match rng.below(15) {
		// comments that a normalising comparison (lines(), trim, case folding, NFC …) would call equal
		8 => { let mut t = s.clone(); t.push('\n' as u32); t }                        // one trailing line break
		9 => { let mut t = s.clone(); t.push('\r' as u32); t.push('\n' as u32); t }   // trailing CR LF
		10 => { let mut t: S = vec![]; for &c in &s { if c == '\n' as u32 { t.push('\r' as u32); } t.push(c); } if t == s { t.push('\r' as u32); } t } // LF -> CR LF
		11 => { let mut t = vec![' ' as u32]; t.extend(&s); t }                      // leading blank
		12 => { let mut t = s.clone(); t.push('\t' as u32); t }                      // trailing TAB
		13 => { let mut t = s.clone(); t.push(0x2003); t }                           // trailing EM SPACE
		14 => { let mut t: S = vec![]; for &c in &s { t.push(c); if c == '\n' as u32 { t.push('\n' as u32); } } if t == s { t.insert(0, '\n' as u32); } t } // blank line inserted / leading line break
		0 => { let mut t = s.clone(); t.push('!' as u32); t }                         // suffix
		1 => { let mut t = vec!['!' as u32]; t.extend(&s); t }                        // prefix
		2 => vec![],                                                                  // empty against non-empty
		3 => { let mut t = s.clone(); t.push(' ' as u32); t }                         // trailing blank
		4 => { let mut t = s.clone(); if let Some(c) = t.last_mut() { *c ^= 0x20; } t } // last character changed (case)
		5 => { let mut t = s.clone(); if !t.is_empty() { let i = t.len() / 2; t[i] = t[i].wrapping_add(1); } t } // a character in the middle
		6 => { let mut t = s.clone(); t.pop(); t }                                    // proper prefix
		_ => cps_str("something else entirely"),
	};
	if v != s { v } else { let mut t = s; t.push('?' as u32); t }
}

/// B derived from A's source keys: keep some entries (new b-names, own comments), drop some,
/// add entries of an independently generated set, at every level; then shuffle B's order.
fn derive_b(rng: &mut Rng, a: &MMappings, cfg: &GenCfg) -> MMappings {
	let b0 = gen_mappings(rng, cfg);
	let pool_f: Vec<MField> = b0.classes.iter().flat_map(|c| c.fields.iter().cloned()).collect();
	let pool_m: Vec<MMeth> = b0.classes.iter().flat_map(|c| c.methods.iter().cloned()).collect();
	let mut b = MMappings { ns: vec![a.ns[0].clone(), cps_str("named")], doc: None, classes: vec![] };
	for ca in &a.classes {
		if rng.chance(1, 3) { continue; }                                  // only in A
		let mut c = MClass { names: vec![ca.names[0].clone(), second(rng, &CLS2)], doc: doc_b(rng, &ca.doc, cfg.docs), fields: vec![], methods: vec![] };
		for fa in &ca.fields {
			if rng.chance(1, 3) { continue; }
			c.fields.push(MField { desc: fa.desc.clone(), names: vec![fa.names[0].clone(), second(rng, &MEM2)], doc: doc_b(rng, &fa.doc, cfg.docs) });
		}
		for _ in 0..rng.below(3) {
			if pool_f.is_empty() { break; }
			let f = rng.pick(&pool_f[..]).clone();
			if !c.fields.iter().any(|g| fkey(g) == fkey(&f)) { c.fields.push(f); }
		}
		for ma in &ca.methods {
			if rng.chance(1, 3) { continue; }
			let mut m = MMeth { desc: ma.desc.clone(), names: vec![ma.names[0].clone(), second(rng, &MEM2)], doc: doc_b(rng, &ma.doc, cfg.docs), params: vec![] };
			for pa in &ma.params {
				if rng.chance(1, 3) { continue; }
				m.params.push(MParam { index: pa.index, names: vec![pa.names[0].clone(), second(rng, &PAR2)], doc: doc_b(rng, &pa.doc, cfg.docs) });
			}
			for _ in 0..rng.below(3) {
				let index = rng.below(7) as u64;
				if m.params.iter().any(|p| p.index == index) { continue; }
				let first = if rng.chance(1, 5) { Some(cps_str("p")) } else { None };
				m.params.push(MParam { index, names: vec![first, second(rng, &PAR2)], doc: if cfg.docs && rng.chance(1, 4) { Some(cps_str(*rng.pick(&DOCS[..]))) } else { None } });
			}
			c.methods.push(m);
		}
		for _ in 0..rng.below(3) {
			if pool_m.is_empty() { break; }
			let m = rng.pick(&pool_m[..]).clone();
			if !c.methods.iter().any(|g| mkey(g) == mkey(&m)) { c.methods.push(m); }
		}
		b.classes.push(c);
	}
	for c0 in &b0.classes {                                                 // only in B (or shared again, with independent content)
		if !b.classes.iter().any(|c| ckey(c) == ckey(c0)) && rng.chance(2, 3) { b.classes.push(c0.clone()); }
	}
	shuffled(rng, &b)
}

/// B with exactly A's keys in A's ORDER at every level (own b-names, own comments)
fn mirror_b(rng: &mut Rng, a: &MMappings, docs: bool) -> MMappings {
	let mut b = MMappings { ns: vec![a.ns[0].clone(), cps_str("named")], doc: None, classes: vec![] };
	for ca in &a.classes {
		let mut c = MClass { names: vec![ca.names[0].clone(), second(rng, &CLS2)], doc: doc_b(rng, &ca.doc, docs), fields: vec![], methods: vec![] };
		for fa in &ca.fields { c.fields.push(MField { desc: fa.desc.clone(), names: vec![fa.names[0].clone(), second(rng, &MEM2)], doc: doc_b(rng, &fa.doc, docs) }); }
		for ma in &ca.methods {
			let mut m = MMeth { desc: ma.desc.clone(), names: vec![ma.names[0].clone(), second(rng, &MEM2)], doc: doc_b(rng, &ma.doc, docs), params: vec![] };
			for pa in &ma.params { m.params.push(MParam { index: pa.index, names: vec![pa.names[0].clone(), second(rng, &PAR2)], doc: doc_b(rng, &pa.doc, docs) }); }
			c.methods.push(m);
		}
		b.classes.push(c);
	}
	b
}

/// remove every documented conflict from B (so that the pair merges)
fn sanitize(rng: &mut Rng, a: &MMappings, b: &mut MMappings) {
	fn fix(rng: &mut Rng, a: &Option<S>, b: &mut Option<S>) { if docs_conflict(a, b) { *b = if rng.chance(1, 2) { a.clone() } else { None }; } }
	b.ns[0] = a.ns[0].clone();
	fix(rng, &a.doc, &mut b.doc);
	for cb in &mut b.classes {
		let Some(ca) = a.classes.iter().find(|c| ckey(c) == ckey(cb)) else { continue };
		fix(rng, &ca.doc, &mut cb.doc);
		for fb in &mut cb.fields { if let Some(fa) = ca.fields.iter().find(|f| fkey(f) == fkey(fb)) { fix(rng, &fa.doc, &mut fb.doc); } }
		for mb in &mut cb.methods {
			let Some(ma) = ca.methods.iter().find(|m| mkey(m) == mkey(mb)) else { continue };
			fix(rng, &ma.doc, &mut mb.doc);
			for pb in &mut mb.params {
				let Some(pa) = ma.params.iter().find(|p| p.index == pb.index) else { continue };
				fix(rng, &pa.doc, &mut pb.doc);
				pb.names[0] = pa.names[0].clone();
			}
		}
	}
}

const KINDS: [&str; 8] = ["ns", "doc-top", "doc-class", "doc-field", "doc-method", "doc-param", "param-first-name", "param-first-name-absent"];
/// make sure a shared path down to a parameter exists, then inject exactly one conflict of the kind
fn inject(rng: &mut Rng, a: &mut MMappings, b: &mut MMappings, kind: &str) {
	let mut r2 = rng.fork(17);
	let mut other = move |d: &Option<S>| -> S { other_doc(&mut r2, d) };
	// the comment A gets when it has none: sometimes the empty comment (still a comment, still a conflict)
	let seed_doc = |rng: &mut Rng, what: &str| if rng.chance(1, 4) { Some(vec![]) } else { Some(cps_str(what)) };
	match kind {
		"ns" => {
			// B's first namespace differs from A's: an unrelated name, or a name that occurs elsewhere in the
			// pair (A's second namespace; A's first namespace then sits in B's SECOND position or nowhere)
			match rng.below(6) {
				0 | 1 => { b.ns[0] = cps_str(*rng.pick(&["obf", "Official", "official ", "o"][..])); }
				2 => { b.ns = vec![a.ns[1].clone(), a.ns[0].clone()]; }          // (s,a) x (a,s)
				3 => { b.ns = vec![b.ns[1].clone(), a.ns[0].clone()]; }          // (s,a) x (b,s)
				4 => { b.ns[0] = a.ns[1].clone(); }                              // (s,a) x (a,b)
				_ => { let t = a.ns[0].clone(); a.ns = vec![t.clone(), t.clone()]; b.ns = vec![b.ns[1].clone(), t]; }            // (s,s) x (b,s)
			}
			return;
		}
		"doc-top" => { if a.doc.is_none() { a.doc = seed_doc(rng, "top of A"); } b.doc = Some(other(&a.doc)); return; }
		_ => {}
	}
	// a shared class
	if !a.classes.iter().any(|c| b.classes.iter().any(|d| ckey(c) == ckey(d))) {
		if a.classes.is_empty() { a.classes.push(MClass { names: vec![Some(cps_str("only/Class")), None], doc: None, fields: vec![], methods: vec![] }); }
		let c = rng.pick(&a.classes[..]).clone();
		b.classes.retain(|d| ckey(d) != ckey(&c));
		b.classes.push(MClass { names: vec![c.names[0].clone(), second(rng, &CLS2)], doc: None, fields: vec![], methods: vec![] });
	}
	let shared: Vec<usize> = (0..a.classes.len()).filter(|&i| b.classes.iter().any(|d| ckey(d) == ckey(&a.classes[i]))).collect();
	let ia = *rng.pick(&shared[..]);
	let ib = b.classes.iter().position(|d| ckey(d) == ckey(&a.classes[ia])).unwrap();
	let (ca, cb) = (&mut a.classes[ia], &mut b.classes[ib]);
	match kind {
		"doc-class" => { if ca.doc.is_none() { ca.doc = seed_doc(rng, "class comment"); } cb.doc = Some(other(&ca.doc)); }
		"doc-field" => {
			if !ca.fields.iter().any(|f| cb.fields.iter().any(|g| fkey(f) == fkey(g))) {
				if ca.fields.is_empty() { ca.fields.push(MField { desc: cps_str("I"), names: vec![Some(cps_str("f")), None], doc: None }); }
				let f = rng.pick(&ca.fields[..]).clone();
				cb.fields.retain(|g| fkey(g) != fkey(&f));
				cb.fields.push(MField { desc: f.desc.clone(), names: vec![f.names[0].clone(), second(rng, &MEM2)], doc: None });
			}
			let fa = ca.fields.iter_mut().find(|f| cb.fields.iter().any(|g| fkey(f) == fkey(g))).unwrap();
			let fb = cb.fields.iter_mut().find(|g| fkey(g) == fkey(fa)).unwrap();
			if fa.doc.is_none() { fa.doc = seed_doc(rng, "field comment"); }
			fb.doc = Some(other(&fa.doc));
		}
		_ => {
			if !ca.methods.iter().any(|f| cb.methods.iter().any(|g| mkey(f) == mkey(g))) {
				if ca.methods.is_empty() { ca.methods.push(MMeth { desc: cps_str("(I)V"), names: vec![Some(cps_str("m")), None], doc: None, params: vec![] }); }
				let m = rng.pick(&ca.methods[..]).clone();
				cb.methods.retain(|g| mkey(g) != mkey(&m));
				cb.methods.push(MMeth { desc: m.desc.clone(), names: vec![m.names[0].clone(), second(rng, &MEM2)], doc: None, params: vec![] });
			}
			let ma = ca.methods.iter_mut().find(|f| cb.methods.iter().any(|g| mkey(f) == mkey(g))).unwrap();
			let mb = cb.methods.iter_mut().find(|g| mkey(g) == mkey(ma)).unwrap();
			if kind == "doc-method" {
				if ma.doc.is_none() { ma.doc = seed_doc(rng, "method comment"); }
				mb.doc = Some(other(&ma.doc));
				return;
			}
			if ma.params.is_empty() { ma.params.push(MParam { index: 1, names: vec![None, Some(cps_str("arg"))], doc: None }); }
			if !ma.params.iter().any(|p| mb.params.iter().any(|q| q.index == p.index)) {
				let p = rng.pick(&ma.params[..]).clone();
				mb.params.push(MParam { index: p.index, names: vec![p.names[0].clone(), second(rng, &PAR2)], doc: None });
			}
			let pa = ma.params.iter_mut().find(|p| mb.params.iter().any(|q| q.index == p.index)).unwrap();
			let pb = mb.params.iter_mut().find(|q| q.index == pa.index).unwrap();
			match kind {
				"doc-param" => { if pa.doc.is_none() { pa.doc = seed_doc(rng, "parameter comment"); } pb.doc = Some(other(&pa.doc)); }
				"param-first-name" => { pa.names[0] = Some(cps_str("p_a")); pb.names[0] = Some(cps_str("p_b")); }
				_ => { if rng.chance(1, 2) { pa.names[0] = Some(cps_str("p_a")); pb.names[0] = None; } else { pa.names[0] = None; pb.names[0] = Some(cps_str("p_b")); } }
			}
		}
	}
}

// ---------- one pair through everything ----------
fn overlap_profile(a: &MMappings, b: &MMappings) -> [bool; 12] {
	// per level (class, field, method, parameter; members counted inside shared parents):
	// some entry only in A, only in B, in both
	fn mark<K: PartialEq>(p: &mut [bool; 12], l: usize, ka: &[K], kb: &[K]) {
		for k in ka { if kb.contains(k) { p[l * 3 + 2] = true; } else { p[l * 3] = true; } }
		for k in kb { if !ka.contains(k) { p[l * 3 + 1] = true; } }
	}
	let mut p = [false; 12];
	mark(&mut p, 0, &a.classes.iter().map(ckey).collect::<Vec<_>>(), &b.classes.iter().map(ckey).collect::<Vec<_>>());
	for ca in &a.classes {
		let Some(cb) = b.classes.iter().find(|c| ckey(c) == ckey(ca)) else { continue };
		mark(&mut p, 1, &ca.fields.iter().map(fkey).collect::<Vec<_>>(), &cb.fields.iter().map(fkey).collect::<Vec<_>>());
		mark(&mut p, 2, &ca.methods.iter().map(mkey).collect::<Vec<_>>(), &cb.methods.iter().map(mkey).collect::<Vec<_>>());
		for ma in &ca.methods {
			let Some(mb) = cb.methods.iter().find(|m| mkey(m) == mkey(ma)) else { continue };
			mark(&mut p, 3, &ma.params.iter().map(pkey).collect::<Vec<_>>(), &mb.params.iter().map(pkey).collect::<Vec<_>>());
		}
	}
	p
}

/// relation of the key sets of two corresponding maps (keys are unique within each)
fn key_rel<K: PartialEq>(ka: &[K], kb: &[K]) -> &'static str {
	let shared = ka.iter().filter(|k| kb.contains(k)).count();
	match (ka.len(), kb.len()) {
		(0, 0) => "both empty",
		(0, _) => "A empty, B not",
		(_, 0) => "B empty, A not",
		(la, lb) if shared == la && la == lb => "equal (non-empty)",
		(la, _) if shared == la => "A non-empty strict subset of B",
		(_, lb) if shared == lb => "B non-empty strict subset of A",
		_ if shared == 0 => "disjoint (both non-empty)",
		_ => "partial overlap (each side has own keys)",
	}
}
/// relation of the two key LISTS in insertion order (what a positional zip of the two maps would see)
fn key_order_rel<K: PartialEq>(ka: &[K], kb: &[K]) -> &'static str {
	let common = ka.iter().zip(kb.iter()).take_while(|(x, y)| x == y).count();
	match (ka.len(), kb.len()) {
		(0, _) | (_, 0) => "a side is empty",
		(la, lb) if common == la && la == lb => "same keys in the same order",
		(la, lb) if common == la && la < lb => "A's key list is a strict prefix of B's, in order",
		(la, lb) if common == lb && lb < la => "B's key list is a strict prefix of A's, in order",
		(la, lb) if la == lb && ka.iter().all(|k| kb.contains(k)) => "same keys in another order",
		_ if common > 0 => "lists agree on a first stretch, then differ",
		_ => "lists differ at the first position",
	}
}
/// which key-set relations occur, per level, between corresponding maps (the two class maps; the field / method maps
/// of a class both sides have; the parameter maps of a method both sides have), and which combinations of
/// first-namespace names occur on a parameter both sides have
fn relations(a: &MMappings, b: &MMappings) -> BTreeSet<String> {
	let mut out = BTreeSet::new();
	out.insert(format!("keyrel:class:{}", key_rel(&a.classes.iter().map(ckey).collect::<Vec<_>>(), &b.classes.iter().map(ckey).collect::<Vec<_>>())));
	out.insert(format!("keyorder:class:{}", key_order_rel(&a.classes.iter().map(ckey).collect::<Vec<_>>(), &b.classes.iter().map(ckey).collect::<Vec<_>>())));
	for ca in &a.classes {
		let Some(cb) = b.classes.iter().find(|c| ckey(c) == ckey(ca)) else { continue };
		out.insert(format!("keyrel:field:{}", key_rel(&ca.fields.iter().map(fkey).collect::<Vec<_>>(), &cb.fields.iter().map(fkey).collect::<Vec<_>>())));
		out.insert(format!("keyorder:field:{}", key_order_rel(&ca.fields.iter().map(fkey).collect::<Vec<_>>(), &cb.fields.iter().map(fkey).collect::<Vec<_>>())));
		out.insert(format!("keyrel:method:{}", key_rel(&ca.methods.iter().map(mkey).collect::<Vec<_>>(), &cb.methods.iter().map(mkey).collect::<Vec<_>>())));
		out.insert(format!("keyorder:method:{}", key_order_rel(&ca.methods.iter().map(mkey).collect::<Vec<_>>(), &cb.methods.iter().map(mkey).collect::<Vec<_>>())));
		for ma in &ca.methods {
			let Some(mb) = cb.methods.iter().find(|m| mkey(m) == mkey(ma)) else { continue };
			out.insert(format!("keyrel:parameter:{}", key_rel(&ma.params.iter().map(pkey).collect::<Vec<_>>(), &mb.params.iter().map(pkey).collect::<Vec<_>>())));
			out.insert(format!("keyorder:parameter:{}", key_order_rel(&ma.params.iter().map(pkey).collect::<Vec<_>>(), &mb.params.iter().map(pkey).collect::<Vec<_>>())));
			for pa in &ma.params {
				let Some(pb) = mb.params.iter().find(|p| p.index == pa.index) else { continue };
				out.insert(format!("param-first-name on a shared parameter:{}", match (&pa.names[0], &pb.names[0]) {
					(Some(x), Some(y)) if x == y => "both present, equal",
					(Some(_), Some(_)) => "both present, DIFFERENT (conflict)",
					(Some(_), None) => "A present, B absent (conflict)",
					(None, Some(_)) => "A absent, B present (conflict)",
					(None, None) => "both absent",
				}));
			}
		}
	}
	out
}
/// columns a and b exchanged (namespaces, every names row)
fn swap_ab(m: &MMappings) -> MMappings {
	let sw = |n: &NamesRow| -> NamesRow { if n.len() == 3 { vec![n[0].clone(), n[2].clone(), n[1].clone()] } else { n.clone() } };
	let mut m = m.clone();
	if m.ns.len() == 3 { m.ns.swap(1, 2); }
	for c in &mut m.classes {
		c.names = sw(&c.names);
		for f in &mut c.fields { f.names = sw(&f.names); }
		for me in &mut c.methods { me.names = sw(&me.names); for p in &mut me.params { p.names = sw(&p.names); } }
	}
	m
}
fn has_empty_name(m: &MMappings) -> bool {
	let e = |n: &NamesRow| n.iter().any(|o| o.as_ref().is_some_and(|s| s.is_empty()));
	m.ns.iter().any(|s| s.is_empty()) || m.classes.iter().any(|c| e(&c.names) || c.fields.iter().any(|f| e(&f.names)) || c.methods.iter().any(|me| e(&me.names) || me.params.iter().any(|p| e(&p.names))))
}

fn through(r: &mut Report, stream: &str, a: &MMappings, b: &MMappings) {
	crumb(&format!("property C09 (Mappings::merge)\nthe harness process died inside (or right after) Mappings::merge(A, B) / merge(B, A)\n--- A (namespaces s, a)\n{}--- B (namespaces s, b)\n{}--- Gallina\nA := {}\nB := {}\n", dump(a), dump(b), g_mappings(a), g_mappings(b)));
	let (got, desync) = match impl_merge(a, b) {
		Ok(x) => x,
		Err(e) => { r.count("generator_rejected"); r.notes.push(format!("{stream}: generated pair not constructible: {e:#}")); return; }
	};
	let cf = conflicts(a, b);
	let want = ref_join(a, b);
	let nontrivial = a.size() + b.size() > 0;
	r.eval(&format!("{}|{}", g_mappings(a), g_mappings(b)), nontrivial);
	r.count(&format!("pairs:{stream}"));
	r.count(&format!("size_A:{}", match a.size() { 0 => "0", 1..=5 => "1-5", 6..=20 => "6-20", _ => ">20" }));
	r.count(&format!("size_B:{}", match b.size() { 0 => "0", 1..=5 => "1-5", 6..=20 => "6-20", _ => ">20" }));
	let prof = overlap_profile(a, b);
	const LV: [&str; 4] = ["class", "field", "method", "parameter"]; const SD: [&str; 3] = ["onlyA", "onlyB", "both"];
	for l in 0..4 { for s in 0..3 { if prof[l * 3 + s] { r.count(&format!("overlap:{}:{}", LV[l], SD[s])); } } }
	if (0..4).all(|l| (0..3).all(|s| prof[l * 3 + s])) { r.count("overlap:all-three-kinds-at-all-four-levels"); }
	for k in cf.iter().collect::<BTreeSet<_>>() { r.count(&format!("conflict:{k}")); }
	for k in empty_doc_pairs(a, b) { r.count(k); }
	for k in relations(a, b) { r.count(&k); }

	match &got {
		Err(p) => { r.count("result:panic"); vio(r, format!("Mappings::merge panicked: {p}"), a, b, "panic"); }
		Ok(None) => {
			r.count("result:Err");
			if cf.is_empty() { vio(r, "merge returned Err although the pair has no first-namespace, comment or parameter-name conflict".into(), a, b, "Err"); }
			if want.is_ok() { vio(r, "merge returned Err, the reference join succeeds".into(), a, b, "Err"); }
		}
		Ok(Some(m)) => {
			r.count("result:Ok");
			let shown = dump(m);
			if !cf.is_empty() { vio(r, format!("merge returned Ok although the pair conflicts ({})", cf.join(",")), a, b, &shown); }
			if !desync.is_empty() { vio(r, format!("result has IndexMap keys that differ from the keys of their nodes: {}", desync.join("; ")), a, b, &shown); }
			// The property promises keys, columns, comments, projections and errors - not an iteration order.  The
			// oracle therefore compares up to the order of every map; whether the order is also the code's
			// (A's order, then B-only) is counted here and compared exactly in the correspondence (CMerge), where a
			// difference is a model/implementation disagreement, not a property violation.
			match &want {
				Ok(w) if w == m => r.count("order:result in the reference join's order"),
				Ok(w) if w.equiv(m) => r.count("order:result has the reference join's content in another order (not a property violation)"),
				Ok(_) => vio(r, "merge result differs from the reference join (compared up to the order of entries)".into(), a, b, &shown),
				Err(e) => vio(r, format!("merge returned Ok, the reference join fails ({e})"), a, b, &shown),
			}
			// union of keys at every level, no duplicates
			let (km, nm) = key_paths(m); let (ka, _) = key_paths(a); let (kb, _) = key_paths(b);
			let un: BTreeSet<String> = ka.union(&kb).cloned().collect();
			if km != un { vio(r, "key paths of the result are not the union of the key paths of A and B".into(), a, b, &shown); }
			if nm != km.len() { vio(r, "result has duplicate keys".into(), a, b, &shown); }
			if m.ns != vec![a.ns[0].clone(), a.ns[1].clone(), b.ns[1].clone()] { vio(r, "namespaces of the result are not (s, a, b)".into(), a, b, &shown); }
			for bad in check_columns(a, b, m) { vio(r, format!("column law: {bad}"), a, b, &shown); }
			// projections
			// projections: up to the order of entries (the order laws C09_merge_restrict / C09_merge_restrict_b are
			// theorems about the model, tied by the exact correspondence; here they are only counted)
			let ra = restrict(m, 1, a);
			if !ra.equiv(a) { vio(r, "projection onto (s,a), restricted to A's keys and A's comments, is not A (up to order)".into(), a, b, &shown); }
			let rb = restrict(m, 2, b);
			if !rb.equiv(b) { vio(r, "projection onto (s,b), restricted to B's keys and B's comments, is not B (up to order)".into(), a, b, &shown); }
			r.count(if ra == *a { "restrict_a:same order as A" } else { "restrict_a:order differs from A (not a property violation)" });
			r.count(if rb == reorder(a, b) { "restrict_b:is B reordered (shared entries in A's order first)" } else { "restrict_b:is not the reordered B (not a property violation)" });
			if rb != *b { r.count("restrict_b:order differs from B"); } else { r.count("restrict_b:same order as B"); }
		}
	}
	// commutation: merge(B, A) is merge(A, B) with the columns a and b exchanged (up to the order of entries), and fails
	// exactly when merge(A, B) fails (C09_merge_comm)
	match impl_merge(b, a) {
		Err(_) => r.count("generator_rejected"),
		Ok((ba, _)) => {
			r.evaluations += 1;
			let same = match (&got, &ba) {
				(Ok(None), Ok(None)) => { r.count("commutation:both Err"); true }
				(Ok(Some(m)), Ok(Some(m2))) => {
					r.count("commutation:both Ok");
					// the same through the real reorder (C09_merge_comm_via_reorder): merge(A, B) reordered to (s, b, a) is merge(B, A)
					let names: Vec<String> = [0usize, 2, 1].iter().map(|&i| m.ns[i].iter().filter_map(|&c| char::from_u32(c)).collect()).collect();
					if m.ns[1] != m.ns[2] && m.ns[0] != m.ns[1] && m.ns[0] != m.ns[2] {   // reorder addresses namespaces by name: they must be distinct
						match to_quill::<3, NsAny>(m) {
							Ok(q3) => match guarded(AssertUnwindSafe(|| q3.reorder::<NsAny>([names[0].as_str(), names[1].as_str(), names[2].as_str()]).ok())) {
								Ok(Some(re)) => {
									let mut d = vec![];
									r.count("commutation:merge(A,B) reordered to (s,b,a) compared with merge(B,A)");
									if !from_quill(&re, &mut d).equiv(m2) { vio(r, "merge(A, B) reordered to the namespaces (s, b, a) is not merge(B, A) (compared up to the order of entries)".into(), a, b, &format!("merge(A, B):\n{}--- merge(B, A):\n{}", dump(m), dump(m2))); }
								}
								Ok(None) => r.count("commutation:reorder of the merged set to (s,b,a) returned Err (a descriptor does not scan)"),
								Err(p) => vio(r, format!("reorder of the merged set panicked: {p}"), a, b, &dump(m)),
							},
							Err(e) => vio(r, format!("the merged set is not a well-formed mapping set: {e}"), a, b, &dump(m)),
						}
					}
					swap_ab(m2).equiv(m)
				}
				(_, Err(p)) => { vio(r, format!("Mappings::merge(B, A) panicked: {p}"), a, b, "panic"); true }
				_ => false,
			};
			if !same {
				let shown = |x: &Result<Option<MMappings>, String>| match x { Ok(Some(m)) => dump(m), Ok(None) => "Err\n".to_string(), Err(p) => format!("panic {p}\n") };
				vio(r, "merge(A, B) and merge(B, A) differ by more than the exchange of the columns a and b (compared up to the order of entries; Err must go with Err)".into(), a, b, &format!("merge(A, B):\n{}--- merge(B, A):\n{}", shown(&got), shown(&ba)));
			}
		}
	}
	if let Ok(g) = &got {
		// small cases verbatim (readable samples), the rest through the string table
		if a.size() + b.size() <= 6 { r.case(stream, format!("CMerge {} {} {}", g_mappings(a), g_mappings(b), gres(g.as_ref().map(g_mappings)))); }
		else { r.case(stream, g_case_t(a, b, g)); }
	}
}

/// Through quill's PUBLIC API (`Names::change_name`, `Mappings::rename_namespaces` - neither checks for emptiness) put an
/// EMPTY name into the second column of the first class / field / method / parameter (level 1..4) or make the second
/// namespace name empty (level 0); the mirror `m` is changed in the same place.  None when there is no such entry.
fn poke_empty<Ns>(mut q: Mappings<2, Ns>, m: &mut MMappings, level: usize) -> Option<Mappings<2, Ns>> {
	let ns1 = Namespace::<2>::new(1).ok()?;
	let empty: S = vec![];
	match level {
		0 => {
			let (n0, n1) = (m.ns[0].iter().map(|&c| char::from_u32(c)).collect::<Option<String>>()?, m.ns[1].iter().map(|&c| char::from_u32(c)).collect::<Option<String>>()?);
			q = q.rename_namespaces([n0.as_str(), n1.as_str()], [n0.as_str(), ""]).ok()?;
			m.ns[1] = empty;
		}
		1 => {
			let (_, c) = q.classes.get_index_mut(0)?;
			let old = <&[Option<_>; 2]>::from(&c.info.names)[1].clone();
			c.info.names.change_name(ns1, old.as_ref(), Some(&class_name(&empty))).ok()?;
			m.classes[0].names[1] = Some(empty);
		}
		2 => {
			let ci = m.classes.iter().position(|c| !c.fields.is_empty())?;
			let (_, c) = q.classes.get_index_mut(ci)?;
			let (_, f) = c.fields.get_index_mut(0)?;
			let old = <&[Option<_>; 2]>::from(&f.info.names)[1].clone();
			f.info.names.change_name(ns1, old.as_ref(), Some(&field_name(&empty))).ok()?;
			m.classes[ci].fields[0].names[1] = Some(empty);
		}
		_ => {
			let want_param = level >= 4;
			let ci = m.classes.iter().position(|c| c.methods.iter().any(|me| !want_param || !me.params.is_empty()))?;
			let mi = m.classes[ci].methods.iter().position(|me| !want_param || !me.params.is_empty())?;
			let (_, c) = q.classes.get_index_mut(ci)?;
			let (_, me) = c.methods.get_index_mut(mi)?;
			if want_param {
				let (_, p) = me.parameters.get_index_mut(0)?;
				let old = <&[Option<_>; 2]>::from(&p.info.names)[1].clone();
				p.info.names.change_name(ns1, old.as_ref(), Some(&param_name(&empty))).ok()?;
				m.classes[ci].methods[mi].params[0].names[1] = Some(empty);
			} else {
				let old = <&[Option<_>; 2]>::from(&me.info.names)[1].clone();
				me.info.names.change_name(ns1, old.as_ref(), Some(&method_name(&empty))).ok()?;
				m.classes[ci].methods[mi].names[1] = Some(empty);
			}
		}
	}
	Some(q)
}

/// the entries (level 0: classes, 1: fields, 2: methods, 3: parameters) with the keys `idx` out of a universe of four,
/// hosted in the class `rel/Host` (levels 1..3) and its method `host(IJ)V` (level 3), which both sides then share
fn rel_entries(rng: &mut Rng, level: usize, idx: &[usize], docs: bool) -> Vec<MClass> {
	let doc = |rng: &mut Rng| if docs && rng.chance(1, 3) { Some(cps_str(*rng.pick(&DOCS[..]))) } else { None };
	let mut host = MClass { names: vec![Some(cps_str("rel/Host")), second(rng, &CLS2)], doc: doc(rng), fields: vec![], methods: vec![] };
	match level {
		0 => return idx.iter().map(|i| MClass { names: vec![Some(cps_str(&format!("rel/K{i}"))), second(rng, &CLS2)], doc: doc(rng),
			fields: vec![MField { desc: cps_str("I"), names: vec![Some(cps_str("only")), second(rng, &MEM2)], doc: None }], methods: vec![] }).collect(),
		1 => for i in idx { host.fields.push(MField { desc: cps_str(if i % 2 == 0 { "I" } else { "Lrel/Host;" }), names: vec![Some(cps_str(&format!("fk{}", i / 2))), second(rng, &MEM2)], doc: doc(rng) }); },
		2 => for i in idx { host.methods.push(MMeth { desc: cps_str(if i % 2 == 0 { "(I)V" } else { "()Lrel/Host;" }), names: vec![Some(cps_str(&format!("mk{}", i / 2))), second(rng, &MEM2)], doc: doc(rng), params: vec![] }); },
		_ => {
			let mut me = MMeth { desc: cps_str("(IJ)V"), names: vec![Some(cps_str("host")), second(rng, &MEM2)], doc: doc(rng), params: vec![] };
			// the shared first name of a parameter is fixed by its index (present for even, absent for odd indices)
			for i in idx { me.params.push(MParam { index: *i as u64, names: vec![if i % 2 == 0 { Some(cps_str(&format!("q{i}"))) } else { None }, second(rng, &PAR2)], doc: doc(rng) }); }
			host.methods.push(me);
		}
	}
	vec![host]
}

// ---------- round 7: the row / header API of quill/src/tree/mod.rs, call by call (coq/C09/ModelNames.v) ----------
const API_NAMES: [&str; 9] = ["a", "b", "Foo", "pkg/Foo", "pkg/Foo ", " pkg/Foo", "pkg/foo", "\u{e9}t\u{e9}", "\u{1F600}x"];
fn to_string(s: &S) -> Option<String> { s.iter().map(|&c| char::from_u32(c)).collect() }
fn g_row(l: &NamesRow) -> String { g_names(l) }
fn g_strs(l: &[S]) -> String { glist(l.iter().map(|s| gstr(s))) }
fn api_vio(r: &mut Report, what: String, input: String, got: String, want: String) {
	r.violation(what.clone(), format!("property C09 (row / header API of quill/src/tree/mod.rs used around Mappings::merge)\nwhat: {what}\n--- call\n{input}\n--- implementation answered\n{got}\n--- expected\n{want}\n"));
}
fn show_row(l: &NamesRow) -> String { format!("[{}]", l.iter().map(|o| match o { None => "<absent>".to_string(), Some(s) => format!("{:?}", to_string(s).unwrap_or_default()) }).collect::<Vec<_>>().join(", ")) }
fn show_strs(l: &[S]) -> String { format!("{:?}", l.iter().map(|s| to_string(s).unwrap_or_default()).collect::<Vec<_>>()) }
fn read_row<const N: usize>(n: &Names<N, duke::tree::class::ObjClassName>) -> NamesRow {
	let arr: &[Option<_>; N] = n.into();
	arr.iter().map(|o: &Option<duke::tree::class::ObjClassName>| o.as_ref().map(|t| cps(t.as_ref()))).collect()
}
fn gen_cell(rng: &mut Rng, empties: bool) -> Option<S> {
	match rng.below(if empties { 5 } else { 4 }) { 0 => None, 4 => Some(vec![]), _ => Some(cps_str(*rng.pick(&API_NAMES[..]))) }
}
fn names_api<const N: usize>(r: &mut Report, rng: &mut Rng, count: usize) {
	let st = "names-api";
	for i in 0..count {
		// --- Names::from([T; N]): an empty string becomes an absent name
		{
			let l: Vec<S> = (0..N).map(|_| if rng.chance(1, 3) { vec![] } else { cps_str(*rng.pick(&API_NAMES[..])) }).collect();
			let arr: Option<[duke::tree::class::ObjClassName; N]> = l.iter().map(class_name).collect::<Vec<_>>().try_into().ok();
			if let Some(arr) = arr {
				let got = guarded(AssertUnwindSafe(|| read_row(&Names::<N, _>::from(arr))));
				let want: NamesRow = l.iter().map(|s| if s.is_empty() { None } else { Some(s.clone()) }).collect();
				r.eval(&format!("from {l:?}"), l.iter().any(|s| s.is_empty()));
				r.count(&format!("names-api:N={N}:Names::from:{}", if l.iter().any(|s| s.is_empty()) { "with an empty string" } else { "no empty string" }));
				match &got {
					Ok(g) => { if *g != want { api_vio(r, "Names::from([T; N]) did not turn exactly the empty strings into absent names".into(), format!("Names::<{N}, _>::from({})", show_strs(&l)), show_row(g), show_row(&want)); }
						r.case(st, format!("CNamesFrom {} {}", g_strs(&l), g_row(g))); }
					Err(p) => api_vio(r, format!("Names::from panicked: {p}"), format!("Names::<{N}, _>::from({})", show_strs(&l)), "panic".into(), show_row(&want)),
				}
			}
		}
		// --- Names::try_from([Option<T>; N]): refuses exactly the rows with an empty name
		{
			let l: NamesRow = (0..N).map(|_| gen_cell(rng, true)).collect();
			let arr: Option<[Option<duke::tree::class::ObjClassName>; N]> = l.iter().map(|o| o.as_ref().map(class_name)).collect::<Vec<_>>().try_into().ok();
			if let Some(arr) = arr {
				let got = guarded(AssertUnwindSafe(|| Names::<N, _>::try_from(arr).ok().map(|n| read_row(&n))));
				let bad = l.iter().any(|o| o.as_ref().is_some_and(|s| s.is_empty()));
				let want = if bad { None } else { Some(l.clone()) };
				r.eval(&format!("try {l:?}"), true);
				r.count(&format!("names-api:N={N}:Names::try_from:{}", if bad { "with an empty name" } else { "no empty name" }));
				match &got {
					Ok(g) => { if *g != want { api_vio(r, "Names::try_from([Option<T>; N]) must refuse exactly the rows that contain an empty name and keep the others unchanged".into(), format!("Names::<{N}, _>::try_from({})", show_row(&l)), g.as_ref().map_or("Err".into(), show_row), want.as_ref().map_or("Err".into(), show_row)); }
						r.case(st, format!("CNamesTry {} {}", g_row(&l), gres(g.as_ref().map(g_row)))); }
					Err(p) => api_vio(r, format!("Names::try_from panicked: {p}"), show_row(&l), "panic".into(), "-".into()),
				}
			}
		}
		// --- Namespaces::try_from([String; N]) and Mappings::rename_namespaces (Namespaces::change_names)
		{
			let pool = ["official", "intermediary", "named", "named ", "Named", "\u{e9}"];
			let gen_ns = |rng: &mut Rng, empties: bool| -> Vec<S> { (0..N).map(|_| if empties && rng.chance(1, 4) { vec![] } else { cps_str(*rng.pick(&pool[..])) }).collect() };
			let l = gen_ns(rng, true);
			let strs: Option<Vec<String>> = l.iter().map(to_string).collect();
			if let Some(arr) = strs.and_then(|v| <[String; N]>::try_from(v).ok()) {
				let got = guarded(AssertUnwindSafe(|| Namespaces::<N, NsS>::try_from(arr).ok().map(|n| { let a: &[String; N] = (&n).into(); a.iter().map(|s| cps_str(s)).collect::<Vec<S>>() })));
				let bad = l.iter().any(|s| s.is_empty());
				let want = if bad { None } else { Some(l.clone()) };
				r.eval(&format!("nstry {l:?}"), true);
				r.count(&format!("names-api:N={N}:Namespaces::try_from:{}", if bad { "with an empty name" } else { "no empty name" }));
				match &got {
					Ok(g) => { if *g != want { api_vio(r, "Namespaces::try_from([String; N]) must refuse exactly the headers that contain an empty namespace name".into(), format!("Namespaces::<{N}, _>::try_from({})", show_strs(&l)), g.as_ref().map_or("Err".into(), |x| show_strs(x)), want.as_ref().map_or("Err".into(), |x| show_strs(x))); }
						r.case(st, format!("CNamespacesFrom {} {}", g_strs(&l), gres(g.as_ref().map(|x| g_strs(x))))); }
					Err(p) => api_vio(r, format!("Namespaces::try_from panicked: {p}"), show_strs(&l), "panic".into(), "-".into()),
				}
			}
			let cur = gen_ns(rng, false);
			let mut from = cur.clone();
			let from_kind = match rng.below(6) {
				0 => { from.reverse(); "reversed" }
				1 => { let k = rng.below(N); from[k].push(' ' as u32); "one name with a trailing blank" }
				2 => { let k = rng.below(N); from[k] = cps_str("other"); "one name different" }
				_ => "the current names",
			};
			let to = gen_ns(rng, true);
			let sv = |l: &Vec<S>| -> Option<Vec<String>> { l.iter().map(to_string).collect() };
			if let (Some(c), Some(f), Some(t)) = (sv(&cur), sv(&from), sv(&to)) {
				fn refs<const M: usize>(v: &[String]) -> Option<[&str; M]> { v.iter().map(|s| s.as_str()).collect::<Vec<&str>>().try_into().ok() }
				if let (Some(ca), Some(fa), Some(ta)) = (refs::<N>(&c), refs::<N>(&f), refs::<N>(&t)) {
					let got = guarded(AssertUnwindSafe(|| {
						let m = Mappings::<N, NsS>::from_namespaces(ca).ok()?;
						let m = m.rename_namespaces(fa, ta).ok()?;
						let a: &[String; N] = (&m.info.namespaces).into();
						Some(a.iter().map(|s| cps_str(s)).collect::<Vec<S>>())
					}));
					let want = if cur == from { Some(to.clone()) } else { None };
					r.eval(&format!("rename {cur:?} {from:?} {to:?}"), true);
					r.count(&format!("names-api:N={N}:rename_namespaces:from = {}{}", if cur == from { "the current names" } else { from_kind }, if to.iter().any(|s| s.is_empty()) { "; to contains an empty name" } else { "" }));
					let call = format!("Mappings::<{N}, _>::from_namespaces({}).rename_namespaces({}, {})", show_strs(&cur), show_strs(&from), show_strs(&to));
					match &got {
						Ok(g) => { if *g != want { api_vio(r, "Mappings::rename_namespaces (Namespaces::change_names) must succeed exactly when `from` is the current header, and then the header is `to`".into(), call, g.as_ref().map_or("Err".into(), |x| show_strs(x)), want.as_ref().map_or("Err".into(), |x| show_strs(x))); }
							r.case(st, format!("CChangeNs {} {} {} {}", g_strs(&cur), g_strs(&from), g_strs(&to), gres(g.as_ref().map(|x| g_strs(x))))); }
						Err(p) => api_vio(r, format!("rename_namespaces panicked: {p}"), call, "panic".into(), "-".into()),
					}
				}
			}
		}
		// --- Namespace::<N>::new(id) + Names::change_name, one or two edits in a row (the second on the edited row,
		// which may then contain an empty name)
		{
			let l0: NamesRow = (0..N).map(|_| gen_cell(rng, false)).collect();
			let arr: Option<[Option<duke::tree::class::ObjClassName>; N]> = l0.iter().map(|o| o.as_ref().map(class_name)).collect::<Vec<_>>().try_into().ok();
			let Some(Ok(mut names)) = arr.map(Names::<N, _>::try_from) else { continue };
			for step in 0..2 {
				let l = read_row(&names);
				let id = if i % 3 == 0 { rng.below(N + 2) } else { rng.range(1, N - 1) };
				let cur = l.get(id).cloned().flatten();
				let (from, from_kind): (Option<S>, &str) = match rng.below(8) {
					0 => (match &cur { None => Some(cps_str("a")), Some(_) => None }, "present/absent flipped"),
					1 => (Some(match &cur { Some(s) => { let mut t = s.clone(); t.push(' ' as u32); t } None => vec![] }), "current name with a trailing blank / empty for absent"),
					2 => (Some(cps_str(*rng.pick(&API_NAMES[..]))), "a name from the pool"),
					3 => (l.get(0).cloned().flatten(), "the FIRST cell's name"),
					_ => (cur.clone(), "the current name"),
				};
				let to: Option<S> = gen_cell(rng, true);
				let (fq, tq) = (from.as_ref().map(class_name), to.as_ref().map(class_name));
				let before = names.clone();
				let got = guarded(AssertUnwindSafe(|| {
					let mut n = before.clone();
					let ns = Namespace::<N>::new(id).ok()?;
					let old = n.change_name(ns, fq.as_ref(), tq.as_ref()).ok()?;
					Some((old.map(|t| cps(t.as_ref())), n))
				}));
				// on Err the row must be untouched: run the failing call on a copy and read it back
				let untouched = guarded(AssertUnwindSafe(|| {
					let mut n = before.clone();
					match Namespace::<N>::new(id) { Ok(ns) => { let e = n.change_name(ns, fq.as_ref(), tq.as_ref()).is_err(); (e, read_row(&n)) } Err(_) => (true, read_row(&n)) }
				}));
				let ok = id >= 1 && id < N && cur == from;
				let want: Option<(Option<S>, NamesRow)> = if ok { let mut l2 = l.clone(); l2[id] = to.clone(); Some((from.clone(), l2)) } else { None };
				r.eval(&format!("chg {l:?} {id} {from:?} {to:?}"), true);
				r.count(&format!("names-api:N={N}:change_name:step {step}:id {}:from = {}:{}", if id == 0 { "0 (first column)".to_string() } else if id >= N { ">= N".to_string() } else { "1..N-1".to_string() },
					if cur == from { "the current name" } else { from_kind }, if ok { if to.as_ref().is_some_and(|s| s.is_empty()) { "Ok, puts an EMPTY name in" } else { "Ok" } } else { "Err" }));
				let call = format!("row {} ; Namespace::<{N}>::new({id})? ; change_name(ns, from = {}, to = {})", show_row(&l), show_row(&vec![from.clone()]), show_row(&vec![to.clone()]));
				let show = |x: &Option<(Option<S>, NamesRow)>| x.as_ref().map_or("Err".to_string(), |(o, l2)| format!("Ok(old = {}), row afterwards {}", show_row(&vec![o.clone()]), show_row(l2)));
				match got {
					Ok(g) => {
						let gm = g.as_ref().map(|(o, n)| (o.clone(), read_row(n)));
						if gm != want { api_vio(r, "Names::change_name must succeed exactly for a namespace other than the first whose current name is `from`, return `from` and replace exactly that cell by `to`".into(), call.clone(), show(&gm), show(&want)); }
						if let Ok((e, l_after)) = &untouched { if *e && *l_after != l { api_vio(r, "a refused Names::change_name changed the row".into(), call.clone(), show_row(l_after), show_row(&l)); } }
						r.case(st, format!("CChangeName {} {} {} {} {}", g_row(&l), id, g_doc(&from), g_doc(&to), gres(gm.as_ref().map(|(o, l2)| gpair(g_doc(o), g_row(l2))))));
						if let Some((_, n)) = g { names = n; }
					}
					Err(p) => api_vio(r, format!("Names::change_name panicked: {p}"), call, "panic".into(), show(&want)),
				}
			}
		}
	}
}

pub fn run(ctx: &Ctx) -> anyhow::Result<Report> {
	let mut r = Report::new("C09", "C09.Run");
	let mut rng = Rng::new(ctx.seed);
	r.rule = "pairs (A over (s,a), B over (s,b)): A from the shared mapping-set generator; B derived from A's source keys (each class/field/method/parameter kept with new b-name and own comment, dropped, or added from an independent set; B's order shuffled). Comments include the empty comment Some(\"\") on either or both sides (against absent, empty and text). Streams: clean (all conflicts removed), one injected conflict of each documented kind (first namespace - an unrelated name, or B's namespaces a permutation of / overlapping with A's: (s,a)x(a,s), (s,a)x(b,s), (s,a)x(a,b), (s,s)x(b,s); comment at top/class/field/method/parameter level, the two comments differing by suffix, prefix, emptiness, trailing blank, one character, truncation or entirely; parameter first name different / absent on one side), namespaces (all 81 assignments of three names to the four namespace positions on pairs that otherwise merge: Err exactly when the FIRST namespaces differ), raw (whatever the derivation produced), edge pairs (empty, identical, disjoint), the repository's fixture (VERIF_REPO; a note if missing). Further streams: relations (every relation between the key sets of two corresponding maps - both empty, one empty, equal, A a non-empty strict subset of B, B of A, disjoint, partial overlap - constructed at each of the four levels, alone and inside generated surroundings), prefix (ORDERED: at one of the four levels the insertion-ordered key list of one side is a strict prefix of the other's while every other level lists the same keys in the same order - both directions, k = 1.. entries kept; the ordered relation of every pair of corresponding maps is counted under keyorder:), empty-name (hypothesis-violating: an empty name Some(\"\") in a second column or an empty second namespace name, put in through the public Names::change_name / rename_namespaces; merge must refuse, and no result may contain an empty name; compared with the model without the wf2 guard, CMergeRaw). Every pair goes through Mappings::merge, an independent reference join, the commutation oracle (merge(B,A) = merge(A,B) with columns a/b exchanged up to order, Err with Err; and the real reorder of merge(A,B) to (s,b,a) = merge(B,A)), the key-union, column, projection and error-iff-conflict oracles - all compared up to the order of entries, the property promises no iteration order - and into Coq as a CMerge case (exact comparison incl. order: there the model follows the code, and an order difference is a model/implementation disagreement, not a property violation). Stream names-api (round 7): the row / header API of quill/src/tree/mod.rs around merge, for N = 2 and 3, each call judged by an oracle on the implementation and compared with coq/C09/ModelNames.v: Names::from (strings incl. the empty string), Names::try_from (cells absent / empty / names incl. near-equal ones differing by a blank or letter case, non-ASCII, non-BMP), Namespaces::try_from, Mappings::rename_namespaces (from = current header / reversed / one name with a trailing blank / one name different; to unchecked, may contain an empty name), Namespace::new(id) + Names::change_name (id 0, 1..N-1, N, N+1; from = the current name / flipped presence / trailing blank / the first cell's name / another name; to absent / empty / a name; a second edit on the edited row; a refused edit must leave the row unchanged). Non-trivial: at least one entry in A or B; distinct by (A,B).".into();

	// 0. the repository's own fixture
	{
		// read from the tree under test (VERIF_REPO); a missing / renamed / unparsable fixture is a note, not a failure
		let repo = std::env::var("VERIF_REPO").unwrap_or_else(|_| "/repo".into());
		let (pa, pb) = (format!("{repo}/quill/tests/merge_input_a.tiny"), format!("{repo}/quill/tests/merge_input_b.tiny"));
		match (std::fs::read(&pa), std::fs::read(&pb)) {
			(Ok(ta), Ok(tb)) => {
				let ra = guarded(AssertUnwindSafe(|| quill::tiny_v2::read::<2, (NsS, NsA)>(ta.as_slice()).ok())).ok().flatten();
				let rb = guarded(AssertUnwindSafe(|| quill::tiny_v2::read::<2, (NsS, NsB)>(tb.as_slice()).ok())).ok().flatten();
				if let (Some(qa), Some(qb)) = (ra, rb) {
					let mut d = vec![];
					let (a, b) = (from_quill(&qa, &mut d), from_quill(&qb, &mut d));
					through(&mut r, "fixture", &a, &b);
					through(&mut r, "fixture", &a, &a);
				} else { r.notes.push(format!("fixture files {pa} / {pb} are not readable as tiny v2: skipped")); }
			}
			(ea, eb) => r.notes.push(format!("fixture files not found: {pa} ({}), {pb} ({}): skipped", ea.err().map_or("ok".into(), |e| e.to_string()), eb.err().map_or("ok".into(), |e| e.to_string()))),
		}
	}

	// 0b. namespaces: every assignment of three names to (A.first, A.second, B.first, B.second) - B's namespaces a
	// permutation of / overlapping with A's, a name twice on a side - on pairs that otherwise merge.  Err is required
	// exactly when the FIRST namespaces differ, wherever else the names occur.
	{
		let names = ["official", "intermediary", "named"];
		let mut cfg = GenCfg::new(2); cfg.max_classes = 2; cfg.max_members = 2; cfg.max_params = 2;
		let mut pairs: Vec<(MMappings, MMappings)> = vec![];
		for _ in 0..(if ctx.thorough { 6 } else { 2 }) {
			let a = gen_mappings(&mut rng, &cfg);
			let mut b = derive_b(&mut rng, &a, &cfg);
			sanitize(&mut rng, &a, &mut b);
			pairs.push((a, b));
		}
		for (a0, b0) in &pairs {
			for k in 0..81usize {
				let (mut a, mut b) = (a0.clone(), b0.clone());
				a.ns = vec![cps_str(names[k % 3]), cps_str(names[k / 3 % 3])];
				b.ns = vec![cps_str(names[k / 9 % 3]), cps_str(names[k / 27 % 3])];
				let shape = format!("ns-table:first {}; A.first {} B; A.second {} B.first",
					if a.ns[0] == b.ns[0] { "equal" } else { "differ" },
					if a.ns[0] == b.ns[1] { "is the second of" } else { "is not the second of" },
					if a.ns[1] == b.ns[0] { "is" } else { "is not" });
				r.count(&shape);
				through(&mut r, "namespaces", &a, &b);
			}
		}
	}

	let n = if ctx.thorough { 9000 } else { 2400 };
	for i in 0..n {
		let mut cfg = GenCfg::new(2);
		match i % 7 { 0 => { cfg.max_classes = 2; cfg.max_members = 2; } 1 => { cfg.max_classes = 4; cfg.max_members = 5; cfg.max_params = 5; } 2 => { cfg.docs = false; } _ => {} }
		if ctx.thorough && i % 50 == 0 { cfg.max_classes = 14; }
		let mut a = gen_mappings(&mut rng, &cfg);
		if cfg.docs && rng.chance(1, 6) { a.doc = Some(cps_str("about this set")); }
		if cfg.docs && i % 3 == 1 { empty_docs(&mut rng, &mut a); }
		let mut b = derive_b(&mut rng, &a, &cfg);
		if cfg.docs && rng.chance(1, 6) { b.doc = match rng.below(4) { 0 | 1 => a.doc.clone(), 2 => Some(vec![]), _ => Some(cps_str("about B")) }; }
		match i % 10 {
			0..=4 => { sanitize(&mut rng, &a, &mut b); through(&mut r, "clean", &a, &b); }
			5..=7 => {
				sanitize(&mut rng, &a, &mut b);
				let kind = KINDS[(i / 10) % KINDS.len()];
				inject(&mut rng, &mut a, &mut b, kind);
				through(&mut r, &format!("conflict:{kind}"), &a, &b);
			}
			_ => through(&mut r, "raw", &a, &b),
		}
		if i % 40 == 0 {
			let e = MMappings { ns: vec![a.ns[0].clone(), cps_str("named")], doc: None, classes: vec![] };
			let ea = MMappings { ns: a.ns.clone(), doc: None, classes: vec![] };
			through(&mut r, "edge:B-empty", &a, &e);
			through(&mut r, "edge:A-empty", &ea, &b);
			through(&mut r, "edge:identical", &a, &a);
			let sa = shuffled(&mut rng, &a);
			through(&mut r, "edge:same-content-other-order", &a, &sa);
		}
	}

	// hypothesis-violating stream (oracle only; the model derives keys from the nodes and cannot
	// express it): the IndexMap key of a node of B disagrees with the node's own descriptor or
	// parameter index.  Only then are the `merge_equal` arms reachable; merge must refuse.
	for _ in 0..(if ctx.thorough { 400 } else { 100 }) {
		let cfg = GenCfg::new(2);
		let a = gen_mappings(&mut rng, &cfg);
		let Ok(qa) = to_quill::<2, (NsS, NsA)>(&a) else { continue };
		let Ok(mut qb) = to_quill::<2, (NsS, NsB)>(&a) else { continue };
		let mut touched = None;
		'outer: for (_, c) in qb.classes.iter_mut() {
			for (_, f) in c.fields.iter_mut() { f.info.desc = field_desc(&cps_str("Ldesync;")); touched = Some("field-desc"); break 'outer; }
			for (_, m) in c.methods.iter_mut() {
				if let Some((_, p)) = m.parameters.iter_mut().next() { p.info.index += 100; touched = Some("parameter-index"); break 'outer; }
				m.info.desc = method_desc(&cps_str("(Ldesync;)V")); touched = Some("method-desc"); break 'outer;
			}
		}
		let Some(t) = touched else { continue };
		r.count(&format!("desync:{t}"));
		r.evaluations += 1;
		match impl_merge_q(&qa, &qb).0 {
			Ok(None) => r.count("desync:refused"),
			Ok(Some(_)) => vio(&mut r, format!("a node of B whose {t} disagrees with its IndexMap key was merged without error (merge_equal arm)"), &a, &a, "Ok"),
			Err(p) => vio(&mut r, format!("merge panicked on a desynchronised {t}: {p}"), &a, &a, "panic"),
		}
	}

	// key-set relations: every relation between the key sets of two corresponding maps (both empty, one side empty,
	// equal, A a non-empty strict subset of B, B of A, disjoint, partial overlap) at each of the four levels (the class
	// maps; the field / method maps of a class both sides have; the parameter maps of a method both sides have) -
	// alone (variant 0) and inside randomly generated surroundings; conflicts removed, so every pair merges
	{
		let mut rg = rng.fork(0x52454c);
		const RELS: [(&[usize], &[usize]); 8] = [(&[], &[]), (&[], &[0, 1]), (&[0, 1], &[]), (&[0, 1], &[1, 0]), (&[1], &[0, 1, 2]), (&[0, 1, 2], &[2]), (&[0, 1], &[2, 3]), (&[0, 1], &[1, 2])];
		let variants = if ctx.thorough { 10 } else { 3 };
		for level in 0..4usize { for (ia, ib) in RELS { for v in 0..variants {
			let mut cfg = GenCfg::new(2); cfg.max_classes = 3; cfg.max_members = 3;
			let (mut a, mut b) = if v == 0 {
				(MMappings { ns: vec![cps_str("official"), cps_str("intermediary")], doc: None, classes: vec![] }, MMappings { ns: vec![cps_str("official"), cps_str("named")], doc: None, classes: vec![] })
			} else { let a = gen_mappings(&mut rg, &cfg); let b = derive_b(&mut rg, &a, &cfg); (a, b) };
			let (ea, eb) = (rel_entries(&mut rg, level, ia, v != 1), rel_entries(&mut rg, level, ib, v != 1));
			for c in ea { let at = rg.below(a.classes.len() + 1); a.classes.insert(at, c); }
			for c in eb { let at = rg.below(b.classes.len() + 1); b.classes.insert(at, c); }
			sanitize(&mut rg, &a, &mut b);
			r.count(&format!("relations-stream:level {}:{}", ["class", "field", "method", "parameter"][level], key_rel(ia, ib)));
			through(&mut r, "relations", &a, &b);
		} } }
	}

	// ordered prefixes: at one level (the class maps; the field / method maps of a class both sides have; the parameter
	// maps of a method both sides have) the insertion-ordered key list of one side is a STRICT PREFIX of the other's;
	// at every other level both sides list the same keys in the same order (what two sorted files look like).  A
	// positional pairing of the two maps (instead of the join by key) loses exactly the tail.
	{
		let mut rg = rng.fork(0x505245);
		let variants = if ctx.thorough { 12 } else { 4 };
		for level in 0..4usize { for a_shorter in [true, false] { for v in 0..variants {
			let mut cfg = GenCfg::new(2); cfg.max_classes = 3; cfg.max_members = 3; cfg.docs = v % 2 == 0;
			let mut a = if v == 0 { MMappings { ns: vec![cps_str("official"), cps_str("intermediary")], doc: None, classes: vec![] } } else { gen_mappings(&mut rg, &cfg) };
			// a host with three entries of every kind, first in the class list, and a second class behind it
			let mut host = rel_entries(&mut rg, 3, &[0, 1, 2], cfg.docs).remove(0);
			host.names[0] = Some(cps_str("pre/Host"));
			host.fields = rel_entries(&mut rg, 1, &[0, 1, 2], cfg.docs).remove(0).fields;
			host.methods.extend(rel_entries(&mut rg, 2, &[0, 1, 2], cfg.docs).remove(0).methods);
			a.classes.retain(|c| ckey(c) != ckey(&host));
			a.classes.insert(0, host);
			if a.classes.len() < 3 { for i in a.classes.len()..3 { a.classes.push(MClass { names: vec![Some(cps_str(&format!("pre/Tail{i}"))), second(&mut rg, &CLS2)], doc: None, fields: vec![], methods: vec![] }); } }
			let mut b = mirror_b(&mut rg, &a, cfg.docs);
			{
				let short = if a_shorter { &mut a } else { &mut b };
				match level {
					0 => { let k = rg.range(1, short.classes.len() - 1); short.classes.truncate(k); }
					1 => { let k = rg.range(1, 2); short.classes[0].fields.truncate(k); }
					2 => { let k = rg.range(1, short.classes[0].methods.len() - 1); short.classes[0].methods.truncate(k); }
					_ => { let k = rg.range(1, 2); short.classes[0].methods[0].params.truncate(k); }
				}
			}
			sanitize(&mut rg, &a, &mut b);
			r.count(&format!("prefix-stream:level {}:{}", ["class", "field", "method", "parameter"][level], if a_shorter { "A's key list is a strict prefix of B's" } else { "B's key list is a strict prefix of A's" }));
			through(&mut r, "prefix", &a, &b);
		} } }
	}

	// hypothesis-violating stream: an EMPTY name (Some("")) in the second column of a class / field / method / parameter,
	// or an empty second namespace name, on one side - reachable through the public API (Names::change_name and
	// Mappings::rename_namespaces do not check), outside wf2.  merge_names / merge_namespaces rebuild the rows with the
	// checking constructors (tree/mod.rs: Names::try_from, Namespaces::try_from), so merge must refuse; in no case may the
	// result contain an empty name.  Compared with the model WITHOUT the wf2 guard (CMergeRaw).
	{
		let mut rg = rng.fork(0x454d50);
		for i in 0..(if ctx.thorough { 300 } else { 80 }) {
			let mut cfg = GenCfg::new(2); cfg.max_classes = 3; cfg.max_members = 3;
			let mut a = gen_mappings(&mut rg, &cfg);
			let mut b = derive_b(&mut rg, &a, &cfg);
			sanitize(&mut rg, &a, &mut b);
			let (on_a, level) = (i % 2 == 0, i / 2 % 5);
			let (Ok(qa), Ok(qb)) = (to_quill::<2, (NsS, NsA)>(&a), to_quill::<2, (NsS, NsB)>(&b)) else { continue };
			// what this stream relies on: the editing API cannot touch the FIRST column (the keys stay the keys of the
			// nodes), refuses an edit whose `from` is not the current name, and there is no namespace index 2 of 2
			if i < 10 {
				let mut q = qa.clone();
				if let Some((_, c)) = q.classes.get_index_mut(0) {
					let cur = <&[Option<_>; 2]>::from(&c.info.names).clone();
					let other = class_name(&cps_str("some/Other"));
					let first = Namespace::<2>::new(0).ok().map(|n0| c.info.names.change_name(n0, cur[0].as_ref(), Some(&other)).is_err());
					let wrong = Namespace::<2>::new(1).ok().map(|n1| c.info.names.change_name(n1, Some(&class_name(&cps_str("not/The/Current/Name"))), Some(&other)).is_err());
					let unchanged = <&[Option<_>; 2]>::from(&c.info.names).clone() == cur;
					r.evaluations += 1;
					if first != Some(true) || wrong != Some(true) || !unchanged { vio(&mut r, format!("Names::change_name: editing the first column refused = {first:?}, edit with a wrong `from` refused = {wrong:?}, row unchanged = {unchanged}"), &a, &b, "-"); }
				}
				let renamed_wrong = qa.clone().rename_namespaces(["not", "these"], ["x", "y"]).is_err();
				if Namespace::<2>::new(2).is_ok() || !renamed_wrong { vio(&mut r, "Namespace::<2>::new(2) is Ok, or rename_namespaces with wrong current names succeeded".into(), &a, &b, "-"); }
				r.count("empty-name:editing API refuses first column / wrong from / wrong namespaces");
			}
			let (qa, qb) = if on_a { let Some(q) = poke_empty(qa, &mut a, level) else { r.count("empty-name:no such entry"); continue }; (q, qb) }
				else { let Some(q) = poke_empty(qb, &mut b, level) else { r.count("empty-name:no such entry"); continue }; (qa, q) };
			let mut d = vec![];
			if from_quill(&qa, &mut d) != a || from_quill(&qb, &mut d) != b { r.notes.push("empty-name stream: the tree and its mirror differ after the edit; pair skipped".into()); continue; }
			crumb(&format!("property C09 (Mappings::merge), empty-name stream\n--- A\n{}--- B\n{}", dump(&a), dump(&b)));
			let (got, _) = impl_merge_q(&qa, &qb);
			r.evaluations += 1;
			r.count(&format!("empty-name:{} of {}:{}", ["namespace", "class", "field", "method", "parameter"][level], if on_a { "A" } else { "B" }, match &got { Ok(None) => "Err", Ok(Some(_)) => "Ok", Err(_) => "panic" }));
			match &got {
				Err(p) => vio(&mut r, format!("Mappings::merge panicked on an input with an empty name: {p}"), &a, &b, "panic"),
				Ok(Some(m)) if has_empty_name(m) => vio(&mut r, "merge produced a mapping set that contains an empty name (the invariant of Names / Namespaces is broken in the result)".into(), &a, &b, &dump(m)),
				_ => {}
			}
			if let Ok(g) = &got { r.case("empty-name", format!("CMergeRaw {} {} {}", g_mappings(&a), g_mappings(&b), gres(g.as_ref().map(g_mappings)))); }
		}
	}

	// round 7: the row / header API of tree/mod.rs around merge (Names::from / try_from, Namespaces::try_from,
	// rename_namespaces, Namespace::new + Names::change_name incl. two-step edits), each call judged by the oracle and
	// compared with coq/C09/ModelNames.v
	{
		let mut rg = rng.fork(0x4e414d);
		let k = if ctx.thorough { 200 } else { 60 };
		names_api::<2>(&mut r, &mut rg, k);
		names_api::<3>(&mut r, &mut rg, k);
	}

	// coqc needs ~0.4 GB per 100 cases of this size and 16 shards are checked in parallel
	r.shard_size = (r.cases.len() / 16 + 1).clamp(50, 110);
	Ok(r)
}

fn main() -> anyhow::Result<()> { fbh::main_with(run) }
