//! C03 exploratory (to be replaced)
use fbh::gal::*;
use fbh::mapmodel::*;
use fbh::report::{guarded, Report};
use fbh::Ctx;

fn rt(m: &MMappings) {
	let q = to_quill::<2, NsAny>(m).unwrap();
	let w = guarded(std::panic::AssertUnwindSafe(|| quill::tiny_v2::write_string(&q)));
	println!("write: {:?}", w);
	if let Ok(Ok(t)) = w {
		let r = guarded(std::panic::AssertUnwindSafe(|| quill::tiny_v2::read::<2, NsAny>(t.as_bytes())));
		match r {
			Ok(Ok(q2)) => { let mut d = vec![]; let m2 = from_quill(&q2, &mut d); println!("read: {:?}\nequiv: {}", m2, m2.equiv(m)); }
			other => println!("read: {:?}", other.map(|x| x.map(|_| ()))),
		}
	}
}

fn run(_ctx: &Ctx) -> anyhow::Result<Report> {
	let r = Report::new("C03", "C03.Run");
	let cls = |doc: Option<&str>| MClass { names: vec![Some(cps_str("A")), Some(cps_str("B"))], doc: doc.map(cps_str), fields: vec![], methods: vec![] };
	let ns = vec![cps_str("a"), cps_str("b")];
	for d in ["a\\nb", "a\\\\b", "tab\there", "cr\r", "mid\rdle", "nul\0x", "x\\"] {
		println!("--- class doc {:?}", d);
		rt(&MMappings { ns: ns.clone(), doc: None, classes: vec![cls(Some(d))] });
	}
	println!("--- top doc");
	rt(&MMappings { ns: ns.clone(), doc: Some(cps_str("top")), classes: vec![cls(None)] });
	println!("--- surrogate in name / desc");
	let f = MField { desc: vec!['L' as u32, 0xD800, ';' as u32], names: vec![Some(cps_str("f")), Some(vec![0xDC00])], doc: None };
	let mut c = cls(None); c.fields.push(f.clone());
	rt(&MMappings { ns: ns.clone(), doc: None, classes: vec![c] });
	let f = MField { desc: vec!['L' as u32, 0xD800, ';' as u32], names: vec![Some(cps_str("f")), None], doc: None };
	let mut c = cls(None); c.fields.push(f);
	rt(&MMappings { ns: ns.clone(), doc: None, classes: vec![c] });
	for t in ["tiny\t2\t0\ta\tb\nc\tA\tB\n\tm\t()V\tx\ty\n\t\tp\t+1\t\tq\n\t\tp\t01\t\tq\n", "\ttiny\t2\t0\ta\tb\nc\tA\tB\r\n\n", "tiny\t2\t0\ta\tb\nc\tA\tB\n\tm\t()V\tx\ty\n\t\tp\t18446744073709551616\t\tq\n", "tiny\t2\t0\ta\tb\nc\tA\tB\n\tf\t\tx\ty\nc\tA/\tB\n", "tiny\t2\t0\ta\tb\nc\tA\tB\r"] {
		let r = quill::tiny_v2::read::<2, NsAny>(t.as_bytes());
		match r { Ok(q2) => { let mut d = vec![]; println!("{:?} => {:?}", t, from_quill(&q2, &mut d)); } Err(e) => println!("{:?} => Err {:#}", t, e) }
	}
	Ok(r)
}

fn main() -> anyhow::Result<()> { fbh::main_with(run) }
