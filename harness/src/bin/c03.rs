//! C03 — Tiny v2 files round-trip and are written canonically.
//! Implementation entry points: quill::tiny_v2::{write_string, read}.
use fbh::gal::*;
use fbh::mapmodel::*;
use fbh::prng::Rng;
use fbh::report::{crumb, guarded, Report};
use fbh::Ctx;
use quill::tree::mappings::Mappings;
use quill::tree::names::Namespace;
use std::panic::AssertUnwindSafe;

// ---------- implementation calls ----------
#[derive(Clone, Debug, PartialEq)]
enum WRes { Ok(String), Err, Panic }
type RRes = Result<Option<(MMappings, Vec<String>)>, String>; // Err = panic; None = Err(_)

// ---------- Gallina printing: strings as packed integers decoded by C03.Run.u (fast to parse) ----------
fn hstr(s: &[u32]) -> String {
	// generalised UTF-8 (surrogates as three bytes), seven bytes per 63-bit integer
	let mut bytes: Vec<u8> = Vec::with_capacity(s.len() + 8);
	for &c in s {
		if c < 0x80 { bytes.push(c as u8); }
		else if c < 0x800 { bytes.push(0xC0 | (c >> 6) as u8); bytes.push(0x80 | (c & 0x3F) as u8); }
		else if c < 0x10000 { bytes.push(0xE0 | (c >> 12) as u8); bytes.push(0x80 | ((c >> 6) & 0x3F) as u8); bytes.push(0x80 | (c & 0x3F) as u8); }
		else { bytes.push(0xF0 | (c >> 18) as u8); bytes.push(0x80 | ((c >> 12) & 0x3F) as u8); bytes.push(0x80 | ((c >> 6) & 0x3F) as u8); bytes.push(0x80 | (c & 0x3F) as u8); }
	}
	format!("(u [{}]%uint63)", pack(&bytes))
}
fn pack(bytes: &[u8]) -> String {
	let ints: Vec<String> = bytes.chunks(7).map(|ch| {
		let mut v: u64 = 0;
		for (k, b) in ch.iter().enumerate() { v |= (*b as u64) << (8 * k); }
		((v << 3) | ch.len() as u64).to_string()
	}).collect();
	ints.join(";")
}
/// raw bytes (not necessarily UTF-8), decoded by C03.Run.ub
fn hbytes(b: &[u8]) -> String { format!("(ub [{}]%uint63)", pack(b)) }
fn h_names(n: &NamesRow) -> String { glist(n.iter().map(|o| gopt(o.as_ref().map(|s| hstr(s))))) }
fn h_doc(d: &Option<S>) -> String { gopt(d.as_ref().map(|s| hstr(s))) }
fn h_param(p: &MParam) -> String { format!("(mkParam {} {} {})", p.index, h_names(&p.names), h_doc(&p.doc)) }
fn h_field(f: &MField) -> String { format!("(mkField {} {} {})", hstr(&f.desc), h_names(&f.names), h_doc(&f.doc)) }
fn h_meth(m: &MMeth) -> String { format!("(mkMeth {} {} {} {})", hstr(&m.desc), h_names(&m.names), h_doc(&m.doc), glist(m.params.iter().map(h_param))) }
fn h_class(c: &MClass) -> String { format!("(mkClass {} {} {} {})", h_names(&c.names), h_doc(&c.doc), glist(c.fields.iter().map(h_field)), glist(c.methods.iter().map(h_meth))) }
fn h_mappings(m: &MMappings) -> String { format!("(mkMappings {} {} {})", glist(m.ns.iter().map(|s| hstr(s))), h_doc(&m.doc), glist(m.classes.iter().map(h_class))) }

fn g_wres(w: &WRes) -> String {
	match w { WRes::Ok(t) => format!("(WOk {})", hstr(&cps_str(t))), WRes::Err => "WErr".into(), WRes::Panic => "WPanic".into() }
}
fn g_rres(r: &RRes) -> String {
	match r { Ok(Some((m, _))) => format!("(Ok {})", h_mappings(m)), _ => "Err".into() }
}

fn write_q<const N: usize>(q: &Mappings<N, NsAny>) -> WRes {
	match guarded(AssertUnwindSafe(|| quill::tiny_v2::write_string(q))) {
		Ok(Ok(s)) => WRes::Ok(s), Ok(Err(_)) => WRes::Err, Err(_) => WRes::Panic,
	}
}
fn write_n<const N: usize>(m: &MMappings) -> anyhow::Result<WRes> { Ok(write_q(&to_quill::<N, NsAny>(m)?)) }
fn read_n<const N: usize>(t: &[u8]) -> RRes {
	guarded(AssertUnwindSafe(|| quill::tiny_v2::read::<N, NsAny>(t).ok().map(|q| { let mut d = vec![]; let m = from_quill(&q, &mut d); (m, d) })))
}
/// (what the tree looks like to the model, write result, read-back result) of a valid tree whose
/// infos were damaged afterwards: `kind` 0 = first name of class i removed, 1 = info of class i
/// replaced by that of class j, 2 = first name of a field / method removed
fn damaged_n<const N: usize>(m: &MMappings, kind: usize, i: usize, j: usize) -> anyhow::Result<(MMappings, WRes, RRes)> {
	let mut q = to_quill::<N, NsAny>(m)?;
	let zero = Namespace::<N>::new(0)?;
	match kind {
		0 => { q.classes[i].info.names[zero] = None; }
		1 => { let info = q.classes[j].info.clone(); q.classes[i].info = info; }
		_ => {
			let c = &mut q.classes[i];
			if !c.fields.is_empty() { let k = j % c.fields.len(); c.fields[k].info.names[zero] = None; }
			else if !c.methods.is_empty() { let k = j % c.methods.len(); c.methods[k].info.names[zero] = None; }
		}
	}
	let mut d = vec![];
	let seen = from_quill(&q, &mut d);
	let w = write_q(&q);
	let r = match &w { WRes::Ok(t) => read_n::<N>(t.as_bytes()), _ => Ok(None) };
	Ok((seen, w, r))
}

macro_rules! with_n {
	($n:expr, $f:ident, $($a:expr),*) => { match $n {
		1 => $f::<1>($($a),*), 2 => $f::<2>($($a),*), 3 => $f::<3>($($a),*), 4 => $f::<4>($($a),*), 5 => $f::<5>($($a),*),
		n => panic!("unsupported number of namespaces {n}"),
	} };
}
fn impl_write(m: &MMappings) -> anyhow::Result<WRes> { with_n!(m.ns.len(), write_n, m) }
fn impl_read(n: usize, t: &str) -> RRes { with_n!(n, read_n, t.as_bytes()) }
fn impl_read_bytes(n: usize, b: &[u8]) -> RRes { with_n!(n, read_n, b) }

// ---------- the hypotheses of the theorems, mirrored (checked against Coq by CHyp cases) ----------
fn is_scalar(c: u32) -> bool { c < 0xD800 || (c > 0xDFFF && c < 0x110000) }
fn scalar_only(s: &[u32]) -> bool { s.iter().all(|&c| is_scalar(c)) }
fn no_tab_lf(s: &[u32]) -> bool { s.iter().all(|&c| c != 9 && c != 10) }
fn cell_ok(s: &[u32]) -> bool { no_tab_lf(s) && s.last() != Some(&13) }
fn unq(s: &[u32]) -> bool { !s.is_empty() && s.iter().all(|&c| !matches!(char::from_u32(c), Some('.' | ';' | '[' | '/'))) }
fn valid_class(s: &[u32]) -> bool { s.first() != Some(&('[' as u32)) && s.split(|&c| c == '/' as u32).all(unq) }
fn valid_method(s: &[u32]) -> bool { s == cps_str("<init>") || s == cps_str("<clinit>") || (unq(s) && !s.contains(&('<' as u32)) && !s.contains(&('>' as u32))) }
fn names_textual(r: &NamesRow, valid: fn(&[u32]) -> bool) -> bool {
	r.iter().all(|o| match o { Some(s) => cell_ok(s) && scalar_only(s) && valid(s), None => true })
}
fn desc_ok(s: &[u32]) -> bool { cell_ok(s) && scalar_only(s) }
fn textual(m: &MMappings) -> bool {
	m.ns.iter().all(|s| cell_ok(s)) && m.classes.iter().all(|c| names_textual(&c.names, valid_class)
		&& c.fields.iter().all(|f| desc_ok(&f.desc) && names_textual(&f.names, unq))
		&& c.methods.iter().all(|me| desc_ok(&me.desc) && names_textual(&me.names, valid_method)
			&& me.params.iter().all(|p| names_textual(&p.names, unq))))
}
/// what the checked constructors of duke's name types guarantee (a tree that fails this can only be built with
/// `from_inner_unchecked`): every name is valid for its type.  Nothing about TAB / LF / CR / surrogates.
fn typed(m: &MMappings) -> bool {
	let row = |r: &NamesRow, valid: fn(&[u32]) -> bool| r.iter().all(|o| o.as_ref().map_or(true, |s| valid(s)));
	m.classes.iter().all(|c| row(&c.names, valid_class)
		&& c.fields.iter().all(|f| row(&f.names, unq))
		&& c.methods.iter().all(|me| row(&me.names, valid_method) && me.params.iter().all(|p| row(&p.names, unq))))
}
/// the same set with every unpaired surrogate of a name or descriptor replaced by U+FFFD (what a lossy conversion writes)
fn lossy_twin(m: &MMappings) -> MMappings {
	let mut t = m.clone();
	for (_, s) in cells_mut(&mut t) { for c in s.iter_mut() { if !is_scalar(*c) { *c = 0xFFFD; } } }
	t
}
fn distinct<T: PartialEq>(v: &[T]) -> bool { (0..v.len()).all(|i| (i + 1..v.len()).all(|j| v[i] != v[j])) }
fn wf(m: &MMappings) -> bool {
	let n = m.ns.len();
	let row = |r: &NamesRow| r.len() == n && r.iter().all(|o| o.as_ref().map_or(true, |s| !s.is_empty()));
	let first = |r: &NamesRow| r.first().map_or(false, |o| o.is_some());
	n >= 2 && m.ns.iter().all(|s| !s.is_empty())
		&& m.classes.iter().all(|c| row(&c.names) && first(&c.names)
			&& c.fields.iter().all(|f| row(&f.names) && first(&f.names))
			&& distinct(&c.fields.iter().map(|f| (f.names.first().cloned(), f.desc.clone())).collect::<Vec<_>>())
			&& c.methods.iter().all(|me| row(&me.names) && first(&me.names) && me.params.iter().all(|p| row(&p.names))
				&& distinct(&me.params.iter().map(|p| p.index).collect::<Vec<_>>()))
			&& distinct(&c.methods.iter().map(|f| (f.names.first().cloned(), f.desc.clone())).collect::<Vec<_>>()))
		&& distinct(&m.classes.iter().map(|c| c.names.first().cloned()).collect::<Vec<_>>())
}

// ---------- generators ----------
const DOCS: [&str; 25] = ["a comment", "two\nlines", "  leading spaces", "# hash", "blank\n\nline", "trailing ", "ünï\u{1F600}", "x",
	"back\\nslash-n", "C:\\temp\\new", "ends with backslash\\", "\\", "\\\\", "tab\tinside", "\ttab first", "cr at end\r", "cr\rmiddle", "crlf\r\nline",
	"", "\n", "\\t\\r\\n\\\\ literal", "nul\0",
	"nel\u{85}ls\u{2028}ps\u{2029}vt\u{b}ff\u{c}us\u{1f}", "\u{feff}bom first", "\u{10ffff}\u{ffff}\u{e000}\u{d7ff}\u{800}\u{7ff}\u{80}\u{7f}"];
fn rich_doc(rng: &mut Rng) -> Vec<u32> {
	if rng.chance(1, 6) {
		let alpha = ['\\', 'n', 't', 'r', '\n', '\t', '\r', 'a', ' '];
		(0..rng.range(0, 6)).map(|_| *rng.pick(&alpha[..]) as u32).collect()
	} else { cps_str(*rng.pick(&DOCS[..])) }
}
/// comments of every kind on every level, the mappings' own comment included
fn enrich(rng: &mut Rng, m: &mut MMappings) {
	let mut d = |rng: &mut Rng, doc: &mut Option<S>| { if rng.chance(1, 4) { *doc = Some(rich_doc(rng)); } };
	if rng.chance(1, 3) { m.doc = Some(rich_doc(rng)); }
	for c in &mut m.classes {
		d(rng, &mut c.doc);
		for f in &mut c.fields { d(rng, &mut f.doc); }
		for me in &mut c.methods { d(rng, &mut me.doc); for p in &mut me.params { d(rng, &mut p.doc); } }
	}
}
fn gen_valid(rng: &mut Rng, n: usize, big: bool) -> MMappings {
	let mut cfg = GenCfg::new(n);
	if big { cfg.max_classes = 12; cfg.max_members = 6; cfg.max_params = 4; }
	if rng.chance(1, 6) { cfg.absent_12 = 9; }
	let mut m = gen_mappings(rng, &cfg);
	enrich(rng, &mut m);
	// some parameter indices at the edges of usize
	for c in &mut m.classes { for me in &mut c.methods { for p in &mut me.params {
		if rng.chance(1, 12) { let i = *rng.pick(&[255u64, 65535, 4294967296, u64::MAX, 10, 100][..]); p.index = i; }
	} } }
	for c in &mut m.classes { for me in &mut c.methods { let mut seen = vec![]; me.params.retain(|p| { let k = !seen.contains(&p.index); seen.push(p.index); k }); } }
	m
}

/// all the cells of a tree, for the hypothesis-violating streams
fn cells_mut(m: &mut MMappings) -> Vec<(&'static str, &mut S)> {
	let mut v: Vec<(&'static str, &mut S)> = vec![];
	for s in &mut m.ns { v.push(("ns", s)); }
	for c in &mut m.classes {
		for o in &mut c.names { if let Some(s) = o { v.push(("class", s)); } }
		for f in &mut c.fields { v.push(("desc", &mut f.desc)); for o in &mut f.names { if let Some(s) = o { v.push(("field", s)); } } }
		for me in &mut c.methods {
			v.push(("desc", &mut me.desc));
			for o in &mut me.names { if let Some(s) = o { v.push(("method", s)); } }
			for p in &mut me.params { for o in &mut p.names { if let Some(s) = o { v.push(("param", s)); } } }
		}
	}
	v
}
/// damages one cell; returns the kind of damage
fn violate_cell(rng: &mut Rng, m: &mut MMappings) -> Option<String> {
	let mut cells = cells_mut(m);
	if cells.is_empty() { return None; }
	let k = rng.below(cells.len());
	let (kind, s) = &mut cells[k];
	let pos = rng.below(s.len() + 1);
	let what = match rng.below(9) {
		0 => { s.insert(pos, 9); "tab" }
		1 => { s.insert(pos, 10); "lf" }
		2 => { s.push(13); "cr-end" }
		3 => { s.insert(pos.min(s.len().saturating_sub(1)), 13); "cr-inside" }
		4 => { if *kind == "ns" { s.push('.' as u32); "dot(ns)" } else { s.insert(pos, *rng.pick(&['.' as u32, ';' as u32, '[' as u32][..])); "invalid-char" } }
		5 => { if *kind == "ns" { s.push('/' as u32); "slash(ns)" } else { s.insert(pos, '/' as u32); if rng.chance(1, 2) { s.push('/' as u32); } "slash" } }
		6 => { if *kind == "ns" { s.push('<' as u32); "lt(ns)" } else { s.insert(pos, *rng.pick(&['<' as u32, '>' as u32][..])); "angle" } }
		7 => { if *kind == "ns" { s.push('x' as u32); "x(ns)" } else { s.insert(pos, *rng.pick(&[0xD800u32, 0xDFFF, 0xDC00][..])); "surrogate" } }
		_ => { if *kind == "desc" { s.clear(); "empty-desc" } else { s.insert(0, '[' as u32); "bracket-first" } }
	};
	Some(format!("{kind}:{what}"))
}

// ---------- text mutations (the reader's Err classification) ----------
fn mutate_text(rng: &mut Rng, text: &str, n: usize) -> (String, &'static str) {
	let mut lines: Vec<String> = text.split('\n').map(|s| s.to_owned()).collect();
	if lines.last().map_or(false, |l| l.is_empty()) { lines.pop(); }
	if lines.is_empty() { lines.push(String::new()); }
	let i = rng.below(lines.len());
	let body = if lines.len() > 1 { 1 + rng.below(lines.len() - 1) } else { 0 };
	let kind: &'static str;
	match rng.below(24) {
		0 => { lines[body].insert(0, '\t'); kind = "indent+1"; }
		1 => { lines[body].insert_str(0, "\t\t"); kind = "indent+2"; }
		2 => { if lines[body].starts_with('\t') { lines[body].remove(0); } kind = "indent-1"; }
		3 => { let l = lines[body].clone(); lines.insert(body, l); kind = "dup-line"; }
		4 => { lines.remove(i); kind = "del-line"; }
		5 => { let j = rng.below(lines.len()); lines.swap(i, j); kind = "swap-lines"; }
		6 => { let l = &mut lines[body]; let t = l.chars().take_while(|c| *c == '\t').count(); let rest: String = l[t..].to_owned();
			let mut cs: Vec<&str> = rest.split('\t').collect(); let tag = *rng.pick(&["x", "cc", "", "C", "v", "tiny"][..]); cs[0] = tag; *l = "\t".repeat(t) + &cs.join("\t"); kind = "unknown-tag"; }
		7 => { lines[body].push_str("\textra"); kind = "extra-cell"; }
		8 => { lines[body].push('\t'); kind = "extra-empty-cell"; }
		9 => { let l = &mut lines[body]; if let Some(p) = l.rfind('\t') { l.truncate(p); } kind = "drop-last-cell"; }
		10 => { let l = &mut lines[body]; let t = l.chars().take_while(|c| *c == '\t').count(); let rest: String = l[t..].to_owned();
			let mut cs: Vec<String> = rest.split('\t').map(|s| s.to_owned()).collect(); let k = rng.below(cs.len()); cs[k].clear(); *l = "\t".repeat(t) + &cs.join("\t"); kind = "empty-a-cell"; }
		11 => { lines.insert(body, String::new()); kind = "empty-line"; }
		12 => { let t = rng.range(1, 3); lines.insert(body, "\t".repeat(t)); kind = "tabs-only-line"; }
		13 => { let t = rng.range(0, 4); lines.insert(body, "\t".repeat(t) + "c\tsecond comment"); kind = "insert-comment"; }
		14 => { for l in &mut lines { l.push('\r'); } kind = "crlf"; }
		15 => { let joined = lines.join("\n"); return (joined, "no-final-lf"); }
		16 => { lines[0].insert(0, '\t'); kind = "header-indented"; }
		17 => { lines[0] = lines[0].replacen(*rng.pick(&["tiny", "\t2", "\t0"][..]), *rng.pick(&["tiny2", "\t1", "\t", "Tiny"][..]), 1); kind = "header-version"; }
		18 => { if rng.chance(1, 2) { lines[0].push_str("\tmore"); } else if let Some(p) = lines[0].rfind('\t') { lines[0].truncate(p); } kind = "header-ns-count"; }
		19 => { let t = rng.range(2, 3); let idx = *rng.pick(&["+1", "01", "-1", "", "1x", "18446744073709551615", "18446744073709551616", "0", "+", " 1", "１"][..]);
			let mut l = "\t".repeat(t) + "p\t" + idx; for _ in 0..n { l.push_str("\tq"); } lines.insert(body, l); kind = "param-index"; }
		20 => { let t = rng.range(0, 2); let mut l = "\t".repeat(t) + *rng.pick(&["c", "f", "m", "p"][..]); for _ in 0..rng.range(0, n + 2) { l.push('\t'); l.push_str(*rng.pick(&["A", "I", "()V", "a/b", "a.b", "", "<init>", "<x>", "[I", "3"][..])); } lines.insert(body, l); kind = "insert-row"; }
		21 => { lines[body].push('\r'); kind = "cr-at-line-end"; }
		22 => { let l = &mut lines[body]; if let Some(p) = l.rfind('\t') { l.insert_str(p + 1, *rng.pick(&["\\", "\\x", "\\\\n", "a\\"][..])); } kind = "backslash-in-cell"; }
		_ => { let l = lines[body].clone(); let t = l.chars().take_while(|c| *c == '\t').count(); lines.insert(body + 1, "\t".repeat(t + 1) + "x\tunknown child"); kind = "unknown-child"; }
	}
	let mut t = lines.join("\n"); t.push('\n');
	(t, kind)
}
fn raw_text(rng: &mut Rng) -> String {
	let toks = ["tiny", "\t", "\t", "\t", "\n", "\n", "\r", "2", "0", "a", "b", "c", "f", "m", "p", "A", "I", "1", "\\", "n", "\r\n"];
	let mut s = String::new();
	if rng.chance(3, 4) { s.push_str("tiny\t2\t0\ta\tb"); s.push_str(*rng.pick(&["\n", "\n", "\r\n", "", "\tc\n"][..])); }
	for _ in 0..rng.range(0, 24) { s.push_str(*rng.pick(&toks[..])); }
	s
}

// ---------- oracle ----------
fn show_text(t: &str) -> String { t.replace('\\', "\\\\").replace('\t', "\\t").replace('\r', "\\r").replace('\n', "\\n\n") }
fn replay(what: &str, m: Option<&MMappings>, text: Option<&str>, extra: &str) -> String {
	let mut s = format!("property C03\nwhat: {what}\n");
	if let Some(m) = m { s.push_str(&format!("mapping set (Rust debug): {m:?}\nmapping set (Gallina): {}\n", g_mappings(m))); }
	if let Some(t) = text { s.push_str(&format!("text (\\t = TAB, \\r = CR, \\\\ = backslash, \\n = LF followed by a real line break):\n{}\n", show_text(t))); }
	s.push_str(extra);
	s
}

struct Tally { in_hyp: u64, out_hyp: u64 }

/// one mapping set through the implementation: write, read back, other insertion orders, fixpoint.
/// Emits the correspondence cases; applies the oracle when the set satisfies the hypotheses.
fn through(r: &mut Report, rng: &mut Rng, m: &MMappings, stream: &str, orders: usize, tally: &mut Tally) {
	let n = m.ns.len();
	let hyp = wf(m) && textual(m);
	if hyp { tally.in_hyp += 1; } else { tally.out_hyp += 1; }
	crumb(&replay("the harness process died while writing / reading back this mapping set", Some(m), None, ""));
	let w = match impl_write(m) {
		Ok(w) => w,
		Err(e) => { r.count(&format!("{stream}:not-constructible")); if hyp { r.violation(format!("a well-formed mapping set cannot be built as a quill tree: {e:#}"), replay("construction failed", Some(m), None, "")); } return; }
	};
	let rr: RRes = match &w { WRes::Ok(t) => impl_read(n, t), _ => Ok(None) };
	r.case(stream, format!("CWriteRead {} {} {} {} {}", h_mappings(m), gbool(hyp), gbool(wf(m) && typed(m)), g_wres(&w), g_rres(&rr)));
	let ok_rt = matches!(&rr, Ok(Some((m2, d))) if d.is_empty() && m2.equiv(m));
	r.eval(&g_mappings(&m.canon()), m.size() > 0 && ok_rt);
	r.count(&format!("{stream}:n={n}"));
	r.count(&format!("{stream}:size={}", match m.size() { 0 => "0", 1..=5 => "1-5", 6..=20 => "6-20", 21..=60 => "21-60", _ => "61+" }));
	r.count(&format!("{stream}:write={}", match &w { WRes::Ok(_) => "text", WRes::Err => "Err", WRes::Panic => "panic" }));
	r.count(&format!("{stream}:roundtrip={}", if ok_rt { "ok" } else { "no" }));
	// ---- the property, on the implementation alone ----
	// Judged: every set the checked API can build (well-formed, every name valid for its type) - also those outside
	// `textual` (TAB / LF / CR / unpaired surrogates in a name, descriptor or namespace).  Such a set must be REFUSED
	// by write (Err, or the panic of write_fmt on a Display error) or be written as a text that reads back to it;
	// inside the hypotheses a refusal is a violation too.
	if !(wf(m) && typed(m)) { return; }
	r.count(&format!("judged:{}", if hyp { "inside-textual" } else { "outside-textual" }));
	let text = match &w {
		WRes::Ok(t) => t.clone(),
		other if hyp => { r.violation(format!("write_string of a well-formed textual mapping set failed: {other:?}"), replay("write failed", Some(m), None, "")); return; }
		other => { r.count(&format!("judged:outside-textual:refused={}", if *other == WRes::Err { "Err" } else { "panic" })); return; }
	};
	if !hyp {
		r.count("judged:outside-textual:written");
		// two sets that differ only in an unpaired surrogate must not be written as the same text
		let twin = lossy_twin(m);
		if &twin != m {
			if let Ok(WRes::Ok(t2)) = impl_write(&twin) {
				if t2 == text { r.violation("two different mapping sets are written as the same text (an unpaired surrogate is written as U+FFFD)".into(), replay("write(M) = write(M') for M' = M with every unpaired surrogate replaced by U+FFFD", Some(m), Some(&text), &format!("the other set: {twin:?}\n"))); return; }
			}
		}
	}
	match &rr {
		Err(p) => { r.violation(format!("read panicked on written text: {p}"), replay("read(write(M)) panicked", Some(m), Some(&text), "")); return; }
		Ok(None) => { r.violation("read(write(M)) is an error".into(), replay("read(write(M)) = Err", Some(m), Some(&text), "")); return; }
		Ok(Some((m2, desync))) => {
			if !desync.is_empty() { r.violation(format!("read produced a node whose map key differs from its own first name: {desync:?}"), replay("key / info out of sync after read", Some(m), Some(&text), "")); }
			if !m2.equiv(m) { r.violation("read(write(M)) differs from M".into(), replay("read(write(M)) is not M up to insertion order", Some(m), Some(&text), &format!("read back: {m2:?}\n"))); }
			match impl_write(m2) {
				Ok(WRes::Ok(t2)) if t2 == text => {}
				other => r.violation("write(read(write(M))) differs from write(M)".into(), replay("not a fixed point", Some(m), Some(&text), &format!("second write: {other:?}\n"))),
			}
		}
	}
	for _ in 0..orders {
		let s = shuffled(rng, m);
		match impl_write(&s) {
			Ok(WRes::Ok(t2)) if t2 == text => {}
			other => r.violation("write depends on the insertion order".into(), replay("write(M) differs from write(M') for the same content in another insertion order", Some(m), Some(&text), &format!("other order: {s:?}\nits text: {other:?}\n"))),
		}
		r.count("orders-compared");
	}
	if orders > 0 {
		// one of the other orders also goes to the model
		let s = shuffled(rng, m);
		if let Ok(w2) = impl_write(&s) { r.case("valid-shuffled", format!("CWrite {} {}", h_mappings(&s), g_wres(&w2))); }
	}
}

// ---------- an independent reference for "reading never merges, loses or re-parents a row" ----------
fn ref_unescape(s: &[u32]) -> S {
	let mut o = vec![]; let mut i = 0;
	while i < s.len() {
		if s[i] == 92 && i + 1 < s.len() {
			let x = match s[i + 1] { 92 => Some(92), 110 => Some(10), 114 => Some(13), 116 => Some(9), _ => None };
			if let Some(x) = x { o.push(x); i += 2; continue; }
		}
		o.push(s[i]); i += 1;
	}
	o
}
/// One pass over the lines with a stack of open parents (class / member / parameter): every row
/// goes to the innermost open parent of the right kind; nothing is validated.  Only meaningful
/// (and only compared) when the reader accepted the text.
fn ref_rows(text: &str) -> Option<MMappings> {
	let t = cps_str(text);
	let mut lines: Vec<Vec<u32>> = vec![]; let mut cur = vec![]; let mut open = false;
	for &c in &t { if c == 10 { if cur.last() == Some(&13) { cur.pop(); } lines.push(std::mem::take(&mut cur)); open = false; } else { cur.push(c); open = true; } }
	if open { lines.push(cur); }
	let split = |l: &Vec<u32>| -> (usize, Vec<Vec<u32>>) { let d = l.iter().take_while(|&&c| c == 9).count(); (d, l[d..].split(|&c| c == 9).map(|x| x.to_vec()).collect()) };
	let names = |cells: &[Vec<u32>]| -> NamesRow { cells.iter().map(|c| if c.is_empty() { None } else { Some(c.clone()) }).collect() };
	let (_, h) = split(lines.first()?);
	let mut m = MMappings { ns: h.get(3..)?.to_vec(), doc: None, classes: vec![] };
	let (mut in_class, mut member, mut in_param): (bool, Option<bool>, bool) = (false, None, false); // member: Some(true) = method
	let mut seen_top = false;
	for l in &lines[1..] {
		let (d, cells) = split(l);
		let tag = cells[0].as_slice();
		if d == 0 { in_class = false; seen_top = true; } if d <= 1 { member = None; } if d <= 2 { in_param = false; }
		let doc = || if cells.len() == 2 { Some(ref_unescape(&cells[1])) } else { None };
		match (d, tag) {
			(0, [99]) => { m.classes.push(MClass { names: names(&cells[1..]), doc: None, fields: vec![], methods: vec![] }); in_class = true; }
			(1, [99]) if !seen_top => { if let Some(x) = doc() { m.doc = Some(x); } }
			(1, [99]) if in_class => { if let Some(x) = doc() { m.classes.last_mut()?.doc = Some(x); } }
			(1, [102]) if in_class && cells.len() >= 2 => { m.classes.last_mut()?.fields.push(MField { desc: cells[1].clone(), names: names(&cells[2..]), doc: None }); member = Some(false); }
			(1, [109]) if in_class && cells.len() >= 2 => { m.classes.last_mut()?.methods.push(MMeth { desc: cells[1].clone(), names: names(&cells[2..]), doc: None, params: vec![] }); member = Some(true); }
			(2, [99]) if member == Some(false) => { if let Some(x) = doc() { m.classes.last_mut()?.fields.last_mut()?.doc = Some(x); } }
			(2, [99]) if member == Some(true) => { if let Some(x) = doc() { m.classes.last_mut()?.methods.last_mut()?.doc = Some(x); } }
			(2, [112]) if member == Some(true) && cells.len() >= 2 => {
				let idx: String = cells[1].iter().filter_map(|&c| char::from_u32(c)).collect();
				let index = idx.strip_prefix('+').unwrap_or(&idx).parse::<u64>().ok()?;
				m.classes.last_mut()?.methods.last_mut()?.params.push(MParam { index, names: names(&cells[2..]), doc: None }); in_param = true;
			}
			(3, [99]) if in_param => { if let Some(x) = doc() { m.classes.last_mut()?.methods.last_mut()?.params.last_mut()?.doc = Some(x); } }
			_ => {}
		}
	}
	Some(m)
}

/// a text through the reader; when it reads, the result is put through the property as well
fn through_text(r: &mut Report, rng: &mut Rng, n: usize, text: &str, stream: &str, kind: &str, tally: &mut Tally) {
	crumb(&replay("the harness process died while reading this text", None, Some(text), &format!("namespaces: {n}\n")));
	let rr = impl_read(n, text);
	r.case(stream, format!("CRead {n} {} {}", hstr(&cps_str(text)), g_rres(&rr)));
	match &rr {
		Err(p) => { r.violation(format!("read panicked: {p}"), replay("read panicked", None, Some(text), &format!("namespaces: {n}\n"))); r.eval(text, false); }
		Ok(None) => { r.count(&format!("{stream}:{kind}=Err")); r.eval(text, false); }
		Ok(Some((m2, desync))) => {
			r.count(&format!("{stream}:{kind}=Ok"));
			r.eval(text, m2.size() > 0);
			if !desync.is_empty() { r.violation(format!("read produced a node whose map key differs from its own first name: {desync:?}"), replay("key / info out of sync after read", None, Some(text), "")); }
			if !wf(m2) { r.violation("read returned a mapping set that is not well-formed".into(), replay("read result not well-formed", Some(m2), Some(text), "")); }
			match ref_rows(text) {
				Some(want) if &want == m2 => r.count("rows-reference-agrees"),
				other => r.violation("read merged, lost, changed or re-parented a row (differs from the one-pass row classifier)".into(), replay("read result differs from the rows of the text", Some(m2), Some(text), &format!("rows of the text: {other:?}\n"))),
			}
			through(r, rng, m2, "reread", 1, tally);
		}
	}
}


// ---------- round 4: bytes, line endings, order of sibling sections ----------
/// byte sequences that are not UTF-8: lone continuation bytes, overlong forms, encoded surrogates,
/// values above U+10FFFF, bytes that never occur, truncated sequences, a lead followed by ASCII
const BAD_UTF8: [&[u8]; 22] = [&[0x80], &[0xBF], &[0xC0, 0x80], &[0xC1, 0xBF], &[0xE0, 0x80, 0x80], &[0xE0, 0x9F, 0xBF], &[0xED, 0xA0, 0x80], &[0xED, 0xBF, 0xBF],
	&[0xF0, 0x80, 0x80, 0x80], &[0xF0, 0x8F, 0xBF, 0xBF], &[0xF4, 0x90, 0x80, 0x80], &[0xF5, 0x80, 0x80, 0x80], &[0xF8, 0x88, 0x80, 0x80, 0x80], &[0xFF], &[0xFE],
	&[0xC3], &[0xE2, 0x82], &[0xF0, 0x9F, 0x98], &[0xC3, 0x28], &[0xE2, 0x28, 0xA1], &[0xF0, 0x9F, 0x28, 0x80], &[0xC2, 0xC2, 0x80]];
/// the first and the last character of every encoded length, and the neighbours of the surrogate gap
const EDGE_CHARS: [char; 12] = ['\u{7f}', '\u{80}', '\u{7ff}', '\u{800}', '\u{ffff}', '\u{10000}', '\u{10ffff}', '\u{d7ff}', '\u{e000}', '\u{fffd}', '\u{feff}', '\u{85}'];

fn char_boundaries(t: &str) -> Vec<usize> { (0..=t.len()).filter(|&i| t.is_char_boundary(i)).collect() }

/// one byte-level variant of a text
fn mutate_bytes(rng: &mut Rng, t: &str) -> (Vec<u8>, &'static str) {
	let b = t.as_bytes();
	let bounds = char_boundaries(t);
	let at = *rng.pick(&bounds[..]);
	let first_lf = b.iter().position(|&c| c == b'\n').unwrap_or(b.len());
	let splice = |pos: usize, ins: &[u8]| { let mut v = b[..pos].to_vec(); v.extend_from_slice(ins); v.extend_from_slice(&b[pos..]); v };
	match rng.below(9) {
		0 | 1 => (splice(at, *rng.pick(&BAD_UTF8[..])), "bad-sequence-anywhere"),
		2 => (splice(rng.below(first_lf + 1).min(first_lf), *rng.pick(&BAD_UTF8[..])), "bad-sequence-in-header"),
		3 => { // in the deepest line (parameter comments, parameters): the error is met by the innermost loop
			let mut best = (0usize, 0usize); let mut pos = 0;
			for l in t.split_inclusive('\n') { let d = l.bytes().take_while(|&c| c == b'\t').count(); if d >= best.0 { best = (d, pos + l.trim_end_matches('\n').len()); } pos += l.len(); }
			(splice(best.1, *rng.pick(&BAD_UTF8[..])), "bad-sequence-in-deepest-line")
		}
		4 => { let mut s = String::new(); s.push(*rng.pick(&EDGE_CHARS[..])); (splice(at, s.as_bytes()), "edge-char-anywhere") }
		5 => { // a separator in the middle of a multi-byte character
			let c = *rng.pick(&['ü', '€', '\u{1F600}'][..]); let mut e = [0u8; 4]; let enc = c.encode_utf8(&mut e).as_bytes().to_vec();
			let cut = 1 + rng.below(enc.len() - 1); let sep: &[u8] = *rng.pick(&[&b"\n"[..], &b"\t"[..], &b"\r\n"[..], &b"\\"[..]][..]);
			let mut ins = enc[..cut].to_vec(); ins.extend_from_slice(sep); ins.extend_from_slice(&enc[cut..]);
			(splice(at, &ins), "separator-inside-character")
		}
		6 => { let mut v = b.to_vec(); if v.last() == Some(&b'\n') { v.pop(); } v.extend_from_slice(*rng.pick(&BAD_UTF8[..])); (v, "bad-sequence-at-end-without-lf") }
		7 => { let mut v = b.to_vec(); let k = rng.below(v.len().max(1)); if !v.is_empty() { v[k] = *rng.pick(&[0x80u8, 0xC0, 0xE0, 0xF0, 0xFF, 0x00, 0x7F][..]); } (v, "one-byte-replaced") }
		_ => { let k = rng.below(b.len() + 1); (b[..k].to_vec(), "truncated") }
	}
}

/// bytes through the reader, against the byte-level model; a valid file must read as its text does
fn through_bytes(r: &mut Report, n: usize, bytes: &[u8], kind: &str) {
	let shown = String::from_utf8_lossy(bytes).into_owned();
	crumb(&replay("the harness process died while reading these bytes", None, Some(&shown), &format!("namespaces: {n}\nbytes: {bytes:?}\n")));
	let rr = impl_read_bytes(n, bytes);
	r.case("bytes", format!("CReadBytes {n} {} {}", hbytes(bytes), g_rres(&rr)));
	let valid = std::str::from_utf8(bytes).is_ok();
	r.count(&format!("bytes:{kind}:{}={}", if valid { "utf8" } else { "not-utf8" }, match &rr { Ok(Some(_)) => "Ok", Ok(None) => "Err", Err(_) => "panic" }));
	if let Err(p) = &rr { r.violation(format!("read panicked on bytes: {p}"), replay("read panicked", None, Some(&shown), &format!("namespaces: {n}\nbytes: {bytes:?}\n"))); }
	if let (Ok(Some((m2, _))), false) = (&rr, valid) {
		// no name, descriptor or comment of the result can hold the offending bytes: an entry was changed on the way in
		r.violation("read accepted a file that is not UTF-8".into(), replay("read returned a mapping set for bytes that are not UTF-8 (shown lossily below); the bytes it could not decode are lost", Some(m2), Some(&shown), &format!("namespaces: {n}\nbytes: {bytes:?}\n")));
	}
	if let (Ok(Some((m2, _))), Ok(t)) = (&rr, std::str::from_utf8(bytes)) {
		// the same file handed over as &str bytes must of course read the same; and it goes through the property
		if !wf(m2) { r.violation("read returned a mapping set that is not well-formed".into(), replay("read result not well-formed", Some(m2), Some(t), "")); }
		match ref_rows(t) {
			Some(want) if &want == m2 => r.count("rows-reference-agrees"),
			other => r.violation("read merged, lost, changed or re-parented a row (differs from the one-pass row classifier)".into(), replay("read result differs from the rows of the text", Some(m2), Some(t), &format!("rows of the text: {other:?}\n"))),
		}
	}
	r.eval(&format!("bytes {bytes:?}"), matches!(&rr, Ok(Some((m2, _))) if m2.size() > 0));
}

fn same_read(a: &RRes, b: &RRes) -> bool {
	match (a, b) { (Ok(Some((x, _))), Ok(Some((y, _)))) => x == y, (Ok(None), Ok(None)) => true, _ => false }
}
/// the three line-ending laws on the implementation alone (C03_read_crlf, C03_read_final_lf, C03_read_extra_lf),
/// each under its exact side condition; the variants also go to the model
fn line_endings(r: &mut Report, n: usize, t: &str, stream: &str) {
	let base = impl_read(n, t);
	if matches!(base, Err(_)) { return; }
	let mut variant = |r: &mut Report, what: &str, t2: &str| {
		crumb(&replay("the harness process died while reading this text", None, Some(t2), &format!("namespaces: {n}\n")));
		let r2 = impl_read(n, t2);
		r.case(stream, format!("CRead {n} {} {}", hstr(&cps_str(t2)), g_rres(&r2)));
		r.count(&format!("{stream}:{what}={}", match &r2 { Ok(Some(_)) => "Ok", _ => "Err" }));
		r.eval(t2, matches!(&r2, Ok(Some((m, _))) if m.size() > 0));
		if !same_read(&base, &r2) {
			r.violation(format!("line endings: {what} changes what is read"), replay(&format!("read differs between a text and the same text with {what}"), None, Some(t), &format!("namespaces: {n}\nvariant:\n{}\nread of the text: {base:?}\nread of the variant: {r2:?}\n", show_text(t2))));
		}
	};
	if !t.contains("\r\n") { variant(r, "CR LF line ends", &t.replace('\n', "\r\n")); }
	if let Some(body) = t.strip_suffix('\n') {
		if !body.is_empty() && !body.ends_with('\n') && !body.ends_with('\r') { variant(r, "the final LF removed", body); }
		variant(r, "an empty last line added", &format!("{t}\n"));
		if !t.contains("\r\n") && !body.is_empty() && !body.ends_with('\n') && !body.ends_with('\r') { variant(r, "CR LF line ends and no final line end", &body.replace('\n', "\r\n")); }
	}
}

/// the lines of a text grouped by indentation (independent of the reader): None unless every line is at
/// most one level deeper than the line before it and the first line below the header is at level 0 or 1
#[derive(Clone, Debug)]
struct Sect { line: String, children: Vec<Sect> }
fn group(lines: &[&str], depth: usize, pos: &mut usize) -> Option<Vec<Sect>> {
	let mut out = vec![];
	while *pos < lines.len() {
		let d = lines[*pos].bytes().take_while(|&c| c == b'\t').count();
		if d < depth { break; }
		if d > depth { return None; }
		let line = lines[*pos].to_owned(); *pos += 1;
		let children = group(lines, depth + 1, pos)?;
		out.push(Sect { line, children });
	}
	Some(out)
}
fn shuffle_sects(rng: &mut Rng, v: &mut Vec<Sect>, changed: &mut bool) {
	if v.len() > 1 && rng.chance(3, 4) { let before: Vec<String> = v.iter().map(|s| s.line.clone()).collect(); rng.shuffle(&mut v[..]); if before != v.iter().map(|s| s.line.clone()).collect::<Vec<_>>() { *changed = true; } }
	for s in v.iter_mut() { shuffle_sects(rng, &mut s.children, changed); }
}
fn flatten_sects(v: &[Sect], out: &mut String) { for s in v { out.push_str(&s.line); out.push('\n'); flatten_sects(&s.children, out); } }

/// C03_read_sibling_order on the implementation alone: the same sections in another order at every
/// level are rejected as well, or read as the same content and written as the same text
fn sibling_orders(r: &mut Report, rng: &mut Rng, n: usize, t: &str, stream: &str, tries: usize) {
	let Some(body) = t.strip_suffix('\n') else { return; };
	if body.contains('\r') { return; } // a CR before the LF belongs to the line end, not to the line
	let lines: Vec<&str> = body.split('\n').collect();
	if lines.len() < 3 { return; }
	let mut pos = 1;
	let Some(hsub) = group(&lines, 1, &mut pos) else { return; };
	let Some(tops) = group(&lines, 0, &mut pos) else { return; };
	if pos != lines.len() { r.count(&format!("{stream}:not-indented")); return; }
	let base = impl_read(n, t);
	if matches!(base, Err(_)) { return; }
	for _ in 0..tries {
		let (mut h2, mut t2) = (hsub.clone(), tops.clone());
		let mut changed = false;
		shuffle_sects(rng, &mut h2, &mut changed); shuffle_sects(rng, &mut t2, &mut changed);
		if !changed { r.count(&format!("{stream}:same-order")); continue; }
		let mut text2 = format!("{}\n", lines[0]);
		flatten_sects(&h2, &mut text2); flatten_sects(&t2, &mut text2);
		crumb(&replay("the harness process died while reading this text", None, Some(&text2), &format!("namespaces: {n}\n")));
		let r2 = impl_read(n, &text2);
		r.case(stream, format!("CRead {n} {} {}", hstr(&cps_str(&text2)), g_rres(&r2)));
		r.eval(&text2, matches!(&r2, Ok(Some((m, _))) if m.size() > 0));
		let ok = match (&base, &r2) {
			(Ok(None), Ok(None)) => { r.count(&format!("{stream}:both-Err")); true }
			(Ok(Some((a, _))), Ok(Some((b, _)))) => {
				r.count(&format!("{stream}:both-Ok"));
				a.equiv(b) && matches!((impl_write(a), impl_write(b)), (Ok(WRes::Ok(x)), Ok(WRes::Ok(y))) if x == y)
			}
			_ => false,
		};
		if !ok {
			r.violation("reading depends on the order of sibling sections".into(), replay("the same sections in another order are read differently (merged, lost, re-parented, or accepted / rejected differently)", None, Some(t), &format!("namespaces: {n}\nreordered text:\n{}\nread of the text: {base:?}\nread of the reordered text: {r2:?}\n", show_text(&text2))));
		}
	}
}

pub fn run(ctx: &Ctx) -> anyhow::Result<Report> {
	let mut r = Report::new("C03", "C03.Run");
	let mut rng = Rng::new(ctx.seed);
	let mut tally = Tally { in_hyp: 0, out_hyp: 0 };
	let (n_valid, orders, n_viol, n_mut, n_raw) = if ctx.thorough { (2000, 24, 1200, 5000, 3000) } else { (330, 4, 240, 900, 500) };
	r.rule = format!("mapping sets with n in {{2,3,4}} namespaces from mapmodel::gen_mappings (0-6 classes, 0-4 fields and methods, 0-3 parameters, every 8th set up to 12/6/4; absent cells 1/3 or 3/4; $-nested, packaged, non-BMP names; parameter indices up to u64::MAX) with comments of 25 kinds (escapes, Unicode line/space separators, BOM, the first and last character of every UTF-8 length) plus random ones over {{backslash,n,t,r,LF,TAB,CR}} on every level including the mappings' own; each written, read back, re-written, and written again in {orders} other insertion orders (oracle: read(write M) = M up to order, equal text for every order, write(read(write M)) = write M). Streams outside the hypotheses: one damaged cell (TAB/LF/CR/invalid characters/surrogates/empty descriptor), trees whose infos lost their first name or duplicate another class. Reader: written texts with one of 24 line-level mutations, random token soup, wrong namespace count, hand-written header edge cases, and EVERY sequence of up to {} lines out of 16 line shapes (each tag at indentation 0..4) below a header; every text that reads is put through the round trip again. Round 4 streams: BYTES (written and mutated texts with one of 22 ill-formed UTF-8 sequences in the header / the deepest line / anywhere / at the end without LF, a separator inside a multi-byte character, one byte replaced, truncation, edge characters; compared with the byte-level model read_bytes; oracle: no panic, a file that is not UTF-8 is never accepted), LINE ENDINGS (CR LF line ends, final LF removed, empty last line added, each under the side condition of its theorem; oracle: the same result as the original text, Ok or Err), SIBLING ORDER (the lines grouped by indentation by the harness, sibling sections shuffled at every level; oracle: both rejected, or both read as the same content and written as the same text), lines longer than BufReader's 8 KiB buffer with a multi-byte character across the refill boundary. Non-trivial: at least one class and the round trip succeeded (texts: read Ok with at least one class); distinct by canonical mapping set / by text.", if ctx.thorough { 4 } else { 3 });

	// 0. fixed inputs: the repository's fixtures and the two repaired defects
	for (n, path) in [(2, "/repo/quill/tests/read_file_input_tiny_v2.txt"), (2, "/repo/quill/tests/remove_dummy_input.tiny"), (2, "/repo/quill/tests/remove_dummy_output.tiny"),
		(3, "/repo/quill/tests/reorder_input.tiny"), (3, "/repo/quill/tests/reorder_output.tiny"), (2, "/repo/quill/tests/merge_input_a.tiny"), (2, "/repo/quill/tests/merge_input_b.tiny"), (3, "/repo/quill/tests/merge_output.tiny"),
		(2, "/repo/quill/tests/extend_inner_class_names_input.tiny"), (2, "/repo/quill/tests/extend_inner_class_names_output.tiny"), (2, "/repo/quill/tests/remap_input.tiny")] {
		match std::fs::read_to_string(path) {
			Ok(t) => { for k in 1..=4 { through_text(&mut r, &mut rng, k, &t, "fixture", if k == n { "right-n" } else { "other-n" }, &mut tally); } }
			Err(_) => r.notes.push(format!("fixture {path} not found")),
		}
	}
	{
		let cls = |doc: Option<&str>| MClass { names: vec![Some(cps_str("A")), Some(cps_str("B"))], doc: doc.map(cps_str), fields: vec![], methods: vec![] };
		let ns = vec![cps_str("a"), cps_str("b")];
		// F1 (repaired by 1ac2bb2): backslash followed by n;  F2 (repaired by 29d9cf3): the mappings' own comment
		for d in ["a\\nb", "tab\there", "cr\r", "\\"] { through(&mut r, &mut rng, &MMappings { ns: ns.clone(), doc: None, classes: vec![cls(Some(d))] }, "regress", 1, &mut tally); }
		through(&mut r, &mut rng, &MMappings { ns: ns.clone(), doc: Some(cps_str("top")), classes: vec![cls(None)] }, "regress", 1, &mut tally);
		through(&mut r, &mut rng, &MMappings { ns: ns.clone(), doc: Some(cps_str("top\\nx\ty")), classes: vec![] }, "regress", 1, &mut tally);
		// a backslash before each escape letter, before another character and at the end, with no LF / CR / TAB anywhere
		// in the comment (a writer fast path for "nothing to escape" must still see the backslash), on all five levels
		for d in ["a\\nb", "a\\rb", "a\\tb", "a\\\\b", "a\\xb", "a\\", "\\n", "\\\\n", "\\\\\\"] {
			let doc = Some(cps_str(d));
			let m = MMappings { ns: ns.clone(), doc: doc.clone(), classes: vec![MClass { names: vec![Some(cps_str("A")), Some(cps_str("B"))], doc: doc.clone(),
				fields: vec![MField { desc: cps_str("I"), names: vec![Some(cps_str("f")), None], doc: doc.clone() }],
				methods: vec![MMeth { desc: cps_str("(I)V"), names: vec![Some(cps_str("m")), None], doc: doc.clone(), params: vec![MParam { index: 0, names: vec![None, None], doc: doc.clone() }] }] }] };
			through(&mut r, &mut rng, &m, "regress", 1, &mut tally);
		}
	}

	// 2b. round 5: EVERY cell position (namespace, class / field / method / parameter name in each column, both
	// descriptors) x every character that the line format cannot carry, at the start, in the middle and at the end:
	// judged by the oracle (refused, or read back as written) and compared with the model
	{
		let base = |n: usize| -> MMappings {
			let row = |a: &str, b: &str| -> NamesRow { let mut v = vec![Some(cps_str(a)), Some(cps_str(b))]; for k in 2..n { v.push(if k == 2 { None } else { Some(cps_str("z")) }); } v };
			MMappings { ns: (0..n).map(|k| cps_str(&format!("ns{k}"))).collect(), doc: None, classes: vec![MClass { names: row("pk/A", "pk/B"), doc: Some(cps_str("doc")),
				fields: vec![MField { desc: cps_str("Lpk/A;"), names: row("f", "g"), doc: None }],
				methods: vec![MMeth { desc: cps_str("(Lpk/A;)V"), names: row("m", "n"), doc: None, params: vec![MParam { index: 1, names: row("p", "q"), doc: Some(cps_str("pdoc")) }] }] }] }
		};
		let damages: [(&str, u32); 12] = [("tab", 9), ("lf", 10), ("cr", 13), ("high-surrogate", 0xD800), ("low-surrogate", 0xDFFF), ("low-surrogate-first", 0xDC00),
			("replacement-char", 0xFFFD), ("nul", 0), ("nel", 0x85), ("line-separator", 0x2028), ("backslash", 92), ("vt", 11)];
		for n in [2usize, 3] {
			let count = cells_mut(&mut base(n)).len();
			for k in 0..count { for (dn, dc) in damages { for pos in 0..3 {
				let mut m = base(n);
				let kind = { let mut cells = cells_mut(&mut m); let (kind, s) = &mut cells[k]; let at = match pos { 0 => 0, 1 => s.len() / 2, _ => s.len() }; s.insert(at, dc); *kind };
				if kind == "ns" && !is_scalar(dc) { continue; } // namespaces are Rust `String`s
				r.count(&format!("cell-matrix:{kind}:{dn}"));
				through(&mut r, &mut rng, &m, "cell-matrix", 0, &mut tally);
			} } }
		}
		// pairs that differ only in one unpaired surrogate vs U+FFFD / another surrogate, in a name and in a descriptor
		for (a, b) in [(0xD800u32, 0xFFFDu32), (0xD800, 0xDFFF), (0xDC00, 0xFFFD)] {
			for k in 0..cells_mut(&mut base(2)).len() {
				let (mut m1, mut m2) = (base(2), base(2));
				if cells_mut(&mut base(2))[k].0 == "ns" { continue; }
				{ let mut c = cells_mut(&mut m1); let l = c[k].1.len(); c[k].1.insert(l, a); }
				{ let mut c = cells_mut(&mut m2); let l = c[k].1.len(); c[k].1.insert(l, b); }
				if let (Ok(WRes::Ok(t1)), Ok(WRes::Ok(t2))) = (impl_write(&m1), impl_write(&m2)) {
					if t1 == t2 { r.violation("two different mapping sets are written as the same text".into(), replay("write(M) = write(M') although M and M' differ in one character of one name / descriptor", Some(&m1), Some(&t1), &format!("the other set: {m2:?}\n"))); }
				}
				r.count("cell-matrix:near-equal-pairs");
			}
		}
	}

	// 2c. round 5: the same damage in LARGE sets (64, 65, 130 classes; the damaged cell in the first, a middle and the last
	// class in insertion order) - a check that is skipped or cut short beyond some size must not go unnoticed
	for (count, at) in [(64usize, 0usize), (64, 63), (65, 64), (65, 31), (130, 129), (130, 0)] {
		for (dn, dc) in [("tab", 9u32), ("lf", 10), ("cr-end", 13), ("surrogate", 0xD800)] {
			let mut m = MMappings { ns: vec![cps_str("a"), cps_str("b")], doc: None, classes: vec![] };
			for c in 0..count {
				m.classes.push(MClass { names: vec![Some(cps_str(&format!("p/C{c}"))), Some(cps_str(&format!("q/D{c}")))], doc: None,
					fields: vec![MField { desc: cps_str("I"), names: vec![Some(cps_str("f")), None], doc: None }],
					methods: vec![MMeth { desc: cps_str("()V"), names: vec![Some(cps_str("m")), Some(cps_str("n"))], doc: None, params: vec![MParam { index: 0, names: vec![None, Some(cps_str("p"))], doc: None }] }] });
			}
			let which = (count + at) % 4;
			{ let c = &mut m.classes[at]; let s: &mut S = match which { 0 => c.names[1].as_mut().unwrap(), 1 => &mut c.fields[0].desc, 2 => c.methods[0].names[1].as_mut().unwrap(), _ => c.methods[0].params[0].names[1].as_mut().unwrap() }; s.push(dc); }
			r.count(&format!("large-damaged:{count}:{dn}"));
			through(&mut r, &mut rng, &m, "large-damaged", 0, &mut tally);
		}
	}
	// 1. inside the hypotheses
	let mut texts: Vec<(usize, String)> = vec![];
	for i in 0..n_valid {
		let n = 2 + i % 3;
		let m = gen_valid(&mut rng, n, i % 8 == 7);
		through(&mut r, &mut rng, &m, "valid", orders, &mut tally);
		for c in &m.classes {
			for row in std::iter::once(&c.names).chain(c.fields.iter().map(|f| &f.names)).chain(c.methods.iter().map(|f| &f.names)) {
				r.count_n("valid:absent-cells", row.iter().filter(|o| o.is_none()).count() as u64);
				r.count_n("valid:present-cells", row.iter().filter(|o| o.is_some()).count() as u64);
			}
		}
		if let Ok(WRes::Ok(t)) = impl_write(&m) { if texts.len() < 400 { texts.push((n, t)); } }
	}

	// 2. outside the hypotheses, one stream per hypothesis
	for i in 0..n_viol {
		let n = 2 + i % 3;
		let mut m = gen_valid(&mut rng, n, false);
		if m.classes.is_empty() { continue; }
		if i % 4 != 3 {
			if let Some(kind) = violate_cell(&mut rng, &mut m) { r.count(&format!("violate-cell:{kind}")); through(&mut r, &mut rng, &m, "violate-cell", 0, &mut tally); }
		} else {
			let (kind, ci, cj) = (rng.below(3), rng.below(m.classes.len()), rng.below(m.classes.len()));
			if let Ok((seen, w, rr)) = with_n!(n, damaged_n, &m, kind, ci, cj) {
				r.count(&format!("violate-wf:{}:read={}", ["no-first-class-name", "duplicate-class-info", "no-first-member-name"][kind], match &rr { Ok(Some(_)) => "Ok", _ => "Err" }));
				r.case("violate-wf", format!("CWriteRead {} {} {} {} {}", h_mappings(&seen), gbool(wf(&seen) && textual(&seen)), gbool(wf(&seen) && typed(&seen)), g_wres(&w), g_rres(&rr)));
				r.eval(&g_mappings(&seen), false);
			}
		}
	}

	// 3. the reader on damaged texts
	for i in 0..n_mut {
		let (n, t) = &texts[rng.below(texts.len())];
		let (mut t2, kind) = mutate_text(&mut rng, t, *n);
		if i % 5 == 4 { let (t3, _) = mutate_text(&mut rng, &t2, *n); t2 = t3; }
		let n_read = if rng.chance(1, 25) { rng.range(1, 5) } else { *n };
		through_text(&mut r, &mut rng, n_read, &t2, "mutated", if n_read == *n { kind } else { "other-n" }, &mut tally);
	}
	for _ in 0..n_raw {
		let t = raw_text(&mut rng);
		through_text(&mut r, &mut rng, 2, &t, "raw", "soup", &mut tally);
	}
	// 3b. round 4: bytes (files that are not UTF-8, characters at the edges of the encoded lengths), line endings, sibling order
	let (n_bytes, n_le, n_sib) = if ctx.thorough { (3000, 1200, 2500) } else { (500, 160, 330) };
	for i in 0..n_bytes {
		let (n, t) = &texts[rng.below(texts.len())];
		let base: String = if i % 3 == 2 { mutate_text(&mut rng, t, *n).0 } else { t.clone() };
		let (b, kind) = mutate_bytes(&mut rng, &base);
		through_bytes(&mut r, *n, &b, kind);
	}
	for b in BAD_UTF8 { let mut v = b"tiny\t2\t0\ta\tb\nc\tA\tB\n\tc\t".to_vec(); v.extend_from_slice(b); v.push(b'\n'); through_bytes(&mut r, 2, &v, "bad-sequence-in-comment"); through_bytes(&mut r, 2, b, "bad-sequence-alone"); }
	for c in EDGE_CHARS { let t = format!("tiny\t2\t0\ta{c}\tb\nc\tA{c}\t{c}B\n\tc\t{c}\\{c}\n\tm\t(L{c};)V\tm{c}\t\n\t\tp\t0\t\t{c}\n"); through_bytes(&mut r, 2, t.as_bytes(), "edge-char-everywhere"); }
	for i in 0..n_le {
		let (n, t) = &texts[rng.below(texts.len())];
		if i % 4 == 3 { let (t2, _) = mutate_text(&mut rng, t, *n); line_endings(&mut r, *n, &t2, "line-endings-mutated"); } else { line_endings(&mut r, *n, t, "line-endings"); }
	}
	for i in 0..n_sib {
		let (n, t) = &texts[rng.below(texts.len())];
		if i % 3 == 2 { let (t2, _) = mutate_text(&mut rng, t, *n); sibling_orders(&mut r, &mut rng, *n, &t2, "sibling-order-mutated", 1); } else { sibling_orders(&mut r, &mut rng, *n, t, "sibling-order", 1); }
	}
	for path in ["/quill/tests/read_file_input_tiny_v2.txt", "/quill/tests/remove_dummy_input.tiny", "/quill/tests/merge_input_a.tiny", "/quill/tests/remap_input.tiny"] {
		let repo = std::env::var("VERIF_REPO").unwrap_or_else(|_| "/repo".into());
		if let Ok(t) = std::fs::read_to_string(format!("{repo}{path}")) { line_endings(&mut r, 2, &t, "line-endings"); sibling_orders(&mut r, &mut rng, 2, &t, "sibling-order", 6); }
	}
	// 4. the nested iterator, exhaustively: every sequence of up to `depth` lines out of 16 line
	// shapes (every tag at every indentation 0..4, duplicates, comments, empty line) below a header
	{
		let shapes: [&str; 16] = ["c\tA\tB", "c\tA\tC", "c\tD\t", "\tf\tI\tx\ty", "\tm\t()V\tx\ty", "\t\tp\t0\t\tq", "\tc\tdoc", "\t\tc\tdoc", "\t\t\tc\tdoc",
			"x", "\tx\ty", "\t\tx", "\t\t\tx", "\t\t\t\tc\tdeep", "", "\tp\t1\t\tq"];
		let depth = if ctx.thorough { 4 } else { 3 };
		let mut idx: Vec<usize> = vec![];
		loop {
			let mut t = String::from("tiny\t2\t0\ta\tb\n");
			for &i in &idx { t.push_str(shapes[i]); t.push('\n'); }
			let rr = impl_read(2, &t);
			r.case("enum", format!("CRead 2 {} {}", hstr(&cps_str(&t)), g_rres(&rr)));
			match &rr {
				Err(p) => r.violation(format!("read panicked: {p}"), replay("read panicked", None, Some(&t), "")),
				Ok(None) => r.count("enum=Err"),
				Ok(Some((m2, _))) => {
					r.count("enum=Ok");
					if !wf(m2) { r.violation("read returned a mapping set that is not well-formed".into(), replay("read result not well-formed", Some(m2), Some(&t), "")); }
					match ref_rows(&t) {
						Some(want) if &want == m2 => r.count("rows-reference-agrees"),
						other => r.violation("read merged, lost, changed or re-parented a row (differs from the one-pass row classifier)".into(), replay("read result differs from the rows of the text", Some(m2), Some(&t), &format!("rows of the text: {other:?}\n"))),
					}
				}
			}
			r.eval_distinct(matches!(&rr, Ok(Some((m2, _))) if m2.size() > 0));
			// next sequence (shorter ones first within the odometer order)
			let mut p = idx.len();
			loop {
				if p == 0 { idx = vec![0; idx.len() + 1]; break; }
				p -= 1;
				idx[p] += 1;
				if idx[p] < shapes.len() { break; }
				idx[p] = 0;
			}
			if idx.len() > depth { break; }
		}
	}
	// 5. hand-written edge cases of the header and its sub-section
	for (n, t) in [(2usize, ""), (2, "\n"), (2, "tiny\t2\t0\ta\tb"), (2, "tiny\t2\t0\ta\tb\n"), (1, "tiny\t2\t0\ta\n"), (2, "tiny\t2\t0\ta\t\n"), (2, "tiny\t2\t0\ta\tb\r\n"), (2, "tiny\t2\t0\ta\tb\r"),
		(2, "tiny\t2\t0\ta\tb\n\tc\ttop\n"), (2, "tiny\t2\t0\ta\tb\n\tc\ttop\n\tc\tagain\n"), (2, "tiny\t2\t0\ta\tb\n\tprop\tvalue\n\tc\ttop\n\tother\nc\tA\tB\n"),
		(2, "tiny\t2\t0\ta\tb\n\tc\ttop\n\t\tx\n"), (2, "tiny\t2\t0\ta\tb\n\t\tc\ttop\n"), (2, "tiny\t2\t0\ta\tb\nc\tA\tB\n\tc\tclass doc\n"), (2, "tiny\t2\t0\ta\tb\n\tc\n"), (2, "tiny\t2\t0\ta\tb\n\tc\ta\tb\n"),
		(2, "\t\ttiny\t2\t0\ta\tb\n\tc\tx\\ny\\\\z\\q\\\n"), (3, "tiny\t2\t0\ta\tb\tc\nc\t\tB\tC\n"), (3, "tiny\t2\t0\ta\tb\tc\nc\tA\t\t\n\tm\t\tx\t\t\n\t\tp\t007\t\t\t\n"),
		(2, "tiny\t2\t0\ta\tb\nc\tA\tB\nc\tA\tB\n"), (2, "tiny\t2\t0\ta\ta\nc\tA\tA\n\tf\tI\tx\tx\n\tf\tJ\tx\tx\n\tm\tI\tx\tx\n"), (2, "tiny\t2\t1\ta\tb\n"), (2, "tiny\t2\n"), (2, "tiny\n"), (2, "Tiny\t2\t0\ta\tb\n")] {
		through_text(&mut r, &mut rng, n, t, "edge", "hand", &mut tally);
	}
	for (n, t) in [(2usize, "\u{feff}tiny\t2\t0\ta\tb\nc\tA\tB\n"), (2, "tiny\t2\t0\ta\tb\nc\tA\u{85}\tB\u{2028}\n\tf\tI\tx\u{b}\ty\u{c}\n\t\tc\tone\u{85}line\u{2028}still\n"),
		(2, "tiny\t2\t0\ta\tb\u{b}\nc\tA\tB\n"), (2, "tiny\t2\t0\ta\tb\n\u{b}c\tA\tB\n"), (2, "tiny\t2\t0\ta\tb\n \tc\tA\tB\n"), (2, "tiny\t2\t0\ta\tb\nc\tA\tB\n\u{a0}\tf\tI\tx\ty\n")] {
		through_text(&mut r, &mut rng, n, t, "edge", "unicode-space", &mut tally);
	}
	{
		// lines longer than BufReader's 8 KiB buffer, a multi-byte character across every refill boundary
		for pad in 0..4usize {
			let long_doc: String = "x".repeat(pad) + &"ü€\u{1F600}".repeat(2300);
			let long_name: String = "N".repeat(8190 + pad) + "é";
			let m = MMappings { ns: vec![cps_str("a"), cps_str("b")], doc: Some(cps_str(&long_doc)), classes: vec![MClass { names: vec![Some(cps_str(&long_name)), None], doc: Some(cps_str(&long_doc)), fields: vec![], methods: vec![] }] };
			through(&mut r, &mut rng, &m, "long-lines", 0, &mut tally);
			let t = format!("tiny\t2\t0\ta\tb\n\tc\t{long_doc}\nc\t{long_name}\t\n\tc\t{long_doc}\n");
			line_endings(&mut r, 2, &t, "long-lines");
			let mut b = t.clone().into_bytes(); let k = 8192 - 1 + pad; if k < b.len() { b[k] = 0xC3; } through_bytes(&mut r, 2, &b, "long-line-damaged");
		}
	}
	r.count_n("inside-hypotheses", tally.in_hyp);
	r.count_n("outside-hypotheses", tally.out_hyp);
	// a multiple of 16 shards of equal weight (coqc spends its time reading the case terms): deal the cases,
	// longest first, round-robin into the buckets
	let mut cs = std::mem::take(&mut r.cases);
	cs.sort_by_key(|c| std::cmp::Reverse(c.len()));
	let total: usize = cs.iter().map(|c| c.len()).sum();
	let k = 16 * (1 + total / (16 * 2_000_000)); // at most about 2 MB (about 0.5 GB of coqc memory) per shard
	let mut buckets: Vec<Vec<String>> = vec![vec![]; k];
	for (i, c) in cs.into_iter().enumerate() { buckets[i % k].push(c); }
	r.shard_size = buckets[0].len().max(1);
	r.cases = buckets.concat();
	Ok(r)
}

fn main() -> anyhow::Result<()> { fbh::main_with(run) }
