//! The parsed VALUES a visitor is handed, flattened into numbers the way coq/C17/Values.v (`canon_annotations`,
//! `canon_value`) flattens the model's parse of the attribute body: a string as the checksum of its modified-UTF-8
//! bytes, a numeric constant as the bits of the (narrowed) value, a list preceded by its length, an element value
//! preceded by its tag.  Built from duke's public tree types (`Annotation`, `ElementValue`, `Object`), i.e. from what
//! the visitor really received — when reading the bytes and when a tree is replayed.
use duke::tree::annotation::{Annotation, ElementValue, Object};
use duke::tree::class::{ClassName, EnclosingMethod, InnerClass};
use duke::tree::method::MethodParameter;
use duke::tree::method::code::{Label, LabelRange};
use duke::tree::field::ConstantValue;
use duke::tree::module::{Module, PackageName};
use duke::tree::type_annotation::{TargetInfoClass, TargetInfoCode, TargetInfoField, TargetInfoMethod, TypeAnnotation, TypePath};
use java_string::JavaStr;
use crate::rec::{cksum, dbg_fields, dbg_list, Pos};

pub fn ck(s: &JavaStr) -> u64 { cksum(&s.to_modified_utf8()) }

pub fn canon_value(v: &ElementValue, out: &mut Vec<u64>) {
	match v {
		ElementValue::Object(o) => match o {
			Object::Byte(x) => out.extend([b'B' as u64, *x as u8 as u64]),
			Object::Char(x) => out.extend([b'C' as u64, *x as u64]),
			Object::Double(x) => out.extend([b'D' as u64, x.to_bits()]),
			Object::Float(x) => out.extend([b'F' as u64, x.to_bits() as u64]),
			Object::Integer(x) => out.extend([b'I' as u64, *x as u32 as u64]),
			Object::Long(x) => out.extend([b'J' as u64, *x as u64]),
			Object::Short(x) => out.extend([b'S' as u64, *x as u16 as u64]),
			Object::Boolean(x) => out.extend([b'Z' as u64, *x as u64]),
			Object::String(x) => out.extend([b's' as u64, ck(x)]),
		},
		ElementValue::Enum { type_name, const_name } => out.extend([b'e' as u64, ck(type_name.as_inner()), ck(const_name)]),
		ElementValue::Class(c) => out.extend([b'c' as u64, ck(c.as_inner())]),
		ElementValue::AnnotationInterface(a) => { out.push(b'@' as u64); canon_annotation(a, out); }
		ElementValue::ArrayType(vs) => { out.extend([b'[' as u64, vs.len() as u64]); for v in vs { canon_value(v, out); } }
	}
}

pub fn canon_annotation(a: &Annotation, out: &mut Vec<u64>) {
	out.extend([ck(a.annotation_type.as_inner()), a.element_value_pairs.len() as u64]);
	for p in &a.element_value_pairs { out.push(ck(&p.name)); canon_value(&p.value, out); }
}

pub fn canon_annotations(l: &[Annotation]) -> Vec<u64> {
	let mut out = vec![l.len() as u64];
	for a in l { canon_annotation(a, &mut out); }
	out
}

pub fn canon_element(v: &ElementValue) -> Vec<u64> { let mut out = vec![]; canon_value(v, &mut out); out }

// ---------------------------------------------------------------- rows of pool indices (coq/C17/Values.v: canon_layout)
fn opt(x: Option<&JavaStr>, out: &mut Vec<u64>) { match x { Some(s) => out.extend([1, ck(s)]), None => out.push(0) } }

pub fn canon_inner_classes(l: &[InnerClass]) -> Vec<u64> {
	let mut out = vec![l.len() as u64];
	for c in l {
		out.push(ck(c.inner_class.as_inner()));
		opt(c.outer_class.as_ref().map(|x| x.as_inner()), &mut out);
		opt(c.inner_name.as_deref(), &mut out);
		out.push(u16::from(c.flags) as u64);
	}
	out
}
pub fn canon_enclosing_method(e: &EnclosingMethod) -> Vec<u64> {
	let mut out = vec![ck(e.class.as_inner())];
	match &e.method { Some(m) => out.extend([1, ck(m.name.as_inner()), ck(m.desc.as_inner())]), None => out.push(0) }
	out
}
pub fn canon_class(c: &ClassName) -> Vec<u64> { vec![ck(c.as_inner())] }
pub fn canon_classes(l: &[ClassName]) -> Vec<u64> { std::iter::once(l.len() as u64).chain(l.iter().map(|c| ck(c.as_inner()))).collect() }
pub fn canon_packages(l: &[PackageName]) -> Vec<u64> { std::iter::once(l.len() as u64).chain(l.iter().map(|c| ck(c.as_inner()))).collect() }
pub fn canon_parameters(l: &[MethodParameter]) -> Vec<u64> {
	let mut out = vec![l.len() as u64];
	for p in l { opt(p.name.as_ref().map(|x| x.as_inner()), &mut out); out.push(u16::from(p.flags) as u64); }
	out
}

// ---------------------------------------------------------------- ConstantValue and Module (coq/C17/Values2.v: canon_constant, canon_module)
/// the tag of the pool entry kind that the variant stands for (JVMS table 4.4-A, written here independently of duke's
/// constants), then the bits of the number / the checksum of the string
pub fn canon_constant(c: &ConstantValue) -> Vec<u64> {
	match c {
		ConstantValue::Integer(x) => vec![3, *x as u32 as u64],
		ConstantValue::Float(x) => vec![4, x.to_bits() as u64],
		ConstantValue::Long(x) => vec![5, *x as u64],
		ConstantValue::Double(x) => vec![6, x.to_bits()],
		ConstantValue::String(x) => vec![8, ck(x)],
	}
}

/// checksum of the one string literal inside a debug text (`ModuleName("a.b")`, `Some("1")`); None if the literal needed an
/// escape or is not ASCII (then its bytes cannot be recovered from the debug text with certainty)
fn dbg_ck(s: &str) -> Option<u64> {
	let a = s.find('"')?;
	let b = s.rfind('"')?;
	if b <= a { return None; }
	let inner = &s[a + 1..b];
	if inner.contains('\\') || inner.contains('"') || !inner.bytes().all(|c| (0x20..0x7f).contains(&c)) { return None; }
	Some(cksum(inner.as_bytes()))
}
fn dbg_opt(s: &str, out: &mut Vec<u64>) -> Option<()> {
	if s.trim() == "None" { out.push(0); } else { out.extend([1, dbg_ck(s)?]); }
	Some(())
}
fn dbg_flags(s: &str) -> u64 {
	let words = s.split(|c: char| c == '{' || c == '}' || c.is_whitespace());
	words.map(|w| match w { "transitive" => 0x20, "static-phase" => 0x40, "synthetic" => 0x1000, "mandated" => 0x8000, _ => 0 }).sum()
}
/// The rows of requires / exports / opens have crate-private fields: they are read off their debug text.  Empty = a string
/// of such a row cannot be recovered from the debug text (the value is then not compared).
pub fn canon_module(m: &Module) -> Vec<u64> {
	fn rows(m: &Module) -> Option<Vec<u64>> {
		let mut out = vec![ck(m.name.as_inner()), u16::from(m.flags) as u64];
		opt(m.version.as_deref(), &mut out);
		let get = |fs: &[(String, String)], k: &str| fs.iter().find(|(n, _)| n == k).map(|(_, v)| v.clone());
		out.push(m.requires.len() as u64);
		for r in &m.requires {
			let fs = dbg_fields(&format!("{r:?}"));
			out.push(dbg_ck(&get(&fs, "name")?)?);
			out.push(dbg_flags(&get(&fs, "flags")?));
			dbg_opt(&get(&fs, "version")?, &mut out)?;
		}
		for (texts, to) in [(m.exports.iter().map(|e| format!("{e:?}")).collect::<Vec<_>>(), "exports_to"), (m.opens.iter().map(|e| format!("{e:?}")).collect::<Vec<_>>(), "opens_to")] {
			out.push(texts.len() as u64);
			for t in &texts {
				let fs = dbg_fields(t);
				out.push(dbg_ck(&get(&fs, "name")?)?);
				out.push(dbg_flags(&get(&fs, "flags")?));
				let l = dbg_list(&get(&fs, to)?);
				out.push(l.len() as u64);
				for x in &l { out.push(dbg_ck(x)?); }
			}
		}
		out.push(m.uses.len() as u64);
		for c in &m.uses { out.push(ck(c.as_inner())); }
		out.push(m.provides.len() as u64);
		for p in &m.provides {
			out.push(ck(p.name.as_inner()));
			out.push(p.provides_with.len() as u64);
			for c in &p.provides_with { out.push(ck(c.as_inner())); }
		}
		Some(out)
	}
	rows(m).unwrap_or_default()
}

// ---------------------------------------------------------------- type annotations (coq/C17/Values.v: canon_type_annotations)
// target_type and the fields of target_info as the JVMS lays them out (table 4.7.20-A/B, written here independently of
// duke's class_constants.rs), from the TargetInfo* VARIANT the visitor was handed; then the type path; then the annotation.

/// `TypePath { path: [ArrayDeeper, TypeArgument { index: 2 }] }`: its one field is crate-private, so it is read off `{:?}`
pub fn canon_type_path(tp: &TypePath, out: &mut Vec<u64>) {
	let dbg = format!("{tp:?}");
	let items = dbg_fields(&dbg).into_iter().find(|(n, _)| n == "path").map(|(_, v)| dbg_list(&v)).unwrap_or_default();
	out.push(items.len() as u64);
	for it in items {
		let (k, i) = match it.as_str() {
			"ArrayDeeper" => (0, 0), "NestedDeeper" => (1, 0), "WildcardBound" => (2, 0),
			t if t.starts_with("TypeArgument") => (3, dbg_fields(t).into_iter().find(|(n, _)| n == "index").and_then(|(_, v)| v.trim().parse::<u64>().ok()).unwrap_or(u64::MAX)),
			_ => (u64::MAX, 0),
		};
		out.extend([k, i]);
	}
}

pub trait TargetNums { fn nums(&self, out: &mut Vec<u64>); }
impl TargetNums for TargetInfoClass {
	fn nums(&self, out: &mut Vec<u64>) {
		match self {
			TargetInfoClass::ClassTypeParameter { index } => out.extend([0x00, *index as u64]),
			TargetInfoClass::Extends => out.extend([0x10, 65535]),
			TargetInfoClass::Implements { index } => out.extend([0x10, *index as u64]),
			TargetInfoClass::ClassTypeParameterBound { type_parameter_index, bound_index } => out.extend([0x11, *type_parameter_index as u64, *bound_index as u64]),
		}
	}
}
impl TargetNums for TargetInfoField {
	fn nums(&self, out: &mut Vec<u64>) { match self { TargetInfoField::Field => out.push(0x13) } }
}
impl TargetNums for TargetInfoMethod {
	fn nums(&self, out: &mut Vec<u64>) {
		match self {
			TargetInfoMethod::MethodTypeParameter { index } => out.extend([0x01, *index as u64]),
			TargetInfoMethod::MethodTypeParameterBound { type_parameter_index, bound_index } => out.extend([0x12, *type_parameter_index as u64, *bound_index as u64]),
			TargetInfoMethod::Return => out.push(0x14),
			TargetInfoMethod::Receiver => out.push(0x15),
			TargetInfoMethod::FormalParameter { index } => out.extend([0x16, *index as u64]),
			TargetInfoMethod::Throws { index } => out.extend([0x17, *index as u64]),
		}
	}
}
pub fn canon_type_annotations<T: TargetNums>(l: &[TypeAnnotation<T>]) -> Vec<u64> {
	let mut out = vec![l.len() as u64];
	for a in l { a.type_reference.nums(&mut out); canon_type_path(&a.type_path, &mut out); canon_annotation(&a.annotation, &mut out); }
	out
}

/// a number of a value that may depend on where a label sits: resolved to bytecode offsets when the case is printed
#[derive(Clone, Debug, PartialEq)]
pub enum ValN { N(u64), At(Pos), Len(Pos, Pos) }

/// inside Code the target info speaks of labels: a label as the bytecode offset it stands for, a range as start_pc and length
pub fn canon_code_type_annotations(l: &[TypeAnnotation<TargetInfoCode>], at: &dyn Fn(&Label) -> Pos, range: &dyn Fn(&LabelRange) -> (Pos, Pos)) -> Vec<ValN> {
	let mut out = vec![ValN::N(l.len() as u64)];
	for a in l {
		let n = |x: u64| ValN::N(x);
		match &a.type_reference {
			TargetInfoCode::LocalVariable { table } | TargetInfoCode::ResourceVariable { table } => {
				out.push(n(if matches!(a.type_reference, TargetInfoCode::LocalVariable { .. }) { 0x40 } else { 0x41 }));
				out.push(n(table.len() as u64));
				for (r, idx) in table { let (s, e) = range(r); out.extend([ValN::At(s), ValN::Len(s, e), n(idx.index as u64)]); }
			}
			TargetInfoCode::ExceptionParameter { index } => out.extend([n(0x42), n(*index as u64)]),
			TargetInfoCode::InstanceOf(l) => out.extend([n(0x43), ValN::At(at(l))]),
			TargetInfoCode::New(l) => out.extend([n(0x44), ValN::At(at(l))]),
			TargetInfoCode::ConstructorReference(l) => out.extend([n(0x45), ValN::At(at(l))]),
			TargetInfoCode::MethodReference(l) => out.extend([n(0x46), ValN::At(at(l))]),
			TargetInfoCode::Cast { label, index } => out.extend([n(0x47), ValN::At(at(label)), n(*index as u64)]),
			TargetInfoCode::ConstructorInvocationTypeArgument { label, index } => out.extend([n(0x48), ValN::At(at(label)), n(*index as u64)]),
			TargetInfoCode::MethodInvocationTypeArgument { label, index } => out.extend([n(0x49), ValN::At(at(label)), n(*index as u64)]),
			TargetInfoCode::ConstructorReferenceTypeArgument { label, index } => out.extend([n(0x4a), ValN::At(at(label)), n(*index as u64)]),
			TargetInfoCode::MethodReferenceTypeArgument { label, index } => out.extend([n(0x4b), ValN::At(at(label)), n(*index as u64)]),
		}
		let mut rest = vec![];
		canon_type_path(&a.type_path, &mut rest); canon_annotation(&a.annotation, &mut rest);
		out.extend(rest.into_iter().map(ValN::N));
	}
	out
}
