//! The parsed VALUES a visitor is handed, flattened into numbers the way coq/C17/Values.v (`canon_annotations`,
//! `canon_value`) flattens the model's parse of the attribute body: a string as the checksum of its modified-UTF-8
//! bytes, a numeric constant as the bits of the (narrowed) value, a list preceded by its length, an element value
//! preceded by its tag.  Built from duke's public tree types (`Annotation`, `ElementValue`, `Object`), i.e. from what
//! the visitor really received — when reading the bytes and when a tree is replayed.
use duke::tree::annotation::{Annotation, ElementValue, Object};
use duke::tree::class::{ClassName, EnclosingMethod, InnerClass};
use duke::tree::method::MethodParameter;
use duke::tree::module::PackageName;
use java_string::JavaStr;
use crate::rec::cksum;

pub fn ck(s: &JavaStr) -> u64 { cksum(&s.to_modified_utf8()) }

pub fn canon_value(v: &ElementValue, out: &mut Vec<u64>) {
	match v {
		ElementValue::Object(o) => match o {
			Object::Byte(x) => out.extend([b'B' as u64, *x as u8 as u64]),
			Object::Char(x) => out.extend([b'C' as u64, *x as u64]),
			Object::Double(x) => out.extend([b'D' as u64, x.to_bits()]),
			Object::Float(x) => out.extend([b'F' as u64, x.to_bits() as u64]),
			Object::Integer(x) => out.extend([b'I' as u64, *x as u32 as u64]),
			Object::Long(x) => out.extend([b'J' as u64, *x as u64]),
			Object::Short(x) => out.extend([b'S' as u64, *x as u16 as u64]),
			Object::Boolean(x) => out.extend([b'Z' as u64, *x as u64]),
			Object::String(x) => out.extend([b's' as u64, ck(x)]),
		},
		ElementValue::Enum { type_name, const_name } => out.extend([b'e' as u64, ck(type_name.as_inner()), ck(const_name)]),
		ElementValue::Class(c) => out.extend([b'c' as u64, ck(c.as_inner())]),
		ElementValue::AnnotationInterface(a) => { out.push(b'@' as u64); canon_annotation(a, out); }
		ElementValue::ArrayType(vs) => { out.extend([b'[' as u64, vs.len() as u64]); for v in vs { canon_value(v, out); } }
	}
}

pub fn canon_annotation(a: &Annotation, out: &mut Vec<u64>) {
	out.extend([ck(a.annotation_type.as_inner()), a.element_value_pairs.len() as u64]);
	for p in &a.element_value_pairs { out.push(ck(&p.name)); canon_value(&p.value, out); }
}

pub fn canon_annotations(l: &[Annotation]) -> Vec<u64> {
	let mut out = vec![l.len() as u64];
	for a in l { canon_annotation(a, &mut out); }
	out
}

pub fn canon_element(v: &ElementValue) -> Vec<u64> { let mut out = vec![]; canon_value(v, &mut out); out }

// ---------------------------------------------------------------- rows of pool indices (coq/C17/Values.v: canon_layout)
fn opt(x: Option<&JavaStr>, out: &mut Vec<u64>) { match x { Some(s) => out.extend([1, ck(s)]), None => out.push(0) } }

pub fn canon_inner_classes(l: &[InnerClass]) -> Vec<u64> {
	let mut out = vec![l.len() as u64];
	for c in l {
		out.push(ck(c.inner_class.as_inner()));
		opt(c.outer_class.as_ref().map(|x| x.as_inner()), &mut out);
		opt(c.inner_name.as_deref(), &mut out);
		out.push(u16::from(c.flags) as u64);
	}
	out
}
pub fn canon_enclosing_method(e: &EnclosingMethod) -> Vec<u64> {
	let mut out = vec![ck(e.class.as_inner())];
	match &e.method { Some(m) => out.extend([1, ck(m.name.as_inner()), ck(m.desc.as_inner())]), None => out.push(0) }
	out
}
pub fn canon_class(c: &ClassName) -> Vec<u64> { vec![ck(c.as_inner())] }
pub fn canon_classes(l: &[ClassName]) -> Vec<u64> { std::iter::once(l.len() as u64).chain(l.iter().map(|c| ck(c.as_inner()))).collect() }
pub fn canon_packages(l: &[PackageName]) -> Vec<u64> { std::iter::once(l.len() as u64).chain(l.iter().map(|c| ck(c.as_inner()))).collect() }
pub fn canon_parameters(l: &[MethodParameter]) -> Vec<u64> {
	let mut out = vec![l.len() as u64];
	for p in l { opt(p.name.as_ref().map(|x| x.as_inner()), &mut out); out.push(u16::from(p.flags) as u64); }
	out
}
