//! C17 — partial and replaying visitors observe the same facts as a full read.
//!
//! For every stream (1..4 class files concatenated) and every visitor configuration (interest masks
//! at class / method / code level, accept/decline per class, field, method, record component and
//! code) the real `duke::read_class_multi` is run with recording visitors.  Oracle on the
//! implementation alone: what a partial visitor receives is the projection of what the full read
//! reports (same order, same contents), each read ends exactly at the end of its class file, and
//! replaying the tree (`ClassFile::accept`) reproduces the tree and delivers the same events.
//! Correspondence: the same bytes + configuration through the Coq model (tables generated from
//! class_reader.rs) must give the same event trace and stream positions.
mod rec;
mod edge;
mod stream;
mod values;

use std::io::{Cursor, Read, Seek};
use std::panic::AssertUnwindSafe;
use std::path::{Path, PathBuf};
use duke::tree::class::ClassFile;
use fbh::gal::*;
use fbh::prng::Rng;
use fbh::report::{crumb, guarded, Report};
use fbh::Ctx;
use rec::*;

// ---------------------------------------------------------------- running the implementation
/// result of one `read_class_multi` call: trace (None = class declined) and stream position afterwards
type ReadAns = Result<(Option<Vec<Ev>>, u64), String>;

thread_local! {
	/// what visit_class was called with (version, access, name, super class, interfaces), one entry per read of the last runs
	static HEADERS: std::cell::RefCell<Vec<String>> = const { std::cell::RefCell::new(Vec::new()) };
}
fn take_headers() -> Vec<String> { HEADERS.with(|h| std::mem::take(&mut *h.borrow_mut())) }
/// the class header handed to visit_class does not depend on the visitor (it is the same for a declining, a partial and the full visitor)
fn check_headers(r: &mut Report, tag: &str, got: &[String], full: &[String], head: &dyn Fn(&str) -> String, cfg_text: &str) {
	for (i, (g, f)) in got.iter().zip(full).enumerate() {
		if g != f {
			let what = format!("[{tag}] read {i}: visit_class was called with {g} but the full read of the same class reports {f}");
			r.violation(what.clone(), format!("{}what: {what}\n", head(cfg_text)));
			return;
		}
	}
}

/// successive `read_class_multi` calls on ONE reader owned by the harness; `pos` reads the reader's position again after every call
fn run_reads<R: Read + Seek>(cur: &mut R, pos: impl Fn(&mut R) -> u64, descs: &[VDesc]) -> Vec<ReadAns> {
	let mut out = vec![];
	for d in descs {
		let r = guarded(AssertUnwindSafe(|| duke::read_class_multi(cur, RecMulti::new(d.clone()))));
		match r {
			Err(p) => { out.push(Err(format!("panic: {p}"))); break; }
			Ok(Err(e)) => { out.push(Err(format!("error: {e:#}"))); break; }
			Ok(Ok(m)) => match m.result {
				Some(t) => { HEADERS.with(|h| h.borrow_mut().push(m.header.clone().unwrap_or_default())); out.push(Ok((t, pos(cur)))) }
				None => { out.push(Err("visitor returned without visit_class".into())); break; }
			},
		}
	}
	out
}
fn run_config(stream: &[u8], descs: &[VDesc]) -> Vec<ReadAns> {
	let mut cur = Cursor::new(stream);
	run_reads(&mut cur, |c| c.position(), descs)
}

// ---------------------------------------------------------------- the projection oracle (independent of the model)
/// attribute name -> the interest flag that governs it (JVMS attribute <-> field of the *Interests struct)
const CLASS_GOV: [(&str, &str); 15] = [("InnerClasses", "inner_classes"), ("EnclosingMethod", "enclosing_method"), ("Signature", "signature"),
	("SourceFile", "source_file"), ("SourceDebugExtension", "source_debug_extension"), ("RuntimeVisibleAnnotations", "runtime_visible_annotations"),
	("RuntimeInvisibleAnnotations", "runtime_invisible_annotations"), ("RuntimeVisibleTypeAnnotations", "runtime_visible_type_annotations"),
	("RuntimeInvisibleTypeAnnotations", "runtime_invisible_type_annotations"), ("Module", "module"), ("ModulePackages", "module_packages"),
	("ModuleMainClass", "module_main_class"), ("NestHost", "nest_host"), ("NestMembers", "nest_members"), ("PermittedSubclasses", "permitted_subclasses")];
const METHOD_GOV: [(&str, &str); 8] = [("Exceptions", "exceptions"), ("Signature", "signature"), ("RuntimeVisibleAnnotations", "runtime_visible_annotations"),
	("RuntimeInvisibleAnnotations", "runtime_invisible_annotations"), ("RuntimeVisibleTypeAnnotations", "runtime_visible_type_annotations"),
	("RuntimeInvisibleTypeAnnotations", "runtime_invisible_type_annotations"), ("AnnotationDefault", "annotation_default"), ("MethodParameters", "method_parameters")];
const CODE_GOV: [(&str, &str); 2] = [("RuntimeVisibleTypeAnnotations", "runtime_visible_type_annotations"), ("RuntimeInvisibleTypeAnnotations", "runtime_invisible_type_annotations")];

fn keep_attr(gov: &[(&str, &str)], m: &Mask, name: &str, raw: bool) -> bool {
	match gov.iter().find(|(n, _)| *n == name) {
		Some((_, f)) => has(m, f),
		None => { debug_assert!(raw); has(m, "unknown_attributes") }
	}
}

fn project_code(full: &Ev, cm: &Mask) -> Ev {
	let Ev::Code { max_stack, max_locals, insns, last_label, exc, exc_rows, es } = full else { unreachable!() };
	let frames = has(cm, "stack_map_table");
	Ev::Code {
		max_stack: *max_stack, max_locals: *max_locals,
		insns: insns.iter().map(|i| Insn { label: i.label, frame: if frames { i.frame.clone() } else { None }, text: i.text.clone() }).collect(),
		last_label: *last_label, exc: exc.clone(), exc_rows: exc_rows.clone(),
		es: es.iter().filter_map(|e| match e {
			Ev::Attr { name, raw, .. } => if keep_attr(&CODE_GOV, cm, name, raw.is_some()) { Some(e.clone()) } else { None },
			Ev::Deferred { slot, items, rows, .. } => {
				// an entry reaches the visitor iff the visitor is interested in the attribute kind it comes from
				let wanted = |k: u8| match k { 0 => has(cm, "line_number_table"), 1 => has(cm, "local_variable_table"), _ => has(cm, "local_variable_type_table") };
				let kept: Vec<(u8, String)> = items.iter().filter(|(k, _)| wanted(*k)).cloned().collect();
				let rows: Vec<RowN> = if rows.len() == items.len() { items.iter().zip(rows).filter(|((k, _), _)| wanted(*k)).map(|(_, r)| r.clone()).collect() } else { vec![] };
				let any_flag = if *slot == "line_number_table" { wanted(0) } else { wanted(1) || wanted(2) };
				let all_flags = if *slot == "line_number_table" { wanted(0) } else { wanted(1) && wanted(2) };
				if !any_flag { None }
				// a visitor interested in everything the table holds is told about the table even when it has no entries ...
				else if all_flags { Some(e.clone()) }
				// ... a visitor interested in one of the two kinds of entries exactly when there is an entry for it
				else if kept.is_empty() { None }
				else { Some(Ev::Deferred { slot, items: kept, rows }) }
			}
			_ => Some(e.clone()),
		}).collect(),
	}
}

fn project_method(full: &[Ev], mm: &Mask, code: &Option<Mask>) -> Vec<Ev> {
	let mut out = vec![];
	for e in full {
		match e {
			Ev::Attr { name, raw, .. } => if keep_attr(&METHOD_GOV, mm, name, raw.is_some()) { out.push(e.clone()); },
			Ev::Code { .. } => if has(mm, "code") { match code { Some(cm) => out.push(project_code(e, cm)), None => out.push(Ev::CodeDeclined) } },
			e => out.push(e.clone()),
		}
	}
	out
}

/// what a visitor configured as `d` must receive, given what the full accepting visitor received
fn project_class(full: &Option<Vec<Ev>>, d: &VDesc) -> Option<Vec<Ev>> {
	if !d.accept { return None; }
	let full = full.as_ref()?;
	let (mut nf, mut nm, mut nr) = (0usize, 0usize, 0usize);
	let mut out = vec![];
	for e in full {
		match e {
			Ev::Attr { name, raw, .. } => if keep_attr(&CLASS_GOV, &d.class, name, raw.is_some() && name != "SourceDebugExtension") { out.push(e.clone()); },
			Ev::Rc { hdr, es } => {
				let k = nr; nr += 1;
				if has(&d.class, "record") { out.push(Ev::Rc { hdr: hdr.clone(), es: if d.rc(k) { es.clone() } else { None } }); }
			}
			Ev::Field { hdr, es } => {
				let k = nf; nf += 1;
				if has(&d.class, "fields") { out.push(Ev::Field { hdr: hdr.clone(), es: if d.field(k) { es.clone() } else { None } }); }
			}
			Ev::Method { hdr, es } => {
				let k = nm; nm += 1;
				let es = match (d.method(k), es) { (Some(mm), Some(es)) => Some(project_method(es, &mm, &d.code(k))), _ => None };
				if has(&d.class, "methods") { out.push(Ev::Method { hdr: hdr.clone(), es }); }
			}
			e => out.push(e.clone()),
		}
	}
	Some(out)
}

/// equality of what was received with what the projection demands; the only slack: an instruction /
/// the end of the code may carry a label in the full read that the partial read had no reason to create
fn ev_matches(got: &Ev, want: &Ev) -> bool {
	match (got, want) {
		(Ev::Code { max_stack: a, max_locals: b, insns: i, last_label: l, exc: x, es: e, .. },
		 Ev::Code { max_stack: a2, max_locals: b2, insns: i2, last_label: l2, exc: x2, es: e2, .. }) =>
			a == a2 && b == b2 && x == x2 && (!*l || *l2) && i.len() == i2.len()
				&& i.iter().zip(i2).all(|(p, q)| p.text == q.text && p.frame == q.frame && (!p.label || q.label))
				&& evs_match(e, e2),
		(Ev::Rc { hdr: h, es: e }, Ev::Rc { hdr: h2, es: e2 }) | (Ev::Field { hdr: h, es: e }, Ev::Field { hdr: h2, es: e2 })
		| (Ev::Method { hdr: h, es: e }, Ev::Method { hdr: h2, es: e2 }) => h == h2 && match (e, e2) { (Some(a), Some(b)) => evs_match(a, b), (None, None) => true, _ => false },
		(Ev::Deferred { slot: a, items: x, .. }, Ev::Deferred { slot: b, items: y, .. }) => a == b && x == y,
		(a, b) => a == b,
	}
}
fn evs_match(got: &[Ev], want: &[Ev]) -> bool {
	let (mut i, mut j) = (0, 0);
	while j < want.len() {
		if i < got.len() && ev_matches(&got[i], &want[j]) { i += 1; j += 1; }
		else { return false; }
	}
	i == got.len()
}

fn first_diff(got: &[Ev], want: &[Ev]) -> String {
	for (i, (a, b)) in got.iter().zip(want).enumerate() {
		if !ev_matches(a, b) {
			if let (Ev::Method { es: Some(x), hdr }, Ev::Method { es: Some(y), .. }) | (Ev::Field { es: Some(x), hdr }, Ev::Field { es: Some(y), .. }) | (Ev::Rc { es: Some(x), hdr }, Ev::Rc { es: Some(y), .. }) = (a, b) {
				return format!("event {i} (member {hdr}): {}", first_diff(x, y));
			}
			if let (Ev::Code { es: x, .. }, Ev::Code { es: y, .. }) = (a, b) { if !evs_match(x, y) { return format!("event {i} (code): {}", first_diff(x, y)); } }
			return format!("event {i}: received {} but the full read reports {}", short(a), short(b));
		}
	}
	format!("received {} events, the projection of the full read has {}", got.len(), want.len())
}
/// `s[lo..hi]` with both ends moved down to character boundaries (the texts hold non-ASCII names)
fn clip(s: &str, lo: usize, hi: usize) -> &str {
	let (mut lo, mut hi) = (lo.min(s.len()), hi.min(s.len()));
	while !s.is_char_boundary(lo) { lo -= 1; }
	while !s.is_char_boundary(hi) { hi -= 1; }
	&s[lo..hi.max(lo)]
}
fn short(e: &Ev) -> String { let s = format!("{e:?}"); if s.len() > 300 { format!("{}…", clip(&s, 0, 300)) } else { s } }

// ---------------------------------------------------------------- Gallina printing (compact, see coq/C17/Run.v)
const KNOWN_NAMES: [&str; 18] = ["AnnotationDefault", "ConstantValue", "EnclosingMethod", "Exceptions", "InnerClasses", "MethodParameters", "Module",
	"ModuleMainClass", "ModulePackages", "NestHost", "NestMembers", "PermittedSubclasses", "RuntimeVisibleAnnotations", "RuntimeInvisibleAnnotations",
	"RuntimeVisibleTypeAnnotations", "RuntimeInvisibleTypeAnnotations", "Signature", "SourceFile"];
const DEFERRED_SLOTS: [&str; 2] = ["line_number_table", "local_variable_table"];

/// bit i <-> i-th field of the *Interests struct (declaration order)
fn bits(m: &Mask, all: &[&'static str]) -> u64 { all.iter().enumerate().filter(|(_, f)| has(m, f)).map(|(i, _)| 1u64 << i).sum() }
fn g_omask(m: &Option<Mask>, all: &[&'static str]) -> String { gopt(m.as_ref().map(|m| bits(m, all).to_string())) }
fn g_desc(d: &VDesc) -> String {
	format!("(VD {} {} {} {} {} {} {} {} {} {})", gbool(d.accept), bits(&d.class, &CLASS_FLAGS),
		glist(d.fields.iter().map(|b| gbool(*b))), gbool(d.field_default),
		glist(d.methods.iter().map(|m| g_omask(m, &METHOD_FLAGS))), g_omask(&d.method_default, &METHOD_FLAGS),
		glist(d.codes.iter().map(|m| g_omask(m, &CODE_FLAGS))), g_omask(&d.code_default, &CODE_FLAGS),
		glist(d.rcs.iter().map(|b| gbool(*b))), gbool(d.rc_default))
}
fn g_bytes(b: &[u8]) -> String { gnums(b.iter().map(|&x| x as u64)) }
/// 7 bytes per primitive integer, big endian; the last word holds the remaining 1..7 bytes
fn g_words(b: &[u8]) -> String {
	let ws: Vec<String> = b.chunks(7).map(|c| c.iter().fold(0u64, |acc, &x| (acc << 8) | x as u64).to_string()).collect();
	format!("([{}])%uint63", ws.join(";"))
}
/// per method of a class: the bytecode offset of every instruction and the code length (None: no Code attribute / not decodable)
type MethodPcs = Option<(Vec<u32>, u32)>;
fn pcs_of(class_bytes: &[u8]) -> Vec<MethodPcs> {
	let Ok(c) = fbh::classfile::raw::parse(class_bytes) else { return vec![] };
	c.methods.iter().map(|m| m.attributes.iter().find_map(|a| match &a.info {
		fbh::classfile::raw::AttrInfo::Code(code) => fbh::classfile::raw::decode_code(&code.code).ok().map(|v| (v.iter().map(|(pc, _)| *pc).collect(), code.code.len() as u32)),
		_ => None,
	})).collect()
}
fn pc_of(p: &Pos, pcs: &MethodPcs) -> Option<u64> {
	let (at, len) = pcs.as_ref()?;
	match p { Pos::At(i) => at.get(*i).map(|x| *x as u64), Pos::End => Some(*len as u64), Pos::Unknown => None }
}
/// the rows of a table as primitive integers (decoded in coq/C17/Run.v): LineNumberTable start_pc<<16 | line;
/// local variables two words, kind<<48 | start_pc<<32 | length<<16 | index and cksum(name)<<31 | cksum(descriptor / signature);
/// exception table start_pc<<33 | end_pc<<17 | handler_pc<<1 | (1 if there is a catch type).  None when a label cannot be
/// placed (the table is then not compared with the model's rows).
fn g_rows(rows: &[RowN], pcs: &MethodPcs) -> String {
	let mut ws: Vec<u64> = vec![];
	for r in rows {
		let ok = (|| match r {
			RowN::Line(p, n) => { ws.push(pc_of(p, pcs)? << 16 | *n as u64); Some(()) }
			RowN::Var { kind, start, end, name, desc, index } => {
				let (a, b) = (pc_of(start, pcs)?, pc_of(end, pcs)?);
				if b < a { return None; }
				ws.push((*kind as u64) << 48 | a << 32 | (b - a) << 16 | *index as u64);
				ws.push(*name << 31 | *desc);
				Some(())
			}
			RowN::Exc(a, b, h, c) => { ws.push(pc_of(a, pcs)? << 33 | pc_of(b, pcs)? << 17 | pc_of(h, pcs)? << 1 | *c as u64); Some(()) }
		})();
		if ok.is_none() { return "None".into(); }
	}
	format!("(Some ([{}])%uint63)", ws.iter().map(|w| w.to_string()).collect::<Vec<_>>().join(";"))
}
/// `pcs`: the methods of the class the trace belongs to; `cur`: the method the events belong to (None at class / field level)
fn g_ev(e: &Ev, cur: &MethodPcs) -> String {
	match e {
		Ev::Attr { name, raw: None, val, cval, .. } => match KNOWN_NAMES.iter().position(|n| n == name) {
			Some(i) if !val.is_empty() => format!("KV {i} {}", gnums(val.iter().copied())),
			// a value that speaks of labels: bytecode offsets through the instruction offsets of the method at hand; not compared when a label cannot be placed
			Some(i) if !cval.is_empty() => match cval.iter().map(|v| match v {
					values::ValN::N(x) => Some(*x),
					values::ValN::At(p) => pc_of(p, cur),
					values::ValN::Len(a, b) => match (pc_of(a, cur), pc_of(b, cur)) { (Some(x), Some(y)) if y >= x => Some(y - x), _ => None },
				}).collect::<Option<Vec<u64>>>() {
				Some(nums) => format!("KV {i} {}", gnums(nums.into_iter())),
				None => format!("K {i}"),
			},
			Some(i) => format!("K {i}"),
			None => format!("EAttr {} false []", gstr(&cps_str(name))),
		},
		Ev::Attr { name, raw: Some(raw), .. } => format!("U {} {}", gstr(&cps_str(name)), g_bytes(raw)),
		Ev::Flags(d, s) => format!("Fl {} {}", gbool(*d), gbool(*s)),
		Ev::Deferred { slot, items, rows, .. } => format!("Df {} {}", DEFERRED_SLOTS.iter().position(|s| s == slot).unwrap_or(99),
			if rows.len() == items.len() { g_rows(rows, cur) } else { "None".into() }),
		Ev::CodeDeclined => "CD".into(),
		Ev::Code { max_stack, max_locals, insns, exc_rows, es, .. } =>
			format!("C {max_stack} {max_locals} {} {} {}", gbool(insns.iter().any(|i| i.frame.is_some())), g_rows(exc_rows, cur), g_evs(es, cur)),
		Ev::Rc { es, .. } => format!("R {}", gopt(es.as_ref().map(|e| g_evs(e, &None)))),
		Ev::Field { es, .. } => format!("Fd {}", gopt(es.as_ref().map(|e| g_evs(e, &None)))),
		Ev::Method { es, .. } => format!("M {}", gopt(es.as_ref().map(|e| g_evs(e, cur)))),
	}
}
fn g_evs(es: &[Ev], cur: &MethodPcs) -> String { glist(es.iter().map(|e| g_ev(e, cur))) }
/// the events of one class: the k-th Method event belongs to the k-th method of the class file
fn g_trace(es: &[Ev], pcs: &[MethodPcs]) -> String {
	let mut k = 0usize;
	glist(es.iter().map(|e| match e {
		Ev::Method { .. } => { let cur = pcs.get(k).cloned().unwrap_or(None); k += 1; g_ev(e, &cur) }
		e => g_ev(e, &None),
	}))
}
fn g_answer(a: &[ReadAns], pcs: &[Vec<MethodPcs>]) -> String {
	glist(a.iter().enumerate().map(|(i, r)| match r { Ok((t, pos)) => format!("Ok ({}, {pos})", gopt(t.as_ref().map(|e| g_trace(e, pcs.get(i).map(|v| v.as_slice()).unwrap_or(&[]))))), Err(_) => "Err".into() }))
}
fn g_case(stream: &[u8], pcs: &[Vec<MethodPcs>], runs: &[(Vec<VDesc>, Vec<ReadAns>)]) -> String {
	format!("CStream {} {} {}", stream.len(), g_words(stream), glist(runs.iter().map(|(d, a)| gpair(glist(d.iter().map(g_desc)), g_answer(a, pcs)))))
}

// ---------------------------------------------------------------- inputs
struct ClassBytes { name: String, bytes: Vec<u8> }

fn collect(dir: &Path, out: &mut Vec<PathBuf>) {
	let Ok(rd) = std::fs::read_dir(dir) else { return };
	let mut entries: Vec<PathBuf> = rd.filter_map(|e| e.ok().map(|e| e.path())).collect();
	entries.sort();
	for p in entries {
		if p.is_dir() { if p.file_name().map(|n| n != "target" && n != ".git").unwrap_or(true) { collect(&p, out); } }
		else if p.extension().map(|e| e == "class").unwrap_or(false) { out.push(p); }
	}
}

fn load_classes(r: &mut Report) -> Vec<ClassBytes> {
	let repo = std::env::var("VERIF_REPO").unwrap_or_else(|_| "/repo".into());
	let mut paths = vec![];
	collect(Path::new("/verif/corpus/C17"), &mut paths);
	collect(Path::new("/verif/corpus/classes"), &mut paths);
	collect(&Path::new(&repo).join("src"), &mut paths);
	collect(&Path::new(&repo).join("raw_class_file/tests"), &mut paths);
	let mut out = vec![];
	for p in paths {
		if let Ok(bytes) = std::fs::read(&p) {
			r.count("input_class_files");
			out.push(ClassBytes { name: p.display().to_string(), bytes });
		}
	}
	out
}

/// number of fields / methods / record components, read off the full trace
fn member_counts(full: &Option<Vec<Ev>>) -> (usize, usize, usize) {
	let mut c = (0, 0, 0);
	for e in full.iter().flatten() { match e { Ev::Field { .. } => c.0 += 1, Ev::Method { .. } => c.1 += 1, Ev::Rc { .. } => c.2 += 1, _ => {} } }
	c
}

fn random_mask(rng: &mut Rng, all: &[&'static str]) -> Mask {
	match rng.below(6) {
		0 => all.to_vec(),
		1 => vec![],
		_ => { let p = rng.range(1, 9); all.iter().copied().filter(|_| rng.chance(p, 10)).collect() }
	}
}

/// an accepting visitor with random masks and random decline choices per member
fn random_desc(rng: &mut Rng, counts: (usize, usize, usize)) -> VDesc {
	let (nf, nm, nr) = counts;
	VDesc {
		accept: true, class: random_mask(rng, &CLASS_FLAGS),
		fields: (0..nf).map(|_| rng.chance(3, 4)).collect(), field_default: true,
		methods: (0..nm).map(|_| if rng.chance(4, 5) { Some(random_mask(rng, &METHOD_FLAGS)) } else { None }).collect(), method_default: Some(METHOD_FLAGS.to_vec()),
		codes: (0..nm).map(|_| if rng.chance(3, 4) { Some(random_mask(rng, &CODE_FLAGS)) } else { None }).collect(), code_default: Some(CODE_FLAGS.to_vec()),
		rcs: (0..nr).map(|_| rng.chance(2, 3)).collect(), rc_default: true,
	}
}

/// the visitor configurations tried on a class with the given member counts
fn configs(rng: &mut Rng, counts: (usize, usize, usize), thorough: bool, r: &mut Report) -> Vec<(String, VDesc)> {
	let (nf, nm, nr) = counts;
	let full = VDesc::full();
	let mut out: Vec<(String, VDesc)> = vec![];
	let mut push = |kind: &str, d: VDesc, out: &mut Vec<(String, VDesc)>| { r.count(&format!("config:{kind}")); out.push((kind.to_owned(), d)); };
	push("decline-class", VDesc { accept: false, ..full.clone() }, &mut out);
	push("no-interest", VDesc { class: vec![], method_default: Some(vec![]), code_default: Some(vec![]), ..full.clone() }, &mut out);
	for f in CLASS_FLAGS {
		push("class-single-bit", VDesc { class: vec![f], ..full.clone() }, &mut out);
		if thorough { push("class-all-but-one", VDesc { class: CLASS_FLAGS.iter().copied().filter(|x| *x != f).collect(), ..full.clone() }, &mut out); }
	}
	for f in METHOD_FLAGS {
		push("method-single-bit", VDesc { method_default: Some(vec![f]), ..full.clone() }, &mut out);
		if thorough || f == "code" { push("method-all-but-one", VDesc { method_default: Some(METHOD_FLAGS.iter().copied().filter(|x| *x != f).collect()), ..full.clone() }, &mut out); }
	}
	for f in CODE_FLAGS {
		push("code-single-bit", VDesc { code_default: Some(vec![f]), ..full.clone() }, &mut out);
		if thorough { push("code-all-but-one", VDesc { code_default: Some(CODE_FLAGS.iter().copied().filter(|x| *x != f).collect()), ..full.clone() }, &mut out); }
	}
	// decline every k-th member (offset o)
	for k in 1..=3usize {
		for o in 0..k.min(2) {
			let pick = |n: usize| (0..n).map(|i| i % k != o).collect::<Vec<bool>>();
			push("decline-kth-field", VDesc { fields: pick(nf), ..full.clone() }, &mut out);
			push("decline-kth-method", VDesc { methods: pick(nm).into_iter().map(|b| if b { Some(METHOD_FLAGS.to_vec()) } else { None }).collect(), ..full.clone() }, &mut out);
			push("decline-kth-code", VDesc { codes: pick(nm).into_iter().map(|b| if b { Some(CODE_FLAGS.to_vec()) } else { None }).collect(), ..full.clone() }, &mut out);
			if nr > 0 { push("decline-kth-rc", VDesc { rcs: pick(nr), ..full.clone() }, &mut out); }
		}
	}
	// interests() is a per-instance method: neighbouring members of ONE class get different masks / answers
	// (the reader must consult the interests of the visitor at hand, not those of an earlier member)
	if nm >= 2 {
		let all_but = |all: &[&'static str], f: &str| all.iter().copied().filter(|x| *x != f).collect::<Mask>();
		let mut mpairs: Vec<(Mask, Mask)> = vec![(METHOD_FLAGS.to_vec(), vec![]), (vec![], METHOD_FLAGS.to_vec()), (vec!["code"], all_but(&METHOD_FLAGS, "code")), (all_but(&METHOD_FLAGS, "code"), vec!["code"])];
		let mut cpairs: Vec<(Mask, Mask)> = vec![(CODE_FLAGS.to_vec(), vec![]), (vec![], CODE_FLAGS.to_vec()), (vec!["local_variable_table"], vec!["local_variable_type_table"]), (vec!["line_number_table", "local_variable_type_table"], vec!["stack_map_table", "local_variable_table"])];
		for _ in 0..(if thorough { 3 } else { 1 }) {
			let f = *rng.pick(&METHOD_FLAGS); let g = *rng.pick(&METHOD_FLAGS);
			mpairs.push((vec![f], vec![g])); mpairs.push((all_but(&METHOD_FLAGS, f), vec![f]));
			let f = *rng.pick(&CODE_FLAGS); let g = *rng.pick(&CODE_FLAGS);
			cpairs.push((vec![f], vec![g])); cpairs.push((all_but(&CODE_FLAGS, f), vec![f]));
		}
		let alt = |a: &Mask, b: &Mask, period: usize| (0..nm).map(|i| Some(if (i / period) % 2 == 0 { a.clone() } else { b.clone() })).collect::<Vec<_>>();
		for (a, b) in &mpairs { push("alternating-method-masks", VDesc { methods: alt(a, b, 1), ..full.clone() }, &mut out); }
		for (a, b) in &cpairs { push("alternating-code-masks", VDesc { codes: alt(a, b, 1), ..full.clone() }, &mut out); }
		// both levels at once, period 2 against period 1; a third of the methods declined in between
		let (a, b) = &mpairs[rng.below(mpairs.len())]; let (c, d) = &cpairs[rng.below(cpairs.len())];
		let mut ms = alt(a, b, 2); for (i, m) in ms.iter_mut().enumerate() { if i % 3 == 2 { *m = None; } }
		push("alternating-both-levels", VDesc { methods: ms, codes: alt(c, d, 1), ..full.clone() }, &mut out);
	}
	if nf >= 2 || nr >= 2 {
		// fields / record components: the public API only lets a visitor accept or decline them (their visitor traits are crate-private)
		for o in 0..2 { push("alternating-field-rc-accept", VDesc { fields: (0..nf).map(|i| i % 2 == o).collect(), rcs: (0..nr).map(|i| i % 2 != o).collect(), ..full.clone() }, &mut out); }
	}
	// random masks and random decline choices, per member
	for _ in 0..(if thorough { 40 } else { 10 }) {
		let d = random_desc(rng, counts);
		push("random", d, &mut out);
	}
	out
}

fn describe(d: &VDesc) -> String { format!("{d:?}") }

fn hex(b: &[u8]) -> String { b.iter().map(|x| format!("{x:02x}")).collect() }

// ---------------------------------------------------------------- replay (ClassFile::accept)
const ANNOTATION_ATTRS: [&str; 4] = ["RuntimeVisibleAnnotations", "RuntimeInvisibleAnnotations", "RuntimeVisibleTypeAnnotations", "RuntimeInvisibleTypeAnnotations"];

/// multiset view of a trace: the replay visits attributes in a fixed order, the reader in file order.
/// `relax_a`: an annotations visit without annotations is dropped (the tree cannot hold it: known finding F20a).
/// Returns the view and whether anything was dropped.  (A visit of a local-variable table without entries is NOT relaxed:
/// since the reader and Code::accept follow one rule for it — former finding F20b — it must agree like everything else.)
fn sorted_dbg(es: &[Ev], relax_a: bool, dropped: &mut bool) -> Vec<String> {
	let mut v: Vec<String> = es.iter().map(|e| match e {
		Ev::Method { hdr, es } => format!("Method {hdr} {:?}", es.as_ref().map(|e| sorted_dbg(e, relax_a, dropped))),
		Ev::Field { hdr, es } => format!("Field {hdr} {:?}", es.as_ref().map(|e| sorted_dbg(e, relax_a, dropped))),
		Ev::Rc { hdr, es } => format!("Rc {hdr} {:?}", es.as_ref().map(|e| sorted_dbg(e, relax_a, dropped))),
		// labels that nothing delivered refers to may or may not be attached (the tree keeps those of the full read)
		Ev::Code { max_stack, max_locals, insns, exc, es, .. } => format!("Code {max_stack} {max_locals} {:?} {exc} {:?}", insns.iter().map(|i| (&i.frame, &i.text)).collect::<Vec<_>>(), sorted_dbg(es, relax_a, dropped)),
		Ev::Attr { name, raw: None, content, .. } if relax_a && content == "[]" && ANNOTATION_ATTRS.contains(&name.as_str()) => { *dropped = true; String::new() }
		Ev::Deferred { slot, items, .. } => format!("Deferred {slot} {items:?}"),
		e => format!("{e:?}"),
	}).filter(|s| !s.is_empty()).collect();
	// members keep their order (they are compared in order); attribute-level events are a multiset
	let members: Vec<String> = v.iter().filter(|s| s.starts_with("Method ") || s.starts_with("Field ") || s.starts_with("Rc ")).cloned().collect();
	v.retain(|s| !(s.starts_with("Method ") || s.starts_with("Field ") || s.starts_with("Rc ")));
	v.sort();
	v.extend(members);
	v
}

enum ReplayCmp { Same, KnownA, Differ(String) }

/// replayed trace against the trace of reading the bytes with the same visitor
fn compare_replay(got: &Option<Vec<Ev>>, read: &Option<Vec<Ev>>) -> ReplayCmp {
	let view = |t: &Option<Vec<Ev>>, a: bool| { let mut d = false; let v = t.as_ref().map(|e| sorted_dbg(e, a, &mut d)); (v, d) };
	if view(got, false).0 == view(read, false).0 { return ReplayCmp::Same; }
	// the one relaxation that may explain the difference
	let ((x, dx), (y, dy)) = (view(got, true), view(read, true));
	if x == y && (dx || dy) { return ReplayCmp::KnownA; }
	let (x, y) = (view(got, false).0.unwrap_or_default(), view(read, false).0.unwrap_or_default());
	let diff = x.iter().zip(&y).find(|(p, q)| p != q).map(|(p, q)| { let k = p.bytes().zip(q.bytes()).take_while(|(u, w)| u == w).count().saturating_sub(60); format!("replay: …{}\nread:   …{}", clip(p, k, k + 400), clip(q, k, k + 400)) }).unwrap_or_else(|| format!("{} vs {} events", x.len(), y.len()));
	ReplayCmp::Differ(diff)
}

/// is the finding listed (open, for C17) in /verif/known_findings.json?  The list is committed by the coordinator; a finding
/// that this harness recognises but that is not listed yet is counted and noted (`pending_finding:…`) instead of `known`.
fn finding_listed(id: &str) -> bool {
	let Ok(text) = std::fs::read_to_string("/verif/known_findings.json") else { return false };
	let Ok(j) = serde_json::from_str::<serde_json::Value>(&text) else { return false };
	j["findings"].as_array().map(|a| a.iter().any(|f| f["id"] == id && f["property"] == "C17" && f["status"].as_str().unwrap_or("open") == "open")).unwrap_or(false)
}
const F20A: &str = "F20a replaying a tree does not deliver an annotations attribute that has no annotations (the tree keeps annotation lists as plain Vec)";

fn report_known(r: &mut Report, cb_name: &str, cfg: &str) {
	for text in [F20A] {
		let id = text.split(' ').next().unwrap();
		// the class files of corpus/C17/replay are the witnesses of the Coq refutation theorems (Theory14.v), byte for byte
		if let Some(rest) = cb_name.strip_prefix("/verif/corpus/C17/replay/") { r.count(&format!("coq_witness_reproduced:{id}:{rest}")); }
		if finding_listed(id) { r.known(text.to_owned()); }
		else {
			r.count(&format!("pending_finding:{id}"));
			let note = format!("PENDING-FINDING {text} — first seen on {cb_name} with visitor {cfg}");
			if !r.notes.iter().any(|n| n.starts_with(&format!("PENDING-FINDING {id}"))) { r.notes.push(note); }
		}
	}
}

/// replaying the tree into a masked / declining visitor delivers what reading the bytes delivers to it
fn replay_masked(r: &mut Report, cb: &ClassBytes, shape: &Option<edge::Shape>, tree: &ClassFile, kind: &str, d: &VDesc, read_trace: &Option<Vec<Ev>>) -> Option<Option<Vec<Ev>>> {
	r.count("replay_masked_runs");
	let got = match guarded(AssertUnwindSafe(|| tree.clone().accept(RecMulti::new(d.clone())))) {
		Ok(Ok(m)) => m.result.flatten(),
		other => {
			let what = format!("[{kind}] ClassFile::accept into a masked visitor {}", match other { Ok(Err(e)) => format!("failed: {e:#}"), _ => "panicked".into() });
			r.violation(what.clone(), format!("property C17 (replay)\nwhat: {what}\nclass file: {}\nvisitor: {d:?}\nbytes (hex): {}\n", cb.name, hex(&cb.bytes)));
			return None;
		}
	};
	if shape.as_ref().map(|s| s.duplicate_merged).unwrap_or(false) { r.count("replay_outside_hypothesis:duplicate_attribute"); return Some(got); }
	match compare_replay(&got, read_trace) {
		ReplayCmp::Same => {}
		ReplayCmp::KnownA if shape.as_ref().map(|s| s.empty_annotations).unwrap_or(false) => report_known(r, &cb.name, &format!("{d:?}")),
		ReplayCmp::KnownA | ReplayCmp::Differ(_) => {
			let diff = match compare_replay(&got, read_trace) { ReplayCmp::Differ(d) => d, _ => "differs only by visits of annotations attributes without annotations, but the class file has no such attribute".into() };
			let what = format!("[{kind}] ClassFile::accept delivers other events to a masked visitor than reading the bytes does");
			r.violation(what.clone(), format!("property C17 (replay)\nwhat: {what}\nclass file: {}\nvisitor: {d:?}\nfirst difference:\n{diff}\nbytes (hex): {}\n", cb.name, hex(&cb.bytes)));
		}
	}
	Some(got)
}

/// replaying into the tree builder reproduces the class: Some(equal?) / None = accept failed
fn rebuild_check(r: &mut Report, cb: &ClassBytes, tree: &ClassFile) -> bool {
	r.count("replay_classes");
	match guarded(AssertUnwindSafe(|| tree.clone().accept(Vec::<ClassFile>::new()))) {
		// compared through {:?}: PartialEq is not reflexive on trees holding NaN float constants
		Ok(Ok(v)) if v.len() == 1 && (v[0] == *tree || format!("{:?}", v[0]) == format!("{tree:?}")) => true,
		other => {
			let mut where_ = String::new();
			let what = match other {
				Ok(Ok(v)) => {
					if v.len() == 1 { where_ = format!("first difference: {}\n", tree_diff(&v[0], tree)); }
					format!("ClassFile::accept into Vec<ClassFile> gave {} class(es) that differ from the class read from the bytes", v.len())
				}
				Ok(Err(e)) => format!("ClassFile::accept failed: {e:#}"), Err(p) => format!("ClassFile::accept panicked: {p}") };
			r.violation(what.clone(), format!("property C17 (replay)\nwhat: {what}\n{where_}class file: {}\nbytes (hex): {}\n", cb.name, hex(&cb.bytes)));
			false
		}
	}
}

/// where two trees differ: the member, and the debug text around the first differing character
fn tree_diff(replayed: &ClassFile, read: &ClassFile) -> String {
	let ctx = |a: &str, b: &str| {
		let k = a.bytes().zip(b.bytes()).take_while(|(x, y)| x == y).count();
		format!("\n  replayed: …{}…\n  read:     …{}…", clip(a, k.saturating_sub(160), k + 240), clip(b, k.saturating_sub(160), k + 240))
	};
	for (i, (a, b)) in replayed.methods.iter().zip(&read.methods).enumerate() {
		let (x, y) = (format!("{a:?}"), format!("{b:?}"));
		if x != y {
			if let (Some(ca), Some(cb)) = (&a.code, &b.code) {
				if ca.local_variables != cb.local_variables { return format!("method {i} ({:?} {:?}): Code.local_variables (rows of LocalVariableTable / LocalVariableTypeTable in the order delivered){}", b.name, b.descriptor, ctx(&format!("{:?}", ca.local_variables), &format!("{:?}", cb.local_variables))); }
				if ca.line_numbers != cb.line_numbers { return format!("method {i} ({:?} {:?}): Code.line_numbers{}", b.name, b.descriptor, ctx(&format!("{:?}", ca.line_numbers), &format!("{:?}", cb.line_numbers))); }
			}
			return format!("method {i} ({:?} {:?}){}", b.name, b.descriptor, ctx(&x, &y));
		}
	}
	for (i, (a, b)) in replayed.fields.iter().zip(&read.fields).enumerate() {
		let (x, y) = (format!("{a:?}"), format!("{b:?}"));
		if x != y { return format!("field {i} ({:?}){}", b.name, ctx(&x, &y)); }
	}
	ctx(&format!("{replayed:?}"), &format!("{read:?}"))
}

/// an in-memory class that no reader produces: a Code with only one of max_stack / max_locals.  The visitor API has one
/// combined visit_max_stack_and_max_locals(u16, u16); Code::accept calls it only when both are present.
fn partial_max_probe(r: &mut Report, cb: &ClassBytes, tree: &ClassFile) {
	for which in 0..2 {
		let mut t = tree.clone();
		let Some(code) = t.methods.iter_mut().find_map(|m| m.code.as_mut()) else { return };
		if which == 0 { code.max_locals = None; } else { code.max_stack = None; }
		r.count("replay_partial_max_probes");
		match guarded(AssertUnwindSafe(|| t.clone().accept(Vec::<ClassFile>::new()))) {
			Ok(Ok(v)) if v.len() == 1 && format!("{:?}", v[0]) == format!("{t:?}") => {}
			Ok(Ok(v)) if v.len() == 1 => {
				// the only difference allowed by the finding: the remaining one of the two values is lost
				let mut u = t.clone();
				if let Some(c) = u.methods.iter_mut().find_map(|m| m.code.as_mut()) { c.max_stack = None; c.max_locals = None; }
				if format!("{:?}", v[0]) == format!("{u:?}") { report_known_c(r, &cb.name); }
				else { r.violation("replaying a tree whose Code has only one of max_stack / max_locals changes more than that value".into(), format!("property C17 (replay)\nclass file: {}\nedit: {} = None in the first Code\nbytes (hex): {}\n", cb.name, if which == 0 { "max_locals" } else { "max_stack" }, hex(&cb.bytes))); }
			}
			other => {
				let what = match other { Ok(Err(e)) => format!("ClassFile::accept failed on a tree with one of max_stack / max_locals: {e:#}"), _ => "ClassFile::accept panicked on a tree with one of max_stack / max_locals".into() };
				r.violation(what.clone(), format!("property C17 (replay)\nwhat: {what}\nclass file: {}\nbytes (hex): {}\n", cb.name, hex(&cb.bytes)));
			}
		}
	}
}
/// Not a finding: such a tree is neither produced by any read nor accepted by write_class (`no max_stack and max_locals given`),
/// so it has no bytes and lies outside the property; recorded as an observation (the model's tree has both values).
fn report_known_c(r: &mut Report, cb_name: &str) {
	r.count("observation:code_with_one_of_max_stack_max_locals_is_replayed_without_it");
	if !r.notes.iter().any(|n| n.starts_with("OBSERVATION max_stack/max_locals")) {
		r.notes.push(format!("OBSERVATION max_stack/max_locals: an in-memory Code with only one of them (no reader produces it, write_class refuses it) is replayed without it — Code::accept calls the combined visit_max_stack_and_max_locals only when both are Some; first seen on {cb_name}"));
	}
}

fn g_replay_case(stream: &[u8], pcs: &[MethodPcs], tree_ok: bool, rebuilt: bool, runs: &[(VDesc, Option<Vec<Ev>>)]) -> String {
	format!("CReplay {} {} {} {} {}", stream.len(), g_words(stream), gbool(tree_ok), gbool(rebuilt),
		glist(runs.iter().map(|(d, t)| gpair(g_desc(d), gopt(t.as_ref().map(|e| g_trace(e, pcs)))))))
}

// ---------------------------------------------------------------- duke's ready-made visitors: (), SimpleClassVisitor, Infallible
/// what a Code event looks like to a visitor that ignores instructions, annotations and unknown attributes
fn lite_view(e: &Ev) -> Option<Ev> {
	let Ev::Code { max_stack, max_locals, exc, es, .. } = e else { return None };
	Some(Ev::Code { max_stack: *max_stack, max_locals: *max_locals, insns: vec![], last_label: false, exc: strip_labels(exc), exc_rows: vec![],
		es: es.iter().filter_map(|e| match e { Ev::Deferred { slot, items, .. } => Some(Ev::Deferred { slot, items: items.iter().map(|(k, t)| (*k, strip_labels(t))).collect(), rows: vec![] }), _ => None }).collect() })
}

/// The same stream through `()` (every interest, everything voided), through a `SimpleClassVisitor` (interests = fields + methods;
/// fields by duke's tree builder, methods by the recording visitor with the masks of `descs`) and through the leanest visitor
/// (fields `Infallible`, annotations / unknown attributes into `()`, default `visit_instruction`): each read must succeed, end at
/// the end of its class file and deliver the projection of the full read.
fn ready_made(r: &mut Report, stream: &[u8], ends: &[u64], full_traces: &[Option<Vec<Ev>>], descs: &[VDesc], unit_too: bool, head: &dyn Fn(&str) -> String) {
	let cfg_text = descs.iter().map(describe).collect::<Vec<_>>().join("\n  ");
	let fail = |r: &mut Report, which: &str, what: String| { let what = format!("[{which}] {what}"); r.violation(what.clone(), format!("{}what: {what}\n", head(&cfg_text))); };
	if unit_too {
		let mut cur = Cursor::new(stream);
		for (i, end) in ends.iter().enumerate() {
			r.count("ready_made:unit_reads");
			match guarded(AssertUnwindSafe(|| duke::read_class_multi(&mut cur, ()))) {
				Ok(Ok(())) => if cur.position() != *end { fail(r, "visitor ()", format!("read {i} ended at stream position {}, the class file ends at {end}", cur.position())); break; },
				Ok(Err(e)) => { fail(r, "visitor ()", format!("read {i} fails ({e:#}) although the full read of the same class succeeds")); break; }
				Err(p) => { fail(r, "visitor ()", format!("read {i} panicked: {p}")); break; }
			}
		}
	}
	// SimpleClassVisitor
	let mut cur = Cursor::new(stream);
	for (i, d) in descs.iter().enumerate() {
		r.count("ready_made:simple_reads");
		let got = match guarded(AssertUnwindSafe(|| duke::read_class_multi(&mut cur, SimpleMulti { desc: d.clone(), result: None }))) {
			Ok(Ok(m)) => m.result,
			Ok(Err(e)) => { fail(r, "SimpleClassVisitor", format!("read {i} fails ({e:#}) although the full read of the same class succeeds")); break; }
			Err(p) => { fail(r, "SimpleClassVisitor", format!("read {i} panicked: {p}")); break; }
		};
		if cur.position() != ends[i] { fail(r, "SimpleClassVisitor", format!("read {i} ended at stream position {}, the class file ends at {}", cur.position(), ends[i])); break; }
		let want: Vec<Ev> = project_class(&full_traces[i], &VDesc { accept: true, class: vec!["fields", "methods"], ..d.clone() }).unwrap_or_default()
			.into_iter().filter(|e| matches!(e, Ev::Field { .. } | Ev::Method { .. })).collect();
		match got {
			Some(got) if evs_match(&got, &want) => {}
			Some(got) => fail(r, "SimpleClassVisitor", format!("read {i}: did not receive the projection of the full read: {}", first_diff(&got, &want))),
			None => fail(r, "SimpleClassVisitor", format!("read {i}: finish_class was not called")),
		}
	}
	// the leanest visitor
	let mut cur = Cursor::new(stream);
	for (i, d) in descs.iter().enumerate() {
		r.count("ready_made:lean_reads");
		let got = match guarded(AssertUnwindSafe(|| duke::read_class_multi(&mut cur, LiteMulti { desc: d.clone(), result: None }))) {
			Ok(Ok(m)) => m.result,
			Ok(Err(e)) => { fail(r, "lean visitor", format!("read {i} fails ({e:#}) although the full read of the same class succeeds")); break; }
			Err(p) => { fail(r, "lean visitor", format!("read {i} panicked: {p}")); break; }
		};
		if cur.position() != ends[i] { fail(r, "lean visitor", format!("read {i} ended at stream position {}, the class file ends at {}", cur.position(), ends[i])); break; }
		let mut want: Vec<Option<Vec<Ev>>> = vec![];
		for (k, e) in full_traces[i].iter().flatten().filter(|e| matches!(e, Ev::Method { .. })).enumerate() {
			let Ev::Method { es, .. } = e else { unreachable!() };
			want.push(match (d.method(k), es) { (Some(mm), Some(es)) => Some(project_method(es, &mm, &d.code(k)).iter().filter_map(lite_view).collect()), _ => None });
		}
		let got = got.unwrap_or_default();
		if got.len() != want.len() { fail(r, "lean visitor", format!("read {i}: {} methods visited, the full read reports {}", got.len(), want.len())); continue; }
		for (k, (g, w)) in got.iter().zip(&want).enumerate() {
			let ok = match (g, w) { (Some(a), Some(b)) => evs_match(a, b), (None, None) => true, _ => false };
			if !ok { fail(r, "lean visitor", format!("read {i}, method {k}: max_stack / max_locals / exception table / line numbers / local variables differ from the projection of the full read: received {} but the full read reports {}", short_list(g), short_list(w))); break; }
		}
	}
}
fn short_list(e: &Option<Vec<Ev>>) -> String { let s = format!("{e:?}"); if s.len() > 400 { format!("{}…", clip(&s, 0, 400)) } else { s } }

/// replaying the tree into duke's ready-made visitors: `()` must succeed, a SimpleClassVisitor sees what it sees when reading
fn ready_made_replay(r: &mut Report, cb: &ClassBytes, shape: &Option<edge::Shape>, tree: &ClassFile, d: &VDesc) {
	r.count("ready_made:replays");
	match guarded(AssertUnwindSafe(|| tree.clone().accept(()))) {
		Ok(Ok(())) => {}
		other => { let what = format!("ClassFile::accept into the visitor () {}", match other { Ok(Err(e)) => format!("failed: {e:#}"), _ => "panicked".into() }); r.violation(what.clone(), format!("property C17 (replay)\nwhat: {what}\nclass file: {}\nbytes (hex): {}\n", cb.name, hex(&cb.bytes))); }
	}
	// an at-most-once attribute twice in one item: the tree merges / overwrites (outside the hypothesis of the replay clause)
	if shape.as_ref().map(|s| s.duplicate_merged).unwrap_or(false) { return; }
	let read = guarded(AssertUnwindSafe(|| duke::read_class_multi(&mut Cursor::new(&cb.bytes), SimpleMulti { desc: d.clone(), result: None })));
	let replayed = guarded(AssertUnwindSafe(|| tree.clone().accept(SimpleMulti { desc: d.clone(), result: None })));
	match (read, replayed) {
		(Ok(Ok(a)), Ok(Ok(b))) => if let ReplayCmp::Differ(diff) = compare_replay(&b.result, &a.result) {
			let what = "ClassFile::accept delivers other events to a SimpleClassVisitor than reading the bytes does".to_owned();
			r.violation(what.clone(), format!("property C17 (replay)\nwhat: {what}\nclass file: {}\nvisitor: {d:?}\nfirst difference:\n{diff}\nbytes (hex): {}\n", cb.name, hex(&cb.bytes)));
		},
		(Ok(Ok(_)), other) => { let what = format!("ClassFile::accept into a SimpleClassVisitor {}", match other { Ok(Err(e)) => format!("failed: {e:#}"), _ => "panicked".into() }); r.violation(what.clone(), format!("property C17 (replay)\nwhat: {what}\nclass file: {}\nvisitor: {d:?}\nbytes (hex): {}\n", cb.name, hex(&cb.bytes))); }
		_ => {} // the read itself is judged by `ready_made`
	}
}

// ---------------------------------------------------------------- the caller's reader: decline patterns, other readers, read_class
/// what one read must have answered: success, the class's end as the CALLER's reader position, the projection of the full read
fn judge_reads(r: &mut Report, tag: &str, ans: &[ReadAns], descs: &[VDesc], ends: &[u64], full_traces: &[Option<Vec<Ev>>], head: &dyn Fn(&str) -> String) -> bool {
	let cfg_text = descs.iter().map(describe).collect::<Vec<_>>().join("\n  ");
	let mut ok = true;
	for i in 0..descs.len() {
		match ans.get(i) {
			None => break,
			Some(Err(e)) => {
				let what = format!("[{tag}] read {i} fails ({e}) although the full read of the same class succeeds (an earlier read left the caller's reader somewhere else than behind its class, or a declined / skipped item moved the stream)");
				r.violation(what.clone(), format!("{}what: {what}\n", head(&cfg_text)));
				return false;
			}
			Some(Ok((t, pos))) => {
				if *pos != ends[i] {
					let what = format!("[{tag}] after read {i} the caller's reader stands at position {pos}, the class file ends at {} (the next read_class_multi call on this reader does not find the next class)", ends[i]);
					r.violation(what.clone(), format!("{}what: {what}\n", head(&cfg_text)));
					ok = false;
				}
				let want = project_class(&full_traces[i], &descs[i]);
				let same = match (t, &want) { (Some(a), Some(b)) => evs_match(a, b), (None, None) => true, _ => false };
				if !same {
					let diff = match (t, &want) { (Some(a), Some(b)) => first_diff(a, b), _ => "class accepted/declined differently".into() };
					let what = format!("[{tag}] read {i}: the visitor did not receive the projection of the full read of class {i}: {diff}");
					r.violation(what.clone(), format!("{}what: {what}\n", head(&cfg_text)));
					ok = false;
				}
			}
		}
	}
	ok
}

/// Every accept / decline pattern over the classes of a concatenated stream (declined classes first, last and in the middle, several
/// in a row), the accepted classes read by a visitor without interests, a random partial visitor or the full visitor.  Each pattern
/// is read three times: from a `Cursor`, from the counting reader and from the counting reader handing out short reads; after every
/// call the position of the reader the harness owns is read again.  Returns the runs for the Coq model (Cursor answers).
fn decline_patterns(r: &mut Report, rng: &mut Rng, ctx: &Ctx, stream: &[u8], ends: &[u64], full_traces: &[Option<Vec<Ev>>], full_headers: &[String], head: &dyn Fn(&str) -> String) -> Vec<(Vec<VDesc>, Vec<ReadAns>)> {
	let k = ends.len();
	let mut to_model = vec![];
	for (p, pat) in stream::patterns(k).into_iter().enumerate() {
		let kind = p % 3;
		let descs: Vec<VDesc> = pat.iter().enumerate().map(|(i, acc)| {
			if !*acc { return VDesc { accept: false, ..VDesc::full() }; }
			match kind {
				0 => VDesc { class: vec![], method_default: Some(vec![]), code_default: Some(vec![]), ..VDesc::full() },
				1 => random_desc(rng, member_counts(&full_traces[i])),
				_ => VDesc::full(),
			}
		}).collect();
		let tag = format!("decline-pattern {}", pat.iter().map(|a| if *a { 'A' } else { 'D' }).collect::<String>());
		r.count("decline_pattern_runs");
		r.count(&format!("decline_pattern:declined_{}_of_{k}", pat.iter().filter(|a| !**a).count()));
		if pat.iter().zip(pat.iter().skip(1)).any(|(a, b)| !*a && *b) { r.count("decline_pattern:declined_class_followed_by_accepted_class"); }
		if k >= 3 && pat[0] && pat[k - 1] && pat[1..k - 1].iter().any(|a| !*a) { r.count("decline_pattern:declined_in_the_middle"); }
		// (a) std::io::Cursor
		let _ = take_headers();
		let ans = run_config(stream, &descs);
		r.evaluations += 1;
		judge_reads(r, &tag, &ans, &descs, ends, full_traces, head);
		check_headers(r, &tag, &take_headers(), full_headers, head, &descs.iter().map(describe).collect::<Vec<_>>().join("\n  "));
		// (b), (c) the counting reader, whole and short reads
		for chunk in [0usize, 1 + p % 5] {
			let mut c = stream::Counting::new(stream, chunk);
			let mut beyond = false;
			let mut seen_end = 0usize;
			let got = {
				let mut out = vec![];
				for d in &descs {
					let one = run_reads(&mut c, |c| c.pos, std::slice::from_ref(d));
					let Some(a) = one.into_iter().next() else { break };
					let stop = a.is_err();
					if let Some(e) = ends.get(seen_end) { if c.max_touched > *e { beyond = true; } }
					seen_end += 1;
					out.push(a);
					if stop { break; }
				}
				out
			};
			r.evaluations += 1;
			r.count(if chunk == 0 { "counting_reader_runs" } else { "counting_reader_short_read_runs" });
			r.count_n("counting_reader:read_calls", c.reads);
			r.count_n("counting_reader:seek_calls", c.seeks);
			if beyond { r.count("counting_reader:runs_with_read_ahead_beyond_the_class"); }
			let rtag = format!("{tag}, Read + Seek reader counting calls{}", if chunk == 0 { String::new() } else { format!(", at most {chunk} byte(s) per read call") });
			let fine = judge_reads(r, &rtag, &got, &descs, ends, full_traces, head);
			// the outcome must not depend on the kind of reader
			let same = got.len() == ans.len() && got.iter().zip(&ans).all(|(x, y)| match (x, y) { (Ok((t, p)), Ok((u, q))) => p == q && t == u, (Err(_), Err(_)) => true, _ => false });
			if fine && !same {
				let what = format!("[{rtag}] the reads answer differently than on a std::io::Cursor over the same bytes");
				let cfg_text = descs.iter().map(describe).collect::<Vec<_>>().join("\n  ");
				r.violation(what.clone(), format!("{}what: {what}\n", head(&cfg_text)));
			}
		}
		if ctx.thorough || kind != 2 || p < 3 { r.count("decline_patterns_to_model"); to_model.push((descs, ans)); }
	}
	to_model
}

/// successive `duke::read_class` calls on one reader: each returns the class it returns for the class file alone, and leaves the
/// caller's reader behind that class
fn read_class_successive(r: &mut Report, parts: &[&ClassBytes], stream: &[u8], ends: &[u64], head: &dyn Fn(&str) -> String) {
	let alone: Vec<Option<String>> = parts.iter().map(|p| match guarded(|| duke::read_class(&mut Cursor::new(&p.bytes))) { Ok(Ok(t)) => Some(format!("{t:?}")), _ => None }).collect();
	if alone.iter().any(|a| a.is_none()) { r.count("read_class_successive:skipped_tree_builder_rejects_a_class"); return; }
	let fail = |r: &mut Report, what: String| { r.violation(what.clone(), format!("{}what: {what}\n", head("duke::read_class called once per class on the one reader"))); };
	// ONE visitor handed from call to call: a Vec<ClassFile> collects the classes of the stream in order, one per call
	{
		let mut cur = Cursor::new(stream);
		let mut acc: Vec<ClassFile> = Vec::new();
		for i in 0..parts.len() {
			r.count("read_class_successive:accumulating_reads");
			match guarded(AssertUnwindSafe(|| duke::read_class_multi(&mut cur, std::mem::take(&mut acc)))) {
				Ok(Ok(v)) => {
					acc = v;
					if acc.len() != i + 1 { fail(r, format!("[read_class_multi into one Vec<ClassFile>] after call {i} the visitor holds {} classes, expected {}", acc.len(), i + 1)); break; }
					if cur.position() != ends[i] { fail(r, format!("[read_class_multi into one Vec<ClassFile>] after call {i} the caller's reader stands at position {}, the class file ends at {}", cur.position(), ends[i])); break; }
					if Some(format!("{:?}", acc[i])) != alone[i] || acc[..i].iter().zip(&alone).any(|(a, b)| Some(format!("{a:?}")) != *b) { fail(r, format!("[read_class_multi into one Vec<ClassFile>] after call {i} the collected classes are not the classes of the stream in order")); break; }
				}
				Ok(Err(e)) => { fail(r, format!("[read_class_multi into one Vec<ClassFile>] call {i} fails ({e:#})")); break; }
				Err(p) => { fail(r, format!("[read_class_multi into one Vec<ClassFile>] call {i} panicked: {p}")); break; }
			}
		}
	}
	for chunk in [usize::MAX, 0, 3] {
		let mut cur = Cursor::new(stream);
		let mut cnt = stream::Counting::new(stream, if chunk == usize::MAX { 0 } else { chunk });
		let which = if chunk == usize::MAX { "std::io::Cursor".to_owned() } else if chunk == 0 { "Read + Seek reader counting calls".to_owned() } else { format!("Read + Seek reader counting calls, at most {chunk} bytes per read call") };
		for i in 0..parts.len() {
			r.count("read_class_successive:reads");
			let (ans, pos) = if chunk == usize::MAX { let a = guarded(AssertUnwindSafe(|| duke::read_class(&mut cur))); (a, cur.position()) } else { let a = guarded(AssertUnwindSafe(|| duke::read_class(&mut cnt))); (a, cnt.pos) };
			match ans {
				Ok(Ok(t)) => {
					if pos != ends[i] { fail(r, format!("[read_class, {which}] after call {i} the caller's reader stands at position {pos}, the class file ends at {}", ends[i])); break; }
					if Some(format!("{t:?}")) != alone[i] { fail(r, format!("[read_class, {which}] call {i} on the concatenated stream returns another class than read_class on class file {i} alone")); break; }
				}
				Ok(Err(e)) => { fail(r, format!("[read_class, {which}] call {i} fails ({e:#}) although read_class reads class file {i} alone")); break; }
				Err(p) => { fail(r, format!("[read_class, {which}] call {i} panicked: {p}")); break; }
			}
		}
	}
}

// ---------------------------------------------------------------- one stream
/// which kinds of parsed values the full reads deliver (distribution of the value comparison with the model)
fn count_value_kinds(r: &mut Report, es: &[Ev]) {
	const KINDS: [&str; 13] = ["Byte(", "Char(", "Double(", "Float(", "Integer(", "Long(", "Short(", "Boolean(", "String(", "Enum {", "Class(", "AnnotationInterface(", "ArrayType("];
	for e in es {
		match e {
			Ev::Attr { name, content, val, cval, .. } if name.ends_with("TypeAnnotations") && (!val.is_empty() || !cval.is_empty()) => {
				r.count(&format!("value:{name}{}", if cval.is_empty() { "" } else { "@Code" }));
				// which target types and type path kinds the compared values hold (debug text of the TargetInfo* / TypePathKind variants)
				for t in content.split("type_reference: ").skip(1) {
					let v: String = t.chars().take_while(|c| c.is_ascii_alphanumeric()).collect();
					r.count(&format!("type_annotation_target:{v}"));
				}
				for k in ["ArrayDeeper", "NestedDeeper", "WildcardBound", "TypeArgument {"] { let n = content.matches(k).count() as u64; if n > 0 { r.count_n(&format!("type_path_kind:{}", k.trim_end_matches([' ', '{'])), n); } }
				if content.contains("path: []") { r.count("type_path_kind:empty-path"); }
			}
			Ev::Code { es: x, .. } => count_value_kinds(r, x),
			Ev::Attr { name, content, val, .. } if !val.is_empty() => {
				r.count(&format!("value:{name}"));
				if name != "Signature" && name != "SourceFile" {
					for k in KINDS { let n = content.matches(k).count() as u64; if n > 0 { r.count_n(&format!("value_kind:{}", k.trim_end_matches(['(', '{', ' '])), n); } }
					if content.contains("ArrayType([ArrayType(") || content.contains("AnnotationInterface(") && content.contains("ArrayType(") { r.count("value_kind:nested"); }
				}
			}
			Ev::Field { es: Some(x), .. } | Ev::Method { es: Some(x), .. } | Ev::Rc { es: Some(x), .. } => count_value_kinds(r, x),
			_ => {}
		}
	}
}

/// `light`: only the reference read, the decline patterns and the successive read_class calls (no per-class configurations)
fn do_stream(r: &mut Report, rng: &mut Rng, ctx: &Ctx, parts: &[&ClassBytes], stream_kind: &str, stream_no: usize, light: bool) {
	let stream: Vec<u8> = parts.iter().flat_map(|p| p.bytes.iter().copied()).collect();
	let ends: Vec<u64> = parts.iter().scan(0u64, |acc, p| { *acc += p.bytes.len() as u64; Some(*acc) }).collect();
	let names: Vec<&str> = parts.iter().map(|p| p.name.as_str()).collect();
	let replay_head = |cfg: &str| format!("property C17\nstream: {} class file(s) concatenated: {:?}\nstream bytes (hex): {}\nvisitor configuration per read: {cfg}\n", parts.len(), names, hex(&stream));

	// the reader / accept() recurse over user-supplied nesting (element values, type paths) and loop over declared counts:
	// a death that `guarded` cannot catch (stack overflow, abort, endless loop) is then reported with this input
	crumb(&replay_head("(the harness process died while reading / replaying this stream; configurations: full, then masks and decline choices)"));
	// reference: full accepting visitors
	let fulls: Vec<VDesc> = parts.iter().map(|_| VDesc::full()).collect();
	let _ = take_headers();
	let full_ans = run_config(&stream, &fulls);
	let full_headers = take_headers();
	let new = r.eval(&hex(&stream), full_ans.iter().all(|a| a.is_ok()));
	if !new { r.count("duplicate_stream"); }
	let mut runs: Vec<(Vec<VDesc>, Vec<ReadAns>)> = vec![(fulls.clone(), full_ans.clone())];
	if full_ans.len() != parts.len() || full_ans.iter().any(|a| a.is_err()) {
		// a class duke cannot read with the full visitor is outside the property (C01/C16 own that)
		r.count("stream_not_fully_readable");
		if let Some(Err(e)) = full_ans.iter().find(|a| a.is_err()) { r.notes.push(format!("not readable by duke with the full visitor: {:?}: {}", names, clip(e, 0, 300))); }
		// no correspondence case: the model does not parse attribute contents, where these failures come from.
		// What CAN be judged: a visitor that declines every class, or is interested in nothing, skips the contents the full visitor
		// stumbles over; where such a read succeeds it must still end exactly behind its class.
		let _ = &mut runs;
		for (tag, d) in [("decline-class", VDesc { accept: false, ..VDesc::full() }), ("no-interest", VDesc { class: vec![], method_default: Some(vec![]), code_default: Some(vec![]), ..VDesc::full() })] {
			let descs: Vec<VDesc> = parts.iter().map(|_| d.clone()).collect();
			let ans = run_config(&stream, &descs);
			r.count("unreadable_stream:skipping_reads");
			for (i, a) in ans.iter().enumerate() {
				if let Ok((_, pos)) = a {
					r.count("unreadable_stream:skipping_read_succeeds");
					if *pos != ends[i] {
						let what = format!("[{tag}] read {i} of a stream the full visitor cannot read succeeds but leaves the caller's reader at position {pos}, the class file ends at {}", ends[i]);
						r.violation(what.clone(), format!("{}what: {what}\n", replay_head(&describe(&d))));
					}
				}
			}
		}
		return;
	}
	let full_traces: Vec<Option<Vec<Ev>>> = full_ans.iter().map(|a| a.as_ref().unwrap().0.clone()).collect();
	if new { for t in full_traces.iter().flatten() { count_value_kinds(r, t); } }
	// position exactness of the reference read
	for (i, a) in full_ans.iter().enumerate() {
		let pos = a.as_ref().unwrap().1;
		if pos != ends[i] {
			let what = format!("full read {i} ended at stream position {pos}, the class file ends at {}", ends[i]);
			r.violation(what.clone(), format!("{}what: {what}\n", replay_head("full")));
		}
	}

	let tree = if parts.len() == 1 { match guarded(|| duke::read_class(&mut Cursor::new(&parts[0].bytes))) { Ok(Ok(t)) => Some(t), _ => None } } else { None };
	let shape = if parts.len() == 1 { edge::shape(&parts[0].bytes) } else { None };
	let mut replay_runs: Vec<(VDesc, Option<Vec<Ev>>)> = vec![];
	let mut rebuilt = false;
	if let Some(tree) = &tree {
		rebuilt = rebuild_check(r, parts[0], tree);
		if stream_no % 8 == 0 { partial_max_probe(r, parts[0], tree); }
		// replaying into the full recording visitor
		if let Some(Some(got)) = Some(replay_masked(r, parts[0], &shape, tree, "full", &VDesc::full(), &full_traces[0])) { replay_runs.push((VDesc::full(), got)); }
	} else if parts.len() == 1 { r.count("replay_no_tree:tree_builder_rejects_the_class"); }
	// configurations: per class its own list; combined position-wise (shorter lists are padded with the full visitor)
	let per_class: Vec<Vec<(String, VDesc)>> = if light { full_traces.iter().map(|_| vec![]).collect() } else { full_traces.iter().map(|t| configs(rng, member_counts(t), ctx.thorough, r)).collect() };
	let n = per_class.iter().map(|c| c.len()).max().unwrap_or(0);
	for j in 0..n {
		let descs: Vec<VDesc> = per_class.iter().map(|c| c.get(j).map(|x| x.1.clone()).unwrap_or_else(VDesc::full)).collect();
		let kind = per_class.iter().filter_map(|c| c.get(j)).map(|x| x.0.as_str()).next().unwrap_or("full").to_owned();
		let _ = take_headers();
		let ans = run_config(&stream, &descs);
		r.evaluations += 1;
		let cfg_text = descs.iter().map(describe).collect::<Vec<_>>().join("\n  ");
		check_headers(r, &kind, &take_headers(), &full_headers, &replay_head, &cfg_text);
		// oracle: every read succeeds, ends at the end of its class, and delivers the projection of the full read
		for i in 0..parts.len() {
			match ans.get(i) {
				None => break,
				Some(Err(e)) => {
					let what = format!("[{kind}] read {i} with a partial/declining visitor fails ({e}) although the full read of the same class succeeds");
					r.violation(what.clone(), format!("{}what: {what}\n", replay_head(&cfg_text)));
					break;
				}
				Some(Ok((t, pos))) => {
					if *pos != ends[i] {
						let what = format!("[{kind}] read {i} ended at stream position {pos}, the class file ends at {} (a skipped or declined item moved the stream)", ends[i]);
						r.violation(what.clone(), format!("{}what: {what}\n", replay_head(&cfg_text)));
					}
					let want = project_class(&full_traces[i], &descs[i]);
					let ok = match (t, &want) { (Some(a), Some(b)) => evs_match(a, b), (None, None) => true, _ => false };
					if !ok {
						let diff = match (t, &want) { (Some(a), Some(b)) => first_diff(a, b), _ => "class accepted/declined differently".into() };
						let what = format!("[{kind}] read {i}: the partial visitor did not receive the projection of the full read: {diff}");
						r.violation(what.clone(), format!("{}what: {what}\n", replay_head(&cfg_text)));
					}
				}
			}
		}
		let to_model = if ctx.thorough { (j + stream_no) % 3 != 0 } else { (j + stream_no) % 5 == 0 };
		if (j + stream_no) % 6 == 1 || kind.starts_with("alternating") {
			ready_made(r, &stream, &ends, &full_traces, &descs, j < 6, &replay_head);
			if let Some(tree) = &tree { ready_made_replay(r, parts[0], &shape, tree, &descs[0]); }
		}
		if parts.len() == 1 {
			if let (Some(tree), Some(Ok((t, _)))) = (&tree, ans.first()) {
				if let Some(got) = replay_masked(r, parts[0], &shape, tree, &kind, &descs[0], t) { if to_model && (!ctx.thorough || j % 2 == 0) { replay_runs.push((descs[0].clone(), got)); } }
			}
		}
		// every configuration goes through the oracle; the Coq model gets two thirds of them (rotating) in the thorough tier
		// and a rotating fifth of them in the quick tier (the case files are the expensive part)
		if to_model { r.count("configs_to_model"); runs.push((descs, ans)); }
	}
	if parts.len() >= 2 {
		runs.extend(decline_patterns(r, rng, ctx, &stream, &ends, &full_traces, &full_headers, &replay_head));
		read_class_successive(r, parts, &stream, &ends, &replay_head);
	}
	let pcs: Vec<Vec<MethodPcs>> = parts.iter().map(|p| pcs_of(&p.bytes)).collect();
	r.case(stream_kind, g_case(&stream, &pcs, &runs));
	if parts.len() == 1 {
		r.count_n("replay_configs_to_model", replay_runs.len() as u64);
		r.case(&format!("replay-{stream_kind}"), g_replay_case(&stream, &pcs[0], tree.is_some(), rebuilt, &replay_runs));
	}
}

pub fn run(ctx: &Ctx) -> anyhow::Result<Report> {
	let mut r = Report::new("C17", "C17.Run");
	// debugging aid: C17_PANIC_TRACE=1 prints where a panic was raised (panics of the implementation are results, not output)
	if std::env::var_os("C17_PANIC_TRACE").is_some() { std::panic::set_hook(Box::new(|i| eprintln!("panic: {i}"))); }
	let mut rng = Rng::new(ctx.seed);
	r.shard_size = 16;
	r.rule = "streams = class files alone and random concatenations of 2..4 of them read by successive read_class_multi calls on one cursor. Class files: corpus/C17 (javac 17, --release 8 and 17, with/without -g -parameters: records, sealed classes, annotations of every element kind, type annotations, lambdas, switches, module-info), the shared corpus/classes (javac r8/r11/r17, 260 third-party and JDK classes, crafted classes with unknown attributes at every level, Synthetic, SourceDebugExtension, predefined names at foreign locations; quick tier: every third file of the javac/JDK sample), /repo's fixtures, and classes freshly generated from the seed by fbh::classfile::gen with shuffled attribute order. Per stream: full visitor, class declined, no interests, every single-bit (thorough: and all-but-one) class / method / code interest mask, decline every k-th (k=1..3) field / method / visit_code / record component, per-member ALTERNATING masks (neighbouring methods / visit_code answers of one class get different interests: all|none, code|all-but-code, single bits, period 1 and 2, with every third method declined; fields / record components alternately accepted), random per-member masks and decline choices. A rotating sixth of the configurations (and every alternating one) additionally through duke's ready-made visitors: `()` (position), a SimpleClassVisitor (interests fields + methods; projection oracle), the leanest visitor (fields Infallible, annotations / unknown attributes into (), default visit_instruction; max_stack / max_locals / exception table / line numbers / local variables against the projection), and ClassFile::accept into () and into the SimpleClassVisitor. One evaluation = one (stream, configuration) run through the real reader with the projection, position and masked-replay oracles; one correspondence case = one stream with its configurations (quick: a rotating fifth of them, thorough: two thirds) through the Coq model — event trace, stream positions, and the ROWS of every line-number / local-variable table and exception table handed to a code visitor (labels as bytecode offsets, names / descriptors / signatures by checksum against the pool entry the model's row designates; same rows, same order) — which also checks that the stream decodes to well-formed class structures (the hypothesis of the theorems). Replay: for every single-class stream the tree of duke::read_class is replayed (ClassFile::accept) into the tree builder (must give an equal tree), into the full recording visitor and into every configuration's recording visitor; oracle = the replayed trace equals the trace of reading the bytes with the same visitor (attribute-level events of one item as a multiset, members and instructions in order, contents by debug text), with the known class F20a (annotations attribute without annotations) recognised by a relaxed comparison PLUS the class file actually containing such an attribute (a LocalVariable(Type)Table without rows — the former F20b — is compared like everything else: an empty table reaches exactly the visitors interested in both tables, reading and replaying), and classes with a duplicated merged attribute counted as outside the hypothesis; one `replay-*` correspondence case per class = the recorded accept traces (quick: a rotating fifth of the configurations) against the Coq model of accept() in accept()'s own order, model tree builder succeeds iff duke's does, rebuilt tree equal. Edge inputs (stream kind `edge`): edits of generated classes and of corpus/C17 through fbh::classfile::raw — present-but-empty annotation lists at every level, empty InnerClasses / NestMembers / PermittedSubclasses / Record / Exceptions / MethodParameters, LineNumberTable / LocalVariableTable / LocalVariableTypeTable / StackMapTable without rows (alone and next to tables with rows), flags-only Deprecated / Synthetic, Signature at every level, an annotations attribute twice in one item, the ROWS of a Code's LocalVariableTable / LocalVariableTypeTable / LineNumberTable redistributed over several attributes in other orders (type table before table, one attribute per row shuffled, halves alternating, a type table between two tables; a type table synthesised where the class has none), a CLDC `StackMap` attribute with 0..3 entries in ascending / descending / mixed offset order; corpus/C17/replay/*.class are the witnesses of the Coq refutation theorems byte for byte. The CALLER's reader (stream kinds `concat*` and `decline*`: 2..4 class files, mostly small, some streams longer than 8 / 16 / 64 KiB): EVERY accept / decline pattern over the classes (declined first, last, in the middle, several in a row; accepted classes read without interests, by a random partial visitor or by the full visitor), each pattern read from a std::io::Cursor, from a Read + Seek reader written in the harness that keeps its own position from the calls it receives and counts them, and from the same reader handing out 1..5 bytes per read call; after EVERY call the position of the reader the harness owns is read again and must be the end of that class; all three readers must answer alike; the Cursor answers of every pattern go to the Coq model (positions and traces). Successive duke::read_class calls on one reader (three reader kinds) and ONE Vec<ClassFile> handed from read_class_multi call to call: each class equal to the class read alone, position behind it. The class header handed to visit_class is the same for every visitor. Parsed VALUES: for RuntimeVisible/InvisibleAnnotations (element_value trees of every kind, nested), RuntimeVisible/InvisibleTypeAnnotations at class, field, method and Code level (target_type and target_info from the TargetInfo* variant handed over, labels as bytecode offsets, type_path, annotation; all 23 target variants and all four path kinds occur; edge kind `type-annotation-values`: per location every admitted target type with indices 0 / 255 / 65534 / 65535, local-variable targets without rows / spanning the whole code / several rows, paths empty, of each kind, mixed and 255 entries long), AnnotationDefault, Signature, SourceFile and the attributes that are rows of pool indices (InnerClasses, EnclosingMethod, NestHost, NestMembers, PermittedSubclasses, ModuleMainClass, ModulePackages, Exceptions, MethodParameters) the recording visitors flatten what they were handed (duke's public Annotation / ElementValue / Object / InnerClass … values; strings as checksums, numeric constants as bits) and the Coq model parses the same value from the attribute body and the constant pool — compared on every event of every correspondence case, for reads and for replays, at class, field and method level; likewise ConstantValue (the variant handed over — through duke's own field builder — as the tag of the pool entry kind it stands for, written in the harness independently of duke's constants, and the bits of the number / the checksum of the string: int, float, long, double and String constants occur) and Module (name, flags, version, requires, exports, opens, uses, provides with their nested vectors; the rows of requires / exports / opens have crate-private fields and are read off their debug text, a Module whose strings there would need an escape is compared by name only) against the model's attr_value2 (edge kind `module-flags`: every flags word of a Module attribute — module, requires, exports, opens — set to single bits incl. the ones duke's flag types do not keep, all bits, random words); edge kind `annotation-values`: byte / char / short / boolean constants over WIDE int entries (narrowing), NaNs with payloads, extreme longs, empty / non-ASCII strings, empty arrays, annotations without pairs, repeated pair names, nesting 1..6 and exactly 64 deep (the reader's limit). If the full visitor cannot read more than a tenth of the streams the run reports that with the first such stream (otherwise such streams are outside the property and only counted). Non-trivial = duke reads every class of the stream with the full visitor; distinct by stream bytes.".into();

	let mut classes = load_classes(&mut r);
	if classes.is_empty() { anyhow::bail!("no class files found"); }
	if !ctx.thorough {
		// quick tier: the property's own corpus, the crafted classes and /repo's fixtures always; of the large javac / JDK sample every third file (rotating with the seed)
		let mut k = 0usize;
		classes.retain(|c| {
			if c.name.contains("/corpus/C17/") || c.name.contains("/crafted/") || !c.name.contains("/corpus/classes/") { return true; }
			k += 1; (k + ctx.seed as usize) % 3 == 0
		});
		r.count_n("quick_tier_class_files", classes.len() as u64);
	}
	// single-class streams
	for (no, cb) in classes.iter().enumerate() {
		do_stream(&mut r, &mut rng, ctx, &[cb], "single", no, false);
	}
	// freshly generated classes (fbh::classfile::gen): every attribute kind at every level, unknown attributes,
	// predefined names at foreign locations, exotic strings; attribute order shuffled by the knobs
	let n_gen = if ctx.thorough { 250 } else { 40 };
	let cfg = fbh::classfile::gen::GenCfg::default();
	let mut generated: Vec<ClassBytes> = vec![];
	for i in 0..n_gen {
		let spec = fbh::classfile::gen::gen_class(&mut rng, &cfg);
		let family = fbh::classfile::asm::Knobs::family(rng.next());
		let knobs = &family[rng.below(family.len())];
		match guarded(AssertUnwindSafe(|| fbh::classfile::asm::try_assemble(&spec, knobs))) {
			Ok(Ok(bytes)) => { r.count("generated_classes"); generated.push(ClassBytes { name: format!("generated #{i} (seed {})", ctx.seed), bytes }); }
			_ => r.count("generated_not_assembled"),
		}
	}
	for (no, cb) in generated.iter().enumerate() {
		do_stream(&mut r, &mut rng, ctx, &[cb], "generated", no, false);
	}
	// edge cases for replay: present-but-empty lists, flags-only attributes, the same attribute at every level,
	// duplicated annotation attributes — edits of generated classes and of the property's own corpus
	let mut edges: Vec<ClassBytes> = vec![];
	{
		let bases: Vec<&ClassBytes> = generated.iter().take(if ctx.thorough { 100 } else { 40 }).chain(classes.iter().filter(|c| c.name.contains("/corpus/C17/"))).collect();
		let n_sys = if ctx.thorough { 8 } else { 4 };
		for (bi, b) in bases.iter().enumerate() {
			let mut todo: Vec<Vec<&str>> = vec![];
			if bi < n_sys { for k in edge::KINDS { todo.push(vec![k]); } }
			let n_rand = if ctx.thorough { 2 } else { 1 };
			// (the last kind makes the class unreadable for the full visitor: only on its own, never mixed into the other edits)
			for _ in 0..n_rand { let n = rng.range(1, 3); todo.push((0..n).map(|_| *rng.pick(&edge::KINDS[..edge::KINDS.len() - 1])).collect()); }
			for kinds in todo {
				match guarded(AssertUnwindSafe(|| edge::make(&mut rng, &b.bytes, &kinds))) {
					Ok(Some(bytes)) => { for k in &kinds { r.count(&format!("edge:{k}")); } edges.push(ClassBytes { name: format!("edge {kinds:?} of {}", b.name), bytes }); }
					_ => r.count("edge_not_applicable"),
				}
			}
		}
	}
	for (no, cb) in edges.iter().enumerate() {
		do_stream(&mut r, &mut rng, ctx, &[cb], "edge", no, false);
	}
	classes.extend(generated);
	classes.extend(edges);
	// concatenations of 2..4 class files
	let n_concat = if ctx.thorough { 40 } else { 8 };
	for no in 0..n_concat {
		let k = rng.range(2, 4);
		let parts: Vec<&ClassBytes> = (0..k).map(|_| &classes[rng.below(classes.len())]).collect();
		if parts.iter().map(|p| p.bytes.len()).sum::<usize>() > 12_000 { r.count("concat_skipped_large"); continue; }
		do_stream(&mut r, &mut rng, ctx, &parts, &format!("concat{k}"), no, false);
	}
	// decline patterns: streams of 2..4 class files, EVERY accept / decline pattern over them (see `decline_patterns`); small
	// classes mostly, and a few streams longer than 8 / 16 / 64 KiB (the sizes of common read buffers) with a large class first,
	// in the middle or last
	let small: Vec<&ClassBytes> = classes.iter().filter(|c| c.bytes.len() <= 1500).collect();
	let large: Vec<&ClassBytes> = classes.iter().filter(|c| c.bytes.len() > 9000 && c.bytes.len() < 40_000).collect();
	let n_decl = if ctx.thorough { 36 } else { 12 };
	if !small.is_empty() {
		for no in 0..n_decl {
			let k = 2 + no % 3;
			let mut parts: Vec<&ClassBytes> = (0..k).map(|_| small[rng.below(small.len())]).collect();
			if no % 6 == 5 && !large.is_empty() {
				// one large class (position rotating), for the longest stream several
				let at = (no / 6) % k;
				parts[at] = large[rng.below(large.len())];
				if no + 6 >= n_decl { for q in parts.iter_mut() { if rng.chance(1, 2) { *q = large[rng.below(large.len())]; } } }
			}
			let total: usize = parts.iter().map(|p| p.bytes.len()).sum();
			r.count(if total > 65536 { "decline_stream:longer_than_64KiB" } else if total > 16384 { "decline_stream:longer_than_16KiB" } else if total > 8192 { "decline_stream:longer_than_8KiB" } else { "decline_stream:up_to_8KiB" });
			do_stream(&mut r, &mut rng, ctx, &parts, &format!("decline{k}"), no, true);
		}
	}
	// Streams that the FULL visitor cannot read are outside the property and are not judged; a handful of corpus classes are like
	// that (duke refuses a type reference javac writes).  If that becomes the rule, nothing is judged any more: reported with the
	// first such stream as the failing input.
	let unread = r.dist.get("stream_not_fully_readable").copied().unwrap_or(0);
	let streams = r.evaluations.max(1).min(r.dist.iter().filter(|(k, _)| k.starts_with("stream:") && !k.starts_with("stream:replay")).map(|(_, v)| *v).sum::<u64>() + unread).max(1);
	if unread * 10 > streams {
		let first = r.notes.iter().find(|n| n.starts_with("not readable by duke with the full visitor")).cloned().unwrap_or_default();
		let what = format!("the full visitor fails on {unread} of {streams} streams of well-formed class files (javac corpus, generated classes), so partial and declining visitors are no longer compared with anything");
		r.violation(what.clone(), format!("property C17\nwhat: {what}\nfirst stream: {first}\n"));
	}
	Ok(r)
}

fn main() -> anyhow::Result<()> { fbh::main_with(run) }
