//! The CALLER's reader, observed from outside.
//!
//! The property speaks about the stream the caller hands to `duke::read_class_multi` / `duke::read_class`: after
//! every call it must stand exactly behind the class that was read, whatever the visitor skipped or declined, so
//! that the next call finds the next class.  What duke does to the reader internally (wrap it, buffer it, seek
//! relative or absolute) is invisible to the caller except through that position.  Two readers are used:
//! `std::io::Cursor` (position read again after every call) and `Counting`, a `Read + Seek` written here that keeps
//! its own position from the calls it receives, counts them, can hand out short reads (legal for `Read`), and
//! remembers the furthest byte that was ever asked for (read-ahead beyond the class is counted, not judged).
use std::io::{Read, Seek, SeekFrom};

pub struct Counting<'a> {
	pub data: &'a [u8],
	pub pos: u64,
	pub reads: u64,
	pub seeks: u64,
	/// one past the last byte ever handed out
	pub max_touched: u64,
	/// at most this many bytes per `read` call (0 = as many as asked for)
	pub chunk: usize,
}

impl<'a> Counting<'a> {
	pub fn new(data: &'a [u8], chunk: usize) -> Counting<'a> { Counting { data, pos: 0, reads: 0, seeks: 0, max_touched: 0, chunk } }
}

impl Read for Counting<'_> {
	fn read(&mut self, buf: &mut [u8]) -> std::io::Result<usize> {
		self.reads += 1;
		let start = (self.pos.min(self.data.len() as u64)) as usize;
		let mut n = buf.len().min(self.data.len() - start);
		if self.chunk > 0 { n = n.min(self.chunk); }
		buf[..n].copy_from_slice(&self.data[start..start + n]);
		self.pos += n as u64;
		if n > 0 { self.max_touched = self.max_touched.max(self.pos); }
		Ok(n)
	}
}

impl Seek for Counting<'_> {
	fn seek(&mut self, to: SeekFrom) -> std::io::Result<u64> {
		self.seeks += 1;
		let (base, off) = match to {
			SeekFrom::Start(p) => { self.pos = p; return Ok(p); }
			SeekFrom::End(o) => (self.data.len() as u64, o),
			SeekFrom::Current(o) => (self.pos, o),
		};
		match base.checked_add_signed(off) {
			Some(p) => { self.pos = p; Ok(p) }
			None => Err(std::io::Error::new(std::io::ErrorKind::InvalidInput, "invalid seek to a negative or overflowing position")),
		}
	}
}

/// all accept (true) / decline (false) patterns for k successive reads, the all-accept pattern first
pub fn patterns(k: usize) -> Vec<Vec<bool>> {
	(0..(1usize << k)).map(|bits| (0..k).map(|i| bits & (1 << i) == 0).collect()).collect()
}
